import MD.Model.Decompose
import MD.Proofs.IsoFitLemmas
import Mathlib.Tactic.Linarith
import Mathlib.Tactic.Ring
import Mathlib.Tactic.FieldSimp
import Mathlib.Tactic.Positivity

/-! # Lemmas about `decompose` (C06, C07)

Part A (over the bare operation classes of the model, so also valid at `Float`): a normal form of
`decompose` as four stages

  `dec_validate` (functional / level)  →  `dec_shape` (length checks)  →
  `dec_marginal` (marginal functional and its score)  →  `List.mapM dec_row` (one row per column),

and inversion lemmas for a successful call.  Part B (ordered fields): the analytic facts. -/

set_option linter.unusedSectionVars false

namespace MD

/-! ## A. Normal form -/

section Struct
variable {K : Type} [LE K] [DecidableLE K] [LT K] [DecidableLT K]
  [Add K] [Sub K] [Mul K] [Div K] [Neg K] [Zero K] [One K] [NatCast K] [Min K] [Max K]
  [ScoreOps K] [Inhabited K]

/-- the functional `decompose` works with: the one given, or the score's own -/
def dec_fn (sf : SF K) (fnGiven : Option (Option Functional)) : Option Functional :=
  match fnGiven with
  | some f => f
  | none => sfFunctional sf

/-- the level `decompose` works with -/
def dec_lv (sf : SF K) (fn : Option Functional) (lvGiven : Option K) : Except Err K :=
  match lvGiven with
  | some l => pure l
  | none =>
    if fn = some .expectile ∨ fn = some .quantile then
      match sfLevel sf with
      | some l => pure l
      | none => throw Err.valueError
    else pure half

/-- `yminAllowed` -/
def dec_yminAllowed (sf : SF K) (ys : List K) (w : Option (List K)) : Bool :=
  match sfMean sf [ys[0]!] [ys.foldl min ys[0]!] (w.map (fun w' => w'.take 1)) with
  | .error Err.valueError => false
  | _ => true

/-- recalibrated forecasts of one column -/
def dec_recal (sf : SF K) (f : Functional) (lv : K) (ys : List K) (w : Option (List K))
    (x : List K) : Except Err (List K) := do
  let (tx, ty) ← isoFit (some f) lv true x ys w
  let recal := x.map (interp tx ty)
  if dec_yminAllowed sf ys w = false ∧ recal.foldl min recal[0]! ≤ ys.foldl min ys[0]! then
    repair f lv recal w (ys.foldl min ys[0]!) else pure recal

/-- the row of one column -/
def dec_row (sf : SF K) (f : Functional) (lv : K) (ys : List K) (w : Option (List K))
    (scoreMarg : K) (x : List K) : Except Err (DecompRow K) := do
  let recal ← dec_recal sf f lv ys w x
  let score ← sfMean sf ys x w
  let scoreRecal ← sfMean sf ys recal w
  pure ⟨score - scoreRecal, scoreMarg - scoreRecal, scoreMarg, score⟩

/-- the shape checks -/
def dec_shape (ys : List K) (cols : List (List K)) (w : Option (List K)) : Except Err Unit := do
  if cols.any (fun c => c.length ≠ ys.length) then throw Err.valueError
  match w with
  | some w' => if w'.length ≠ ys.length then throw Err.valueError else pure ()
  | none => pure ()
  if ys = [] then throw Err.other

/-- marginal stage: `(marginal, scoreMarg)` -/
def dec_marginal (sf : SF K) (f : Functional) (lv : K) (ys : List K) (w : Option (List K)) :
    Except Err (K × K) := do
  let marginal ← functionalVal f lv ys w
  if eqK ys[0]! marginal ∧ eqK marginal ys[ys.length - 1]! then
    match sfMean sf [ys[0]!] [marginal] none with
    | .error Err.valueError => throw Err.valueError
    | _ => pure ()
  let scoreMarg ← sfMean sf ys (ys.map (fun _ => marginal)) w
  pure (marginal, scoreMarg)

/-- the part of `decompose` after the shape checks, verbatim -/
def dec_tail (sf : SF K) (f : Functional) (lv : K) (ys : List K) (cols : List (List K))
    (w : Option (List K)) : Except Err (List (DecompRow K)) := do
  let marginal ← functionalVal f lv ys w
  let y0 := ys[0]!
  let yl := ys[ys.length - 1]!
  if eqK y0 marginal ∧ eqK marginal yl then
    match sfMean sf [y0] [marginal] none with
    | .error Err.valueError => throw Err.valueError
    | _ => pure ()
  let ymin := ys.foldl min y0
  let yminAllowed := match sfMean sf [y0] [ymin] (w.map (fun w' => w'.take 1)) with
    | .error Err.valueError => false
    | _ => true
  let margArr := ys.map (fun _ => marginal)
  let scoreMarg ← sfMean sf ys margArr w
  cols.mapM (fun x => do
    let (tx, ty) ← isoFit (some f) lv true x ys w
    let recal := x.map (interp tx ty)
    let recal ← if yminAllowed = false ∧ recal.foldl min recal[0]! ≤ ymin then repair f lv recal w ymin else pure recal
    let score ← sfMean sf ys x w
    let scoreRecal ← sfMean sf ys recal w
    pure ⟨score - scoreRecal, scoreMarg - scoreRecal, scoreMarg, score⟩)

/-- everything after the functional and the level are fixed, verbatim -/
def dec_core (sf : SF K) (p : Functional × K) (ys : List K) (cols : List (List K))
    (w : Option (List K)) : Except Err (List (DecompRow K)) := do
  let (f, lv) := p
  if cols.any (fun c => c.length ≠ ys.length) then throw Err.valueError
  match w with
  | some w' => if w'.length ≠ ys.length then throw Err.valueError else pure ()
  | none => pure ()
  if ys = [] then throw Err.other
  dec_tail sf f lv ys cols w

theorem dec_eq_core (sf : SF K) (fnGiven : Option (Option Functional)) (lvGiven : Option K)
    (ys : List K) (cols : List (List K)) (w : Option (List K)) :
    decompose sf fnGiven lvGiven ys cols w = (do
      let lv ← dec_lv sf (dec_fn sf fnGiven) lvGiven
      let f ← match dec_fn sf fnGiven with
        | some f => pure f
        | none => throw Err.valueError
      if (f = .expectile ∨ f = .quantile) ∧ (lv ≤ 0 ∨ 1 ≤ lv) then throw Err.valueError
      dec_core sf (if f = .median then (Functional.quantile, (half : K)) else (f, lv)) ys cols w) := by
  unfold decompose dec_core dec_lv
  cases lvGiven with
  | some l => rfl
  | none =>
    show (if dec_fn sf fnGiven = some .expectile ∨ dec_fn sf fnGiven = some .quantile then _ else _) = _
    by_cases h : dec_fn sf fnGiven = some .expectile ∨ dec_fn sf fnGiven = some .quantile
    · rw [if_pos h]
      simp only [if_pos h]
      cases sfLevel sf <;> rfl
    · rw [if_neg h]
      simp only [if_neg h]
      rfl


theorem dec_row_fun (sf : SF K) (f : Functional) (lv : K) (ys : List K) (w : Option (List K))
    (scoreMarg : K) :
    (fun x => do
      let (tx, ty) ← isoFit (some f) lv true x ys w
      let recal := x.map (interp tx ty)
      let recal ← if dec_yminAllowed sf ys w = false ∧ recal.foldl min recal[0]! ≤ ys.foldl min ys[0]! then repair f lv recal w (ys.foldl min ys[0]!) else pure recal
      let score ← sfMean sf ys x w
      let scoreRecal ← sfMean sf ys recal w
      pure (⟨score - scoreRecal, scoreMarg - scoreRecal, scoreMarg, score⟩ : DecompRow K))
    = dec_row sf f lv ys w scoreMarg := by
  funext x
  unfold dec_row dec_recal
  cases isoFit (some f) lv true x ys w with
  | error e => rfl
  | ok a =>
    obtain ⟨tx, ty⟩ := a
    by_cases hc : dec_yminAllowed sf ys w = false ∧
        List.foldl min (x.map (interp tx ty))[0]! (x.map (interp tx ty)) ≤ List.foldl min ys[0]! ys
    · show (if _ then _ else _) = Except.bind (if _ then _ else _) _
      rw [if_pos hc, if_pos hc]; rfl
    · show (if _ then _ else _) = Except.bind (if _ then _ else _) _
      rw [if_neg hc, if_neg hc]; rfl

theorem dec_core_eq (sf : SF K) (p : Functional × K) (ys : List K) (cols : List (List K))
    (w : Option (List K)) :
    dec_core sf p ys cols w = (do
      dec_shape ys cols w
      dec_tail sf p.1 p.2 ys cols w) := by
  obtain ⟨f, lv⟩ := p
  unfold dec_core dec_shape
  by_cases h1 : cols.any (fun c => decide (c.length ≠ ys.length)) = true
  · simp only [if_pos h1]; rfl
  by_cases h3 : ys = []
  · cases w with
    | some w' =>
      by_cases h2 : w'.length ≠ ys.length
      · simp only [if_neg h1, if_pos h2]; rfl
      · simp only [if_neg h1, if_neg h2, if_pos h3]
    | none => simp only [if_neg h1, if_pos h3]
  · cases w with
    | some w' =>
      by_cases h2 : w'.length ≠ ys.length
      · simp only [if_neg h1, if_pos h2]; rfl
      · simp only [if_neg h1, if_neg h2, if_neg h3]; rfl
    | none => simp only [if_neg h1, if_neg h3]; rfl

theorem dec_ok_bind {ε α β : Type} (a : α) (k : α → Except ε β) : (Except.ok a >>= k) = k a := rfl
theorem dec_error_bind {ε α β : Type} (e : ε) (k : α → Except ε β) :
    ((Except.error e : Except ε α) >>= k) = Except.error e := rfl

theorem dec_tail_eq (sf : SF K) (f : Functional) (lv : K) (ys : List K) (cols : List (List K))
    (w : Option (List K)) :
    dec_tail sf f lv ys cols w = (do
      let q ← dec_marginal sf f lv ys w
      cols.mapM (dec_row sf f lv ys w q.2)) := by
  unfold dec_tail dec_marginal
  cases functionalVal f lv ys w with
  | error e => rfl
  | ok m =>
    have key : ∀ sm : K, (List.mapM (fun x => do
          let (tx, ty) ← isoFit (some f) lv true x ys w
          let recal := x.map (interp tx ty)
          let recal ← if (match sfMean sf [ys[0]!] [ys.foldl min ys[0]!] (w.map (fun w' => w'.take 1)) with
              | .error Err.valueError => false
              | _ => true) = false ∧ recal.foldl min recal[0]! ≤ ys.foldl min ys[0]! then repair f lv recal w (ys.foldl min ys[0]!) else pure recal
          let score ← sfMean sf ys x w
          let scoreRecal ← sfMean sf ys recal w
          pure (⟨score - scoreRecal, sm - scoreRecal, sm, score⟩ : DecompRow K)) cols)
        = List.mapM (dec_row sf f lv ys w sm) cols := fun sm =>
      congrArg (fun g => List.mapM g cols) (dec_row_fun sf f lv ys w sm)
    have fin : (do
          let scoreMarg ← sfMean sf ys (ys.map (fun _ => m)) w
          List.mapM (fun x => do
            let (tx, ty) ← isoFit (some f) lv true x ys w
            let recal := x.map (interp tx ty)
            let recal ← if (match sfMean sf [ys[0]!] [ys.foldl min ys[0]!] (w.map (fun w' => w'.take 1)) with
                | .error Err.valueError => false
                | _ => true) = false ∧ recal.foldl min recal[0]! ≤ ys.foldl min ys[0]! then repair f lv recal w (ys.foldl min ys[0]!) else pure recal
            let score ← sfMean sf ys x w
            let scoreRecal ← sfMean sf ys recal w
            pure (⟨score - scoreRecal, scoreMarg - scoreRecal, scoreMarg, score⟩ : DecompRow K)) cols)
        = (do
          let q ← (do
            let scoreMarg ← sfMean sf ys (ys.map (fun _ => m)) w
            pure (m, scoreMarg))
          cols.mapM (dec_row sf f lv ys w q.2)) := by
      cases sfMean sf ys (ys.map (fun _ => m)) w with
      | error e => rfl
      | ok sm => exact key sm
    rw [dec_ok_bind, dec_ok_bind]
    by_cases hc : eqK ys[0]! m ∧ eqK m ys[ys.length - 1]!
    · rw [if_pos hc, if_pos hc]
      cases sfMean sf [ys[0]!] [m] none with
      | error e => cases e <;> first | rfl | exact fin
      | ok v => exact fin
    · rw [if_neg hc, if_neg hc]
      exact fin

/-- validation of functional and level: the effective pair -/
def dec_validate (sf : SF K) (fnGiven : Option (Option Functional)) (lvGiven : Option K) :
    Except Err (Functional × K) := do
  let lv ← dec_lv sf (dec_fn sf fnGiven) lvGiven
  let f ← match dec_fn sf fnGiven with
    | some f => pure f
    | none => throw Err.valueError
  if (f = .expectile ∨ f = .quantile) ∧ (lv ≤ 0 ∨ 1 ≤ lv) then throw Err.valueError
  pure (if f = .median then (Functional.quantile, (half : K)) else (f, lv))

/-- **normal form of `decompose`** -/
theorem dec_eq (sf : SF K) (fnGiven : Option (Option Functional)) (lvGiven : Option K)
    (ys : List K) (cols : List (List K)) (w : Option (List K)) :
    decompose sf fnGiven lvGiven ys cols w = (do
      let p ← dec_validate sf fnGiven lvGiven
      dec_shape ys cols w
      let q ← dec_marginal sf p.1 p.2 ys w
      cols.mapM (dec_row sf p.1 p.2 ys w q.2)) := by
  rw [dec_eq_core]
  unfold dec_validate
  cases dec_lv sf (dec_fn sf fnGiven) lvGiven with
  | error e => rfl
  | ok lv =>
    cases dec_fn sf fnGiven with
    | none => rfl
    | some f =>
      rw [dec_ok_bind, dec_ok_bind]
      by_cases h : (f = .expectile ∨ f = .quantile) ∧ (lv ≤ 0 ∨ 1 ≤ lv)
      · simp only [pure_bind, if_pos h]; rfl
      · simp only [pure_bind, if_neg h]
        rw [dec_core_eq, dec_tail_eq]

end Struct


/-! ## A2. `List.mapM` in `Except` -/

section MapM
variable {ε α β : Type}

theorem dec_mapM_nil (f : α → Except ε β) : ([] : List α).mapM f = .ok [] := rfl

theorem dec_mapM_cons (f : α → Except ε β) (a : α) (l : List α) :
    (a :: l).mapM f = (do let b ← f a; let bs ← l.mapM f; pure (b :: bs)) := by
  simp [List.mapM_cons]

/-- **`mapM` inversion**: a `mapM` in `Except` succeeds with `r` iff every element succeeds with the
corresponding entry of `r` -/
theorem dec_mapM_ok (f : α → Except ε β) (l : List α) (r : List β) :
    l.mapM f = .ok r ↔ List.Forall₂ (fun a b => f a = .ok b) l r := by
  induction l generalizing r with
  | nil =>
    rw [dec_mapM_nil]
    constructor
    · intro h; cases h; exact List.Forall₂.nil
    · intro h; cases h; rfl
  | cons a l ih =>
    rw [dec_mapM_cons]
    cases hfa : f a with
    | error e =>
      constructor
      · intro h; cases h
      · intro h
        cases h with
        | cons h1 _ => rw [hfa] at h1; cases h1
    | ok b =>
      rw [dec_ok_bind]
      cases hl : l.mapM f with
      | error e =>
        constructor
        · intro h; cases h
        · intro h
          cases h with
          | cons h1 h2 =>
            rw [(ih _).mpr h2] at hl; cases hl
      | ok bs =>
        rw [dec_ok_bind]
        constructor
        · intro h
          cases h
          exact List.Forall₂.cons hfa ((ih bs).mp hl)
        · intro h
          cases h with
          | cons h1 h2 =>
            have := (ih _).mpr h2
            rw [hl] at this
            cases this
            rw [hfa] at h1
            cases h1
            rfl

theorem dec_mapM_length {f : α → Except ε β} {l : List α} {r : List β} (h : l.mapM f = .ok r) :
    r.length = l.length := ((dec_mapM_ok f l r).mp h).length_eq.symm

theorem dec_mapM_get {f : α → Except ε β} {l : List α} {r : List β} (h : l.mapM f = .ok r)
    (i : Nat) (hi : i < l.length) (hr : i < r.length) : f l[i] = .ok r[i] := by
  have := (dec_mapM_ok f l r).mp h
  exact (List.forall₂_iff_get.mp this).2 i hi hr

theorem dec_mapM_mem {f : α → Except ε β} {l : List α} {r : List β} (h : l.mapM f = .ok r)
    {b : β} (hb : b ∈ r) : ∃ a ∈ l, f a = .ok b := by
  obtain ⟨i, hi, rfl⟩ := List.getElem_of_mem hb
  have hl := dec_mapM_length h
  exact ⟨l[i], List.getElem_mem (by omega), dec_mapM_get h i (by omega) hi⟩

/-- a `mapM` fails as soon as one element fails -/
theorem dec_mapM_error {f : α → Except ε β} {l : List α} {a : α} (ha : a ∈ l) {e : ε}
    (h : f a = .error e) : ∃ e', l.mapM f = .error e' := by
  cases hl : l.mapM f with
  | error e' => exact ⟨e', rfl⟩
  | ok r =>
    obtain ⟨i, hi, rfl⟩ := List.getElem_of_mem ha
    have := dec_mapM_get hl i hi (by rw [dec_mapM_length hl]; exact hi)
    rw [h] at this; cases this

/-- `mapM` over a single column -/
theorem dec_mapM_single (f : α → Except ε β) (a : α) : [a].mapM f = (f a).map (fun b => [b]) := by
  rw [dec_mapM_cons, dec_mapM_nil]
  cases f a <;> rfl

end MapM

/-! ## A3. Inversion of the stages -/
section Struct2
variable {K : Type} [LE K] [DecidableLE K] [LT K] [DecidableLT K]
  [Add K] [Sub K] [Mul K] [Div K] [Neg K] [Zero K] [One K] [NatCast K] [Min K] [Max K]
  [ScoreOps K] [Inhabited K]

/-- what the shape checks check -/
theorem dec_shape_ok (ys : List K) (cols : List (List K)) (w : Option (List K)) :
    dec_shape ys cols w = .ok () ↔
      (∀ c ∈ cols, c.length = ys.length) ∧ (∀ w', w = some w' → w'.length = ys.length) ∧ ys ≠ [] := by
  unfold dec_shape
  have hany : (cols.any (fun c => decide (c.length ≠ ys.length)) = true) ↔
      ¬ ∀ c ∈ cols, c.length = ys.length := by
    rw [List.any_eq_true]
    constructor
    · rintro ⟨c, hc, h⟩ hall
      exact (of_decide_eq_true h) (hall c hc)
    · intro h
      by_contra hcon
      apply h
      intro c hc
      by_contra hne
      exact hcon ⟨c, hc, decide_eq_true hne⟩
  by_cases h1 : cols.any (fun c => decide (c.length ≠ ys.length)) = true
  · simp only [if_pos h1]
    constructor
    · intro h; cases h
    · intro h; exact absurd h.1 (hany.mp h1)
  have h1' : ∀ c ∈ cols, c.length = ys.length := by
    by_contra hcon; exact h1 (hany.mpr hcon)
  cases w with
  | some w' =>
    by_cases h2 : w'.length ≠ ys.length
    · simp only [if_neg h1, if_pos h2]
      constructor
      · intro h; cases h
      · intro h; exact absurd (h.2.1 w' rfl) h2
    · by_cases h3 : ys = []
      · simp only [if_neg h1, if_neg h2, if_pos h3]
        constructor
        · intro h; cases h
        · intro h; exact absurd h3 h.2.2
      · simp only [if_neg h1, if_neg h2, if_neg h3]
        constructor
        · intro _
          exact ⟨h1', fun w'' hw => (by cases hw; exact not_not.mp h2), h3⟩
        · intro _; rfl
  | none =>
    by_cases h3 : ys = []
    · simp only [if_neg h1, if_pos h3]
      constructor
      · intro h; cases h
      · intro h; exact absurd h3 h.2.2
    · simp only [if_neg h1, if_neg h3]
      constructor
      · intro _
        exact ⟨h1', fun w'' hw => (by cases hw), h3⟩
      · intro _; rfl

/-- **inversion of `decompose`**: a call succeeds with `rows` iff the four stages succeed -/
theorem dec_ok_iff (sf : SF K) (fnGiven : Option (Option Functional)) (lvGiven : Option K)
    (ys : List K) (cols : List (List K)) (w : Option (List K)) (rows : List (DecompRow K)) :
    decompose sf fnGiven lvGiven ys cols w = .ok rows ↔
      ∃ f lv marg sm, dec_validate sf fnGiven lvGiven = .ok (f, lv) ∧ dec_shape ys cols w = .ok () ∧
        dec_marginal sf f lv ys w = .ok (marg, sm) ∧
        cols.mapM (dec_row sf f lv ys w sm) = .ok rows := by
  rw [dec_eq]
  cases hv : dec_validate sf fnGiven lvGiven with
  | error e =>
    constructor
    · intro h; cases h
    · rintro ⟨_, _, _, _, h, _⟩; cases h
  | ok p =>
    obtain ⟨f, lv⟩ := p
    rw [dec_ok_bind]
    cases hs : dec_shape ys cols w with
    | error e =>
      constructor
      · intro h; cases h
      · rintro ⟨_, _, _, _, _, h, _⟩; cases h
    | ok u =>
      rw [dec_ok_bind]
      cases hm : dec_marginal sf f lv ys w with
      | error e =>
        constructor
        · intro h; cases h
        · rintro ⟨_, _, _, _, h1, _, h, _⟩
          cases h1; rw [hm] at h; cases h
      | ok q =>
        obtain ⟨marg, sm⟩ := q
        rw [dec_ok_bind]
        constructor
        · intro h; exact ⟨f, lv, marg, sm, rfl, rfl, hm, h⟩
        · rintro ⟨_, _, _, _, h1, _, h, h2⟩
          cases h1; rw [hm] at h; cases h; exact h2

/-- inversion of the marginal stage -/
theorem dec_marginal_ok {sf : SF K} {f : Functional} {lv : K} {ys : List K} {w : Option (List K)}
    {marg sm : K} (h : dec_marginal sf f lv ys w = .ok (marg, sm)) :
    functionalVal f lv ys w = .ok marg ∧ sfMean sf ys (ys.map (fun _ => marg)) w = .ok sm := by
  unfold dec_marginal at h
  cases hm : functionalVal f lv ys w with
  | error e => rw [hm] at h; cases h
  | ok m =>
    rw [hm, dec_ok_bind] at h
    have fin : ∀ {X : Except Err PUnit}, (X >>= fun _ => (do
        let scoreMarg ← sfMean sf ys (ys.map (fun _ => m)) w
        pure (m, scoreMarg))) = Except.ok (marg, sm) →
        m = marg ∧ sfMean sf ys (ys.map (fun _ => marg)) w = .ok sm := by
      intro X hX
      cases X with
      | error e => cases hX
      | ok u =>
        rw [dec_ok_bind] at hX
        cases hsm : sfMean sf ys (ys.map (fun _ => m)) w with
        | error e => rw [hsm] at hX; cases hX
        | ok v =>
          rw [hsm] at hX
          cases hX
          exact ⟨rfl, hsm⟩
    by_cases hc : eqK ys[0]! m ∧ eqK m ys[ys.length - 1]!
    · simp only [if_pos hc] at h
      cases hp : sfMean sf [ys[0]!] [m] none with
      | error e =>
        rw [hp] at h
        cases e
        · cases h
        all_goals (obtain ⟨rfl, h2⟩ := fin (X := pure PUnit.unit) h; exact ⟨rfl, h2⟩)
      | ok v =>
        rw [hp] at h
        obtain ⟨rfl, h2⟩ := fin (X := pure PUnit.unit) h
        exact ⟨rfl, h2⟩
    · simp only [if_neg hc] at h
      obtain ⟨rfl, h2⟩ := fin (X := pure PUnit.unit) h
      exact ⟨rfl, h2⟩

/-- inversion of one row -/
theorem dec_row_ok (sf : SF K) (f : Functional) (lv : K) (ys : List K) (w : Option (List K))
    (sm : K) (x : List K) (row : DecompRow K) :
    dec_row sf f lv ys w sm x = .ok row ↔
      ∃ recal score scoreRecal, dec_recal sf f lv ys w x = .ok recal ∧
        sfMean sf ys x w = .ok score ∧ sfMean sf ys recal w = .ok scoreRecal ∧
        row = ⟨score - scoreRecal, sm - scoreRecal, sm, score⟩ := by
  unfold dec_row
  cases h1 : dec_recal sf f lv ys w x with
  | error e =>
    constructor
    · intro h; cases h
    · rintro ⟨_, _, _, h, _⟩; cases h
  | ok recal =>
    rw [dec_ok_bind]
    cases h2 : sfMean sf ys x w with
    | error e =>
      constructor
      · intro h; cases h
      · rintro ⟨_, _, _, _, h, _⟩; cases h
    | ok score =>
      rw [dec_ok_bind]
      cases h3 : sfMean sf ys recal w with
      | error e =>
        constructor
        · intro h; cases h
        · rintro ⟨_, _, _, h, _, h', _⟩
          cases h; rw [h3] at h'; cases h'
      | ok scoreRecal =>
        rw [dec_ok_bind]
        constructor
        · intro h
          cases h
          exact ⟨recal, score, scoreRecal, rfl, rfl, h3, rfl⟩
        · rintro ⟨_, _, _, h, h', h'', rfl⟩
          cases h; cases h'; rw [h3] at h''; cases h''
          rfl

/-- inversion of the recalibration of one column: the fit succeeded and `recal` is the fitted model
evaluated at the forecasts, possibly repaired -/
theorem dec_recal_ok (sf : SF K) (f : Functional) (lv : K) (ys : List K) (w : Option (List K))
    (x recal : List K) :
    dec_recal sf f lv ys w x = .ok recal ↔
      ∃ tx ty, isoFit (some f) lv true x ys w = .ok (tx, ty) ∧
        (if dec_yminAllowed sf ys w = false ∧
            (x.map (interp tx ty)).foldl min (x.map (interp tx ty))[0]! ≤ ys.foldl min ys[0]! then
          repair f lv (x.map (interp tx ty)) w (ys.foldl min ys[0]!) else pure (x.map (interp tx ty)))
          = .ok recal := by
  unfold dec_recal
  cases h1 : isoFit (some f) lv true x ys w with
  | error e =>
    constructor
    · intro h; cases h
    · rintro ⟨_, _, h, _⟩; cases h
  | ok p =>
    obtain ⟨tx, ty⟩ := p
    rw [dec_ok_bind]
    constructor
    · intro h; exact ⟨tx, ty, rfl, h⟩
    · rintro ⟨_, _, h, h'⟩
      cases h; exact h'

/-- when the smallest observation is an admissible prediction there is no repair -/
theorem dec_recal_ok_allowed {sf : SF K} {f : Functional} {lv : K} {ys : List K}
    {w : Option (List K)} {x recal : List K} (ha : dec_yminAllowed sf ys w = true)
    (h : dec_recal sf f lv ys w x = .ok recal) :
    ∃ tx ty, isoFit (some f) lv true x ys w = .ok (tx, ty) ∧ recal = x.map (interp tx ty) := by
  obtain ⟨tx, ty, h1, h2⟩ := (dec_recal_ok sf f lv ys w x recal).mp h
  refine ⟨tx, ty, h1, ?_⟩
  rw [if_neg (by rw [ha]; simp)] at h2
  cases h2; rfl

end Struct2


/-! ## A4. Errors of the first two stages -/
section Struct3
variable {K : Type} [LE K] [DecidableLE K] [LT K] [DecidableLT K]
  [Add K] [Sub K] [Mul K] [Div K] [Neg K] [Zero K] [One K] [NatCast K] [Min K] [Max K]
  [ScoreOps K] [Inhabited K]

/-- the level stage can only fail with `ValueError` -/
theorem dec_lv_error {sf : SF K} {fn : Option Functional} {lvGiven : Option K} {e : Err}
    (h : dec_lv sf fn lvGiven = .error e) : e = .valueError := by
  unfold dec_lv at h
  cases lvGiven with
  | some l => cases h
  | none =>
    simp only at h
    split at h
    · cases hl : sfLevel sf with
      | none => rw [hl] at h; cases h; rfl
      | some l => rw [hl] at h; cases h
    · cases h

/-- the validation of functional and level can only fail with `ValueError` -/
theorem dec_validate_error {sf : SF K} {fnGiven : Option (Option Functional)} {lvGiven : Option K}
    {e : Err} (h : dec_validate sf fnGiven lvGiven = .error e) : e = .valueError := by
  unfold dec_validate at h
  cases hl : dec_lv sf (dec_fn sf fnGiven) lvGiven with
  | error e' =>
    rw [hl] at h
    cases h
    exact dec_lv_error hl
  | ok l =>
    rw [hl, dec_ok_bind] at h
    cases hf : dec_fn sf fnGiven with
    | none => rw [hf] at h; cases h; rfl
    | some f =>
      rw [hf] at h
      simp only [pure_bind] at h
      split at h
      · cases h; rfl
      · cases h

/-- a successful validation: the functional is known, the level is in `(0,1)` when it matters, and
`median` has become the quantile at level `half` -/
theorem dec_validate_ok {sf : SF K} {fnGiven : Option (Option Functional)} {lvGiven : Option K}
    {f : Functional} {lv : K} (h : dec_validate sf fnGiven lvGiven = .ok (f, lv)) :
    ∃ f₀ lv₀, dec_fn sf fnGiven = some f₀ ∧ dec_lv sf (some f₀) lvGiven = .ok lv₀ ∧
      ¬ ((f₀ = .expectile ∨ f₀ = .quantile) ∧ (lv₀ ≤ 0 ∨ 1 ≤ lv₀)) ∧
      (f, lv) = (if f₀ = .median then (Functional.quantile, (half : K)) else (f₀, lv₀)) := by
  unfold dec_validate at h
  cases hl : dec_lv sf (dec_fn sf fnGiven) lvGiven with
  | error e' => rw [hl] at h; cases h
  | ok l =>
    rw [hl, dec_ok_bind] at h
    cases hf : dec_fn sf fnGiven with
    | none => rw [hf] at h; cases h
    | some f₀ =>
      rw [hf] at h hl
      simp only [pure_bind] at h
      split at h
      · cases h
      · rename_i hc
        exact ⟨f₀, l, rfl, hl, hc, (Except.ok.inj h).symm⟩

/-- the effective functional is never `median` -/
theorem dec_validate_ne_median {sf : SF K} {fnGiven : Option (Option Functional)}
    {lvGiven : Option K} {f : Functional} {lv : K}
    (h : dec_validate sf fnGiven lvGiven = .ok (f, lv)) : f ≠ .median := by
  obtain ⟨f₀, lv₀, _, _, _, he⟩ := dec_validate_ok h
  by_cases hm : f₀ = .median
  · rw [if_pos hm] at he
    rw [(Prod.mk.inj he).1]; decide
  · rw [if_neg hm] at he
    rw [(Prod.mk.inj he).1]; exact hm

/-- unknown functional name: `ValueError` -/
theorem dec_validate_unknown (sf : SF K) (lvGiven : Option K) :
    dec_validate sf (some none) lvGiven = .error .valueError := by
  cases h : dec_validate sf (some none) lvGiven with
  | error e => rw [dec_validate_error h]
  | ok p =>
    obtain ⟨f₀, _, hf, _⟩ := dec_validate_ok (f := p.1) (lv := p.2) h
    cases hf

/-- level outside `(0,1)` for an expectile / quantile: `ValueError` -/
theorem dec_validate_level (sf : SF K) (fnGiven : Option (Option Functional)) (lvGiven : Option K)
    (f : Functional) (l : K) (hfn : dec_fn sf fnGiven = some f)
    (hlv : dec_lv sf (some f) lvGiven = .ok l) (hf : f = .expectile ∨ f = .quantile)
    (hl : l ≤ 0 ∨ 1 ≤ l) : dec_validate sf fnGiven lvGiven = .error .valueError := by
  cases h : dec_validate sf fnGiven lvGiven with
  | error e => rw [dec_validate_error h]
  | ok p =>
    obtain ⟨f₀, lv₀, hf₀, hl₀, hc, _⟩ := dec_validate_ok (f := p.1) (lv := p.2) h
    rw [hfn] at hf₀
    cases hf₀
    rw [hlv] at hl₀
    cases hl₀
    exact absurd ⟨hf, hl⟩ hc

/-- the shape checks can only fail with `ValueError` (lengths) or `Other` (empty `y`) -/
theorem dec_shape_error_of_col {ys : List K} {cols : List (List K)} (w : Option (List K))
    (h : ∃ c ∈ cols, c.length ≠ ys.length) : dec_shape ys cols w = .error .valueError := by
  unfold dec_shape
  have h1 : cols.any (fun c => decide (c.length ≠ ys.length)) = true := by
    obtain ⟨c, hc, hne⟩ := h
    exact List.any_eq_true.mpr ⟨c, hc, decide_eq_true hne⟩
  simp only [if_pos h1]
  rfl

theorem dec_shape_error_of_weights {ys : List K} (cols : List (List K)) {w' : List K}
    (h : w'.length ≠ ys.length) : dec_shape ys cols (some w') = .error .valueError := by
  by_cases hc : ∃ c ∈ cols, c.length ≠ ys.length
  · exact dec_shape_error_of_col _ hc
  unfold dec_shape
  have h1 : ¬ cols.any (fun c => decide (c.length ≠ ys.length)) = true := by
    intro h1
    obtain ⟨c, hc', hne⟩ := List.any_eq_true.mp h1
    exact hc ⟨c, hc', of_decide_eq_true hne⟩
  simp only [if_neg h1, if_pos h]
  rfl

/-- `decompose` fails with `ValueError` as soon as a stage up to the shape checks does -/
theorem dec_error_of_validate {sf : SF K} {fnGiven : Option (Option Functional)}
    {lvGiven : Option K} (ys : List K) (cols : List (List K)) (w : Option (List K)) {e : Err}
    (h : dec_validate sf fnGiven lvGiven = .error e) :
    decompose sf fnGiven lvGiven ys cols w = .error e := by
  rw [dec_eq, h]; rfl

theorem dec_error_of_shape {sf : SF K} {fnGiven : Option (Option Functional)}
    {lvGiven : Option K} {ys : List K} {cols : List (List K)} {w : Option (List K)}
    (h : dec_shape ys cols w = .error .valueError) :
    decompose sf fnGiven lvGiven ys cols w = .error .valueError := by
  rw [dec_eq]
  cases hv : dec_validate sf fnGiven lvGiven with
  | error e => rw [dec_validate_error hv]; rfl
  | ok p => rw [dec_ok_bind, h]; rfl

end Struct3

/-! ## A5. Aliases: the mean ignores the level; explicit = inferred -/
section Struct4
variable {K : Type} [LE K] [DecidableLE K] [LT K] [DecidableLT K]
  [Add K] [Sub K] [Mul K] [Div K] [Neg K] [Zero K] [One K] [NatCast K] [Min K] [Max K]
  [ScoreOps K] [Inhabited K]

/-- the mean fit ignores the level -/
theorem dec_isoReg_mean_level (α α' : K) (inc : Bool) (y : List K) (w : Option (List K)) :
    isoReg (some .mean) α inc y w = isoReg (some .mean) α' inc y w := by
  unfold isoReg
  simp

theorem dec_isoFit_mean_level (α α' : K) (inc : Bool) (X y : List K) (w : Option (List K)) :
    isoFit (some .mean) α inc X y w = isoFit (some .mean) α' inc X y w := by
  unfold isoFit
  simp only [dec_isoReg_mean_level α α']

theorem dec_repair_mean_level (α α' : K) (recal : List K) (w : Option (List K)) (ymin : K) :
    repair .mean α recal w ymin = repair .mean α' recal w ymin := rfl

theorem dec_recal_mean_level (sf : SF K) (α α' : K) (ys : List K) (w : Option (List K))
    (x : List K) : dec_recal sf .mean α ys w x = dec_recal sf .mean α' ys w x := by
  unfold dec_recal
  rw [dec_isoFit_mean_level α α']
  rfl

theorem dec_row_mean_level (sf : SF K) (α α' : K) (ys : List K) (w : Option (List K)) (sm : K)
    (x : List K) : dec_row sf .mean α ys w sm x = dec_row sf .mean α' ys w sm x := by
  unfold dec_row
  rw [dec_recal_mean_level sf α α']

theorem dec_marginal_mean_level (sf : SF K) (α α' : K) (ys : List K) (w : Option (List K)) :
    dec_marginal sf .mean α ys w = dec_marginal sf .mean α' ys w := rfl

/-- from the shape checks on: the mean ignores the level -/
theorem dec_stages_mean_level (sf : SF K) (α α' : K) (ys : List K) (cols : List (List K))
    (w : Option (List K)) :
    (do let q ← dec_marginal sf .mean α ys w; cols.mapM (dec_row sf .mean α ys w q.2))
      = (do let q ← dec_marginal sf .mean α' ys w; cols.mapM (dec_row sf .mean α' ys w q.2)) := by
  rw [dec_marginal_mean_level sf α α']
  have : ∀ sm, dec_row sf .mean α ys w sm = dec_row sf .mean α' ys w sm :=
    fun sm => funext (dec_row_mean_level sf α α' ys w sm)
  simp only [this]

/-- `decompose` in terms of the validated pair -/
theorem dec_eq_of_validate {sf : SF K} {fnGiven : Option (Option Functional)} {lvGiven : Option K}
    {p : Functional × K} (h : dec_validate sf fnGiven lvGiven = .ok p) (ys : List K)
    (cols : List (List K)) (w : Option (List K)) :
    decompose sf fnGiven lvGiven ys cols w = (do
      dec_shape ys cols w
      let q ← dec_marginal sf p.1 p.2 ys w
      cols.mapM (dec_row sf p.1 p.2 ys w q.2)) := by
  rw [dec_eq, h]; rfl

/-- **explicit = inferred**: passing the score's own functional and level explicitly changes
nothing (results and errors alike).  `sfLevel sf = none` (log loss) means `level=None`. -/
theorem dec_alias_explicit (sf : SF K) (ys : List K) (cols : List (List K)) (w : Option (List K)) :
    decompose sf none none ys cols w
      = decompose sf (some (sfFunctional sf)) (sfLevel sf) ys cols w := by
  rw [dec_eq sf none none, dec_eq sf (some (sfFunctional sf)) (sfLevel sf)]
  unfold dec_validate
  have hfn : dec_fn sf (some (sfFunctional sf)) = dec_fn sf none := rfl
  rw [hfn]
  cases hf : dec_fn sf none with
  | none =>
    have e1 : dec_lv sf none none = .ok half := rfl
    have e2 : dec_lv sf none (sfLevel sf) = .ok (match sfLevel sf with | some l => l | none => half) := by
      unfold dec_lv
      cases sfLevel sf <;> rfl
    rw [e1, e2]
    rfl
  | some f =>
    cases hl : sfLevel sf with
    | none => rfl
    | some l =>
      cases f with
      | mean =>
        have e1 : dec_lv sf (some .mean) none = .ok half := rfl
        have e2 : dec_lv sf (some .mean) (some l) = .ok l := rfl
        rw [e1, e2]
        exact congrArg (fun t => dec_shape ys cols w >>= fun _ => t)
          (dec_stages_mean_level sf half l ys cols w)
      | median =>
        have e1 : dec_lv sf (some .median) none = .ok half := rfl
        have e2 : dec_lv sf (some .median) (some l) = .ok l := rfl
        rw [e1, e2]
        rfl
      | expectile =>
        have e1 : dec_lv sf (some .expectile) none = .ok l := by
          unfold dec_lv; rw [hl]; rfl
        have e2 : dec_lv sf (some .expectile) (some l) = .ok l := rfl
        rw [e1, e2]
      | quantile =>
        have e1 : dec_lv sf (some .quantile) none = .ok l := by
          unfold dec_lv; rw [hl]; rfl
        have e2 : dec_lv sf (some .quantile) (some l) = .ok l := rfl
        rw [e1, e2]

end Struct4

/-! ## A6. Columns are treated independently; `median` -/
section Struct5
variable {K : Type} [LE K] [DecidableLE K] [LT K] [DecidableLT K]
  [Add K] [Sub K] [Mul K] [Div K] [Neg K] [Zero K] [One K] [NatCast K] [Min K] [Max K]
  [ScoreOps K] [Inhabited K]

/-- **each column gets the row it would get alone** -/
theorem dec_column_independent {sf : SF K} {fn : Option (Option Functional)} {lv : Option K}
    {ys : List K} {cols : List (List K)} {w : Option (List K)} {rows : List (DecompRow K)}
    (h : decompose sf fn lv ys cols w = .ok rows) (i : Nat) (hi : i < cols.length)
    (hr : i < rows.length) : decompose sf fn lv ys [cols[i]] w = .ok [rows[i]] := by
  obtain ⟨f, lv', marg, sm, hv, hs, hm, hrows⟩ := (dec_ok_iff sf fn lv ys cols w rows).mp h
  refine (dec_ok_iff sf fn lv ys [cols[i]] w [rows[i]]).mpr ⟨f, lv', marg, sm, hv, ?_, hm, ?_⟩
  · obtain ⟨h1, h2, h3⟩ := (dec_shape_ok ys cols w).mp hs
    refine (dec_shape_ok ys [cols[i]] w).mpr ⟨?_, h2, h3⟩
    intro c hc
    rw [List.mem_singleton] at hc
    rw [hc]
    exact h1 _ (List.getElem_mem hi)
  · rw [dec_mapM_single, dec_mapM_get hrows i hi hr]
    rfl

/-- … and conversely: if every single-column call succeeds, the matrix call succeeds with the
collected rows -/
theorem dec_columns_collect {sf : SF K} {fn : Option (Option Functional)} {lv : Option K}
    {ys : List K} {cols : List (List K)} {w : Option (List K)} {rows : List (DecompRow K)}
    (hne : cols ≠ []) (hlen : rows.length = cols.length)
    (h : ∀ i (hi : i < cols.length) (hr : i < rows.length),
      decompose sf fn lv ys [cols[i]] w = .ok [rows[i]]) :
    decompose sf fn lv ys cols w = .ok rows := by
  have h0len : 0 < cols.length := List.length_pos_iff.mpr hne
  obtain ⟨f, lv', marg, sm, hv, hs, hm, _⟩ :=
    (dec_ok_iff sf fn lv ys [cols[0]] w [rows[0]]).mp (h 0 h0len (by omega))
  refine (dec_ok_iff sf fn lv ys cols w rows).mpr ⟨f, lv', marg, sm, hv, ?_, hm, ?_⟩
  · obtain ⟨_, h2, h3⟩ := (dec_shape_ok ys [cols[0]] w).mp hs
    refine (dec_shape_ok ys cols w).mpr ⟨?_, h2, h3⟩
    intro c hc
    obtain ⟨i, hi, rfl⟩ := List.getElem_of_mem hc
    obtain ⟨_, _, _, _, _, hs', _, _⟩ :=
      (dec_ok_iff sf fn lv ys [cols[i]] w [rows[i]]).mp (h i hi (by omega))
    exact ((dec_shape_ok ys [cols[i]] w).mp hs').1 _ (by simp)
  · rw [dec_mapM_ok]
    refine List.forall₂_iff_get.mpr ⟨hlen.symm, ?_⟩
    intro i hi hr
    obtain ⟨f', lv'', marg', sm', hv', _, hm', hrow⟩ :=
      (dec_ok_iff sf fn lv ys [cols[i]] w [rows[i]]).mp (h i hi hr)
    rw [hv] at hv'
    cases hv'
    rw [hm] at hm'
    cases hm'
    rw [dec_mapM_single] at hrow
    show dec_row sf f lv' ys w sm cols[i] = .ok rows[i]
    cases hd : dec_row sf f lv' ys w sm cols[i] with
    | error e => rw [hd] at hrow; cases hrow
    | ok r =>
      rw [hd] at hrow
      have := Except.ok.inj hrow
      simp only [List.cons.injEq, and_true] at this
      rw [this]

end Struct5

section Ordered
variable {K : Type} [Field K] [LinearOrder K] [IsStrictOrderedRing K] [ScoreOps K] [Inhabited K]

/-- **`median` = quantile at level `half`**: whatever level is passed along with `median` -/
theorem dec_alias_median (sf : SF K) (lv : Option K) (ys : List K) (cols : List (List K))
    (w : Option (List K)) :
    decompose sf (some (some .median)) lv ys cols w
      = decompose sf (some (some .quantile)) (some half) ys cols w := by
  have h1 : dec_validate sf (some (some .median)) lv = .ok (Functional.quantile, (half : K)) := by
    unfold dec_validate
    cases lv <;> rfl
  have h2 : dec_validate sf (some (some .quantile)) (some half)
      = .ok (Functional.quantile, (half : K)) := by
    unfold dec_validate
    have hc : ¬ ((Functional.quantile = .expectile ∨ Functional.quantile = .quantile) ∧
        ((half : K) ≤ 0 ∨ 1 ≤ (half : K))) := by
      rintro ⟨_, h | h⟩
      · exact absurd half_pos' (not_lt.mpr h)
      · exact absurd half_lt_one (not_lt.mpr h)
    show (if _ then _ else _) = _
    rw [if_neg hc]
    rfl
  rw [dec_eq_of_validate h1, dec_eq_of_validate h2]

end Ordered


/-! ## B. Analytic part (ordered fields) -/

section Totals
variable {K : Type} [Field K] [LinearOrder K] [IsStrictOrderedRing K] [Inhabited K]

/-- the weights `decompose` / `fit` effectively use: the given ones, or all `1` -/
def dec_wts (y : List K) (w : Option (List K)) : List K :=
  match w with
  | some w' => w'
  | none => y.map (fun _ => (1 : K))

omit [Inhabited K] in
theorem dec_wts_length (y : List K) (w : Option (List K))
    (hw : ∀ w', w = some w' → w'.length = y.length) : (dec_wts y w).length = y.length := by
  cases w with
  | none => simp [dec_wts]
  | some w' => exact hw w' rfl

omit [Inhabited K] in
theorem dec_wts_congr {y y' : List K} (w : Option (List K)) (h : y.length = y'.length) :
    dec_wts y w = dec_wts y' w := by
  cases w with
  | none => simp only [dec_wts]; rw [List.map_const', List.map_const', h]
  | some w' => rfl

omit [Inhabited K] in
theorem dec_zipRows_cols (X y ws : List K) (hX : X.length = y.length) (hl : ws.length = y.length) :
    (List.zipWith (fun (p : K × K) v => (⟨p.1, p.2, v⟩ : Row K)) (List.zip X y) ws).map (·.x) = X ∧
    (List.zipWith (fun (p : K × K) v => (⟨p.1, p.2, v⟩ : Row K)) (List.zip X y) ws).map (·.y) = y ∧
    (List.zipWith (fun (p : K × K) v => (⟨p.1, p.2, v⟩ : Row K)) (List.zip X y) ws).map (·.w) = ws := by
  induction X generalizing y ws with
  | nil =>
    have : y = [] := List.length_eq_zero_iff.mp (by simpa using hX.symm)
    subst this
    have : ws = [] := List.length_eq_zero_iff.mp (by simpa using hl)
    subst this
    simp
  | cons a X ih =>
    cases y with
    | nil => simp at hX
    | cons b y =>
      cases ws with
      | nil => simp at hl
      | cons c ws =>
        obtain ⟨h1, h2, h3⟩ := ih y ws (by simpa using hX) (by simpa using hl)
        simp only [List.zip_cons_cons, List.zipWith_cons_cons, List.map_cons, h1, h2, h3]
        simp

omit [Inhabited K] in
/-- the columns of the rows `fit` builds -/
theorem dec_fit_rows_cols (X y : List K) (w : Option (List K)) (hX : X.length = y.length)
    (hw : ∀ w', w = some w' → w'.length = y.length) :
    (fit_rows X y w).map (·.x) = X ∧ (fit_rows X y w).map (·.y) = y ∧
      (fit_rows X y w).map (·.w) = dec_wts y w := by
  have hl := dec_wts_length y w hw
  have e : fit_rows X y w
      = List.zipWith (fun (p : K × K) v => (⟨p.1, p.2, v⟩ : Row K)) (List.zip X y) (dec_wts y w) := by
    unfold fit_rows dec_wts
    cases w <;> rfl
  rw [e]
  exact dec_zipRows_cols X y _ hX hl

omit [Inhabited K] in
/-- the total score of a function of `X` in the original row order is a sum over the rows … -/
theorem dec_total_rows (S : Obs K → K → K) (g : K → K) (X y : List K) (w : Option (List K))
    (hX : X.length = y.length) (hw : ∀ w', w = some w' → w'.length = y.length) :
    total S (y.zip (dec_wts y w)) (X.map g)
      = ((fit_rows X y w).map (fun a => S (a.y, a.w) (g a.x))).sum := by
  obtain ⟨h1, h2, h3⟩ := dec_fit_rows_cols X y w hX hw
  have := fit_total_rows S g (fit_rows X y w)
  rw [h1, h2, h3] at this
  exact this

omit [Inhabited K] in
/-- … hence the same in the sorted order -/
theorem dec_total_sorted (S : Obs K → K → K) (g : K → K) (inc : Bool) (X y : List K)
    (w : Option (List K)) (hX : X.length = y.length)
    (hw : ∀ w', w = some w' → w'.length = y.length) :
    total S (y.zip (dec_wts y w)) (X.map g)
      = total S (((fit_sorted inc X y w).map (·.y)).zip ((fit_sorted inc X y w).map (·.w)))
          (((fit_sorted inc X y w).map (·.x)).map g) := by
  rw [dec_total_rows S g X y w hX hw, fit_total_rows]
  have hperm : (fit_sorted inc X y w).Perm (fit_rows X y w) := List.mergeSort_perm _ _
  exact ((hperm.map _).sum_eq).symm

/-- the weights of the sorted sample are the effective weights of its responses -/
theorem dec_sorted_wts (inc : Bool) (X y : List K) (w : Option (List K)) :
    dec_wts ((fit_sorted inc X y w).map (·.y)) (w.map (fun _ => (fit_sorted inc X y w).map (·.w)))
      = (fit_sorted inc X y w).map (·.w) := by
  cases w with
  | some w' => rfl
  | none =>
    simp only [dec_wts, Option.map_none, List.map_map]
    apply List.map_congr_left
    intro a ha
    have : a ∈ fit_rows X y none := List.mem_mergeSort.mp ha
    exact (fit_rows_none_w X y a this).symm

/-! ### the recalibrated forecasts are optimal among the monotone functions of the forecast -/

/-- the weighted per-observation score built from a per-pair score -/
def dec_wS (S : K → K → K) : Obs K → K → K := fun o z => o.2 * S o.1 z

/-- "`S` is minimised by the isotonic fit of functional `f` at level `lv`": whenever
`isotonic_regression` succeeds on responses taken from `ys`, its output has a total weighted score
not larger than that of any non-decreasing sequence with values in `dom` -/
def dec_FitOpt (f : Functional) (lv : K) (S : K → K → K) (dom : K → Prop) (ys : List K) : Prop :=
  ∀ (y : List K) (wopt : Option (List K)) (yiso : List K) (r : List Nat),
    isoReg (some f) lv true y wopt = .ok (yiso, r) → (∀ v ∈ y, v ∈ ys) →
    ∀ zs : List K, zs.length = y.length → zs.Pairwise (· ≤ ·) → (∀ z ∈ zs, dom z) →
      total (dec_wS S) (y.zip (dec_wts y wopt)) yiso ≤ total (dec_wS S) (y.zip (dec_wts y wopt)) zs

/-- **Recalibration is optimal among monotone functions of the forecast** (abstract form): if the
isotonic fit minimises `S` (`dec_FitOpt`), then on the training rows `(X, y, w)` the fitted model
evaluated at `X` has a total score not larger than `g ∘ X` for every non-decreasing `g` that maps
the forecasts into `dom`. -/
theorem dec_recal_le {f : Functional} {lv : K} {S : K → K → K} {dom : K → Prop} {X y : List K}
    {w : Option (List K)} {tx ty : List K} (h : isoFit (some f) lv true X y w = .ok (tx, ty))
    (hopt : dec_FitOpt f lv S dom y) (g : K → K) (hg : Monotone g) (hgdom : ∀ x ∈ X, dom (g x)) :
    total (dec_wS S) (y.zip (dec_wts y w)) (X.map (interp tx ty))
      ≤ total (dec_wS S) (y.zip (dec_wts y w)) (X.map g) := by
  obtain ⟨hX, hw, _⟩ := fit_isoFit_inv h
  obtain ⟨yiso, r, hr⟩ := fit_isoFit_exists h
  have F := fit_isoFit_fitted h hr
  rw [dec_total_sorted _ _ true X y w hX hw, dec_total_sorted _ _ true X y w hX hw, F.train_list]
  have hmemy : ∀ v ∈ (fit_sorted true X y w).map (·.y), v ∈ y := by
    intro v hv
    obtain ⟨a, ha, rfl⟩ := List.mem_map.mp hv
    have ha' : a ∈ fit_rows X y w := List.mem_mergeSort.mp ha
    rw [← (dec_fit_rows_cols X y w hX hw).2.1]
    exact List.mem_map.mpr ⟨a, ha', rfl⟩
  have hmemx : ∀ v ∈ (fit_sorted true X y w).map (·.x), v ∈ X := by
    intro v hv
    obtain ⟨a, ha, rfl⟩ := List.mem_map.mp hv
    have ha' : a ∈ fit_rows X y w := List.mem_mergeSort.mp ha
    rw [← (dec_fit_rows_cols X y w hX hw).1]
    exact List.mem_map.mpr ⟨a, ha', rfl⟩
  have := hopt _ _ yiso r hr hmemy (((fit_sorted true X y w).map (·.x)).map g)
    (by simp) (by
      rw [List.pairwise_map]
      exact (fit_sorted_x true _).imp (fun hab => hg hab))
    (by
      intro z hz
      obtain ⟨x, hx, rfl⟩ := List.mem_map.mp hz
      exact hgdom x (hmemx x hx))
  rw [dec_sorted_wts] at this
  exact this

/-- in particular the recalibrated forecasts score at least as well as the forecasts themselves … -/
theorem dec_recal_le_forecast {f : Functional} {lv : K} {S : K → K → K} {dom : K → Prop}
    {X y : List K} {w : Option (List K)} {tx ty : List K}
    (h : isoFit (some f) lv true X y w = .ok (tx, ty)) (hopt : dec_FitOpt f lv S dom y)
    (hdom : ∀ x ∈ X, dom x) :
    total (dec_wS S) (y.zip (dec_wts y w)) (X.map (interp tx ty))
      ≤ total (dec_wS S) (y.zip (dec_wts y w)) X := by
  have := dec_recal_le h hopt id monotone_id hdom
  rwa [List.map_id] at this

/-- … and at least as well as any admissible constant forecast -/
theorem dec_recal_le_const {f : Functional} {lv : K} {S : K → K → K} {dom : K → Prop}
    {X y : List K} {w : Option (List K)} {tx ty : List K}
    (h : isoFit (some f) lv true X y w = .ok (tx, ty)) (hopt : dec_FitOpt f lv S dom y)
    (c : K) (hc : dom c) :
    total (dec_wS S) (y.zip (dec_wts y w)) (X.map (interp tx ty))
      ≤ total (dec_wS S) (y.zip (dec_wts y w)) (X.map fun _ => c) :=
  dec_recal_le h hopt (fun _ => c) monotone_const (fun _ _ => hc)

/-! ### instances of `dec_FitOpt` -/

omit [Inhabited K] in
/-- a successful weighted call of `isoReg` has non-empty data and positive weights of the right
length -/
theorem dec_isoReg_some_ok {f : Functional} {lv : K} {inc : Bool} {y wl x : List K} {r : List Nat}
    (h : isoReg (some f) lv inc y (some wl) = .ok (x, r)) :
    y ≠ [] ∧ wl.length = y.length ∧ ∀ v ∈ wl, 0 < v := by
  obtain ⟨v, hv, _, _⟩ := isoReg_inv h
  obtain ⟨hne, hlen, hpos, _, _⟩ := eqValidate_ok hv
  have hv2 : v.2.2 = wl := by
    simp only [eqValidate] at hv
    split_ifs at hv
    cases hv
    rfl
  rw [hv2] at hlen hpos
  exact ⟨hne, hlen, hpos⟩

/-- "the fit of functional `f` at level `lv` is the generalised PAVA of `T`" -/
structure dec_GpavaFit (f : Functional) (lv : K) (T : List (Obs K) → K) : Prop where
  weighted : f = .mean ∨ f = .expectile
  fit : ∀ (y wl x : List K) (r : List Nat),
    isoReg (some f) lv true y (some wl) = .ok (x, r) → x = expand (gpava T (y.zip wl))

omit [Inhabited K] in
theorem dec_gpavaFit_mean (lv : K) : dec_GpavaFit .mean lv (wmean (K := K)) := by
  refine ⟨Or.inl rfl, ?_⟩
  intro y wl x r h
  obtain ⟨hne, hlen, hpos⟩ := dec_isoReg_some_ok h
  have := isoReg_mean_x hne hlen hpos h
  simpa using this

omit [Inhabited K] in
theorem dec_gpavaFit_expectile (α : K) (hα0 : 0 < α) (hα1 : α < 1) :
    dec_GpavaFit .expectile α (expectile α) := by
  refine ⟨Or.inr rfl, ?_⟩
  intro y wl x r h
  obtain ⟨hne, hlen, hpos⟩ := dec_isoReg_some_ok h
  have := isoReg_expectile_x hα0 hα1 hne hlen hpos h
  simpa using this

omit [Inhabited K] in
/-- **generic instance**: an order-sensitive score for the functional whose generalised PAVA is the
fit.  `hok`: observations from `ys` with positive weight are admissible for the functional;
`hdom`: every value not below all of `ys` is an admissible prediction. -/
theorem dec_fitOpt_of_gpava {F : IdFun K} (Sc : OSScore F) {f : Functional} {lv : K}
    (hfit : dec_GpavaFit f lv F.T) (S : K → K → K) (hS : ∀ o z, Sc.S o z = dec_wS S o z)
    (ys : List K) (hok : ∀ y ∈ ys, ∀ v, 0 < v → F.ok (y, v))
    (hdom : ∀ v, (∃ a ∈ ys, a ≤ v) → Sc.dom v) : dec_FitOpt f lv S Sc.dom ys := by
  intro y wopt yiso r hr hmem zs hz hs hzd
  have hr' : isoReg (some f) lv true y (some (dec_wts y wopt)) = .ok (yiso, r) := by
    cases wopt with
    | none => rw [isoReg_weights_none f hfit.weighted] at hr; exact hr
    | some wl => exact hr
  obtain ⟨hne, hlen, hpos⟩ := dec_isoReg_some_ok hr'
  have hx := hfit.fit _ _ _ _ hr'
  have hSS : Sc.S = dec_wS S := by funext o z; exact hS o z
  rw [← hSS, hx]
  have hys : ∀ o ∈ y.zip (dec_wts y wopt), F.ok o := by
    intro o ho
    have := List.of_mem_zip (a := o.1) (b := o.2) ho
    exact hok o.1 (hmem _ this.1) o.2 (hpos _ this.2)
  refine fit_optimal Sc _ hys ?_ zs (by rw [zip_length_of_eq hlen, hz]) hzd hs
  intro b hb
  obtain ⟨hg, _, hflat⟩ := gpava_spec F.internal _ hys
  have hgb := hg b hb
  obtain ⟨⟨o, ho, hle⟩, _⟩ := internal_between F.internal b.data hgb.ne hgb.allok
  rw [hgb.val]
  apply hdom
  refine ⟨o.1, hmem _ ?_, hle⟩
  have : o ∈ y.zip (dec_wts y wopt) := by
    rw [← hflat]; exact List.mem_flatMap.mpr ⟨b, hb, ho⟩
  exact (List.of_mem_zip (a := o.1) (b := o.2) this).1

omit [Inhabited K] in
/-- **squared error** is minimised by the mean fit -/
theorem dec_fitOpt_sq (lv : K) (ys : List K) :
    dec_FitOpt .mean lv (fun y z => (z - y) * (z - y)) (fun _ => True) ys :=
  dec_fitOpt_of_gpava sqErr (dec_gpavaFit_mean lv) _
    (by intro o z; simp only [sqErr, dec_wS]; ring) ys (fun _ _ _ hv => hv) (fun _ _ => trivial)

omit [Inhabited K] in
/-- the **asymmetric squared error** is minimised by the expectile fit -/
theorem dec_fitOpt_asymSq (α : K) (hα0 : 0 < α) (hα1 : α < 1) (ys : List K) :
    dec_FitOpt .expectile α (fun y z => (if y ≤ z then 1 - α else α) * ((z - y) * (z - y)))
      (fun _ => True) ys :=
  dec_fitOpt_of_gpava (asymSq α hα0 hα1) (dec_gpavaFit_expectile α hα0 hα1) _
    (by intro o z; simp only [asymSq, dec_wS, eWeight]; ring) ys (fun _ _ _ hv => hv)
    (fun _ _ => trivial)

omit [Inhabited K] in
theorem dec_total_congr (S S' : Obs K → K → K) (d : List (Obs K)) (zs : List K)
    (h : ∀ o ∈ d, ∀ z, S o z = S' o z) : total S d zs = total S' d zs := by
  unfold total
  induction d generalizing zs with
  | nil => simp
  | cons o d ih =>
    cases zs with
    | nil => simp
    | cons z zs =>
      simp only [List.zipWith_cons_cons, List.sum_cons]
      rw [h o (by simp) z, ih zs (fun o' ho' => h o' (by simp [ho']))]

omit [Inhabited K] in
/-- the **pinball loss** is minimised by the quantile fit (unweighted: the only supported case) -/
theorem dec_fitOpt_pinball (α : K) (hα0 : 0 < α) (hα1 : α < 1) (ys : List K) :
    dec_FitOpt .quantile α (fun y z => ((if y ≤ z then (1 : K) else 0) - α) * (z - y))
      (fun _ => True) ys := by
  intro y wopt yiso r hr _ zs hz hs _
  cases wopt with
  | some wl =>
    rw [isoReg_quantile_weighted α hα0 hα1] at hr
    cases hr
  | none =>
    have hne : y ≠ [] := by
      obtain ⟨v, hv, _, _⟩ := isoReg_inv hr
      exact (eqValidate_ok hv).1
    have hx := isoReg_quantile_x hα0 hα1 hne hr
    simp only [orient_true] at hx
    have hone : ∀ zs' : List K,
        total (dec_wS (fun y z => ((if y ≤ z then (1 : K) else 0) - α) * (z - y)))
          (y.zip (dec_wts y none)) zs'
        = total (pinball α hα0 hα1).S (y.zip (dec_wts y none)) zs' := by
      intro zs'
      apply dec_total_congr
      intro o ho z
      have h2 : o.2 ∈ dec_wts y none := (List.of_mem_zip (a := o.1) (b := o.2) ho).2
      obtain ⟨_, _, h1⟩ := List.mem_map.mp h2
      show o.2 * _ = _
      rw [← h1, one_mul]
      rfl
    rw [hone, hone, hx]
    exact C02_optimal_inc α hα0 hα1 _ zs (by rw [zip_length_of_eq (by simp [dec_wts]), hz]) hs

end Totals

section Mean
variable {K : Type} [Field K] [LinearOrder K] [IsStrictOrderedRing K] [ScoreOps K] [Inhabited K]

omit [Field K] [IsStrictOrderedRing K] [ScoreOps K] [Inhabited K] in
theorem dec_eqK_iff (a b : K) : eqK a b ↔ a = b :=
  ⟨fun h => le_antisymm h.1 h.2, fun h => h ▸ ⟨le_rfl, le_rfl⟩⟩

omit [ScoreOps K] [Inhabited K] in
theorem dec_total_eq_zip (S : K → K → K) (ys ws zs : List K) :
    total (dec_wS S) (ys.zip ws) zs
      = (List.zipWith (· * ·) ((ys.zip zs).map fun p => S p.1 p.2) ws).sum := by
  unfold total dec_wS
  induction ys generalizing ws zs with
  | nil => simp
  | cons y ys ih =>
    cases ws with
    | nil => simp
    | cons v ws =>
      cases zs with
      | nil => simp
      | cons z zs =>
        simp only [List.zip_cons_cons, List.zipWith_cons_cons, List.map_cons, List.sum_cons]
        rw [ih ws zs]
        ring

omit [ScoreOps K] [Inhabited K] in
theorem dec_sum_ones (n : Nat) : (List.replicate n (1 : K)).sum = (n : K) := by
  induction n with
  | zero => simp
  | succ n ih => rw [List.replicate_succ, List.sum_cons, ih]; push_cast; ring

omit [ScoreOps K] [Inhabited K] in
theorem dec_zipWith_ones (a : List K) (n : Nat) (h : a.length = n) :
    (List.zipWith (· * ·) a (List.replicate n (1 : K))).sum = a.sum := by
  induction a generalizing n with
  | nil => simp
  | cons x a ih =>
    cases n with
    | zero => simp at h
    | succ n =>
      rw [List.replicate_succ, List.zipWith_cons_cons, List.sum_cons, List.sum_cons,
        ih n (by simpa using h), mul_one]

omit [ScoreOps K] [Inhabited K] in
/-- `np.average` with the effective weights -/
theorem dec_average_ok (a ys : List K) (w : Option (List K)) (hl : a.length = ys.length)
    (hw : ∀ w', w = some w' → w'.length = ys.length) (hne : ys ≠ [])
    (hpos : ∀ v ∈ dec_wts ys w, 0 < v) :
    average a w
      = .ok ((List.zipWith (· * ·) a (dec_wts ys w)).sum / (dec_wts ys w).sum) := by
  have hane : a ≠ [] := by
    intro h; rw [h] at hl; exact hne (List.length_eq_zero_iff.mp hl.symm)
  cases w with
  | none =>
    unfold average
    simp only [dec_wts]
    rw [if_neg hane, List.map_const', dec_sum_ones, dec_zipWith_ones a _ hl, hl]
    rfl
  | some w' =>
    have hwl := hw w' rfl
    have hwne : w' ≠ [] := by
      intro h; rw [h] at hwl; exact hne (List.length_eq_zero_iff.mp hwl.symm)
    have hsum : 0 < w'.sum := List.sum_pos _ hpos hwne
    unfold average
    simp only [dec_wts]
    rw [if_neg (by rw [not_not, hwl, hl]), if_neg (by rw [dec_eqK_iff]; exact hsum.ne')]
    rfl

omit [Field K] [LinearOrder K] [IsStrictOrderedRing K] [ScoreOps K] [Inhabited K] in
theorem dec_mapM_map {ε α β : Type} (f : α → Except ε β) (g : α → β) (l : List α)
    (h : ∀ a ∈ l, f a = .ok (g a)) : l.mapM f = .ok (l.map g) := by
  induction l with
  | nil => rfl
  | cons a l ih =>
    rw [dec_mapM_cons, h a (by simp), ih (fun p hp => h p (by simp [hp]))]
    rfl

/-- **`scoring_function(y, z, w)` as a weighted total**: if every pair has the per-pair value
`S y z`, the call returns the weighted total divided by the sum of the weights -/
theorem dec_sfMean_ok (sf : SF K) (S : K → K → K) (ys zs : List K) (w : Option (List K))
    (hlen : zs.length = ys.length)
    (hS : ∀ p ∈ ys.zip zs, sfPair sf p.1 p.2 = .ok (S p.1 p.2))
    (hw : ∀ w', w = some w' → w'.length = ys.length) (hne : ys ≠ [])
    (hpos : ∀ v ∈ dec_wts ys w, 0 < v) :
    sfMean sf ys zs w
      = .ok (total (dec_wS S) (ys.zip (dec_wts ys w)) zs / (dec_wts ys w).sum) := by
  unfold sfMean
  rw [if_neg (by rw [not_not, hlen])]
  have hm := dec_mapM_map (fun p : K × K => sfPair sf p.1 p.2) (fun p => S p.1 p.2) (ys.zip zs) hS
  show (List.mapM (fun p : K × K => sfPair sf p.1 p.2) (ys.zip zs) >>= fun s => average s w) = _
  rw [hm, dec_total_eq_zip, dec_ok_bind]
  exact dec_average_ok _ ys w (by simp [hlen]) hw hne hpos

omit [ScoreOps K] in
/-- a successful `fit` on `(X, y, w)`: matching lengths, non-empty data, positive effective
weights (so a successful `decompose` with at least one column has positive weights) -/
theorem dec_isoFit_ok_data {f : Functional} {lv : K} {X y : List K} {w : Option (List K)}
    {tx ty : List K} (h : isoFit (some f) lv true X y w = .ok (tx, ty)) :
    X.length = y.length ∧ (∀ w', w = some w' → w'.length = y.length) ∧ y ≠ [] ∧
      ∀ v ∈ dec_wts y w, 0 < v := by
  obtain ⟨hX, hw, yiso, r, hr, _, _⟩ := fit_isoFit_inv h
  obtain ⟨v, hv, _, _⟩ := isoReg_inv hr
  obtain ⟨hne, _, _, _, _⟩ := eqValidate_ok hv
  obtain ⟨_, h2, h3⟩ := dec_fit_rows_cols X y w hX hw
  have hsne : fit_sorted true X y w ≠ [] := by
    intro he; rw [he] at hne; exact hne rfl
  have hyne : y ≠ [] := by
    intro he
    apply hsne
    have : (fit_rows X y w).length = 0 := by
      have := congrArg List.length h2
      rw [List.length_map] at this
      rw [this, he]
      rfl
    have hperm : (fit_sorted true X y w).Perm (fit_rows X y w) := List.mergeSort_perm _ _
    exact List.length_eq_zero_iff.mp (by rw [hperm.length_eq, this])
  refine ⟨hX, hw, hyne, ?_⟩
  cases w with
  | none =>
    intro u hu
    obtain ⟨_, _, rfl⟩ := List.mem_map.mp hu
    exact one_pos
  | some w' =>
    simp only [Option.map_some] at hr
    obtain ⟨_, _, hpos⟩ := dec_isoReg_some_ok hr
    intro u hu
    rw [← h3] at hu
    obtain ⟨a, ha, rfl⟩ := List.mem_map.mp hu
    exact hpos _ (List.mem_map.mpr ⟨a, List.mem_mergeSort.mpr ha, rfl⟩)

omit [ScoreOps K] in
/-- the recalibrated forecasts are fitted values, hence lie between two observations -/
theorem dec_recal_range {f : Functional} {lv : K} {X y : List K} {w : Option (List K)}
    {tx ty : List K} (h : isoFit (some f) lv true X y w = .ok (tx, ty)) :
    ∀ v ∈ X.map (interp tx ty), (∃ a ∈ y, a ≤ v) ∧ (∃ b ∈ y, v ≤ b) := by
  obtain ⟨hX, hw, _⟩ := fit_isoFit_inv h
  obtain ⟨yiso, r, hr⟩ := fit_isoFit_exists h
  intro v hv
  obtain ⟨q, hq, rfl⟩ := List.mem_map.mp hv
  obtain ⟨k, hk, rfl⟩ := List.getElem_of_mem hq
  obtain ⟨p, hp, _, _, he⟩ := fit_isoFit_train_orig h hr k hk
  rw [fit_get! X k hk] at he
  rw [he]
  have hmem : yiso[p]! ∈ yiso := fit_get!_mem yiso p hp
  obtain ⟨⟨a, ha, hal⟩, ⟨b, hb, hbl⟩⟩ := isoReg_range hr _ hmem
  have hsub : ∀ c ∈ (fit_sorted true X y w).map (·.y), c ∈ y := by
    intro c hc
    obtain ⟨a, ha, rfl⟩ := List.mem_map.mp hc
    rw [← (dec_fit_rows_cols X y w hX hw).2.1]
    exact List.mem_map.mpr ⟨a, List.mem_mergeSort.mp ha, rfl⟩
  exact ⟨⟨a, hsub a ha, hal⟩, ⟨b, hsub b hb, hbl⟩⟩

/-- **Signs of one row** (generic form).  `S` is the per-pair value of the score on `dom`
(`hS`), the isotonic fit for the effective functional minimises `S` (`hopt`), every value not below
all observations is an admissible prediction (`hup`), the marginal and the forecasts are admissible
and there is no domain repair.  Then miscalibration and discrimination are non-negative. -/
theorem dec_row_signs (sf : SF K) (f : Functional) (lv : K) (S : K → K → K) (dom : K → Prop)
    (ys : List K) (w : Option (List K))
    (hS : ∀ y ∈ ys, ∀ z, dom z → sfPair sf y z = .ok (S y z))
    (hopt : dec_FitOpt f lv S dom ys) (hup : ∀ v, (∃ a ∈ ys, a ≤ v) → dom v)
    (hallowed : dec_yminAllowed sf ys w = true) (marg sm : K)
    (hm : sfMean sf ys (ys.map fun _ => marg) w = .ok sm) (hmd : dom marg)
    (x : List K) (hx : ∀ z ∈ x, dom z) (row : DecompRow K)
    (hrow : dec_row sf f lv ys w sm x = .ok row) : 0 ≤ row.mcb ∧ 0 ≤ row.dsc := by
  obtain ⟨recal, score, scoreRecal, hrec, hsc, hsr, rfl⟩ := (dec_row_ok sf f lv ys w sm x row).mp hrow
  obtain ⟨tx, ty, hfit, rfl⟩ := dec_recal_ok_allowed hallowed hrec
  obtain ⟨hX, hw, hne, hpos⟩ := dec_isoFit_ok_data hfit
  have hW : 0 < (dec_wts ys w).sum := by
    apply List.sum_pos _ hpos
    intro he
    have := dec_wts_length ys w hw
    rw [he] at this
    exact hne (List.length_eq_zero_iff.mp this.symm)
  have hrd : ∀ z ∈ x.map (interp tx ty), dom z := fun z hz => hup z (dec_recal_range hfit z hz).1
  have pair : ∀ zs : List K, (∀ z ∈ zs, dom z) →
      ∀ p ∈ ys.zip zs, sfPair sf p.1 p.2 = .ok (S p.1 p.2) := by
    intro zs hzs p hp
    have := List.of_mem_zip (a := p.1) (b := p.2) hp
    exact hS p.1 this.1 p.2 (hzs _ this.2)
  have e1 := dec_sfMean_ok sf S ys x w hX (pair x hx) hw hne hpos
  have e2 := dec_sfMean_ok sf S ys (x.map (interp tx ty)) w (by simp [hX]) (pair _ hrd) hw hne hpos
  have hconst : ys.map (fun _ => marg) = x.map (fun _ => marg) := by
    rw [List.map_const', List.map_const', hX]
  have e3 := dec_sfMean_ok sf S ys (ys.map fun _ => marg) w (by simp)
    (pair _ (by intro z hz; obtain ⟨_, _, rfl⟩ := List.mem_map.mp hz; exact hmd)) hw hne hpos
  rw [hsc] at e1
  rw [hsr] at e2
  rw [hm, hconst] at e3
  have i1 := dec_recal_le_forecast hfit hopt hx
  have i2 := dec_recal_le_const hfit hopt marg hmd
  rw [Except.ok.inj e1, Except.ok.inj e2, Except.ok.inj e3]
  constructor
  · show 0 ≤ _ / _ - _ / _
    rw [← sub_div]
    exact div_nonneg (by linarith) hW.le
  · show 0 ≤ _ / _ - _ / _
    rw [← sub_div]
    exact div_nonneg (by linarith) hW.le

end Mean


/-! ### squared error -/

section SqErr
variable {K : Type} [Field K] [LinearOrder K] [IsStrictOrderedRing K] [ScoreOps K] [Inhabited K]

/-- `np.average` never raises a `ValueError` -/
theorem dec_average_not_valueError (a : List K) (w : Option (List K)) :
    average a w ≠ .error .valueError := by
  unfold average
  cases w with
  | none =>
    simp only
    split_ifs <;> intro h <;> cases h
  | some w' =>
    simp only
    split_ifs <;> intro h <;> cases h

/-- if every pair is admissible, `scoring_function(y, z, w)` does not raise a `ValueError` (given
equal lengths) -/
theorem dec_sfMean_not_valueError (sf : SF K) (ys zs : List K) (w : Option (List K))
    (hlen : ys.length = zs.length) (S : K → K → K)
    (hS : ∀ p ∈ ys.zip zs, sfPair sf p.1 p.2 = .ok (S p.1 p.2)) :
    sfMean sf ys zs w ≠ .error .valueError := by
  unfold sfMean
  rw [if_neg (by rw [not_not]; exact hlen)]
  have hm := dec_mapM_map (fun p : K × K => sfPair sf p.1 p.2) (fun p => S p.1 p.2) (ys.zip zs) hS
  show (List.mapM (fun p : K × K => sfPair sf p.1 p.2) (ys.zip zs) >>= fun s => average s w) ≠ _
  rw [hm, dec_ok_bind]
  exact dec_average_not_valueError _ _

/-- … so `yminAllowed` holds when `(y[0], min y)` is an admissible pair -/
theorem dec_yminAllowed_of_ok (sf : SF K) (ys : List K) (w : Option (List K)) (v : K)
    (h : sfPair sf ys[0]! (ys.foldl min ys[0]!) = .ok v) : dec_yminAllowed sf ys w = true := by
  unfold dec_yminAllowed
  have := dec_sfMean_not_valueError sf [ys[0]!] [ys.foldl min ys[0]!]
    (w.map (fun w' => w'.take 1)) rfl (fun _ _ => v) (by
      intro p hp
      simp only [List.zip_cons_cons, List.zip_nil_right, List.mem_singleton] at hp
      rw [hp]; exact h)
  split
  · rename_i heq; exact absurd heq this
  · rfl

/-- the squared error per pair (any ordered field: no `ScoreOps` operation is called) -/
theorem dec_hes_two (y z : K) : hes two half y z = .ok ((z - y) * (z - y)) := by
  unfold hes
  have h1 : eqK (two : K) two := (dec_eqK_iff _ _).mpr rfl
  have h2 : eqK (half : K) half := (dec_eqK_iff _ _).mpr rfl
  simp only [if_pos h1, if_pos h2, pure_bind]
  rfl

theorem dec_sfPair_sq (sf : SF K) (hk : sf.kind = .squaredError) (he : sf.elem = none) (y z : K) :
    sfPair sf y z = .ok ((z - y) * (z - y)) := by
  unfold sfPair
  rw [he, hk]
  exact dec_hes_two y z

/-- for the squared error `functional` is the mean -/
theorem dec_validate_sq (sf : SF K) (hk : sf.kind = .squaredError) (he : sf.elem = none)
    (fn : Option (Option Functional)) (hfn : fn = none ∨ fn = some (some .mean)) (lv : Option K) :
    ∃ l, dec_validate sf fn lv = .ok (Functional.mean, l) := by
  have hf : dec_fn sf fn = some .mean := by
    rcases hfn with rfl | rfl
    · simp [dec_fn, sfFunctional, he, hk]
    · rfl
  unfold dec_validate
  rw [hf]
  cases lv with
  | none => exact ⟨half, rfl⟩
  | some l => exact ⟨l, rfl⟩

end SqErr


/-! ### recalibrating twice; `mcb = 0` -/
section Idem
variable {K : Type} [Field K] [LinearOrder K] [IsStrictOrderedRing K] [ScoreOps K] [Inhabited K]

omit [ScoreOps K] in
/-- the prediction function of a fitted increasing model is non-decreasing -/
theorem dec_interp_monotone {f : Functional} {lv : K} {X y : List K} {w : Option (List K)}
    {tx ty : List K} (h : isoFit (some f) lv true X y w = .ok (tx, ty)) :
    Monotone (interp tx ty) := by
  obtain ⟨yiso, r, hr⟩ := fit_isoFit_exists h
  intro a b hab
  have := (fit_isoFit_fitted h hr).predict_mono a b hab
  simpa using this

omit [ScoreOps K] in
/-- **Recalibrating recalibrated forecasts does not change the total score**: let `x' = recal(X₀)`
and `x'' = recal(x')` (same responses, weights, functional).  Then `x''` and `x'` have the same
total score, for every score that the isotonic fit minimises. -/
theorem dec_recal_idem_total {f : Functional} {lv : K} {S : K → K → K} {dom : K → Prop}
    {X₀ y : List K} {w : Option (List K)} {tx₀ ty₀ tx ty : List K}
    (h₀ : isoFit (some f) lv true X₀ y w = .ok (tx₀, ty₀))
    (h : isoFit (some f) lv true (X₀.map (interp tx₀ ty₀)) y w = .ok (tx, ty))
    (hopt : dec_FitOpt f lv S dom y) (hup : ∀ v, (∃ a ∈ y, a ≤ v) → dom v) :
    total (dec_wS S) (y.zip (dec_wts y w)) ((X₀.map (interp tx₀ ty₀)).map (interp tx ty))
      = total (dec_wS S) (y.zip (dec_wts y w)) (X₀.map (interp tx₀ ty₀)) := by
  apply le_antisymm
  · exact dec_recal_le_forecast h hopt (fun z hz => hup z (dec_recal_range h₀ z hz).1)
  · have := dec_recal_le h₀ hopt (fun q => interp tx ty (interp tx₀ ty₀ q))
      ((dec_interp_monotone h).comp (dec_interp_monotone h₀))
      (by
        intro q hq
        apply hup
        refine (dec_recal_range h _ ?_).1
        exact List.mem_map.mpr ⟨_, List.mem_map.mpr ⟨q, hq, rfl⟩, rfl⟩)
    rw [List.map_map]
    exact this

/-- **`mcb = 0` for recalibrated forecasts** (generic form): in the setting of `dec_row_signs`, if
the forecast column is itself the recalibration `recal(X₀)` of some forecast `X₀` (same data,
weights, functional), its miscalibration is `0`. -/
theorem dec_row_mcb_zero (sf : SF K) (f : Functional) (lv : K) (S : K → K → K) (dom : K → Prop)
    (ys : List K) (w : Option (List K))
    (hS : ∀ y ∈ ys, ∀ z, dom z → sfPair sf y z = .ok (S y z))
    (hopt : dec_FitOpt f lv S dom ys) (hup : ∀ v, (∃ a ∈ ys, a ≤ v) → dom v)
    (hallowed : dec_yminAllowed sf ys w = true) (sm : K)
    (X₀ tx₀ ty₀ : List K) (h₀ : isoFit (some f) lv true X₀ ys w = .ok (tx₀, ty₀))
    (row : DecompRow K)
    (hrow : dec_row sf f lv ys w sm (X₀.map (interp tx₀ ty₀)) = .ok row) : row.mcb = 0 := by
  obtain ⟨recal, score, scoreRecal, hrec, hsc, hsr, rfl⟩ :=
    (dec_row_ok sf f lv ys w sm _ row).mp hrow
  obtain ⟨tx, ty, hfit, rfl⟩ := dec_recal_ok_allowed hallowed hrec
  obtain ⟨hX, hw, hne, hpos⟩ := dec_isoFit_ok_data hfit
  have hxd : ∀ z ∈ X₀.map (interp tx₀ ty₀), dom z := fun z hz => hup z (dec_recal_range h₀ z hz).1
  have hrd : ∀ z ∈ (X₀.map (interp tx₀ ty₀)).map (interp tx ty), dom z :=
    fun z hz => hup z (dec_recal_range hfit z hz).1
  have pair : ∀ zs : List K, (∀ z ∈ zs, dom z) →
      ∀ p ∈ ys.zip zs, sfPair sf p.1 p.2 = .ok (S p.1 p.2) := by
    intro zs hzs p hp
    have := List.of_mem_zip (a := p.1) (b := p.2) hp
    exact hS p.1 this.1 p.2 (hzs _ this.2)
  have e1 := dec_sfMean_ok sf S ys _ w hX (pair _ hxd) hw hne hpos
  have e2 := dec_sfMean_ok sf S ys _ w (by simpa using hX) (pair _ hrd) hw hne hpos
  rw [hsc] at e1
  rw [hsr] at e2
  show score - scoreRecal = 0
  rw [Except.ok.inj e1, Except.ok.inj e2, dec_recal_idem_total h₀ hfit hopt hup, sub_self]

end Idem

/-! ### constant forecasts; `dsc = 0` -/

section OneBlock
variable {L : Type} [LinearOrder L] {ok : Obs L → Prop} {T : List (Obs L) → L}

/-- **Non-increasing responses are pooled into a single block** by the generalised PAVA -/
theorem dec_gpava_one_block (hT : Internal ok T) (ys : List (Obs L)) (hys : ∀ o ∈ ys, ok o)
    (hne : ys ≠ [])
    (hrun : ∀ k u v, ys[k]? = some u → ys[k + 1]? = some v → v.1 ≤ u.1) :
    gpava T ys = [⟨ys, T ys⟩] := by
  obtain ⟨hg, _, hflat⟩ := gpava_spec hT ys hys
  have hn : 0 < ys.length := List.length_pos_iff.mpr hne
  have hb := gpava_run_one_block hT ys hys 0 (ys.length - 1) (by omega)
    (fun k _ _ u v hu hv => hrun k u v hu hv)
  cases hbs : gpava T ys with
  | nil => rw [hbs] at hflat; exact absurd hflat.symm hne
  | cons b rest =>
    rw [hbs] at hg hflat hb
    cases rest with
    | nil =>
      simp only [List.flatMap_cons, List.flatMap_nil, List.append_nil] at hflat
      have hv := (hg b (by simp)).val
      rw [hflat] at hv
      cases b
      simp only at hflat hv
      rw [hflat, hv]
    | cons b2 rest' =>
      exfalso
      have hlen := congrArg List.length hflat
      simp only [List.flatMap_cons, List.length_append] at hlen
      have h1 : 0 < b.data.length := List.length_pos_iff.mpr (hg b (by simp)).ne
      have h2 : 0 < b2.data.length := List.length_pos_iff.mpr (hg b2 (by simp)).ne
      have hmem : b.data.length ∈ bounds (b :: b2 :: rest') := by
        rw [bounds_cons, bounds_cons]
        simp
      rcases hb _ hmem with h | h <;> omega

end OneBlock

section Const
variable {K : Type} [Field K] [LinearOrder K] [IsStrictOrderedRing K] [Inhabited K]

/-- the functional of `functional`/`level` on a list of observations: weighted mean, weighted
expectile, mid-quantile (unweighted) -/
def dec_T (f : Functional) (α : K) (d : List (Obs K)) : K :=
  match f with
  | .mean => wmean d
  | .expectile => expectile α d
  | _ => half * (qLower α d + qUpper α d)

omit [Inhabited K] in
/-- on non-increasing responses the fit of every functional is the constant `dec_T` -/
theorem dec_eqFit_const {f : Functional} {α : K} (hf : FitOK f α) (obs : List (Obs K))
    (hne : obs ≠ []) (hpos : ∀ o ∈ obs, 0 < o.2)
    (hrun : ∀ k u v, obs[k]? = some u → obs[k + 1]? = some v → v.1 ≤ u.1) :
    (eqFit f α obs).1 = List.replicate obs.length (dec_T f α obs) := by
  cases f
  · rw [eqFit_mean _ _ hpos, dec_gpava_one_block wmean_internal obs hpos hne hrun]
    simp [expand, dec_T]
  · exact absurd rfl hf.notMedian
  · obtain ⟨h0, h1⟩ := hf.lvl (Or.inl rfl)
    show expand (gpava (expectile α) obs) = _
    have hg := dec_gpava_one_block (expectileFun α h0 h1).internal obs hpos hne hrun
    have hT : (expectileFun α h0 h1).T = expectile α := rfl
    rw [hT] at hg
    rw [hg]
    simp [expand, dec_T]
  · obtain ⟨h0, h1⟩ := hf.lvl (Or.inr rfl)
    show (quantileFit α obs).1 = _
    have hg := dec_gpava_one_block (quantFun α h0 h1).internal obs (fun _ _ => trivial) hne hrun
    have hT : (quantFun α h0 h1).T = qLower α := rfl
    rw [hT] at hg
    simp only [quantileFit, hg, expand, List.flatMap_cons, List.flatMap_nil, List.append_nil,
      List.map_cons, List.map_nil, minAccRight, List.zipWith_cons_cons, List.zipWith_nil_right,
      List.flatten_cons, List.flatten_nil, dec_T]
    rw [List.zipWith_replicate]
    simp

omit [Inhabited K] in
/-- validated triple for a functional that is not `median` -/
theorem dec_eqValidate_eq {f : Functional} {α : K} {y : List K} {wopt : Option (List K)}
    {v : Functional × K × List K} (hm : f ≠ .median)
    (hv : eqValidate (some f) α y wopt = .ok v) : v = (f, α, dec_wts y wopt) := by
  cases wopt with
  | none =>
    simp only [eqValidate] at hv
    split_ifs at hv
    cases hv
    simp [eqEff, hm, dec_wts]
  | some wl =>
    simp only [eqValidate] at hv
    split_ifs at hv
    cases hv
    rfl

/-- **`isotonic_regression` of non-increasing responses (increasing fit) is constant**, equal to
the functional of the whole sample -/
theorem dec_isoReg_const {f : Functional} {α : K} {y : List K} {wopt : Option (List K)}
    {x : List K} {r : List Nat} (hm : f ≠ .median)
    (h : isoReg (some f) α true y wopt = .ok (x, r))
    (hrun : ∀ k, k + 1 < y.length → y[k + 1]! ≤ y[k]!) :
    x = List.replicate y.length (dec_T f α (y.zip (dec_wts y wopt))) := by
  obtain ⟨v, hv, rfl, _⟩ := isoReg_inv h
  obtain ⟨hne, hlen, hpos, hf, _⟩ := eqValidate_ok hv
  have hv' := dec_eqValidate_eq hm hv
  subst hv'
  simp only [eqOut, orient_true]
  simp only at hlen hpos hf
  have hzl := zip_length_of_eq hlen
  rw [dec_eqFit_const hf _ (by
      intro he; rw [he] at hzl; exact hne (List.length_eq_zero_iff.mp hzl.symm))
    (zip_snd_pos hpos) ?_, hzl]
  intro k u v hu hv
  have hk : k + 1 < y.length := by
    rw [← hzl]
    by_contra hcon
    rw [List.getElem?_eq_none (by omega)] at hv
    cases hv
  have e1 := fit_obs_fst true y _ hlen k u hu
  have e2 := fit_obs_fst true y _ hlen (k + 1) v hv
  simp only [orient_true] at e1 e2
  rw [← e1, ← e2]
  exact hrun k hk

/-- **the fitted model of constant forecasts is the constant functional of the sample** (in the
sorted order of the rows) -/
theorem dec_recal_const {f : Functional} {lv : K} {X y : List K} {w : Option (List K)}
    {tx ty : List K} (hm : f ≠ .median) (h : isoFit (some f) lv true X y w = .ok (tx, ty))
    (hc : ∀ a ∈ X, ∀ b ∈ X, a = b) :
    X.map (interp tx ty) = X.map (fun _ => dec_T f lv
      (((fit_sorted true X y w).map (·.y)).zip ((fit_sorted true X y w).map (·.w)))) := by
  obtain ⟨hX, hw, _⟩ := fit_isoFit_inv h
  obtain ⟨yiso, r, hr⟩ := fit_isoFit_exists h
  have hxs : ∀ v ∈ (fit_sorted true X y w).map (·.x), v ∈ X := by
    intro v hv
    obtain ⟨a, ha, rfl⟩ := List.mem_map.mp hv
    rw [← (dec_fit_rows_cols X y w hX hw).1]
    exact List.mem_map.mpr ⟨a, List.mem_mergeSort.mp ha, rfl⟩
  have hconst := dec_isoReg_const hm hr (by
    intro k hk
    rw [List.length_map] at hk
    have := fit_tieRun_of_sorted true _ (fit_sorted_pairwise true (fit_rows X y w)) k (k + 1)
      hk (hc _ (hxs _ (fit_get!_mem _ _ (by simp; omega))) _
        (hxs _ (fit_get!_mem _ _ (by simpa using hk)))) k le_rfl (by omega)
    simpa [fit_sorted] using this)
  rw [dec_sorted_wts] at hconst
  apply List.map_congr_left
  intro q hq
  obtain ⟨k, hk, rfl⟩ := List.getElem_of_mem hq
  obtain ⟨p, hp, _, _, he⟩ := fit_isoFit_train_orig h hr k hk
  rw [fit_get! X k hk] at he
  rw [he, fit_get! yiso p hp]
  simp only [hconst, List.getElem_replicate]

/-! ### the functionals do not depend on the order of the observations -/

omit [Inhabited K] in
/-- an identifiable functional does not depend on the order of the (admissible) observations -/
theorem dec_IdFun_T_perm (F : IdFun K) {d d' : List (Obs K)} (hp : d.Perm d') (hne : d ≠ [])
    (hok : ∀ o ∈ d, F.ok o) : F.T d = F.T d' := by
  have hne' : d' ≠ [] := by
    intro he; rw [he] at hp; exact hne hp.eq_nil
  have hok' : ∀ o ∈ d', F.ok o := fun o ho => hok o (hp.mem_iff.mpr ho)
  have hE : ∀ u, Esum F.Vp d u = Esum F.Vp d' u := fun u => (hp.map _).sum_eq
  apply le_antisymm
  · rw [F.spec d hne hok, hE, ← F.spec d' hne' hok']
  · rw [F.spec d' hne' hok', ← hE, ← F.spec d hne hok]

omit [Inhabited K] in
theorem dec_T_perm {f : Functional} {α : K} (hf : FitOK f α) {d d' : List (Obs K)}
    (hp : d.Perm d') (hne : d ≠ []) (hpos : ∀ o ∈ d, 0 < o.2) : dec_T f α d = dec_T f α d' := by
  cases f
  · show wysum d / wsum d = wysum d' / wsum d'
    unfold wysum wsum
    rw [(hp.map _).sum_eq, (hp.map _).sum_eq]
  · exact absurd rfl hf.notMedian
  · obtain ⟨h0, h1⟩ := hf.lvl (Or.inl rfl)
    exact dec_IdFun_T_perm (expectileFun α h0 h1) hp hne hpos
  · obtain ⟨h0, h1⟩ := hf.lvl (Or.inr rfl)
    show half * (qLower α d + qUpper α d) = half * (qLower α d' + qUpper α d')
    have e1 : qLower α d = qLower α d' :=
      dec_IdFun_T_perm (quantFun α h0 h1) hp hne (fun _ _ => trivial)
    have e2 : qLower (1 - α) (negObs d) = qLower (1 - α) (negObs d') :=
      dec_IdFun_T_perm (quantFun (1 - α) (by linarith) (by linarith)) (hp.map _)
        (by simpa [negObs] using hne) (fun _ _ => trivial)
    unfold qUpper
    rw [e1, e2]

omit [Inhabited K] in
theorem dec_wysum_zip (ys ws : List K) : wysum (ys.zip ws) = (List.zipWith (· * ·) ys ws).sum := by
  unfold wysum
  induction ys generalizing ws with
  | nil => simp
  | cons y ys ih =>
    cases ws with
    | nil => simp
    | cons v ws => simp only [List.zip_cons_cons, List.map_cons, List.sum_cons,
        List.zipWith_cons_cons]; rw [ih ws]

omit [Inhabited K] in
theorem dec_wsum_zip (ys ws : List K) (h : ws.length = ys.length) : wsum (ys.zip ws) = ws.sum := by
  unfold wsum
  rw [List.map_snd_zip (by omega)]

omit [Inhabited K] in
theorem dec_obsOf_eq (ys : List K) (w : Option (List K)) : obsOf ys w = ys.zip (dec_wts ys w) := by
  cases w with
  | some w' => rfl
  | none =>
    simp only [obsOf, dec_wts]
    induction ys with
    | nil => rfl
    | cons y ys ih => simp only [List.map_cons, List.zip_cons_cons, ih]

end Const

section Marg
variable {K : Type} [Field K] [LinearOrder K] [IsStrictOrderedRing K] [ScoreOps K] [Inhabited K]

omit [ScoreOps K] [Inhabited K] in
/-- the marginal of `decompose` is `dec_T` of the observations (positive weights; for the quantile
the weights are absent, as the fit requires) -/
theorem dec_functionalVal_eq {f : Functional} {lv : K} {ys : List K} {w : Option (List K)}
    {marg : K} (hq : f ≠ .mean → f ≠ .expectile → w = none)
    (hw : ∀ w', w = some w' → w'.length = ys.length) (hne : ys ≠ [])
    (hpos : ∀ v ∈ dec_wts ys w, 0 < v) (h : functionalVal f lv ys w = .ok marg) :
    marg = dec_T f lv (ys.zip (dec_wts ys w)) := by
  cases f with
  | mean =>
    have := dec_average_ok ys ys w rfl hw hne hpos
    simp only [functionalVal] at h
    rw [this] at h
    rw [← Except.ok.inj h]
    show _ = wysum _ / wsum _
    rw [dec_wysum_zip, dec_wsum_zip _ _ (dec_wts_length ys w hw)]
  | expectile =>
    simp only [functionalVal] at h
    rw [← Except.ok.inj h, dec_obsOf_eq]
    rfl
  | median =>
    have := hq (by decide) (by decide)
    subst this
    simp only [functionalVal] at h
    rw [← Except.ok.inj h, dec_obsOf_eq]
    rfl
  | quantile =>
    have := hq (by decide) (by decide)
    subst this
    simp only [functionalVal] at h
    rw [← Except.ok.inj h, dec_obsOf_eq]
    rfl

omit [ScoreOps K] in
/-- what a successful `fit` says about functional, level and weights: the effective pair is
admissible, and weights are only present for mean and expectile -/
theorem dec_isoFit_fitOK {f : Functional} {lv : K} {X y : List K} {w : Option (List K)}
    {tx ty : List K} (hm : f ≠ .median) (h : isoFit (some f) lv true X y w = .ok (tx, ty)) :
    FitOK f lv ∧ (f ≠ .mean → f ≠ .expectile → w = none) := by
  obtain ⟨yiso, r, hr⟩ := fit_isoFit_exists h
  obtain ⟨v, hv, _, _⟩ := isoReg_inv hr
  obtain ⟨_, _, _, hf, hwn⟩ := eqValidate_ok hv
  have hv' := dec_eqValidate_eq hm hv
  subst hv'
  refine ⟨hf, ?_⟩
  intro h1 h2
  cases w with
  | none => rfl
  | some w' =>
    rcases hwn (by simp) with h' | h'
    · exact absurd h' h1
    · exact absurd h' h2

omit [ScoreOps K] in
/-- the observations of the sorted sample are a permutation of the observations -/
theorem dec_sorted_obs_perm (inc : Bool) (X y : List K) (w : Option (List K))
    (hX : X.length = y.length) (hw : ∀ w', w = some w' → w'.length = y.length) :
    (((fit_sorted inc X y w).map (·.y)).zip ((fit_sorted inc X y w).map (·.w))).Perm
      (y.zip (dec_wts y w)) := by
  obtain ⟨_, h2, h3⟩ := dec_fit_rows_cols X y w hX hw
  have e : y.zip (dec_wts y w) = (fit_rows X y w).map (fun a => (a.y, a.w)) := by
    rw [← List.zip_map', h2, h3]
  rw [e, List.zip_map']
  exact (List.mergeSort_perm _ _).map _

omit [ScoreOps K] in
/-- **Constant forecasts are recalibrated to the marginal**: if all forecasts of a column are equal,
the fitted model evaluated at the forecasts is the constant marginal functional of `y` — the very
number `decompose` uses for `uncertainty`. -/
theorem dec_recal_const_marginal {f : Functional} {lv : K} {X y : List K} {w : Option (List K)}
    {tx ty : List K} {marg : K} (hm : f ≠ .median)
    (h : isoFit (some f) lv true X y w = .ok (tx, ty)) (hc : ∀ a ∈ X, ∀ b ∈ X, a = b)
    (hmarg : functionalVal f lv y w = .ok marg) :
    X.map (interp tx ty) = y.map (fun _ => marg) := by
  obtain ⟨hX, hw, hne, hpos⟩ := dec_isoFit_ok_data h
  obtain ⟨hf, hq⟩ := dec_isoFit_fitOK hm h
  have hperm := dec_sorted_obs_perm true X y w hX hw
  have hne' : ((fit_sorted true X y w).map (·.y)).zip ((fit_sorted true X y w).map (·.w)) ≠ [] := by
    intro he
    rw [he] at hperm
    have := hperm.symm.eq_nil
    have hl := congrArg List.length this
    rw [zip_length_of_eq (dec_wts_length y w hw)] at hl
    exact hne (List.length_eq_zero_iff.mp hl)
  have hpos' : ∀ o ∈ ((fit_sorted true X y w).map (·.y)).zip ((fit_sorted true X y w).map (·.w)),
      0 < o.2 := by
    intro o ho
    have := hperm.mem_iff.mp ho
    exact hpos _ (List.of_mem_zip (a := o.1) (b := o.2) this).2
  rw [dec_recal_const hm h hc, dec_T_perm hf hperm hne' hpos',
    ← dec_functionalVal_eq hq hw hne hpos hmarg, List.map_const', List.map_const', hX]

/-- **`dsc = 0` for constant forecasts** (any score object): when there is no domain repair, a
column of equal forecasts gets discrimination exactly `0` -/
theorem dec_row_dsc_zero (sf : SF K) (f : Functional) (lv : K) (hm : f ≠ .median) (ys : List K)
    (w : Option (List K)) (hallowed : dec_yminAllowed sf ys w = true) (marg sm : K)
    (hmarg : functionalVal f lv ys w = .ok marg)
    (hsm : sfMean sf ys (ys.map fun _ => marg) w = .ok sm)
    (x : List K) (hc : ∀ a ∈ x, ∀ b ∈ x, a = b) (row : DecompRow K)
    (hrow : dec_row sf f lv ys w sm x = .ok row) : row.dsc = 0 := by
  obtain ⟨recal, score, scoreRecal, hrec, _, hsr, rfl⟩ := (dec_row_ok sf f lv ys w sm x row).mp hrow
  obtain ⟨tx, ty, hfit, rfl⟩ := dec_recal_ok_allowed hallowed hrec
  rw [dec_recal_const_marginal hm hfit hc hmarg, hsm] at hsr
  show sm - scoreRecal = 0
  rw [Except.ok.inj hsr, sub_self]

end Marg

end MD
