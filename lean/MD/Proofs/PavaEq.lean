import MD.Proofs.MeanInst
import Mathlib.Tactic.Linarith
import Mathlib.Tactic.Ring
import Mathlib.Tactic.FieldSimp

/-! # `pava()` with running sums = generalised PAVA with the weighted mean

`mLoop` (the model of the code's `pava`, which keeps the running sums `sb`, `wb` and the block
weights `w[b]`) is simulated by `loop wmean` (the generalised PAVA that recomputes the functional on
the raw data of the block).  The relation between the two stacks is `List.map toBlk`; the invariant
says that the stored sums are the sums of the ghost data. -/

set_option linter.unusedSectionVars false

namespace MD
variable {K : Type} [Field K] [LinearOrder K] [IsStrictOrderedRing K]

theorem wsum_append (A B : List (Obs K)) : wsum (A ++ B) = wsum A + wsum B := by
  simp [wsum]

theorem wysum_append (A B : List (Obs K)) : wysum (A ++ B) = wysum A + wysum B := by
  simp [wysum]

theorem wsum_single (p : Obs K) : wsum [p] = p.2 := by simp [wsum]

theorem wysum_single (p : Obs K) : wysum [p] = p.1 * p.2 := by simp [wysum]

/-- forget the weight of a `pava` block -/
def toBlk (m : MBlk K) : Blk K := ⟨m.data, m.val⟩

/-- the block under construction seen as a block of the generalised PAVA -/
def curBlk (c : MCur K) : Blk K := ⟨c.data, c.xb⟩

/-- invariant of a finished block of `pava` -/
structure MInv (m : MBlk K) : Prop where
  ne : m.data ≠ []
  pos : ∀ o ∈ m.data, 0 < o.2
  wgt : m.wgt = wsum m.data
  val : m.val = wmean m.data

/-- invariant of the block under construction -/
structure CInv (c : MCur K) : Prop where
  ne : c.data ≠ []
  pos : ∀ o ∈ c.data, 0 < o.2
  sb : c.sb = wysum c.data
  wb : c.wb = wsum c.data
  xb : c.xb = c.sb / c.wb

theorem MInv.mul {m : MBlk K} (h : MInv m) : m.wgt * m.val = wysum m.data := by
  have hW := wsum_pos h.ne h.pos
  rw [h.wgt, h.val, wmean]
  field_simp

theorem CInv.xb_eq {c : MCur K} (h : CInv c) : c.xb = wmean c.data := by
  rw [h.xb, h.sb, h.wb, wmean]

theorem MInv.single (p : Obs K) (hp : 0 < p.2) : MInv (⟨[p], p.1, p.2⟩ : MBlk K) := by
  refine ⟨by simp, by simpa using hp, by simp [wsum_single], ?_⟩
  simp only [wmean, wysum_single, wsum_single]
  field_simp

/-- the invariant after pushing one raw observation on the current block -/
theorem CInv.push {c : MCur K} (h : CInv c) (p : Obs K) (hp : 0 < p.2) :
    CInv ⟨c.data ++ [p], c.sb + p.2 * p.1, c.wb + p.2, (c.sb + p.2 * p.1) / (c.wb + p.2)⟩ := by
  refine ⟨by simp, ?_, ?_, ?_, rfl⟩
  · intro o ho
    rcases List.mem_append.mp ho with h' | h'
    · exact h.pos o h'
    · simp only [List.mem_singleton] at h'; subst h'; exact hp
  · simp only [wysum_append, wysum_single, h.sb]; ring
  · simp only [wsum_append, wsum_single, h.wb]

/-- the invariant after merging the finished block `m` in front of the current block -/
theorem CInv.merge {c : MCur K} (h : CInv c) {m : MBlk K} (hm : MInv m) :
    CInv ⟨m.data ++ c.data, c.sb + m.wgt * m.val, c.wb + m.wgt,
      (c.sb + m.wgt * m.val) / (c.wb + m.wgt)⟩ := by
  refine ⟨by simp [h.ne], ?_, ?_, ?_, rfl⟩
  · intro o ho
    rcases List.mem_append.mp ho with h' | h'
    · exact hm.pos o h'
    · exact h.pos o h'
  · simp only [wysum_append, h.sb, hm.mul]; ring
  · simp only [wsum_append, h.wb, hm.wgt]; ring

theorem CInv.toMInv {c : MCur K} (h : CInv c) : MInv ⟨c.data, c.xb, c.wb⟩ :=
  ⟨h.ne, h.pos, h.wb, h.xb_eq⟩

/-- simulation of `mAbsorb` by `absorb wmean` -/
theorem mAbsorb_sim (c : MCur K) (l : List (Obs K)) (hc : CInv c) (hl : ∀ o ∈ l, 0 < o.2) :
    CInv (mAbsorb c l).1 ∧
      absorb wmean (curBlk c) l = (curBlk (mAbsorb c l).1, (mAbsorb c l).2) := by
  induction l generalizing c with
  | nil => exact ⟨by simpa [mAbsorb] using hc, by simp [mAbsorb, absorb]⟩
  | cons p rest ih =>
    have hp : 0 < p.2 := hl p (by simp)
    have hrest : ∀ o ∈ rest, 0 < o.2 := fun o ho => hl o (by simp [ho])
    unfold mAbsorb absorb
    by_cases hle : p.1 ≤ c.xb
    · have hle' : p.1 ≤ (curBlk c).val := hle
      rw [if_pos hle, if_pos hle']
      have hc' := hc.push p hp
      obtain ⟨h1, h2⟩ := ih _ hc' hrest
      refine ⟨h1, ?_⟩
      rw [← h2]
      congr 1
      simp only [curBlk]
      rw [show wmean (c.data ++ [p]) = _ from hc'.xb_eq.symm]
    · have hle' : ¬ p.1 ≤ (curBlk c).val := hle
      rw [if_neg hle, if_neg hle']
      exact ⟨hc, rfl⟩

omit [LinearOrder K] [IsStrictOrderedRing K] in
theorem mAbsorb_suffix [LE K] [DecidableLE K] (c : MCur K) (l : List (Obs K)) :
    (mAbsorb c l).2 <:+ l := by
  induction l generalizing c with
  | nil => simp [mAbsorb]
  | cons p rest ih =>
    unfold mAbsorb
    split
    · exact (ih _).trans (List.suffix_cons _ _)
    · exact List.suffix_refl _

/-- simulation of `mMergeBack` by `mergeBack wmean` -/
theorem mMergeBack_sim (c : MCur K) (st : List (MBlk K)) (hc : CInv c) (hs : ∀ m ∈ st, MInv m) :
    CInv (mMergeBack c st).1 ∧ (∀ m ∈ (mMergeBack c st).2, MInv m) ∧
      mergeBack wmean (curBlk c) (st.map toBlk)
        = (curBlk (mMergeBack c st).1, (mMergeBack c st).2.map toBlk) := by
  induction st generalizing c with
  | nil => exact ⟨by simpa [mMergeBack] using hc, by simp [mMergeBack], by simp [mMergeBack, mergeBack]⟩
  | cons top st ih =>
    have htop : MInv top := hs top (by simp)
    have hst : ∀ m ∈ st, MInv m := fun m hm => hs m (by simp [hm])
    rw [List.map_cons]
    unfold mMergeBack mergeBack
    by_cases hle : c.xb ≤ top.val
    · have hle' : (curBlk c).val ≤ (toBlk top).val := hle
      rw [if_pos hle, if_pos hle']
      have hc' := hc.merge htop
      obtain ⟨h1, h2, h3⟩ := ih _ hc' hst
      refine ⟨h1, h2, ?_⟩
      rw [← h3]
      congr 1
      simp only [curBlk, toBlk]
      rw [show wmean (top.data ++ c.data) = _ from hc'.xb_eq.symm]
    · have hle' : ¬ (curBlk c).val ≤ (toBlk top).val := hle
      rw [if_neg hle, if_neg hle']
      exact ⟨hc, hs, rfl⟩

/-- simulation of the outer loop -/
theorem mLoop_sim (st : List (MBlk K)) (rest : List (Obs K)) (hs : ∀ m ∈ st, MInv m)
    (hr : ∀ o ∈ rest, 0 < o.2) :
    loop wmean (st.map toBlk) rest = (mLoop st rest).map toBlk := by
  fun_induction mLoop st rest with
  | case1 st => simp [loop]
  | case2 p rest' ih =>
    have hp : 0 < p.2 := hr p (by simp)
    have := ih (by simpa using MInv.single p hp) (fun o ho => hr o (by simp [ho]))
    rw [← this]
    simp [loop, toBlk]
  | case3 p rest' top st hle sb wb r1 r2 hlt ih =>
    have hp : 0 < p.2 := hr p (by simp)
    have hr' : ∀ o ∈ rest', 0 < o.2 := fun o ho => hr o (by simp [ho])
    have htop : MInv top := hs top (by simp)
    have hst : ∀ m ∈ st, MInv m := fun m hm => hs m (by simp [hm])
    have hc0 : CInv ⟨top.data ++ [p], sb, wb, sb / wb⟩ := by
      have hW := wsum_pos htop.ne htop.pos
      refine ⟨by simp, ?_, ?_, ?_, rfl⟩
      · intro o ho
        rcases List.mem_append.mp ho with h' | h'
        · exact htop.pos o h'
        · simp only [List.mem_singleton] at h'; subst h'; exact hp
      · show top.wgt * top.val + p.2 * p.1 = _
        simp only [wysum_append, wysum_single, htop.mul]; ring
      · show p.2 + top.wgt = _
        simp only [wsum_append, wsum_single, htop.wgt]; ring
    obtain ⟨ha1, ha2⟩ := mAbsorb_sim _ rest' hc0 hr'
    obtain ⟨hm1, hm2, hm3⟩ := mMergeBack_sim r1.1 st ha1 hst
    have hr1 : ∀ o ∈ r1.2, 0 < o.2 := fun o ho =>
      hr' o ((mAbsorb_suffix _ rest').subset ho)
    have hnew : ∀ m ∈ (⟨r2.1.data, r2.1.xb, r2.1.wb⟩ : MBlk K) :: r2.2, MInv m := by
      intro m hm
      rcases List.mem_cons.mp hm with rfl | hm
      · exact hm1.toMInv
      · exact hm2 m hm
    rw [← ih hnew hr1]
    have hle' : p.1 ≤ (toBlk top).val := hle
    have e0 : (⟨(toBlk top).data ++ [p], wmean ((toBlk top).data ++ [p])⟩ : Blk K)
        = curBlk ⟨top.data ++ [p], sb, wb, sb / wb⟩ := by
      simp only [curBlk, toBlk]
      rw [show wmean (top.data ++ [p]) = _ from hc0.xb_eq.symm]
    rw [List.map_cons, loop, if_pos hle']
    simp only []
    rw [e0, ha2]
    change loop wmean ((mergeBack wmean (curBlk r1.1) (List.map toBlk st)).1 ::
      (mergeBack wmean (curBlk r1.1) (List.map toBlk st)).2) r1.2 = _
    rw [hm3]
    rfl
  | case4 p rest' top st hnle ih =>
    have hp : 0 < p.2 := hr p (by simp)
    have hnew : ∀ m ∈ (⟨[p], p.1, p.2⟩ : MBlk K) :: top :: st, MInv m := by
      intro m hm
      rcases List.mem_cons.mp hm with rfl | hm
      · exact MInv.single p hp
      · exact hs m hm
    have := ih hnew (fun o ho => hr o (by simp [ho]))
    rw [← this]
    have hnle' : ¬ p.1 ≤ (toBlk top).val := hnle
    simp only [List.map_cons]
    rw [loop, if_neg hnle']
    rfl

/-- **pavaMean_eq_gpava**: the code's `pava` (running sums `sb`, `wb`, block weights) computes
exactly the blocks of the generalised PAVA with the weighted mean, for positive weights. -/
theorem pavaMean_eq_gpava (ys : List (Obs K)) (hpos : ∀ o ∈ ys, 0 < o.2) :
    pavaMean ys = gpava wmean ys := by
  have h := mLoop_sim ([] : List (MBlk K)) ys (by simp) hpos
  simp only [List.map_nil] at h
  unfold pavaMean gpava
  rw [h, List.map_reverse]
  rfl

/-- the same statement for the fitted sequence -/
theorem expand_pavaMean (ys : List (Obs K)) (hpos : ∀ o ∈ ys, 0 < o.2) :
    expand (pavaMean ys) = expand (gpava wmean ys) := by
  rw [pavaMean_eq_gpava ys hpos]

/-- the hypothesis is satisfiable on a non-trivial input (with a violation, a tie and unequal
weights) -/
example : ∀ o ∈ ([(3, 1), (1, 2), (1, 1), (2, 3)] : List (Obs ℚ)), 0 < o.2 := by
  simp

end MD

/-
`#print axioms` (observed with `lake env lean MD/Proofs/PavaEq.lean`):
'MD.pavaMean_eq_gpava' depends on axioms: [propext, Classical.choice, Quot.sound]
'MD.expand_pavaMean' depends on axioms: [propext, Classical.choice, Quot.sound]
'MD.mLoop_sim' depends on axioms: [propext, Classical.choice, Quot.sound]
'MD.mAbsorb_sim' depends on axioms: [propext, Quot.sound]
'MD.mMergeBack_sim' depends on axioms: [propext, Classical.choice, Quot.sound]

Sanity check at `Rat` (`#eval`, not part of the proof), `ys = [(3,1),(1,2),(1,1),(2,3),(5,1),(4,2),(0,1)]`:
`(pavaMean ys).map (fun b => (b.data, b.val))` and `(gpava wmean ys).map (fun b => (b.data, b.val))`
both print `[([(3,1),(1,2),(1,1)], 3/2), ([(2,3)], 2), ([(5,1),(4,2),(0,1)], 13/4)]`.
-/
