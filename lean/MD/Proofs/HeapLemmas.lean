import MD.Model.Heap
/-! Helper lemmas about the object store of `MD/Model/Heap.lean`: frame properties of the primitive operations and
the effect of `safe_assign_column`'s loop on the rows a list object denotes. -/
namespace MD.Own

variable {K : Type}

/-! ### primitive operations -/

@[simp] theorem alloc_length (s : Store K) (o : Obj K) : (alloc s o).1.length = s.length + 1 := by
  simp [alloc]

@[simp] theorem alloc_addr (s : Store K) (o : Obj K) : (alloc s o).2 = s.length := rfl

theorem alloc_get_below (s : Store K) (o : Obj K) {a : Nat} (h : a < s.length) :
    (alloc s o).1[a]? = s[a]? := by
  simp [alloc, List.getElem?_append_left h]

theorem alloc_get_new (s : Store K) (o : Obj K) : (alloc s o).1[s.length]? = some o := by
  simp [alloc]

@[simp] theorem setVecElem_length (s : Store K) (a j : Nat) (v : K) : (setVecElem s a j v).length = s.length := by
  unfold setVecElem; split <;> simp

@[simp] theorem setRef_length (s : Store K) (a i r : Nat) : (setRef s a i r).length = s.length := by
  unfold setRef; split <;> simp

@[simp] theorem setMatCol_length (s : Store K) (a j : Nat) (vals : List K) :
    (setMatCol s a j vals).length = s.length := by
  unfold setMatCol; split <;> simp

theorem setVecElem_get_ne (s : Store K) {a b : Nat} (j : Nat) (v : K) (h : b ≠ a) :
    (setVecElem s a j v)[b]? = s[b]? := by
  unfold setVecElem; split
  · exact List.getElem?_set_ne (Ne.symm h)
  · rfl

theorem setRef_get_ne (s : Store K) {a b : Nat} (i r : Nat) (h : b ≠ a) :
    (setRef s a i r)[b]? = s[b]? := by
  unfold setRef; split
  · exact List.getElem?_set_ne (Ne.symm h)
  · rfl

theorem setMatCol_get_ne (s : Store K) {a b : Nat} (j : Nat) (vals : List K) (h : b ≠ a) :
    (setMatCol s a j vals)[b]? = s[b]? := by
  unfold setMatCol; split
  · exact List.getElem?_set_ne (Ne.symm h)
  · rfl

theorem setVecElem_get_self (s : Store K) {a : Nat} {l : List K} (j : Nat) (v : K) (h : s[a]? = some (.vec l)) :
    (setVecElem s a j v)[a]? = some (.vec (l.set j v)) := by
  have ha : a < s.length := by
    rcases Nat.lt_or_ge a s.length with h' | h'
    · exact h'
    · rw [List.getElem?_eq_none h'] at h; cases h
  unfold setVecElem; rw [h]; simp [ha]

theorem setRef_get_self (s : Store K) {a : Nat} {l : List Nat} (i r : Nat) (h : s[a]? = some (.refs l)) :
    (setRef s a i r)[a]? = some (.refs (l.set i r)) := by
  have ha : a < s.length := by
    rcases Nat.lt_or_ge a s.length with h' | h'
    · exact h'
    · rw [List.getElem?_eq_none h'] at h; cases h
  unfold setRef; rw [h]; simp [ha]

theorem setMatCol_get_self (s : Store K) {a : Nat} {m : List (List K)} (j : Nat) (vals : List K)
    (h : s[a]? = some (.mat m)) :
    (setMatCol s a j vals)[a]? = some (.mat (List.zipWith (fun (row : List K) v => row.set j v) m vals)) := by
  have ha : a < s.length := by
    rcases Nat.lt_or_ge a s.length with h' | h'
    · exact h'
    · rw [List.getElem?_eq_none h'] at h; cases h
  unfold setMatCol; rw [h]; simp [ha]

theorem getVec_congr {s s' : Store K} {a : Nat} (h : s'[a]? = s[a]?) : getVec s' a = getVec s a := by
  unfold getVec; rw [h]

theorem getRefs_congr {s s' : Store K} {a : Nat} (h : s'[a]? = s[a]?) : getRefs s' a = getRefs s a := by
  unfold getRefs; rw [h]

theorem getRefs_of {s : Store K} {a : Nat} {l : List Nat} (h : s[a]? = some (.refs l)) : getRefs s a = l := by
  unfold getRefs; rw [h]

theorem getVec_of {s : Store K} {a : Nat} {l : List K} (h : s[a]? = some (.vec l)) : getVec s a = l := by
  unfold getVec; rw [h]

theorem getMat_of {s : Store K} {a : Nat} {m : List (List K)} (h : s[a]? = some (.mat m)) : getMat s a = m := by
  unfold getMat; rw [h]

/-- a `refs` object is no vector -/
theorem getVec_of_refs {s : Store K} {a : Nat} {l : List Nat} (h : s[a]? = some (.refs l)) : getVec s a = [] := by
  unfold getVec; rw [h]

/-! ### one round of the assignment loop -/

section
variable [Inhabited K]

/-- the list object `xs` is in place and all its row references point into the store -/
structure ListInv (s : Store K) (xs : Nat) (l : List Nat) : Prop where
  here : s[xs]? = some (.refs l)
  valid : ∀ a ∈ l, a < s.length

theorem ListInv.xs_lt {s : Store K} {xs : Nat} {l : List Nat} (h : ListInv s xs l) : xs < s.length := by
  rcases Nat.lt_or_ge xs s.length with h' | h'
  · exact h'
  · have := h.here; rw [List.getElem?_eq_none h'] at this; cases this

/-- what `assignStep` does to the store, object by object -/
theorem assignStep_get (j xs : Nat) (s : Store K) (i : Nat) (v : K) {l : List Nat} (inv : ListInv s xs l)
    (hi : i < l.length) :
    let s' := assignStep j xs s (i, v)
    s'.length = s.length + 1 ∧
    s'[xs]? = some (.refs (l.set i s.length)) ∧
    s'[s.length]? = some (.vec ((getVec s l[i]).set j v)) ∧
    ∀ a, a < s.length → a ≠ xs → s'[a]? = s[a]? := by
  intro s'
  have hxs := inv.xs_lt
  have hrefs : getRefs s xs = l := getRefs_of inv.here
  have hold : (getRefs s xs)[i]! = l[i] := by rw [hrefs]; simp [hi]
  -- unfold one step
  have hs' : s' = setRef (setVecElem (alloc s (.vec (getVec s l[i]))).1 s.length j v) xs i s.length := by
    show assignStep j xs s (i, v) = _
    unfold assignStep
    simp only [alloc_addr, hold]
  have h1 : (alloc s (Obj.vec (getVec s l[i]))).1[s.length]? = some (.vec (getVec s l[i])) := alloc_get_new _ _
  have h2 := setVecElem_get_self _ j v h1
  have hxs1 : (alloc s (Obj.vec (getVec s l[i]))).1[xs]? = some (.refs l) := by
    rw [alloc_get_below _ _ hxs]; exact inv.here
  have hxs2 : (setVecElem (alloc s (Obj.vec (getVec s l[i]))).1 s.length j v)[xs]? = some (.refs l) := by
    rw [setVecElem_get_ne _ _ _ (Nat.ne_of_lt hxs)]; exact hxs1
  refine ⟨?_, ?_, ?_, ?_⟩
  · rw [hs']; simp
  · rw [hs']; exact setRef_get_self _ i s.length hxs2
  · rw [hs', setRef_get_ne _ _ _ (Nat.ne_of_gt hxs)]; exact h2
  · intro a ha hne
    rw [hs', setRef_get_ne _ _ _ hne, setVecElem_get_ne _ _ _ (Nat.ne_of_lt ha), alloc_get_below _ _ ha]

/-- the invariant is kept, with the `i`-th reference now pointing to the fresh copy -/
theorem assignStep_inv (j xs : Nat) (s : Store K) (i : Nat) (v : K) {l : List Nat} (inv : ListInv s xs l)
    (hi : i < l.length) : ListInv (assignStep j xs s (i, v)) xs (l.set i s.length) := by
  obtain ⟨hlen, hxs, _, _⟩ := assignStep_get j xs s i v inv hi
  refine ⟨hxs, ?_⟩
  intro a ha
  rw [hlen]
  rcases List.mem_or_eq_of_mem_set ha with h | h
  · exact Nat.lt_succ_of_lt (inv.valid a h)
  · rw [h]; exact Nat.lt_succ_self _

/-- **the rows the list denotes after one round**: row `i` is replaced by its copy with column `j` overwritten, all
other rows are the same values as before (they may be the very same objects as the caller's - they are not
written to) -/
theorem rowsOf_assignStep (j xs : Nat) (s : Store K) (i : Nat) (v : K) {l : List Nat} (inv : ListInv s xs l)
    (hi : i < l.length) :
    rowsOf (assignStep j xs s (i, v)) xs = (rowsOf s xs).set i (((rowsOf s xs)[i]!).set j v) := by
  obtain ⟨hlen, hxs, hnew, hframe⟩ := assignStep_get j xs s i v inv hi
  have hr : rowsOf s xs = l.map (getVec s) := by unfold rowsOf; rw [getRefs_of inv.here]
  have hr' : rowsOf (assignStep j xs s (i, v)) xs = (l.set i s.length).map (getVec (assignStep j xs s (i, v))) := by
    unfold rowsOf; rw [getRefs_of hxs]
  rw [hr, hr']
  apply List.ext_getElem
  · simp
  · intro k hk1 hk2
    simp only [List.length_map, List.length_set] at hk1
    simp only [List.getElem_map, List.getElem_set]
    by_cases hki : i = k
    · subst hki
      simp only [↓reduceIte]
      rw [getVec_of hnew]
      simp [hi]
    · simp only [hki, ↓reduceIte]
      -- an untouched reference: below the old size of the store; if it is `xs` itself it is no vector, before and after
      have hlt : l[k] < s.length := inv.valid _ (List.getElem_mem _)
      by_cases hx : l[k] = xs
      · rw [hx, getVec_of_refs hxs, getVec_of_refs inv.here]
      · exact getVec_congr (hframe _ hlt hx)

end

/-! ### the whole loop, on the denoted rows -/

/-- the loop on plain lists of rows -/
def pureStep (j : Nat) (R : List (List K)) (iv : Nat × K) : List (List K) := R.set iv.1 ((R[iv.1]!).set j iv.2)

theorem pure_loop (j : Nat) (vals : List K) : ∀ (pre rest : List (List K)), rest.length = vals.length →
    (List.zip (List.range' pre.length vals.length) vals).foldl (pureStep j) (pre ++ rest)
      = pre ++ List.zipWith (fun (row : List K) v => row.set j v) rest vals := by
  induction vals with
  | nil => intro pre rest h; cases rest <;> simp_all
  | cons v vs ih =>
    intro pre rest h
    cases rest with
    | nil => simp at h
    | cons r rs =>
      simp only [List.length_cons, Nat.add_right_cancel_iff] at h
      simp only [List.length_cons, List.range'_succ, List.zip_cons_cons, List.foldl_cons, List.zipWith_cons_cons]
      have hstep : pureStep j (pre ++ r :: rs) (pre.length, v) = (pre ++ [r.set j v]) ++ rs := by
        simp [pureStep]
      rw [hstep]
      have := ih (pre ++ [r.set j v]) rs h
      simp only [List.length_append, List.length_cons, List.length_nil, Nat.zero_add] at this
      rw [this]
      simp

theorem pure_loop' (j : Nat) (vals : List K) (R : List (List K)) (h : R.length = vals.length) :
    (List.zip (List.range vals.length) vals).foldl (pureStep j) R
      = List.zipWith (fun (row : List K) v => row.set j v) R vals := by
  have := pure_loop j vals [] R h
  simpa [List.range_eq_range'] using this

section
variable [Inhabited K]

/-- the imperative loop and the pure loop agree on the denoted rows, and the invariant survives -/
theorem assign_loop_aux (j xs : Nat) : ∀ (ivs : List (Nat × K)) (s : Store K) (l : List Nat), ListInv s xs l →
    (∀ iv ∈ ivs, iv.1 < l.length) →
    rowsOf (ivs.foldl (assignStep j xs) s) xs = ivs.foldl (pureStep j) (rowsOf s xs) ∧
    (∃ l', l'.length = l.length ∧ ListInv (ivs.foldl (assignStep j xs) s) xs l') ∧
    s.length ≤ (ivs.foldl (assignStep j xs) s).length ∧
    ∀ a, a < s.length → a ≠ xs → (ivs.foldl (assignStep j xs) s)[a]? = s[a]? := by
  intro ivs
  induction ivs with
  | nil => intro s l inv _; exact ⟨rfl, ⟨l, rfl, inv⟩, Nat.le_refl _, fun _ _ _ => rfl⟩
  | cons iv ivs ih =>
    intro s l inv hb
    obtain ⟨i, v⟩ := iv
    have hi : i < l.length := hb (i, v) (List.mem_cons_self ..)
    have inv' := assignStep_inv j xs s i v inv hi
    have hb' : ∀ iv ∈ ivs, iv.1 < (l.set i s.length).length := by
      intro iv hiv; simpa using hb iv (List.mem_cons_of_mem _ hiv)
    obtain ⟨h1, ⟨l', hl', inv''⟩, h3, h4⟩ := ih _ _ inv' hb'
    obtain ⟨hlen, _, _, hframe⟩ := assignStep_get j xs s i v inv hi
    refine ⟨?_, ⟨l', by simpa using hl', inv''⟩, ?_, ?_⟩
    · simp only [List.foldl_cons]
      rw [h1, rowsOf_assignStep j xs s i v inv hi]
      rfl
    · simp only [List.foldl_cons]; omega
    · intro a ha hne
      simp only [List.foldl_cons]
      rw [h4 a (by omega) hne, hframe a ha hne]

end

end MD.Own
