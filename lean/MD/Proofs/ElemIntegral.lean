import MD.Proofs.IdentLemmas
import Mathlib.Analysis.SpecialFunctions.Integrals.Basic

/-!
# C15: the mixture representation as a genuine integral over `ℝ`

`∫ S_η(y,z) dη` over the whole line equals half the squared error (mean), half the degree-2
expectile score (expectile) and the pinball loss (quantile / median).
-/

set_option linter.unusedSectionVars false

namespace MD
open MeasureTheory

/-- the number an `Except` result carries (`0` for an error; never used on errors below) -/
def okVal (e : Except Err ℝ) : ℝ :=
  match e with
  | .ok v => v
  | .error _ => 0

theorem okVal_elemScore (f : Functional) (α : ℝ) (hα0 : 0 < α) (hα1 : α < 1) (y z : ℝ) :
    (fun η => okVal (elemScore (some f) α η y z)) = fun η => elemVal f α η y z := by
  funext η
  rw [elemScore_eq_val f α η y z hα0 hα1]
  rfl

/-- a function that is affine on `(a, b]` -/
theorem integral_affine_on_Ioc {f : ℝ → ℝ} {a b p q : ℝ} (hab : a ≤ b)
    (h : ∀ η, a < η → η ≤ b → f η = p * η + q) :
    ∫ η in a..b, f η = p * ((b ^ 2 - a ^ 2) / 2) + q * (b - a) := by
  have e : ∫ η in a..b, f η = ∫ η in a..b, (p * η + q) := by
    apply intervalIntegral.integral_congr_ae
    refine Filter.Eventually.of_forall (fun η hη => ?_)
    rw [Set.uIoc_of_le hab] at hη
    exact h η hη.1 hη.2
  rw [e, intervalIntegral.integral_add, intervalIntegral.integral_const_mul, integral_id,
    intervalIntegral.integral_const]
  · simp; ring
  · exact (continuous_const.mul continuous_id).intervalIntegrable _ _
  · exact continuous_const.intervalIntegrable _ _

/-- the integral over the line is the integral over `(min y z, max y z]` -/
theorem integral_elemVal_line (f : Functional) (α y z : ℝ) :
    ∫ η, elemVal f α η y z = ∫ η in (min y z)..(max y z), elemVal f α η y z := by
  rw [intervalIntegral.integral_of_le min_le_max]
  symm
  apply setIntegral_eq_integral_of_forall_compl_eq_zero
  intro η hη
  apply elemVal_outside
  by_contra hcon
  rw [not_or, not_le, not_lt] at hcon
  exact hη ⟨hcon.1, hcon.2⟩

theorem integral_elemVal_mean (α y z : ℝ) :
    ∫ η in (min y z)..(max y z), elemVal .mean α η y z = (z - y) ^ 2 / 2 := by
  rcases le_total y z with h | h
  · rw [min_eq_left h, max_eq_right h]
    rw [integral_affine_on_Ioc (p := 1) (q := -y) h]
    · ring
    · intro η h1 h2
      rw [elemVal_up _ _ h1 h2]; simp only [elemV]; ring
  · rw [min_eq_right h, max_eq_left h]
    rw [integral_affine_on_Ioc (p := -1) (q := y) h]
    · ring
    · intro η h1 h2
      rw [elemVal_dn _ _ h1 h2]; simp only [elemV]; ring

theorem integral_elemVal_expectile (α : ℝ) (hα0 : 0 < α) (hα1 : α < 1) (y z : ℝ) :
    ∫ η in (min y z)..(max y z), elemVal .expectile α η y z = |geInd z y - α| * (z - y) ^ 2 := by
  rcases le_total y z with h | h
  · rw [min_eq_left h, max_eq_right h, geInd_of_le h, abs_of_pos (by linarith)]
    rw [integral_affine_on_Ioc (p := 2 * (1 - α)) (q := -(2 * (1 - α) * y)) h]
    · ring
    · intro η h1 h2
      rw [elemVal_up _ _ h1 h2]; simp only [elemV]
      rw [absK_geInd α hα0 hα1, if_pos h1.le]; ring
  · rw [min_eq_right h, max_eq_left h]
    rw [integral_affine_on_Ioc (p := -(2 * α)) (q := 2 * α * y) h]
    · rcases eq_or_lt_of_le h with rfl | h'
      · simp
      · rw [geInd_of_lt h', zero_sub, abs_neg, abs_of_pos hα0]; ring
    · intro η h1 h2
      rw [elemVal_dn _ _ h1 h2]; simp only [elemV]
      rcases eq_or_lt_of_le h2 with rfl | h3
      · ring
      · rw [absK_geInd α hα0 hα1, if_neg (not_le.mpr h3)]; ring

theorem integral_elemVal_quantile (α y z : ℝ) :
    ∫ η in (min y z)..(max y z), elemVal .quantile α η y z = (geInd z y - α) * (z - y) := by
  rcases le_total y z with h | h
  · rw [min_eq_left h, max_eq_right h, geInd_of_le h]
    rw [integral_affine_on_Ioc (p := 0) (q := 1 - α) h]
    · ring
    · intro η h1 h2
      rw [elemVal_up _ _ h1 h2]; simp only [elemV]; rw [if_pos h1]; ring
  · rw [min_eq_right h, max_eq_left h]
    rw [integral_affine_on_Ioc (p := 0) (q := α) h]
    · rcases eq_or_lt_of_le h with rfl | h'
      · simp
      · rw [geInd_of_lt h']; ring
    · intro η h1 h2
      rw [elemVal_dn _ _ h1 h2]; simp only [elemV]; rw [if_neg (not_lt.mpr h2)]; ring

namespace Props

/-- mean: `∫ S_η(y,z) dη = (z - y)² / 2` -/
theorem C15_integral_mean (α : ℝ) (hα0 : 0 < α) (hα1 : α < 1) (y z : ℝ) :
    ∫ η, okVal (elemScore (some .mean) α η y z) = (z - y) ^ 2 / 2 := by
  rw [okVal_elemScore .mean α hα0 hα1, integral_elemVal_line, integral_elemVal_mean]

/-- expectile: `∫ S_η(y,z) dη = |1{z ≥ y} - α| (z - y)²`, half the degree-2 expectile score -/
theorem C15_integral_expectile (α : ℝ) (hα0 : 0 < α) (hα1 : α < 1) (y z : ℝ) :
    ∫ η, okVal (elemScore (some .expectile) α η y z) = |geInd z y - α| * (z - y) ^ 2 := by
  rw [okVal_elemScore .expectile α hα0 hα1, integral_elemVal_line,
    integral_elemVal_expectile α hα0 hα1]

/-- quantile: `∫ S_η(y,z) dη = (1{z ≥ y} - α)(z - y)`, the pinball loss -/
theorem C15_integral_quantile (α : ℝ) (hα0 : 0 < α) (hα1 : α < 1) (y z : ℝ) :
    ∫ η, okVal (elemScore (some .quantile) α η y z) = (geInd z y - α) * (z - y) := by
  rw [okVal_elemScore .quantile α hα0 hα1, integral_elemVal_line, integral_elemVal_quantile]

/-- median: the pinball loss at level 1/2, i.e. `|z - y| / 2` -/
theorem C15_integral_median (α : ℝ) (hα0 : 0 < α) (hα1 : α < 1) (y z : ℝ) :
    ∫ η, okVal (elemScore (some .median) α η y z) = |z - y| / 2 := by
  rw [okVal_elemScore .median α hα0 hα1]
  have : (fun η => elemVal .median α η y z) = fun η => elemVal .quantile (1 / 2) η y z := rfl
  rw [this, integral_elemVal_line, integral_elemVal_quantile]
  rcases le_or_gt y z with h | h
  · rw [geInd_of_le h, abs_of_nonneg (by linarith)]; ring
  · rw [geInd_of_lt h, abs_of_neg (by linarith)]; ring

end Props
end MD

/-
`#print axioms` (observed with `lake env lean MD/Proofs/ElemIntegral.lean`):
'MD.Props.C15_integral_mean' depends on axioms: [propext, Classical.choice, Quot.sound]
'MD.Props.C15_integral_expectile' depends on axioms: [propext, Classical.choice, Quot.sound]
'MD.Props.C15_integral_quantile' depends on axioms: [propext, Classical.choice, Quot.sound]
'MD.Props.C15_integral_median' depends on axioms: [propext, Classical.choice, Quot.sound]
-/
