import MD.Proofs.Fit
import Mathlib.Tactic.Positivity
import Mathlib.Tactic.Push

set_option linter.unusedSectionVars false

namespace MD
variable {K : Type} [Field K] [LinearOrder K] [IsStrictOrderedRing K]


theorem foldl_min_le (a : K) (l : List K) : l.foldl min a ≤ a ∧ ∀ x ∈ l, l.foldl min a ≤ x := by
  induction l generalizing a with
  | nil => simp
  | cons b l ih =>
    simp only [List.foldl_cons]
    obtain ⟨h1, h2⟩ := ih (min a b)
    refine ⟨le_trans h1 (min_le_left _ _), ?_⟩
    intro x hx
    rcases List.mem_cons.mp hx with rfl | hx
    · exact le_trans h1 (min_le_right _ _)
    · exact h2 x hx

theorem foldl_min_mem (a : K) (l : List K) : l.foldl min a = a ∨ l.foldl min a ∈ l := by
  induction l generalizing a with
  | nil => simp
  | cons b l ih =>
    simp only [List.foldl_cons]
    rcases ih (min a b) with h | h
    · rcases min_choice a b with h' | h'
      · left; rw [h, h']
      · right; rw [h, h']; simp
    · right; simp [h]

theorem minD_mem {dflt : K} {l : List K} (hl : l ≠ []) : minD dflt l ∈ l := by
  cases l with
  | nil => exact absurd rfl hl
  | cons a l =>
    simp only [minD]
    rcases foldl_min_mem a l with h | h
    · rw [h]; simp
    · simp [h]

theorem minD_le {dflt : K} {l : List K} {x : K} (hx : x ∈ l) : minD dflt l ≤ x := by
  cases l with
  | nil => simp at hx
  | cons a l =>
    simp only [minD]
    rcases List.mem_cons.mp hx with rfl | hx
    · exact (foldl_min_le _ l).1
    · exact (foldl_min_le a l).2 x hx

theorem cntLe_mono (d : List (Obs K)) {u v : K} (h : u ≤ v) : cntLe d u ≤ cntLe d v := by
  unfold cntLe
  apply List.countP_mono_left
  intro o _ ho
  simp only [decide_eq_true_eq] at *
  exact le_trans ho h

theorem Esum_quant (α : K) (d : List (Obs K)) (u : K) :
    Esum (fun u o => (if o.1 ≤ u then (1:K) else 0) - α) d u = (cntLe d u : K) - α * (d.length : K) := by
  induction d with
  | nil => simp [Esum, cntLe]
  | cons o d ih =>
    simp only [Esum, cntLe, List.map_cons, List.sum_cons, List.length_cons] at *
    rw [ih, List.countP_cons]
    by_cases h : o.1 ≤ u <;> simp [h] <;> ring

/-- there is a greatest data value ≤ u with the same count, when the count is positive -/
theorem exists_data_le (d : List (Obs K)) (u : K) (h : 0 < cntLe d u) :
    ∃ v ∈ d.map (·.1), v ≤ u ∧ cntLe d v = cntLe d u := by
  induction d with
  | nil => simp [cntLe] at h
  | cons o d ih =>
    by_cases ho : o.1 ≤ u
    · by_cases hd : 0 < cntLe d u
      · obtain ⟨v, hv, hvu, hc⟩ := ih hd
        -- candidate: max o.1 v
        rcases le_total o.1 v with hov | hvo
        · refine ⟨v, by simp [hv], hvu, ?_⟩
          simp only [cntLe, List.countP_cons] at *
          simp [ho, hov, hc]
        · refine ⟨o.1, by simp, ho, ?_⟩
          have h1 : cntLe d v ≤ cntLe d o.1 := cntLe_mono d hvo
          have h2 : cntLe d o.1 ≤ cntLe d u := cntLe_mono d ho
          simp only [cntLe, List.countP_cons] at *
          simp [ho]
          omega
      · refine ⟨o.1, by simp, ho, ?_⟩
        have h0 : cntLe d u = 0 := by omega
        have h1 : cntLe d o.1 ≤ cntLe d u := cntLe_mono d ho
        simp only [cntLe, List.countP_cons] at *
        simp [ho]
        omega
    · have hd : 0 < cntLe d u := by
        simp only [cntLe, List.countP_cons] at *
        simpa [ho] using h
      obtain ⟨v, hv, hvu, hc⟩ := ih hd
      refine ⟨v, by simp [hv], hvu, ?_⟩
      have : ¬ (o.1 ≤ v) := fun h' => ho (le_trans h' hvu)
      simp only [cntLe, List.countP_cons] at *
      simp [ho, this, hc]



theorem Esum_quant_m (α : K) (d : List (Obs K)) (u : K) :
    Esum (fun u o => (if o.1 < u then (1:K) else 0) - α) d u = (cntLt d u : K) - α * (d.length : K) := by
  induction d with
  | nil => simp [Esum, cntLt]
  | cons o d ih =>
    simp only [Esum, cntLt, List.map_cons, List.sum_cons, List.length_cons] at *
    rw [ih, List.countP_cons]
    by_cases h : o.1 < u <;> simp [h] <;> ring

/-- greatest data value < u carries the count #{y < u} -/
theorem exists_data_lt (d : List (Obs K)) (u : K) (h : 0 < cntLt d u) :
    ∃ v ∈ d.map (·.1), v < u ∧ cntLe d v = cntLt d u := by
  induction d with
  | nil => simp [cntLt] at h
  | cons o d ih =>
    by_cases ho : o.1 < u
    · by_cases hd : 0 < cntLt d u
      · obtain ⟨v, hv, hvu, hc⟩ := ih hd
        rcases le_total o.1 v with hov | hvo
        · refine ⟨v, by simp [hv], hvu, ?_⟩
          simp only [cntLe, cntLt, List.countP_cons] at *
          simp [ho, hov, hc]
        · refine ⟨o.1, by simp, ho, ?_⟩
          have h1 : cntLe d v ≤ cntLe d o.1 := cntLe_mono d hvo
          have h2 : cntLe d o.1 ≤ cntLt d u := by
            unfold cntLe cntLt
            apply List.countP_mono_left
            intro p _ hp
            simp only [decide_eq_true_eq] at *
            exact lt_of_le_of_lt hp ho
          simp only [cntLe, cntLt, List.countP_cons] at *
          simp [ho]
          omega
      · refine ⟨o.1, by simp, ho, ?_⟩
        have h0 : cntLt d u = 0 := by omega
        have h2 : cntLe d o.1 ≤ cntLt d u := by
          unfold cntLe cntLt
          apply List.countP_mono_left
          intro p _ hp
          simp only [decide_eq_true_eq] at *
          exact lt_of_le_of_lt hp ho
        simp only [cntLe, cntLt, List.countP_cons] at *
        simp [ho]
        omega
    · have hd : 0 < cntLt d u := by
        simp only [cntLt, List.countP_cons] at *
        simpa [ho] using h
      obtain ⟨v, hv, hvu, hc⟩ := ih hd
      refine ⟨v, by simp [hv], hvu, ?_⟩
      have : ¬ (o.1 ≤ v) := fun h' => ho (lt_of_le_of_lt h' hvu)
      simp only [cntLe, cntLt, List.countP_cons] at *
      simp [ho, this, hc]

/-- some data value dominates all -/
theorem exists_max (d : List (Obs K)) (hne : d ≠ []) : ∃ v ∈ d.map (·.1), ∀ o ∈ d, o.1 ≤ v := by
  induction d with
  | nil => exact absurd rfl hne
  | cons o d ih =>
    by_cases hd : d = []
    · subst hd; exact ⟨o.1, by simp, by simp⟩
    · obtain ⟨v, hv, hall⟩ := ih hd
      rcases le_total o.1 v with h | h
      · refine ⟨v, by simp [hv], ?_⟩
        intro p hp
        rcases List.mem_cons.mp hp with rfl | hp
        · exact h
        · exact hall p hp
      · refine ⟨o.1, by simp, ?_⟩
        intro p hp
        rcases List.mem_cons.mp hp with rfl | hp
        · exact le_rfl
        · exact le_trans (hall p hp) h

theorem qCands_ne (α : K) (hα1 : α < 1) (d : List (Obs K)) (hne : d ≠ []) : qCands α d ≠ [] := by
  obtain ⟨v, hv, hall⟩ := exists_max d hne
  have hc : cntLe d v = d.length := by
    unfold cntLe
    rw [List.countP_eq_length]
    intro o ho
    simpa using hall o ho
  have : v ∈ qCands α d := by
    simp only [qCands, List.mem_filter, decide_eq_true_eq]
    refine ⟨hv, ?_⟩
    rw [hc]
    have hn : (0:K) ≤ (d.length : K) := by positivity
    nlinarith
  exact List.ne_nil_of_mem this

variable (α : K)

/-- the lower α-quantile as an identifiable functional (weights ignored) -/
def quantFun (hα0 : 0 < α) (hα1 : α < 1) : IdFun K where
  ok _ := True
  Vm u o := (if o.1 < u then (1:K) else 0) - α
  Vp u o := (if o.1 ≤ u then (1:K) else 0) - α
  T := qLower α
  single := by
    intro o _ u
    by_cases h : o.1 ≤ u
    · simp [h]; linarith
    · simp [h]; exact hα0
  spec := by
    intro S hne _ u
    rw [Esum_quant]
    have hn : 0 < (S.length : K) := by
      have : 0 < S.length := List.length_pos_iff.mpr hne
      exact_mod_cast this
    constructor
    · intro h
      -- qLower is a candidate
      have hc : qCands α S ≠ [] := qCands_ne α hα1 S hne
      have hm : qLower α S ∈ qCands α S := minD_mem (dflt := 0) hc
      have hm2 : α * (S.length : K) ≤ (cntLe S (qLower α S) : K) := by
        have := (List.mem_filter.mp hm).2
        simpa using this
      have := cntLe_mono S h
      have h2 : (cntLe S (qLower α S) : K) ≤ (cntLe S u : K) := by exact_mod_cast this
      linarith
    · intro h
      have hpos : 0 < cntLe S u := by
        by_contra h0
        have : cntLe S u = 0 := by omega
        rw [this] at h
        have : 0 < α * (S.length : K) := mul_pos hα0 hn
        simp at h
        linarith
      obtain ⟨v, hv, hvu, hcv⟩ := exists_data_le S u hpos
      have hvc : v ∈ qCands α S := by
        simp only [qCands, List.mem_filter, decide_eq_true_eq]
        refine ⟨hv, ?_⟩
        rw [hcv]; linarith
      exact le_trans (minD_le hvc) hvu
  specm := by
    intro S hne _ u h
    rw [Esum_quant_m]
    have hn : 0 < (S.length : K) := by
      have : 0 < S.length := List.length_pos_iff.mpr hne
      exact_mod_cast this
    by_contra hcon
    rw [not_le] at hcon
    have hpos : 0 < cntLt S u := by
      by_contra h0
      have : cntLt S u = 0 := by omega
      rw [this] at hcon
      have : 0 < α * (S.length : K) := mul_pos hα0 hn
      simp at hcon
      linarith
    obtain ⟨v, hv, hvu, hcv⟩ := exists_data_lt S u hpos
    have hvc : v ∈ qCands α S := by
      simp only [qCands, List.mem_filter, decide_eq_true_eq]
      refine ⟨hv, ?_⟩
      rw [hcv]; linarith
    have : qLower α S ≤ v := minD_le hvc
    exact absurd (lt_of_le_of_lt (le_trans h this) hvu) (lt_irrefl _)

end MD

namespace MD
variable {K : Type} [Field K] [LinearOrder K] [IsStrictOrderedRing K]

/-- pinball loss as an order-sensitive score for the lower quantile -/
def pinball (α : K) (hα0 : 0 < α) (hα1 : α < 1) : OSScore (quantFun α hα0 hα1) where
  S o z := ((if o.1 ≤ z then (1:K) else 0) - α) * (z - o.1)
  ψ z := z
  dom _ := True
  ψ_mono := by intro a b _ _ h; exact h
  up := by
    intro o t c _ _ _ htc
    simp only [quantFun]
    by_cases h1 : o.1 ≤ t
    · have h2 : o.1 ≤ c := le_trans h1 htc
      simp [h1, h2]; nlinarith
    · rw [not_le] at h1
      by_cases h2 : o.1 ≤ c
      · simp [not_le.mpr h1, h2]; nlinarith
      · simp [not_le.mpr h1, h2]; nlinarith
  dn := by
    intro o t c _ _ _ hct
    simp only [quantFun]
    by_cases h1 : o.1 < t
    · by_cases h2 : o.1 ≤ c
      · simp [h1, h1.le, h2]; nlinarith
      · rw [not_le] at h2
        simp [h1, h1.le, not_le.mpr h2]; nlinarith
    · rw [not_lt] at h1
      have h2 : c ≤ o.1 := le_trans hct h1
      by_cases h3 : o.1 ≤ t
      · have ht : t = o.1 := le_antisymm h1 h3
        by_cases h4 : o.1 ≤ c
        · have hc : c = o.1 := le_antisymm h2 h4
          simp [not_lt.mpr h1, h3, h4, ht, hc]
        · simp [not_lt.mpr h1, h3, h4]; nlinarith
      · by_cases h4 : o.1 ≤ c
        · have hc : c = o.1 := le_antisymm h2 h4
          simp [not_lt.mpr h1, h3, h4, hc]; linarith
        · simp [not_lt.mpr h1, h3, h4]; nlinarith

/-- C02_lower_optimal (increasing direction): the lower-quantile PAVA fit minimises the total pinball
loss over all non-decreasing sequences of the same length. -/
theorem C02_lower_optimal_inc (α : K) (hα0 : 0 < α) (hα1 : α < 1) (ys : List (Obs K))
    (zs : List K) (hlen : ys.length = zs.length) (hsort : zs.Pairwise (· ≤ ·)) :
    total (pinball α hα0 hα1).S ys (expand (gpava (qLower α) ys))
      ≤ total (pinball α hα0 hα1).S ys zs :=
  fit_optimal (pinball α hα0 hα1) ys (fun _ _ => trivial) (fun _ _ => trivial) zs hlen
    (fun _ _ => trivial) hsort

end MD
