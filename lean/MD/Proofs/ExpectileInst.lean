import MD.Proofs.MeanInst
import MD.Proofs.QuantInst
import Mathlib.Tactic.Linarith
import Mathlib.Tactic.Ring
import Mathlib.Tactic.FieldSimp
import Mathlib.Tactic.Positivity

/-! # The weighted expectile as an identifiable functional (C03)

* `eSum_strictMono`, `eSum_expectile`: the model's `expectile α d` is THE root of the weighted
  expectile identification sum `eSum α d`.
* `expectileFun : IdFun K`, `asymSq : OSScore (expectileFun …)`, `C03_optimal_inc`.
* `expectile_half`, `gpava_congr`, `C03_half_is_mean`, `C03_block_identification`.
-/

set_option linter.unusedSectionVars false

namespace MD
variable {K : Type} [Field K] [LinearOrder K] [IsStrictOrderedRing K]

/-! ## `foldl max` / `maxD` -/

theorem eFoldl_max_ge (a : K) (l : List K) :
    a ≤ l.foldl max a ∧ ∀ x ∈ l, x ≤ l.foldl max a := by
  induction l generalizing a with
  | nil => simp
  | cons b l ih =>
    simp only [List.foldl_cons]
    obtain ⟨h1, h2⟩ := ih (max a b)
    refine ⟨le_trans (le_max_left _ _) h1, ?_⟩
    intro x hx
    rcases List.mem_cons.mp hx with rfl | hx
    · exact le_trans (le_max_right _ _) h1
    · exact h2 x hx

theorem eFoldl_max_mem (a : K) (l : List K) : l.foldl max a = a ∨ l.foldl max a ∈ l := by
  induction l generalizing a with
  | nil => simp
  | cons b l ih =>
    simp only [List.foldl_cons]
    rcases ih (max a b) with h | h
    · rcases max_choice a b with h' | h'
      · left; rw [h, h']
      · right; rw [h, h']; simp
    · right; simp [h]

theorem eMaxD_mem {dflt : K} {l : List K} (hl : l ≠ []) : maxD dflt l ∈ l := by
  cases l with
  | nil => exact absurd rfl hl
  | cons a l =>
    simp only [maxD]
    rcases eFoldl_max_mem a l with h | h
    · rw [h]; simp
    · simp [h]

theorem eMaxD_ge {dflt : K} {l : List K} {x : K} (hx : x ∈ l) : x ≤ maxD dflt l := by
  cases l with
  | nil => simp at hx
  | cons a l =>
    simp only [maxD]
    rcases List.mem_cons.mp hx with rfl | hx
    · exact (eFoldl_max_ge _ l).1
    · exact (eFoldl_max_ge a l).2 x hx

/-! ## The identification sum -/

theorem eSum_nil (α u : K) : eSum α ([] : List (Obs K)) u = 0 := by simp [eSum]

theorem eSum_cons (α u : K) (o : Obs K) (d : List (Obs K)) :
    eSum α (o :: d) u = o.2 * eWeight α u o * (u - o.1) + eSum α d u := by simp [eSum]

theorem eSlope_cons (α u : K) (o : Obs K) (d : List (Obs K)) :
    eSlope α (o :: d) u = o.2 * eWeight α u o + eSlope α d u := by simp [eSlope]

theorem eWeight_pos (α : K) (hα0 : 0 < α) (hα1 : α < 1) (u : K) (o : Obs K) :
    0 < eWeight α u o := by
  unfold eWeight
  split
  · linarith
  · exact hα0

/-- every term of the identification sum is strictly increasing in `u` -/
theorem eTerm_lt (α : K) (hα0 : 0 < α) (hα1 : α < 1) (o : Obs K) (ho : 0 < o.2) {u v : K}
    (h : u < v) : o.2 * eWeight α u o * (u - o.1) < o.2 * eWeight α v o * (v - o.1) := by
  unfold eWeight
  by_cases h1 : o.1 ≤ u
  · have h2 : o.1 ≤ v := le_trans h1 h.le
    rw [if_pos h1, if_pos h2]
    have : 0 < o.2 * (1 - α) := mul_pos ho (by linarith)
    exact mul_lt_mul_of_pos_left (by linarith) this
  · by_cases h2 : o.1 ≤ v
    · rw [if_neg h1, if_pos h2]
      rw [not_le] at h1
      have a : o.2 * α * (u - o.1) < 0 := mul_neg_of_pos_of_neg (mul_pos ho hα0) (by linarith)
      have b : 0 ≤ o.2 * (1 - α) * (v - o.1) :=
        mul_nonneg (mul_nonneg ho.le (by linarith)) (by linarith)
      linarith
    · rw [if_neg h1, if_neg h2]
      have : 0 < o.2 * α := mul_pos ho hα0
      exact mul_lt_mul_of_pos_left (by linarith) this

theorem eSum_mono (α : K) (hα0 : 0 < α) (hα1 : α < 1) (d : List (Obs K))
    (hpos : ∀ o ∈ d, 0 < o.2) {u v : K} (h : u ≤ v) : eSum α d u ≤ eSum α d v := by
  rcases eq_or_lt_of_le h with rfl | hlt
  · exact le_rfl
  induction d with
  | nil => simp [eSum]
  | cons o d ih =>
    rw [eSum_cons, eSum_cons]
    have h1 := eTerm_lt α hα0 hα1 o (hpos o (by simp)) hlt
    have h2 := ih (fun o' ho' => hpos o' (by simp [ho']))
    linarith

/-- the identification sum is strictly increasing -/
theorem eSum_strictMono (α : K) (hα0 : 0 < α) (hα1 : α < 1) (d : List (Obs K)) (hne : d ≠ [])
    (hpos : ∀ o ∈ d, 0 < o.2) {u v : K} (h : u < v) : eSum α d u < eSum α d v := by
  cases d with
  | nil => exact absurd rfl hne
  | cons o d =>
    rw [eSum_cons, eSum_cons]
    have h1 := eTerm_lt α hα0 hα1 o (hpos o (by simp)) h
    have h2 := eSum_mono α hα0 hα1 d (fun o' ho' => hpos o' (by simp [ho'])) h.le
    linarith

theorem eSlope_nonneg (α : K) (hα0 : 0 < α) (hα1 : α < 1) (d : List (Obs K))
    (hpos : ∀ o ∈ d, 0 < o.2) (u : K) : 0 ≤ eSlope α d u := by
  induction d with
  | nil => simp [eSlope]
  | cons o d ih =>
    rw [eSlope_cons]
    have h1 : 0 < o.2 * eWeight α u o := mul_pos (hpos o (by simp)) (eWeight_pos α hα0 hα1 u o)
    have h2 := ih (fun o' ho' => hpos o' (by simp [ho']))
    linarith

theorem eSlope_pos (α : K) (hα0 : 0 < α) (hα1 : α < 1) (d : List (Obs K)) (hne : d ≠ [])
    (hpos : ∀ o ∈ d, 0 < o.2) (u : K) : 0 < eSlope α d u := by
  cases d with
  | nil => exact absurd rfl hne
  | cons o d =>
    rw [eSlope_cons]
    have h1 : 0 < o.2 * eWeight α u o := mul_pos (hpos o (by simp)) (eWeight_pos α hα0 hα1 u o)
    have h2 := eSlope_nonneg α hα0 hα1 d (fun o' ho' => hpos o' (by simp [ho'])) u
    linarith

/-- below all data values the identification sum is non-positive -/
theorem eSum_nonpos_of_le_all (α : K) (hα0 : 0 < α) (d : List (Obs K))
    (hpos : ∀ o ∈ d, 0 < o.2) (m : K) (hm : ∀ o ∈ d, m ≤ o.1) : eSum α d m ≤ 0 := by
  induction d with
  | nil => simp [eSum]
  | cons o d ih =>
    rw [eSum_cons]
    have h2 := ih (fun o' ho' => hpos o' (by simp [ho'])) (fun o' ho' => hm o' (by simp [ho']))
    have hw := hpos o (by simp)
    have hmo := hm o (by simp)
    have h1 : o.2 * eWeight α m o * (m - o.1) ≤ 0 := by
      unfold eWeight
      by_cases h : o.1 ≤ m
      · have : m = o.1 := le_antisymm hmo h
        rw [this]; simp
      · rw [if_neg h]
        exact mul_nonpos_of_nonneg_of_nonpos (mul_nonneg hw.le hα0.le) (by linarith)
    linarith

theorem eCands_ne (α : K) (hα0 : 0 < α) (d : List (Obs K)) (hne : d ≠ [])
    (hpos : ∀ o ∈ d, 0 < o.2) : eCands α d ≠ [] := by
  have hL : d.map (·.1) ≠ [] := by simpa using hne
  have hm : minD 0 (d.map (·.1)) ∈ d.map (·.1) := minD_mem hL
  have hle : ∀ o ∈ d, minD 0 (d.map (·.1)) ≤ o.1 := by
    intro o ho
    exact minD_le (List.mem_map.mpr ⟨o, ho, rfl⟩)
  have : minD 0 (d.map (·.1)) ∈ eCands α d := by
    simp only [eCands, List.mem_filter, decide_eq_true_eq]
    exact ⟨hm, eSum_nonpos_of_le_all α hα0 d hpos _ hle⟩
  exact List.ne_nil_of_mem this

/-- on a stretch `[c, u]` that contains no data value in its interior (and `u` itself may be a data
value) the identification sum is the linear function through `c` with slope `eSlope c` -/
theorem eSum_linear (α : K) (d : List (Obs K)) (c u : K) (hcu : c ≤ u)
    (hgap : ∀ o ∈ d, o.1 ≤ c ∨ u ≤ o.1) :
    eSum α d u = eSum α d c + eSlope α d c * (u - c) := by
  induction d with
  | nil => simp [eSum, eSlope]
  | cons o d ih =>
    have ih' := ih (fun o' ho' => hgap o' (by simp [ho']))
    rw [eSum_cons, eSum_cons, eSlope_cons, ih']
    have key : o.2 * eWeight α u o * (u - o.1)
        = o.2 * eWeight α c o * (c - o.1) + o.2 * eWeight α c o * (u - c) := by
      unfold eWeight
      by_cases h1 : o.1 ≤ c
      · rw [if_pos h1, if_pos (le_trans h1 hcu)]; ring
      · rw [if_neg h1]
        have h : u ≤ o.1 := by
          rcases hgap o (by simp) with h | h
          · exact absurd h h1
          · exact h
        by_cases h2 : o.1 ≤ u
        · have e : u = o.1 := le_antisymm h h2
          rw [if_pos h2, e]; ring
        · rw [if_neg h2]; ring
    rw [key]; ring

/-- **the model's expectile is the root of the identification sum** -/
theorem eSum_expectile (α : K) (hα0 : 0 < α) (hα1 : α < 1) (d : List (Obs K)) (hne : d ≠ [])
    (hpos : ∀ o ∈ d, 0 < o.2) : eSum α d (expectile α d) = 0 := by
  have hcne := eCands_ne α hα0 d hne hpos
  obtain ⟨c, hc⟩ : ∃ c, c = maxD 0 (eCands α d) := ⟨_, rfl⟩
  have hcm : c ∈ eCands α d := by rw [hc]; exact eMaxD_mem hcne
  have hc0 : eSum α d c ≤ 0 := by
    have := (List.mem_filter.mp hcm).2
    simpa using this
  have hs : 0 < eSlope α d c := eSlope_pos α hα0 hα1 d hne hpos c
  obtain ⟨t, ht⟩ : ∃ t, t = c - eSum α d c / eSlope α d c := ⟨_, rfl⟩
  have hte : expectile α d = t := by rw [ht, hc]; rfl
  have hct : c ≤ t := by
    have : eSum α d c / eSlope α d c ≤ 0 := div_nonpos_of_nonpos_of_nonneg hc0 hs.le
    rw [ht]; linarith
  have hlin0 : eSum α d c + eSlope α d c * (t - c) = 0 := by
    rw [ht]; field_simp; ring
  have hgap : ∀ o ∈ d, o.1 ≤ c ∨ t ≤ o.1 := by
    intro o ho
    by_contra hcon
    rw [not_or, not_le, not_le] at hcon
    obtain ⟨h1, h2⟩ := hcon
    obtain ⟨L, hL⟩ : ∃ L, L = (d.map (·.1)).filter (fun y => c < y) := ⟨_, rfl⟩
    have hoL : o.1 ∈ L := by
      rw [hL, List.mem_filter]
      exact ⟨List.mem_map.mpr ⟨o, ho, rfl⟩, by simpa using h1⟩
    have hLne : L ≠ [] := List.ne_nil_of_mem hoL
    obtain ⟨y1, hy⟩ : ∃ y1, y1 = minD 0 L := ⟨_, rfl⟩
    have hy1 : y1 ∈ L := by rw [hy]; exact minD_mem hLne
    have hy1o : y1 ≤ o.1 := by rw [hy]; exact minD_le hoL
    rw [hL, List.mem_filter] at hy1
    have hcy1 : c < y1 := by simpa using hy1.2
    have hgap1 : ∀ o' ∈ d, o'.1 ≤ c ∨ y1 ≤ o'.1 := by
      intro o' ho'
      by_cases h : o'.1 ≤ c
      · exact Or.inl h
      · right
        rw [not_le] at h
        rw [hy]
        apply minD_le
        rw [hL, List.mem_filter]
        exact ⟨List.mem_map.mpr ⟨o', ho', rfl⟩, by simpa using h⟩
    have e := eSum_linear α d c y1 hcy1.le hgap1
    have hneg : eSum α d y1 < 0 := by
      rw [e, ← hlin0]
      have : eSlope α d c * (y1 - c) < eSlope α d c * (t - c) :=
        mul_lt_mul_of_pos_left (by linarith) hs
      linarith
    have hy1c : y1 ∈ eCands α d := by
      simp only [eCands, List.mem_filter, decide_eq_true_eq]
      exact ⟨hy1.1, hneg.le⟩
    have : y1 ≤ c := by rw [hc]; exact eMaxD_ge hy1c
    exact absurd this (not_le.mpr hcy1)
  rw [hte, eSum_linear α d c t hct hgap, hlin0]

/-- the root is unique -/
theorem eSum_root_unique (α : K) (hα0 : 0 < α) (hα1 : α < 1) (d : List (Obs K)) (hne : d ≠ [])
    (hpos : ∀ o ∈ d, 0 < o.2) {u : K} (hu : eSum α d u = 0) : u = expectile α d := by
  have hr := eSum_expectile α hα0 hα1 d hne hpos
  rcases lt_trichotomy u (expectile α d) with h | h | h
  · have := eSum_strictMono α hα0 hα1 d hne hpos h; linarith
  · exact h
  · have := eSum_strictMono α hα0 hα1 d hne hpos h; linarith

theorem expectile_le_iff (α : K) (hα0 : 0 < α) (hα1 : α < 1) (d : List (Obs K)) (hne : d ≠ [])
    (hpos : ∀ o ∈ d, 0 < o.2) (u : K) : expectile α d ≤ u ↔ 0 ≤ eSum α d u := by
  have hr := eSum_expectile α hα0 hα1 d hne hpos
  constructor
  · intro h
    have := eSum_mono α hα0 hα1 d hpos h
    linarith
  · intro h
    by_contra hcon
    rw [not_le] at hcon
    have := eSum_strictMono α hα0 hα1 d hne hpos hcon
    linarith

/-! ## The expectile as an `IdFun`, asymmetric squared loss as its score -/

theorem Esum_expectile_eq (α : K) (S : List (Obs K)) (u : K) :
    Esum (fun u o => o.2 * eWeight α u o * (u - o.1)) S u = eSum α S u := rfl

/-- the weighted α-expectile as an identifiable functional; admissible = strictly positive weight -/
def expectileFun (α : K) (hα0 : 0 < α) (hα1 : α < 1) : IdFun K where
  ok o := 0 < o.2
  Vm u o := o.2 * eWeight α u o * (u - o.1)
  Vp u o := o.2 * eWeight α u o * (u - o.1)
  T := expectile α
  single := by
    intro o ho u
    have hw : 0 < o.2 * eWeight α u o := mul_pos ho (eWeight_pos α hα0 hα1 u o)
    constructor
    · intro h
      have := (mul_nonneg_iff_of_pos_left hw).mp h
      linarith
    · intro h
      exact mul_nonneg hw.le (by linarith)
  spec := by
    intro S hne hok u
    rw [Esum_expectile_eq]
    exact expectile_le_iff α hα0 hα1 S hne hok u
  specm := by
    intro S hne hok u h
    rw [Esum_expectile_eq]
    have := eSum_mono α hα0 hα1 S hok h
    rw [eSum_expectile α hα0 hα1 S hne hok] at this
    exact this

/-- asymmetric squared loss `w·|1{y≤z}−α|·(z−y)²` as an order-sensitive score for the expectile -/
def asymSq (α : K) (hα0 : 0 < α) (hα1 : α < 1) : OSScore (expectileFun α hα0 hα1) where
  S o z := o.2 * eWeight α z o * ((z - o.1) * (z - o.1))
  ψ z := 2 * z
  dom _ := True
  ψ_mono := by intro a b _ _ h; linarith
  up := by
    intro o t c ho _ _ htc
    have ho' : 0 < o.2 := ho
    simp only [expectileFun, eWeight]
    by_cases h1 : o.1 ≤ t
    · have h2 : o.1 ≤ c := le_trans h1 htc
      rw [if_pos h1, if_pos h2]
      have : 0 ≤ o.2 * (1 - α) * ((c - t) * (c - t)) :=
        mul_nonneg (mul_nonneg ho'.le (by linarith)) (mul_self_nonneg _)
      nlinarith
    · by_cases h2 : o.1 ≤ c
      · rw [if_neg h1, if_pos h2]
        rw [not_le] at h1
        have a : 0 ≤ o.2 * (1 - α) * ((c - o.1) * (c - o.1)) :=
          mul_nonneg (mul_nonneg ho'.le (by linarith)) (mul_self_nonneg _)
        have b : 0 ≤ o.2 * α * ((o.1 - t) * ((c - t) + (c - o.1))) :=
          mul_nonneg (mul_nonneg ho'.le hα0.le) (mul_nonneg (by linarith) (by linarith))
        nlinarith
      · rw [if_neg h1, if_neg h2]
        have : 0 ≤ o.2 * α * ((c - t) * (c - t)) :=
          mul_nonneg (mul_nonneg ho'.le hα0.le) (mul_self_nonneg _)
        nlinarith
  dn := by
    intro o t c ho _ _ hct
    have ho' : 0 < o.2 := ho
    simp only [expectileFun, eWeight]
    by_cases h1 : o.1 ≤ c
    · have h2 : o.1 ≤ t := le_trans h1 hct
      rw [if_pos h1, if_pos h2]
      have : 0 ≤ o.2 * (1 - α) * ((c - t) * (c - t)) :=
        mul_nonneg (mul_nonneg ho'.le (by linarith)) (mul_self_nonneg _)
      nlinarith
    · by_cases h2 : o.1 ≤ t
      · rw [if_neg h1, if_pos h2]
        rw [not_le] at h1
        have a : 0 ≤ o.2 * α * ((c - o.1) * (c - o.1)) :=
          mul_nonneg (mul_nonneg ho'.le hα0.le) (mul_self_nonneg _)
        have b : 0 ≤ o.2 * (1 - α) * ((t - o.1) * ((t - c) + (o.1 - c))) :=
          mul_nonneg (mul_nonneg ho'.le (by linarith)) (mul_nonneg (by linarith) (by linarith))
        nlinarith
      · rw [if_neg h1, if_neg h2]
        have : 0 ≤ o.2 * α * ((c - t) * (c - t)) :=
          mul_nonneg (mul_nonneg ho'.le hα0.le) (mul_self_nonneg _)
        nlinarith

/-- C03_optimal (increasing direction): the expectile PAVA fit minimises the total asymmetric
squared loss over all non-decreasing sequences of the same length. -/
theorem C03_optimal_inc (α : K) (hα0 : 0 < α) (hα1 : α < 1) (ys : List (Obs K))
    (hpos : ∀ o ∈ ys, 0 < o.2) (zs : List K) (hlen : ys.length = zs.length)
    (hsort : zs.Pairwise (· ≤ ·)) :
    total (asymSq α hα0 hα1).S ys (expand (gpava (expectile α) ys))
      ≤ total (asymSq α hα0 hα1).S ys zs :=
  fit_optimal (asymSq α hα0 hα1) ys hpos (fun _ _ => trivial) zs hlen (fun _ _ => trivial) hsort

/-! ## Level 1/2: the expectile is the weighted mean -/

theorem eSum_half (d : List (Obs K)) (u : K) :
    eSum (1 / 2 : K) d u = (1 / 2) * (u * wsum d - wysum d) := by
  induction d with
  | nil => simp [eSum, wsum, wysum]
  | cons o d ih =>
    rw [eSum_cons, ih]
    have hw : eWeight (1 / 2 : K) u o = 1 / 2 := by
      unfold eWeight
      split
      · ring
      · rfl
    rw [hw]
    simp only [wsum, wysum, List.map_cons, List.sum_cons]
    ring

/-- at level 1/2 the expectile is the weighted mean -/
theorem expectile_half (d : List (Obs K)) (hne : d ≠ []) (hpos : ∀ o ∈ d, 0 < o.2) :
    expectile (1 / 2 : K) d = wmean d := by
  have h0 : (0 : K) < 1 / 2 := by positivity
  have h1 : (1 / 2 : K) < 1 := by
    rw [div_lt_one (by positivity)]; linarith
  symm
  apply eSum_root_unique (1 / 2 : K) h0 h1 d hne hpos
  have hW := wsum_pos hne hpos
  rw [eSum_half, wmean, div_mul_cancel₀ _ hW.ne']
  ring

/-! ## `gpava` only looks at `T` on non-empty admissible lists -/

/-- non-empty block of admissible observations -/
def BlkOK (ok : Obs K → Prop) (b : Blk K) : Prop := b.data ≠ [] ∧ ∀ o ∈ b.data, ok o

section Congr
variable {ok : Obs K → Prop} {T T' : List (Obs K) → K}

theorem blkOK_single {p : Obs K} (hp : ok p) : BlkOK ok ⟨[p], p.1⟩ := by
  refine ⟨by simp, ?_⟩
  intro o ho
  rw [List.mem_singleton] at ho
  subst ho
  exact hp

theorem absorb_congr (hTT : ∀ S, S ≠ [] → (∀ o ∈ S, ok o) → T S = T' S)
    (cur : Blk K) (l : List (Obs K)) (hc : BlkOK ok cur) (hl : ∀ o ∈ l, ok o) :
    absorb T cur l = absorb T' cur l ∧ BlkOK ok (absorb T cur l).1 ∧
      ∀ o ∈ (absorb T cur l).2, ok o := by
  induction l generalizing cur with
  | nil => exact ⟨rfl, hc, hl⟩
  | cons p rest ih =>
    have hp : ok p := hl p (by simp)
    have hnew : BlkOK ok ⟨cur.data ++ [p], T (cur.data ++ [p])⟩ :=
      ⟨by simp, ok_append hc.2 (by simpa using hp)⟩
    have hT : T (cur.data ++ [p]) = T' (cur.data ++ [p]) := hTT _ (by simp) hnew.2
    obtain ⟨h1, h2, h3⟩ := ih _ hnew (fun o ho => hl o (by simp [ho]))
    by_cases hle : p.1 ≤ cur.val
    · simp only [absorb, if_pos hle]
      rw [← hT]
      exact ⟨h1, h2, h3⟩
    · simp only [absorb, if_neg hle]
      exact ⟨trivial, hc, hl⟩

theorem mergeBack_congr (hTT : ∀ S, S ≠ [] → (∀ o ∈ S, ok o) → T S = T' S)
    (cur : Blk K) (st : List (Blk K)) (hc : BlkOK ok cur) (hs : ∀ b ∈ st, BlkOK ok b) :
    mergeBack T cur st = mergeBack T' cur st ∧ BlkOK ok (mergeBack T cur st).1 ∧
      ∀ b ∈ (mergeBack T cur st).2, BlkOK ok b := by
  induction st generalizing cur with
  | nil => exact ⟨rfl, hc, hs⟩
  | cons top st ih =>
    have htop : BlkOK ok top := hs top (by simp)
    have hnew : BlkOK ok ⟨top.data ++ cur.data, T (top.data ++ cur.data)⟩ :=
      ⟨by simp [htop.1], ok_append htop.2 hc.2⟩
    have hT : T (top.data ++ cur.data) = T' (top.data ++ cur.data) :=
      hTT _ (by simp [htop.1]) hnew.2
    obtain ⟨h1, h2, h3⟩ := ih _ hnew (fun b hb => hs b (by simp [hb]))
    by_cases hle : cur.val ≤ top.val
    · simp only [mergeBack, if_pos hle]
      rw [← hT]
      exact ⟨h1, h2, h3⟩
    · simp only [mergeBack, if_neg hle]
      exact ⟨trivial, hc, hs⟩

theorem loop_congr (hTT : ∀ S, S ≠ [] → (∀ o ∈ S, ok o) → T S = T' S)
    (st : List (Blk K)) (rest : List (Obs K)) (hs : ∀ b ∈ st, BlkOK ok b)
    (hr : ∀ o ∈ rest, ok o) : loop T st rest = loop T' st rest := by
  fun_induction loop T st rest with
  | case1 st => simp [loop]
  | case2 p rest' ih =>
    have hp : ok p := hr p (by simp)
    have hb1 : ∀ b ∈ [(⟨[p], p.1⟩ : Blk K)], BlkOK ok b := by
      intro b hb
      rw [List.mem_singleton] at hb
      subst hb
      exact blkOK_single hp
    rw [loop]
    exact ih hb1 (fun o ho => hr o (by simp [ho]))
  | case3 p rest' top st hle r1 r2 hlt ih =>
    have hp : ok p := hr p (by simp)
    have htop : BlkOK ok top := hs top (by simp)
    have hnew : BlkOK ok ⟨top.data ++ [p], T (top.data ++ [p])⟩ :=
      ⟨by simp, ok_append htop.2 (by simpa using hp)⟩
    have hT : T (top.data ++ [p]) = T' (top.data ++ [p]) := hTT _ (by simp) hnew.2
    obtain ⟨a1, a2, a3⟩ := absorb_congr hTT _ rest' hnew (fun o ho => hr o (by simp [ho]))
    obtain ⟨m1, m2, m3⟩ := mergeBack_congr hTT r1.1 st a2 (fun b hb => hs b (by simp [hb]))
    have hih := ih (by
      intro b hb
      rcases List.mem_cons.mp hb with rfl | hb
      · exact m2
      · exact m3 b hb) a3
    rw [hih]
    conv_rhs => rw [loop]
    simp only [if_pos hle]
    rw [← hT, ← a1, ← m1]
  | case4 p rest' top st hnle ih =>
    have hp : ok p := hr p (by simp)
    conv_rhs => rw [loop]
    simp only [if_neg hnle]
    apply ih
    · intro b hb
      rcases List.mem_cons.mp hb with rfl | hb
      · exact blkOK_single hp
      · exact hs b hb
    · exact fun o ho => hr o (by simp [ho])

/-- `gpava` depends on the functional only through its values on non-empty admissible lists -/
theorem gpava_congr (hTT : ∀ S, S ≠ [] → (∀ o ∈ S, ok o) → T S = T' S)
    (ys : List (Obs K)) (hys : ∀ o ∈ ys, ok o) : gpava T ys = gpava T' ys := by
  unfold gpava
  rw [loop_congr hTT [] ys (by simp) hys]

end Congr

/-- C03 at level 1/2: the expectile fit is the mean fit, block by block -/
theorem C03_half_is_mean (ys : List (Obs K)) (hpos : ∀ o ∈ ys, 0 < o.2) :
    gpava (expectile (1 / 2 : K)) ys = gpava wmean ys :=
  gpava_congr (ok := fun o => 0 < o.2) (fun S hne hS => expectile_half S hne hS) ys hpos

/-- C03: on every block of the expectile fit the block value solves the identification equation
`Σ w |1{y ≤ v} − α| (v − y) = 0` of the block's data -/
theorem C03_block_identification (α : K) (hα0 : 0 < α) (hα1 : α < 1) (ys : List (Obs K))
    (hpos : ∀ o ∈ ys, 0 < o.2) (b : Blk K) (hb : b ∈ gpava (expectile α) ys) :
    eSum α b.data b.val = 0 := by
  obtain ⟨h1, _, _⟩ := gpava_spec (expectileFun α hα0 hα1).internal ys hpos
  have hg := h1 b hb
  have hv : b.val = expectile α b.data := hg.val
  rw [hv]
  exact eSum_expectile α hα0 hα1 b.data hg.ne hg.allok

/-! ## Hypotheses are satisfiable -/

example : ∃ (α : ℚ) (d : List (Obs ℚ)), 0 < α ∧ α < 1 ∧ d ≠ [] ∧ (∀ o ∈ d, 0 < o.2) :=
  ⟨1 / 4, [(1, 1), (2, 2), (5, 1), (3, 1)], by norm_num, by norm_num, by simp, by
    intro o ho; simp at ho; rcases ho with rfl | rfl | rfl | rfl <;> norm_num⟩

/-- hypotheses of `C03_optimal_inc` on a concrete input, and its conclusion instantiated -/
example : ∃ (ys : List (Obs ℚ)) (zs : List ℚ), (∀ o ∈ ys, 0 < o.2) ∧ ys.length = zs.length ∧
    zs.Pairwise (· ≤ ·) ∧
    total (asymSq (1 / 4 : ℚ) (by norm_num) (by norm_num)).S ys (expand (gpava (expectile (1 / 4)) ys))
      ≤ total (asymSq (1 / 4 : ℚ) (by norm_num) (by norm_num)).S ys zs := by
  have hpos : ∀ o ∈ [((3 : ℚ), (1 : ℚ)), (1, 2), (2, 1)], 0 < o.2 := by
    intro o ho; simp at ho; rcases ho with rfl | rfl | rfl <;> norm_num
  have hsort : ([1, 1, 2] : List ℚ).Pairwise (· ≤ ·) := by simp
  exact ⟨[(3, 1), (1, 2), (2, 1)], [1, 1, 2], hpos, rfl, hsort,
    C03_optimal_inc _ _ _ _ hpos _ rfl hsort⟩

/- Evaluated at `Rat` (observed with `#eval`):
#eval expectile (1 / 4 : Rat) [(1, 1), (2, 2), (5, 1), (3, 1)]                       -- 23 / 11
#eval eSum (1 / 4 : Rat) [(1, 1), (2, 2), (5, 1), (3, 1)] (23 / 11)                  -- 0
#eval (expectile (1 / 2 : Rat) [(1, 1), (2, 2), (5, 1), (3, 1)],
       wmean (K := Rat) [(1, 1), (2, 2), (5, 1), (3, 1)])                            -- (13 / 5, 13 / 5)
#eval (gpava (expectile (1 / 4 : Rat)) [(3, 1), (1, 2), (2, 1), (5, 1), (4, 3)]).map
        (fun b => (b.data, b.val, eSum (1/4 : Rat) b.data b.val))
  -- [([(3, 1), (1, 2)], 9 / 7, 0), ([(2, 1)], 2, 0), ([(5, 1), (4, 3)], 41 / 10, 0)]
-/

end MD

/- Observed output of `#print axioms`:
#print axioms MD.eSum_strictMono           -- [propext, Classical.choice, Quot.sound]
#print axioms MD.eSum_expectile            -- [propext, Classical.choice, Quot.sound]
#print axioms MD.expectileFun              -- [propext, Classical.choice, Quot.sound]
#print axioms MD.asymSq                    -- [propext, Classical.choice, Quot.sound]
#print axioms MD.C03_optimal_inc           -- [propext, Classical.choice, Quot.sound]
#print axioms MD.expectile_half            -- [propext, Classical.choice, Quot.sound]
#print axioms MD.gpava_congr               -- [propext, Quot.sound]
#print axioms MD.C03_half_is_mean          -- [propext, Classical.choice, Quot.sound]
#print axioms MD.C03_block_identification  -- [propext, Classical.choice, Quot.sound]
-/
