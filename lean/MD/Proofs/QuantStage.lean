import MD.Proofs.QuantInst
import Mathlib.Tactic.Linarith
import Mathlib.Tactic.Ring
import Mathlib.Tactic.NormNum
import Mathlib.Data.List.Forall2

/-!
# C02: the quantile stage of `isotonic_regression` (`quantileFit`)

* the upper quantile `qUpper` is the greatest data value `u` with `#{y < u} ≤ α n`;
* the block pinball loss is constant on `[qLower, qUpper]`;
* `minAccRight` is a non-decreasing minorant of its argument and dominates every non-decreasing
  minorant;
* `quantileFit` is non-decreasing, lies blockwise in `[qLower, qUpper]`, minimises the total
  pinball loss among all non-decreasing sequences, and stays in the range of the data.
-/

set_option linter.unusedSectionVars false

namespace MD
variable {K : Type} [Field K] [LinearOrder K] [IsStrictOrderedRing K]

/-! ## 1. The lower and the upper quantile -/

theorem qLower_mem_cands (α : K) (hα1 : α < 1) (d : List (Obs K)) (hne : d ≠ []) :
    qLower α d ∈ qCands α d :=
  minD_mem (dflt := 0) (qCands_ne α hα1 d hne)

/-- the lower quantile is a data value -/
theorem qLower_mem (α : K) (hα1 : α < 1) (d : List (Obs K)) (hne : d ≠ []) :
    qLower α d ∈ d.map (·.1) :=
  (List.mem_filter.mp (qLower_mem_cands α hα1 d hne)).1

/-- `α n ≤ #{y ≤ qLower}` -/
theorem qLower_cnt (α : K) (hα1 : α < 1) (d : List (Obs K)) (hne : d ≠ []) :
    α * (d.length : K) ≤ (cntLe d (qLower α d) : K) := by
  have := (List.mem_filter.mp (qLower_mem_cands α hα1 d hne)).2
  simpa using this

/-- the lower quantile is the least data value `v` with `α n ≤ #{y ≤ v}` -/
theorem qLower_le_of (α : K) (d : List (Obs K)) (v : K) (hv : v ∈ d.map (·.1))
    (h : α * (d.length : K) ≤ (cntLe d v : K)) : qLower α d ≤ v := by
  apply minD_le
  simp only [qCands, List.mem_filter, decide_eq_true_eq]
  exact ⟨hv, h⟩

/-- `#{y < qLower} ≤ α n` -/
theorem qLower_cntLt (α : K) (hα0 : 0 < α) (hα1 : α < 1) (d : List (Obs K)) (hne : d ≠ []) :
    (cntLt d (qLower α d) : K) ≤ α * (d.length : K) := by
  have h := (quantFun α hα0 hα1).specm d hne (fun _ _ => trivial) (qLower α d) le_rfl
  have e := Esum_quant_m α d (qLower α d)
  simp only [quantFun] at h
  rw [e] at h
  linarith

theorem cntLt_mono (d : List (Obs K)) {u v : K} (h : u ≤ v) : cntLt d u ≤ cntLt d v := by
  unfold cntLt
  apply List.countP_mono_left
  intro o _ ho
  simp only [decide_eq_true_eq] at *
  exact lt_of_lt_of_le ho h

theorem negObs_length (d : List (Obs K)) : (negObs d).length = d.length := by simp [negObs]

theorem negObs_ne {d : List (Obs K)} (hne : d ≠ []) : negObs d ≠ [] := by
  simpa [negObs] using hne

theorem cntLe_negObs (d : List (Obs K)) (u : K) :
    cntLe (negObs d) (-u) + cntLt d u = d.length := by
  induction d with
  | nil => simp [negObs, cntLe, cntLt]
  | cons o d ih =>
    simp only [negObs, cntLe, cntLt, List.map_cons, List.countP_cons, List.length_cons] at *
    by_cases h : o.1 < u
    · have h' : ¬ (-o.1 ≤ -u) := by rw [neg_le_neg_iff, not_le]; exact h
      simp [h, h'] at ih ⊢; omega
    · have h' : -o.1 ≤ -u := by rw [neg_le_neg_iff]; exact not_lt.mp h
      simp [h, h'] at ih ⊢; omega

theorem cntLe_negObs_cast (d : List (Obs K)) (u : K) :
    (cntLe (negObs d) (-u) : K) = (d.length : K) - (cntLt d u : K) := by
  have h := cntLe_negObs d u
  have : ((cntLe (negObs d) (-u) + cntLt d u : ℕ) : K) = (d.length : K) := by rw [h]
  push_cast at this
  linarith

/-- the upper quantile is a data value -/
theorem qUpper_mem (α : K) (hα0 : 0 < α) (d : List (Obs K)) (hne : d ≠ []) :
    qUpper α d ∈ d.map (·.1) := by
  have h := qLower_mem (1 - α) (by linarith) (negObs d) (negObs_ne hne)
  simp only [negObs, List.map_map, List.mem_map, Function.comp] at h
  obtain ⟨o, ho, he⟩ := h
  refine List.mem_map.mpr ⟨o, ho, ?_⟩
  simp only [qUpper, negObs]
  rw [← he]; simp

/-- `#{y < qUpper} ≤ α n` -/
theorem qUpper_cnt (α : K) (hα0 : 0 < α) (d : List (Obs K)) (hne : d ≠ []) :
    (cntLt d (qUpper α d) : K) ≤ α * (d.length : K) := by
  have h := qLower_cnt (1 - α) (by linarith) (negObs d) (negObs_ne hne)
  have e : qLower (1 - α) (negObs d) = -(qUpper α d) := by simp [qUpper]
  rw [e, cntLe_negObs_cast, negObs_length] at h
  have : (1 - α) * (d.length : K) = (d.length : K) - α * (d.length : K) := by ring
  linarith

/-- the upper quantile is the greatest data value `v` with `#{y < v} ≤ α n` -/
theorem le_qUpper_of (α : K) (d : List (Obs K)) (v : K) (hv : v ∈ d.map (·.1))
    (h : (cntLt d v : K) ≤ α * (d.length : K)) : v ≤ qUpper α d := by
  have hv' : -v ∈ (negObs d).map (·.1) := by
    simp only [negObs, List.map_map, List.mem_map, Function.comp] at hv ⊢
    obtain ⟨o, ho, he⟩ := hv
    exact ⟨o, ho, by rw [← he]⟩
  have hc : (1 - α) * ((negObs d).length : K) ≤ (cntLe (negObs d) (-v) : K) := by
    rw [cntLe_negObs_cast, negObs_length]
    have : (1 - α) * (d.length : K) = (d.length : K) - α * (d.length : K) := by ring
    linarith
  have := qLower_le_of (1 - α) (negObs d) (-v) hv' hc
  simp only [qUpper]
  linarith

/-- every `c ≤ qUpper` has `#{y < c} ≤ α n` -/
theorem cntLt_le_of_le_qUpper (α : K) (hα0 : 0 < α) (d : List (Obs K)) (hne : d ≠ []) (c : K)
    (hc : c ≤ qUpper α d) : (cntLt d c : K) ≤ α * (d.length : K) := by
  have h1 : (cntLt d c : K) ≤ (cntLt d (qUpper α d) : K) := by
    exact_mod_cast cntLt_mono d hc
  exact le_trans h1 (qUpper_cnt α hα0 d hne)

/-- every `c ≥ qLower` has `α n ≤ #{y ≤ c}` -/
theorem cntLe_ge_of_qLower_le (α : K) (hα1 : α < 1) (d : List (Obs K)) (hne : d ≠ []) (c : K)
    (hc : qLower α d ≤ c) : α * (d.length : K) ≤ (cntLe d c : K) := by
  have h1 : (cntLe d (qLower α d) : K) ≤ (cntLe d c : K) := by
    exact_mod_cast cntLe_mono d hc
  exact le_trans (qLower_cnt α hα1 d hne) h1

theorem qLower_le_qUpper (α : K) (hα0 : 0 < α) (hα1 : α < 1) (d : List (Obs K)) (hne : d ≠ []) :
    qLower α d ≤ qUpper α d :=
  le_qUpper_of α d _ (qLower_mem α hα1 d hne) (qLower_cntLt α hα0 hα1 d hne)

/-! ## 3. The running minimum from the right -/

theorem minAccRight_cons (a : K) (l : List K) :
    minAccRight (a :: l) = match minAccRight l with
      | [] => [a]
      | m :: t => min a m :: m :: t := by
  cases l with
  | nil => simp [minAccRight]
  | cons b l => rfl

theorem minAccRight_length (q : List K) : (minAccRight q).length = q.length := by
  induction q with
  | nil => simp [minAccRight]
  | cons a l ih =>
    rw [minAccRight_cons]
    cases h : minAccRight l with
    | nil => rw [h] at ih; simp [← ih]
    | cons m t => rw [h] at ih; simp [← ih]

theorem minAccRight_sorted (q : List K) : (minAccRight q).Pairwise (· ≤ ·) := by
  induction q with
  | nil => simp [minAccRight]
  | cons a l ih =>
    rw [minAccRight_cons]
    cases h : minAccRight l with
    | nil => simp
    | cons m t =>
      rw [h] at ih
      simp only
      refine List.pairwise_cons.mpr ⟨?_, ih⟩
      intro x hx
      rcases List.mem_cons.mp hx with rfl | hx
      · exact min_le_right _ _
      · exact le_trans (min_le_right _ _) ((List.pairwise_cons.mp ih).1 x hx)

theorem minAccRight_le (q : List K) : List.Forall₂ (· ≤ ·) (minAccRight q) q := by
  induction q with
  | nil => simp [minAccRight]
  | cons a l ih =>
    rw [minAccRight_cons]
    cases h : minAccRight l with
    | nil =>
      rw [h] at ih
      cases ih
      exact List.Forall₂.cons le_rfl List.Forall₂.nil
    | cons m t =>
      rw [h] at ih
      exact List.Forall₂.cons (min_le_left _ _) ih

/-- a non-decreasing minorant of `q` is a minorant of the right running minimum of `q` -/
theorem le_minAccRight (l q : List K) (hl : l.Pairwise (· ≤ ·)) (h : List.Forall₂ (· ≤ ·) l q) :
    List.Forall₂ (· ≤ ·) l (minAccRight q) := by
  induction h with
  | nil => simp [minAccRight]
  | @cons x a xs l' hxa hrest ih =>
    have ih' := ih (List.pairwise_cons.mp hl).2
    rw [minAccRight_cons]
    cases h : minAccRight l' with
    | nil =>
      rw [h] at ih'
      cases ih'
      exact List.Forall₂.cons hxa List.Forall₂.nil
    | cons m t =>
      rw [h] at ih'
      cases ih' with
      | @cons y _ ys _ hym hr =>
        have hxy : x ≤ y := (List.pairwise_cons.mp hl).1 y (by simp)
        exact List.Forall₂.cons (le_min hxa (le_trans hxy hym)) (List.Forall₂.cons hym hr)

/-! ## 2. Flatness of the block pinball loss on `[qLower, qUpper]` -/

theorem sum_map_le_sum_map (f g : Obs K → K) (d : List (Obs K)) (h : ∀ o ∈ d, f o ≤ g o) :
    (d.map f).sum ≤ (d.map g).sum := by
  induction d with
  | nil => simp
  | cons o d ih =>
    simp only [List.map_cons, List.sum_cons]
    have h1 := h o (by simp)
    have h2 := ih (fun o' ho' => h o' (by simp [ho']))
    linarith

theorem sum_map_mul_const (f : Obs K → K) (k : K) (d : List (Obs K)) :
    (d.map (fun o => f o * k)).sum = (d.map f).sum * k := by
  induction d with
  | nil => simp
  | cons o d ih => simp only [List.map_cons, List.sum_cons, ih]; ring

theorem sum_map_sub' (f g : Obs K → K) (d : List (Obs K)) :
    (d.map (fun o => f o - g o)).sum = (d.map f).sum - (d.map g).sum := by
  induction d with
  | nil => simp
  | cons o d ih => simp only [List.map_cons, List.sum_cons, ih]; ring

/-- moving right from `t` to `c` the block loss changes by at least `(#{y ≤ t} - α n)(c - t)` -/
theorem pinball_sum_up (α : K) (hα0 : 0 < α) (hα1 : α < 1) (d : List (Obs K)) (t c : K)
    (h : t ≤ c) :
    ((cntLe d t : K) - α * (d.length : K)) * (c - t)
      ≤ (d.map ((pinball α hα0 hα1).S · c)).sum - (d.map ((pinball α hα0 hα1).S · t)).sum := by
  have h1 := sum_map_le_sum_map
    (fun o => ((if o.1 ≤ t then (1:K) else 0) - α) * (c - t))
    (fun o => (pinball α hα0 hα1).S o c - (pinball α hα0 hα1).S o t) d
    (fun o _ => (pinball α hα0 hα1).up o t c trivial trivial trivial h)
  rw [sum_map_mul_const,
    sum_map_sub' (fun o => (pinball α hα0 hα1).S o c) (fun o => (pinball α hα0 hα1).S o t)] at h1
  have e := Esum_quant α d t
  simp only [Esum] at e
  rw [e] at h1
  exact h1

/-- moving left from `t` to `c` the block loss changes by at least `(#{y < t} - α n)(c - t)` -/
theorem pinball_sum_dn (α : K) (hα0 : 0 < α) (hα1 : α < 1) (d : List (Obs K)) (t c : K)
    (h : c ≤ t) :
    ((cntLt d t : K) - α * (d.length : K)) * (c - t)
      ≤ (d.map ((pinball α hα0 hα1).S · c)).sum - (d.map ((pinball α hα0 hα1).S · t)).sum := by
  have h1 := sum_map_le_sum_map
    (fun o => ((if o.1 < t then (1:K) else 0) - α) * (c - t))
    (fun o => (pinball α hα0 hα1).S o c - (pinball α hα0 hα1).S o t) d
    (fun o _ => (pinball α hα0 hα1).dn o t c trivial trivial trivial h)
  rw [sum_map_mul_const,
    sum_map_sub' (fun o => (pinball α hα0 hα1).S o c) (fun o => (pinball α hα0 hα1).S o t)] at h1
  have e := Esum_quant_m α d t
  simp only [Esum] at e
  rw [e] at h1
  exact h1

/-- the block pinball loss is constant on the quantile interval `[qLower, qUpper]` -/
theorem pinball_flat (α : K) (hα0 : 0 < α) (hα1 : α < 1) (d : List (Obs K)) (hne : d ≠ []) (c : K)
    (h1 : qLower α d ≤ c) (h2 : c ≤ qUpper α d) :
    (d.map ((pinball α hα0 hα1).S · c)).sum
      = (d.map ((pinball α hα0 hα1).S · (qLower α d))).sum := by
  have hu := pinball_sum_up α hα0 hα1 d (qLower α d) c h1
  have hd := pinball_sum_dn α hα0 hα1 d c (qLower α d) h1
  have ha := qLower_cnt α hα1 d hne
  have hc := cntLt_le_of_le_qUpper α hα0 d hne c h2
  have p1 : 0 ≤ ((cntLe d (qLower α d) : K) - α * (d.length : K)) * (c - qLower α d) :=
    mul_nonneg (by linarith) (by linarith)
  have p2 : 0 ≤ ((cntLt d c : K) - α * (d.length : K)) * (qLower α d - c) :=
    mul_nonneg_of_nonpos_of_nonpos (by linarith) (by linarith)
  apply le_antisymm <;> linarith

/-! ## 4. `quantileFit` -/

/-- block-wise expansion of a list `ms` of block values along the blocks `bl` -/
def bexp (bl : List (Blk K)) (ms : List K) : List K :=
  (List.zipWith (fun (b : Blk K) m => List.replicate b.data.length m) bl ms).flatten

@[simp] theorem bexp_nil_left (ms : List K) : bexp ([] : List (Blk K)) ms = [] := by simp [bexp]
@[simp] theorem bexp_nil_right (bl : List (Blk K)) : bexp bl ([] : List K) = [] := by simp [bexp]
@[simp] theorem bexp_cons_cons (b : Blk K) (bl : List (Blk K)) (m : K) (ms : List K) :
    bexp (b :: bl) (m :: ms) = List.replicate b.data.length m ++ bexp bl ms := by simp [bexp]

theorem expand_cons (b : Blk K) (bl : List (Blk K)) :
    expand (b :: bl) = List.replicate b.data.length b.val ++ expand bl := by simp [expand]

theorem expand_eq_bexp (bl : List (Blk K)) : expand bl = bexp bl (bl.map (·.val)) := by
  induction bl with
  | nil => simp [expand]
  | cons b bl ih => rw [expand_cons, ih]; simp

theorem zipWith_bexp (f : K → K → K) (bl : List (Blk K)) (vs ws : List K) :
    List.zipWith f (bexp bl vs) (bexp bl ws) = bexp bl (List.zipWith f vs ws) := by
  induction bl generalizing vs ws with
  | nil => simp
  | cons b bl ih =>
    cases vs with
    | nil => simp
    | cons v vs =>
      cases ws with
      | nil => simp
      | cons w ws =>
        simp only [bexp_cons_cons, List.zipWith_cons_cons]
        rw [List.zipWith_append (by simp), ih]
        simp

theorem mem_bexp_forall₂ {R : Blk K → K → Prop} {bl : List (Blk K)} {ms : List K}
    (h : List.Forall₂ R bl ms) {v : K} (hv : v ∈ bexp bl ms) : ∃ b ∈ bl, R b v := by
  induction h with
  | nil => simp at hv
  | @cons b m bl ms hbm _ ih =>
    rw [bexp_cons_cons, List.mem_append] at hv
    rcases hv with hv | hv
    · have : v = m := (List.mem_replicate.mp hv).2
      subst this
      exact ⟨b, by simp, hbm⟩
    · obtain ⟨b', hb', hr⟩ := ih hv
      exact ⟨b', by simp [hb'], hr⟩

theorem mem_of_mem_bexp {bl : List (Blk K)} {ms : List K} {v : K} (hv : v ∈ bexp bl ms) :
    v ∈ ms := by
  induction bl generalizing ms with
  | nil => simp at hv
  | cons b bl ih =>
    cases ms with
    | nil => simp at hv
    | cons m ms =>
      rw [bexp_cons_cons, List.mem_append] at hv
      rcases hv with hv | hv
      · simp [(List.mem_replicate.mp hv).2]
      · simp [ih hv]

theorem bexp_sorted (bl : List (Blk K)) (ms : List K) (h : ms.Pairwise (· ≤ ·)) :
    (bexp bl ms).Pairwise (· ≤ ·) := by
  induction bl generalizing ms with
  | nil => simp
  | cons b bl ih =>
    cases ms with
    | nil => simp
    | cons m ms =>
      rw [bexp_cons_cons, List.pairwise_append]
      obtain ⟨hm, hms⟩ := List.pairwise_cons.mp h
      refine ⟨by simp, ih ms hms, ?_⟩
      intro x hx y hy
      rw [(List.mem_replicate.mp hx).2]
      exact hm y (mem_of_mem_bexp hy)

theorem bexp_length {R : Blk K → K → Prop} {bl : List (Blk K)} {ms : List K}
    (h : List.Forall₂ R bl ms) : (bexp bl ms).length = (bl.flatMap (·.data)).length := by
  induction h with
  | nil => simp
  | @cons b m bl ms _ _ ih => simp [ih]

/-- if every block value `m` scores the same on its block as `b.val`, the block-wise expansion has
the same total score as the fit -/
theorem total_bexp_eq (S : Obs K → K → K) {bl : List (Blk K)} {ms : List K}
    (h : List.Forall₂ (fun b m => (b.data.map (S · m)).sum = (b.data.map (S · b.val)).sum) bl ms) :
    total S (bl.flatMap (·.data)) (bexp bl ms) = total S (bl.flatMap (·.data)) (expand bl) := by
  induction h with
  | nil => simp [expand]
  | @cons b m bl ms hbm _ ih =>
    rw [bexp_cons_cons, expand_cons, List.flatMap_cons,
      total_append _ _ _ _ _ (by simp), total_append _ _ _ _ _ (by simp),
      total_replicate, total_replicate, ih, hbm]

theorem half_eq : (half : K) = 1 / 2 := by
  unfold half; norm_num

theorem mid_between {a b : K} (h : a ≤ b) : a ≤ half * (a + b) ∧ half * (a + b) ≤ b := by
  rw [half_eq]; constructor <;> linarith

theorem pairwise_zipWith_mid (l₁ l₂ : List K) (h₁ : l₁.Pairwise (· ≤ ·))
    (h₂ : l₂.Pairwise (· ≤ ·)) :
    (List.zipWith (fun a b => half * (a + b)) l₁ l₂).Pairwise (· ≤ ·) := by
  rw [List.pairwise_iff_getElem] at *
  intro i j hi hj hij
  simp only [List.length_zipWith, lt_min_iff] at hi hj
  have a1 := h₁ i j hi.1 hj.1 hij
  have a2 := h₂ i j hi.2 hj.2 hij
  simp only [List.getElem_zipWith, half_eq]
  linarith

theorem forall₂_mid {β : Type} (f g : β → K) (bl : List β) (qa : List K)
    (h1 : List.Forall₂ (· ≤ ·) (bl.map f) qa) (h2 : List.Forall₂ (· ≤ ·) qa (bl.map g)) :
    List.Forall₂ (fun b m => f b ≤ m ∧ m ≤ g b) bl
      (List.zipWith (fun a b => half * (a + b)) (bl.map f) qa) := by
  induction bl generalizing qa with
  | nil => simp
  | cons b bl ih =>
    cases qa with
    | nil => simp at h1
    | cons v qa =>
      simp only [List.map_cons, List.forall₂_cons] at h1 h2
      simp only [List.map_cons, List.zipWith_cons_cons, List.forall₂_cons]
      have hm := mid_between h1.1
      exact ⟨⟨hm.1, le_trans hm.2 h2.1⟩, ih qa h1.2 h2.2⟩

theorem forall₂_imp_mem {β γ : Type} {R S : β → γ → Prop} {l₁ : List β} {l₂ : List γ}
    (h : List.Forall₂ R l₁ l₂) (H : ∀ a ∈ l₁, ∀ b, R a b → S a b) : List.Forall₂ S l₁ l₂ := by
  induction h with
  | nil => exact List.Forall₂.nil
  | cons hab _ ih =>
    exact List.Forall₂.cons (H _ (by simp) _ hab) (ih (fun a ha b => H a (by simp [ha]) b))

theorem bexp_forall₂ {R : K → K → Prop} (bl : List (Blk K)) {vs ws : List K}
    (h : List.Forall₂ R vs ws) : List.Forall₂ R (bexp bl vs) (bexp bl ws) := by
  induction h generalizing bl with
  | nil => simp
  | @cons v w vs ws hvw _ ih =>
    cases bl with
    | nil => simp
    | cons b bl =>
      rw [bexp_cons_cons, bexp_cons_cons]
      refine List.rel_append ?_ (ih bl)
      generalize b.data.length = n
      induction n with
      | zero => simp
      | succ n ihn => rw [List.replicate_succ, List.replicate_succ]; exact List.Forall₂.cons hvw ihn

/-- the block values of the quantile fit: midpoints of the lower block quantile and the right
running minimum of the upper block quantiles -/
def qMids (α : K) (bl : List (Blk K)) : List K :=
  List.zipWith (fun a b => half * (a + b)) (bl.map (·.val))
    (minAccRight (bl.map (fun b => qUpper α b.data)))

/-- the fitted sequence of `quantileFit` as a block-wise expansion -/
theorem quantileFit_fst (α : K) (ys : List (Obs K)) :
    (quantileFit α ys).1 = bexp (gpava (qLower α) ys) (qMids α (gpava (qLower α) ys)) := by
  show List.zipWith _ (expand _) (bexp _ _) = _
  rw [expand_eq_bexp, zipWith_bexp]
  rfl

/-- what `gpava_spec` says for the lower quantile -/
theorem gpava_quant_spec (α : K) (hα0 : 0 < α) (hα1 : α < 1) (ys : List (Obs K)) :
    (∀ b ∈ gpava (qLower α) ys, b.data ≠ [] ∧ b.val = qLower α b.data) ∧
      (gpava (qLower α) ys).Pairwise (fun a b => a.val < b.val) ∧
      (gpava (qLower α) ys).flatMap (·.data) = ys := by
  obtain ⟨h1, h2, h3⟩ := gpava_spec (quantFun α hα0 hα1).internal ys (fun _ _ => trivial)
  exact ⟨fun b hb => ⟨(h1 b hb).ne, (h1 b hb).val⟩, h2, h3⟩

theorem qMids_spec (α : K) (hα0 : 0 < α) (hα1 : α < 1) (bl : List (Blk K))
    (hg : ∀ b ∈ bl, b.data ≠ [] ∧ b.val = qLower α b.data)
    (hs : bl.Pairwise (fun a b => a.val < b.val)) :
    (qMids α bl).Pairwise (· ≤ ·) ∧
      List.Forall₂ (fun b m => qLower α b.data ≤ m ∧ m ≤ qUpper α b.data) bl (qMids α bl) := by
  have hvals : bl.map (·.val) = bl.map (fun b => qLower α b.data) :=
    List.map_congr_left (fun b hb => (hg b hb).2)
  have hsorted : (bl.map (·.val)).Pairwise (· ≤ ·) := by
    rw [List.pairwise_map]
    exact hs.imp (fun h => h.le)
  have hq : List.Forall₂ (· ≤ ·) (bl.map (·.val)) (bl.map (fun b => qUpper α b.data)) := by
    rw [List.forall₂_map_left_iff, List.forall₂_map_right_iff, List.forall₂_same]
    intro b hb
    rw [(hg b hb).2]
    exact qLower_le_qUpper α hα0 hα1 b.data (hg b hb).1
  have hc := le_minAccRight _ _ hsorted hq
  have hd := minAccRight_le (bl.map (fun b => qUpper α b.data))
  refine ⟨pairwise_zipWith_mid _ _ hsorted (minAccRight_sorted _), ?_⟩
  unfold qMids
  rw [hvals] at hc ⊢
  exact forall₂_mid (fun b => qLower α b.data) (fun b => qUpper α b.data) bl _ hc hd

theorem quantileFit_length (α : K) (hα0 : 0 < α) (hα1 : α < 1) (ys : List (Obs K)) :
    (quantileFit α ys).1.length = ys.length := by
  obtain ⟨hg, hs, hflat⟩ := gpava_quant_spec α hα0 hα1 ys
  obtain ⟨_, hf⟩ := qMids_spec α hα0 hα1 _ hg hs
  rw [quantileFit_fst, bexp_length hf, hflat]

/-- C02_monotone (increasing orientation): the quantile fit is non-decreasing -/
theorem quantileFit_sorted (α : K) (hα0 : 0 < α) (hα1 : α < 1) (ys : List (Obs K)) :
    (quantileFit α ys).1.Pairwise (· ≤ ·) := by
  obtain ⟨hg, hs, _⟩ := gpava_quant_spec α hα0 hα1 ys
  obtain ⟨hp, _⟩ := qMids_spec α hα0 hα1 _ hg hs
  rw [quantileFit_fst]
  exact bexp_sorted _ _ hp

/-- the quantile fit is constant on the blocks of the lower-quantile PAVA, its block values are
non-decreasing and each lies between the lower and the upper quantile of its block -/
theorem quantileFit_between (α : K) (hα0 : 0 < α) (hα1 : α < 1) (ys : List (Obs K)) :
    ∃ ms : List K,
      (quantileFit α ys).1
        = (List.zipWith (fun (b : Blk K) m => List.replicate b.data.length m)
            (gpava (qLower α) ys) ms).flatten ∧
      ms.Pairwise (· ≤ ·) ∧
      List.Forall₂ (fun b m => qLower α b.data ≤ m ∧ m ≤ qUpper α b.data)
        (gpava (qLower α) ys) ms := by
  obtain ⟨hg, hs, _⟩ := gpava_quant_spec α hα0 hα1 ys
  obtain ⟨hp, hf⟩ := qMids_spec α hα0 hα1 _ hg hs
  exact ⟨qMids α (gpava (qLower α) ys), quantileFit_fst α ys, hp, hf⟩

/-- pointwise: the quantile fit dominates the lower-quantile fit -/
theorem quantileFit_ge_lower (α : K) (hα0 : 0 < α) (hα1 : α < 1) (ys : List (Obs K)) :
    List.Forall₂ (· ≤ ·) (expand (gpava (qLower α) ys)) (quantileFit α ys).1 := by
  obtain ⟨hg, hs, _⟩ := gpava_quant_spec α hα0 hα1 ys
  obtain ⟨_, hf⟩ := qMids_spec α hα0 hα1 _ hg hs
  rw [quantileFit_fst, expand_eq_bexp]
  apply bexp_forall₂
  rw [List.forall₂_map_left_iff]
  exact forall₂_imp_mem hf (fun b hb m h => by rw [(hg b hb).2]; exact h.1)

/-- pointwise: the quantile fit is dominated by the upper quantile of the block of each index -/
theorem quantileFit_le_upper (α : K) (hα0 : 0 < α) (hα1 : α < 1) (ys : List (Obs K)) :
    List.Forall₂ (· ≤ ·) (quantileFit α ys).1
      (List.zipWith (fun (b : Blk K) m => List.replicate b.data.length m) (gpava (qLower α) ys)
        ((gpava (qLower α) ys).map (fun b => qUpper α b.data))).flatten := by
  obtain ⟨hg, hs, _⟩ := gpava_quant_spec α hα0 hα1 ys
  obtain ⟨_, hf⟩ := qMids_spec α hα0 hα1 _ hg hs
  rw [quantileFit_fst]
  apply bexp_forall₂
  rw [List.forall₂_map_right_iff]
  exact (hf.imp (fun b m h => h.2)).flip

/-- **C02_optimal** (increasing orientation): the quantile fit minimises the total pinball loss over
all non-decreasing sequences of the same length. -/
theorem C02_optimal_inc (α : K) (hα0 : 0 < α) (hα1 : α < 1) (ys : List (Obs K))
    (zs : List K) (hlen : ys.length = zs.length) (hsort : zs.Pairwise (· ≤ ·)) :
    total (pinball α hα0 hα1).S ys (quantileFit α ys).1 ≤ total (pinball α hα0 hα1).S ys zs := by
  obtain ⟨hg, hs, hflat⟩ := gpava_quant_spec α hα0 hα1 ys
  obtain ⟨_, hf⟩ := qMids_spec α hα0 hα1 _ hg hs
  have hfl : List.Forall₂ (fun b m => (b.data.map ((pinball α hα0 hα1).S · m)).sum
      = (b.data.map ((pinball α hα0 hα1).S · b.val)).sum)
      (gpava (qLower α) ys) (qMids α (gpava (qLower α) ys)) :=
    forall₂_imp_mem hf (fun b hb m h => by
      rw [(hg b hb).2]
      exact pinball_flat α hα0 hα1 b.data (hg b hb).1 m h.1 h.2)
  have key := total_bexp_eq (pinball α hα0 hα1).S hfl
  rw [hflat] at key
  rw [quantileFit_fst, key]
  exact C02_lower_optimal_inc α hα0 hα1 ys zs hlen hsort

/-- **C02_range**: every fitted value lies between two data values -/
theorem C02_range (α : K) (hα0 : 0 < α) (hα1 : α < 1) (ys : List (Obs K)) :
    ∀ v ∈ (quantileFit α ys).1, (∃ o ∈ ys, o.1 ≤ v) ∧ (∃ o ∈ ys, v ≤ o.1) := by
  obtain ⟨hg, hs, hflat⟩ := gpava_quant_spec α hα0 hα1 ys
  obtain ⟨_, hf⟩ := qMids_spec α hα0 hα1 _ hg hs
  intro v hv
  rw [quantileFit_fst] at hv
  obtain ⟨b, hb, hlo, hhi⟩ := mem_bexp_forall₂ hf hv
  have hsub : ∀ o ∈ b.data, o ∈ ys := by
    intro o ho
    rw [← hflat]
    exact List.mem_flatMap.mpr ⟨b, hb, ho⟩
  constructor
  · obtain ⟨o, ho, he⟩ := List.mem_map.mp (qLower_mem α hα1 b.data (hg b hb).1)
    exact ⟨o, hsub o ho, by rw [he]; exact hlo⟩
  · obtain ⟨o, ho, he⟩ := List.mem_map.mp (qUpper_mem α hα0 b.data (hg b hb).1)
    exact ⟨o, hsub o ho, by rw [he]; exact hhi⟩

/-! ## Satisfiability of the hypotheses on concrete inputs (`ℚ`) -/

/-- `0 < α < 1` -/
example : (0 : ℚ) < 1 / 3 ∧ (1 / 3 : ℚ) < 1 := by norm_num

/-- `pinball_flat`: a non-degenerate quantile interval `[2, 3]` with an interior point `5/2`
(and a non-empty data list) -/
example : ([(1, 1), (2, 1), (4, 1), (3, 1)] : List (Obs ℚ)) ≠ [] ∧
    qLower (1 / 2 : ℚ) [(1, 1), (2, 1), (4, 1), (3, 1)] ≤ 5 / 2 ∧
    (5 / 2 : ℚ) ≤ qUpper (1 / 2 : ℚ) [(1, 1), (2, 1), (4, 1), (3, 1)] := by
  refine ⟨by simp, ?_⟩
  norm_num [qLower, qUpper, qCands, minD, cntLe, negObs]

/-- `qLower < qUpper` does happen -/
example : qLower (1 / 2 : ℚ) [(1, 1), (2, 1), (4, 1), (3, 1)] = 2 ∧
    qUpper (1 / 2 : ℚ) [(1, 1), (2, 1), (4, 1), (3, 1)] = 3 := by
  norm_num [qLower, qUpper, qCands, minD, cntLe, negObs]

/-- `le_minAccRight`: a non-decreasing minorant of a non-monotone `q` -/
example : ([1, 2, 2, 6] : List ℚ).Pairwise (· ≤ ·) ∧
    List.Forall₂ (· ≤ ·) ([1, 2, 2, 6] : List ℚ) [3, 2, 5, 6] ∧
    minAccRight ([3, 2, 5, 6] : List ℚ) = [2, 2, 5, 6] := by
  refine ⟨by norm_num, by norm_num, by norm_num [minAccRight]⟩

/-- `C02_optimal_inc`: a competitor of the right length that is non-decreasing -/
example : ([(3, 1), (1, 1), (2, 1), (5, 1)] : List (Obs ℚ)).length = ([1, 1, 2, 5] : List ℚ).length ∧
    ([1, 1, 2, 5] : List ℚ).Pairwise (· ≤ ·) := by
  refine ⟨rfl, by norm_num⟩

end MD

/-
Sanity checks at `Rat` (`#eval`, not part of the proofs):

  quantileFit (1/2) [(3,1),(1,1),(2,1),(5,1),(7,1),(6,1),(4,1),(9,1)]
    = ([3/2, 3/2, 2, 5, 6, 6, 6, 9], [0, 2, 3, 4, 7, 8])
  blocks (data, qLower, qUpper): ([3,1],1,3) ([2],2,2) ([5],5,5) ([7,6,4],6,6) ([9],9,9);
  the right running minimum turns the upper quantiles [3,2,5,6,9] into [2,2,5,6,9].

  quantileFit (1/3) [(3,1),(1,1),(2,1),(5,1),(7,1),(6,1),(4,1),(9,1),(0,1)]
    = ([1, 1, 2, 9/2, 9/2, 9/2, 9/2, 9/2, 9/2], [0, 2, 3, 9])
  blocks: ([3,1],1,1) ([2],2,2) ([5,7,6,4,9,0],4,5).

`#print axioms` (observed, Lean 4.33.0):

  MD.qUpper_mem, MD.qUpper_cnt, MD.le_qUpper_of, MD.qLower_le_qUpper,
  MD.pinball_flat,
  MD.quantileFit_length, MD.quantileFit_sorted, MD.quantileFit_between,
  MD.quantileFit_ge_lower, MD.quantileFit_le_upper,
  MD.C02_optimal_inc, MD.C02_range
      : [propext, Classical.choice, Quot.sound]
  MD.minAccRight_length, MD.minAccRight_sorted, MD.minAccRight_le, MD.le_minAccRight
      : [propext, Quot.sound]
-/
