import MD.Model.GpavaArr
import MD.Proofs.PavaArrLemmas
/-! Refinement: the in-place array program `MD.Arr.gpavaArr` (`MD/Model/GpavaArr.lean`, the code's `gpava` line by line)
computes `expand (gpava T ys)` and `bounds (gpava T ys)` - the stack model the property theorems are about - for every
functional `T`.

Simulation relation as for `pava` (`SRelG`: block values in `x[0..h)`; `XRel`: unprocessed values in `x[i..n)`), plus
* `RRel y w`: the original arrays are never written, and
* `BDRel`: `r[k]` is where block `k` starts **and** the block's data is the slice `y[r[k] : r[k+1]]`, which is what makes
  `fun(y[r[b] : i + 1], …)` the model's `T (top.data ++ cur.data)`. -/
namespace MD.Arr
open MD

variable {K : Type}

/-! ### slices -/

theorem slice_length (y w : Nat → K) (a b : Nat) : (slice y w a b).length = b - a := by simp [slice]

theorem slice_succ (y w : Nat → K) {a b : Nat} (h : a ≤ b) :
    slice y w a (b + 1) = slice y w a b ++ [(y b, w b)] := by
  unfold slice
  have : b + 1 - a = (b - a) + 1 := by omega
  rw [this, List.range_succ, List.map_append]
  simp only [List.map_cons, List.map_nil]
  have : a + (b - a) = b := by omega
  rw [this]

theorem slice_append (y w : Nat → K) {a m b : Nat} (h1 : a ≤ m) (h2 : m ≤ b) :
    slice y w a m ++ slice y w m b = slice y w a b := by
  unfold slice
  have : b - a = (m - a) + (b - m) := by omega
  rw [this, List.range_add, List.map_append, List.map_map]
  congr 1
  apply List.map_congr_left
  intro t _
  have : a + (m - a + t) = m + t := by omega
  simp only [Function.comp, this]

/-! ### relations -/

def XRel (x : Nat → K) : Nat → List (Obs K) → Prop
  | _, [] => True
  | i, p :: rest => x i = p.1 ∧ XRel x (i + 1) rest

def SRelG (x : Nat → K) : List (Blk K) → Prop
  | [] => True
  | top :: st => x st.length = top.val ∧ SRelG x st

def BDRel (r : Nat → Nat) (y w : Nat → K) : List (Blk K) → Nat → Prop
  | [], e => e = 0 ∧ r 0 = 0
  | top :: st, e => r (st.length + 1) = e ∧ 0 < top.data.length ∧ top.data.length ≤ e ∧
      top.data = slice y w (e - top.data.length) e ∧ BDRel r y w st (e - top.data.length)

theorem XRel_congr {x x' : Nat → K} : ∀ (rest : List (Obs K)) (i : Nat),
    (∀ k, i ≤ k → x' k = x k) → XRel x i rest → XRel x' i rest
  | [], _, _, _ => trivial
  | p :: rest, i, h, ⟨h1, h3⟩ => by
    refine ⟨?_, XRel_congr rest (i + 1) (fun k hk => h k (by omega)) h3⟩
    rw [h i (Nat.le_refl _)]; exact h1

theorem XRel_upd {x : Nat → K} (rest : List (Obs K)) {i k : Nat} (v : K) (hk : k < i)
    (h : XRel x i rest) : XRel (upd x k v) i rest :=
  XRel_congr rest i (fun j hj => upd_ne _ _ (by omega)) h

theorem SRelG_congr {x x' : Nat → K} : ∀ (st : List (Blk K)),
    (∀ k, k < st.length → x' k = x k) → SRelG x st → SRelG x' st
  | [], _, _ => trivial
  | top :: st, h, ⟨h1, h3⟩ => by
    refine ⟨?_, SRelG_congr st (fun k hk => h k (Nat.lt_succ_of_lt hk)) h3⟩
    rw [h st.length (Nat.lt_succ_self _)]; exact h1

theorem SRelG_upd {x : Nat → K} (st : List (Blk K)) {k : Nat} (v : K) (hk : st.length ≤ k)
    (h : SRelG x st) : SRelG (upd x k v) st :=
  SRelG_congr st (fun j hj => upd_ne _ _ (by omega)) h

theorem BDRel_congr {r r' : Nat → Nat} {y w : Nat → K} : ∀ (st : List (Blk K)) (e : Nat),
    (∀ k, k ≤ st.length → r' k = r k) → BDRel r y w st e → BDRel r' y w st e
  | [], _, h, ⟨h1, h2⟩ => ⟨h1, by rw [h 0 (Nat.le_refl _)]; exact h2⟩
  | top :: st, e, h, ⟨h1, h2, h3, h4, h5⟩ => by
    refine ⟨?_, h2, h3, h4, BDRel_congr st _ (fun k hk => h k (Nat.le_succ_of_le hk)) h5⟩
    rw [h (st.length + 1) (Nat.le_refl _)]; exact h1

theorem BDRel_upd {r : Nat → Nat} {y w : Nat → K} (st : List (Blk K)) {e k : Nat} (v : Nat) (hk : st.length < k)
    (h : BDRel r y w st e) : BDRel (upd r k v) y w st e :=
  BDRel_congr st e (fun j hj => upd_ne _ _ (by omega)) h

theorem BDRel_r_height {r : Nat → Nat} {y w : Nat → K} : ∀ {st : List (Blk K)} {e : Nat},
    BDRel r y w st e → r st.length = e
  | [], _, ⟨h1, h2⟩ => by rw [h1]; exact h2
  | _ :: _, _, ⟨h1, _, _, _, _⟩ => h1

/-- forget the slices: the plain boundary relation of `PavaArrLemmas` on the same blocks (with `wgt := val`) -/
def toM (b : Blk K) : MBlk K := ⟨b.data, b.val, b.val⟩

theorem BDRel_BRel {r : Nat → Nat} {y w : Nat → K} : ∀ {st : List (Blk K)} {e : Nat},
    BDRel r y w st e → BRel r (st.map toM) e
  | [], _, h => h
  | top :: st, e, ⟨h1, h2, h3, _, h5⟩ => by
    refine ⟨?_, h2, h3, BDRel_BRel h5⟩
    simpa using h1

theorem SRelG_SRel {x : Nat → K} : ∀ {st : List (Blk K)}, SRelG x st → SRel x x (st.map toM)
  | [], _ => trivial
  | top :: st, ⟨h1, h2⟩ => by
    refine ⟨?_, ?_, SRelG_SRel h2⟩ <;> simpa [toM] using h1

theorem BDRel_height_le {r : Nat → Nat} {y w : Nat → K} {st : List (Blk K)} {e : Nat}
    (h : BDRel r y w st e) : st.length ≤ e := by
  have := BRel_height_le (BDRel_BRel h)
  simpa using this

/-! ### the inner loops -/

section Loops
variable [LE K] [DecidableLE K]

theorem upG_pos (T : List (Obs K) → K) (x y w : Nat → K) (n start f i : Nat) (xb : K)
    (h : i + 1 < n ∧ x (i + 1) ≤ xb) :
    upG T x y w n start (f + 1) i xb = upG T x y w n start f (i + 1) (T (slice y w start (i + 2))) := by
  simp only [upG, h, and_self, ↓reduceIte]

theorem upG_neg (T : List (Obs K) → K) (x y w : Nat → K) (n start f i : Nat) (xb : K)
    (h : ¬ (i + 1 < n ∧ x (i + 1) ≤ xb)) : upG T x y w n start (f + 1) i xb = (i, xb) := by
  simp only [upG, h, ↓reduceIte]

theorem absorb_pos (T : List (Obs K) → K) (cur : Blk K) (p : Obs K) (rest : List (Obs K)) (h : p.1 ≤ cur.val) :
    absorb T cur (p :: rest) = absorb T ⟨cur.data ++ [p], T (cur.data ++ [p])⟩ rest := by
  simp only [absorb, h, ↓reduceIte]

theorem absorb_neg (T : List (Obs K) → K) (cur : Blk K) (p : Obs K) (rest : List (Obs K)) (h : ¬ p.1 ≤ cur.val) :
    absorb T cur (p :: rest) = (cur, p :: rest) := by
  simp only [absorb, h, ↓reduceIte]

theorem downG_pos (T : List (Obs K) → K) (x y w : Nat → K) (r : Nat → Nat) (i b : Nat) (xb : K) (h : xb ≤ x b) :
    downG T x y w r i (b + 1) xb = downG T x y w r i b (T (slice y w (r b) (i + 1))) := by
  simp only [downG, h, ↓reduceIte]

theorem downG_neg (T : List (Obs K) → K) (x y w : Nat → K) (r : Nat → Nat) (i b : Nat) (xb : K) (h : ¬ xb ≤ x b) :
    downG T x y w r i (b + 1) xb = (b + 1, xb) := by
  simp only [downG, h, ↓reduceIte]

theorem mergeBack_pos (T : List (Obs K) → K) (cur top : Blk K) (st : List (Blk K)) (h : cur.val ≤ top.val) :
    mergeBack T cur (top :: st) = mergeBack T ⟨top.data ++ cur.data, T (top.data ++ cur.data)⟩ st := by
  simp only [mergeBack, h, ↓reduceIte]

theorem mergeBack_neg (T : List (Obs K) → K) (cur top : Blk K) (st : List (Blk K)) (h : ¬ cur.val ≤ top.val) :
    mergeBack T cur (top :: st) = (cur, top :: st) := by
  simp only [mergeBack, h, ↓reduceIte]

/-- lines 16-20 against `absorb` -/
theorem upG_sim (T : List (Obs K) → K) (x y w : Nat → K) (n start : Nat) :
    ∀ (rest : List (Obs K)) (fuel i : Nat) (cur : Blk K),
    XRel x (i + 1) rest → RRel y w (i + 1) rest → i + 1 + rest.length = n → rest.length ≤ fuel →
    cur.data = slice y w start (i + 1) → start ≤ i + 1 →
    (upG T x y w n start fuel i cur.val).2 = (absorb T cur rest).1.val ∧
    XRel x ((upG T x y w n start fuel i cur.val).1 + 1) (absorb T cur rest).2 ∧
    RRel y w ((upG T x y w n start fuel i cur.val).1 + 1) (absorb T cur rest).2 ∧
    (upG T x y w n start fuel i cur.val).1 + 1 + (absorb T cur rest).2.length = n ∧
    i ≤ (upG T x y w n start fuel i cur.val).1 ∧
    (absorb T cur rest).1.data = slice y w start ((upG T x y w n start fuel i cur.val).1 + 1) := by
  intro rest
  induction rest with
  | nil =>
    intro fuel i cur _ _ hn _ hd _
    have hno : ¬ (i + 1 < n ∧ x (i + 1) ≤ cur.val) := by
      simp only [List.length_nil, Nat.add_zero] at hn; omega
    have hm : absorb T cur ([] : List (Obs K)) = (cur, []) := rfl
    have hu : upG T x y w n start fuel i cur.val = (i, cur.val) := by
      cases fuel with
      | zero => rfl
      | succ f => exact upG_neg _ _ _ _ _ _ _ _ _ hno
    rw [hm, hu]
    exact ⟨rfl, trivial, trivial, hn, Nat.le_refl _, hd⟩
  | cons p rest ih =>
    intro fuel i cur hxr hor hn hf hd hs
    obtain ⟨hx, hxr'⟩ := hxr
    obtain ⟨hy, hw, hor'⟩ := hor
    simp only [List.length_cons] at hn hf
    cases fuel with
    | zero => omega
    | succ f =>
      have hlt : i + 1 < n := by omega
      by_cases hc : p.1 ≤ cur.val
      · have hc' : i + 1 < n ∧ x (i + 1) ≤ cur.val := ⟨hlt, by rw [hx]; exact hc⟩
        have hp : (y (i + 1), w (i + 1)) = p := by rw [hy, hw]
        have hsl : slice y w start (i + 2) = cur.data ++ [p] := by
          rw [slice_succ y w hs, hd, hp]
        have := ih f (i + 1) ⟨cur.data ++ [p], T (cur.data ++ [p])⟩ hxr' hor' (by omega) (by omega)
          (by show cur.data ++ [p] = _; exact hsl.symm) (by omega)
        rw [upG_pos _ _ _ _ _ _ _ _ _ hc', absorb_pos _ _ _ _ hc, hsl]
        obtain ⟨a1, a2, a3, a4, a5, a6⟩ := this
        exact ⟨a1, a2, a3, a4, Nat.le_of_succ_le a5, a6⟩
      · have hc' : ¬ (i + 1 < n ∧ x (i + 1) ≤ cur.val) := by rw [hx]; exact fun h => hc h.2
        rw [upG_neg _ _ _ _ _ _ _ _ _ hc', absorb_neg _ _ _ _ hc]
        exact ⟨rfl, ⟨hx, hxr'⟩, ⟨hy, hw, hor'⟩, by simp only [List.length_cons]; omega, Nat.le_refl _, hd⟩

/-- lines 22-26 against `mergeBack` -/
theorem downG_sim (T : List (Obs K) → K) (x y w : Nat → K) (r : Nat → Nat) (i : Nat) :
    ∀ (st : List (Blk K)) (cur : Blk K) (e : Nat),
    SRelG x st → BDRel r y w st e → cur.data = slice y w e (i + 1) → e ≤ i + 1 →
    (downG T x y w r i st.length cur.val).1 = (mergeBack T cur st).2.length ∧
    (downG T x y w r i st.length cur.val).2 = (mergeBack T cur st).1.val ∧
    SRelG x (mergeBack T cur st).2 ∧ (mergeBack T cur st).2.length ≤ st.length ∧
    ∃ e', BDRel r y w (mergeBack T cur st).2 e' ∧ e' ≤ e ∧
      (mergeBack T cur st).1.data = slice y w e' (i + 1) := by
  intro st
  induction st with
  | nil =>
    intro cur e _ hb hd _
    have hm : mergeBack T cur ([] : List (Blk K)) = (cur, []) := rfl
    rw [hm]
    exact ⟨rfl, rfl, trivial, Nat.le_refl _, e, hb, Nat.le_refl _, hd⟩
  | cons top st ih =>
    intro cur e hs hb hd he
    obtain ⟨hx, hs'⟩ := hs
    obtain ⟨hb1, hb2, hle, hdat, hb'⟩ := hb
    by_cases hc : cur.val ≤ top.val
    · have hc' : cur.val ≤ x st.length := by rw [hx]; exact hc
      have hr : r st.length = e - top.data.length := BDRel_r_height hb'
      have hsl : slice y w (e - top.data.length) (i + 1) = top.data ++ cur.data := by
        rw [← slice_append y w (Nat.sub_le e top.data.length) he, ← hdat, ← hd]
      have := ih ⟨top.data ++ cur.data, T (top.data ++ cur.data)⟩ (e - top.data.length) hs' hb'
        (by show top.data ++ cur.data = _; exact hsl.symm) (by omega)
      rw [List.length_cons, downG_pos _ _ _ _ _ _ _ _ hc', mergeBack_pos _ _ _ _ hc, hr, hsl]
      obtain ⟨a1, a2, a3, a4, e', a5, a6, a7⟩ := this
      exact ⟨a1, a2, a3, by omega, e', a5, by omega, a7⟩
    · have hc' : ¬ cur.val ≤ x st.length := by rw [hx]; exact hc
      rw [List.length_cons, downG_neg _ _ _ _ _ _ _ _ hc', mergeBack_neg _ _ _ _ hc]
      exact ⟨rfl, rfl, ⟨hx, hs'⟩, Nat.le_refl _, e, ⟨hb1, hb2, hle, hdat, hb'⟩, Nat.le_refl _, hd⟩

/-! ### the main loop -/

structure SimG (y w : Nat → K) (n : Nat) (s : StG K) (stack : List (Blk K)) (rest : List (Obs K)) : Prop where
  top : ∃ top st, stack = top :: st ∧ s.b = st.length ∧ s.xbp = top.val
  srel : SRelG s.x stack
  xrel : XRel s.x s.i rest
  orel : RRel y w s.i rest
  brel : BDRel s.r y w stack s.i
  len : s.i + rest.length = n

theorem loopG_sim (T : List (Obs K) → K) (y w : Nat → K) (n : Nat) (stack : List (Blk K)) (rest : List (Obs K)) :
    ∀ (fuel : Nat) (s : StG K), SimG y w n s stack rest → rest.length ≤ fuel →
      SimG y w n (loopG T y w n fuel s) (MD.loop T stack rest) [] := by
  fun_induction MD.loop T stack rest with
  | case1 st =>
    intro fuel s h _
    have hi : ¬ s.i < n := by have := h.len; simp at this; omega
    cases fuel with
    | zero => exact h
    | succ f => simp only [loopG, hi, ↓reduceIte]; exact h
  | case2 p rest' ih =>
    intro fuel s h _
    obtain ⟨top, st, h0, _⟩ := h.top
    cases h0
  | case3 p rest top st hle r1 r2 hlt ih =>
    intro fuel s h hf
    obtain ⟨top0, st0, h0, hb, hxp⟩ := h.top
    cases h0
    obtain ⟨hx, hxr'⟩ := h.xrel
    obtain ⟨hy, hw, hor'⟩ := h.orel
    obtain ⟨hsx, hs'⟩ := h.srel
    obtain ⟨hr1, hpos, hlen, hdat, hb'⟩ := h.brel
    have hlen' := h.len
    simp only [List.length_cons] at hlen' hf
    have hheight : (top :: st).length ≤ s.i := BDRel_height_le h.brel
    simp only [List.length_cons] at hheight
    cases fuel with
    | zero => omega
    | succ f =>
      have hi : s.i < n := by omega
      have hcond : s.x s.i ≤ s.xbp := by rw [hx, hxp]; exact hle
      have hrb : s.r s.b = s.i - top.data.length := by rw [hb]; exact BDRel_r_height hb'
      have hrb1 : s.r (s.b + 1) = s.i := by rw [hb]; exact hr1
      have hp : (y s.i, w s.i) = p := by rw [hy, hw]
      have hsl0 : slice y w (s.i - top.data.length) (s.i + 1) = top.data ++ [p] := by
        rw [slice_succ y w (Nat.sub_le _ _), ← hdat, hp]
      have hu := upG_sim T s.x y w n (s.i - top.data.length) rest (n - s.i) s.i
        ⟨top.data ++ [p], T (top.data ++ [p])⟩ hxr' hor' (by omega) (by omega) hsl0.symm (by omega)
      obtain ⟨u1, u2, u3, u4, u5, u6⟩ := hu
      have hstep : stepG T y w n s =
          { x := upd s.x
              (downG T s.x y w s.r (upG T s.x y w n (s.i - top.data.length) (n - s.i) s.i (T (top.data ++ [p]))).1 s.b
                (upG T s.x y w n (s.i - top.data.length) (n - s.i) s.i (T (top.data ++ [p]))).2).1
              (downG T s.x y w s.r (upG T s.x y w n (s.i - top.data.length) (n - s.i) s.i (T (top.data ++ [p]))).1 s.b
                (upG T s.x y w n (s.i - top.data.length) (n - s.i) s.i (T (top.data ++ [p]))).2).2,
            r := upd s.r
              ((downG T s.x y w s.r (upG T s.x y w n (s.i - top.data.length) (n - s.i) s.i (T (top.data ++ [p]))).1 s.b
                (upG T s.x y w n (s.i - top.data.length) (n - s.i) s.i (T (top.data ++ [p]))).2).1 + 1)
              ((upG T s.x y w n (s.i - top.data.length) (n - s.i) s.i (T (top.data ++ [p]))).1 + 1),
            b := (downG T s.x y w s.r (upG T s.x y w n (s.i - top.data.length) (n - s.i) s.i (T (top.data ++ [p]))).1 s.b
                (upG T s.x y w n (s.i - top.data.length) (n - s.i) s.i (T (top.data ++ [p]))).2).1,
            i := (upG T s.x y w n (s.i - top.data.length) (n - s.i) s.i (T (top.data ++ [p]))).1 + 1,
            xbp := (downG T s.x y w s.r (upG T s.x y w n (s.i - top.data.length) (n - s.i) s.i (T (top.data ++ [p]))).1 s.b
                (upG T s.x y w n (s.i - top.data.length) (n - s.i) s.i (T (top.data ++ [p]))).2).2 } := by
        unfold stepG
        simp only [hcond, ↓reduceIte, hrb, hrb1, hsl0]
      generalize hU : upG T s.x y w n (s.i - top.data.length) (n - s.i) s.i (T (top.data ++ [p])) = U
        at hstep u1 u2 u3 u4 u5 u6
      have hd := downG_sim T s.x y w s.r U.1 st r1.1 (s.i - top.data.length) hs' hb' u6 (by omega)
      obtain ⟨d1, d2, d5, d6, e', d7, d8, d9⟩ := hd
      rw [← u1] at d1 d2
      rw [hb] at hstep
      generalize hD : downG T s.x y w s.r U.1 st.length U.2 = D at hstep d1 d2
      have d1' : D.1 = r2.2.length := d1
      have d6' : r2.2.length ≤ st.length := d6
      have d9' : r2.1.data = slice y w e' (U.1 + 1) := d9
      have u4' : U.1 + 1 + r1.2.length = n := u4
      have hnew : SimG y w n (stepG T y w n s) (r2.1 :: r2.2) r1.2 := by
        rw [hstep]
        have hDlt : D.1 < U.1 + 1 := by omega
        refine ⟨⟨_, _, rfl, d1, d2⟩, ?_, ?_, u3, ?_, u4⟩
        · refine ⟨?_, SRelG_upd _ _ (Nat.le_of_eq d1'.symm) d5⟩
          show upd s.x D.1 D.2 r2.2.length = _
          rw [← d1', upd_same]; exact d2
        · exact XRel_upd _ _ hDlt u2
        · have hl : r2.1.data.length = U.1 + 1 - e' := by rw [d9', slice_length]
          refine ⟨?_, ?_, ?_, ?_, ?_⟩
          · show upd s.r (D.1 + 1) (U.1 + 1) (r2.2.length + 1) = _
            rw [← d1', upd_same]
          · show 0 < r2.1.data.length
            omega
          · show r2.1.data.length ≤ U.1 + 1
            omega
          · have : U.1 + 1 - r2.1.data.length = e' := by omega
            rw [this]; exact d9'
          · have : U.1 + 1 - r2.1.data.length = e' := by omega
            rw [this]
            exact BDRel_upd _ _ (by omega) d7
      have hfuel : r1.2.length ≤ f := by
        have : r1.2.length ≤ rest.length := absorb_len T ⟨top.data ++ [p], T (top.data ++ [p])⟩ rest
        omega
      have := ih f (stepG T y w n s) hnew hfuel
      simp only [loopG, hi, ↓reduceIte]
      exact this
  | case4 p rest top st hnle ih =>
    intro fuel s h hf
    obtain ⟨top0, st0, h0, hb, hxp⟩ := h.top
    cases h0
    obtain ⟨hx, hxr'⟩ := h.xrel
    obtain ⟨hy, hw, hor'⟩ := h.orel
    have hlen' := h.len
    simp only [List.length_cons] at hlen' hf
    have hheight : (top :: st).length ≤ s.i := BDRel_height_le h.brel
    simp only [List.length_cons] at hheight
    cases fuel with
    | zero => omega
    | succ f =>
      have hi : s.i < n := by omega
      have hcond : ¬ s.x s.i ≤ s.xbp := by rw [hx, hxp]; exact hnle
      have hstep : stepG T y w n s =
          { x := upd s.x (s.b + 1) (s.x s.i), r := upd s.r (s.b + 2) (s.i + 1),
            b := s.b + 1, i := s.i + 1, xbp := s.x s.i } := by
        unfold stepG
        simp only [hcond, ↓reduceIte]
      have hnew : SimG y w n (stepG T y w n s) ((⟨[p], p.1⟩ : Blk K) :: top :: st) rest := by
        rw [hstep, hb]
        refine ⟨⟨_, _, rfl, by simp, hx⟩, ?_, ?_, hor', ?_, (by show s.i + 1 + rest.length = n; omega)⟩
        · refine ⟨?_, SRelG_upd _ _ (by simp) h.srel⟩
          show upd s.x (st.length + 1) (s.x s.i) (top :: st).length = p.1
          simp only [List.length_cons, upd_same]; exact hx
        · exact XRel_upd _ _ (show st.length + 1 < s.i + 1 by omega) hxr'
        · refine ⟨?_, by simp, by simp, ?_, ?_⟩
          · show upd s.r (st.length + 2) (s.i + 1) ((top :: st).length + 1) = s.i + 1
            simp only [List.length_cons, upd_same]
          · show [p] = slice y w (s.i + 1 - 1) (s.i + 1)
            simp only [Nat.add_sub_cancel]
            rw [slice_succ y w (Nat.le_refl _)]
            simp [slice, hy, hw]
          · show BDRel (upd s.r (st.length + 2) (s.i + 1)) y w (top :: st) (s.i + 1 - 1)
            simp only [Nat.add_sub_cancel]
            exact BDRel_upd _ _ (by simp) h.brel
      have := ih f (stepG T y w n s) hnew (by omega)
      simp only [loopG, hi, ↓reduceIte]
      exact this

/-! ### the entry point -/

theorem XRel_of_RRel {y w : Nat → K} : ∀ (rest : List (Obs K)) (i : Nat), RRel y w i rest → XRel y i rest
  | [], _, _ => trivial
  | _ :: rest, i, ⟨h1, _, h3⟩ => ⟨h1, XRel_of_RRel rest (i + 1) h3⟩

theorem map_toBlk'_toM (l : List (Blk K)) : (l.map toM).map toBlk' = l := by
  induction l with
  | nil => rfl
  | cons b l ih => simp [toM, toBlk', ih]

/-- **gpavaArr_eq_gpava**: the in-place array program is the stack model - same fitted values, same block index
vector - for every functional `T` and every non-empty input. -/
theorem gpavaArr_eq_gpava (T : List (Obs K) → K) (ys : List (Obs K)) (hne : ys ≠ []) :
    gpavaArr T ys = (expand (gpava T ys), bounds (gpava T ys)) := by
  cases ys with
  | nil => exact absurd rfl hne
  | cons p tl =>
    have horig := RRel_init p tl [p] (p :: tl) rfl
    have hinit : SimG (fun k => ((p :: tl).getD k p).1) (fun k => ((p :: tl).getD k p).2) (p :: tl).length
        ({ x := fun k => ((p :: tl).getD k p).1, r := upd (upd (fun _ => 0) 0 0) 1 1, b := 0, i := 1, xbp := p.1 } : StG K)
        [⟨[p], p.1⟩] tl := by
      refine ⟨⟨_, _, rfl, rfl, rfl⟩, ⟨by simp, trivial⟩, XRel_of_RRel _ _ horig, horig, ?_, by simp; omega⟩
      refine ⟨by simp [upd], by simp, by simp, ?_, ⟨rfl, by simp [upd]⟩⟩
      simp [slice]
    have hfin := loopG_sim T _ _ (p :: tl).length [⟨[p], p.1⟩] tl (p :: tl).length _ hinit (by simp)
    have hm : MD.loop T [] (p :: tl) = MD.loop T [⟨[p], p.1⟩] tl := by rw [MD.loop.eq_def]
    rw [← hm] at hfin
    obtain ⟨top, st, hst, hb, _⟩ := hfin.top
    have hlen := hfin.len
    simp only [List.length_nil, Nat.add_zero] at hlen
    have hbr := BDRel_BRel hfin.brel
    rw [hlen] at hbr
    have hx := spread_spec _ _ _ _ _ (SRelG_SRel hfin.srel) hbr
    have hr := bounds_spec hbr
    rw [List.length_map] at hx hr
    rw [← List.map_reverse, map_toBlk'_toM] at hx hr
    have hheight : (MD.loop T [] (p :: tl)).length = (loopG T (fun k => ((p :: tl).getD k p).1)
        (fun k => ((p :: tl).getD k p).2) (p :: tl).length (p :: tl).length
        ({ x := fun k => ((p :: tl).getD k p).1, r := upd (upd (fun _ => 0) 0 0) 1 1, b := 0, i := 1, xbp := p.1 } : StG K)).b + 1 := by
      rw [hst, hb]; rfl
    unfold gpavaArr gpava
    simp only []
    rw [← hheight, hx, show (loopG T (fun k => ((p :: tl).getD k p).1)
        (fun k => ((p :: tl).getD k p).2) (p :: tl).length (p :: tl).length
        ({ x := fun k => ((p :: tl).getD k p).1, r := upd (upd (fun _ => 0) 0 0) 1 1, b := 0, i := 1, xbp := p.1 } : StG K)).b + 2
        = (MD.loop T [] (p :: tl)).length + 1 by omega, hr]

end Loops

end MD.Arr
