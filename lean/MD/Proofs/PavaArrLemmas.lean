import MD.Model.PavaArr
import MD.Proofs.Equivariance
/-! Refinement: the in-place array program `MD.Arr.pavaArr` (`MD/Model/PavaArr.lean`, the code's `pava` line by line)
computes `expand (pavaMean ys)` and `bounds (pavaMean ys)` - the stack model the property theorems are about.

Simulation relation between the program state and the stack model's `(stack, rest)`:
* `SRel`: the finished blocks are stored in `x[0..h)`, `w[0..h)`, top of the stack at `h - 1`;
* `RRel`: the unprocessed observations are still at their original positions `x[i..n)`, `w[i..n)`;
* `BRel`: `r[k]` is the position where block `k` starts, `r[h] = i`, every block is non-empty. -/
namespace MD.Arr
open MD

variable {K : Type}

@[simp] theorem upd_same {α : Type} (a : Nat → α) (k : Nat) (v : α) : upd a k v k = v := by simp [upd]

theorem upd_ne {α : Type} (a : Nat → α) {k j : Nat} (v : α) (h : j ≠ k) : upd a k v j = a j := by simp [upd, h]

/-! ### the three relations -/

def SRel (x w : Nat → K) : List (MBlk K) → Prop
  | [] => True
  | top :: st => x st.length = top.val ∧ w st.length = top.wgt ∧ SRel x w st

def RRel (x w : Nat → K) : Nat → List (Obs K) → Prop
  | _, [] => True
  | i, p :: rest => x i = p.1 ∧ w i = p.2 ∧ RRel x w (i + 1) rest

def BRel (r : Nat → Nat) : List (MBlk K) → Nat → Prop
  | [], e => e = 0 ∧ r 0 = 0
  | top :: st, e => r (st.length + 1) = e ∧ 0 < top.data.length ∧ top.data.length ≤ e ∧ BRel r st (e - top.data.length)

theorem SRel_congr {x w x' w' : Nat → K} : ∀ (st : List (MBlk K)),
    (∀ k, k < st.length → x' k = x k ∧ w' k = w k) → SRel x w st → SRel x' w' st
  | [], _, _ => trivial
  | top :: st, h, ⟨h1, h2, h3⟩ => by
    refine ⟨?_, ?_, SRel_congr st (fun k hk => h k (Nat.lt_succ_of_lt hk)) h3⟩
    · rw [(h st.length (Nat.lt_succ_self _)).1]; exact h1
    · rw [(h st.length (Nat.lt_succ_self _)).2]; exact h2

theorem SRel_upd {x w : Nat → K} (st : List (MBlk K)) {k : Nat} (v v' : K) (hk : st.length ≤ k)
    (h : SRel x w st) : SRel (upd x k v) (upd w k v') st :=
  SRel_congr st (fun j hj => ⟨upd_ne _ _ (by omega), upd_ne _ _ (by omega)⟩) h

theorem RRel_congr {x w x' w' : Nat → K} : ∀ (rest : List (Obs K)) (i : Nat),
    (∀ k, i ≤ k → x' k = x k ∧ w' k = w k) → RRel x w i rest → RRel x' w' i rest
  | [], _, _, _ => trivial
  | p :: rest, i, h, ⟨h1, h2, h3⟩ => by
    refine ⟨?_, ?_, RRel_congr rest (i + 1) (fun k hk => h k (by omega)) h3⟩
    · rw [(h i (Nat.le_refl _)).1]; exact h1
    · rw [(h i (Nat.le_refl _)).2]; exact h2

theorem RRel_upd {x w : Nat → K} (rest : List (Obs K)) {i k : Nat} (v v' : K) (hk : k < i)
    (h : RRel x w i rest) : RRel (upd x k v) (upd w k v') i rest :=
  RRel_congr rest i (fun j hj => ⟨upd_ne _ _ (by omega), upd_ne _ _ (by omega)⟩) h

theorem BRel_congr {r r' : Nat → Nat} : ∀ (st : List (MBlk K)) (e : Nat),
    (∀ k, k ≤ st.length → r' k = r k) → BRel r st e → BRel r' st e
  | [], _, h, ⟨h1, h2⟩ => ⟨h1, by rw [h 0 (Nat.le_refl _)]; exact h2⟩
  | top :: st, e, h, ⟨h1, h2, h3, h4⟩ => by
    refine ⟨?_, h2, h3, BRel_congr st _ (fun k hk => h k (Nat.le_succ_of_le hk)) h4⟩
    rw [h (st.length + 1) (Nat.le_refl _)]; exact h1

theorem BRel_upd {r : Nat → Nat} (st : List (MBlk K)) {e k : Nat} (v : Nat) (hk : st.length < k)
    (h : BRel r st e) : BRel (upd r k v) st e :=
  BRel_congr st e (fun j hj => upd_ne _ _ (by omega)) h

/-- `r[h] = e` for a stack of height `h` -/
theorem BRel_r_height {r : Nat → Nat} : ∀ {st : List (MBlk K)} {e : Nat}, BRel r st e → r st.length = e
  | [], _, ⟨h1, h2⟩ => by rw [h1]; exact h2
  | _ :: _, _, ⟨h1, _, _, _⟩ => h1

/-- every block is non-empty, so block `k` starts at a position `≥ k` -/
theorem BRel_height_le {r : Nat → Nat} : ∀ {st : List (MBlk K)} {e : Nat}, BRel r st e → st.length ≤ e
  | [], _, _ => Nat.zero_le _
  | top :: st, e, ⟨_, h2, h3, h4⟩ => by
    have := BRel_height_le h4
    simp only [List.length_cons]; omega

/-! ### the inner loops -/

section Loops
variable [LE K] [DecidableLE K] [Add K] [Mul K] [Div K]

theorem up_zero (x w : Nat → K) (n i : Nat) (sb wb xb : K) : up x w n 0 i sb wb xb = (i, sb, wb, xb) := rfl

theorem up_pos (x w : Nat → K) (n f i : Nat) (sb wb xb : K) (h : i + 1 < n ∧ x (i + 1) ≤ xb) :
    up x w n (f + 1) i sb wb xb
      = up x w n f (i + 1) (sb + w (i + 1) * x (i + 1)) (wb + w (i + 1))
          ((sb + w (i + 1) * x (i + 1)) / (wb + w (i + 1))) := by
  simp only [up, h, and_self, ↓reduceIte]

theorem up_neg (x w : Nat → K) (n f i : Nat) (sb wb xb : K) (h : ¬ (i + 1 < n ∧ x (i + 1) ≤ xb)) :
    up x w n (f + 1) i sb wb xb = (i, sb, wb, xb) := by
  simp only [up, h, ↓reduceIte]

theorem mAbsorb_pos (cur : MCur K) (p : Obs K) (rest : List (Obs K)) (h : p.1 ≤ cur.xb) :
    mAbsorb cur (p :: rest)
      = mAbsorb ⟨cur.data ++ [p], cur.sb + p.2 * p.1, cur.wb + p.2, (cur.sb + p.2 * p.1) / (cur.wb + p.2)⟩ rest := by
  simp only [mAbsorb, h, ↓reduceIte]

theorem mAbsorb_neg (cur : MCur K) (p : Obs K) (rest : List (Obs K)) (h : ¬ p.1 ≤ cur.xb) :
    mAbsorb cur (p :: rest) = (cur, p :: rest) := by
  simp only [mAbsorb, h, ↓reduceIte]

theorem down_zero (x w : Nat → K) (sb wb xb : K) : down x w 0 sb wb xb = (0, sb, wb, xb) := rfl

theorem down_pos (x w : Nat → K) (b : Nat) (sb wb xb : K) (h : xb ≤ x b) :
    down x w (b + 1) sb wb xb = down x w b (sb + w b * x b) (wb + w b) ((sb + w b * x b) / (wb + w b)) := by
  simp only [down, h, ↓reduceIte]

theorem down_neg (x w : Nat → K) (b : Nat) (sb wb xb : K) (h : ¬ xb ≤ x b) :
    down x w (b + 1) sb wb xb = (b + 1, sb, wb, xb) := by
  simp only [down, h, ↓reduceIte]

theorem mMergeBack_pos (cur : MCur K) (top : MBlk K) (st : List (MBlk K)) (h : cur.xb ≤ top.val) :
    mMergeBack cur (top :: st)
      = mMergeBack ⟨top.data ++ cur.data, cur.sb + top.wgt * top.val, cur.wb + top.wgt,
          (cur.sb + top.wgt * top.val) / (cur.wb + top.wgt)⟩ st := by
  simp only [mMergeBack, h, ↓reduceIte]

theorem mMergeBack_neg (cur : MCur K) (top : MBlk K) (st : List (MBlk K)) (h : ¬ cur.xb ≤ top.val) :
    mMergeBack cur (top :: st) = (cur, top :: st) := by
  simp only [mMergeBack, h, ↓reduceIte]

/-- lines 16-20 against `mAbsorb` -/
theorem up_sim (x w : Nat → K) (n : Nat) : ∀ (rest : List (Obs K)) (fuel i : Nat) (cur : MCur K),
    RRel x w (i + 1) rest → i + 1 + rest.length = n → rest.length ≤ fuel →
    (up x w n fuel i cur.sb cur.wb cur.xb).2.1 = (mAbsorb cur rest).1.sb ∧
    (up x w n fuel i cur.sb cur.wb cur.xb).2.2.1 = (mAbsorb cur rest).1.wb ∧
    (up x w n fuel i cur.sb cur.wb cur.xb).2.2.2 = (mAbsorb cur rest).1.xb ∧
    RRel x w ((up x w n fuel i cur.sb cur.wb cur.xb).1 + 1) (mAbsorb cur rest).2 ∧
    (up x w n fuel i cur.sb cur.wb cur.xb).1 + 1 + (mAbsorb cur rest).2.length = n ∧
    i ≤ (up x w n fuel i cur.sb cur.wb cur.xb).1 ∧
    (mAbsorb cur rest).1.data.length + (mAbsorb cur rest).2.length = cur.data.length + rest.length := by
  intro rest
  induction rest with
  | nil =>
    intro fuel i cur _ hn _
    have hno : ¬ (i + 1 < n ∧ x (i + 1) ≤ cur.xb) := by
      simp only [List.length_nil, Nat.add_zero] at hn; omega
    have hm : mAbsorb cur ([] : List (Obs K)) = (cur, []) := rfl
    have hu : up x w n fuel i cur.sb cur.wb cur.xb = (i, cur.sb, cur.wb, cur.xb) := by
      cases fuel with
      | zero => rfl
      | succ f => exact up_neg _ _ _ _ _ _ _ _ hno
    rw [hm, hu]
    exact ⟨rfl, rfl, rfl, trivial, hn, Nat.le_refl _, rfl⟩
  | cons p rest ih =>
    intro fuel i cur hr hn hf
    obtain ⟨hx, hw, hr'⟩ := hr
    simp only [List.length_cons] at hn hf
    cases fuel with
    | zero => omega
    | succ f =>
      have hlt : i + 1 < n := by omega
      by_cases hc : p.1 ≤ cur.xb
      · have hc' : i + 1 < n ∧ x (i + 1) ≤ cur.xb := ⟨hlt, by rw [hx]; exact hc⟩
        have := ih f (i + 1) ⟨cur.data ++ [p], cur.sb + p.2 * p.1, cur.wb + p.2,
          (cur.sb + p.2 * p.1) / (cur.wb + p.2)⟩ hr' (by omega) (by omega)
        rw [up_pos _ _ _ _ _ _ _ _ hc', mAbsorb_pos _ _ _ hc, hx, hw]
        obtain ⟨a1, a2, a3, a4, a5, a6, a7⟩ := this
        refine ⟨a1, a2, a3, a4, a5, Nat.le_of_succ_le a6, ?_⟩
        rw [a7]; simp only [List.length_append, List.length_cons, List.length_nil]; omega
      · have hc' : ¬ (i + 1 < n ∧ x (i + 1) ≤ cur.xb) := by rw [hx]; exact fun h => hc h.2
        rw [up_neg _ _ _ _ _ _ _ _ hc', mAbsorb_neg _ _ _ hc]
        exact ⟨rfl, rfl, rfl, ⟨hx, hw, hr'⟩, by simp only [List.length_cons]; omega, Nat.le_refl _, rfl⟩

/-- lines 22-26 against `mMergeBack` -/
theorem down_sim (x w : Nat → K) (r : Nat → Nat) : ∀ (st : List (MBlk K)) (cur : MCur K) (e : Nat),
    SRel x w st → BRel r st e →
    (down x w st.length cur.sb cur.wb cur.xb).1 = (mMergeBack cur st).2.length ∧
    (down x w st.length cur.sb cur.wb cur.xb).2.1 = (mMergeBack cur st).1.sb ∧
    (down x w st.length cur.sb cur.wb cur.xb).2.2.1 = (mMergeBack cur st).1.wb ∧
    (down x w st.length cur.sb cur.wb cur.xb).2.2.2 = (mMergeBack cur st).1.xb ∧
    SRel x w (mMergeBack cur st).2 ∧ (mMergeBack cur st).2.length ≤ st.length ∧
    ∃ e', BRel r (mMergeBack cur st).2 e' ∧ e' ≤ e ∧
      (mMergeBack cur st).1.data.length + e' = cur.data.length + e := by
  intro st
  induction st with
  | nil =>
    intro cur e _ hb
    have hm : mMergeBack cur ([] : List (MBlk K)) = (cur, []) := rfl
    rw [hm]
    exact ⟨rfl, rfl, rfl, rfl, trivial, Nat.le_refl _, e, hb, Nat.le_refl _, rfl⟩
  | cons top st ih =>
    intro cur e hs hb
    obtain ⟨hx, hw, hs'⟩ := hs
    obtain ⟨hb1, hb2, hle, hb'⟩ := hb
    by_cases hc : cur.xb ≤ top.val
    · have hc' : cur.xb ≤ x st.length := by rw [hx]; exact hc
      have := ih ⟨top.data ++ cur.data, cur.sb + top.wgt * top.val, cur.wb + top.wgt,
        (cur.sb + top.wgt * top.val) / (cur.wb + top.wgt)⟩ (e - top.data.length) hs' hb'
      rw [List.length_cons, down_pos _ _ _ _ _ _ hc', mMergeBack_pos _ _ _ hc, hx, hw]
      obtain ⟨a1, a2, a3, a4, a5, a6, e', a7, a8, a9⟩ := this
      refine ⟨a1, a2, a3, a4, a5, by omega, e', a7, by omega, ?_⟩
      rw [a9]; simp only [List.length_append]; omega
    · have hc' : ¬ cur.xb ≤ x st.length := by rw [hx]; exact hc
      rw [List.length_cons, down_neg _ _ _ _ _ _ hc', mMergeBack_neg _ _ _ hc]
      exact ⟨rfl, rfl, rfl, rfl, ⟨hx, hw, hs'⟩, Nat.le_refl _, e, ⟨hb1, hb2, hle, hb'⟩, Nat.le_refl _, rfl⟩

/-! ### the main loop -/

/-- the simulation relation between the program state and `(stack, rest)` of `mLoop` -/
structure Sim (n : Nat) (s : St K) (stack : List (MBlk K)) (rest : List (Obs K)) : Prop where
  top : ∃ top st, stack = top :: st ∧ s.b = st.length ∧ s.xbp = top.val ∧ s.wbp = top.wgt
  srel : SRel s.x s.w stack
  rrel : RRel s.x s.w s.i rest
  brel : BRel s.r stack s.i
  len : s.i + rest.length = n

theorem loop_sim (n : Nat) (stack : List (MBlk K)) (rest : List (Obs K)) :
    ∀ (fuel : Nat) (s : St K), Sim n s stack rest → rest.length ≤ fuel →
      Sim n (loop n fuel s) (mLoop stack rest) [] := by
  fun_induction mLoop stack rest with
  | case1 st =>
    intro fuel s h _
    have hi : ¬ s.i < n := by have := h.len; simp at this; omega
    cases fuel with
    | zero => exact h
    | succ f => simp only [loop, hi, ↓reduceIte]; exact h
  | case2 p rest' ih =>
    intro fuel s h _
    obtain ⟨top, st, h0, _⟩ := h.top
    cases h0
  | case3 p rest top st hle sb wb r1 r2 hlt ih =>
    intro fuel s h hf
    obtain ⟨top0, st0, h0, hb, hxp, hwp⟩ := h.top
    cases h0
    obtain ⟨hx, hw, hr'⟩ := h.rrel
    obtain ⟨hsx, hsw, hs'⟩ := h.srel
    obtain ⟨hr1, hpos, hlen, hb'⟩ := h.brel
    have hlen' := h.len
    simp only [List.length_cons] at hlen' hf
    have hheight : (top :: st).length ≤ s.i := BRel_height_le h.brel
    simp only [List.length_cons] at hheight
    cases fuel with
    | zero => omega
    | succ f =>
      have hi : s.i < n := by omega
      have hcond : s.x s.i ≤ s.xbp := by rw [hx, hxp]; exact hle
      -- the two inner loops
      have hsb : s.wbp * s.xbp + s.w s.i * s.x s.i = sb := by rw [hx, hw, hxp, hwp]
      have hwb : s.w s.i + s.wbp = wb := by rw [hw, hwp]
      have hu := up_sim s.x s.w n rest (n - s.i) s.i ⟨top.data ++ [p], sb, wb, sb / wb⟩ hr' (by omega) (by omega)
      obtain ⟨u1, u2, u3, u4, u5, u6, u7⟩ := hu
      have hd := down_sim s.x s.w s.r st r1.1 (s.i - top.data.length) hs' hb'
      obtain ⟨d1, d2, d3, d4, d5, d6, e', d7, d8, d9⟩ := hd
      -- name the results of the program's loops
      have hstep : step n s =
          { x := upd s.x (down s.x s.w s.b (up s.x s.w n (n - s.i) s.i sb wb (sb / wb)).2.1
                  (up s.x s.w n (n - s.i) s.i sb wb (sb / wb)).2.2.1 (up s.x s.w n (n - s.i) s.i sb wb (sb / wb)).2.2.2).1
                (down s.x s.w s.b (up s.x s.w n (n - s.i) s.i sb wb (sb / wb)).2.1
                  (up s.x s.w n (n - s.i) s.i sb wb (sb / wb)).2.2.1 (up s.x s.w n (n - s.i) s.i sb wb (sb / wb)).2.2.2).2.2.2,
            w := upd s.w (down s.x s.w s.b (up s.x s.w n (n - s.i) s.i sb wb (sb / wb)).2.1
                  (up s.x s.w n (n - s.i) s.i sb wb (sb / wb)).2.2.1 (up s.x s.w n (n - s.i) s.i sb wb (sb / wb)).2.2.2).1
                (down s.x s.w s.b (up s.x s.w n (n - s.i) s.i sb wb (sb / wb)).2.1
                  (up s.x s.w n (n - s.i) s.i sb wb (sb / wb)).2.2.1 (up s.x s.w n (n - s.i) s.i sb wb (sb / wb)).2.2.2).2.2.1,
            r := upd s.r ((down s.x s.w s.b (up s.x s.w n (n - s.i) s.i sb wb (sb / wb)).2.1
                  (up s.x s.w n (n - s.i) s.i sb wb (sb / wb)).2.2.1 (up s.x s.w n (n - s.i) s.i sb wb (sb / wb)).2.2.2).1 + 1)
                ((up s.x s.w n (n - s.i) s.i sb wb (sb / wb)).1 + 1),
            b := (down s.x s.w s.b (up s.x s.w n (n - s.i) s.i sb wb (sb / wb)).2.1
                  (up s.x s.w n (n - s.i) s.i sb wb (sb / wb)).2.2.1 (up s.x s.w n (n - s.i) s.i sb wb (sb / wb)).2.2.2).1,
            i := (up s.x s.w n (n - s.i) s.i sb wb (sb / wb)).1 + 1,
            xbp := (down s.x s.w s.b (up s.x s.w n (n - s.i) s.i sb wb (sb / wb)).2.1
                  (up s.x s.w n (n - s.i) s.i sb wb (sb / wb)).2.2.1 (up s.x s.w n (n - s.i) s.i sb wb (sb / wb)).2.2.2).2.2.2,
            wbp := (down s.x s.w s.b (up s.x s.w n (n - s.i) s.i sb wb (sb / wb)).2.1
                  (up s.x s.w n (n - s.i) s.i sb wb (sb / wb)).2.2.1 (up s.x s.w n (n - s.i) s.i sb wb (sb / wb)).2.2.2).2.2.1 } := by
        unfold step
        simp only [hcond, ↓reduceIte, hsb, hwb]
      -- abbreviations
      generalize hU : up s.x s.w n (n - s.i) s.i sb wb (sb / wb) = U at hstep u1 u2 u3 u4 u5 u6
      rw [← u1, ← u2, ← u3] at d1 d2 d3 d4
      rw [hb] at hstep
      generalize hD : down s.x s.w st.length U.2.1 U.2.2.1 U.2.2.2 = D at hstep d1 d2 d3 d4
      -- the same facts in terms of the names `mLoop` uses
      have d1' : D.1 = r2.2.length := d1
      have d6' : r2.2.length ≤ st.length := d6
      have d9' : r2.1.data.length + e' = r1.1.data.length + (s.i - top.data.length) := d9
      have u5' : U.1 + 1 + r1.2.length = n := u5
      have u7' : r1.1.data.length + r1.2.length = top.data.length + 1 + rest.length := by
        have := u7
        simp only [List.length_append, List.length_cons, List.length_nil] at this
        exact this
      have hnew : Sim n (step n s) ((⟨r2.1.data, r2.1.xb, r2.1.wb⟩ : MBlk K) :: r2.2) r1.2 := by
        rw [hstep]
        have hDlt : D.1 < U.1 + 1 := by omega
        refine ⟨⟨_, _, rfl, d1, d4, d3⟩, ?_, ?_, ?_, u5⟩
        · refine ⟨?_, ?_, SRel_upd _ _ _ (Nat.le_of_eq d1'.symm) d5⟩
          · show upd s.x D.1 D.2.2.2 r2.2.length = _
            rw [← d1', upd_same]; exact d4
          · show upd s.w D.1 D.2.2.1 r2.2.length = _
            rw [← d1', upd_same]; exact d3
        · exact RRel_upd _ _ _ hDlt u4
        · have hdata : r2.1.data.length + e' = U.1 + 1 := by omega
          refine ⟨?_, ?_, ?_, ?_⟩
          · show upd s.r (D.1 + 1) (U.1 + 1) (r2.2.length + 1) = _
            rw [← d1', upd_same]
          · show 0 < r2.1.data.length
            omega
          · show r2.1.data.length ≤ U.1 + 1
            omega
          · show BRel (upd s.r (D.1 + 1) (U.1 + 1)) r2.2 (U.1 + 1 - r2.1.data.length)
            have : U.1 + 1 - r2.1.data.length = e' := by omega
            rw [this]
            exact BRel_upd _ _ (by omega) d7
      have hfuel : r1.2.length ≤ f := by
        have : r1.2.length ≤ rest.length := by
          have := mAbsorb_len (⟨top.data ++ [p], sb, wb, sb / wb⟩ : MCur K) rest
          exact this
        omega
      have := ih f (step n s) hnew hfuel
      simp only [loop, hi, ↓reduceIte]
      exact this
  | case4 p rest top st hnle ih =>
    intro fuel s h hf
    obtain ⟨top0, st0, h0, hb, hxp, hwp⟩ := h.top
    cases h0
    obtain ⟨hx, hw, hr'⟩ := h.rrel
    have hlen' := h.len
    simp only [List.length_cons] at hlen' hf
    have hheight : (top :: st).length ≤ s.i := BRel_height_le h.brel
    simp only [List.length_cons] at hheight
    cases fuel with
    | zero => omega
    | succ f =>
      have hi : s.i < n := by omega
      have hcond : ¬ s.x s.i ≤ s.xbp := by rw [hx, hxp]; exact hnle
      have hstep : step n s =
          { x := upd s.x (s.b + 1) (s.x s.i), w := upd s.w (s.b + 1) (s.w s.i), r := upd s.r (s.b + 2) (s.i + 1),
            b := s.b + 1, i := s.i + 1, xbp := s.x s.i, wbp := s.w s.i } := by
        unfold step
        simp only [hcond, ↓reduceIte]
      have hnew : Sim n (step n s) ((⟨[p], p.1, p.2⟩ : MBlk K) :: top :: st) rest := by
        rw [hstep, hb]
        refine ⟨⟨_, _, rfl, by simp, hx, hw⟩, ?_, ?_, ?_, (by show s.i + 1 + rest.length = n; omega)⟩
        · refine ⟨?_, ?_, SRel_upd _ _ _ (by simp) h.srel⟩
          · show upd s.x (st.length + 1) (s.x s.i) (top :: st).length = p.1
            simp only [List.length_cons, upd_same]; exact hx
          · show upd s.w (st.length + 1) (s.w s.i) (top :: st).length = p.2
            simp only [List.length_cons, upd_same]; exact hw
        · exact RRel_upd _ _ _ (show st.length + 1 < s.i + 1 by omega) hr'
        · refine ⟨?_, by simp, by simp, ?_⟩
          · show upd s.r (st.length + 2) (s.i + 1) ((top :: st).length + 1) = s.i + 1
            simp only [List.length_cons, upd_same]
          · show BRel (upd s.r (st.length + 2) (s.i + 1)) (top :: st) (s.i + 1 - 1)
            simp only [List.length_singleton, Nat.add_sub_cancel]
            exact BRel_upd _ _ (by simp) h.brel
      have := ih f (step n s) hnew (by omega)
      simp only [loop, hi, ↓reduceIte]
      exact this

end Loops

/-! ### the closing loop and the output -/

def toBlk' (b : MBlk K) : Blk K := ⟨b.data, b.val⟩

theorem fillRange_outside (x : Nat → K) (t e : Nat) (v : K) {p : Nat} (h : p < t ∨ e ≤ p) :
    fillRange x t e v p = x p := by
  unfold fillRange
  have : ¬ (t ≤ p ∧ p < e) := by omega
  simp [this]

theorem fillRange_inside (x : Nat → K) (t e : Nat) (v : K) {p : Nat} (h1 : t ≤ p) (h2 : p < e) :
    fillRange x t e v p = v := by
  unfold fillRange; simp [h1, h2]

/-- positions at or beyond the current end are not touched by the remaining rounds -/
theorem spread_ge (r : Nat → Nat) : ∀ (st : List (MBlk K)) (x : Nat → K) (e p : Nat), BRel r st e → e ≤ p →
    spread r st.length x e p = x p
  | [], _, _, _, _, _ => rfl
  | top :: st, x, e, p, hb, hp => by
    obtain ⟨_, _, hle, hb'⟩ := hb
    have ht : r st.length = e - top.data.length := BRel_r_height hb'
    simp only [List.length_cons, spread]
    rw [spread_ge r st _ _ p (ht ▸ hb') (by omega)]
    exact fillRange_outside _ _ _ _ (Or.inr hp)

theorem expand_append_single (bs : List (Blk K)) (b : Blk K) :
    expand (bs ++ [b]) = expand bs ++ List.replicate b.data.length b.val := by
  simp [expand]

theorem range_map_split (f : Nat → K) {t e : Nat} (h : t ≤ e) :
    (List.range e).map f = (List.range t).map f ++ (List.range (e - t)).map (fun k => f (t + k)) := by
  have : e = t + (e - t) := by omega
  conv_lhs => rw [this, List.range_add, List.map_append, List.map_map]
  rfl

/-- **the closing loop spreads the block values**: with the blocks stored as `SRel` / `BRel` say, the first `e`
positions afterwards are `expand` of the blocks (bottom block first) -/
theorem spread_spec (w : Nat → K) (r : Nat → Nat) : ∀ (st : List (MBlk K)) (x : Nat → K) (e : Nat),
    SRel x w st → BRel r st e →
    (List.range e).map (spread r st.length x e) = expand (st.reverse.map toBlk')
  | [], x, e, _, hb => by
    obtain ⟨rfl, _⟩ := hb
    simp [expand]
  | top :: st, x, e, hs, hb => by
    obtain ⟨hx, _, hs'⟩ := hs
    have hb0 := hb
    obtain ⟨_, hpos, hle, hb'⟩ := hb
    have ht : r st.length = e - top.data.length := BRel_r_height hb'
    have hh : st.length ≤ e - top.data.length := BRel_height_le hb'
    simp only [List.length_cons, spread, ht, hx, List.reverse_cons, List.map_append, List.map_cons, List.map_nil]
    rw [expand_append_single]
    have hs'' : SRel (fillRange x (e - top.data.length) e top.val) w st :=
      SRel_congr st (fun k hk => ⟨fillRange_outside _ _ _ _ (Or.inl (by omega)), rfl⟩) hs'
    have ih := spread_spec w r st _ (e - top.data.length) hs'' hb'
    rw [range_map_split _ (Nat.sub_le e top.data.length), ih]
    congr 1
    have he : e - (e - top.data.length) = top.data.length := by omega
    rw [he]
    apply List.ext_getElem
    · simp [toBlk']
    · intro k h1 h2
      simp only [List.length_map, List.length_range] at h1
      simp only [List.getElem_map, List.getElem_range, List.getElem_replicate, toBlk']
      rw [spread_ge r st _ _ _ hb' (by omega)]
      exact fillRange_inside _ _ _ _ (by omega) (by omega)

theorem flatMap_data_length_append (bs : List (Blk K)) (b : Blk K) :
    ((bs ++ [b]).flatMap (·.data)).length = (bs.flatMap (·.data)).length + b.data.length := by
  simp

theorem boundsFrom_append_single (n : Nat) (bs : List (Blk K)) (b : Blk K) :
    boundsFrom n (bs ++ [b]) = boundsFrom n bs ++ [n + (bs.flatMap (·.data)).length + b.data.length] := by
  induction bs generalizing n with
  | nil => simp [boundsFrom]
  | cons c bs ih =>
    simp only [List.cons_append, boundsFrom, ih, List.flatMap_cons, List.length_append]
    have : n + c.data.length + (List.flatMap (fun x => x.data) bs).length + b.data.length
        = n + (c.data.length + (List.flatMap (fun x => x.data) bs).length) + b.data.length := by omega
    rw [this]

theorem bounds_append_single (bs : List (Blk K)) (b : Blk K) :
    bounds (bs ++ [b]) = bounds bs ++ [(bs.flatMap (·.data)).length + b.data.length] := by
  rw [bounds_eq, bounds_eq, boundsFrom_append_single]
  simp

/-- total number of observations in the blocks -/
theorem BRel_total {r : Nat → Nat} : ∀ {st : List (MBlk K)} {e : Nat}, BRel r st e →
    ((st.reverse.map toBlk').flatMap (·.data)).length = e
  | [], _, ⟨h, _⟩ => by simp [h]
  | top :: st, e, ⟨_, _, hle, hb'⟩ => by
    have := BRel_total hb'
    simp only [List.reverse_cons, List.map_append, List.map_cons, List.map_nil]
    rw [flatMap_data_length_append, this]
    show e - top.data.length + top.data.length = e
    omega

/-- **the index vector**: `r[0 .. h]` are the block boundaries -/
theorem bounds_spec {r : Nat → Nat} : ∀ {st : List (MBlk K)} {e : Nat}, BRel r st e →
    (List.range (st.length + 1)).map r = bounds (st.reverse.map toBlk')
  | [], _, ⟨_, h0⟩ => by simp [h0]
  | top :: st, e, hb => by
    obtain ⟨h1, _, hle, hb'⟩ := hb
    have ih := bounds_spec hb'
    simp only [List.length_cons, List.reverse_cons, List.map_append, List.map_cons, List.map_nil]
    rw [bounds_append_single, ← ih, BRel_total hb', List.range_succ, List.map_append]
    simp only [List.map_cons, List.map_nil, h1, toBlk']
    congr 2; omega

theorem RRel_init (p : Obs K) : ∀ (l pre : List (Obs K)) (ys : List (Obs K)), ys = pre ++ l →
    RRel (fun k => (ys.getD k p).1) (fun k => (ys.getD k p).2) pre.length l
  | [], _, _, _ => trivial
  | q :: l, pre, ys, h => by
    refine ⟨?_, ?_, ?_⟩
    · simp [h, List.getD_eq_getElem?_getD]
    · simp [h, List.getD_eq_getElem?_getD]
    · have := RRel_init p l (pre ++ [q]) ys (by simp [h])
      simpa using this


/-! ### the entry point -/

section Entry
variable [LE K] [DecidableLE K] [Add K] [Mul K] [Div K]

/-- **pavaArr_eq_pavaMean**: the in-place array program is the stack model: same fitted values, same block index
vector - for every non-empty input, whatever the weights are. -/
theorem pavaArr_eq_pavaMean (ys : List (Obs K)) (hne : ys ≠ []) :
    pavaArr ys = (expand (pavaMean ys), bounds (pavaMean ys)) := by
  cases ys with
  | nil => exact absurd rfl hne
  | cons p tl =>
    have hinit : Sim (p :: tl).length
        ({ x := fun k => ((p :: tl).getD k p).1, w := fun k => ((p :: tl).getD k p).2,
           r := upd (upd (fun _ => 0) 0 0) 1 1, b := 0, i := 1, xbp := p.1, wbp := p.2 } : St K)
        [⟨[p], p.1, p.2⟩] tl := by
      refine ⟨⟨_, _, rfl, rfl, rfl, rfl⟩, ⟨by simp, by simp, trivial⟩, ?_, ?_, by simp; omega⟩
      · exact RRel_init p tl [p] (p :: tl) rfl
      · exact ⟨by simp [upd], by simp, by simp, by simp, by simp [upd]⟩
    have hfin := loop_sim (p :: tl).length [⟨[p], p.1, p.2⟩] tl (p :: tl).length _ hinit (by simp)
    have hm : mLoop [] (p :: tl) = mLoop [⟨[p], p.1, p.2⟩] tl := by rw [mLoop.eq_def]
    rw [← hm] at hfin
    obtain ⟨top, st, hst, hb, _, _⟩ := hfin.top
    have hlen := hfin.len
    simp only [List.length_nil, Nat.add_zero] at hlen
    have hbr := hfin.brel
    rw [hlen] at hbr
    have hx := spread_spec _ _ _ _ _ hfin.srel hbr
    have hr := bounds_spec hbr
    have hheight : (mLoop [] (p :: tl)).length = (loop (p :: tl).length (p :: tl).length
        ({ x := fun k => ((p :: tl).getD k p).1, w := fun k => ((p :: tl).getD k p).2,
           r := upd (upd (fun _ => 0) 0 0) 1 1, b := 0, i := 1, xbp := p.1, wbp := p.2 } : St K)).b + 1 := by
      rw [hst, hb]; rfl
    unfold pavaArr pavaMean
    simp only []
    rw [← hheight, hx, show (loop (p :: tl).length (p :: tl).length
        ({ x := fun k => ((p :: tl).getD k p).1, w := fun k => ((p :: tl).getD k p).2,
           r := upd (upd (fun _ => 0) 0 0) 1 1, b := 0, i := 1, xbp := p.1, wbp := p.2 } : St K)).b + 2
        = (mLoop [] (p :: tl)).length + 1 by omega, hr]
    rfl

end Entry

end MD.Arr
