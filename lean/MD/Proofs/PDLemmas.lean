import MD.Model.PD
import Mathlib.Data.List.Basic
import Mathlib.Algebra.BigOperators.Group.List.Basic

/-! # Lemmas about the partial-dependence model (`MD/Model/PD.lean`)

Helpers for `MD/Props/C16.lean`.  The structural lemmas need no algebra at all (only
`[Inhabited K]` for the model's `[·]!` look-ups); the closed form `pd_closed_form` is stated over
the bare operation classes the model itself uses; only the row-permutation lemmas need
commutativity of addition (`[AddCommMonoid K]`). -/

namespace MD

section Struct
variable {K : Type} [Inhabited K]

/-- the stacked matrix, row by row: row `k` is sample row `k % n` with column `j` set to grid value
`k / n` (the tile / repeat index vectors fused into one `map`) -/
theorem pd_stacked_eq (X : List (List K)) (j : Nat) (grid : List K) :
    stacked X j grid = (List.range (X.length * grid.length)).map
      (fun k => (X[k % X.length]!).set j (grid[k / X.length]!)) := by
  simp [stacked, takeRows, tileIdx, repeatIdx, List.zipWith_map_left, List.zipWith_map_right,
    List.zipWith_self]

/-- indexing by `0, …, n-1` is the identity -/
theorem pd_takeRows_range {α : Type} [Inhabited α] (X : List α) :
    takeRows X (List.range X.length) = X := by
  apply List.ext_getElem
  · simp [takeRows]
  · intro i h1 h2
    simp only [takeRows, List.getElem_map, List.getElem_range]
    exact getElem!_pos X i h2

/-- index algebra of the `(n_grid, n)` reshape -/
theorem pd_index_lt {n G g i : Nat} (hg : g < G) (hi : i < n) : g * n + i < n * G := by
  have h1 : (g + 1) * n ≤ G * n := Nat.mul_le_mul_right n hg
  rw [Nat.succ_mul] at h1
  rw [Nat.mul_comm n G]; omega

theorem pd_index_mod {n g i : Nat} (hi : i < n) : (g * n + i) % n = i := by
  rw [Nat.add_comm, Nat.add_mul_mod_self_right, Nat.mod_eq_of_lt hi]

theorem pd_index_div {n g i : Nat} (hi : i < n) : (g * n + i) / n = g := by
  rw [Nat.add_comm, Nat.add_mul_div_right _ _ (by omega), Nat.div_eq_of_lt hi, Nat.zero_add]

/-- the `g`-th length-`n` block of a list tabulated over `range (n * G)` -/
theorem pd_block {β : Type} (F : Nat → β) {n G g : Nat} (hg : g < G) :
    (((List.range (n * G)).map F).drop (g * n)).take n
      = (List.range n).map (fun i => F (g * n + i)) := by
  apply List.ext_getElem
  · simp only [List.length_take, List.length_drop, List.length_map, List.length_range]
    have h1 : (g + 1) * n ≤ G * n := Nat.mul_le_mul_right n hg
    rw [Nat.succ_mul] at h1
    rw [Nat.mul_comm n G]; omega
  · intro i h1 h2
    simp

/-- key lemma: the `g`-th block of predictions is the prediction on every sample row with column `j`
overwritten by `grid[g]` -/
theorem pd_block_stacked {β : Type} (f : List K → β) (X : List (List K)) (j : Nat) (grid : List K)
    {g : Nat} (hg : g < grid.length) :
    ((((stacked X j grid).map f).drop (g * X.length)).take X.length)
      = X.map (fun row => f (row.set j grid[g]!)) := by
  rw [pd_stacked_eq, List.map_map, pd_block _ hg]
  apply List.ext_getElem
  · simp
  · intro i h1 h2
    have hi : i < X.length := by simpa using h2
    simp only [List.getElem_map, List.getElem_range, Function.comp]
    rw [pd_index_mod hi, pd_index_div hi, getElem!_pos X i hi]

theorem pd_stacked_length (X : List (List K)) (j : Nat) (grid : List K) :
    (stacked X j grid).length = X.length * grid.length := by
  simp [pd_stacked_eq]

theorem pd_stacked_row (X : List (List K)) (j : Nat) (grid : List K) {g i : Nat}
    (hg : g < grid.length) (hi : i < X.length) :
    (stacked X j grid)[g * X.length + i]! = (X[i]!).set j (grid[g]!) := by
  have hlt := pd_index_lt hg hi
  rw [getElem!_pos _ _ (by rw [pd_stacked_length]; exact hlt)]
  simp only [pd_stacked_eq, List.getElem_map, List.getElem_range]
  rw [pd_index_mod hi, pd_index_div hi]

/-- for a one-point grid the tiled row selection is `X` itself -/
theorem pd_takeRows_tile_one {α : Type} [Inhabited α] (X : List α) :
    takeRows X (tileIdx X.length 1) = X := by
  apply List.ext_getElem
  · simp [takeRows, tileIdx]
  · intro i h1 h2
    simp only [takeRows, tileIdx, List.getElem_map, List.getElem_range]
    rw [Nat.mod_eq_of_lt h2]
    exact getElem!_pos X i h2

theorem pd_takeRows_length {α : Type} [Inhabited α] (X : List α) (idx : List Nat) :
    (takeRows X idx).length = idx.length := by simp [takeRows]

/-- a draw without replacement (distinct in-range indices) selects a sub-multiset of the rows -/
theorem pd_takeRows_subperm {α : Type} [Inhabited α] (X : List α) (idx : List Nat)
    (hnd : idx.Nodup) (hlt : ∀ i ∈ idx, i < X.length) : (takeRows X idx).Subperm X := by
  have h1 : idx.Subperm (List.range X.length) :=
    List.subperm_of_subset hnd (fun i hi => List.mem_range.2 (hlt i hi))
  obtain ⟨l, hp, hs⟩ := h1
  have h3 := pd_takeRows_range X
  unfold takeRows at h3 ⊢
  refine ⟨l.map (fun i => X[i]!), hp.map _, ?_⟩
  have := hs.map (fun i => X[i]!)
  rwa [h3] at this

end Struct

section Avg
variable {K : Type} [Add K] [Mul K] [Div K] [Zero K] [NatCast K] [Inhabited K]

/-- the weighted / unweighted average the code takes over one block of predictions -/
def pdAvg (w : Option (List K)) (n : Nat) (blk : List K) : K :=
  match w with
  | none => blk.sum / (n : K)
  | some w' => (List.zipWith (· * ·) blk w').sum / w'.sum

/-- closed form of the model without subsampling: one average per grid value, in grid order -/
theorem pd_closed_form (f : List K → K) (X : List (List K)) (j : Nat) (grid : List K)
    (w : Option (List K)) :
    partialDependence f X j grid w none
      = grid.map (fun gv => pdAvg w X.length (X.map (fun row => f (row.set j gv)))) := by
  have h : partialDependence f X j grid w none
      = (List.range grid.length).map (fun g =>
          pdAvg w X.length (X.map (fun row => f (row.set j grid[g]!)))) := by
    unfold partialDependence blockAverages
    apply List.map_congr_left
    intro g hg
    rw [pd_block_stacked f X j grid (List.mem_range.1 hg)]
    cases w <;> rfl
  rw [h]
  apply List.ext_getElem
  · simp
  · intro g h1 h2
    have hg : g < grid.length := by simpa using h2
    simp only [List.getElem_map, List.getElem_range]
    rw [getElem!_pos grid g hg]

/-- subsampling = the same computation on the selected rows and the equally selected weights -/
theorem pd_sub_eq (f : List K → K) (X : List (List K)) (j : Nat) (grid : List K)
    (w : Option (List K)) (idx : List Nat) :
    partialDependence f X j grid w (some idx)
      = partialDependence f (takeRows X idx) j grid (w.map (fun ws => takeRows ws idx)) none := rfl

end Avg

/-- rows and weights selected by the same index list stay paired -/
theorem pd_zipWith_takeRows {α β γ : Type} [Inhabited α] [Inhabited β] (h : α → β → γ)
    (X : List α) (ws : List β) (idx : List Nat) :
    List.zipWith h (takeRows X idx) (takeRows ws idx) = idx.map (fun i => h (X[i]!) (ws[i]!)) := by
  simp [takeRows, List.zipWith_map_left, List.zipWith_map_right, List.zipWith_self]

theorem pd_zipWith_map_zip {α β γ δ : Type} (h : α → β) (m : β → γ → δ) (X : List α) (w : List γ) :
    List.zipWith m (X.map h) w = (X.zip w).map (fun p => m (h p.1) p.2) := by
  simp [List.zip, List.map_zipWith, List.zipWith_map_left]

section Perm
variable {K : Type} [AddCommMonoid K]

theorem pd_perm_sum {α : Type} (h : α → K) {X X' : List α} (hp : X.Perm X') :
    (X.map h).sum = (X'.map h).sum := (hp.map h).sum_eq

theorem pd_perm_wsum [Mul K] {α : Type} (h : α → K) {X X' : List α} {w w' : List K}
    (hp : (X.zip w).Perm (X'.zip w')) :
    (List.zipWith (· * ·) (X.map h) w).sum = (List.zipWith (· * ·) (X'.map h) w').sum := by
  rw [pd_zipWith_map_zip, pd_zipWith_map_zip]
  exact (hp.map _).sum_eq

theorem pd_perm_weights {α : Type} {X X' : List α} {w w' : List K}
    (hw : w.length = X.length) (hw' : w'.length = X'.length)
    (hp : (X.zip w).Perm (X'.zip w')) : w.sum = w'.sum := by
  have h := (hp.map Prod.snd).sum_eq
  rwa [List.map_snd_zip (Nat.le_of_eq hw), List.map_snd_zip (Nat.le_of_eq hw')] at h

end Perm

section Fam
variable {K : Type} [Add K] [Mul K] [Inhabited K]

/-- the interaction family on an overwritten row: column `j` reads the grid value, column `k ≠ j`
its original value -/
theorem pd_predFamily_set (a b c : K) {j k : Nat} (row : List K) (g : K)
    (hjk : k ≠ j) (hj : j < row.length) :
    predFamily a b c j k (row.set j g) = a * g * row[k]! + b * (row[k]! * row[k]!) + c * g := by
  have h1 : (row.set j g)[j]! = g := by
    rw [getElem!_pos _ _ (by simpa using hj)]; simp
  have h2 : (row.set j g)[k]! = row[k]! := by
    simp [getElem!_def, List.getElem?_set_ne (Ne.symm hjk)]
  unfold predFamily
  rw [h1, h2]
end Fam
end MD
