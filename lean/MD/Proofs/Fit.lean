import MD.Proofs.Gpava
import MD.Proofs.Block

set_option linter.unusedSectionVars false

namespace MD
variable {K : Type} [Field K] [LinearOrder K] [IsStrictOrderedRing K]

theorem IdFun.internal (F : IdFun K) : Internal F.ok F.T :=
  ⟨fun o ho => F.T_single o ho,
   fun A B hA hB okA okB => F.lo A B hA hB okA okB,
   fun A B hA hB okA okB => F.hi A B hA hB okA okB⟩

theorem total_replicate (S : Obs K → K → K) (d : List (Obs K)) (v : K) :
    total S d (List.replicate d.length v) = (d.map (S · v)).sum := by
  induction d with
  | nil => simp [total]
  | cons o d ih =>
    simp only [total, List.length_cons, List.replicate_succ, List.zipWith_cons_cons, List.sum_cons,
      List.map_cons] at *
    rw [ih]

variable {F : IdFun K} (Sc : OSScore F)

theorem good_cert_pre {b : Blk K} (hb : Good F.ok F.T b) (k : ℕ) : Esum F.Vm (b.data.take k) b.val ≤ 0 := by
  by_cases hk : b.data.take k = []
  · simp [hk]
  · have h := hb.pre (b.data.take k) (b.data.drop k) hk (List.take_append_drop k b.data).symm
    exact F.specm _ hk (fun o ho => hb.allok o (List.mem_of_mem_take ho)) _ h

theorem good_cert_suf {b : Blk K} (hb : Good F.ok F.T b) (k : ℕ) : 0 ≤ Esum F.Vp (b.data.drop k) b.val := by
  by_cases hk : b.data.drop k = []
  · simp [hk]
  · have h := hb.suf (b.data.take k) (b.data.drop k) hk (List.take_append_drop k b.data).symm
    exact (F.spec _ hk (fun o ho => hb.allok o (List.mem_of_mem_drop ho)) _).mp h

/-- optimality of the expanded blocks against every monotone competitor -/
theorem blocks_optimal (bs : List (Blk K)) (hbs : ∀ b ∈ bs, Good F.ok F.T b)
    (hdomv : ∀ b ∈ bs, Sc.dom b.val)
    (zs : List K) (hlen : (bs.flatMap (·.data)).length = zs.length)
    (hdom : ∀ z ∈ zs, Sc.dom z) (hsort : zs.Pairwise (· ≤ ·)) :
    total Sc.S (bs.flatMap (·.data)) (expand bs) ≤ total Sc.S (bs.flatMap (·.data)) zs := by
  induction bs generalizing zs with
  | nil => simp [expand, total]
  | cons b bs ih =>
    have hb := hbs b (by simp)
    set m := b.data.length with hm
    have hz : zs = zs.take m ++ zs.drop m := (List.take_append_drop m zs).symm
    simp only [List.flatMap_cons, List.length_append] at hlen
    have hl1 : b.data.length = (zs.take m).length := by rw [List.length_take]; omega
    have hl2 : (bs.flatMap (·.data)).length = (zs.drop m).length := by rw [List.length_drop]; omega
    have B := block_optimal Sc b.val (hdomv b (by simp)) b.data (zs.take m) hl1 hb.allok
      (fun z hz' => hdom z (List.mem_of_mem_take hz')) (hsort.sublist (List.take_sublist _ _))
      (good_cert_pre hb) (good_cert_suf hb)
    have R := ih (fun b' hb' => hbs b' (by simp [hb'])) (fun b' hb' => hdomv b' (by simp [hb']))
      (zs.drop m) hl2 (fun z hz' => hdom z (List.mem_of_mem_drop hz'))
      (hsort.sublist (List.drop_sublist _ _))
    have e1 : total Sc.S ((b :: bs).flatMap (·.data)) zs
        = total Sc.S b.data (zs.take m) + total Sc.S (bs.flatMap (·.data)) (zs.drop m) := by
      conv_lhs => rw [hz]
      simp only [List.flatMap_cons]
      exact total_append _ _ _ _ _ hl1
    have e2 : total Sc.S ((b :: bs).flatMap (·.data)) (expand (b :: bs))
        = (b.data.map (Sc.S · b.val)).sum + total Sc.S (bs.flatMap (·.data)) (expand bs) := by
      simp only [List.flatMap_cons, expand]
      rw [total_append _ _ _ _ _ (by simp), total_replicate]
    rw [e1, e2]
    linarith

/-- **fit_optimal**: the generalised PAVA output minimises every order-sensitive score over all
monotone sequences of the same length. -/
theorem fit_optimal (ys : List (Obs K)) (hys : ∀ o ∈ ys, F.ok o)
    (hdomv : ∀ b ∈ gpava F.T ys, Sc.dom b.val)
    (zs : List K) (hlen : ys.length = zs.length)
    (hdom : ∀ z ∈ zs, Sc.dom z) (hsort : zs.Pairwise (· ≤ ·)) :
    total Sc.S ys (expand (gpava F.T ys)) ≤ total Sc.S ys zs := by
  obtain ⟨h1, _, h3⟩ := gpava_spec F.internal ys hys
  have := blocks_optimal Sc (gpava F.T ys) h1 hdomv zs (by rw [h3]; exact hlen) hdom hsort
  rwa [h3] at this

end MD
