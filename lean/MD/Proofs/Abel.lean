import Mathlib.Algebra.Order.Field.Basic
import Mathlib.Algebra.BigOperators.Group.List.Basic
import Mathlib.Tactic.Linarith
import Mathlib.Tactic.Ring

namespace MD
variable {K : Type} [Field K] [LinearOrder K] [IsStrictOrderedRing K]

/-- Abel summation, prefix form: prefix sums of `g` (offset by `c`) are ≤ 0, `u` is nondecreasing,
bounded below by `m`, and ≤ 0. -/
theorem abel_prefix_aux (g u : List K) (c m : K) (hc : c ≤ 0) (hm : m ≤ 0)
    (hlen : g.length = u.length)
    (hp : ∀ k, c + (g.take k).sum ≤ 0)
    (hmono : u.Pairwise (· ≤ ·)) (hlb : ∀ x ∈ u, m ≤ x) (hneg : ∀ x ∈ u, x ≤ 0) :
    0 ≤ c * m + (List.zipWith (· * ·) g u).sum := by
  induction g generalizing u c m with
  | nil =>
    cases u with
    | nil => simpa using mul_nonneg_of_nonpos_of_nonpos hc hm
    | cons => simp at hlen
  | cons g1 gs ih =>
    cases u with
    | nil => simp at hlen
    | cons u1 us =>
      have hu1 : u1 ≤ 0 := hneg u1 (by simp)
      have hmu1 : m ≤ u1 := hlb u1 (by simp)
      have hc1 : c + g1 ≤ 0 := by simpa using hp 1
      have h := ih us (c + g1) u1 hc1 hu1 (by simpa using hlen)
        (by intro k; have := hp (k+1); simpa [add_assoc] using this)
        (List.pairwise_cons.mp hmono).2
        (fun x hx => (List.pairwise_cons.mp hmono).1 x hx)
        (fun x hx => hneg x (by simp [hx]))
      have h0 : 0 ≤ c * (m - u1) := mul_nonneg_of_nonpos_of_nonpos hc (by linarith)
      simp only [List.zipWith_cons_cons, List.sum_cons]
      nlinarith

theorem abel_prefix (g u : List K) (hlen : g.length = u.length)
    (hp : ∀ k, (g.take k).sum ≤ 0)
    (hmono : u.Pairwise (· ≤ ·)) (hneg : ∀ x ∈ u, x ≤ 0) :
    0 ≤ (List.zipWith (· * ·) g u).sum := by
  cases u with
  | nil => simp
  | cons u1 us =>
    have := abel_prefix_aux g (u1 :: us) 0 u1 le_rfl (hneg u1 (by simp)) hlen
      (by simpa using hp) hmono
      (by intro x hx; rcases List.mem_cons.mp hx with rfl | hx
          · exact le_rfl
          · exact (List.pairwise_cons.mp hmono).1 x hx) hneg
    simpa using this

theorem sum_map_neg' (l : List K) : (l.map (fun x => -x)).sum = -l.sum := by
  induction l with
  | nil => simp
  | cons a l ih => simp [ih]; ring

/-- suffix form, by reversing -/
theorem abel_suffix (g u : List K) (hlen : g.length = u.length)
    (hs : ∀ k, 0 ≤ (g.drop k).sum)
    (hmono : u.Pairwise (· ≤ ·)) (hpos : ∀ x ∈ u, 0 ≤ x) :
    0 ≤ (List.zipWith (· * ·) g u).sum := by
  -- apply the prefix form to reversed lists with negated u
  have h := abel_prefix (g.reverse.map (fun x => -x)) (u.reverse.map (fun x => -x)) (by simp [hlen])
    (by
      intro k
      rw [← List.map_take, sum_map_neg', neg_nonpos]
      rw [List.take_reverse, List.sum_reverse]
      exact hs _)
    (by
      rw [List.pairwise_map, List.pairwise_reverse]
      exact hmono.imp (by intro a b hab; linarith))
    (by
      intro x hx
      simp only [List.mem_map, List.mem_reverse] at hx
      obtain ⟨y, hy, rfl⟩ := hx
      have := hpos y hy; linarith)
  have e : (List.zipWith (· * ·) (g.reverse.map (fun x => -x)) (u.reverse.map (fun x => -x))).sum
      = (List.zipWith (· * ·) g u).sum := by
    rw [List.zipWith_map_left, List.zipWith_map_right]
    simp only [neg_mul_neg]
    rw [← List.reverse_zipWith hlen, List.sum_reverse]
  rwa [e] at h

end MD
