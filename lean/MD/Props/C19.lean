import MD.Proofs.PlotLemmas
import Mathlib.Tactic.NormNum

/-! # C19 — line data of the diagnostic plots (matplotlib backend)

"With the matplotlib backend, a reliability diagram contains the diagonal from the smallest to the
largest prediction and, per model, a curve whose points are the isotonic fit of observations on
predictions (monotone; prediction minus fit for the bias variant); a Murphy diagram's curves are the
average elementary scores at the requested thresholds; a bias plot's points are compute_bias's
means."

Model: `MD/Model/Plot.lean` (`predRange`, `diagonal`, `reliabilityCurve`, `reliabilityLines`,
`averageK`, `murphyCurve`, `murphyLines`), on top of `isoFit` / `interp` (C11) and `elemArr` (C15).
Helpers: `MD/Proofs/PlotLemmas.lean`.  In all statements `ys` are the observations, `x` one column of
predictions (`cols` all columns), `w` the optional weights.

The bias plot has no model function of its own: its points are read off the table returned by
`compute_bias`, whose model is `groupedTable` (C09); the harness compares the plotted points with
that table directly, so there is nothing to state here. -/

set_option linter.unusedSectionVars false

namespace MD.Props
variable {K : Type} [Field K] [LinearOrder K] [IsStrictOrderedRing K] [Inhabited K]

/-! ## The diagonal -/

/-- The diagonal runs from `(lo, lo)` to `(hi, hi)` where `lo` / `hi` are the smallest / largest
prediction over all columns: both are predictions and every prediction lies between them. -/
theorem C19_diagonal (cols : List (List K)) (hne : cols.flatten ≠ []) :
    ∃ lo hi, diagonal cols = some ⟨[lo, hi], [lo, hi]⟩ ∧
      lo ∈ cols.flatten ∧ hi ∈ cols.flatten ∧ ∀ c ∈ cols, ∀ v ∈ c, lo ≤ v ∧ v ≤ hi := by
  obtain ⟨lo, hi, h, hlo, hhi, hall⟩ := plt_predRange cols hne
  refine ⟨lo, hi, ?_, hlo, hhi, fun c hc v hv => hall v (List.mem_flatten.mpr ⟨c, hc, hv⟩)⟩
  unfold diagonal
  rw [h]
  rfl

/-- without any prediction there is no diagonal -/
theorem C19_diagonal_none (cols : List (List K)) (h : cols.flatten = []) : diagonal cols = none := by
  unfold diagonal
  rw [plt_predRange_none cols h]
  rfl

/-! ## One line per model column, in column order -/

theorem C19_per_column (fn : Option Functional) (α : K) (bias : Bool) (ys : List K)
    (cols : List (List K)) (w : Option (List K)) (ls : List (Line K))
    (h : reliabilityLines fn α bias ys cols w = .ok ls) :
    ls.length = cols.length ∧ ∀ i (hi : i < cols.length) (hl : i < ls.length),
      reliabilityCurve fn α bias ys cols[i] w = .ok ls[i] :=
  ⟨plt_mapM_length h, fun i hi hl => plt_mapM_get h i hi hl⟩

theorem C19_per_column_murphy (fn : Option Functional) (α : K) (etas ys : List K)
    (cols : List (List K)) (w : Option (List K)) (ls : List (Line K))
    (h : murphyLines fn α etas ys cols w = .ok ls) :
    ls.length = cols.length ∧ ∀ i (hi : i < cols.length) (hl : i < ls.length),
      murphyCurve fn α etas ys cols[i] w = .ok ls[i] :=
  ⟨plt_mapM_length h, fun i hi hl => plt_mapM_get h i hi hl⟩

/-- … and conversely: the list of lines exists exactly if every column's curve does -/
theorem C19_per_column_iff (fn : Option Functional) (α : K) (bias : Bool) (etas ys : List K)
    (cols : List (List K)) (w : Option (List K)) (ls : List (Line K)) :
    (reliabilityLines fn α bias ys cols w = .ok ls ↔
      List.Forall₂ (fun x l => reliabilityCurve fn α bias ys x w = .ok l) cols ls) ∧
    (murphyLines fn α etas ys cols w = .ok ls ↔
      List.Forall₂ (fun x l => murphyCurve fn α etas ys x w = .ok l) cols ls) :=
  ⟨plt_mapM_forall₂ _ cols ls, plt_mapM_forall₂ _ cols ls⟩

/-! ## Reliability curves -/

/-- The plotted points are exactly the thresholds of the increasing isotonic fit of the
observations on the predictions. -/
theorem C19_curve_is_fit (fn : Option Functional) (α : K) (ys x : List K) (w : Option (List K))
    (l : Line K) (h : reliabilityCurve fn α false ys x w = .ok l) :
    isoFit fn α true x ys w = .ok (l.xs, l.ys) := by
  obtain ⟨tx, ty, hf, h1, h2⟩ := plt_reliabilityCurve_inv h
  rw [h1, h2]
  exact hf

/-- conversely every successful fit is drawn (both variants), and a failing fit fails the plot with
the same error -/
theorem C19_curve_of_fit (fn : Option Functional) (α : K) (bias : Bool) (ys x : List K)
    (w : Option (List K)) :
    (∀ tx ty, isoFit fn α true x ys w = .ok (tx, ty) →
      reliabilityCurve fn α bias ys x w
        = .ok ⟨tx, if bias then List.zipWith (· - ·) tx ty else ty⟩) ∧
    (∀ e, isoFit fn α true x ys w = .error e → reliabilityCurve fn α bias ys x w = .error e) :=
  ⟨fun _ _ h => plt_reliabilityCurve_of_fit bias h, fun _ h => plt_reliabilityCurve_error bias h⟩

/-- Bias variant: same `x` data, `y` data = prediction threshold minus fitted value. -/
theorem C19_bias_variant (fn : Option Functional) (α : K) (ys x : List K) (w : Option (List K))
    (l : Line K) (h : reliabilityCurve fn α true ys x w = .ok l) :
    ∃ tx ty, isoFit fn α true x ys w = .ok (tx, ty) ∧ l.xs = tx ∧
      l.ys = List.zipWith (· - ·) tx ty := by
  obtain ⟨tx, ty, hf, h1, h2⟩ := plt_reliabilityCurve_inv h
  exact ⟨tx, ty, hf, h1, h2⟩

/-- the bias curve has as many points as the plain curve, pointwise `x - fit` -/
theorem C19_bias_variant_pointwise (fn : Option Functional) (α : K) (ys x : List K)
    (w : Option (List K)) (l lb : Line K) (h : reliabilityCurve fn α false ys x w = .ok l)
    (hb : reliabilityCurve fn α true ys x w = .ok lb) :
    lb.xs = l.xs ∧ lb.ys.length = l.ys.length ∧
      ∀ i, i < l.xs.length → lb.ys[i]! = l.xs[i]! - l.ys[i]! := by
  have hf := C19_curve_is_fit fn α ys x w l h
  obtain ⟨tx, ty, hf', h1, h2⟩ := plt_reliabilityCurve_inv hb
  rw [hf] at hf'
  obtain ⟨rfl, rfl⟩ := Prod.mk.inj (Except.ok.inj hf')
  obtain ⟨yiso, r, hr⟩ := fit_isoFit_exists hf
  have hlen := (fit_isoFit_fitted hf hr).ty_len
  refine ⟨h1, ?_, ?_⟩
  · rw [h2]
    simp [hlen]
  · intro i hi
    rw [h2]
    have hi' : i < l.ys.length := by omega
    rw [fit_get! _ i (by simp; omega), fit_get! _ i hi, fit_get! _ i hi']
    simp

/-- **Monotone.**  A successful reliability curve is non-empty, has as many `y` as `x` values, its
`x` values (prediction thresholds) are non-decreasing and so are its `y` values (fitted values) —
for every functional, with or without weights; no hypotheses beyond success. -/
theorem C19_curve_monotone (fn : Option Functional) (α : K) (ys x : List K) (w : Option (List K))
    (l : Line K) (h : reliabilityCurve fn α false ys x w = .ok l) :
    0 < l.xs.length ∧ l.ys.length = l.xs.length ∧
      l.xs.Pairwise (· ≤ ·) ∧ l.ys.Pairwise (· ≤ ·) := by
  have hf := C19_curve_is_fit fn α ys x w l h
  obtain ⟨yiso, r, hr⟩ := fit_isoFit_exists hf
  have F := fit_isoFit_fitted hf hr
  exact ⟨F.tx_pos, F.ty_len, F.tx_sorted, (monoDir_true _).mp F.ty_mono⟩

/-- the bias variant has the same (sorted, non-empty) `x` data and as many `y` values -/
theorem C19_bias_curve_wellformed (fn : Option Functional) (α : K) (ys x : List K)
    (w : Option (List K)) (l : Line K) (h : reliabilityCurve fn α true ys x w = .ok l) :
    0 < l.xs.length ∧ l.ys.length = l.xs.length ∧ l.xs.Pairwise (· ≤ ·) := by
  obtain ⟨tx, ty, hf, h1, h2⟩ := plt_reliabilityCurve_inv h
  obtain ⟨yiso, r, hr⟩ := fit_isoFit_exists hf
  have F := fit_isoFit_fitted hf hr
  rw [h1, h2]
  refine ⟨F.tx_pos, ?_, F.tx_sorted⟩
  simp [F.ty_len]

/-- **The curve reproduces the fit.**  `(yiso, r)` — the isotonic regression of the observations
sorted by prediction — exists, and linear interpolation of the plotted points at the prediction
`x[k]` of any training row `k` returns the fitted value `yiso[p]` at the position `p` that row `k`
occupies in the sorted sample. -/
theorem C19_curve_reproduces_fit (fn : Option Functional) (α : K) (ys x : List K)
    (w : Option (List K)) (l : Line K) (h : reliabilityCurve fn α false ys x w = .ok l) :
    ∃ yiso r, isoReg fn α true ((fit_sorted true x ys w).map (·.y))
        (w.map (fun _ => (fit_sorted true x ys w).map (·.w))) = .ok (yiso, r) ∧
      MonoDir true yiso ∧
      ∀ k, k < x.length → ∃ p, p < yiso.length ∧
        (fit_sorted true x ys w)[p]? = (fit_rows x ys w)[k]? ∧
        interp l.xs l.ys x[k]! = yiso[p]! := by
  have hf := C19_curve_is_fit fn α ys x w l h
  obtain ⟨yiso, r, hr⟩ := fit_isoFit_exists hf
  refine ⟨yiso, r, hr, (fit_isoFit_fitted hf hr).mono, ?_⟩
  intro k hk
  obtain ⟨p, hp, hrow, _, hi⟩ := fit_isoFit_train_orig hf hr k hk
  exact ⟨p, hp, hrow, hi⟩

/-- **The curve spans the predictions.**  The first plotted `x` is the smallest and the last plotted
`x` the largest prediction of the column (both are predictions, every prediction lies between
them).  Holds for both variants (they share the `x` data).  Covers the case in which the last
sorted position is not itself a threshold: the final block is then a single tie group in `x`. -/
theorem C19_curve_spans_predictions (fn : Option Functional) (α : K) (bias : Bool) (ys x : List K)
    (w : Option (List K)) (l : Line K) (h : reliabilityCurve fn α bias ys x w = .ok l) :
    l.xs[0]! ∈ x ∧ l.xs[l.xs.length - 1]! ∈ x ∧
      ∀ v ∈ x, l.xs[0]! ≤ v ∧ v ≤ l.xs[l.xs.length - 1]! := by
  obtain ⟨tx, ty, hf, h1, _⟩ := plt_reliabilityCurve_inv h
  rw [h1]
  obtain ⟨hX, hw, _⟩ := fit_isoFit_inv hf
  obtain ⟨yiso, r, hr⟩ := fit_isoFit_exists hf
  have F := fit_isoFit_fitted hf hr
  have hperm := plt_sorted_x_perm true hX hw
  have hn : 0 < yiso.length := List.length_pos_iff.mpr F.ne
  have hlen := F.len
  rw [(plt_first F).1, (plt_last F).1]
  refine ⟨hperm.mem_iff.mp (fit_get!_mem _ _ (by omega)),
    hperm.mem_iff.mp (fit_get!_mem _ _ (by omega)), ?_⟩
  intro v hv
  obtain ⟨i, hi, rfl⟩ := fit_mem_get! (hperm.mem_iff.mpr hv)
  exact ⟨fit_sorted_get! F.sorted (Nat.zero_le _) hi,
    fit_sorted_get! F.sorted (by omega) (by omega)⟩

/-- **The bias curve reproduces prediction minus fit**: interpolating the points of the bias
variant at the prediction `x[k]` of any training row gives `x[k]` minus that row's fitted value. -/
theorem C19_bias_curve_reproduces (fn : Option Functional) (α : K) (ys x : List K)
    (w : Option (List K)) (l : Line K) (h : reliabilityCurve fn α true ys x w = .ok l) :
    ∃ yiso r, isoReg fn α true ((fit_sorted true x ys w).map (·.y))
        (w.map (fun _ => (fit_sorted true x ys w).map (·.w))) = .ok (yiso, r) ∧
      ∀ k, k < x.length → ∃ p, p < yiso.length ∧
        (fit_sorted true x ys w)[p]? = (fit_rows x ys w)[k]? ∧
        interp l.xs l.ys x[k]! = x[k]! - yiso[p]! := by
  have hspan := C19_curve_spans_predictions fn α true ys x w l h
  obtain ⟨tx, ty, hf, h1, h2⟩ := plt_reliabilityCurve_inv h
  obtain ⟨yiso, r, hr⟩ := fit_isoFit_exists hf
  have F := fit_isoFit_fitted hf hr
  refine ⟨yiso, r, hr, ?_⟩
  intro k hk
  obtain ⟨p, hp, hrow, _, hi⟩ := fit_isoFit_train_orig hf hr k hk
  refine ⟨p, hp, hrow, ?_⟩
  obtain ⟨hlo, hhi⟩ := hspan.2.2 x[k]! (fit_get!_mem x k hk)
  rw [h1] at hlo hhi
  rw [h1, h2]
  simp only [if_true]
  rw [plt_interp_sub tx ty x[k]! F.tx_pos F.ty_len hlo hhi, hi]

/-- the end points of the plain curve carry the extreme fitted values: every plotted `y` (and every
interpolated value, by `C11_fit_constant_beyond_range`) lies between the first and the last -/
theorem C19_curve_end_values (fn : Option Functional) (α : K) (ys x : List K)
    (w : Option (List K)) (l : Line K) (h : reliabilityCurve fn α false ys x w = .ok l) :
    ∀ v ∈ l.ys, l.ys[0]! ≤ v ∧ v ≤ l.ys[l.ys.length - 1]! := by
  obtain ⟨hp, hlen, _, hy⟩ := C19_curve_monotone fn α ys x w l h
  intro v hv
  obtain ⟨i, hi, rfl⟩ := fit_mem_get! hv
  exact ⟨fit_sorted_get! hy (Nat.zero_le _) hi, fit_sorted_get! hy (by omega) (by omega)⟩

/-! ## Murphy curves -/

/-- the explicit formula of the average: arithmetic mean without weights, `Σ sᵢwᵢ / Σ wᵢ` with
weights (which must have the right length and a non-zero sum) -/
theorem C19_average_formula (s : List K) (v : K) :
    (averageK s none = .ok v ↔ s ≠ [] ∧ v = s.sum / (s.length : K)) ∧
    (∀ wl, averageK s (some wl) = .ok v ↔
      wl.length = s.length ∧ wl.sum ≠ 0 ∧ v = (List.zipWith (· * ·) s wl).sum / wl.sum) := by
  refine ⟨⟨plt_averageK_none, ?_⟩, fun wl => ⟨plt_averageK_some, ?_⟩⟩
  · rintro ⟨h1, rfl⟩
    exact plt_averageK_none_ok h1
  · rintro ⟨h1, h2, rfl⟩
    exact plt_averageK_some_ok h1 h2

/-- **A Murphy curve is the average elementary score at the requested thresholds**: the `x` data
are the thresholds, and the `i`-th `y` value is the (weighted) average of the per-observation
elementary scores at threshold `etas[i]`. -/
theorem C19_murphy_is_average_score (fn : Option Functional) (α : K) (etas ys x : List K)
    (w : Option (List K)) (l : Line K) (h : murphyCurve fn α etas ys x w = .ok l) :
    l.xs = etas ∧ l.ys.length = etas.length ∧
      ∀ i (hi : i < etas.length) (hl : i < l.ys.length),
        ∃ s, elemArr false fn α etas[i] ys x = .ok s ∧ averageK s w = .ok l.ys[i] := by
  obtain ⟨h1, h2⟩ := plt_murphyCurve_inv h
  refine ⟨h1, plt_mapM_length h2, ?_⟩
  intro i hi hl
  exact plt_bind_ok (plt_mapM_get h2 i hi hl)

/-- a successful Murphy curve with at least one threshold certifies its inputs: equal lengths,
a non-empty sample, a level in `(0,1)` and a known functional; and then the score array at every
threshold is the list of closed forms `elemVal` (C15) -/
theorem C19_murphy_success (fn : Option Functional) (α : K) (etas ys x : List K)
    (w : Option (List K)) (l : Line K) (h : murphyCurve fn α etas ys x w = .ok l)
    (hne : etas ≠ []) :
    ys.length = x.length ∧ ys ≠ [] ∧ 0 < α ∧ α < 1 ∧ ∃ f, fn = some f ∧
      ∀ η, elemArr false fn α η ys x = .ok ((ys.zip x).map fun p => elemVal f α η p.1 p.2) := by
  obtain ⟨_, hlen, hall⟩ := C19_murphy_is_average_score fn α etas ys x w l h
  have h0 : 0 < etas.length := List.length_pos_iff.mpr hne
  obtain ⟨s, hs, ha⟩ := hall 0 h0 (by omega)
  have hl := (plt_elemArr_inv hs).1
  have hys : ys ≠ [] := by
    rintro rfl
    have : x = [] := List.eq_nil_of_length_eq_zero hl.symm
    subst this
    have : s = [] := by
      have := (plt_elemArr_inv hs).2
      exact (Except.ok.inj this).symm
    subst this
    exact plt_averageK_nil w _ ha
  obtain ⟨hα0, hα1, f, rfl⟩ := plt_elemArr_valid hs hys
  exact ⟨hl, hys, hα0, hα1, f, rfl, fun η => elemArr_ok f α η hα0 hα1 ys x hl⟩

/-- **Non-negative.**  With non-negative weights (or none) every value of a successful Murphy
curve is `≥ 0`.  Validity of the level, a known functional, positive total weight and a non-empty
sample need not be assumed: they follow from success (`C19_murphy_success`,
`C19_average_formula`). -/
theorem C19_murphy_nonneg (fn : Option Functional) (α : K) (etas ys x : List K)
    (w : Option (List K)) (l : Line K) (h : murphyCurve fn α etas ys x w = .ok l)
    (hw : ∀ wl, w = some wl → ∀ u ∈ wl, 0 ≤ u) : ∀ v ∈ l.ys, 0 ≤ v := by
  obtain ⟨_, h2⟩ := plt_murphyCurve_inv h
  intro v hv
  obtain ⟨η, _, hη⟩ := plt_mapM_mem h2 hv
  obtain ⟨s, hs, ha⟩ := plt_bind_ok hη
  exact plt_averageK_nonneg ha (plt_elemArr_nonneg hs) hw

/-- **Zero for a perfect forecast**: if the predictions equal the observations every value of the
curve is `0` (any weights). -/
theorem C19_murphy_zero_for_perfect (fn : Option Functional) (α : K) (etas ys : List K)
    (w : Option (List K)) (l : Line K) (h : murphyCurve fn α etas ys ys w = .ok l) :
    ∀ v ∈ l.ys, v = 0 := by
  obtain ⟨_, h2⟩ := plt_murphyCurve_inv h
  intro v hv
  obtain ⟨η, _, hη⟩ := plt_mapM_mem h2 hv
  obtain ⟨s, hs, ha⟩ := plt_bind_ok hη
  exact plt_averageK_zero ha (plt_elemArr_self_zero hs)

/-- … and that curve exists: valid level, known functional, non-empty sample, no weights -/
theorem C19_murphy_perfect_ok (f : Functional) (α : K) (hα0 : 0 < α) (hα1 : α < 1)
    (etas ys : List K) (hne : ys ≠ []) :
    murphyCurve (some f) α etas ys ys none = .ok ⟨etas, etas.map fun _ => 0⟩ := by
  unfold murphyCurve
  rw [mapM_except_ok _ (fun _ => (0 : K)) etas]
  · rfl
  · intro η _
    rw [elemArr_ok f α η hα0 hα1 ys ys rfl]
    show averageK _ none = _
    have hne' : ((ys.zip ys).map fun p => elemVal f α η p.1 p.2) ≠ [] := by
      cases ys with
      | nil => exact absurd rfl hne
      | cons a t => simp
    rw [plt_averageK_none_ok hne']
    have hz : ∀ v ∈ ((ys.zip ys).map fun p => elemVal f α η p.1 p.2), v = 0 := by
      intro v hv
      obtain ⟨p, hp, rfl⟩ := List.mem_map.mp hv
      rw [plt_mem_zip_self hp]
      exact elemVal_self f α η p.2
    rw [plt_sum_zero hz, zero_div]

/-! ## Errors -/

/-- * a Murphy curve with at least one threshold, an invalid level or an unknown functional, and a
  sample that is not empty on both sides raises `ValueError` (already the first threshold's score
  array fails); so does a length mismatch between observations and predictions;
* without thresholds the curve is empty, whatever the other arguments;
* a reliability curve raises `ValueError` for a length mismatch of predictions / observations /
  weights. -/
theorem C19_errors (fn : Option Functional) (α η : K) (etas ys x : List K) (w : Option (List K)) :
    ((α ≤ 0 ∨ 1 ≤ α ∨ fn = none) → (ys ≠ [] ∨ x ≠ []) →
      murphyCurve fn α (η :: etas) ys x w = .error .valueError) ∧
    (ys.length ≠ x.length → murphyCurve fn α (η :: etas) ys x w = .error .valueError) ∧
    murphyCurve fn α [] ys x w = .ok ⟨[], []⟩ ∧
    (∀ bias, (x.length ≠ ys.length ∨ ∃ w', w = some w' ∧ w'.length ≠ ys.length) →
      reliabilityCurve fn α bias ys x w = .error .valueError) :=
  ⟨fun h hne => plt_murphyCurve_error (plt_elemArr_error η ys x h hne),
    fun h => plt_murphyCurve_error (elemArr_length_error false fn α η ys x h),
    plt_murphyCurve_nil fn α ys x w,
    fun bias h => plt_reliabilityCurve_error bias (plt_isoFit_length_error fn α true x ys w h)⟩

/-- The side condition `ys ≠ [] ∨ x ≠ []` cannot be dropped: on an empty sample no elementary
score is ever evaluated, so an invalid level goes unnoticed and the average raises
`ZeroDivisionError` instead. -/
theorem C19_errors_empty_sample :
    murphyCurve (some .mean) (2 : ℚ) [0] [] [] none = .error .zeroDivision ∧
    murphyCurve none (1 / 2 : ℚ) [0] [] [] (some []) = .error .zeroDivision := by
  constructor <;> rfl

/-! ## Non-vacuity and concrete values -/

/-- `C19_diagonal`: two columns -/
example : diagonal ([[3, 1, 2], [5, 0]] : List (List ℚ)) = some ⟨[0, 5], [0, 5]⟩ := by
  norm_num [diagonal, predRange]

example : ([[3, 1, 2], [5, 0]] : List (List ℚ)).flatten ≠ [] := by simp

example : diagonal ([[], []] : List (List ℚ)) = none := rfl

/-- `C19_average_formula` -/
example : averageK ([1, 2, 6] : List ℚ) none = .ok 3 ∧
    averageK ([1, 2, 6] : List ℚ) (some [1, 1, 2]) = .ok (15 / 4) ∧
    averageK ([1, 2, 6] : List ℚ) (some [1, -1, 0]) = .error .zeroDivision := by
  refine ⟨?_, ?_, ?_⟩
  · rw [plt_averageK_none_ok (by simp)]; norm_num
  · rw [plt_averageK_some_ok (by simp) (by norm_num)]; norm_num
  · norm_num [averageK]; rfl

/-- `C19_murphy_*`: a successful curve with two thresholds (mean functional, level irrelevant but
checked): scores at `η = 1` are `[0, 0]`, at `η = 2` they are `[(1 - 0)·(2 - 1), 0]` -/
example : murphyCurve (some .mean) (1 / 2 : ℚ) [1, 2] [1, 3] [2, 3] none = .ok ⟨[1, 2], [0, 1 / 2]⟩ := by
  norm_num [murphyCurve, elemArr, elemScore, identFn, leInd, averageK, bind, Except.bind, pure,
    Except.pure]
  rfl

/-- `C19_murphy_nonneg`: the weight hypothesis is satisfiable with a zero weight -/
example : ∀ wl, (some [0, 2] : Option (List ℚ)) = some wl → ∀ u ∈ wl, 0 ≤ u := by
  intro wl h u hu
  cases h
  simp at hu
  rcases hu with rfl | rfl <;> norm_num

end MD.Props

/-
Sanity checks at `Rat` (`#eval`, not part of the proofs; `gpava` is well-founded recursion, so these
cannot be `decide`d):
  diagonal [[3,1,2],[5,0]] = some ([0, 5], [0, 5])
  reliabilityCurve (some .mean) 0 false [1,3,2,4,5,6] [3,1,2,2,5,4] none
    = .ok ([1, 3, 4, 5], [5/2, 5/2, 11/2, 11/2])               -- = isoFit … (C11's first sanity check)
  reliabilityCurve (some .mean) 0 true  [1,3,2,4,5,6] [3,1,2,2,5,4] none
    = .ok ([1, 3, 4, 5], [-3/2, 1/2, -3/2, -1/2])              -- x - fit; not monotone
  reliabilityCurve (some .mean) 0 false [1,2,3,4,4,4] [1,1,2,3,3,3] none
    = .ok ([1, 1, 2, 3], [3/2, 3/2, 3, 4])     -- last block tied in X: position n-1 not selected,
                                               -- last plotted x is still the largest prediction
  reliabilityLines (some .mean) 0 false [1,3,2,4,5,6] [[3,1,2,2,5,4],[1,2,3,4,5,6]] none
    = .ok [([1,3,4,5], [5/2,5/2,11/2,11/2]), ([1,2,3,4,5,6], [1,5/2,5/2,4,5,6])]
  reliabilityCurve (some .mean) 0 false [1,3,2] [3,1] none = .error valueError
  murphyCurve (some .mean) (1/2) [1,2] [1,3] [2,3] none = .ok ([1, 2], [0, 1/2])
  murphyCurve (some .quantile) (1/4) [0,1,2,3] [1,3,2] [2,2,2] (some [1,2,1])
    = .ok ([0, 1, 2, 3], [0, 0, 3/16, 1/8])
  murphyCurve (some .quantile) (1/4) [0,1,2,3] [1,3,2] [1,3,2] (some [1,2,1])
    = .ok ([0, 1, 2, 3], [0, 0, 0, 0])                          -- perfect forecast
  murphyCurve (some .mean) 2 [0] [1] [1] none = .error valueError     -- invalid level
  murphyCurve (some .mean) 2 [0] []  []  none = .error zeroDivision   -- … unnoticed on an empty sample
  murphyCurve (some .mean) 2 []  [1] [1,2] none = .ok ([], [])        -- no thresholds: nothing is checked
  murphyLines (some .mean) (1/2) [1,2] [1,3] [[2,3],[1,3]] none
    = .ok [([1, 2], [0, 1/2]), ([1, 2], [0, 0])]
-/

/-
`#print axioms` (observed with `lake env lean MD/Props/C19.lean`):
'MD.Props.C19_diagonal' depends on axioms: [propext, Quot.sound]
'MD.Props.C19_diagonal_none' depends on axioms: [propext, Quot.sound]
'MD.Props.C19_per_column' depends on axioms: [propext, Quot.sound]
'MD.Props.C19_per_column_murphy' depends on axioms: [propext, Quot.sound]
'MD.Props.C19_per_column_iff' depends on axioms: [propext, Quot.sound]
'MD.Props.C19_curve_is_fit' depends on axioms: [propext, Quot.sound]
'MD.Props.C19_curve_of_fit' depends on axioms: [propext, Quot.sound]
'MD.Props.C19_bias_variant' depends on axioms: [propext, Quot.sound]
'MD.Props.C19_bias_variant_pointwise' depends on axioms: [propext, Classical.choice, Quot.sound]
'MD.Props.C19_curve_monotone' depends on axioms: [propext, Classical.choice, Quot.sound]
'MD.Props.C19_bias_curve_wellformed' depends on axioms: [propext, Classical.choice, Quot.sound]
'MD.Props.C19_curve_reproduces_fit' depends on axioms: [propext, Classical.choice, Quot.sound]
'MD.Props.C19_curve_spans_predictions' depends on axioms: [propext, Classical.choice, Quot.sound]
'MD.Props.C19_bias_curve_reproduces' depends on axioms: [propext, Classical.choice, Quot.sound]
'MD.Props.C19_curve_end_values' depends on axioms: [propext, Classical.choice, Quot.sound]
'MD.Props.C19_average_formula' depends on axioms: [propext, Classical.choice, Quot.sound]
'MD.Props.C19_murphy_is_average_score' depends on axioms: [propext, Quot.sound]
'MD.Props.C19_murphy_success' depends on axioms: [propext, Classical.choice, Quot.sound]
'MD.Props.C19_murphy_nonneg' depends on axioms: [propext, Classical.choice, Quot.sound]
'MD.Props.C19_murphy_zero_for_perfect' depends on axioms: [propext, Classical.choice, Quot.sound]
'MD.Props.C19_murphy_perfect_ok' depends on axioms: [propext, Classical.choice, Quot.sound]
'MD.Props.C19_errors' depends on axioms: [propext, Classical.choice, Quot.sound]
'MD.Props.C19_errors_empty_sample' depends on axioms: [propext, Classical.choice, Quot.sound]
-/
