import MD.Model.Config
/-! C18 — configuration contexts restore the previous configuration on every exit path. -/
namespace MD.Cfg

/-- the invariant that makes the `finally` restore total: if the backend is plotly then plotly is
importable (the only way to get there is a successful `set_config("plotly")`) -/
def Reachable (avail : Bool) (s : Backend) : Prop := s = .plotly → avail = true

theorem setCfg_reach (avail : Bool) (s : Backend) (v : Val) (h : Reachable avail s) :
    Reachable avail (setCfg avail s v).1 := by
  cases v <;> simp [setCfg, Reachable] at * <;> try exact h
  · split <;> simp_all

theorem exec_reach (avail : Bool) (p : Prog) (s : Backend) (h : Reachable avail s) :
    Reachable avail (exec avail p s).1 := by
  induction p generalizing s with
  | skip => simpa [exec]
  | seq a b iha ihb =>
    simp only [exec]
    have := iha s h
    split
    · rename_i s' t heq; rw [heq] at this; exact ihb s' this
    · exact this
  | set v => exact setCfg_reach avail s v h
  | getMutate => simpa [exec]
  | raise => simpa [exec]
  | raiseBase => simpa [exec]
  | block v body ih =>
    simp only [exec]
    split
    · rename_i s1 heq
      have h1 : Reachable avail s1 := by have := setCfg_reach avail s v h; rw [heq] at this; exact this
      exact setCfg_reach avail _ _ (ih s1 h1)
    · rename_i s1 o heq
      have := setCfg_reach avail s v h; rw [heq] at this; exact this
  | «catch» body ih => simp only [exec]; exact ih s h
  | catchAll body ih => simp only [exec]; exact ih s h

/-- **C18_block_restores**: whatever the body does (nested blocks, set_config calls, exceptions) and
however it is left, a `config_context` block leaves the configuration as it found it; if entering
the block fails, the configuration is unchanged too. For both values of plotly's availability. -/
theorem C18_block_restores (avail : Bool) (v : Val) (body : Prog) (s : Backend)
    (h : Reachable avail s) : (exec avail (.block v body) s).1 = s := by
  simp only [exec]
  split
  · rename_i s1 heq
    cases s with
    | mpl => simp [setCfg, toVal]
    | plotly =>
      have : avail = true := h rfl
      simp [setCfg, toVal, this]
  · rename_i s1 o hno heq
    cases v
    · simp only [setCfg, Prod.mk.injEq] at heq; exact absurd heq.2.symm hno
    · simp only [setCfg, Prod.mk.injEq] at heq; exact absurd heq.2.symm hno
    · simp only [setCfg] at heq
      split at heq
      · simp only [Prod.mk.injEq] at heq; exact absurd heq.2.symm hno
      · simp only [Prod.mk.injEq] at heq; exact heq.1.symm
    · simp only [setCfg, Prod.mk.injEq] at heq; exact heq.1.symm

/-- the same for the observation trace: the last observation of a block is the state at entry -/
theorem C18_block_trace_last (avail : Bool) (v : Val) (body : Prog) (s : Backend)
    (h : Reachable avail s) : (exec avail (.block v body) s).2.2.getLast? = some s := by
  have hr := C18_block_restores avail v body s h
  simp only [exec] at hr ⊢
  split
  · rename_i s1 heq
    simp only [heq] at hr
    simp only [List.singleton_append, ← List.cons_append, List.getLast?_append, List.getLast?_singleton,
      Option.some_or]
    simpa using hr
  · rename_i s1 o hno heq
    simp only [heq] at hr
    simpa using hr

/-- **C18_nested**: along any history, running a whole program built from blocks only (any nesting,
any bodies) returns to the start state: every block is transparent to what follows it. -/
inductive OnlyBlocks : Prog → Prop
  | skip : OnlyBlocks .skip
  | seq {a b} : OnlyBlocks a → OnlyBlocks b → OnlyBlocks (.seq a b)
  | block (v body) : OnlyBlocks (.block v body)
  | catch {b} : OnlyBlocks b → OnlyBlocks (.catch b)
  | catchAll {b} : OnlyBlocks b → OnlyBlocks (.catchAll b)

theorem C18_nested (avail : Bool) (p : Prog) (hp : OnlyBlocks p) (s : Backend)
    (h : Reachable avail s) : (exec avail p s).1 = s := by
  induction hp generalizing s with
  | skip => simp [exec]
  | seq ha hb iha ihb =>
    simp only [exec]
    have h1 := iha s h
    split
    · rename_i s' t heq
      rw [heq] at h1; simp only at h1; subst h1
      exact ihb s' h
    · exact h1
  | block v body => exact C18_block_restores avail v body s h
  | «catch» hb ih => simp only [exec]; exact ih s h
  | catchAll hb ih => simp only [exec]; exact ih s h

/-- **C18_get_is_snapshot**: reading the configuration and mutating the returned dict changes nothing -/
theorem C18_get_is_snapshot (avail : Bool) (s : Backend) :
    (exec avail .getMutate s).1 = s ∧ (exec avail .getMutate s).2.1 = .ok := by
  simp [exec]

/-- **C18_invalid_rejected_unchanged**: an invalid backend name raises `ValueError` and leaves the
configuration untouched — as a plain call and as a block entry (whose body then does not run) -/
theorem C18_invalid_rejected_unchanged (avail : Bool) (s : Backend) (body : Prog) :
    exec avail (.set .bad) s = (s, .valueError, [s]) ∧
    exec avail (.block .bad body) s = (s, .valueError, [s]) := by
  simp [exec, setCfg]

/-- `None` keeps the current value; a valid name becomes the value; plotly needs the package -/
theorem C18_set_semantics (avail : Bool) (s : Backend) :
    (setCfg avail s .none).1 = s ∧ (setCfg avail s .mpl).1 = .mpl ∧
    (setCfg avail s .plotly) = (if avail then (.plotly, .ok) else (s, .moduleNotFound)) := by
  simp [setCfg]

/-- every reachable state satisfies the invariant: start state is matplotlib -/
theorem C18_reachable_from_default (avail : Bool) (p : Prog) :
    Reachable avail (exec avail p .mpl).1 :=
  exec_reach avail p .mpl (by simp [Reachable])

/-- a block left by a `BaseException` that is not an `Exception` (KeyboardInterrupt, SystemExit) restores
too, and the exception keeps propagating through an `except Exception` handler -/
example : exec true (.catch (.block .plotly (.seq (.set .mpl) .raiseBase))) .mpl
    = (.mpl, .baseExc, [.plotly, .mpl, .mpl, .mpl, .mpl]) := by decide

/-- non-vacuity: a block that switches to plotly (when available), changes it again inside and is
left by an exception ends where it started -/
example : (exec true (.block .plotly (.seq (.set .mpl) (.seq (.set .plotly) .raise))) .mpl).1 = .mpl
    ∧ (exec true (.block .plotly (.seq (.set .mpl) (.seq (.set .plotly) .raise))) .mpl).2.1 = .userExc := by
  decide

end MD.Cfg
