import MD.Proofs.IsoRegLemmas

/-! # C01 — `isotonic_regression(y, weights, increasing, functional="mean")`

Property theorems about the top-level model function `isoReg (some .mean)`, for both directions.
The hypotheses `hne hlen hpos` are exactly the guards the code enforces (otherwise it raises, see
`isoReg_mean_length_error`, `isoReg_mean_weight_error`, `isoReg_mean_empty`); the level `α` is
ignored.  Helper lemmas live in `MD/Proofs/IsoRegLemmas.lean`.

The theorems live in the namespace `MD.Props` because `MD.C01_total` and `MD.C01_maxmin` already
name the statements about the inner function `gpava wmean`. -/

set_option linter.unusedSectionVars false

namespace MD.Props
variable {K : Type} [Field K] [LinearOrder K] [IsStrictOrderedRing K]

/-- the call succeeds and returns a sequence of the length of `y` -/
theorem C01_ok (α : K) (inc : Bool) (y w : List K) (hne : y ≠ []) (hlen : w.length = y.length)
    (hpos : ∀ v ∈ w, 0 < v) :
    ∃ x r, isoReg (some .mean) α inc y (some w) = .ok (x, r) ∧ x.length = y.length := by
  refine ⟨_, _, isoReg_mean_some α inc y w hne hlen hpos, ?_⟩
  rw [orient_length, pavaMean_eq_gpava _ (orient_zip_snd_pos inc hpos),
    C01_expand_length _ (orient_zip_snd_pos inc hpos), orient_length, zip_length_of_eq hlen]

/-- every successful result has the length of `y` -/
theorem C01_length (α : K) (inc : Bool) (y w : List K) (hne : y ≠ []) (hlen : w.length = y.length)
    (hpos : ∀ v ∈ w, 0 < v) (x : List K) (r : List Nat)
    (h : isoReg (some .mean) α inc y (some w) = .ok (x, r)) : x.length = y.length := by
  obtain ⟨x', r', h', hl⟩ := C01_ok α inc y w hne hlen hpos
  rw [h] at h'
  rw [(Prod.mk.inj (Except.ok.inj h')).1]
  exact hl

/-- the fit is monotone in the requested direction -/
theorem C01_monotone (α : K) (inc : Bool) (y w : List K) (hne : y ≠ [])
    (hlen : w.length = y.length) (hpos : ∀ v ∈ w, 0 < v) (x : List K) (r : List Nat)
    (h : isoReg (some .mean) α inc y (some w) = .ok (x, r)) : MonoDir inc x := by
  rw [isoReg_mean_x hne hlen hpos h, monoDir_orient]
  exact C01_monotone_inc _ (orient_zip_snd_pos inc hpos)

/-- the fit minimises the weighted squared error among all sequences of the same length that are
monotone in the requested direction -/
theorem C01_optimal (α : K) (inc : Bool) (y w : List K) (hne : y ≠ [])
    (hlen : w.length = y.length) (hpos : ∀ v ∈ w, 0 < v) (x : List K) (r : List Nat)
    (h : isoReg (some .mean) α inc y (some w) = .ok (x, r))
    (zs : List K) (hz : zs.length = y.length) (hm : MonoDir inc zs) :
    total sqErr.S (y.zip w) x ≤ total sqErr.S (y.zip w) zs := by
  have hp := orient_zip_snd_pos inc (y := y) hpos
  rw [isoReg_mean_x hne hlen hpos h]
  refine orient_optimal sqErr.S inc (y.zip w) _ ?_ ?_ zs (hz.trans (zip_length_of_eq hlen).symm) hm
  · rw [C01_expand_length _ hp, orient_length]
  · intro zs' hl hs
    exact C01_optimal_inc _ hp zs' hl hs

/-- … and it is the only minimiser -/
theorem C01_unique (α : K) (inc : Bool) (y w : List K) (hne : y ≠ [])
    (hlen : w.length = y.length) (hpos : ∀ v ∈ w, 0 < v) (x : List K) (r : List Nat)
    (h : isoReg (some .mean) α inc y (some w) = .ok (x, r))
    (zs : List K) (hz : zs.length = y.length) (hm : MonoDir inc zs)
    (hopt : total sqErr.S (y.zip w) zs ≤ total sqErr.S (y.zip w) x) : zs = x := by
  have hp := orient_zip_snd_pos inc (y := y) hpos
  rw [isoReg_mean_x hne hlen hpos h] at hopt ⊢
  refine orient_unique sqErr.S inc (y.zip w) _ ?_ ?_ zs (hz.trans (zip_length_of_eq hlen).symm) hm
    hopt
  · rw [C01_expand_length _ hp, orient_length]
  · intro zs' hl hs ho
    exact C01_unique_inc _ hp zs' hl hs ho

/-- the weighted total is preserved: `Σ wᵢ xᵢ = Σ wᵢ yᵢ` -/
theorem C01_total (α : K) (inc : Bool) (y w : List K) (hne : y ≠ [])
    (hlen : w.length = y.length) (hpos : ∀ v ∈ w, 0 < v) (x : List K) (r : List Nat)
    (h : isoReg (some .mean) α inc y (some w) = .ok (x, r)) :
    (List.zipWith (· * ·) w x).sum = (List.zipWith (· * ·) w y).sum := by
  have hxl := C01_length α inc y w hne hlen hpos x r h
  have hx := isoReg_mean_x hne hlen hpos h
  rw [orient_zip inc y w hlen.symm] at hx
  have hpos' : ∀ v ∈ orient inc w, 0 < v := fun v hv => hpos v ((mem_orient inc w v).mp hv)
  have ht := C01_total_zip (orient inc y) (orient inc w) (by simp [hlen]) hpos'
  rw [(orient_eq_iff inc _ x).mp hx.symm] at ht
  rw [sum_zipWith_orient inc _ w x (hlen.trans hxl.symm),
    sum_zipWith_orient inc _ w y hlen] at ht
  exact ht

/-- increasing direction: `xᵢ = max_{a ≤ i} min_{b ≥ i} wmean(y[a..b])`; the maximum is attained
(first conjunct: some `a` whose minimum is ≥ `xᵢ`) and bounded (second conjunct: every `a` has a
`b` with mean ≤ `xᵢ`) -/
theorem C01_maxmin (α : K) (y w : List K) (hne : y ≠ [])
    (hlen : w.length = y.length) (hpos : ∀ v ∈ w, 0 < v) (x : List K) (r : List Nat)
    (h : isoReg (some .mean) α true y (some w) = .ok (x, r))
    (i : Nat) (hi : i < y.length) (hx : i < x.length) :
    (∃ a, a ≤ i ∧ ∀ b, i ≤ b → b < y.length →
        x[i] ≤ wmean (((y.zip w).take (b + 1)).drop a)) ∧
    (∀ a, a ≤ i → ∃ b, i ≤ b ∧ b < y.length ∧
        wmean (((y.zip w).take (b + 1)).drop a) ≤ x[i]) := by
  have hx' := isoReg_mean_x hne hlen hpos h
  simp only [orient_true] at hx'
  subst hx'
  have hl := zip_length_of_eq hlen
  have := MD.C01_maxmin (y.zip w) (zip_snd_pos hpos) i (by rw [hl]; exact hi) hx
  rw [hl] at this
  exact this

/-- the decreasing fit is the mirror image of the increasing fit of the mirrored data -/
theorem C01_dec_mirror (α : K) (y w : List K) (hne : y ≠ [])
    (hlen : w.length = y.length) (hpos : ∀ v ∈ w, 0 < v) (x : List K) (r : List Nat)
    (h : isoReg (some .mean) α false y (some w) = .ok (x, r)) :
    ∃ r', isoReg (some .mean) α true y.reverse (some w.reverse) = .ok (x.reverse, r') := by
  rw [isoReg_mean_some α false y w hne hlen hpos] at h
  have hx := (Prod.mk.inj (Except.ok.inj h)).1
  rw [isoReg_mean_some α true y.reverse w.reverse (by simpa using hne) (by simp [hlen])
    (fun v hv => hpos v (List.mem_reverse.mp hv))]
  refine ⟨_, congrArg Except.ok (Prod.ext ?_ rfl)⟩
  rw [← hx]
  simp only [orient_true, orient_false, List.reverse_reverse]
  have e := orient_zip false y w hlen.symm
  simp only [orient_false] at e
  rw [e]

/-- decreasing direction: the max-min formula holds for the mirrored fit w.r.t. the mirrored
data -/
theorem C01_maxmin_dec (α : K) (y w : List K) (hne : y ≠ [])
    (hlen : w.length = y.length) (hpos : ∀ v ∈ w, 0 < v) (x : List K) (r : List Nat)
    (h : isoReg (some .mean) α false y (some w) = .ok (x, r))
    (i : Nat) (hi : i < y.length) (hx : i < x.reverse.length) :
    (∃ a, a ≤ i ∧ ∀ b, i ≤ b → b < y.length →
        x.reverse[i] ≤ wmean (((y.reverse.zip w.reverse).take (b + 1)).drop a)) ∧
    (∀ a, a ≤ i → ∃ b, i ≤ b ∧ b < y.length ∧
        wmean (((y.reverse.zip w.reverse).take (b + 1)).drop a) ≤ x.reverse[i]) := by
  obtain ⟨r', h'⟩ := C01_dec_mirror α y w hne hlen hpos x r h
  have := C01_maxmin α y.reverse w.reverse (by simpa using hne) (by simp [hlen])
    (fun v hv => hpos v (List.mem_reverse.mp hv)) x.reverse r' h' i (by simpa using hi) hx
  simpa only [List.length_reverse] using this

/-- `weights=None` is the same as unit weights, on every input (errors included) -/
theorem C01_unweighted (α : K) (inc : Bool) (y : List K) :
    isoReg (some .mean) α inc y none
      = isoReg (some .mean) α inc y (some (y.map fun _ => (1 : K))) :=
  isoReg_weights_none _ (Or.inl rfl) α inc y

/-- the code's `pava` (running sums) computes the generalised PAVA with the weighted mean -/
theorem C01_pava_eq_gpava (ys : List (Obs K)) (hpos : ∀ o ∈ ys, 0 < o.2) :
    pavaMean ys = gpava wmean ys :=
  pavaMean_eq_gpava ys hpos

/-- every block of the fit carries the weighted mean of its observations (both directions: the
blocks are those of the oriented data) -/
theorem C01_block_mean (inc : Bool) (y w : List K) (hpos : ∀ v ∈ w, 0 < v) :
    ∀ b ∈ pavaMean (orient inc (y.zip w)),
      b.val = wmean b.data ∧ b.data ≠ [] ∧ ∀ o ∈ b.data, 0 < o.2 := by
  rw [pavaMean_eq_gpava _ (orient_zip_snd_pos inc hpos)]
  exact MD.C01_block_mean _ (orient_zip_snd_pos inc hpos)

/-- the hypotheses are satisfiable on a non-trivial input (a violation and unequal weights) -/
example : ([3, 1, 2] : List ℚ) ≠ [] ∧ ([2, 1, 3] : List ℚ).length = ([3, 1, 2] : List ℚ).length ∧
    ∀ v ∈ ([2, 1, 3] : List ℚ), 0 < v := by
  refine ⟨by simp, rfl, ?_⟩
  intro v hv
  simp at hv
  rcases hv with rfl | rfl | rfl <;> norm_num

/-- … and so is the conclusion of `C01_ok`, in both directions -/
example (inc : Bool) : ∃ x r, isoReg (some .mean) (0 : ℚ) inc [3, 1, 2] (some [2, 1, 3]) = .ok (x, r) ∧
    x.length = 3 :=
  C01_ok 0 inc [3, 1, 2] [2, 1, 3] (by simp) rfl (by
    intro v hv
    simp at hv
    rcases hv with rfl | rfl | rfl <;> norm_num)

/-- a competitor for `C01_optimal` / `C01_unique` in the decreasing direction -/
example : ([3, 2, 2] : List ℚ).length = ([3, 1, 2] : List ℚ).length ∧
    MonoDir false ([3, 2, 2] : List ℚ) := by
  refine ⟨rfl, ?_⟩
  norm_num [MonoDir]

end MD.Props

/-
`#print axioms` (observed with `lake env lean MD/Props/C01.lean`):
'MD.Props.C01_ok' depends on axioms: [propext, Classical.choice, Quot.sound]
'MD.Props.C01_length' depends on axioms: [propext, Classical.choice, Quot.sound]
'MD.Props.C01_monotone' depends on axioms: [propext, Classical.choice, Quot.sound]
'MD.Props.C01_optimal' depends on axioms: [propext, Classical.choice, Quot.sound]
'MD.Props.C01_unique' depends on axioms: [propext, Classical.choice, Quot.sound]
'MD.Props.C01_total' depends on axioms: [propext, Classical.choice, Quot.sound]
'MD.Props.C01_maxmin' depends on axioms: [propext, Classical.choice, Quot.sound]
'MD.Props.C01_dec_mirror' depends on axioms: [propext, Quot.sound]
'MD.Props.C01_maxmin_dec' depends on axioms: [propext, Classical.choice, Quot.sound]
'MD.Props.C01_unweighted' depends on axioms: [propext, Classical.choice, Quot.sound]
'MD.Props.C01_pava_eq_gpava' depends on axioms: [propext, Classical.choice, Quot.sound]
'MD.Props.C01_block_mean' depends on axioms: [propext, Classical.choice, Quot.sound]
-/
