import MD.Proofs.GpavaArrLemmas
/-! # C02 / C03 / C12 — the in-place array program `gpava()` *is* the stack model

`MD.Arr.gpavaArr` (`MD/Model/GpavaArr.lean`) follows `_utils/isotonic.py::gpava` line by line: `x` and `r` overwritten
in place, the original `y`, `w` only read, block values recomputed by `fun(y[r[b] : i + 1], w[r[b] : i + 1])`, the two
inner `while` loops and the closing loop that spreads the block values. It computes exactly what the stack model
`gpava T` computes - for every functional `T` (expectile, lower quantile, …) and every non-empty input. -/

set_option linter.unusedSectionVars false

namespace MD.Props
open MD MD.Arr

section Bare
variable {K : Type} [LE K] [DecidableLE K]

/-- **C03_array_program**: fitted values and block index vector of the array program are those of the stack model. -/
theorem C03_array_program (T : List (Obs K) → K) (ys : List (Obs K)) (hne : ys ≠ []) :
    gpavaArr T ys = (expand (gpava T ys), bounds (gpava T ys)) :=
  gpavaArr_eq_gpava T ys hne

theorem C03_array_r_length (T : List (Obs K) → K) (ys : List (Obs K)) (hne : ys ≠ []) :
    (gpavaArr T ys).2.length = (gpava T ys).length + 1 := by
  rw [C03_array_program T ys hne]; exact bounds_length _

end Bare

section Field
variable {K : Type} [Field K] [LinearOrder K] [IsStrictOrderedRing K]

/-- **C03_array_is_isoReg**: `isotonic_regression(y, w, functional="expectile", level=α)` returns what the array
program returns on the direction-ordered data. -/
theorem C03_array_is_isoReg (α : K) (hα0 : 0 < α) (hα1 : α < 1) (inc : Bool) (y w : List K) (hne : y ≠ [])
    (hlen : w.length = y.length) (hpos : ∀ v ∈ w, 0 < v) :
    isoReg (some .expectile) α inc y (some w) =
      .ok (orient inc (gpavaArr (expectile α) (orient inc (y.zip w))).1,
           mirrorR inc (gpavaArr (expectile α) (orient inc (y.zip w))).2) := by
  have hz : orient inc (y.zip w) ≠ [] := by
    have : (y.zip w) ≠ [] := by
      cases y with
      | nil => exact absurd rfl hne
      | cons a y' =>
        cases w with
        | nil => simp at hlen
        | cons b w' => simp
    cases inc <;> simpa [orient] using this
  rw [isoReg_expectile_some α hα0 hα1 inc y w hne hlen hpos, C03_array_program _ _ hz]

/-- **C02_array_lower_stage**: the first stage of the quantile fit (`gpava` with the lower quantile) as the array
program: the blocks whose pinball-optimality `C02_lower_is_optimal` states. -/
theorem C02_array_lower_stage (α : K) (ys : List (Obs K)) (hne : ys ≠ []) :
    gpavaArr (qLower α) ys = (expand (gpava (qLower α) ys), bounds (gpava (qLower α) ys)) :=
  C03_array_program _ ys hne

end Field

end MD.Props
