import MD.Model.Plot
import Mathlib.Data.List.Basic

/-! # C19 (continued) — "a bias plot's points are `compute_bias`'s means"

`biasPoints` / `biasNullPoint` (`MD/Model/Plot.lean`) are the data `plot_bias` hands to matplotlib
for one model: the line joins the non-null rows of that model's `compute_bias` table in table order,
the null group is a separate diamond.  What the rows of the table are is C09 (`groupedTable`,
`C09_group_is_definition`); here: the plot draws exactly those means, each once, in that order. -/

set_option linter.unusedSectionVars false

namespace MD.Props
variable {K : Type} [Zero K]

/-- every drawn point is a row of the table together with that row's `bias_mean` -/
theorem C19_bias_points_are_table_means (rows : List (OutRow K)) :
    ∀ p ∈ biasPoints rows, p.1 ∈ rows ∧ p.1.key.isNull = false ∧
      p.2 = (p.1.stats.headD ⟨0, 0⟩).mean := by
  intro p hp
  simp only [biasPoints, List.mem_map, List.mem_filter] at hp
  obtain ⟨r, ⟨hr, hn⟩, rfl⟩ := hp
  refine ⟨hr, ?_, rfl⟩
  simpa using hn

/-- every non-null row of the table is drawn -/
theorem C19_bias_every_row_drawn (rows : List (OutRow K)) (r : OutRow K) (hr : r ∈ rows)
    (hn : r.key.isNull = false) : (r, (r.stats.headD ⟨0, 0⟩).mean) ∈ biasPoints rows := by
  simp only [biasPoints, List.mem_map, List.mem_filter]
  exact ⟨r, ⟨hr, by simp [hn]⟩, rfl⟩

/-- … once each, in table order: the drawn rows are the table with the null row removed -/
theorem C19_bias_points_order (rows : List (OutRow K)) :
    (biasPoints rows).map Prod.fst = rows.filter (fun r => !r.key.isNull) ∧
    (biasPoints rows).length = (rows.filter (fun r => !r.key.isNull)).length := by
  constructor
  · simp [biasPoints, List.map_map, Function.comp_def]
  · simp [biasPoints]

/-- a table without a null group is drawn completely, and no diamond appears -/
theorem C19_bias_no_null (rows : List (OutRow K)) (h : ∀ r ∈ rows, r.key.isNull = false) :
    (biasPoints rows).map Prod.fst = rows ∧ biasNullPoint rows = none := by
  constructor
  · rw [(C19_bias_points_order rows).1]
    exact List.filter_eq_self.mpr (fun r hr => by simp [h r hr])
  · simp only [biasNullPoint, Option.map_eq_none_iff, List.find?_eq_none]
    intro r hr
    simp [h r hr]

/-- the diamond is drawn at the `bias_mean` of the (first) null row of this model's table -/
theorem C19_bias_null_marker (rows : List (OutRow K)) (v : K) (h : biasNullPoint rows = some v) :
    ∃ r ∈ rows, r.key.isNull = true ∧ v = (r.stats.headD ⟨0, 0⟩).mean := by
  simp only [biasNullPoint, Option.map_eq_some_iff] at h
  obtain ⟨r, hf, rfl⟩ := h
  exact ⟨r, List.mem_of_find?_eq_some hf, by simpa using List.find?_some hf, rfl⟩

end MD.Props
