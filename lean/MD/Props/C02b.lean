import MD.Props.C02
import MD.Proofs.Band

/-! # C02 (continued) — the band of optimal isotonic quantile solutions

"The result lies pointwise between the smallest and the largest optimal solution."

With `obs = y.zip ones` (unit weights; the quantile functional ignores them) and `0 < α < 1`:

* `lowerFit α obs = expand (gpava (qLower α) obs)` — the lower-quantile PAVA fit — is a
  non-decreasing minimiser of the total pinball loss (`C02_lower_is_optimal`) and **every**
  non-decreasing minimiser dominates it pointwise (`C02_lower_is_smallest`);
* `band_upper α obs` — its mirror image: negate and reverse the data, fit the lower
  `(1 − α)`-quantile, negate and reverse back — is a non-decreasing minimiser
  (`C02_upper_is_optimal`) and **every** non-decreasing minimiser is dominated by it
  (`C02_upper_is_largest`);
* the result of `isotonic_regression(…, functional="quantile"/"median")` lies pointwise between the
  two (`C02_result_in_band`, `C02_median_result_in_band`; decreasing direction: after `orient`).

"`zs` is a minimiser" is expressed as `total pinball obs zs ≤ total pinball obs (lowerFit …)`
(the lower fit is optimal, so this says that `zs` is optimal as well).  Proofs:
`MD/Proofs/Band.lean` (lattice step + strict block step via a strict Abel summation). -/

set_option linter.unusedSectionVars false

namespace MD.Props
variable {K : Type} [Field K] [LinearOrder K] [IsStrictOrderedRing K]

/-! ## The two ends of the band are optimal solutions -/

/-- the lower-quantile fit is a non-decreasing sequence of the right length that minimises the
total pinball loss among all such sequences -/
theorem C02_lower_is_optimal (α : K) (hα0 : 0 < α) (hα1 : α < 1) (y : List K) :
    let obs := y.zip (y.map fun _ => (1 : K))
    (expand (gpava (qLower α) obs)).length = y.length ∧
    (expand (gpava (qLower α) obs)).Pairwise (· ≤ ·) ∧
    ∀ zs : List K, zs.length = y.length → zs.Pairwise (· ≤ ·) →
      total (pinball α hα0 hα1).S obs (expand (gpava (qLower α) obs))
        ≤ total (pinball α hα0 hα1).S obs zs := by
  intro obs
  have hl : obs.length = y.length := zip_length_of_eq (ones_length y)
  refine ⟨?_, ?_, ?_⟩
  · rw [← hl]
    exact expand_length (quantFun α hα0 hα1).internal obs (fun _ _ => trivial)
  · exact expand_gpava_sorted (quantFun α hα0 hα1).internal obs (fun _ _ => trivial)
  · intro zs hz hs
    exact C02_lower_optimal_inc α hα0 hα1 obs zs (hl.trans hz.symm) hs

/-- the mirrored fit is a non-decreasing sequence of the right length that minimises the total
pinball loss among all such sequences -/
theorem C02_upper_is_optimal (α : K) (hα0 : 0 < α) (hα1 : α < 1) (y : List K) :
    let obs := y.zip (y.map fun _ => (1 : K))
    (band_upper α obs).length = y.length ∧
    (band_upper α obs).Pairwise (· ≤ ·) ∧
    ∀ zs : List K, zs.length = y.length → zs.Pairwise (· ≤ ·) →
      total (pinball α hα0 hα1).S obs (band_upper α obs)
        ≤ total (pinball α hα0 hα1).S obs zs := by
  intro obs
  have hl : obs.length = y.length := zip_length_of_eq (ones_length y)
  refine ⟨?_, band_upper_sorted α hα0 hα1 obs, ?_⟩
  · rw [band_upper_length α hα0 hα1, hl]
  · intro zs hz hs
    exact band_upper_optimal α hα0 hα1 obs zs (hl.trans hz.symm) hs

/-! ## … and they are the smallest and the largest one -/

/-- **every optimal solution is pointwise ≥ the lower fit**: a non-decreasing `zs` of the right
length whose total pinball loss is not larger than that of the lower-quantile fit (i.e. `zs` is
optimal too) dominates the lower-quantile fit -/
theorem C02_lower_is_smallest (α : K) (hα0 : 0 < α) (hα1 : α < 1) (y : List K)
    (zs : List K) (hz : zs.length = y.length) (hs : zs.Pairwise (· ≤ ·))
    (hopt : total (pinball α hα0 hα1).S (y.zip (y.map fun _ => (1 : K))) zs
      ≤ total (pinball α hα0 hα1).S (y.zip (y.map fun _ => (1 : K)))
          (expand (gpava (qLower α) (y.zip (y.map fun _ => (1 : K)))))) :
    List.Forall₂ (· ≤ ·) (expand (gpava (qLower α) (y.zip (y.map fun _ => (1 : K))))) zs :=
  band_lower_smallest α hα0 hα1 _ zs ((zip_length_of_eq (ones_length y)).trans hz.symm) hs hopt

/-- **every optimal solution is pointwise ≤ the mirrored fit** (same optimality hypothesis as in
`C02_lower_is_smallest`) -/
theorem C02_upper_is_largest (α : K) (hα0 : 0 < α) (hα1 : α < 1) (y : List K)
    (zs : List K) (hz : zs.length = y.length) (hs : zs.Pairwise (· ≤ ·))
    (hopt : total (pinball α hα0 hα1).S (y.zip (y.map fun _ => (1 : K))) zs
      ≤ total (pinball α hα0 hα1).S (y.zip (y.map fun _ => (1 : K)))
          (expand (gpava (qLower α) (y.zip (y.map fun _ => (1 : K)))))) :
    List.Forall₂ (· ≤ ·) zs (band_upper α (y.zip (y.map fun _ => (1 : K)))) := by
  have hl : (y.zip (y.map fun _ => (1 : K))).length = y.length := zip_length_of_eq (ones_length y)
  refine band_upper_largest α hα0 hα1 _ zs (hl.trans hz.symm) hs (le_trans hopt ?_)
  exact C02_lower_optimal_inc α hα0 hα1 _ _
    (by rw [band_upper_length α hα0 hα1]) (band_upper_sorted α hα0 hα1 _)

/-- the same two statements for arbitrary observations (any weights — they are ignored), as used
for the decreasing direction below -/
theorem C02_band_obs (α : K) (hα0 : 0 < α) (hα1 : α < 1) (obs : List (Obs K))
    (zs : List K) (hz : obs.length = zs.length) (hs : zs.Pairwise (· ≤ ·))
    (hopt : ∀ zs' : List K, obs.length = zs'.length → zs'.Pairwise (· ≤ ·) →
      total (pinball α hα0 hα1).S obs zs ≤ total (pinball α hα0 hα1).S obs zs') :
    List.Forall₂ (· ≤ ·) (expand (gpava (qLower α) obs)) zs ∧
      List.Forall₂ (· ≤ ·) zs (band_upper α obs) := by
  constructor
  · refine band_lower_smallest α hα0 hα1 obs zs hz hs (hopt _ ?_ ?_)
    · exact (expand_length (quantFun α hα0 hα1).internal obs (fun _ _ => trivial)).symm
    · exact expand_gpava_sorted (quantFun α hα0 hα1).internal obs (fun _ _ => trivial)
  · exact band_upper_largest α hα0 hα1 obs zs hz hs
      (hopt _ (band_upper_length α hα0 hα1 obs).symm (band_upper_sorted α hα0 hα1 obs))

/-! ## The result of `isotonic_regression` lies in the band -/

/-- **the result lies pointwise between the smallest and the largest optimal solution** (in the
orientation of the fit: `orient inc` is the identity for `inc = true` and the reversal otherwise;
the band is that of the oriented observations) -/
theorem C02_result_in_band_dir (α : K) (hα0 : 0 < α) (hα1 : α < 1) (inc : Bool) (y : List K)
    (hne : y ≠ []) (x : List K) (r : List Nat)
    (h : isoReg (some .quantile) α inc y none = .ok (x, r)) :
    let obs := orient inc (y.zip (y.map fun _ => (1 : K)))
    List.Forall₂ (· ≤ ·) (expand (gpava (qLower α) obs)) (orient inc x) ∧
      List.Forall₂ (· ≤ ·) (orient inc x) (band_upper α obs) := by
  intro obs
  rw [isoReg_quantile_x hα0 hα1 hne h, orient_orient]
  exact C02_band_obs α hα0 hα1 obs _ (quantileFit_length α hα0 hα1 obs).symm
    (quantileFit_sorted α hα0 hα1 obs)
    (fun zs' hl hs' => C02_optimal_inc α hα0 hα1 obs zs' hl hs')

/-- increasing direction, without `orient` -/
theorem C02_result_in_band (α : K) (hα0 : 0 < α) (hα1 : α < 1) (y : List K)
    (hne : y ≠ []) (x : List K) (r : List Nat)
    (h : isoReg (some .quantile) α true y none = .ok (x, r)) :
    List.Forall₂ (· ≤ ·) (expand (gpava (qLower α) (y.zip (y.map fun _ => (1 : K))))) x ∧
      List.Forall₂ (· ≤ ·) x (band_upper α (y.zip (y.map fun _ => (1 : K)))) :=
  C02_result_in_band_dir α hα0 hα1 true y hne x r h

/-- the median call (any level passed: it is ignored) -/
theorem C02_median_result_in_band_dir (β : K) (inc : Bool) (y : List K)
    (hne : y ≠ []) (x : List K) (r : List Nat)
    (h : isoReg (some .median) β inc y none = .ok (x, r)) :
    let obs := orient inc (y.zip (y.map fun _ => (1 : K)))
    List.Forall₂ (· ≤ ·) (expand (gpava (qLower (1 / 2)) obs)) (orient inc x) ∧
      List.Forall₂ (· ≤ ·) (orient inc x) (band_upper (1 / 2) obs) := by
  rw [C02_median_is_half] at h
  exact C02_result_in_band_dir _ one_half_pos one_half_lt_one inc y hne x r h

theorem C02_median_result_in_band (β : K) (y : List K)
    (hne : y ≠ []) (x : List K) (r : List Nat)
    (h : isoReg (some .median) β true y none = .ok (x, r)) :
    List.Forall₂ (· ≤ ·) (expand (gpava (qLower (1 / 2)) (y.zip (y.map fun _ => (1 : K))))) x ∧
      List.Forall₂ (· ≤ ·) x (band_upper (1 / 2) (y.zip (y.map fun _ => (1 : K)))) :=
  C02_median_result_in_band_dir β true y hne x r h

/-- the band is consistent: the smallest optimal solution is below the largest one -/
theorem C02_lower_le_upper (α : K) (hα0 : 0 < α) (hα1 : α < 1) (y : List K) :
    List.Forall₂ (· ≤ ·) (expand (gpava (qLower α) (y.zip (y.map fun _ => (1 : K)))))
      (band_upper α (y.zip (y.map fun _ => (1 : K)))) := by
  obtain ⟨hl, hs, _⟩ := C02_lower_is_optimal α hα0 hα1 y
  exact C02_upper_is_largest α hα0 hα1 y _ hl hs le_rfl

/-! ## Non-vacuity -/

/-- the shape hypotheses on a competitor (length, non-decreasing) and on the level -/
example : (0 : ℚ) < 1 / 2 ∧ (1 / 2 : ℚ) < 1 ∧ ([2, 2] : List ℚ).length = ([3, 1] : List ℚ).length ∧
    ([2, 2] : List ℚ).Pairwise (· ≤ ·) := by
  refine ⟨by norm_num, by norm_num, rfl, by norm_num⟩

/-- the pinball losses of the competitors `[2, 2]`, `[1, 1]` (the lower fit), `[3, 3]` (the upper
end of the band) on `y = [3, 1]` at level `1/2` agree, so the optimality hypothesis of
`C02_lower_is_smallest` / `C02_upper_is_largest` is satisfiable with `zs` different from both ends
of the band; `[1, 3]` is not optimal -/
example :
    total (pinball (1 / 2 : ℚ) (by norm_num) (by norm_num)).S [(3, 1), (1, 1)] [2, 2] = 1 ∧
    total (pinball (1 / 2 : ℚ) (by norm_num) (by norm_num)).S [(3, 1), (1, 1)] [1, 1] = 1 ∧
    total (pinball (1 / 2 : ℚ) (by norm_num) (by norm_num)).S [(3, 1), (1, 1)] [3, 3] = 1 ∧
    total (pinball (1 / 2 : ℚ) (by norm_num) (by norm_num)).S [(3, 1), (1, 1)] [1, 3] = 2 := by
  norm_num [total, pinball]

/-- a successful call to which `C02_result_in_band_dir` applies (decreasing direction) -/
example : ∃ x r, isoReg (some .quantile) (1 / 3 : ℚ) false [3, 1, 2, 5] none = .ok (x, r) :=
  ⟨_, _, isoReg_quantile_none _ (by norm_num) (by norm_num) _ _ (by simp)⟩

end MD.Props

/-
Sanity checks at `Rat` (`#eval`, not part of the proofs), `obs y = y.zip ones`:
  y = [3, 1, 2, 5, 7, 6, 4, 9], α = 1/2:
    expand (gpava (qLower α) obs) = [1,   1,   2, 5, 6, 6, 6, 9]     (smallest optimal solution)
    (quantileFit α obs).1         = [3/2, 3/2, 2, 5, 6, 6, 6, 9]     (what the code returns)
    band_upper α obs              = [2,   2,   2, 5, 6, 6, 6, 9]     (largest optimal solution)
  y = [3, 1, 2, 5, 7, 6, 4, 9, 0], α = 1/3:
    expand (gpava (qLower α) obs) = [1, 1, 2, 4,   4,   4,   4,   4,   4]
    (quantileFit α obs).1         = [1, 1, 2, 9/2, 9/2, 9/2, 9/2, 9/2, 9/2]
    band_upper α obs              = [1, 1, 2, 5,   5,   5,   5,   5,   5]
  y = [3, 1], α = 1/2: lower fit [1, 1], band_upper [3, 3].

`#print axioms` (observed with `lake env lean MD/Props/C02b.lean`):
'MD.Props.C02_lower_is_optimal' depends on axioms: [propext, Classical.choice, Quot.sound]
'MD.Props.C02_upper_is_optimal' depends on axioms: [propext, Classical.choice, Quot.sound]
'MD.Props.C02_lower_is_smallest' depends on axioms: [propext, Classical.choice, Quot.sound]
'MD.Props.C02_upper_is_largest' depends on axioms: [propext, Classical.choice, Quot.sound]
'MD.Props.C02_band_obs' depends on axioms: [propext, Classical.choice, Quot.sound]
'MD.Props.C02_result_in_band_dir' depends on axioms: [propext, Classical.choice, Quot.sound]
'MD.Props.C02_result_in_band' depends on axioms: [propext, Classical.choice, Quot.sound]
'MD.Props.C02_median_result_in_band_dir' depends on axioms: [propext, Classical.choice, Quot.sound]
'MD.Props.C02_median_result_in_band' depends on axioms: [propext, Classical.choice, Quot.sound]
'MD.Props.C02_lower_le_upper' depends on axioms: [propext, Classical.choice, Quot.sound]
-/
