import MD.Proofs.HeapLemmas
import Mathlib.Tactic.Set
/-! C16 (second half) — "… and never alters the caller's data".

Theorems about the ownership model `pdList` / `pdMatrix` (`MD/Model/Heap.lean`) of `compute_partial_dependence`
over a store of mutable objects:

* **refinement**: the program over the store computes exactly the pure `partialDependence` of the rows the caller's
  object denotes (so every theorem of `MD/Props/C16.lean` applies to it);
* **frame**: every object that existed before the call - the caller's list, each of its rows, the grid, the weights,
  anything else - is bit for bit the same afterwards, although the stacked list the code builds consists of the
  caller's own row objects until `safe_assign_column` replaces them;
* what the predict function is shown is the stacked matrix of the definition;
* the variant that writes without copying is refuted by a concrete store.

Quantified over every store, every address, every predict function, grid, weights and (valid) subsample. -/
namespace MD.Own
open MD

variable {K : Type} [Inhabited K]

/-- elements of `takeRows l idx` for valid indices are elements of `l` -/
theorem mem_takeRows {α : Type} [Inhabited α] {l : List α} {idx : List Nat} (h : ∀ i ∈ idx, i < l.length)
    {a : α} (ha : a ∈ takeRows l idx) : a ∈ l := by
  unfold takeRows at ha
  obtain ⟨i, hi, rfl⟩ := List.mem_map.mp ha
  have := h i hi
  simp [this]

theorem tileIdx_lt {n g i : Nat} (h : i ∈ tileIdx n g) : i < n := by
  unfold tileIdx at h
  obtain ⟨k, hk, rfl⟩ := List.mem_map.mp h
  have hk' : k < n * g := List.mem_range.mp hk
  have hn : 0 < n := by
    rcases Nat.eq_zero_or_pos n with h0 | h0
    · subst h0; simp at hk'
    · exact h0
  exact Nat.mod_lt _ hn

theorem takeRows_map {α β : Type} [Inhabited α] [Inhabited β] (f : α → β) {l : List α} {idx : List Nat}
    (h : ∀ i ∈ idx, i < l.length) : takeRows (l.map f) idx = (takeRows l idx).map f := by
  unfold takeRows
  rw [List.map_map]
  apply List.map_congr_left
  intro i hi
  have := h i hi
  simp [this]

section
variable [Add K] [Sub K] [Mul K] [Div K] [Zero K] [One K] [NatCast K] [LE K] [DecidableLE K]

/-- the caller's list object is well formed: it is a list of references into the store -/
structure CallerList (s : Store K) (x : Nat) (l : List Nat) : Prop where
  here : s[x]? = some (.refs l)
  valid : ∀ a ∈ l, a < s.length

/-- a valid subsample: indices into the caller's rows (what `rng.choice(n, size=n_max, replace=False)` returns) -/
def ValidSub (n : Nat) : Option (List Nat) → Prop
  | none => True
  | some idx => ∀ i ∈ idx, i < n

/-- the state of the store after the two shallow copies, just before `safe_assign_column` -/
theorem pdList_stage (s : Store K) (x : Nat) {l : List Nat} (c : CallerList s x l) (g : Nat)
    (sub : Option (List Nat)) (hs : ValidSub l.length sub) :
    let rows1 := applySub sub l
    let s2 := (alloc (alloc s (.refs rows1)).1 (.refs (takeRows rows1 (tileIdx rows1.length g)))).1
    ListInv s2 (s.length + 1) (takeRows rows1 (tileIdx rows1.length g)) ∧
    (∀ a ∈ rows1, a < s.length) ∧
    (∀ a, a < s.length → s2[a]? = s[a]?) ∧ s2.length = s.length + 2 := by
  intro rows1 s2
  have hv1 : ∀ a ∈ rows1, a < s.length := by
    intro a ha
    cases sub with
    | none => exact c.valid a ha
    | some idx => exact c.valid a (mem_takeRows (l := l) hs ha)
  have hlen1 : (alloc s (Obj.refs rows1)).1.length = s.length + 1 := alloc_length _ _
  refine ⟨⟨?_, ?_⟩, hv1, ?_, ?_⟩
  · have := alloc_get_new (alloc s (Obj.refs rows1)).1 (Obj.refs (takeRows rows1 (tileIdx rows1.length g)))
    rw [hlen1] at this
    exact this
  · intro a ha
    have : a ∈ rows1 := mem_takeRows (fun i hi => tileIdx_lt hi) ha
    have := hv1 a this
    show a < (alloc (alloc s (Obj.refs rows1)).1 _).1.length
    rw [alloc_length, alloc_length]; omega
  · intro a ha
    show (alloc (alloc s (Obj.refs rows1)).1 _).1[a]? = s[a]?
    rw [alloc_get_below _ _ (by rw [hlen1]; omega), alloc_get_below _ _ ha]
  · show (alloc (alloc s (Obj.refs rows1)).1 _).1.length = _
    rw [alloc_length, alloc_length]

/-- the rows denoted by a list of references do not change when objects are only appended -/
theorem map_getVec_congr {s s' : Store K} {l : List Nat} (hv : ∀ a ∈ l, a < s.length)
    (hf : ∀ a, a < s.length → s'[a]? = s[a]?) : l.map (getVec s') = l.map (getVec s) :=
  List.map_congr_left (fun a ha => getVec_congr (hf a (hv a ha)))

/-- **C16_list_shown**: what the predict function is shown - the list-of-rows program hands it exactly the stacked
matrix of the definition (row `k` = sample row `k mod n` with column `j` set to grid value `k div n`). -/
theorem C16_list_shown (f : List K → K) (s : Store K) (x j : Nat) {l : List Nat} (c : CallerList s x l)
    (grid : List K) (w : Option (List K)) (sub : Option (List Nat)) (hs : ValidSub l.length sub) :
    let r := pdList f s x j grid w sub
    rowsOf r.1 r.2.1 = stacked (applySub sub (rowsOf s x)) j grid := by
  intro r
  set X' := applySub sub (rowsOf s x) with hX'
  have hrefs : getRefs s x = l := getRefs_of c.here
  obtain ⟨inv, hv1, hframe, hlen2⟩ := pdList_stage s x c grid.length sub hs
  -- name the pieces as `pdList` does
  set rows1 := applySub sub l with hrows1
  set s2 := (alloc (alloc s (.refs rows1)).1 (.refs (takeRows rows1 (tileIdx rows1.length grid.length)))).1 with hs2
  set gvals := takeRows grid (repeatIdx rows1.length grid.length) with hg
  have hr : r = (assignColumnList s2 (s.length + 1) j gvals, s.length + 1,
      blockAverages ((rowsOf (assignColumnList s2 (s.length + 1) j gvals) (s.length + 1)).map f) rows1.length
        grid.length (applySubW sub w)) := by
    show pdList f s x j grid w sub = _
    unfold pdList
    simp only [hrefs, alloc_addr, alloc_length]
    rfl
  rw [hr]
  show rowsOf (assignColumnList s2 (s.length + 1) j gvals) (s.length + 1) = _
  -- the loop
  have hlen : gvals.length = (takeRows rows1 (tileIdx rows1.length grid.length)).length := by
    simp [hg, takeRows, tileIdx, repeatIdx]
  have hb : ∀ iv ∈ List.zip (List.range gvals.length) gvals,
      iv.1 < (takeRows rows1 (tileIdx rows1.length grid.length)).length := by
    intro iv hiv
    have := (List.of_mem_zip hiv).1
    rw [← hlen]; exact List.mem_range.mp this
  obtain ⟨h1, _, _, _⟩ := assign_loop_aux j (s.length + 1) _ s2 _ inv hb
  unfold assignColumnList
  rw [h1]
  have hR : rowsOf s2 (s.length + 1) = takeRows X' (tileIdx rows1.length grid.length) := by
    unfold rowsOf
    rw [getRefs_of inv.here]
    have e1 : (takeRows rows1 (tileIdx rows1.length grid.length)).map (getVec s2)
        = (takeRows rows1 (tileIdx rows1.length grid.length)).map (getVec s) :=
      map_getVec_congr (fun a ha => hv1 a (mem_takeRows (fun i hi => tileIdx_lt hi) ha)) hframe
    rw [e1, ← takeRows_map (getVec s) (fun i hi => tileIdx_lt hi)]
    congr 1
    -- rows1.map (getVec s) = X'
    show rows1.map (getVec s) = X'
    cases sub with
    | none => simp [hrows1, hX', applySub, rowsOf, hrefs]
    | some idx =>
      simp only [hrows1, hX', applySub, rowsOf, hrefs]
      exact (takeRows_map (getVec s) hs).symm
  have hXlen : X'.length = rows1.length := by
    cases sub with
    | none => simp [hrows1, hX', applySub, rowsOf, hrefs]
    | some idx => simp [hrows1, hX', applySub, takeRows]
  rw [pure_loop' j gvals _ (by rw [hR]; simp [hg, takeRows, tileIdx, repeatIdx])]
  rw [hR]
  unfold stacked
  simp only [hXlen, hg]

/-- **C16_list_refines**: the list-of-rows program computes the partial dependence of the definition. -/
theorem C16_list_refines (f : List K → K) (s : Store K) (x j : Nat) {l : List Nat} (c : CallerList s x l)
    (grid : List K) (w : Option (List K)) (sub : Option (List Nat)) (hs : ValidSub l.length sub) :
    (pdList f s x j grid w sub).2.2 = partialDependence f (rowsOf s x) j grid w sub := by
  have hshown := C16_list_shown f s x j c grid w sub hs
  have hrefs : getRefs s x = l := getRefs_of c.here
  simp only at hshown
  have hres : (pdList f s x j grid w sub).2.2
      = blockAverages ((rowsOf (pdList f s x j grid w sub).1 (pdList f s x j grid w sub).2.1).map f)
          (applySub sub l).length grid.length (applySubW sub w) := by
    unfold pdList
    simp only [hrefs, alloc_addr, alloc_length]
  rw [hres, hshown]
  unfold partialDependence
  cases sub with
  | none => simp [applySub, applySubW, rowsOf, hrefs]
  | some idx => simp [applySub, applySubW, rowsOf, hrefs, takeRows]

/-- **C16_list_caller_unchanged**: every object that existed before the call is unchanged afterwards - in particular
the caller's list `X`, every one of its row objects, and whatever objects hold the grid and the weights. -/
theorem C16_list_caller_unchanged (f : List K → K) (s : Store K) (x j : Nat) {l : List Nat} (c : CallerList s x l)
    (grid : List K) (w : Option (List K)) (sub : Option (List Nat)) (hs : ValidSub l.length sub) :
    unchangedBelow s (pdList f s x j grid w sub).1 := by
  intro a ha
  have hrefs : getRefs s x = l := getRefs_of c.here
  obtain ⟨inv, hv1, hframe, hlen2⟩ := pdList_stage s x c grid.length sub hs
  set rows1 := applySub sub l with hrows1
  set s2 := (alloc (alloc s (.refs rows1)).1 (.refs (takeRows rows1 (tileIdx rows1.length grid.length)))).1 with hs2
  set gvals := takeRows grid (repeatIdx rows1.length grid.length) with hg
  have hst : (pdList f s x j grid w sub).1 = assignColumnList s2 (s.length + 1) j gvals := by
    unfold pdList
    simp only [hrefs, alloc_addr, alloc_length]
    rfl
  rw [hst]
  have hlen : gvals.length = (takeRows rows1 (tileIdx rows1.length grid.length)).length := by
    simp [hg, takeRows, tileIdx, repeatIdx]
  have hb : ∀ iv ∈ List.zip (List.range gvals.length) gvals,
      iv.1 < (takeRows rows1 (tileIdx rows1.length grid.length)).length := by
    intro iv hiv
    have := (List.of_mem_zip hiv).1
    rw [← hlen]; exact List.mem_range.mp this
  obtain ⟨_, _, _, h4⟩ := assign_loop_aux j (s.length + 1) _ s2 _ inv hb
  unfold assignColumnList
  rw [h4 a (by rw [hlen2]; omega) (by omega), hframe a ha]

/-- the caller's rows, read after the call, are the rows read before it -/
theorem C16_list_rows_unchanged (f : List K → K) (s : Store K) (x j : Nat) {l : List Nat} (c : CallerList s x l)
    (grid : List K) (w : Option (List K)) (sub : Option (List Nat)) (hs : ValidSub l.length sub) :
    rowsOf (pdList f s x j grid w sub).1 x = rowsOf s x := by
  have hu := C16_list_caller_unchanged f s x j c grid w sub hs
  have hx : x < s.length := by
    rcases Nat.lt_or_ge x s.length with h' | h'
    · exact h'
    · have := c.here; rw [List.getElem?_eq_none h'] at this; cases this
  unfold rowsOf
  rw [getRefs_congr (hu x hx), getRefs_of c.here]
  exact List.map_congr_left (fun a ha => getVec_congr (hu a (c.valid a ha)))

/-! ### numpy matrix -/

/-- **C16_matrix_refines / unchanged**: for a numpy matrix the copies are whole new objects; the result is the
definition's and nothing that existed before is written to. -/
theorem C16_matrix_refines (f : List K → K) (s : Store K) (x j : Nat) {m : List (List K)}
    (hx : s[x]? = some (.mat m)) (grid : List K) (w : Option (List K)) (sub : Option (List Nat)) :
    (pdMatrix f s x j grid w sub).2.2 = partialDependence f m j grid w sub := by
  have hm : getMat s x = m := getMat_of hx
  unfold pdMatrix partialDependence
  simp only [hm, alloc_addr, alloc_length]
  set m1 := applySub sub m with hm1
  have hnew : (alloc (alloc s (Obj.mat m1)).1 (Obj.mat (takeRows m1 (tileIdx m1.length grid.length)))).1[s.length + 1]?
      = some (.mat (takeRows m1 (tileIdx m1.length grid.length))) := by
    have := alloc_get_new (alloc s (Obj.mat m1)).1 (Obj.mat (takeRows m1 (tileIdx m1.length grid.length)))
    rwa [alloc_length] at this
  rw [getMat_of (setMatCol_get_self _ j _ hnew)]
  cases sub <;> simp [hm1, applySub, applySubW, stacked]

theorem C16_matrix_caller_unchanged (f : List K → K) (s : Store K) (x j : Nat) (grid : List K)
    (w : Option (List K)) (sub : Option (List Nat)) :
    unchangedBelow s (pdMatrix f s x j grid w sub).1 := by
  intro a ha
  unfold pdMatrix
  simp only [alloc_addr, alloc_length]
  rw [setMatCol_get_ne _ _ _ (by omega), alloc_get_below _ _ (by rw [alloc_length]; omega), alloc_get_below _ _ ha]

end

/-! ### the write-without-copy variant is refuted -/

/-- **C16_no_copy_counterexample**: if `safe_assign_column` wrote into `x[i]` itself instead of a copy, the caller's
row would be overwritten - here the stacked list `[row0, row0]` (one sample row, two grid values) and the caller's
row `[1, 2]` ends up as `[20, 2]`. The copying version leaves it alone. -/
theorem C16_no_copy_counterexample :
    let s : Store Nat := [.vec [1, 2], .refs [0, 0]]
    getVec (assignColumnListNoCopy s 1 0 [10, 20]) 0 = [20, 2] ∧
    getVec (assignColumnList s 1 0 [10, 20]) 0 = [1, 2] ∧
    rowsOf (assignColumnList s 1 0 [10, 20]) 1 = [[10, 2], [20, 2]] := by
  decide

/-- non-vacuity of the hypotheses: a store with a list of two rows sharing nothing, a valid subsample -/
example : CallerList ([.vec [1, 2], .vec [3, 4], .refs [0, 1]] : Store Nat) 2 [0, 1] ∧ ValidSub 2 (some [1]) :=
  ⟨⟨rfl, by decide⟩, by simp [ValidSub]⟩

example : (pdList (fun r => r.sum) ([.vec [1, 2], .vec [3, 4], .refs [0, 1]] : Store Nat) 2 0 [10, 20] none none).2.2
    = [(12 + 14) / 2, (22 + 24) / 2] := by decide

end MD.Own
