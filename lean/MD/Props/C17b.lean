import MD.Model.Series
/-! C17 — "passing the same numbers as Python lists … gives the same results": the list-to-column step.

Theorems about `seriesFromValues` (`MD/Model/Series.lean`, the model of `_utils/array.py::series_from_values`): for
every list of Python ints / floats, numpy integer / floating scalars and `None` the column holds exactly the numbers of
the list (nothing is truncated, nothing is refused), and the variant that leaves numpy scalars alone is refuted. -/
namespace MD.Ser

theorem value_unwrap (e : Elem) : (unwrap e).value = e.value := by cases e <;> rfl
theorem isFloat_unwrap (e : Elem) : (unwrap e).isFloat = e.isFloat := by cases e <;> rfl
theorem isNone_unwrap (e : Elem) : (unwrap e).isNone = e.isNone := by cases e <;> rfl

theorem firstNonNull_none {l : List Elem} (h : firstNonNull l = Option.none) : ∀ e ∈ l, e = Elem.none := by
  induction l with
  | nil => intro e he; cases he
  | cons a l ih =>
    intro e he
    unfold firstNonNull at h
    by_cases ha : a.isNone = true
    · rw [if_pos ha] at h
      rcases List.mem_cons.mp he with rfl | he'
      · cases e <;> simp_all [Elem.isNone]
      · exact ih h e he'
    · rw [if_neg ha] at h; cases h

theorem firstNonNull_map_unwrap (l : List Elem) : firstNonNull (l.map unwrap) = (firstNonNull l).map unwrap := by
  induction l with
  | nil => rfl
  | cons a l ih =>
    simp only [List.map_cons, firstNonNull, isNone_unwrap]
    split
    · exact ih
    · rfl

theorem intValue_value_of_not_float {e : Elem} (h : e.isFloat = false) :
    (e.intValue).map (fun (n : Int) => (n : Rat)) = e.value := by
  cases e <;> simp_all [Elem.isFloat, Elem.intValue, Elem.value]

theorem any_isFloat_map_unwrap (l : List Elem) : (l.map unwrap).any Elem.isFloat = l.any Elem.isFloat := by
  induction l with
  | nil => rfl
  | cons a l ih => simp [isFloat_unwrap, ih]

theorem int_values {l : List Elem} (h : l.any Elem.isFloat = false) :
    (Col.int (l.map Elem.intValue)).values = some (l.map Elem.value) := by
  simp only [Col.values, List.map_map, Option.some.injEq]
  apply List.map_congr_left
  intro e he
  have : e.isFloat = false := by
    have := List.any_eq_false.mp h e he
    simpa using this
  exact intValue_value_of_not_float this

/-- **C17_series_exact**: whatever mixture of Python numbers, numpy scalars and `None` the list holds, the column holds
exactly those numbers - no float is truncated, no list is refused. -/
theorem C17_series_exact (l : List Elem) : (seriesFromValues l).values = some (l.map Elem.value) := by
  unfold seriesFromValues strictSeries
  cases hf : firstNonNull l with
  | none =>
    have hall := firstNonNull_none hf
    simp only [Col.values, Option.some.injEq]
    apply List.ext_getElem
    · simp
    · intro i h1 h2
      simp only [List.getElem_replicate, List.getElem_map]
      rw [hall _ (List.getElem_mem _)]; rfl
  | some e =>
    simp only []
    by_cases he : e.isFloat = true
    · simp [he, Col.values]
    · simp only [he, Bool.false_eq_true, ↓reduceIte]
      by_cases hany : l.any Elem.isFloat = true
      · -- strict refuses: numpy scalars are unwrapped, then the non-strict constructor finds the supertype
        simp only [hany, ↓reduceIte]
        unfold nonStrictSeries
        rw [firstNonNull_map_unwrap, hf]
        have hu : ∀ n, unwrap e ≠ Elem.npInt n := by intro n; cases e <;> simp [unwrap]
        have hflt : (l.map unwrap).any Elem.isFloat = true := by rw [any_isFloat_map_unwrap]; exact hany
        cases hue : unwrap e with
        | npInt n => exact absurd hue (hu n)
        | none => simp [hflt, Col.values, List.map_map, Function.comp_def, value_unwrap]
        | pyInt n => simp [hflt, Col.values, List.map_map, Function.comp_def, value_unwrap]
        | pyFloat q => simp [hflt, Col.values, List.map_map, Function.comp_def, value_unwrap]
        | npFloat q => simp [hflt, Col.values, List.map_map, Function.comp_def, value_unwrap]
      · have hany' : l.any Elem.isFloat = false := by simpa using hany
        simp only [hany', Bool.false_eq_true, ↓reduceIte]
        exact int_values hany'

theorem firstNonNull_mem {l : List Elem} {e : Elem} (hf : firstNonNull l = some e) : e ∈ l := by
  induction l with
  | nil => simp [firstNonNull] at hf
  | cons a l ih =>
    unfold firstNonNull at hf
    by_cases ha : a.isNone = true
    · rw [if_pos ha] at hf; exact List.mem_cons_of_mem _ (ih hf)
    · rw [if_neg ha] at hf; cases hf; exact List.mem_cons_self ..

/-- **C17_series_closed_form**: what `series_from_values` returns, in one line - the dtype depends on the numbers' kinds
only (Null without any number, Float64 as soon as one element is a float, an integer dtype otherwise), not on which
element comes first and not on whether the numbers are Python or numpy scalars; the values are never truncated. -/
theorem C17_series_closed_form (l : List Elem) :
    seriesFromValues l =
      if firstNonNull l = Option.none then .null l.length
      else if l.any Elem.isFloat = true then .float (l.map Elem.value)
      else .int (l.map Elem.intValue) := by
  cases hf : firstNonNull l with
  | none => simp [seriesFromValues, strictSeries, hf]
  | some e =>
    simp only [reduceCtorEq, ↓reduceIte]
    by_cases hany : l.any Elem.isFloat = true
    · simp only [hany, ↓reduceIte]
      by_cases he : e.isFloat = true
      · simp [seriesFromValues, strictSeries, hf, he]
      · have hstrict : strictSeries l = .typeError := by simp [strictSeries, hf, he, hany]
        have hflt : (l.map unwrap).any Elem.isFloat = true := by rw [any_isFloat_map_unwrap]; exact hany
        have hvals : (l.map unwrap).map Elem.value = l.map Elem.value := by
          rw [List.map_map]; exact List.map_congr_left (fun a _ => value_unwrap a)
        unfold seriesFromValues
        rw [hstrict]
        simp only []
        unfold nonStrictSeries
        rw [firstNonNull_map_unwrap, hf]
        cases e with
        | none => simp [unwrap, hflt, hvals]
        | pyInt n => simp [unwrap, hflt, hvals]
        | pyFloat q => simp [unwrap, hflt, hvals]
        | npInt n => simp [unwrap, hflt, hvals]
        | npFloat q => simp [unwrap, hflt, hvals]
    · have hany' : l.any Elem.isFloat = false := by simpa using hany
      have he : e.isFloat = false := by
        have := List.any_eq_false.mp hany' e (firstNonNull_mem hf)
        simpa using this
      simp [seriesFromValues, strictSeries, hf, he, hany']

/-- the call never lets polars' `TypeError` escape -/
theorem C17_series_never_refuses (l : List Elem) : seriesFromValues l ≠ .typeError := by
  intro h
  have := C17_series_exact l
  rw [h] at this
  simp [Col.values] at this

/-- **C17_series_no_unwrap_counterexample**: without converting numpy scalars first, a list that starts with a numpy
integer scalar loses the fractional part of the floats that follow. -/
theorem C17_series_no_unwrap_counterexample :
    seriesFromValuesNoUnwrap [.npInt 1, .pyFloat (5 / 2), .pyFloat (7 / 4)] = .int [some 1, some 2, some 1] ∧
    seriesFromValues [.npInt 1, .pyFloat (5 / 2), .pyFloat (7 / 4)] = .float [some 1, some (5 / 2), some (7 / 4)] := by
  decide +kernel

/-- the plain mixed list `[1, 2.5]` that polars' strict constructor refuses -/
example : strictSeries [.pyInt 1, .pyFloat (5 / 2)] = .typeError ∧
    seriesFromValues [.pyInt 1, .pyFloat (5 / 2)] = .float [some 1, some (5 / 2)] := by decide +kernel

end MD.Ser
