import MD.Props.C02
import MD.Props.C11
import MD.Proofs.DecompLemmas

/-! # C11 (continued) — the fitted model is optimal among monotone functions of `X`

"… predictions at the training points equal the optimal monotone fit among functions of X …"

`C11_fit_optimal_mean` (in `MD/Props/C11.lean`) writes this out for the weighted mean.  Here the
same statement for

* the mean with or without weights (`C11_fit_optimal_mean_any_weights`),
* the expectile, with or without weights (`C11_fit_optimal_expectile`; asymmetric squared error),
* the quantile and the median (`C11_fit_optimal_quantile`, `C11_fit_optimal_median`; pinball loss;
  unweighted — the only supported case),

each for both directions, unsorted `X` with duplicates; and **uniqueness** for the mean and the
expectile (`C11_fit_unique_mean`, `C11_fit_unique_expectile`): a monotone function of `X` whose
total loss over the training rows is not larger than that of the fitted model has the same values
as the fitted model at every training point.  (For the quantile the minimiser is not unique, see
`MD/Props/C02b.lean`.)

All sums run over the training rows `fit_rows X y w = (X[i], y[i], w[i])ᵢ` in the original order
(`w[i] = 1` for `weights=None`).  Route: `fit_Fitted.optimal` / `fit_Fitted.train_list` lift the
sequence statements `C01/C03_optimal`, `C01/C03_unique` (packaged in `fit_weighted_opt_unique`),
`C02_optimal`, `C02_median_optimal` through the sort. -/

set_option linter.unusedSectionVars false

namespace MD.Props
variable {K : Type} [Field K] [LinearOrder K] [IsStrictOrderedRing K] [Inhabited K]

section Generic
variable {fn : Option Functional} {α : K} {inc : Bool} {X y : List K} {w : Option (List K)}
  {tx ty : List K}

/-- a total score over the sorted sample of a function of `X` is a sum over the original rows -/
theorem fitb_rows_sum (S : Obs K → K → K) (f : K → K) (inc : Bool) (X y : List K)
    (w : Option (List K)) :
    total S (((fit_sorted inc X y w).map (·.y)).zip ((fit_sorted inc X y w).map (·.w)))
        (((fit_sorted inc X y w).map (·.x)).map f)
      = ((fit_rows X y w).map (fun a => S (a.y, a.w) (f a.x))).sum := by
  rw [fit_total_rows]
  have hperm : (fit_sorted inc X y w).Perm (fit_rows X y w) := List.mergeSort_perm _ _
  exact (hperm.map _).sum_eq

/-- sequence optimality of the isotonic fit of the sorted sample ⇒ optimality of the fitted model
among monotone functions of `X`, as a sum over the training rows -/
theorem fitb_optimal (h : isoFit fn α inc X y w = .ok (tx, ty)) (S : Obs K → K → K)
    (hseq : ∀ yiso r, isoReg fn α inc ((fit_sorted inc X y w).map (·.y))
        (w.map (fun _ => (fit_sorted inc X y w).map (·.w))) = .ok (yiso, r) →
      ∀ zs : List K, zs.length = yiso.length → MonoDir inc zs →
        total S (((fit_sorted inc X y w).map (·.y)).zip ((fit_sorted inc X y w).map (·.w))) yiso
          ≤ total S (((fit_sorted inc X y w).map (·.y)).zip ((fit_sorted inc X y w).map (·.w))) zs)
    (g : K → K) (hg : if inc then Monotone g else Antitone g) :
    ((fit_rows X y w).map (fun a => S (a.y, a.w) (interp tx ty a.x))).sum
      ≤ ((fit_rows X y w).map (fun a => S (a.y, a.w) (g a.x))).sum := by
  obtain ⟨yiso, r, hr⟩ := fit_isoFit_exists h
  have F := fit_isoFit_fitted h hr
  have := F.optimal S _ (hseq yiso r hr) g hg
  rwa [fitb_rows_sum, fitb_rows_sum] at this

/-- sequence uniqueness ⇒ uniqueness at the training points among monotone functions of `X` -/
theorem fitb_unique (h : isoFit fn α inc X y w = .ok (tx, ty)) (S : Obs K → K → K)
    (huniq : ∀ yiso r, isoReg fn α inc ((fit_sorted inc X y w).map (·.y))
        (w.map (fun _ => (fit_sorted inc X y w).map (·.w))) = .ok (yiso, r) →
      ∀ zs : List K, zs.length = yiso.length → MonoDir inc zs →
        total S (((fit_sorted inc X y w).map (·.y)).zip ((fit_sorted inc X y w).map (·.w))) zs
          ≤ total S (((fit_sorted inc X y w).map (·.y)).zip ((fit_sorted inc X y w).map (·.w))) yiso →
        zs = yiso)
    (g : K → K) (hg : if inc then Monotone g else Antitone g)
    (hle : ((fit_rows X y w).map (fun a => S (a.y, a.w) (g a.x))).sum
      ≤ ((fit_rows X y w).map (fun a => S (a.y, a.w) (interp tx ty a.x))).sum) :
    ∀ x ∈ X, g x = interp tx ty x := by
  obtain ⟨hX, hw, _⟩ := fit_isoFit_inv h
  obtain ⟨yiso, r, hr⟩ := fit_isoFit_exists h
  have F := fit_isoFit_fitted h hr
  rw [← fitb_rows_sum S g inc X y w, ← fitb_rows_sum S (interp tx ty) inc X y w,
    F.train_list] at hle
  have he := huniq yiso r hr (((fit_sorted inc X y w).map (·.x)).map g)
    (by rw [List.length_map]; exact F.len) (fit_monoDir_map inc F.sorted g hg) hle
  rw [← F.train_list] at he
  intro x hx
  have hxs : x ∈ (fit_sorted inc X y w).map (·.x) := by
    have hperm : (fit_sorted inc X y w).Perm (fit_rows X y w) := List.mergeSort_perm _ _
    have := (hperm.map (·.x)).mem_iff (a := x)
    rw [(dec_fit_rows_cols X y w hX hw).1] at this
    exact this.mpr hx
  exact List.map_inj_left.mp he x hxs

/-- for the functionals that accept weights, the isotonic fit `fit` computes is the fit with the
weight column of the sorted sample (all `1` for `weights=None`) -/
theorem fitb_isoReg_some {f : Functional} (hme : f = .mean ∨ f = .expectile) {yiso : List K}
    {r : List Nat}
    (hr : isoReg (some f) α inc ((fit_sorted inc X y w).map (·.y))
      (w.map (fun _ => (fit_sorted inc X y w).map (·.w))) = .ok (yiso, r)) :
    isoReg (some f) α inc ((fit_sorted inc X y w).map (·.y))
      (some ((fit_sorted inc X y w).map (·.w))) = .ok (yiso, r) := by
  cases w with
  | some w' => exact hr
  | none =>
    have := dec_sorted_wts inc X y none
    simp only [Option.map_none, dec_wts] at this
    simp only [Option.map_none] at hr
    rw [isoReg_weights_none f hme, this] at hr
    exact hr

/-- the weight column of an unweighted sorted sample -/
theorem fitb_sorted_ones (inc : Bool) (X y : List K) :
    (fit_sorted inc X y none).map (·.w)
      = ((fit_sorted inc X y none).map (·.y)).map (fun _ => (1 : K)) := by
  have := dec_sorted_wts inc X y none
  simp only [Option.map_none, dec_wts] at this
  exact this.symm

/-- mean / expectile, any weights: optimality and uniqueness of the sequence fit of the sorted
sample w.r.t. the functional's score `fit_scoreOf` -/
theorem fitb_seq_weighted {f : Functional} (hme : f = .mean ∨ f = .expectile) {yiso : List K}
    {r : List Nat}
    (hr : isoReg (some f) α inc ((fit_sorted inc X y w).map (·.y))
      (w.map (fun _ => (fit_sorted inc X y w).map (·.w))) = .ok (yiso, r))
    (zs : List K) (hz : zs.length = yiso.length) (hm : MonoDir inc zs) :
    total (fit_scoreOf (some f) α)
        (((fit_sorted inc X y w).map (·.y)).zip ((fit_sorted inc X y w).map (·.w))) yiso
      ≤ total (fit_scoreOf (some f) α)
        (((fit_sorted inc X y w).map (·.y)).zip ((fit_sorted inc X y w).map (·.w))) zs ∧
    (total (fit_scoreOf (some f) α)
        (((fit_sorted inc X y w).map (·.y)).zip ((fit_sorted inc X y w).map (·.w))) zs
      ≤ total (fit_scoreOf (some f) α)
        (((fit_sorted inc X y w).map (·.y)).zip ((fit_sorted inc X y w).map (·.w))) yiso →
      zs = yiso) := by
  have hr' := fitb_isoReg_some hme hr
  have hl : zs.length = ((fit_sorted inc X y w).map (·.y)).length := by
    rw [hz, isoReg_length hr']
  obtain ⟨h1, h2⟩ := fit_weighted_opt_unique hr'
  exact ⟨h1 zs hl hm, h2 zs hl hm⟩

end Generic

/-! ## Optimality among monotone functions of `X` -/

/-- **mean, with or without weights**: the prediction function minimises the (weighted) squared
error over the training rows among all functions of `X` that are monotone in the fitted
direction -/
theorem C11_fit_optimal_mean_any_weights (α : K) (inc : Bool) (X y : List K)
    (w : Option (List K)) (tx ty : List K)
    (h : isoFit (some .mean) α inc X y w = .ok (tx, ty)) (g : K → K)
    (hg : if inc then Monotone g else Antitone g) :
    ((fit_rows X y w).map
        (fun a => a.w * ((a.y - interp tx ty a.x) * (a.y - interp tx ty a.x)))).sum
      ≤ ((fit_rows X y w).map (fun a => a.w * ((a.y - g a.x) * (a.y - g a.x)))).sum :=
  fitb_optimal h (fit_scoreOf (some .mean) α)
    (fun _ _ hr zs hz hm => (fitb_seq_weighted (Or.inl rfl) hr zs hz hm).1) g hg

/-- **expectile, with or without weights**: the prediction function minimises the (weighted)
asymmetric squared error `Σ w |1{y ≤ z} − α| (z − y)²` over the training rows among all functions
of `X` that are monotone in the fitted direction (a successful `fit` has `0 < α < 1`) -/
theorem C11_fit_optimal_expectile (α : K) (inc : Bool) (X y : List K) (w : Option (List K))
    (tx ty : List K) (h : isoFit (some .expectile) α inc X y w = .ok (tx, ty)) (g : K → K)
    (hg : if inc then Monotone g else Antitone g) :
    ((fit_rows X y w).map (fun a => a.w * (if a.y ≤ interp tx ty a.x then 1 - α else α)
        * ((interp tx ty a.x - a.y) * (interp tx ty a.x - a.y)))).sum
      ≤ ((fit_rows X y w).map (fun a => a.w * (if a.y ≤ g a.x then 1 - α else α)
        * ((g a.x - a.y) * (g a.x - a.y)))).sum :=
  fitb_optimal h (fit_scoreOf (some .expectile) α)
    (fun _ _ hr zs hz hm => (fitb_seq_weighted (Or.inr rfl) hr zs hz hm).1) g hg

/-- **quantile** (unweighted, the only supported case): the prediction function minimises the
pinball loss `Σ (1{y ≤ z} − α)(z − y)` over the training rows among all functions of `X` that are
monotone in the fitted direction (a successful `fit` has `0 < α < 1`) -/
theorem C11_fit_optimal_quantile (α : K) (inc : Bool) (X y tx ty : List K)
    (h : isoFit (some .quantile) α inc X y none = .ok (tx, ty)) (g : K → K)
    (hg : if inc then Monotone g else Antitone g) :
    ((fit_rows X y none).map (fun a =>
        ((if a.y ≤ interp tx ty a.x then (1 : K) else 0) - α) * (interp tx ty a.x - a.y))).sum
      ≤ ((fit_rows X y none).map (fun a =>
        ((if a.y ≤ g a.x then (1 : K) else 0) - α) * (g a.x - a.y))).sum := by
  obtain ⟨yiso₀, r₀, hr₀⟩ := fit_isoFit_exists h
  simp only [Option.map_none] at hr₀
  have hα : 0 < α ∧ α < 1 := by
    by_contra hcon
    have : α ≤ 0 ∨ 1 ≤ α := by
      by_contra hc
      rw [not_or, not_le, not_le] at hc
      exact hcon hc
    rw [isoReg_level_error _ (Or.inr rfl) α this] at hr₀
    cases hr₀
  obtain ⟨hα0, hα1⟩ := hα
  refine fitb_optimal h (pinball α hα0 hα1).S ?_ g hg
  intro yiso r hr zs hz hm
  simp only [Option.map_none] at hr
  have hne : (fit_sorted inc X y none).map (·.y) ≠ [] := by
    obtain ⟨v, hv, _, _⟩ := isoReg_inv hr
    exact (eqValidate_ok hv).1
  rw [fitb_sorted_ones]
  exact C02_optimal α hα0 hα1 inc _ hne yiso r hr zs (by rw [hz, isoReg_length hr]) hm

/-- **median** (unweighted; the level passed is ignored): the prediction function minimises the
pinball loss at level `1/2` — half the absolute error — over the training rows among all functions
of `X` that are monotone in the fitted direction -/
theorem C11_fit_optimal_median (β : K) (inc : Bool) (X y tx ty : List K)
    (h : isoFit (some .median) β inc X y none = .ok (tx, ty)) (g : K → K)
    (hg : if inc then Monotone g else Antitone g) :
    ((fit_rows X y none).map (fun a =>
        ((if a.y ≤ interp tx ty a.x then (1 : K) else 0) - 1 / 2) * (interp tx ty a.x - a.y))).sum
      ≤ ((fit_rows X y none).map (fun a =>
        ((if a.y ≤ g a.x then (1 : K) else 0) - 1 / 2) * (g a.x - a.y))).sum := by
  refine fitb_optimal h (pinball (1 / 2 : K) one_half_pos one_half_lt_one).S ?_ g hg
  intro yiso r hr zs hz hm
  simp only [Option.map_none] at hr
  have hne : (fit_sorted inc X y none).map (·.y) ≠ [] := by
    obtain ⟨v, hv, _, _⟩ := isoReg_inv hr
    exact (eqValidate_ok hv).1
  rw [fitb_sorted_ones]
  exact C02_median_optimal β inc _ hne yiso r hr zs (by rw [hz, isoReg_length hr]) hm

/-! ## Uniqueness at the training points (mean, expectile) -/

/-- **mean**: a function of `X`, monotone in the fitted direction, whose (weighted) squared error
over the training rows is not larger than that of the fitted model, agrees with the fitted model
at every training point -/
theorem C11_fit_unique_mean (α : K) (inc : Bool) (X y : List K) (w : Option (List K))
    (tx ty : List K) (h : isoFit (some .mean) α inc X y w = .ok (tx, ty)) (g : K → K)
    (hg : if inc then Monotone g else Antitone g)
    (hle : ((fit_rows X y w).map (fun a => a.w * ((a.y - g a.x) * (a.y - g a.x)))).sum
      ≤ ((fit_rows X y w).map
        (fun a => a.w * ((a.y - interp tx ty a.x) * (a.y - interp tx ty a.x)))).sum) :
    ∀ x ∈ X, g x = interp tx ty x :=
  fitb_unique h (fit_scoreOf (some .mean) α)
    (fun _ _ hr zs hz hm => (fitb_seq_weighted (Or.inl rfl) hr zs hz hm).2) g hg hle

/-- **expectile**: the same for the (weighted) asymmetric squared error -/
theorem C11_fit_unique_expectile (α : K) (inc : Bool) (X y : List K) (w : Option (List K))
    (tx ty : List K) (h : isoFit (some .expectile) α inc X y w = .ok (tx, ty)) (g : K → K)
    (hg : if inc then Monotone g else Antitone g)
    (hle : ((fit_rows X y w).map (fun a => a.w * (if a.y ≤ g a.x then 1 - α else α)
        * ((g a.x - a.y) * (g a.x - a.y)))).sum
      ≤ ((fit_rows X y w).map (fun a => a.w * (if a.y ≤ interp tx ty a.x then 1 - α else α)
        * ((interp tx ty a.x - a.y) * (interp tx ty a.x - a.y)))).sum) :
    ∀ x ∈ X, g x = interp tx ty x :=
  fitb_unique h (fit_scoreOf (some .expectile) α)
    (fun _ _ hr zs hz hm => (fitb_seq_weighted (Or.inr rfl) hr zs hz hm).2) g hg hle

/-- in particular two optimal monotone functions of `X` agree at the training points, e.g. the
fitted model is the only optimal one there (mean; the expectile is analogous) -/
theorem C11_fit_unique_mean_of_optimal (α : K) (inc : Bool) (X y : List K) (w : Option (List K))
    (tx ty : List K) (h : isoFit (some .mean) α inc X y w = .ok (tx, ty)) (g : K → K)
    (hg : if inc then Monotone g else Antitone g)
    (hopt : ∀ g' : K → K, (if inc then Monotone g' else Antitone g') →
      ((fit_rows X y w).map (fun a => a.w * ((a.y - g a.x) * (a.y - g a.x)))).sum
        ≤ ((fit_rows X y w).map (fun a => a.w * ((a.y - g' a.x) * (a.y - g' a.x)))).sum) :
    ∀ x ∈ X, g x = interp tx ty x := by
  refine C11_fit_unique_mean α inc X y w tx ty h g hg (hopt (interp tx ty) ?_)
  have hm := C11_fit_predict_monotone (some .mean) α inc X y w tx ty h
  cases inc
  · simp only [Bool.false_eq_true, if_false] at hm ⊢
    exact fun a b hab => hm a b hab
  · simp only [if_true] at hm ⊢
    exact fun a b hab => hm a b hab

/-! ## Non-vacuity -/

/-- the hypothesis `isoFit … = .ok (tx, ty)` is satisfiable for every functional and direction: an
unweighted `fit` on non-empty data of matching lengths succeeds (level in `(0, 1)` where it is
used) -/
theorem C11_fit_ok_unweighted (f : Functional) (α : K)
    (hα : f = .expectile ∨ f = .quantile → 0 < α ∧ α < 1) (inc : Bool) (X y : List K)
    (hX : X.length = y.length) (hne : y ≠ []) :
    ∃ tx ty, isoFit (some f) α inc X y none = .ok (tx, ty) := by
  have hw : ∀ w', (none : Option (List K)) = some w' → w'.length = y.length := by
    intro w' hw'; cases hw'
  rw [fit_isoFit_eq (some f) α inc X y none hX hw]
  have hperm : (fit_sorted inc X y none).Perm (fit_rows X y none) := List.mergeSort_perm _ _
  obtain ⟨_, c2, _⟩ := dec_fit_rows_cols X y none hX hw
  have hsne : (fit_sorted inc X y none).map (·.y) ≠ [] := by
    intro he
    have h1 := congrArg List.length he
    rw [List.length_map, hperm.length_eq] at h1
    have h2 := congrArg List.length c2
    rw [List.length_map] at h2
    exact hne (List.length_eq_zero_iff.mp (by rw [← h2]; exact h1))
  simp only [Option.map_none]
  cases f
  · rw [isoReg_mean_none α inc _ hsne]; exact ⟨_, _, rfl⟩
  · rw [isoReg_median_none α inc _ hsne]; exact ⟨_, _, rfl⟩
  · obtain ⟨h0, h1⟩ := hα (Or.inl rfl)
    rw [isoReg_expectile_none α h0 h1 inc _ hsne]; exact ⟨_, _, rfl⟩
  · obtain ⟨h0, h1⟩ := hα (Or.inr rfl)
    rw [isoReg_quantile_none α h0 h1 inc _ hsne]; exact ⟨_, _, rfl⟩

/-- e.g. an expectile fit in the decreasing direction on unsorted `X` with a duplicate -/
example : ∃ tx ty, isoFit (some .expectile) (1 / 4 : ℚ) false [3, 1, 2, 2, 5, 4] [1, 3, 2, 4, 5, 6]
    none = .ok (tx, ty) :=
  C11_fit_ok_unweighted .expectile _ (fun _ => ⟨by norm_num, by norm_num⟩) false _ _ rfl (by simp)

/-- … and a quantile fit -/
example : ∃ tx ty, isoFit (some .quantile) (1 / 3 : ℚ) true [3, 1, 2, 2, 5, 4, 4]
    [1, 3, 2, 4, 5, 6, 0] none = .ok (tx, ty) :=
  C11_fit_ok_unweighted .quantile _ (fun _ => ⟨by norm_num, by norm_num⟩) true _ _ rfl (by simp)

/-- competitors: a non-decreasing and a non-increasing function of `X` -/
example : (if true then Monotone (fun x : ℚ => 2 * x + 1) else Antitone (fun x : ℚ => 2 * x + 1)) ∧
    (if false then Monotone (fun x : ℚ => -x) else Antitone (fun x : ℚ => -x)) := by
  refine ⟨?_, ?_⟩
  · simp only [if_true]
    intro a b hab
    show 2 * a + 1 ≤ 2 * b + 1
    linarith
  · simp only [Bool.false_eq_true, if_false]
    intro a b hab
    show -b ≤ -a
    linarith

end MD.Props

/-
Sanity checks at `Rat` (`#eval`, not part of the proofs):
  isoFit (some .expectile) (1/4 : Rat) true  [3,1,2,2,5,4] [1,3,2,4,5,6] (some [1,2,1,1,3,1])
    = .ok ([1, 3, 4, 5], [19/9, 19/9, 51/10, 51/10])
  isoFit (some .expectile) (1/4 : Rat) false [3,1,2,2,5,4] [1,3,2,4,5,6] none
    = .ok ([1, 2, 5], [3, 8/3, 8/3])
  isoFit (some .quantile) (1/3 : Rat) true [3,1,2,2,5,4,4] [1,3,2,4,5,6,0] none
    = .ok ([1, 4, 5], [3/2, 3/2, 5])
  isoFit (some .median) (7 : Rat) false [3,1,2,2,5,4,4] [1,3,2,4,5,6,0] none
    = .ok ([1, 2, 2, 3, 5], [3, 5/2, 5/2, 2, 2])
  isoFit (some .quantile) (1/3 : Rat) true [3,1,2,2,5,4,4] [1,3,2,4,5,6,0] (some [1,1,1,1,1,1,1])
    = .error .notImplemented        -- hence `C11_fit_optimal_quantile/median` are stated for `none`

`#print axioms` (observed with `lake env lean MD/Props/C11b.lean`):
'MD.Props.C11_fit_ok_unweighted' depends on axioms: [propext, Classical.choice, Quot.sound]
'MD.Props.C11_fit_optimal_mean_any_weights' depends on axioms: [propext, Classical.choice, Quot.sound]
'MD.Props.C11_fit_optimal_expectile' depends on axioms: [propext, Classical.choice, Quot.sound]
'MD.Props.C11_fit_optimal_quantile' depends on axioms: [propext, Classical.choice, Quot.sound]
'MD.Props.C11_fit_optimal_median' depends on axioms: [propext, Classical.choice, Quot.sound]
'MD.Props.C11_fit_unique_mean' depends on axioms: [propext, Classical.choice, Quot.sound]
'MD.Props.C11_fit_unique_expectile' depends on axioms: [propext, Classical.choice, Quot.sound]
'MD.Props.C11_fit_unique_mean_of_optimal' depends on axioms: [propext, Classical.choice, Quot.sound]
-/
