import MD.Proofs.TableLemmas
import Mathlib.Algebra.Order.Field.Rat
import Mathlib.Tactic.NormNum.Basic

/-! # C13 — `bin_feature(feature, feature_type, n_bins, bin_method)`

"Every row is assigned to exactly one bin; null and NaN values get the separate null bin; for
numeric features bins are intervals whose reported edges contain the value (left-open except the
first), bin numbers are non-decreasing in the feature value, equal values share a bin, and
'quantile'/'uniform' binning yields at most n_bins groups including the null bin. For string-like
features the most frequent categories are kept (ties in natural order), the rest are pooled under a
fresh name 'other k' with k the number of pooled categories (k >= 2), never colliding with a real
category."

Property theorems about the model functions `binNumeric` (numeric branch) and `binString`
(string / categorical / enum branch) of `MD/Model/Table.lean`.  Helper lemmas and the auxiliary
names `tbl_nonNull`, `tbl_hasNulls`, `tbl_nBinsEf`, `tbl_inner`, `tbl_full` (the let-bound
quantities of `binNumeric`) live in `MD/Proofs/TableLemmas.lean`. -/

set_option linter.unusedSectionVars false
set_option linter.unusedVariables false
set_option linter.deprecated false

namespace MD.Props
variable {K : Type} [Field K] [LinearOrder K] [IsStrictOrderedRing K]

/-! ## numeric features -/

/-- `Cell.lt` is a strict total order on the non-null cells and `Cell.le a b = !Cell.lt b a` -/
theorem C13_cell_order :
    (∀ a : Cell K, Cell.lt a a = false) ∧
    (∀ a b c : Cell K, Cell.lt a b = true → Cell.lt b c = true → Cell.lt a c = true) ∧
    (∀ a b : Cell K, a.isNull = false → b.isNull = false →
      Cell.lt a b = true ∨ a = b ∨ Cell.lt b a = true) ∧
    (∀ a b : Cell K, Cell.le a b = !Cell.lt b a) :=
  ⟨tbl_lt_irrefl, fun _ _ _ => tbl_lt_trans, tbl_lt_trichotomy, fun _ _ => rfl⟩

/-- every row gets exactly one bin entry and one edges entry -/
theorem C13_total (m : BinMethod) (nBins : Nat) (given : List K) (feature : List (Cell K)) :
    (binNumeric m nBins given feature).bins.length = feature.length ∧
    (binNumeric m nBins given feature).edges.length = feature.length := by
  rw [tbl_binNumeric_edges, tbl_binNumeric_bins]
  simp

/-- the bin of a row is the null bin iff the cell is null/NaN (all-null early return included) -/
theorem C13_null_bin (m : BinMethod) (nBins : Nat) (given : List K) (feature : List (Cell K))
    (r : Nat) (x : Cell K) (hx : feature[r]? = some x) :
    ((binNumeric m nBins given feature).bins[r]? = some none ↔ x.isNull = true) ∧
    ((binNumeric m nBins given feature).edges[r]? = some none ↔ x.isNull = true) := by
  rw [tbl_bins_row m nBins given feature r x hx, tbl_edges_row m nBins given feature r x hx]
  cases x.isNull <;> simp

/-- `getElem` form of `C13_null_bin` -/
theorem C13_null_bin' (m : BinMethod) (nBins : Nat) (given : List K) (feature : List (Cell K))
    (r : Nat) (hr : r < feature.length) :
    (binNumeric m nBins given feature).bins[r]'(by rw [(C13_total m nBins given feature).1]; exact hr) = none ↔
      feature[r].isNull = true := by
  have h := (C13_null_bin m nBins given feature r feature[r] (List.getElem?_eq_getElem hr)).1
  rw [List.getElem?_eq_getElem (by rw [(C13_total m nBins given feature).1]; exact hr)] at h
  simpa using h

/-- the bin number of a non-null row is `digitize inner x`, which is monotone in `x` -/
theorem C13_digitize_monotone (edges : List (Cell K)) (x x' : Cell K) (hx' : x'.isNull = false)
    (h : Cell.le x x' = true) : digitize edges x ≤ digitize edges x' :=
  tbl_digitize_mono edges hx' h

/-- bin numbers are non-decreasing in the feature value -/
theorem C13_monotone (m : BinMethod) (nBins : Nat) (given : List K) (feature : List (Cell K))
    (r r' : Nat) (x x' : Cell K) (hx : feature[r]? = some x) (hx' : feature[r']? = some x')
    (hn : x.isNull = false) (hn' : x'.isNull = false) (hle : Cell.le x x' = true) :
    ∃ i i', (binNumeric m nBins given feature).bins[r]? = some (some i) ∧
      (binNumeric m nBins given feature).bins[r']? = some (some i') ∧ i ≤ i' := by
  refine ⟨digitize (tbl_inner m nBins given feature) x, digitize (tbl_inner m nBins given feature) x', ?_, ?_,
    tbl_digitize_mono _ hn' hle⟩
  · rw [tbl_bins_row m nBins given feature r x hx]; simp [hn]
  · rw [tbl_bins_row m nBins given feature r' x' hx']; simp [hn']

/-- equal values share a bin (and the reported edges) -/
theorem C13_equal_share (m : BinMethod) (nBins : Nat) (given : List K) (feature : List (Cell K))
    (r r' : Nat) (h : feature[r]? = feature[r']?) :
    (binNumeric m nBins given feature).bins[r]? = (binNumeric m nBins given feature).bins[r']? ∧
    (binNumeric m nBins given feature).edges[r]? = (binNumeric m nBins given feature).edges[r']? := by
  rw [tbl_binNumeric_edges, tbl_binNumeric_bins]
  simp only [List.getElem?_map, h, and_self]

/-- order-equivalent non-null cells (`x ≤ x'` and `x' ≤ x`) are equal, hence share a bin -/
theorem C13_equal_share_order (x x' : Cell K) (hn : x.isNull = false) (hn' : x'.isNull = false)
    (h1 : Cell.le x x' = true) (h2 : Cell.le x' x = true) (edges : List (Cell K)) :
    x = x' ∧ digitize edges x = digitize edges x' := by
  have := tbl_le_antisymm hn hn' h1 h2
  exact ⟨this, by rw [this]⟩

/-- generic statement: for weakly (a fortiori strictly) increasing non-null interior edges and
`lo ≤ x ≤ hi`, bin `i = digitize inner x` of `full = [lo] ++ inner ++ [hi]` contains `x`:
`full[i] < x ≤ full[i+1]`, with `full[0] ≤ x` for the first bin -/
theorem C13_edges_contain (inner : List (Cell K)) (lo hi x : Cell K)
    (hs : inner.Pairwise (fun a b => Cell.le a b = true))
    (hn : ∀ e ∈ inner, e.isNull = false)
    (hlo : Cell.le lo x = true) (hhi : Cell.le x hi = true) :
    let i := digitize inner x
    let full := [lo] ++ inner ++ [hi]
    Cell.le x (full.getD (i + 1) .null) = true ∧
    (i = 0 → Cell.le (full.getD i .null) x = true) ∧
    (0 < i → Cell.lt (full.getD i .null) x = true) :=
  tbl_edges_contain inner lo hi x hs hn hlo hhi

/-- the same with the strict sortedness hypothesis of the property text -/
theorem C13_edges_contain_strict (inner : List (Cell K)) (lo hi x : Cell K)
    (hs : inner.Pairwise (fun a b => Cell.lt a b = true))
    (hn : ∀ e ∈ inner, e.isNull = false)
    (hlo : Cell.le lo x = true) (hhi : Cell.le x hi = true) :
    let i := digitize inner x
    let full := [lo] ++ inner ++ [hi]
    Cell.le x (full.getD (i + 1) .null) = true ∧
    (i = 0 → Cell.le (full.getD i .null) x = true) ∧
    (0 < i → Cell.lt (full.getD i .null) x = true) :=
  tbl_edges_contain inner lo hi x (tbl_lt_imp_le_pairwise hs) hn hlo hhi

/-- `quantile`: the interior edges (output of `cellDedupSorted`) are strictly increasing -/
theorem C13_quantile_edges_sorted (l : List (Cell K)) :
    (cellDedupSorted l).Pairwise (fun a b => Cell.lt a b = true) :=
  (tbl_dedup_spec l).1

theorem C13_quantile_edges_sorted' (nonNull : List (Cell K)) (nBinsEf : Nat) (given : List K) :
    (interiorEdges .quantile nonNull nBinsEf given).Pairwise (fun a b => Cell.lt a b = true) := by
  unfold interiorEdges
  exact (tbl_dedup_spec _).1

/-- `uniform`: the interior edges are strictly increasing as soon as the column has two different
finite values (`fmin < fmax`); they are always weakly increasing -/
theorem C13_uniform_edges_sorted (nBins : Nat) (given : List K) (feature : List (Cell K))
    (a b : K) (ha : Cell.fin a ∈ feature) (hb : Cell.fin b ∈ feature) (hab : a < b) :
    (tbl_inner .uniform nBins given feature).Pairwise (fun a b => Cell.lt a b = true) :=
  tbl_inner_uniform_sorted nBins given feature a b ha hb hab

/-- the uniform grid itself is strictly increasing in `i` when `fmin < fmax` -/
theorem C13_uniform_grid_sorted (fmin fmax : K) (n k : Nat) (hn : 0 < n) (h : fmin < fmax) :
    ((List.range k).map (fun i => Cell.fin (fmin + (fmax - fmin) * ((i + 1 : Nat) : K) / (n : K)))).Pairwise
      (fun a b => Cell.lt a b = true) :=
  tbl_uniformGrid_sorted fmin fmax n k hn h

/-- all three methods: the interior edges used by `binNumeric` are non-null and weakly increasing
(for `numpy` provided the supplied edges are sorted) -/
theorem C13_edges_sorted (m : BinMethod) (nBins : Nat) (given : List K) (feature : List (Cell K))
    (hg : m = .numpy → given.Pairwise (· ≤ ·)) :
    (tbl_inner m nBins given feature).Pairwise (fun a b => Cell.le a b = true) ∧
    ∀ e ∈ tbl_inner m nBins given feature, e.isNull = false :=
  ⟨tbl_inner_sorted_le m nBins given feature hg, tbl_inner_nonNull m nBins given feature⟩

/-- `binNumeric`: the reported edges `(l, u)` of a non-null row contain its value:
`l < x ≤ u`, and `l ≤ x ≤ u` in the first bin; `l`, `u` are consecutive entries of
`full = [min] ++ inner ++ [max]` -/
theorem C13_edges_contain_binNumeric (m : BinMethod) (nBins : Nat) (given : List K)
    (feature : List (Cell K)) (hg : m = .numpy → given.Pairwise (· ≤ ·))
    (r : Nat) (x : Cell K) (hx : feature[r]? = some x) (hn : x.isNull = false) :
    ∃ i l u, (binNumeric m nBins given feature).bins[r]? = some (some i) ∧
      (binNumeric m nBins given feature).edges[r]? = some (some (l, u)) ∧
      l = (tbl_full m nBins given feature).getD i .null ∧
      u = (tbl_full m nBins given feature).getD (i + 1) .null ∧
      Cell.le x u = true ∧ (i = 0 → Cell.le l x = true) ∧ (0 < i → Cell.lt l x = true) := by
  obtain ⟨hlo, hhi⟩ := tbl_lo_hi feature x (List.mem_of_getElem? hx) hn
  have key := tbl_edges_contain (tbl_inner m nBins given feature) _ _ x
    (tbl_inner_sorted_le m nBins given feature hg) (tbl_inner_nonNull m nBins given feature) hlo hhi
  refine ⟨digitize (tbl_inner m nBins given feature) x, _, _, ?_, ?_, rfl, rfl, key⟩
  · rw [tbl_bins_row m nBins given feature r x hx]; simp [hn]
  · rw [tbl_edges_row m nBins given feature r x hx]; simp [hn]

/-- `quantile` / `uniform` with `n_bins ≥ 2`: every bin index is `≤ n_bins_ef − 1`
(`n_bins_ef = max 1 (n_bins − has_nulls)`), so there are at most `n_bins_ef` non-null bins plus the
null bin: at most `n_bins` distinct bins, and the returned `n_bins` is at most the requested one -/
theorem C13_at_most_n_bins (m : BinMethod) (hm : m = .quantile ∨ m = .uniform) (nBins : Nat)
    (h2 : 2 ≤ nBins) (given : List K) (feature : List (Cell K)) :
    (∀ i, some i ∈ (binNumeric m nBins given feature).bins → i ≤ tbl_nBinsEf nBins feature - 1) ∧
    (binNumeric m nBins given feature).bins.dedup.length ≤ (binNumeric m nBins given feature).nBins ∧
    (binNumeric m nBins given feature).nBins ≤ nBins := by
  have hm' : m ≠ .numpy := by rcases hm with rfl | rfl <;> decide
  refine ⟨fun i hi => le_trans (tbl_bins_le m nBins given feature i hi)
    (tbl_inner_length_le m hm' nBins given feature), tbl_bins_distinct_le m nBins given feature,
    tbl_nBins_le m hm' nBins h2 given feature⟩

/-- `numpy` estimators: `n_bins = len(interior edges) + 1 + has_nulls`, every bin index is at most
the number of interior edges and the number of distinct bins is at most the returned `n_bins` -/
theorem C13_numpy_n_bins (nBins : Nat) (given : List K) (feature : List (Cell K))
    (hne : ∃ c ∈ feature, c.isNull = false) :
    (binNumeric .numpy nBins given feature).nBins = given.length + 1 + tbl_hasNulls feature ∧
    (∀ i, some i ∈ (binNumeric .numpy nBins given feature).bins → i ≤ given.length) ∧
    (binNumeric .numpy nBins given feature).bins.dedup.length ≤ (binNumeric .numpy nBins given feature).nBins := by
  obtain ⟨c, hc, hcn⟩ := hne
  have hnn : tbl_nonNull feature ≠ [] := List.ne_nil_of_mem ((tbl_mem_nonNull feature c).2 ⟨hc, hcn⟩)
  refine ⟨?_, ?_, tbl_bins_distinct_le _ nBins given feature⟩
  · rw [tbl_binNumeric_nBins, if_neg hnn, if_pos rfl, tbl_inner_numpy, List.length_map]
  · intro i hi
    have := tbl_bins_le .numpy nBins given feature i hi
    rwa [tbl_inner_numpy, List.length_map] at this

/-- all-null column: one (null) bin -/
theorem C13_all_null (m : BinMethod) (nBins : Nat) (given : List K) (feature : List (Cell K))
    (h : ∀ c ∈ feature, c.isNull = true) :
    (binNumeric m nBins given feature).nBins = 1 ∧
    ∀ o ∈ (binNumeric m nBins given feature).bins, o = none := by
  have hnn : tbl_nonNull feature = [] := by
    rw [List.eq_nil_iff_forall_not_mem]
    intro c hc
    have := (tbl_mem_nonNull feature c).1 hc
    rw [h c this.1] at this
    exact Bool.noConfusion this.2
  refine ⟨by rw [tbl_binNumeric_nBins, if_pos hnn], ?_⟩
  intro o ho
  rw [tbl_binNumeric_bins, List.mem_map] at ho
  obtain ⟨c, hc, rfl⟩ := ho
  simp [h c hc]

/-! ## string-like features (`Utf8`, `Categorical`, `Enum`)

`enumOrder = none`: natural order = string order, existing values = the real values of the column;
`enumOrder = some cats`: natural order = position in `cats`, existing values = `cats`.
Auxiliary names (let-bound quantities of `binString`): `tbl_sHasNulls`, `tbl_sNBinsEf`, `tbl_vc`
(sorted value counts), `tbl_keep` (kept categories), `tbl_nRemaining`, `tbl_existing`, `tbl_name`. -/

/-- every row gets exactly one label -/
theorem C13_str_total (enumOrder : Option (List String)) (nBins : Nat) (feature : List (Option String)) :
    (binString enumOrder nBins feature).bins.length = feature.length := by
  rw [tbl_binString_eq]
  split <;> simp

/-- the label is null iff the value is null -/
theorem C13_str_null_bin (enumOrder : Option (List String)) (nBins : Nat) (feature : List (Option String))
    (r : Nat) (v : Option String) (hv : feature[r]? = some v) :
    (binString enumOrder nBins feature).bins[r]? = some none ↔ v = none := by
  rw [tbl_bins_row_str, hv]
  split
  · simp
  · cases v <;> simp

/-- every non-null row keeps its own value or gets the pooled name -/
theorem C13_str_kept_or_pooled (enumOrder : Option (List String)) (nBins : Nat)
    (feature : List (Option String)) (r : Nat) (s : String) (hs : feature[r]? = some (some s)) :
    (binString enumOrder nBins feature).bins[r]? = some (some s) ∨
    (s ∉ tbl_keep enumOrder nBins feature ∧
     (binString enumOrder nBins feature).pooled = some (tbl_name enumOrder nBins feature) ∧
     (binString enumOrder nBins feature).bins[r]? = some (some (tbl_name enumOrder nBins feature))) := by
  rw [tbl_bins_row_str, tbl_pooled_str, hs]
  by_cases h : tbl_sNBinsEf nBins feature ≥ (tbl_vc enumOrder feature).length
  · left; rw [if_pos h]
  · rw [if_neg h, if_neg h]
    by_cases hk : s ∈ tbl_keep enumOrder nBins feature
    · left; simp [hk]
    · right
      exact ⟨hk, rfl, by simp [hk]⟩

/-- for `Utf8`/`Categorical` columns the real values of the column are exactly the "existing values"
which the fresh name avoids (for an `Enum` column the corresponding fact, "the values are declared
categories", is a polars invariant and appears as hypothesis `hdecl` below) -/
theorem C13_valuesDeclared_none (feature : List (Option String)) (s : String) :
    some s ∈ feature ↔ s ∈ tbl_existing none feature :=
  (tbl_mem_distinctVals feature s).symm

/-- a row keeps its value iff nothing is pooled or the value is one of the kept categories -/
theorem C13_str_kept_iff (enumOrder : Option (List String)) (nBins : Nat)
    (feature : List (Option String))
    (hdecl : ∀ s, some s ∈ feature → s ∈ tbl_existing enumOrder feature)
    (r : Nat) (s : String) (hs : feature[r]? = some (some s)) :
    (binString enumOrder nBins feature).bins[r]? = some (some s) ↔
      ((binString enumOrder nBins feature).pooled = none ∨ s ∈ tbl_keep enumOrder nBins feature) := by
  rw [tbl_bins_row_str, tbl_pooled_str, hs]
  by_cases h : tbl_sNBinsEf nBins feature ≥ (tbl_vc enumOrder feature).length
  · rw [if_pos h, if_pos h]; simp
  · rw [if_neg h, if_neg h]
    have hne : tbl_name enumOrder nBins feature ≠ s := by
      intro he
      apply tbl_name_not_mem enumOrder nBins feature
      rw [he]
      exact hdecl s (List.mem_of_getElem? hs)
    by_cases hk : s ∈ tbl_keep enumOrder nBins feature
    · simp [hk]
    · simp [hk, hne]

/-- rows with equal values get equal labels -/
theorem C13_str_equal_share (enumOrder : Option (List String)) (nBins : Nat)
    (feature : List (Option String)) (r r' : Nat) (h : feature[r]? = feature[r']?) :
    (binString enumOrder nBins feature).bins[r]? = (binString enumOrder nBins feature).bins[r']? := by
  rw [tbl_bins_row_str, tbl_bins_row_str, h]

/-- the renaming loop `while name in existing: name = "_" + name` ends with a fresh name within
`existing.length + 1` rounds: the candidates have pairwise different lengths (pigeonhole) -/
theorem C13_collision_loop_terminates (existing : List String) (name : String) (fuel : Nat)
    (h : existing.length < fuel) : binString.fresh existing name fuel ∉ existing :=
  tbl_fresh_not_mem existing name fuel (lt_of_le_of_lt List.countP_le_length h)

/-- the candidates of the loop have different lengths, hence are pairwise distinct -/
theorem C13_candidates_distinct (u v : Nat) (name : String) (h : u ≠ v) :
    String.mk (List.replicate u '_') ++ name ≠ String.mk (List.replicate v '_') ++ name := by
  intro he
  have := congrArg String.length he
  simp only [String.length_append, tbl_mk_eq, String.length_ofList, List.length_replicate] at this
  omega

/-- the pooled name never collides with an existing value: a real value of the column
(`enumOrder = none`) resp. a declared category of the Enum -/
theorem C13_no_collision (enumOrder : Option (List String)) (nBins : Nat) (feature : List (Option String))
    (name : String) (h : (binString enumOrder nBins feature).pooled = some name) :
    name ∉ (match enumOrder with
      | some cats => cats
      | none => distinctVals feature) := by
  rw [tbl_pooled_str] at h
  split at h
  · cases h
  · rw [← Option.some.inj h]
    exact tbl_name_not_mem enumOrder nBins feature

/-- `enumOrder = none`: the pooled name is not a value of the column -/
theorem C13_no_collision_values (nBins : Nat) (feature : List (Option String))
    (name : String) (h : (binString none nBins feature).pooled = some name) :
    some name ∉ feature := by
  have := C13_no_collision none nBins feature name h
  simp only [] at this
  rwa [tbl_mem_distinctVals] at this

/-- when pooling happens (`n_bins_ef < #categories`): the pooled name is `"other k"` up to leading
underscores, where `k = #categories − (n_bins_ef − 1) ≥ 2` is the number of pooled distinct
categories -/
theorem C13_other_count (enumOrder : Option (List String)) (nBins : Nat) (feature : List (Option String))
    (hpool : tbl_sNBinsEf nBins feature < (tbl_vc enumOrder feature).length) :
    let k := (tbl_vc enumOrder feature).length - (tbl_sNBinsEf nBins feature - 1)
    2 ≤ k ∧
    ((distinctVals feature).filter (fun s => !(tbl_keep enumOrder nBins feature).contains s)).length = k ∧
    ∃ name u, (binString enumOrder nBins feature).pooled = some name ∧
      name = String.mk (List.replicate u '_') ++ "other " ++ formatInteger k := by
  intro k
  have h1 := tbl_one_le_sNBinsEf nBins feature
  refine ⟨by omega, tbl_pooled_count enumOrder nBins feature, ?_⟩
  obtain ⟨u, hu⟩ := tbl_name_form enumOrder nBins feature
  refine ⟨tbl_name enumOrder nBins feature, u, ?_, hu⟩
  rw [tbl_pooled_str, if_neg (by omega)]

/-- conversely nothing is pooled when the categories fit -/
theorem C13_no_pooling (enumOrder : Option (List String)) (nBins : Nat) (feature : List (Option String))
    (h : (tbl_vc enumOrder feature).length ≤ tbl_sNBinsEf nBins feature) :
    (binString enumOrder nBins feature).pooled = none ∧
    (binString enumOrder nBins feature).bins = feature := by
  rw [tbl_binString_eq, if_pos h]
  exact ⟨rfl, rfl⟩

/-- `_format_integer` prints numbers below 1000 unchanged -/
theorem C13_format_small (n : Nat) (h : n < 1000) : formatInteger n = toString n :=
  tbl_formatInteger_small n h

/-- the most frequent categories are kept, ties in natural order: `value_counts` is sorted by
(count descending, natural order ascending), the kept categories are its first `n_bins_ef − 1`
entries, so every kept category `a` and every pooled category `b` satisfy
`count a > count b`, or `count a = count b` and `b` is not before `a` in the natural order -/
theorem C13_top_k (enumOrder : Option (List String)) (nBins : Nat) (feature : List (Option String)) :
    (tbl_vc enumOrder feature).Pairwise (fun a b =>
      countOcc feature a > countOcc feature b ∨
      (countOcc feature a = countOcc feature b ∧ catLt enumOrder b a = false)) ∧
    tbl_keep enumOrder nBins feature = (tbl_vc enumOrder feature).take (tbl_sNBinsEf nBins feature - 1) ∧
    ∀ a b, a ∈ tbl_keep enumOrder nBins feature → some b ∈ feature →
      b ∉ tbl_keep enumOrder nBins feature →
      countOcc feature a > countOcc feature b ∨
      (countOcc feature a = countOcc feature b ∧ catLt enumOrder b a = false) := by
  refine ⟨(tbl_vc_sorted enumOrder feature).imp (fun h => (tbl_vcLe_iff _ _ _ _).1 h), rfl, ?_⟩
  intro a b ha hb hb'
  exact (tbl_vcLe_iff _ _ _ _).1 (tbl_keep_before enumOrder nBins feature a b ha hb hb')

/-- in particular every kept category is at least as frequent as every pooled one -/
theorem C13_top_k_counts (enumOrder : Option (List String)) (nBins : Nat) (feature : List (Option String))
    (a b : String) (ha : a ∈ tbl_keep enumOrder nBins feature) (hb : some b ∈ feature)
    (hb' : b ∉ tbl_keep enumOrder nBins feature) : countOcc feature b ≤ countOcc feature a := by
  rcases (C13_top_k enumOrder nBins feature).2.2 a b ha hb hb' with h | ⟨h, _⟩ <;> omega

/-- at most `n_bins` labels (null label included) for `n_bins ≥ 2`; the number of distinct labels
never exceeds the returned `n_bins` -/
theorem C13_str_at_most_n_bins (enumOrder : Option (List String)) (nBins : Nat)
    (feature : List (Option String)) :
    (binString enumOrder nBins feature).bins.dedup.length ≤ (binString enumOrder nBins feature).nBins ∧
    (2 ≤ nBins → (binString enumOrder nBins feature).nBins ≤ nBins) :=
  ⟨tbl_sbins_distinct_le enumOrder nBins feature, fun h2 => tbl_sNBins_le enumOrder nBins h2 feature⟩

/-! ## examples: the hypotheses are satisfiable on concrete inputs

`#eval` at `K = Rat` (cf. the differential test):
* `(binNumeric .quantile 3 [] [.fin 1, .fin 2, .null, .fin 5, .fin 2, .posInf]).bins`
    `= [some 0, some 0, none, some 1, some 0, some 1]`, `nBins = 3`
* `(binNumeric .uniform 4 [] [.fin 1, .fin 2, .null, .fin 5, .fin 2, .negInf]).bins`
    `= [some 0, some 0, none, some 2, some 0, some 0]`
* `binString none 2 [some "a", some "a", some "b", some "other 2"]`
    `= { nBins := 2, bins := [some "a", some "a", some "_other 2", some "_other 2"], pooled := some "_other 2" }`
* `binString (some ["c", "b", "a", "other 2"]) 2 [some "a", some "b", some "a", some "c"]`
    `= { nBins := 2, bins := [some "a", some "_other 2", some "a", some "_other 2"], pooled := some "_other 2" }` -/

/-- `C13_monotone` on a column with a null in between -/
example : ∃ i i', (binNumeric .quantile 3 [] [Cell.fin (1 : ℚ), .null, .fin 3]).bins[0]? = some (some i) ∧
    (binNumeric .quantile 3 [] [Cell.fin (1 : ℚ), .null, .fin 3]).bins[2]? = some (some i') ∧ i ≤ i' :=
  C13_monotone .quantile 3 [] [Cell.fin (1 : ℚ), .null, .fin 3] 0 2 (.fin 1) (.fin 3) rfl rfl rfl rfl
    (by simp [Cell.le, Cell.lt])

/-- `C13_null_bin` -/
example : (binNumeric .uniform 3 [] [Cell.fin (1 : ℚ), .null, .fin 3]).bins[1]? = some none :=
  ((C13_null_bin .uniform 3 [] [Cell.fin (1 : ℚ), .null, .fin 3] 1 .null rfl).1).2 rfl

/-- `C13_edges_contain_binNumeric` with supplied (`numpy`) edges: they have to be sorted -/
example : ([1, 2] : List ℚ).Pairwise (· ≤ ·) := by simp

example : ∃ i l u, (binNumeric .numpy 5 [1, 2] [Cell.fin (3 / 2 : ℚ), .null, .posInf]).bins[0]? = some (some i) ∧
    (binNumeric .numpy 5 [1, 2] [Cell.fin (3 / 2 : ℚ), .null, .posInf]).edges[0]? = some (some (l, u)) ∧
    Cell.le (.fin (3 / 2)) u = true ∧ (0 < i → Cell.lt l (.fin (3 / 2)) = true) := by
  obtain ⟨i, l, u, h1, h2, _, _, h5, _, h7⟩ :=
    C13_edges_contain_binNumeric .numpy 5 [1, 2] [Cell.fin (3 / 2 : ℚ), .null, .posInf]
      (fun _ => by simp) 0 (.fin (3 / 2)) rfl rfl
  exact ⟨i, l, u, h1, h2, h5, h7⟩

/-- `C13_uniform_edges_sorted`: two different finite values -/
example : (tbl_inner .uniform 4 [] [Cell.fin (1 : ℚ), .negInf, .fin 3]).Pairwise
    (fun a b => Cell.lt a b = true) :=
  C13_uniform_edges_sorted 4 [] [Cell.fin (1 : ℚ), .negInf, .fin 3] 1 3 (by simp) (by simp) (by norm_num)

/-- `C13_at_most_n_bins` -/
example : (binNumeric .quantile 3 [] [Cell.fin (1 : ℚ), .null, .fin 3, .fin 7, .fin 9]).nBins ≤ 3 :=
  (C13_at_most_n_bins .quantile (Or.inl rfl) 3 (by norm_num) [] _).2.2

/-- `C13_numpy_n_bins`: a column with a non-null cell -/
example : ∃ c ∈ [Cell.fin (1 : ℚ), .null], c.isNull = false := ⟨.fin 1, by simp, rfl⟩

/-- `C13_all_null` -/
example : ∀ c ∈ [(Cell.null : Cell ℚ), .null], c.isNull = true := by simp [Cell.isNull]

/-- `C13_str_kept_or_pooled` / `C13_str_null_bin` on a column with a null -/
example : (binString none 3 [some "a", some "b", none, some "a", some "c"]).bins[2]? = some none :=
  (C13_str_null_bin none 3 [some "a", some "b", none, some "a", some "c"] 2 none rfl).2 rfl

/-- `C13_other_count`: three categories, a null, `n_bins = 3`, so `n_bins_ef = 2 < 3` -/
example : tbl_sNBinsEf 3 [some "a", some "b", none, some "a", some "c"] <
    (tbl_vc none [some "a", some "b", none, some "a", some "c"]).length := by
  rw [tbl_vc_length]; decide

/-- `C13_no_pooling`: the categories fit -/
example : (tbl_vc none [some "a", some "b", none, some "a"]).length ≤
    tbl_sNBinsEf 3 [some "a", some "b", none, some "a"] := by
  rw [tbl_vc_length]; decide

/-- `C13_collision_loop_terminates`: the start name collides once -/
example : binString.fresh ["a", "other 2"] "other 2" 3 ∉ ["a", "other 2"] :=
  C13_collision_loop_terminates ["a", "other 2"] "other 2" 3 (by decide)

/-- `C13_str_kept_iff` for an Enum column: the values are declared categories -/
example : ∀ s, some s ∈ [some "a", some "c", none] → s ∈ tbl_existing (some ["a", "b", "c"]) [some "a", some "c", none] := by
  intro s hs
  simp at hs
  rcases hs with rfl | rfl <;> simp [tbl_existing]

/-- `C13_format_small` (tests) -/
example : formatInteger 2 = "2" := by decide
example : formatInteger 17 = "17" := by decide
example : formatInteger 999 = "999" := by rw [C13_format_small 999 (by norm_num)]; rfl

end MD.Props

/-
`#print axioms` (observed with `lake env lean MD/Props/C13.lean`):
'MD.Props.C13_cell_order' depends on axioms: [propext, Quot.sound]
'MD.Props.C13_total' depends on axioms: [propext, Quot.sound]
'MD.Props.C13_null_bin' depends on axioms: [propext, Quot.sound]
'MD.Props.C13_null_bin'' depends on axioms: [propext, Quot.sound]
'MD.Props.C13_digitize_monotone' depends on axioms: [propext, Quot.sound]
'MD.Props.C13_monotone' depends on axioms: [propext, Quot.sound]
'MD.Props.C13_equal_share' depends on axioms: [propext, Quot.sound]
'MD.Props.C13_equal_share_order' depends on axioms: [propext, Quot.sound]
'MD.Props.C13_edges_contain' depends on axioms: [propext, Classical.choice, Quot.sound]
'MD.Props.C13_edges_contain_strict' depends on axioms: [propext, Classical.choice, Quot.sound]
'MD.Props.C13_quantile_edges_sorted' depends on axioms: [propext, Classical.choice, Quot.sound]
'MD.Props.C13_quantile_edges_sorted'' depends on axioms: [propext, Classical.choice, Quot.sound]
'MD.Props.C13_uniform_edges_sorted' depends on axioms: [propext, Classical.choice, Quot.sound]
'MD.Props.C13_uniform_grid_sorted' depends on axioms: [propext, Classical.choice, Quot.sound]
'MD.Props.C13_edges_sorted' depends on axioms: [propext, Classical.choice, Quot.sound]
'MD.Props.C13_edges_contain_binNumeric' depends on axioms: [propext, Classical.choice, Quot.sound]
'MD.Props.C13_at_most_n_bins' depends on axioms: [propext, Classical.choice, Quot.sound]
'MD.Props.C13_numpy_n_bins' depends on axioms: [propext, Classical.choice, Quot.sound]
'MD.Props.C13_all_null' depends on axioms: [propext, Classical.choice, Quot.sound]
'MD.Props.C13_str_total' depends on axioms: [propext, Classical.choice, Quot.sound]
'MD.Props.C13_str_null_bin' depends on axioms: [propext, Classical.choice, Quot.sound]
'MD.Props.C13_str_kept_or_pooled' depends on axioms: [propext, Classical.choice, Quot.sound]
'MD.Props.C13_valuesDeclared_none' depends on axioms: [propext, Classical.choice, Quot.sound]
'MD.Props.C13_str_kept_iff' depends on axioms: [propext, Classical.choice, Quot.sound]
'MD.Props.C13_str_equal_share' depends on axioms: [propext, Classical.choice, Quot.sound]
'MD.Props.C13_collision_loop_terminates' depends on axioms: [propext, Classical.choice, Quot.sound]
'MD.Props.C13_candidates_distinct' depends on axioms: [propext, Classical.choice, Quot.sound]
'MD.Props.C13_no_collision' depends on axioms: [propext, Classical.choice, Quot.sound]
'MD.Props.C13_no_collision_values' depends on axioms: [propext, Classical.choice, Quot.sound]
'MD.Props.C13_other_count' depends on axioms: [propext, Classical.choice, Quot.sound]
'MD.Props.C13_no_pooling' depends on axioms: [propext, Classical.choice, Quot.sound]
'MD.Props.C13_format_small' depends on axioms: [propext, Classical.choice, Quot.sound]
'MD.Props.C13_top_k' depends on axioms: [propext, Classical.choice, Quot.sound]
'MD.Props.C13_top_k_counts' depends on axioms: [propext, Classical.choice, Quot.sound]
'MD.Props.C13_str_at_most_n_bins' depends on axioms: [propext, Classical.choice, Quot.sound]
-/
