import MD.Model.Axes
/-! C19 (last clause) — "the function draws on and returns the axes it was given and leaves the configuration
unchanged".  Theorems about the model `MD.Ax.plot` (`MD/Model/Axes.lean`) of the backend / axes block shared by
`plot_reliability_diagram`, `plot_bias` and `plot_murphy_diagram`.  Quantified over every configuration, every
pyplot state (`current`), every object identity, every number of artists. -/
namespace MD.Ax
open MD.Cfg

/-- **C19_returns_given_axes**: a matplotlib Axes handed in is the object that comes back - whatever the
configured backend and whatever pyplot's current axes are. -/
theorem C19_returns_given_axes (w : World) (a k : Nat) :
    (plot w (.mpl a) true k).out = .ok ∧ (plot w (.mpl a) true k).returned = some (.mpl a) := by
  simp [plot, select]

/-- the same for a plotly figure -/
theorem C19_returns_given_figure (w : World) (f k : Nat) :
    (plot w (.plotly f) true k).out = .ok ∧ (plot w (.plotly f) true k).returned = some (.plotly f) := by
  simp [plot, select]

/-- **C19_draws_on_returned**: every artist of a successful call is on the returned object. -/
theorem C19_draws_on_returned (w : World) (ax : AxArg) (ok : Bool) (k : Nat) (t : Target)
    (h : (plot w ax ok k).returned = some t) : ∀ d ∈ (plot w ax ok k).draws, d.target = t := by
  unfold plot at *
  cases hs : select w ax with
  | none => simp [hs] at h
  | some bt =>
    obtain ⟨b, t'⟩ := bt
    cases ok with
    | false => simp [hs] at h
    | true =>
      simp only [hs, ↓reduceIte, Option.some.injEq] at h ⊢
      subst h
      intro d hd
      simp only [List.mem_map, List.mem_range] at hd
      obtain ⟨i, _, rfl⟩ := hd
      rfl

/-- **C19_all_artists_on_given**: with an Axes given, all `k` artists are on it and none anywhere else -
in particular not on pyplot's current axes when that is a different object. -/
theorem C19_all_artists_on_given (w : World) (a k : Nat) :
    artistsOn (plot w (.mpl a) true k) (.mpl a) = k ∧
    ∀ t, t ≠ .mpl a → artistsOn (plot w (.mpl a) true k) t = 0 := by
  constructor
  · have : ∀ l : List Nat, (l.filter (fun _ => true)) = l := fun l => List.filter_eq_self.mpr (fun _ _ => rfl)
    simp [artistsOn, plot, select, List.filter_map, Function.comp_def, this]
  · intro t ht
    simp only [artistsOn, plot, select, ↓reduceIte, List.length_eq_zero_iff, List.filter_eq_nil_iff,
      List.mem_map, List.mem_range, decide_eq_true_eq]
    rintro d ⟨i, _, rfl⟩ h
    exact ht h.symm

/-- **C19_given_axes_override_config**: the backend follows the object handed in, not the configuration. -/
theorem C19_given_axes_override_config (w : World) (a f : Nat) :
    select w (.mpl a) = some (.mpl, .mpl a) ∧ select w (.plotly f) = some (.plotly, .plotly f) := by
  simp [select]

/-- **C19_default_is_current_axes**: without `ax` and with the matplotlib backend the diagram goes onto (and the
call returns) pyplot's current axes; with the plotly backend a new figure. -/
theorem C19_default_is_current_axes (w : World) (k : Nat) :
    (w.cfg = .mpl → (plot w .none true k).returned = some (.mpl w.current)) ∧
    (w.cfg = .plotly → (plot w .none true k).returned = some (.plotly w.fresh)) := by
  constructor <;> intro h <;> simp [plot, select, h]

/-- **C19_config_unchanged**: no call - successful or not - changes the configuration. -/
theorem C19_config_unchanged (w : World) (ax : AxArg) (ok : Bool) (k : Nat) : (plot w ax ok k).cfgAfter = w.cfg := by
  unfold plot
  split
  · rfl
  · split <;> rfl

/-- **C19_invalid_ax_rejected**: an `ax` that is neither `None`, an Axes nor a Figure raises `ValueError`; nothing is
drawn and nothing returned. The same holds when another argument is invalid (`argsOk = false`). -/
theorem C19_invalid_rejected (w : World) (ax : AxArg) (ok : Bool) (k : Nat) (h : ax = .other ∨ ok = false) :
    (plot w ax ok k).out = .valueError ∧ (plot w ax ok k).returned = Option.none ∧ (plot w ax ok k).draws = [] := by
  rcases h with rfl | rfl
  · simp [plot, select]
  · unfold plot; split <;> simp

/-- **C19_success_iff**: a call succeeds exactly when `ax` is acceptable and the other arguments are valid, and then
draws exactly `k` artists. -/
theorem C19_success_iff (w : World) (ax : AxArg) (ok : Bool) (k : Nat) :
    ((plot w ax ok k).out = .ok ↔ ax ≠ .other ∧ ok = true) ∧
    ((plot w ax ok k).out = .ok → (plot w ax ok k).draws.length = k) := by
  cases ax <;> cases ok <;> cases hw : w.cfg <;> simp [plot, select, hw]

/-- inside a `config_context` block the plotting call sees the block's backend, and leaving the block restores the
outer configuration (C18): the composition `with config_context(v): plot(...)` leaves the configuration as it was. -/
theorem C19_inside_context (avail : Bool) (v : Val) (s : Backend) (ax : AxArg) (ok : Bool) (k cur fr : Nat) :
    let s1 := (setCfg avail s v).1
    (plot ⟨s1, cur, fr⟩ ax ok k).cfgAfter = s1 := by
  intro s1
  exact C19_config_unchanged ⟨s1, cur, fr⟩ ax ok k

/-! concrete, non-trivial instances -/
example : (plot ⟨.plotly, 7, 9⟩ (.mpl 3) true 4).returned = some (.mpl 3) := by decide
example : artistsOn (plot ⟨.mpl, 7, 9⟩ (.mpl 3) true 4) (.mpl 7) = 0 := by decide
example : artistsOn (plot ⟨.mpl, 7, 9⟩ (.mpl 3) true 4) (.mpl 3) = 4 := by decide
example : (plot ⟨.mpl, 7, 9⟩ .none true 2).returned = some (.mpl 7) := by decide
example : (plot ⟨.mpl, 7, 9⟩ .other true 2).out = .valueError := by decide

end MD.Ax
