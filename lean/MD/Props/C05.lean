import MD.Proofs.Consistency

/-! # C05 — consistency of the scoring functions for their target functional (`K = ℝ`)

"For every finite weighted sample and every scoring function of the library, the average score of
the constant forecast equal to the sample's own target functional (weighted mean, weighted
expectile, or any value between lower and upper empirical quantile) is not larger than the average
score of any other admissible constant forecast."

A weighted sample is `d : List (Obs ℝ)`, a list of pairs `(y, w)`; through `scoreMean` it is the
pair of lists `ys`, `ws` with `d = ys.zip ws`.  Helper lemmas: `MD/Proofs/Consistency.lean`.

Real-valued scores (every model function returns `Except Err ℝ`):
* `hesVal h α y z = hesAsym α y z * (2 * hesBreg h y z)` — value of `hes h α y z` on `hesDom h y z`
  (`C05_hes_value`);
* `hqsVal h α y z = (geInd z y − α) * (gfun h z − gfun h y)` — value of `hqs` on `hqsDom h y z`;
* `logLoss y z` is total.
* `scoreDom k h α y z`, `scoreVal k h α y z`, `isTarget k α d t`: the same for all seven
  `ScoreKind`s at once (restated in `scoreDom_*`, `scoreVal_*`, `isTarget_*` below).

Layers:
1. weighted totals `Σ w · S(y, z)` (`C05_mean_consistent_hes`, `C05_mean_consistent_logloss`,
   `C05_expectile_consistent`, `C05_quantile_consistent`, named special cases in explicit form);
2. `scoreMean` (`__call__` = `np.average(score_per_obs, weights)`): structure of the average
   (`C05_scoreMean_ok`, `C05_average_is_weighted_mean`, `C05_weight_scale`, …) and the property
   itself for every `ScoreKind` (`C05_consistent`, `C05_consistent_unweighted`);
3. "a better forecast is never scored worse" (`C05_better_forecast_never_worse*`).

Findings worth knowing (true of the model, i.e. of the code):
* the target functional need not be an *admissible* forecast: for the degrees `h ≤ 1` of the
  expectile family (Poisson deviance included) a sample with all `y = 0` has mean `0`, and the
  forecast `0` is rejected with `ValueError`; the hypotheses `dm`/`dt` below ("the functional is an
  admissible forecast for every observation") are therefore needed.  No further hypothesis on the
  pair of constants is needed (`hesDom_pred`).
* the quantile statements need no restriction on the level and hold for weighted counts, although
  `isotonic_regression` itself ignores weights for quantiles. -/

set_option linter.unusedSectionVars false

namespace MD.Props
open Real

/-! ## definitions restated -/

theorem hesVal_def (h α y z : ℝ) : hesVal h α y z = hesAsym α y z * (2 * hesBreg h y z) := rfl

theorem hqsVal_def (h α y z : ℝ) :
    hqsVal h α y z = (geInd z y - α) * (gfun h z - gfun h y) := rfl

theorem scoreDom_hes (h α y z : ℝ) :
    scoreDom .hes h α y z ↔ (0 < α ∧ α < 1) ∧ hesDom h y z := Iff.rfl
theorem scoreDom_hqs (h α y z : ℝ) :
    scoreDom .hqs h α y z ↔ (0 < α ∧ α < 1) ∧ hqsDom h y z := Iff.rfl
/-- log loss (the code has no check): the pairs on which the real model agrees with numpy —
`y ∈ [0,1]` and `z ∈ (0,1)`, or the perfect boundary forecasts `y = z ∈ {0,1}` (score `0`) -/
theorem scoreDom_logloss (h α y z : ℝ) :
    scoreDom .logloss h α y z ↔ (0 ≤ y ∧ y ≤ 1) ∧ ((0 < z ∧ z < 1) ∨ y = z) := Iff.rfl
theorem scoreDom_squaredError (h α y z : ℝ) : scoreDom .squaredError h α y z ↔ True := Iff.rfl
theorem scoreDom_poisson (h α y z : ℝ) : scoreDom .poisson h α y z ↔ 0 ≤ y ∧ 0 < z := Iff.rfl
theorem scoreDom_gamma (h α y z : ℝ) : scoreDom .gamma h α y z ↔ 0 < y ∧ 0 < z := Iff.rfl
theorem scoreDom_pinball (h α y z : ℝ) : scoreDom .pinball h α y z ↔ 0 < α ∧ α < 1 := Iff.rfl

theorem scoreVal_hes (h α y z : ℝ) : scoreVal .hes h α y z = hesVal h α y z := rfl
theorem scoreVal_hqs (h α y z : ℝ) : scoreVal .hqs h α y z = hqsVal h α y z := rfl
theorem scoreVal_logloss (h α y z : ℝ) : scoreVal .logloss h α y z = logLoss y z := rfl
theorem scoreVal_squaredError (h α y z : ℝ) : scoreVal .squaredError h α y z = (z - y) ^ 2 :=
  cons_hesVal_two y z
theorem scoreVal_poisson (h α y z : ℝ) (hy : 0 ≤ y) (hz : 0 < z) :
    scoreVal .poisson h α y z = 2 * (xlogy y (y / z) - y + z) := cons_hesVal_one hy hz
theorem scoreVal_gamma (h α y z : ℝ) (hy : 0 < y) (hz : 0 < z) :
    scoreVal .gamma h α y z = 2 * (y / z - Real.log (y / z) - 1) := cons_hesVal_zero hy hz
theorem scoreVal_pinball (h α y z : ℝ) :
    scoreVal .pinball h α y z = (geInd z y - α) * (z - y) := cons_hqsVal_one α y z

/-- expectile family: the target is the weighted expectile of the model -/
theorem isTarget_hes (α : ℝ) (d : List (Obs ℝ)) (t : ℝ) :
    isTarget .hes α d t ↔ t = expectile α d := Iff.rfl
/-- quantile family: any `t` between the weighted lower and upper `α`-quantile, i.e.
`Σ w (1{y < t} − α) ≤ 0 ≤ Σ w (1{y ≤ t} − α)` -/
theorem isTarget_hqs (α : ℝ) (d : List (Obs ℝ)) (t : ℝ) :
    isTarget .hqs α d t ↔
      (d.map (fun o => o.2 * ((if o.1 < t then (1 : ℝ) else 0) - α))).sum ≤ 0 ∧
      0 ≤ (d.map (fun o => o.2 * ((if o.1 ≤ t then (1 : ℝ) else 0) - α))).sum := Iff.rfl
theorem isTarget_pinball (α : ℝ) (d : List (Obs ℝ)) (t : ℝ) :
    isTarget .pinball α d t ↔ isTarget .hqs α d t := Iff.rfl
theorem isTarget_logloss (α : ℝ) (d : List (Obs ℝ)) (t : ℝ) :
    isTarget .logloss α d t ↔ t = wmean d := Iff.rfl
theorem isTarget_squaredError (α : ℝ) (d : List (Obs ℝ)) (t : ℝ) :
    isTarget .squaredError α d t ↔ t = wmean d := Iff.rfl
theorem isTarget_poisson (α : ℝ) (d : List (Obs ℝ)) (t : ℝ) :
    isTarget .poisson α d t ↔ t = wmean d := Iff.rfl
theorem isTarget_gamma (α : ℝ) (d : List (Obs ℝ)) (t : ℝ) :
    isTarget .gamma α d t ↔ t = wmean d := Iff.rfl

/-! ## bridge: the model returns these values -/

theorem C05_hes_value (h α y z : ℝ) (d : hesDom h y z) : hes h α y z = .ok (hesVal h α y z) :=
  cons_hes_ok d

theorem C05_hqs_value (h α y z : ℝ) (d : hqsDom h y z) : hqs h α y z = .ok (hqsVal h α y z) :=
  hqs_closed' d

/-- every library scoring function returns `scoreVal` on `scoreDom` -/
theorem C05_scorePair_value (k : ScoreKind) (h α y z : ℝ) (d : scoreDom k h α y z) :
    scorePair k h α y z = .ok (scoreVal k h α y z) := cons_scorePair_ok d

/-- unfolding of `__call__`: if every pair is scored (`S` gives the values), the lengths agree and
the weights do not sum to zero, the result is `Σ w·s / Σ w` -/
theorem C05_scoreMean_ok (k : ScoreKind) (h α : ℝ) (ys zs ws : List ℝ) (S : ℝ → ℝ → ℝ)
    (hlen : ys.length = zs.length)
    (hS : ∀ p ∈ ys.zip zs, scorePair k h α p.1 p.2 = .ok (S p.1 p.2))
    (hw : ws.length = ys.length) (hsum : ws.sum ≠ 0) :
    scoreMean k h α ys zs (some ws)
      = .ok ((List.zipWith (· * ·) ((ys.zip zs).map (fun p => S p.1 p.2)) ws).sum / ws.sum) :=
  scoreMean_ok k h α ys zs ws S hlen hS hw hsum

/-- `__call__` on a constant forecast `z`: `Σ_{(y,w)} w · S(y,z) / Σ w` -/
theorem C05_scoreMean_const (k : ScoreKind) (h α : ℝ) (ys ws : List ℝ) (S : ℝ → ℝ → ℝ) (z : ℝ)
    (hS : ∀ y ∈ ys, scorePair k h α y z = .ok (S y z))
    (hw : ws.length = ys.length) (hsum : ws.sum ≠ 0) :
    scoreMean k h α ys (List.replicate ys.length z) (some ws)
      = .ok (((ys.zip ws).map (fun o => o.2 * S o.1 z)).sum / wsum (ys.zip ws)) :=
  cons_scoreMean_const k h α ys ws S z hS hw hsum

/-! ## 1. weighted totals -/

/-- **mean / Bregman family** (`HomogeneousExpectileScore(degree = h, level = 1/2)`, every real
degree): the weighted mean minimises the weighted total score among the admissible constants.
`dm`: the mean is an admissible forecast for every observation; `dc`: so is `c`. -/
theorem C05_mean_consistent_hes (h : ℝ) (d : List (Obs ℝ)) (hne : d ≠ [])
    (hpos : ∀ o ∈ d, 0 < o.2) (c : ℝ)
    (dm : ∀ o ∈ d, hesDom h o.1 (wmean d)) (dc : ∀ o ∈ d, hesDom h o.1 c) :
    (d.map (fun o => o.2 * hesVal h (1 / 2) o.1 (wmean d))).sum
      ≤ (d.map (fun o => o.2 * hesVal h (1 / 2) o.1 c)).sum :=
  cons_mean_consistent h hne hpos c dm dc

/-- the exact excess: `W · 2 · B_h(mean, c)` (a purely algebraic identity of the real values) -/
theorem C05_mean_decomposition (h : ℝ) (d : List (Obs ℝ)) (hne : d ≠ [])
    (hpos : ∀ o ∈ d, 0 < o.2) (c : ℝ) :
    (d.map (fun o => o.2 * hesVal h (1 / 2) o.1 c)).sum
      = (d.map (fun o => o.2 * hesVal h (1 / 2) o.1 (wmean d))).sum
        + wsum d * (2 * hesBreg h (wmean d) c) :=
  cons_mean_identity h hne hpos c

/-- `SquaredError` (degree 2): all reals are admissible -/
theorem C05_mean_consistent_squared_error (d : List (Obs ℝ)) (hne : d ≠ [])
    (hpos : ∀ o ∈ d, 0 < o.2) (c : ℝ) :
    (d.map (fun o => o.2 * (wmean d - o.1) ^ 2)).sum ≤ (d.map (fun o => o.2 * (c - o.1) ^ 2)).sum := by
  have k := cons_mean_consistent 2 hne hpos c (fun _ _ => cons_hesDom_two _ _)
    (fun _ _ => cons_hesDom_two _ _)
  rw [cons_total_congr (S' := fun y z => (z - y) ^ 2) (fun o _ => cons_hesVal_two _ _),
    cons_total_congr (S' := fun y z => (z - y) ^ 2) (fun o _ => cons_hesVal_two _ _)] at k
  exact k

/-- `PoissonDeviance` (degree 1): observations `≥ 0`, forecasts `> 0` -/
theorem C05_mean_consistent_poisson (d : List (Obs ℝ)) (hne : d ≠ [])
    (hpos : ∀ o ∈ d, 0 < o.2) (c : ℝ) (hy : ∀ o ∈ d, 0 ≤ o.1) (hm : 0 < wmean d) (hc : 0 < c) :
    (d.map (fun o => o.2 * (2 * (xlogy o.1 (o.1 / wmean d) - o.1 + wmean d)))).sum
      ≤ (d.map (fun o => o.2 * (2 * (xlogy o.1 (o.1 / c) - o.1 + c)))).sum := by
  have k := cons_mean_consistent 1 hne hpos c (fun o ho => cons_hesDom_one.2 ⟨hy o ho, hm⟩)
    (fun o ho => cons_hesDom_one.2 ⟨hy o ho, hc⟩)
  rw [cons_total_congr (S' := fun y z => 2 * (xlogy y (y / z) - y + z))
      (fun o ho => cons_hesVal_one (hy o ho) hm),
    cons_total_congr (S' := fun y z => 2 * (xlogy y (y / z) - y + z))
      (fun o ho => cons_hesVal_one (hy o ho) hc)] at k
  exact k

/-- `GammaDeviance` (degree 0): observations and forecasts `> 0` (then the mean is `> 0` too) -/
theorem C05_mean_consistent_gamma (d : List (Obs ℝ)) (hne : d ≠ [])
    (hpos : ∀ o ∈ d, 0 < o.2) (c : ℝ) (hy : ∀ o ∈ d, 0 < o.1) (hc : 0 < c) :
    (d.map (fun o => o.2 * (2 * (o.1 / wmean d - Real.log (o.1 / wmean d) - 1)))).sum
      ≤ (d.map (fun o => o.2 * (2 * (o.1 / c - Real.log (o.1 / c) - 1)))).sum := by
  have hm := cons_wmean_pos hne hpos hy
  have k := cons_mean_consistent 0 hne hpos c (fun o ho => cons_hesDom_zero.2 ⟨hy o ho, hm⟩)
    (fun o ho => cons_hesDom_zero.2 ⟨hy o ho, hc⟩)
  rw [cons_total_congr (S' := fun y z => 2 * (y / z - Real.log (y / z) - 1))
      (fun o ho => cons_hesVal_zero (hy o ho) hm),
    cons_total_congr (S' := fun y z => 2 * (y / z - Real.log (y / z) - 1))
      (fun o ho => cons_hesVal_zero (hy o ho) hc)] at k
  exact k

/-- **log loss**: the weighted mean `m ∈ (0,1)` minimises the weighted total among the forecasts
`c ∈ (0,1)`.  (No range hypothesis on the observations is needed for the inequality of the real
model; the score is meant for `y ∈ [0,1]`, where `m ∈ [0,1]` automatically.) -/
theorem C05_mean_consistent_logloss (d : List (Obs ℝ)) (hne : d ≠ [])
    (hpos : ∀ o ∈ d, 0 < o.2) (c : ℝ) (hm0 : 0 < wmean d) (hm1 : wmean d < 1)
    (hc0 : 0 < c) (hc1 : c < 1) :
    (d.map (fun o => o.2 * logLoss o.1 (wmean d))).sum ≤ (d.map (fun o => o.2 * logLoss o.1 c)).sum :=
  cons_logloss_consistent hne hpos c hm0 hm1 hc0 hc1

/-- log loss for every sample with observations in `[0,1]`: the mean may be `0` or `1` (all
observations equal; the total at the mean is then `0`, as in numpy) -/
theorem C05_mean_consistent_logloss_all (d : List (Obs ℝ)) (hne : d ≠ [])
    (hpos : ∀ o ∈ d, 0 < o.2) (hy : ∀ o ∈ d, 0 ≤ o.1 ∧ o.1 ≤ 1) (c : ℝ)
    (hc0 : 0 < c) (hc1 : c < 1) :
    (d.map (fun o => o.2 * logLoss o.1 (wmean d))).sum ≤ (d.map (fun o => o.2 * logLoss o.1 c)).sum :=
  cons_logloss_consistent_all hne hpos hy c hc0 hc1

/-- the exact excess for the log loss: `W ·` (Kullback–Leibler divergence of `c` from the mean) -/
theorem C05_logloss_decomposition (d : List (Obs ℝ)) (hne : d ≠ [])
    (hpos : ∀ o ∈ d, 0 < o.2) (c : ℝ) (hm0 : 0 < wmean d) (hm1 : wmean d < 1)
    (hc0 : 0 < c) (hc1 : c < 1) :
    (d.map (fun o => o.2 * logLoss o.1 c)).sum
      = (d.map (fun o => o.2 * logLoss o.1 (wmean d))).sum + wsum d * logLoss (wmean d) c :=
  cons_logloss_identity hne hpos c hm0 hm1 hc0 hc1

/-- **expectile family** (every real degree `h`, every level `0 < α < 1`): the weighted
`α`-expectile of the model minimises the weighted total score among the admissible constants -/
theorem C05_expectile_consistent (h α : ℝ) (hα0 : 0 < α) (hα1 : α < 1) (d : List (Obs ℝ))
    (hne : d ≠ []) (hpos : ∀ o ∈ d, 0 < o.2) (c : ℝ)
    (dt : ∀ o ∈ d, hesDom h o.1 (expectile α d)) (dc : ∀ o ∈ d, hesDom h o.1 c) :
    (d.map (fun o => o.2 * hesVal h α o.1 (expectile α d))).sum
      ≤ (d.map (fun o => o.2 * hesVal h α o.1 c)).sum :=
  cons_expectile_consistent hα0 hα1 hne hpos c dt dc

/-- per observation: order sensitivity with respect to the expectile identification function
`V(t,y) = 2|1{y ≤ t} − α|(t − y)`, with `ψ = 2 φ_h'` -/
theorem C05_hes_identification_bound (h α t c : ℝ) (o : Obs ℝ) (hα0 : 0 < α) (hα1 : α < 1)
    (dt : hesDom h o.1 t) (dc : hesDom h o.1 c) :
    2 * eWeight α t o * (t - o.1) * (2 * (hesPhi' h c - hesPhi' h t))
      ≤ hesVal h α o.1 c - hesVal h α o.1 t :=
  cons_hes_os o hα0 hα1 dt dc

/-- **quantile family** (every real degree, every `α`): any `t` with
`Σ w (1{y < t} − α) ≤ 0 ≤ Σ w (1{y ≤ t} − α)` — i.e. between the weighted lower and upper
`α`-quantile — minimises the weighted total score among the admissible constants
(weights `≥ 0` suffice) -/
theorem C05_quantile_consistent (h α t c : ℝ) (d : List (Obs ℝ)) (hw : ∀ o ∈ d, 0 ≤ o.2)
    (dt : ∀ o ∈ d, hqsDom h o.1 t) (dc : ∀ o ∈ d, hqsDom h o.1 c)
    (hlo : (d.map (fun o => o.2 * ((if o.1 < t then (1 : ℝ) else 0) - α))).sum ≤ 0)
    (hhi : 0 ≤ (d.map (fun o => o.2 * ((if o.1 ≤ t then (1 : ℝ) else 0) - α))).sum) :
    (d.map (fun o => o.2 * hqsVal h α o.1 t)).sum ≤ (d.map (fun o => o.2 * hqsVal h α o.1 c)).sum :=
  cons_quantile_consistent d hw dt dc hlo hhi

/-- unit weights: every `t ∈ [qLower α d, qUpper α d]` (the model's empirical quantiles, as used by
`isotonic_regression`) qualifies -/
theorem C05_quantile_interval_unit (α t : ℝ) (hα0 : 0 < α) (hα1 : α < 1) (d : List (Obs ℝ))
    (hne : d ≠ []) (h1 : ∀ o ∈ d, o.2 = 1) (hl : qLower α d ≤ t) (hu : t ≤ qUpper α d) :
    isTarget .hqs α d t :=
  cons_quantile_interval_unit hα0 hα1 hne h1 hl hu

theorem C05_quantile_consistent_unit (h α t c : ℝ) (hα0 : 0 < α) (hα1 : α < 1) (d : List (Obs ℝ))
    (hne : d ≠ []) (h1 : ∀ o ∈ d, o.2 = 1) (hl : qLower α d ≤ t) (hu : t ≤ qUpper α d)
    (dt : ∀ o ∈ d, hqsDom h o.1 t) (dc : ∀ o ∈ d, hqsDom h o.1 c) :
    (d.map (fun o => hqsVal h α o.1 t)).sum ≤ (d.map (fun o => hqsVal h α o.1 c)).sum := by
  obtain ⟨hlo, hhi⟩ := cons_quantile_interval_unit hα0 hα1 hne h1 hl hu
  have k := cons_quantile_consistent (h := h) d (fun o ho => by rw [h1 o ho]; exact zero_le_one)
    dt dc hlo hhi
  have e : ∀ z, cons_total (hqsVal h α) d z = (d.map (fun o => hqsVal h α o.1 z)).sum := by
    intro z
    unfold cons_total
    congr 1
    apply List.map_congr_left
    intro o ho
    rw [h1 o ho, one_mul]
  rw [e, e] at k
  exact k

/-- `PinballLoss` in explicit form -/
theorem C05_pinball_consistent (α t c : ℝ) (d : List (Obs ℝ)) (hw : ∀ o ∈ d, 0 ≤ o.2)
    (hlo : (d.map (fun o => o.2 * ((if o.1 < t then (1 : ℝ) else 0) - α))).sum ≤ 0)
    (hhi : 0 ≤ (d.map (fun o => o.2 * ((if o.1 ≤ t then (1 : ℝ) else 0) - α))).sum) :
    (d.map (fun o => o.2 * ((geInd t o.1 - α) * (t - o.1)))).sum
      ≤ (d.map (fun o => o.2 * ((geInd c o.1 - α) * (c - o.1)))).sum := by
  have k := cons_quantile_consistent (h := 1) (c := c) d hw (fun _ _ => Or.inl rfl) (fun _ _ => Or.inl rfl)
    hlo hhi
  rw [cons_total_congr (S' := fun y z => (geInd z y - α) * (z - y))
      (fun o _ => cons_hqsVal_one α _ _),
    cons_total_congr (S' := fun y z => (geInd z y - α) * (z - y))
      (fun o _ => cons_hqsVal_one α _ _)] at k
  exact k

/-! ## 2. `scoreMean`: the average is the weighted mean of the per-observation scores -/

/-- a successful weighted call returns `Σ sᵢ wᵢ / Σ wᵢ` of the per-observation scores -/
theorem C05_average_is_weighted_mean (k : ScoreKind) (h α : ℝ) (ys zs ws : List ℝ) (v : ℝ)
    (e : scoreMean k h α ys zs (some ws) = .ok v) :
    ∃ per, scorePerObs k h α ys zs = .ok per ∧ ws.length = per.length ∧ ws.sum ≠ 0 ∧
      v = (List.zipWith (· * ·) per ws).sum / ws.sum := by
  cases e' : scorePerObs k h α ys zs with
  | error er => rw [cons_scoreMean_error _ _ _ _ _ _ er e'] at e; cases e
  | ok per =>
    rw [cons_scoreMean_bind _ _ _ _ _ _ per e'] at e
    obtain ⟨a, b, c⟩ := cons_average_some_ok e
    exact ⟨per, rfl, a, b, c⟩

/-- a successful unweighted call returns the arithmetic mean of the per-observation scores -/
theorem C05_average_unweighted (k : ScoreKind) (h α : ℝ) (ys zs : List ℝ) (v : ℝ)
    (e : scoreMean k h α ys zs none = .ok v) :
    ∃ per, scorePerObs k h α ys zs = .ok per ∧ per ≠ [] ∧ v = per.sum / (per.length : ℝ) := by
  cases e' : scorePerObs k h α ys zs with
  | error er => rw [cons_scoreMean_error _ _ _ _ _ _ er e'] at e; cases e
  | ok per =>
    rw [cons_scoreMean_bind _ _ _ _ _ _ per e'] at e
    obtain ⟨a, b⟩ := cons_average_none_ok e
    exact ⟨per, rfl, a, b⟩

/-- `weights=None` is the same as unit weights, errors included -/
theorem C05_unweighted_is_unit_weights (k : ScoreKind) (h α : ℝ) (ys zs : List ℝ) :
    scoreMean k h α ys zs none = scoreMean k h α ys zs (some (List.replicate ys.length 1)) :=
  cons_scoreMean_none k h α ys zs

/-- a common rescaling of the weights by `c ≠ 0` changes nothing, errors included -/
theorem C05_weight_scale (k : ScoreKind) (h α : ℝ) (ys zs ws : List ℝ) (c : ℝ) (hc : c ≠ 0) :
    scoreMean k h α ys zs (some (ws.map (c * ·))) = scoreMean k h α ys zs (some ws) :=
  cons_scoreMean_scale k h α ys zs ws c hc

/-- one inadmissible pair (or a length mismatch) rejects the whole call, whatever the weights -/
theorem C05_scoreMean_error (k : ScoreKind) (h α : ℝ) (ys zs : List ℝ) (w : Option (List ℝ))
    (er : Err) (e : scorePerObs k h α ys zs = .error er) : scoreMean k h α ys zs w = .error er :=
  cons_scoreMean_error k h α ys zs w er e

/-- weights summing to zero: `ZeroDivisionError` (when all pairs are admissible) -/
theorem C05_zero_weight_sum (k : ScoreKind) (h α : ℝ) (ys zs ws per : List ℝ)
    (e : scorePerObs k h α ys zs = .ok per) (hl : ws.length = per.length) (hs : ws.sum = 0) :
    scoreMean k h α ys zs (some ws) = .error .zeroDivision := by
  rw [cons_scoreMean_bind _ _ _ _ _ _ per e]
  unfold average
  simp only [eqK_iff]
  rw [if_neg (not_not.2 hl), if_pos hs]
  rfl

/-! ## 2'. the property for every scoring function of the library -/

/-- **C05**: for every `ScoreKind`, every non-empty sample `ys` with positive weights `ws`, every
version `t` of the target functional of that score on the sample and every other constant `c`,
both admissible forecasts for every observation: both calls succeed and the average score of the
constant forecast `t` is not larger than that of the constant forecast `c`. -/
theorem C05_consistent (k : ScoreKind) (h α : ℝ) (ys ws : List ℝ) (t c : ℝ)
    (hne : ys ≠ []) (hw : ws.length = ys.length) (hpos : ∀ w ∈ ws, 0 < w)
    (ht : isTarget k α (ys.zip ws) t)
    (dt : ∀ y ∈ ys, scoreDom k h α y t) (dc : ∀ y ∈ ys, scoreDom k h α y c) :
    ∃ vt vc, scoreMean k h α ys (List.replicate ys.length t) (some ws) = .ok vt ∧
      scoreMean k h α ys (List.replicate ys.length c) (some ws) = .ok vc ∧ vt ≤ vc :=
  cons_consistent_scoreMean k h α ys ws t c hne hw hpos ht dt dc

/-- the same for `weights=None` -/
theorem C05_consistent_unweighted (k : ScoreKind) (h α : ℝ) (ys : List ℝ) (t c : ℝ)
    (hne : ys ≠ []) (ht : isTarget k α (ys.zip (List.replicate ys.length 1)) t)
    (dt : ∀ y ∈ ys, scoreDom k h α y t) (dc : ∀ y ∈ ys, scoreDom k h α y c) :
    ∃ vt vc, scoreMean k h α ys (List.replicate ys.length t) none = .ok vt ∧
      scoreMean k h α ys (List.replicate ys.length c) none = .ok vc ∧ vt ≤ vc :=
  cons_consistent_scoreMean_none k h α ys t c hne ht dt dc

/-- quantile family, `weights=None`, in terms of the model's empirical quantiles: every
`t ∈ [qLower α d, qUpper α d]` (`d` = the sample with unit weights) is never worse than any other
admissible constant -/
theorem C05_quantile_consistent_unweighted (h α : ℝ) (hα0 : 0 < α) (hα1 : α < 1) (ys : List ℝ)
    (t c : ℝ) (hne : ys ≠ [])
    (hl : qLower α (ys.zip (List.replicate ys.length 1)) ≤ t)
    (hu : t ≤ qUpper α (ys.zip (List.replicate ys.length 1)))
    (dt : ∀ y ∈ ys, hqsDom h y t) (dc : ∀ y ∈ ys, hqsDom h y c) :
    ∃ vt vc, scoreMean .hqs h α ys (List.replicate ys.length t) none = .ok vt ∧
      scoreMean .hqs h α ys (List.replicate ys.length c) none = .ok vc ∧ vt ≤ vc := by
  refine cons_consistent_scoreMean_none .hqs h α ys t c hne ?_
    (fun y hy => ⟨⟨hα0, hα1⟩, dt y hy⟩) (fun y hy => ⟨⟨hα0, hα1⟩, dc y hy⟩)
  exact cons_quantile_interval_unit hα0 hα1 (cons_zip_ne hne (by simp))
    (fun o ho => List.eq_of_mem_replicate (List.of_mem_zip ho).2) hl hu

/-- the weighted totals behind `C05_consistent` -/
theorem C05_consistent_total (k : ScoreKind) (h α : ℝ) (d : List (Obs ℝ)) (hne : d ≠ [])
    (hpos : ∀ o ∈ d, 0 < o.2) (t c : ℝ) (ht : isTarget k α d t)
    (dt : ∀ o ∈ d, scoreDom k h α o.1 t) (dc : ∀ o ∈ d, scoreDom k h α o.1 c) :
    (d.map (fun o => o.2 * scoreVal k h α o.1 t)).sum
      ≤ (d.map (fun o => o.2 * scoreVal k h α o.1 c)).sum :=
  cons_consistent_total k h α hne hpos t c ht dt dc

/-! ## 3. a better forecast is never scored worse -/

/-- mean / Bregman family, level `1/2`, every real degree: if `c₁` lies between the weighted mean
and `c₂`, the total score at `c₁` is not larger than at `c₂`.  (The mean itself need not be
admissible here.) -/
theorem C05_better_forecast_never_worse (h c₁ c₂ : ℝ) (d : List (Obs ℝ)) (hne : d ≠ [])
    (hpos : ∀ o ∈ d, 0 < o.2)
    (d1 : ∀ o ∈ d, hesDom h o.1 c₁) (d2 : ∀ o ∈ d, hesDom h o.1 c₂)
    (hord : (wmean d ≤ c₁ ∧ c₁ ≤ c₂) ∨ (c₂ ≤ c₁ ∧ c₁ ≤ wmean d)) :
    (d.map (fun o => o.2 * hesVal h (1 / 2) o.1 c₁)).sum
      ≤ (d.map (fun o => o.2 * hesVal h (1 / 2) o.1 c₂)).sum :=
  cons_mean_better hne hpos d1 d2 hord

/-- expectile family, every level -/
theorem C05_better_forecast_never_worse_expectile (h α c₁ c₂ : ℝ) (hα0 : 0 < α) (hα1 : α < 1)
    (d : List (Obs ℝ)) (hne : d ≠ []) (hpos : ∀ o ∈ d, 0 < o.2)
    (d1 : ∀ o ∈ d, hesDom h o.1 c₁) (d2 : ∀ o ∈ d, hesDom h o.1 c₂)
    (hord : (expectile α d ≤ c₁ ∧ c₁ ≤ c₂) ∨ (c₂ ≤ c₁ ∧ c₁ ≤ expectile α d)) :
    (d.map (fun o => o.2 * hesVal h α o.1 c₁)).sum ≤ (d.map (fun o => o.2 * hesVal h α o.1 c₂)).sum :=
  cons_expectile_better hα0 hα1 hne hpos d1 d2 hord

/-- quantile family -/
theorem C05_better_forecast_never_worse_quantile (h α t c₁ c₂ : ℝ) (d : List (Obs ℝ))
    (hw : ∀ o ∈ d, 0 ≤ o.2)
    (d1 : ∀ o ∈ d, hqsDom h o.1 c₁) (d2 : ∀ o ∈ d, hqsDom h o.1 c₂)
    (hlo : (d.map (fun o => o.2 * ((if o.1 < t then (1 : ℝ) else 0) - α))).sum ≤ 0)
    (hhi : 0 ≤ (d.map (fun o => o.2 * ((if o.1 ≤ t then (1 : ℝ) else 0) - α))).sum)
    (hord : (t ≤ c₁ ∧ c₁ ≤ c₂) ∨ (c₂ ≤ c₁ ∧ c₁ ≤ t)) :
    (d.map (fun o => o.2 * hqsVal h α o.1 c₁)).sum ≤ (d.map (fun o => o.2 * hqsVal h α o.1 c₂)).sum :=
  cons_quantile_better d hw d1 d2 hlo hhi hord

/-- log loss -/
theorem C05_better_forecast_never_worse_logloss (c₁ c₂ : ℝ) (d : List (Obs ℝ)) (hne : d ≠ [])
    (hpos : ∀ o ∈ d, 0 < o.2) (hm0 : 0 < wmean d) (hm1 : wmean d < 1)
    (h10 : 0 < c₁) (h11 : c₁ < 1) (h20 : 0 < c₂) (h21 : c₂ < 1)
    (hord : (wmean d ≤ c₁ ∧ c₁ ≤ c₂) ∨ (c₂ ≤ c₁ ∧ c₁ ≤ wmean d)) :
    (d.map (fun o => o.2 * logLoss o.1 c₁)).sum ≤ (d.map (fun o => o.2 * logLoss o.1 c₂)).sum :=
  cons_logloss_better hne hpos c₁ c₂ hm0 hm1 h10 h11 h20 h21 hord

/-- every scoring function of the library, through `scoreMean` -/
theorem C05_better_forecast_never_worse_scoreMean (k : ScoreKind) (h α : ℝ) (ys ws : List ℝ)
    (t c₁ c₂ : ℝ) (hne : ys ≠ []) (hw : ws.length = ys.length) (hpos : ∀ w ∈ ws, 0 < w)
    (ht : isTarget k α (ys.zip ws) t) (dt : ∀ y ∈ ys, scoreDom k h α y t)
    (d1 : ∀ y ∈ ys, scoreDom k h α y c₁) (d2 : ∀ y ∈ ys, scoreDom k h α y c₂)
    (hord : (t ≤ c₁ ∧ c₁ ≤ c₂) ∨ (c₂ ≤ c₁ ∧ c₁ ≤ t)) :
    ∃ v₁ v₂, scoreMean k h α ys (List.replicate ys.length c₁) (some ws) = .ok v₁ ∧
      scoreMean k h α ys (List.replicate ys.length c₂) (some ws) = .ok v₂ ∧ v₁ ≤ v₂ :=
  cons_better_scoreMean k h α ys ws t c₁ c₂ hne hw hpos ht dt d1 d2 hord

/-! ## the hypotheses are satisfiable -/

/-- sample `y = (1, 3)`, weights `(1, 1)`: mean `2` -/
example : wmean [((1 : ℝ), (1 : ℝ)), (3, 1)] = 2 := by norm_num [wmean, wysum, wsum]

/-- Poisson (`h = 1`): the mean `2` and `c = 5` are admissible for every observation -/
example : (∀ o ∈ [((1 : ℝ), (1 : ℝ)), (3, 1)], hesDom 1 o.1 (wmean [((1 : ℝ), (1 : ℝ)), (3, 1)])) ∧
    (∀ o ∈ [((1 : ℝ), (1 : ℝ)), (3, 1)], hesDom 1 o.1 5) := by
  have e : wmean [((1 : ℝ), (1 : ℝ)), (3, 1)] = 2 := by norm_num [wmean, wysum, wsum]
  rw [e]
  constructor <;> intro o ho <;> simp only [List.mem_cons, List.not_mem_nil, or_false] at ho <;>
    rcases ho with rfl | rfl <;> rw [cons_hesDom_one] <;> norm_num

/-- the finding: with `h ≤ 1` the mean of an all-zero sample is not an admissible forecast -/
example : wmean [((0 : ℝ), (1 : ℝ))] = 0 ∧ ¬ hesDom 1 0 (wmean [((0 : ℝ), (1 : ℝ))]) := by
  have e : wmean [((0 : ℝ), (1 : ℝ))] = 0 := by norm_num [wmean, wysum, wsum]
  rw [e]
  exact ⟨rfl, fun d => lt_irrefl _ (cons_hesDom_one.1 d).2⟩

/-- asymmetric squared error (`h = 2`): every constant is admissible, whatever the expectile is -/
example (α : ℝ) (d : List (Obs ℝ)) (c : ℝ) :
    (∀ o ∈ d, hesDom 2 o.1 (expectile α d)) ∧ (∀ o ∈ d, hesDom 2 o.1 c) :=
  ⟨fun _ _ => cons_hesDom_two _ _, fun _ _ => cons_hesDom_two _ _⟩

/-- log loss: `y = (0, 1, 1)`, unit weights, mean `2/3 ∈ (0,1)` -/
example : wmean [((0 : ℝ), (1 : ℝ)), (1, 1), (1, 1)] = 2 / 3 := by norm_num [wmean, wysum, wsum]

/-- quantile: `y = (1, 2, 3)`, unit weights, `α = 1/2`, `t = 2` is a median -/
example : isTarget .hqs (1 / 2) [((1 : ℝ), (1 : ℝ)), (2, 1), (3, 1)] 2 := by
  rw [isTarget_hqs]
  norm_num

/-- log loss through the unified statement: all-zero labels, mean `0`, forecast `c = 1/2` -/
example : (∀ y ∈ [(0 : ℝ), 0], scoreDom .logloss 0 0 y 0) ∧
    (∀ y ∈ [(0 : ℝ), 0], scoreDom .logloss 0 0 y (1 / 2)) ∧
    isTarget .logloss 0 ([(0 : ℝ), 0].zip [(1 : ℝ), 1]) 0 := by
  refine ⟨?_, ?_, ?_⟩
  · intro y hy
    simp only [List.mem_cons, List.not_mem_nil, or_false, or_self] at hy
    subst hy
    exact ⟨⟨le_rfl, zero_le_one⟩, Or.inr rfl⟩
  · intro y hy
    simp only [List.mem_cons, List.not_mem_nil, or_false, or_self] at hy
    subst hy
    exact ⟨⟨le_rfl, zero_le_one⟩, Or.inl ⟨by norm_num, by norm_num⟩⟩
  · rw [isTarget_logloss]
    norm_num [wmean, wysum, wsum]

/-- the unified statement instantiated: squared error on `ys = (1, 3)`, `ws = (1, 1)`, `t = 2` -/
example (c : ℝ) : ∃ vt vc,
    scoreMean .squaredError 0 0 [(1 : ℝ), 3] (List.replicate 2 2) (some [1, 1]) = .ok vt ∧
    scoreMean .squaredError 0 0 [(1 : ℝ), 3] (List.replicate 2 c) (some [1, 1]) = .ok vc ∧
    vt ≤ vc := by
  refine C05_consistent .squaredError 0 0 [1, 3] [1, 1] 2 c (by simp) rfl ?_ ?_
    (fun _ _ => trivial) (fun _ _ => trivial)
  · intro w hw
    simp only [List.mem_cons, List.not_mem_nil, or_false, or_self] at hw
    rw [hw]; exact one_pos
  · rw [isTarget_squaredError]
    norm_num [wmean, wysum, wsum]

end MD.Props

/- Observed `#print axioms` (Lean 4.33.0, Mathlib v4.33.0), one line per theorem of this file:
'MD.Props.hesVal_def' depends on axioms: [propext, Classical.choice, Quot.sound]
'MD.Props.hqsVal_def' depends on axioms: [propext, Classical.choice, Quot.sound]
'MD.Props.scoreDom_hes' depends on axioms: [propext, Classical.choice, Quot.sound]
'MD.Props.scoreDom_hqs' depends on axioms: [propext, Classical.choice, Quot.sound]
'MD.Props.scoreDom_logloss' depends on axioms: [propext, Classical.choice, Quot.sound]
'MD.Props.scoreDom_squaredError' depends on axioms: [propext, Classical.choice, Quot.sound]
'MD.Props.scoreDom_poisson' depends on axioms: [propext, Classical.choice, Quot.sound]
'MD.Props.scoreDom_gamma' depends on axioms: [propext, Classical.choice, Quot.sound]
'MD.Props.scoreDom_pinball' depends on axioms: [propext, Classical.choice, Quot.sound]
'MD.Props.scoreVal_hes' depends on axioms: [propext, Classical.choice, Quot.sound]
'MD.Props.scoreVal_hqs' depends on axioms: [propext, Classical.choice, Quot.sound]
'MD.Props.scoreVal_logloss' depends on axioms: [propext, Classical.choice, Quot.sound]
'MD.Props.scoreVal_squaredError' depends on axioms: [propext, Classical.choice, Quot.sound]
'MD.Props.scoreVal_poisson' depends on axioms: [propext, Classical.choice, Quot.sound]
'MD.Props.scoreVal_gamma' depends on axioms: [propext, Classical.choice, Quot.sound]
'MD.Props.scoreVal_pinball' depends on axioms: [propext, Classical.choice, Quot.sound]
'MD.Props.isTarget_hes' depends on axioms: [propext, Classical.choice, Quot.sound]
'MD.Props.isTarget_hqs' depends on axioms: [propext, Classical.choice, Quot.sound]
'MD.Props.isTarget_pinball' depends on axioms: [propext, Classical.choice, Quot.sound]
'MD.Props.isTarget_logloss' depends on axioms: [propext, Classical.choice, Quot.sound]
'MD.Props.isTarget_squaredError' depends on axioms: [propext, Classical.choice, Quot.sound]
'MD.Props.isTarget_poisson' depends on axioms: [propext, Classical.choice, Quot.sound]
'MD.Props.isTarget_gamma' depends on axioms: [propext, Classical.choice, Quot.sound]
'MD.Props.C05_hes_value' depends on axioms: [propext, Classical.choice, Quot.sound]
'MD.Props.C05_hqs_value' depends on axioms: [propext, Classical.choice, Quot.sound]
'MD.Props.C05_scorePair_value' depends on axioms: [propext, Classical.choice, Quot.sound]
'MD.Props.C05_scoreMean_ok' depends on axioms: [propext, Classical.choice, Quot.sound]
'MD.Props.C05_scoreMean_const' depends on axioms: [propext, Classical.choice, Quot.sound]
'MD.Props.C05_mean_consistent_hes' depends on axioms: [propext, Classical.choice, Quot.sound]
'MD.Props.C05_mean_decomposition' depends on axioms: [propext, Classical.choice, Quot.sound]
'MD.Props.C05_mean_consistent_squared_error' depends on axioms: [propext, Classical.choice, Quot.sound]
'MD.Props.C05_mean_consistent_poisson' depends on axioms: [propext, Classical.choice, Quot.sound]
'MD.Props.C05_mean_consistent_gamma' depends on axioms: [propext, Classical.choice, Quot.sound]
'MD.Props.C05_mean_consistent_logloss' depends on axioms: [propext, Classical.choice, Quot.sound]
'MD.Props.C05_mean_consistent_logloss_all' depends on axioms: [propext, Classical.choice, Quot.sound]
'MD.Props.C05_logloss_decomposition' depends on axioms: [propext, Classical.choice, Quot.sound]
'MD.Props.C05_expectile_consistent' depends on axioms: [propext, Classical.choice, Quot.sound]
'MD.Props.C05_hes_identification_bound' depends on axioms: [propext, Classical.choice, Quot.sound]
'MD.Props.C05_quantile_consistent' depends on axioms: [propext, Classical.choice, Quot.sound]
'MD.Props.C05_quantile_interval_unit' depends on axioms: [propext, Classical.choice, Quot.sound]
'MD.Props.C05_quantile_consistent_unit' depends on axioms: [propext, Classical.choice, Quot.sound]
'MD.Props.C05_pinball_consistent' depends on axioms: [propext, Classical.choice, Quot.sound]
'MD.Props.C05_average_is_weighted_mean' depends on axioms: [propext, Classical.choice, Quot.sound]
'MD.Props.C05_average_unweighted' depends on axioms: [propext, Classical.choice, Quot.sound]
'MD.Props.C05_unweighted_is_unit_weights' depends on axioms: [propext, Classical.choice, Quot.sound]
'MD.Props.C05_weight_scale' depends on axioms: [propext, Classical.choice, Quot.sound]
'MD.Props.C05_scoreMean_error' depends on axioms: [propext, Classical.choice, Quot.sound]
'MD.Props.C05_zero_weight_sum' depends on axioms: [propext, Classical.choice, Quot.sound]
'MD.Props.C05_consistent' depends on axioms: [propext, Classical.choice, Quot.sound]
'MD.Props.C05_consistent_unweighted' depends on axioms: [propext, Classical.choice, Quot.sound]
'MD.Props.C05_quantile_consistent_unweighted' depends on axioms: [propext, Classical.choice, Quot.sound]
'MD.Props.C05_consistent_total' depends on axioms: [propext, Classical.choice, Quot.sound]
'MD.Props.C05_better_forecast_never_worse' depends on axioms: [propext, Classical.choice, Quot.sound]
'MD.Props.C05_better_forecast_never_worse_expectile' depends on axioms: [propext, Classical.choice, Quot.sound]
'MD.Props.C05_better_forecast_never_worse_quantile' depends on axioms: [propext, Classical.choice, Quot.sound]
'MD.Props.C05_better_forecast_never_worse_logloss' depends on axioms: [propext, Classical.choice, Quot.sound]
'MD.Props.C05_better_forecast_never_worse_scoreMean' depends on axioms: [propext, Classical.choice, Quot.sound]
-/
