import MD.Proofs.PDLemmas
import Mathlib.Algebra.Order.Field.Basic
import Mathlib.Algebra.Order.Field.Rat
import Mathlib.Tactic.NormNum.Basic

/-! # C16 — `compute_partial_dependence` returns the (weighted) average prediction per grid value

Property theorems about the model `partialDependence` (`MD/Model/PD.lean`) of
`_utils/partial_dependence.py::compute_partial_dependence`, for **every** row-wise predict function
`f : List K → K`, feature matrix `X`, feature column `j`, grid, weights and subsample index list.

What is proved
* the stacked matrix handed to the predict function has `n * n_grid` rows, row `g * n + i` is sample
  row `i` with column `j` overwritten by `grid[g]`, every other column is untouched;
* `C16_definition_*` / `C16_closed_form`: the `g`-th returned value is the plain / weighted average
  of `f (row.set j grid[g])` over the rows — one value per grid value, in grid order;
* `C16_subsample*`: with subsample indices `idx` the same holds for the rows `X[idx]`, and the
  weights are indexed by the *same* `idx` (`ws[idx]`), pairwise;
* determinism (the result is a function of the drawn indices), independence of the `g`-th value
  from the other grid values, invariance under row permutations;
* `C16_pred_family`: what the interaction family used by the differential test computes on an
  overwritten row.

Scope notes.  The model is purely functional, so "the caller's `X`, `grid`, `weights` are unchanged"
is not a statement about the model: it is checked on the Python side (corpus check C16).  The
seeded generator is not modelled either: the drawn index list is the parameter `sub`;
`C16_subsample_without_replacement` says what a draw *without replacement* (distinct in-range
indices) means for the selected rows.

The equations `C16_definition_*` need none of the documented preconditions (`X ≠ []`,
`w.length = X.length`, `w.sum ≠ 0`) and no algebraic law: they hold over the bare operation classes
of the model (division by `0` is whatever `/` says on both sides, `zipWith` truncates on both
sides), hence in particular over every ordered field.  Only the row-permutation theorems use an
algebraic law (commutativity / associativity of `+`).

Proofs live in `MD/Proofs/PDLemmas.lean`. -/

namespace MD.Props

/-! ## The stacked matrix -/
section Stacked
variable {K : Type} [Inhabited K]

/-- `X_stacked` has `n * n_grid` rows -/
theorem C16_stacked_length (X : List (List K)) (j : Nat) (grid : List K) :
    (stacked X j grid).length = X.length * grid.length :=
  pd_stacked_length X j grid

/-- row `g * n + i` of the stacked matrix is sample row `i` with the feature column set to the
`g`-th grid value (the `np.tile` / `np.repeat` index algebra) -/
theorem C16_stacked_row (X : List (List K)) (j : Nat) (grid : List K) {g i : Nat}
    (hg : g < grid.length) (hi : i < X.length) :
    (stacked X j grid)[g * X.length + i]! = (X[i]!).set j (grid[g]!) :=
  pd_stacked_row X j grid hg hi

/-- every column other than the feature column is untouched; the feature column holds the grid
value; the row keeps its length -/
theorem C16_other_columns_untouched (X : List (List K)) (j : Nat) (grid : List K) {g i : Nat}
    (hg : g < grid.length) (hi : i < X.length) :
    (∀ c, c ≠ j → ((stacked X j grid)[g * X.length + i]!)[c]? = (X[i]!)[c]?) ∧
    (j < (X[i]!).length → ((stacked X j grid)[g * X.length + i]!)[j]? = some grid[g]!) ∧
    ((stacked X j grid)[g * X.length + i]!).length = (X[i]!).length := by
  rw [pd_stacked_row X j grid hg hi]
  refine ⟨fun c hc => List.getElem?_set_ne (Ne.symm hc), fun hj => ?_, List.length_set⟩
  rw [List.getElem?_set_self hj]

/-- the block of predictions belonging to grid value `g` is the prediction on every sample row with
the feature column overwritten by `grid[g]` — for a predict function into any type -/
theorem C16_prediction_block {β : Type} (f : List K → β) (X : List (List K)) (j : Nat)
    (grid : List K) {g : Nat} (hg : g < grid.length) :
    (((stacked X j grid).map f).drop (g * X.length)).take X.length
      = X.map (fun row => f (row.set j grid[g]!)) :=
  pd_block_stacked f X j grid hg

/-- (functional-model purity) for a one-point grid the row selection of the stacked matrix is `X`
itself: stacking reads `X` row by row and selects nothing else -/
theorem C16_tile_one_grid {α : Type} [Inhabited α] (X : List α) :
    takeRows X (tileIdx X.length 1) = X :=
  pd_takeRows_tile_one X

/-- a draw without replacement — distinct, in-range indices — selects a sub-multiset of the rows
(no row is used more often than it occurs in `X`), and exactly `idx.length` of them -/
theorem C16_subsample_without_replacement {α : Type} [Inhabited α] (X : List α) (idx : List Nat)
    (hnd : idx.Nodup) (hlt : ∀ i ∈ idx, i < X.length) :
    (takeRows X idx).Subperm X ∧ (takeRows X idx).length = idx.length :=
  ⟨pd_takeRows_subperm X idx hnd hlt, pd_takeRows_length X idx⟩

end Stacked

/-! ## The returned values -/
section Values
variable {K : Type} [Add K] [Mul K] [Div K] [Zero K] [NatCast K] [Inhabited K]

/-- closed form without subsampling: one average per grid value, in grid order -/
theorem C16_closed_form (f : List K → K) (X : List (List K)) (j : Nat) (grid : List K)
    (w : Option (List K)) :
    partialDependence f X j grid w none
      = grid.map (fun gv =>
          match w with
          | none => (X.map (fun row => f (row.set j gv))).sum / (X.length : K)
          | some w' => (List.zipWith (· * ·) (X.map (fun row => f (row.set j gv))) w').sum
              / w'.sum) := by
  rw [pd_closed_form]
  cases w <;> rfl

/-- one value per grid value (with or without weights, with or without subsampling) -/
theorem C16_length (f : List K → K) (X : List (List K)) (j : Nat) (grid : List K)
    (w : Option (List K)) (sub : Option (List Nat)) :
    (partialDependence f X j grid w sub).length = grid.length := by
  cases sub with
  | none => rw [pd_closed_form, List.length_map]
  | some idx => rw [pd_sub_eq, pd_closed_form, List.length_map]

/-- **definition, unweighted**: the `g`-th value is the mean over the rows of the prediction with
the feature column overwritten by `grid[g]`.  (Also true for `X = []`: both sides are `0 / 0`.) -/
theorem C16_definition_unweighted (f : List K → K) (X : List (List K)) (j : Nat) (grid : List K)
    {g : Nat} (hg : g < grid.length) :
    (partialDependence f X j grid none none)[g]!
      = (X.map (fun row => f (row.set j grid[g]!))).sum / (X.length : K) := by
  rw [pd_closed_form, getElem!_pos _ g (by simpa using hg), List.getElem_map,
    getElem!_pos grid g hg]
  rfl

/-- **definition, weighted**: the `g`-th value is `Σ wᵢ f(rowᵢ[j := grid[g]]) / Σ wᵢ`.
(The documented preconditions `w.length = X.length`, `w.sum ≠ 0` are not needed for the equation.) -/
theorem C16_definition_weighted (f : List K → K) (X : List (List K)) (j : Nat) (grid : List K)
    (w : List K) {g : Nat} (hg : g < grid.length) :
    (partialDependence f X j grid (some w) none)[g]!
      = (List.zipWith (· * ·) (X.map (fun row => f (row.set j grid[g]!))) w).sum / w.sum := by
  rw [pd_closed_form, getElem!_pos _ g (by simpa using hg), List.getElem_map,
    getElem!_pos grid g hg]
  rfl

/-- the statement in the form asked for: both cases and the length, under the documented
preconditions -/
theorem C16_definition (f : List K → K) (X : List (List K)) (j : Nat) (grid : List K)
    (_hX : X ≠ []) :
    (∀ g, g < grid.length →
      (partialDependence f X j grid none none)[g]!
        = (X.map (fun row => f (row.set j grid[g]!))).sum / (X.length : K)) ∧
    (∀ w : List K, w.length = X.length → w.sum ≠ 0 → ∀ g, g < grid.length →
      (partialDependence f X j grid (some w) none)[g]!
        = (List.zipWith (· * ·) (X.map (fun row => f (row.set j grid[g]!))) w).sum / w.sum) ∧
    (∀ w, (partialDependence f X j grid w none).length = grid.length) :=
  ⟨fun _ hg => C16_definition_unweighted f X j grid hg,
   fun w _ _ _ hg => C16_definition_weighted f X j grid w hg,
   fun w => C16_length f X j grid w none⟩

/-- **subsampling**: with drawn indices `idx` the result is the result of the un-subsampled
computation on the selected rows `X[idx]` and the equally selected weights `w[idx]`; so
`C16_definition_*` apply verbatim to the subsampled rows -/
theorem C16_subsample (f : List K → K) (X : List (List K)) (j : Nat) (grid : List K)
    (w : Option (List K)) (idx : List Nat) :
    partialDependence f X j grid w (some idx)
      = partialDependence f (takeRows X idx) j grid (w.map (fun ws => takeRows ws idx)) none :=
  rfl

/-- the weights follow the subsample: drawn index `i` contributes the row `X[i]` together with the
weight `ws[i]` (same `idx`, same order, pairwise), and the normaliser is the sum of the selected
weights -/
theorem C16_weights_follow_subsample (f : List K → K) (X : List (List K)) (j : Nat) (grid : List K)
    (ws : List K) (idx : List Nat) {g : Nat} (hg : g < grid.length) :
    (partialDependence f X j grid (some ws) (some idx))[g]!
      = (idx.map (fun i => f ((X[i]!).set j grid[g]!) * ws[i]!)).sum
          / (idx.map (fun i => ws[i]!)).sum := by
  rw [pd_sub_eq, Option.map_some, C16_definition_weighted _ _ _ _ _ hg]
  have h := pd_zipWith_takeRows (fun (row : List K) (v : K) => f (row.set j grid[g]!) * v) X ws idx
  rw [List.zipWith_map_left, h]
  rfl

/-- unweighted subsample: the mean over the drawn rows, divided by the number of drawn rows -/
theorem C16_subsample_unweighted (f : List K → K) (X : List (List K)) (j : Nat) (grid : List K)
    (idx : List Nat) {g : Nat} (hg : g < grid.length) :
    (partialDependence f X j grid none (some idx))[g]!
      = (idx.map (fun i => f ((X[i]!).set j grid[g]!))).sum / (idx.length : K) := by
  rw [pd_sub_eq, Option.map_none, C16_definition_unweighted _ _ _ _ hg, pd_takeRows_length]
  simp only [takeRows, List.map_map, Function.comp_def]

/-- equal seeds give equal results: the result is a function of the arguments and of the index list
the seeded generator drew -/
theorem C16_seed_deterministic (f : List K → K) (X : List (List K)) (j : Nat) (grid : List K)
    (w : Option (List K)) (sub sub' : Option (List Nat)) (h : sub = sub') :
    partialDependence f X j grid w sub = partialDependence f X j grid w sub' := by
  rw [h]

/-- no subsampling when `n ≤ n_max` (`sub = none`): `X` and the weights are used as they are -/
theorem C16_no_subsample_when_small (f : List K → K) (X : List (List K)) (j : Nat) (grid : List K)
    (w : Option (List K)) :
    partialDependence f X j grid w none
      = blockAverages ((stacked X j grid).map f) X.length grid.length w :=
  rfl

/-- drawing all indices in order is the same as not subsampling -/
theorem C16_subsample_identity (f : List K → K) (X : List (List K)) (j : Nat) (grid : List K)
    (w : Option (List K)) (hw : ∀ ws, w = some ws → ws.length = X.length) :
    partialDependence f X j grid w (some (List.range X.length))
      = partialDependence f X j grid w none := by
  rw [pd_sub_eq, pd_takeRows_range]
  cases w with
  | none => rfl
  | some ws => rw [Option.map_some, ← hw ws rfl, pd_takeRows_range]

/-- the `g`-th value depends on the grid only through `grid[g]` -/
theorem C16_grid_order (f : List K → K) (X : List (List K)) (j : Nat) (grid grid' : List K)
    (w : Option (List K)) {g : Nat} (hlen : grid.length = grid'.length) (hg : g < grid.length)
    (hgg : grid[g]! = grid'[g]!) :
    (partialDependence f X j grid w none)[g]! = (partialDependence f X j grid' w none)[g]! := by
  have hg' : g < grid'.length := hlen ▸ hg
  cases w with
  | none =>
    rw [C16_definition_unweighted _ _ _ _ hg, C16_definition_unweighted _ _ _ _ hg', hgg]
  | some ws =>
    rw [C16_definition_weighted _ _ _ _ _ hg, C16_definition_weighted _ _ _ _ _ hg', hgg]

/-- the values come in grid order: the result is the `map` over the grid of a function of the grid
value alone -/
theorem C16_grid_map (f : List K → K) (X : List (List K)) (j : Nat) (w : Option (List K)) :
    ∃ v : K → K, ∀ grid, partialDependence f X j grid w none = grid.map v :=
  ⟨_, fun grid => pd_closed_form f X j grid w⟩

end Values

/-! ## Row order does not matter -/
section Perm
variable {K : Type} [AddCommMonoid K] [Mul K] [Div K] [NatCast K] [Inhabited K]

/-- permuting the rows of `X` leaves every unweighted value unchanged -/
theorem C16_perm_rows_unweighted (f : List K → K) (X X' : List (List K)) (j : Nat) (grid : List K)
    (hp : X.Perm X') :
    partialDependence f X j grid none none = partialDependence f X' j grid none none := by
  rw [C16_closed_form, C16_closed_form]
  apply List.map_congr_left
  intro gv _
  simp only
  rw [pd_perm_sum _ hp, hp.length_eq]

/-- permuting rows and weights together leaves every weighted value unchanged -/
theorem C16_perm_rows_weighted (f : List K → K) (X X' : List (List K)) (j : Nat) (grid : List K)
    (w w' : List K) (hw : w.length = X.length) (hw' : w'.length = X'.length)
    (hp : (X.zip w).Perm (X'.zip w')) :
    partialDependence f X j grid (some w) none = partialDependence f X' j grid (some w') none := by
  rw [C16_closed_form, C16_closed_form]
  apply List.map_congr_left
  intro gv _
  simp only
  rw [pd_perm_wsum _ hp, pd_perm_weights hw hw' hp]

end Perm

/-! ## The predict family of the differential test -/
section Family
variable {K : Type} [Add K] [Mul K] [Inhabited K]

/-- on a row whose feature column `j` was overwritten by `g`, the interaction family reads `g` in
column `j` and the row's **original** value in the other column `k` — this is what "all other
columns untouched" buys.  (`k < row.length` is not needed: out of range both sides read the
default.) -/
theorem C16_pred_family (a b c : K) {j k : Nat} (row : List K) (g : K)
    (hjk : k ≠ j) (hj : j < row.length) :
    predFamily a b c j k (row.set j g)
      = a * g * row[k]! + b * (row[k]! * row[k]!) + c * g :=
  pd_predFamily_set a b c row g hjk hj

end Family

/-! ## Instances over an ordered field, and concrete examples over `ℚ` -/
section Examples
variable {K : Type} [Field K] [LinearOrder K] [IsStrictOrderedRing K] [Inhabited K]

/-- the bare-class theorems apply over every ordered field -/
example (f : List K → K) (X : List (List K)) (j : Nat) (grid w : List K) {g : Nat}
    (hg : g < grid.length) :
    (partialDependence f X j grid (some w) none)[g]!
      = (List.zipWith (· * ·) (X.map (fun row => f (row.set j grid[g]!))) w).sum / w.sum :=
  C16_definition_weighted f X j grid w hg

example (f : List K → K) (X X' : List (List K)) (j : Nat) (grid : List K) (hp : X.Perm X') :
    partialDependence f X j grid none none = partialDependence f X' j grid none none :=
  C16_perm_rows_unweighted f X X' j grid hp

/-- 2×2 matrix, two grid points, feature column 0: row `1 * 2 + 0` of the stacked matrix -/
example : (stacked [[(1 : ℚ), 2], [3, 4]] 0 [10, 20])[1 * 2 + 0]! = [20, 2] :=
  C16_stacked_row [[(1 : ℚ), 2], [3, 4]] 0 [10, 20] (g := 1) (i := 0) (by decide) (by decide)

example : (partialDependence (predFamily (1 : ℚ) 2 3 0 1) [[1, 2], [3, 4]] 0 [10, 20] none none)[1]!
    = (([[(1 : ℚ), 2], [3, 4]]).map
        (fun row => predFamily (1 : ℚ) 2 3 0 1 (row.set 0 ([(10 : ℚ), 20])[1]!))).sum
      / (([[(1 : ℚ), 2], [3, 4]]).length : ℚ) :=
  C16_definition_unweighted _ _ _ _ (by decide)

/-- the hypotheses of `C16_definition` on the same data: `X ≠ []`, `w.length = X.length`,
`w.sum ≠ 0`, `g < grid.length` -/
example : ([[(1 : ℚ), 2], [3, 4]] : List (List ℚ)) ≠ [] ∧
    ([(1 : ℚ), 3]).length = ([[(1 : ℚ), 2], [3, 4]]).length ∧ ([(1 : ℚ), 3]).sum ≠ 0 ∧
    1 < ([(10 : ℚ), 20]).length := by
  refine ⟨by simp, by simp, by norm_num, by simp⟩

/-- hypotheses of `C16_perm_rows_weighted`: rows and weights swapped together -/
example : partialDependence (predFamily (1 : ℚ) 2 3 0 1) [[1, 2], [3, 4]] 0 [10, 20] (some [1, 3]) none
    = partialDependence (predFamily (1 : ℚ) 2 3 0 1) [[3, 4], [1, 2]] 0 [10, 20] (some [3, 1]) none :=
  C16_perm_rows_weighted _ _ _ _ _ _ _ rfl rfl (List.Perm.swap _ _ _)

/-- hypotheses of `C16_subsample_without_replacement` and `C16_pred_family` -/
example : (takeRows [[(1 : ℚ), 2], [3, 4]] [1]).Subperm [[(1 : ℚ), 2], [3, 4]] ∧
    (takeRows [[(1 : ℚ), 2], [3, 4]] [1]).length = 1 :=
  C16_subsample_without_replacement _ _ (by decide) (by decide)

example : predFamily (1 : ℚ) 2 3 0 1 (([(1 : ℚ), 2]).set 0 20)
    = 1 * 20 * ([(1 : ℚ), 2])[1]! + 2 * (([(1 : ℚ), 2])[1]! * ([(1 : ℚ), 2])[1]!) + 3 * 20 :=
  C16_pred_family 1 2 3 [1, 2] 20 (by decide) (by decide)

/- `#eval partialDependence (predFamily (1 : ℚ) 2 3 0 1) [[1, 2], [3, 4]] 0 [10, 20] none none`
   gives `[80, 140]`  (`= [((10*2+8+30) + (10*4+32+30))/2, ((20*2+8+60) + (20*4+32+60))/2]`);
   with weights `(some [1, 3]) none`: `[91, 156]`  (`= [(58*1 + 102*3)/4, (108*1 + 172*3)/4]`);
   with `none (some [1])` (subsample = second row only): `[102, 172]`;
   `#eval stacked [[(1 : ℚ), 2], [3, 4]] 0 [10, 20]` gives `[[10, 2], [10, 4], [20, 2], [20, 4]]`. -/

end Examples

/- Observed `#print axioms` (Lean 4.33.0):
   [propext, Quot.sound]:
     C16_stacked_length, C16_stacked_row, C16_other_columns_untouched, C16_prediction_block,
     C16_tile_one_grid, C16_subsample_without_replacement, C16_closed_form, C16_length,
     C16_definition_unweighted, C16_definition_weighted, C16_definition,
     C16_weights_follow_subsample, C16_subsample_unweighted, C16_subsample_identity,
     C16_grid_order, C16_grid_map, C16_perm_rows_unweighted, C16_perm_rows_weighted
   [propext]:
     C16_subsample, C16_seed_deterministic, C16_no_subsample_when_small, C16_pred_family
   (no `Classical.choice`, no `sorryAx`). -/

end MD.Props
