import MD.Proofs.Consistency

/-! # C14 — the expectile family: homogeneity, the level-`1/2` shortcut, the degrees `1` and `0`
as limits (`K = ℝ`)

The quantile-family part of C14 (`C14_hqs_homogeneous`, `C14_hqs_scale_invariant`, `C14_pinball*`,
`C14_hqs_level_half_symmetric`) is in `MD/Props/C04_HQS.lean`, the named special cases of the
expectile family (`C14_squared_error`, `C14_poisson`, `C14_gamma`, …) in `MD/Props/C04_HES.lean`.
Helper lemmas: `MD/Proofs/Consistency.lean`.

* `hes h α y z` — model of `HomogeneousExpectileScore(degree=h, level=α).score_per_obs` for one pair;
* `hesDom h y z` — the accepted pairs; `hesBase h y z` — the branch-by-branch base score of the code
  (level `1/2`); `hesAsym α y z` — the factor `1` (`α = 1/2`) or `2|1{z ≥ y} − α|`. -/

set_option linter.unusedSectionVars false

namespace MD.Props
open Real Filter Topology

/-! ## positive homogeneity of degree `h` -/

/-- the domain is a cone -/
theorem C14_hes_domain_scale (h c y z : ℝ) (hc : 0 < c) :
    hesDom h (c * y) (c * z) ↔ hesDom h y z := cons_hesDom_mul hc

/-- the base score is positively homogeneous of degree `h` -/
theorem C14_hesBase_homogeneous (h c y z : ℝ) (hc : 0 < c) (d : hesDom h y z) :
    hesBase h (c * y) (c * z) = c ^ h * hesBase h y z := cons_hesBase_mul hc d

/-- the asymmetry factor is scale invariant -/
theorem C14_hesAsym_scale (α c y z : ℝ) (hc : 0 < c) :
    hesAsym α (c * y) (c * z) = hesAsym α y z := cons_hesAsym_mul hc

/-- **positive homogeneity**: for every real degree `h` (including `h = 0`: scale invariance,
`h = 1`: Poisson, `h = 2`: squared error), every level, every `c > 0` and every admissible pair,
`S(c y, c z) = c^h S(y, z)` -/
theorem C14_hes_homogeneous (h α c y z : ℝ) (hc : 0 < c) (d : hesDom h y z) :
    ∃ v v', hes h α (c * y) (c * z) = .ok v' ∧ hes h α y z = .ok v ∧ v' = c ^ h * v := by
  refine ⟨_, _, hes_eq_base ((cons_hesDom_mul hc).2 d), hes_eq_base d, ?_⟩
  rw [cons_hesAsym_mul hc, cons_hesBase_mul hc d]
  ring

/-- rescaling never changes acceptance: a rejected pair stays rejected -/
theorem C14_hes_rejected_scale (h α c y z : ℝ) (hc : 0 < c)
    (e : hes h α y z = .error .valueError) : hes h α (c * y) (c * z) = .error .valueError := by
  apply hes_error
  intro d
  rw [hes_eq_base ((cons_hesDom_mul hc).1 d)] at e
  cases e

/-- degree `0` (Gamma deviance and its asymmetric versions): scale invariance, rejected pairs
included -/
theorem C14_hes_scale_invariant (α c y z : ℝ) (hc : 0 < c) :
    hes 0 α (c * y) (c * z) = hes 0 α y z := by
  by_cases d : hesDom 0 y z
  · rw [hes_eq_base ((cons_hesDom_mul hc).2 d), hes_eq_base d, cons_hesAsym_mul hc,
      cons_hesBase_mul hc d, Real.rpow_zero, one_mul]
  · rw [hes_error d, hes_error (fun d' => d ((cons_hesDom_mul hc).1 d'))]

/-- degree `1`: `S(c y, c z) = c · S(y, z)` -/
theorem C14_hes_homogeneous_one (α c y z : ℝ) (hc : 0 < c) (d : hesDom 1 y z) :
    ∃ v v', hes 1 α (c * y) (c * z) = .ok v' ∧ hes 1 α y z = .ok v ∧ v' = c * v := by
  have := C14_hes_homogeneous 1 α c y z hc d
  rwa [Real.rpow_one] at this

/-- degree `2`: `S(c y, c z) = c² · S(y, z)`, all reals -/
theorem C14_hes_homogeneous_two (α c y z : ℝ) (hc : 0 < c) :
    ∃ v v', hes 2 α (c * y) (c * z) = .ok v' ∧ hes 2 α y z = .ok v ∧ v' = c ^ 2 * v := by
  have := C14_hes_homogeneous 2 α c y z hc (cons_hesDom_two y z)
  rwa [Real.rpow_two] at this

/-- the named classes through `scorePair` (for the squared error every real factor `c` works) -/
theorem C14_squared_error_homogeneous (h α c y z : ℝ) :
    ∃ v v', scorePair .squaredError h α (c * y) (c * z) = .ok v' ∧
      scorePair .squaredError h α y z = .ok v ∧ v' = c ^ 2 * v := by
  refine ⟨_, _, cons_scorePair_ok (k := .squaredError) trivial,
    cons_scorePair_ok (k := .squaredError) trivial, ?_⟩
  show hesVal 2 (1 / 2) (c * y) (c * z) = c ^ 2 * hesVal 2 (1 / 2) y z
  rw [cons_hesVal_two, cons_hesVal_two]; ring

theorem C14_poisson_homogeneous (h α c y z : ℝ) (hc : 0 < c) (hy : 0 ≤ y) (hz : 0 < z) :
    ∃ v v', scorePair .poisson h α (c * y) (c * z) = .ok v' ∧
      scorePair .poisson h α y z = .ok v ∧ v' = c * v := by
  have d : hesDom 1 y z := cons_hesDom_one.2 ⟨hy, hz⟩
  refine ⟨_, _, cons_scorePair_ok (k := .poisson) (cons_hesDom_one.1 ((cons_hesDom_mul hc).2 d)),
    cons_scorePair_ok (k := .poisson) ⟨hy, hz⟩, ?_⟩
  show hesVal 1 (1 / 2) (c * y) (c * z) = c * hesVal 1 (1 / 2) y z
  rw [cons_hesVal_half_base ((cons_hesDom_mul hc).2 d), cons_hesVal_half_base d,
    cons_hesBase_mul hc d, Real.rpow_one]

theorem C14_gamma_scale_invariant (h α c y z : ℝ) (hc : 0 < c) (hy : 0 < y) (hz : 0 < z) :
    ∃ v, scorePair .gamma h α (c * y) (c * z) = .ok v ∧ scorePair .gamma h α y z = .ok v := by
  have d : hesDom 0 y z := cons_hesDom_zero.2 ⟨hy, hz⟩
  refine ⟨_, cons_scorePair_ok (k := .gamma) (cons_hesDom_zero.1 ((cons_hesDom_mul hc).2 d)), ?_⟩
  rw [cons_scorePair_ok (k := .gamma) ⟨hy, hz⟩]
  show Except.ok (hesVal 0 (1 / 2) y z) = Except.ok (hesVal 0 (1 / 2) (c * y) (c * z))
  rw [cons_hesVal_half_base ((cons_hesDom_mul hc).2 d), cons_hesVal_half_base d,
    cons_hesBase_mul hc d, Real.rpow_zero, one_mul]

example : hesDom (1 / 2) 0 3 ∧ (0 : ℝ) < 7 := by
  refine ⟨?_, by norm_num⟩
  unfold hesDom
  rw [if_neg (by norm_num), if_pos (by norm_num)]
  exact ⟨le_rfl, by norm_num⟩

example : hesDom (-3) 1 2 := by
  unfold hesDom
  rw [if_neg (by norm_num), if_neg (by norm_num)]
  exact ⟨one_pos, two_pos⟩

/-! ## level `1/2`: the shortcut branch agrees with the general formula -/

/-- at level `1/2` the code returns the base score itself (factor `1`) -/
theorem C14_hes_level_half_symmetric (h y z : ℝ) (d : hesDom h y z) :
    hes h (1 / 2) y z = .ok (hesBase h y z) := by
  rw [hes_eq_base d]; simp [hesAsym]

/-- … and the general factor `2|1{z ≥ y} − α|` equals `1` at `α = 1/2` -/
theorem C14_hes_level_half_factor (y z : ℝ) : 2 * |geInd z y - 1 / 2| = 1 := by
  unfold geInd
  split_ifs
  · rw [abs_of_pos (by norm_num)]; norm_num
  · rw [zero_sub, abs_neg, abs_of_pos (by norm_num)]; norm_num

/-- so for every level (including `1/2`) the value is `2|1{z ≥ y} − α| · hesBase` -/
theorem C14_hes_general_formula (h α y z : ℝ) (d : hesDom h y z) :
    hes h α y z = .ok (2 * |geInd z y - α| * hesBase h y z) := by
  rw [hes_eq_base d]
  unfold hesAsym
  split_ifs with ha
  · rw [ha, C14_hes_level_half_factor]
  · rfl

/-- at level `1/2` and degree `2` the score is symmetric in (observation, prediction) -/
theorem C14_hes_two_level_half_swap (y z : ℝ) : hes 2 (1 / 2) y z = hes 2 (1 / 2) z y := by
  rw [C14_hes_level_half_symmetric 2 y z (cons_hesDom_two y z),
    C14_hes_level_half_symmetric 2 z y (cons_hesDom_two z y)]
  unfold hesBase
  rw [if_pos rfl, if_pos rfl]
  congr 1; ring

/-! ## the degrees `1` and `0` are the limits of the general formula -/

/-- for `h ∉ {0, 1, 2}` and positive arguments every branch of the code is
`2 (y^h − z^h − h z^(h−1) (y − z)) / (h (h − 1))` -/
theorem C14_hesBase_general (h y z : ℝ) (hy : 0 < y) (hz : 0 < z) (h0 : h ≠ 0) (h1 : h ≠ 1)
    (h2 : h ≠ 2) :
    hesBase h y z = 2 * (y ^ h - z ^ h - h * z ^ (h - 1) * (y - z)) / (h * (h - 1)) := by
  rw [cons_hesBase_general hy hz h0 h1 h2]
  unfold cons_N
  rw [Real.rpow_sub_one hz.ne']
  congr 2
  field_simp

/-- `h → 1`: the general base score tends to the Poisson deviance `2 (y log(y/z) − y + z)` -/
theorem C14_limit_degree_one (y z : ℝ) (hy : 0 < y) (hz : 0 < z) :
    Tendsto (fun h => hesBase h y z) (nhdsWithin 1 {1}ᶜ) (nhds (hesBase 1 y z)) :=
  cons_limit_degree_one hy hz

theorem C14_hesBase_one_value (y z : ℝ) :
    hesBase 1 y z = 2 * (y * Real.log (y / z) - y + z) := by
  unfold hesBase
  rw [if_neg (by norm_num), if_neg (lt_irrefl _), if_pos rfl, xlogy_real]

/-- `h → 0`: the general base score tends to the Gamma deviance `2 (y/z − log(y/z) − 1)` -/
theorem C14_limit_degree_zero (y z : ℝ) (hy : 0 < y) (hz : 0 < z) :
    Tendsto (fun h => hesBase h y z) (nhdsWithin 0 {0}ᶜ) (nhds (hesBase 0 y z)) :=
  cons_limit_degree_zero hy hz

theorem C14_hesBase_zero_value (y z : ℝ) :
    hesBase 0 y z = 2 * (y / z - Real.log (y / z) - 1) := by
  unfold hesBase
  rw [if_neg (by norm_num), if_neg (by norm_num), if_neg (by norm_num), if_pos rfl]

/-- the same limits for the returned scores at any level -/
theorem C14_limit_degree_one_val (α y z : ℝ) (hy : 0 < y) (hz : 0 < z) :
    Tendsto (fun h => hesVal h α y z) (nhdsWithin 1 {1}ᶜ) (nhds (hesVal 1 α y z)) := by
  have e : ∀ h, hesVal h α y z = hesAsym α y z * hesBase h y z :=
    fun h => cons_hesVal_eq_base α (cons_hesDom_of_pos h hy hz)
  simp only [e]
  exact (cons_limit_degree_one hy hz).const_mul _

theorem C14_limit_degree_zero_val (α y z : ℝ) (hy : 0 < y) (hz : 0 < z) :
    Tendsto (fun h => hesVal h α y z) (nhdsWithin 0 {0}ᶜ) (nhds (hesVal 0 α y z)) := by
  have e : ∀ h, hesVal h α y z = hesAsym α y z * hesBase h y z :=
    fun h => cons_hesVal_eq_base α (cons_hesDom_of_pos h hy hz)
  simp only [e]
  exact (cons_limit_degree_zero hy hz).const_mul _

/-- quantile family, `h → 0`: `(z^h − y^h)/h → log z − log y` -/
theorem C14_limit_gfun_zero (y z : ℝ) (hy : 0 < y) (hz : 0 < z) :
    Tendsto (fun h => gfun h z - gfun h y) (nhdsWithin 0 {0}ᶜ)
      (nhds (Real.log z - Real.log y)) :=
  cons_limit_gfun_zero hy hz

/-- … hence the returned quantile scores converge to the degree-`0` score -/
theorem C14_limit_hqs_zero (α y z : ℝ) (hy : 0 < y) (hz : 0 < z) :
    Tendsto (fun h => hqsVal h α y z) (nhdsWithin 0 {0}ᶜ) (nhds (hqsVal 0 α y z)) := by
  unfold hqsVal
  rw [gfun_zero, gfun_zero]
  exact (cons_limit_gfun_zero hy hz).const_mul _

end MD.Props

/- Observed `#print axioms` (Lean 4.33.0, Mathlib v4.33.0), one line per theorem of this file:
'MD.Props.C14_hes_domain_scale' depends on axioms: [propext, Classical.choice, Quot.sound]
'MD.Props.C14_hesBase_homogeneous' depends on axioms: [propext, Classical.choice, Quot.sound]
'MD.Props.C14_hesAsym_scale' depends on axioms: [propext, Classical.choice, Quot.sound]
'MD.Props.C14_hes_homogeneous' depends on axioms: [propext, Classical.choice, Quot.sound]
'MD.Props.C14_hes_rejected_scale' depends on axioms: [propext, Classical.choice, Quot.sound]
'MD.Props.C14_hes_scale_invariant' depends on axioms: [propext, Classical.choice, Quot.sound]
'MD.Props.C14_hes_homogeneous_one' depends on axioms: [propext, Classical.choice, Quot.sound]
'MD.Props.C14_hes_homogeneous_two' depends on axioms: [propext, Classical.choice, Quot.sound]
'MD.Props.C14_squared_error_homogeneous' depends on axioms: [propext, Classical.choice, Quot.sound]
'MD.Props.C14_poisson_homogeneous' depends on axioms: [propext, Classical.choice, Quot.sound]
'MD.Props.C14_gamma_scale_invariant' depends on axioms: [propext, Classical.choice, Quot.sound]
'MD.Props.C14_hes_level_half_symmetric' depends on axioms: [propext, Classical.choice, Quot.sound]
'MD.Props.C14_hes_level_half_factor' depends on axioms: [propext, Classical.choice, Quot.sound]
'MD.Props.C14_hes_general_formula' depends on axioms: [propext, Classical.choice, Quot.sound]
'MD.Props.C14_hes_two_level_half_swap' depends on axioms: [propext, Classical.choice, Quot.sound]
'MD.Props.C14_hesBase_general' depends on axioms: [propext, Classical.choice, Quot.sound]
'MD.Props.C14_limit_degree_one' depends on axioms: [propext, Classical.choice, Quot.sound]
'MD.Props.C14_hesBase_one_value' depends on axioms: [propext, Classical.choice, Quot.sound]
'MD.Props.C14_limit_degree_zero' depends on axioms: [propext, Classical.choice, Quot.sound]
'MD.Props.C14_hesBase_zero_value' depends on axioms: [propext, Classical.choice, Quot.sound]
'MD.Props.C14_limit_degree_one_val' depends on axioms: [propext, Classical.choice, Quot.sound]
'MD.Props.C14_limit_degree_zero_val' depends on axioms: [propext, Classical.choice, Quot.sound]
'MD.Props.C14_limit_gfun_zero' depends on axioms: [propext, Classical.choice, Quot.sound]
'MD.Props.C14_limit_hqs_zero' depends on axioms: [propext, Classical.choice, Quot.sound]
-/
