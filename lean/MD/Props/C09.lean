import MD.Proofs.TableLemmas
import Mathlib.Algebra.Order.Field.Rat
import Mathlib.Tactic.NormNum.Basic

/-! # C09 — `compute_bias(y_obs, y_pred, feature, weights, functional, level, n_bins, bin_method)`

"Per feature bin (or overall) the table reports the number of rows, the total weight, the weighted
mean of the identification function (the bias) and its standard error; rows are grouped by the
binned feature, the null group is kept, at most n_bins groups are shown; the weight-averaged group
biases recombine to the overall bias, and the result does not depend on the order of the rows."

Property theorems about the group-by machinery `groupRows` / `groupStat` / `truncateGroups` /
`groupedTable` of `MD/Model/Table.lean` (shared with `compute_marginal`, see C10).  Helper lemmas
and the auxiliary names `tbl_idx` (member rows of a group), `tbl_numKey` / `tbl_strKey` (bin label
↦ group key), `tbl_outRow` (group ↦ output row), `tbl_reorder` (re-ordering a column by an index
list) live in `MD/Proofs/TableLemmas.lean`. -/

set_option linter.unusedSectionVars false
set_option linter.unusedVariables false
set_option linter.deprecated false

namespace MD.Props
variable {K : Type} [Field K] [LinearOrder K] [IsStrictOrderedRing K]

/-- the group counts add up to the number of rows: every row is in exactly one group -/
theorem C09_counts_total {α : Type} [BEq α] [LawfulBEq α] (keys : List α) (cols : List (List K))
    (ws : List K) : ((groupRows keys cols ws).map (·.count)).sum = keys.length :=
  tbl_counts_total keys cols ws

/-- the group weights add up to the total weight -/
theorem C09_weights_total {α : Type} [BEq α] [LawfulBEq α] (keys : List α) (cols : List (List K))
    (ws : List K) (hw : ws.length = keys.length) :
    ((groupRows keys cols ws).map (·.weights)).sum = ws.sum :=
  tbl_weights_total keys cols ws hw

/-- there is exactly one group per distinct key, in order of first occurrence -/
theorem C09_one_group_per_key {α : Type} [BEq α] [LawfulBEq α] (keys : List α) (cols : List (List K))
    (ws : List K) :
    ((groupRows keys cols ws).map (·.key)).Nodup ∧
    ∀ k, k ∈ (groupRows keys cols ws).map (·.key) ↔ k ∈ keys := by
  rw [tbl_groupRows_keys]
  exact ⟨tbl_distinctKeys_nodup keys, tbl_mem_distinctKeys keys⟩

/-- `Σ_g W_g · mean_g = Σ_i w_i · v_i` for every value column `j`, given `W_g ≠ 0` -/
theorem C09_recombine {α : Type} [BEq α] [LawfulBEq α] (keys : List α) (cols : List (List K))
    (ws : List K) (j : Nat) (col : List K) (hj : cols[j]? = some col)
    (hw : ws.length = keys.length) (hc : col.length = keys.length)
    (hne : ∀ g ∈ groupRows keys cols ws, g.weights ≠ 0) :
    ((groupRows keys cols ws).map (fun g => g.weights * ((g.stats[j]?).map (·.mean)).getD 0)).sum =
      (List.zipWith (· * ·) ws col).sum :=
  tbl_recombine keys cols ws j col hj hw hc hne

/-- positive weights: every group has positive weight -/
theorem C09_group_weight_pos {α : Type} [BEq α] [LawfulBEq α] (keys : List α) (cols : List (List K))
    (ws : List K) (hw : ws.length = keys.length) (hpos : ∀ w ∈ ws, 0 < w) :
    ∀ g ∈ groupRows keys cols ws, 0 < g.weights := by
  intro g hg
  rw [tbl_groupRows_eq', List.mem_map] at hg
  obtain ⟨k, hk, rfl⟩ := hg
  exact tbl_group_weight_pos keys ws hw hpos k ((tbl_mem_distinctKeys keys k).1 hk)

/-- with positive weights the weight-averaged group means equal the overall weighted mean
(for `compute_bias`: the weight-averaged group biases equal the overall bias) -/
theorem C09_recombine_mean {α : Type} [BEq α] [LawfulBEq α] (keys : List α) (cols : List (List K))
    (ws : List K) (j : Nat) (col : List K) (hj : cols[j]? = some col)
    (hw : ws.length = keys.length) (hc : col.length = keys.length) (hpos : ∀ w ∈ ws, 0 < w) :
    ((groupRows keys cols ws).map (fun g => g.weights * ((g.stats[j]?).map (·.mean)).getD 0)).sum /
      ((groupRows keys cols ws).map (·.weights)).sum = (groupStat col ws).mean := by
  rw [C09_recombine keys cols ws j col hj hw hc
    (fun g hg => ne_of_gt (C09_group_weight_pos keys cols ws hw hpos g hg)),
    C09_weights_total keys cols ws hw]
  rfl

/-- each group consists of exactly the rows with its key (in row order), and its count, weight and
statistics are those of the member rows -/
theorem C09_group_is_definition {α : Type} [BEq α] [LawfulBEq α] (keys : List α)
    (cols : List (List K)) (ws : List K) (g : GroupRow K α) (hg : g ∈ groupRows keys cols ws) :
    g.key ∈ keys ∧
    (∀ i, i ∈ g.idx ↔ keys[i]? = some g.key) ∧
    g.idx.Pairwise (· < ·) ∧
    g.count = g.idx.length ∧
    g.weights = (g.idx.filterMap (fun i => ws[i]?)).sum ∧
    g.stats = cols.map (fun c => groupStat (g.idx.filterMap (fun i => c[i]?))
      (g.idx.filterMap (fun i => ws[i]?))) := by
  rw [tbl_groupRows_eq', List.mem_map] at hg
  obtain ⟨k, hk, rfl⟩ := hg
  refine ⟨(tbl_mem_distinctKeys keys k).1 hk, fun i => tbl_mem_idx keys k i, ?_, rfl, rfl, rfl⟩
  exact List.Pairwise.sublist List.filter_sublist List.pairwise_lt_range

/-- `groupStat`: weighted mean `Σwv/Σw`, weighted variance `Σw(v−mean)²/Σw`, and
`stderr² = variance/(count−1)` for `count > 1`, else the variance -/
theorem C09_groupStat_def (vals ws : List K) :
    (groupStat vals ws).mean = (List.zipWith (· * ·) ws vals).sum / ws.sum ∧
    (groupStat vals ws).stderr2 =
      (if vals.length > 1 then
        (List.zipWith (fun w v => w * ((v - (groupStat vals ws).mean) * (v - (groupStat vals ws).mean))) ws vals).sum
          / ws.sum / ((vals.length - 1 : Nat) : K)
       else
        (List.zipWith (fun w v => w * ((v - (groupStat vals ws).mean) * (v - (groupStat vals ws).mean))) ws vals).sum
          / ws.sum) :=
  ⟨rfl, rfl⟩

/-- the ungrouped path (`feature=None`) is the single group of all rows -/
theorem C09_ungrouped (cols : List (List K)) (ws : List K) :
    (ungroupedRow cols ws).count = ws.length ∧ (ungroupedRow cols ws).weights = ws.sum ∧
    (ungroupedRow cols ws).stats = cols.map (fun c => groupStat c ws) :=
  ⟨rfl, rfl, rfl⟩

/-- `.head(n_bins)` drops nothing when there are at most `n_bins` groups -/
theorem C09_no_truncation {α : Type} (isNull : α → Bool) (nBins : Nat) (gs : List (GroupRow K α))
    (h : gs.length ≤ nBins) : (truncateGroups isNull nBins gs).Perm gs :=
  tbl_truncate_perm isNull nBins gs h

/-- numeric features: the number of groups is at most the `n_bins` returned by the binning, so the
table is a permutation of all groups -/
theorem C09_no_truncation_numeric (m : BinMethod) (nBins : Nat) (given : List K)
    (feature : List (Cell K)) (cols : List (List K)) (ws : List K) (enumOrder : Option (List String))
    (pooled : Option String) :
    let b := binNumeric m nBins given feature
    let keys := b.bins.map tbl_numKey
    (groupRows keys cols ws).length ≤ b.nBins ∧
    (groupedTable keys feature b.edges cols ws b.nBins enumOrder pooled).Perm
      ((groupRows keys cols ws).map (tbl_outRow feature b.edges)) := by
  intro b keys
  have h := tbl_num_groups_le m nBins given feature cols ws
  exact ⟨h, tbl_groupedTable_perm keys feature b.edges cols ws b.nBins enumOrder pooled h⟩

/-- string-like features: the same -/
theorem C09_no_truncation_string (eo : Option (List String)) (nBins : Nat)
    (feature : List (Option String)) (cfeature : List (Cell K))
    (rowEdges : List (Option (Cell K × Cell K))) (cols : List (List K)) (ws : List K) :
    let b := binString eo nBins feature
    let keys := b.bins.map tbl_strKey
    (groupRows keys cols ws).length ≤ b.nBins ∧
    (groupedTable keys cfeature rowEdges cols ws b.nBins eo b.pooled).Perm
      ((groupRows keys cols ws).map (tbl_outRow cfeature rowEdges)) := by
  intro b keys
  have h := tbl_str_groups_le eo nBins feature cols ws
  exact ⟨h, tbl_groupedTable_perm keys cfeature rowEdges cols ws b.nBins eo b.pooled h⟩

/-- the null group is kept (for any `n_bins ≥ 1`, even when other groups are cut off) -/
theorem C09_null_group_kept (keys : List Key) (feature : List (Cell K))
    (rowEdges : List (Option (Cell K × Cell K))) (cols : List (List K)) (ws : List K) (nBins : Nat)
    (enumOrder : Option (List String)) (pooled : Option String)
    (h1 : 1 ≤ nBins) (hnull : Key.null ∈ keys) :
    ∃ r ∈ groupedTable keys feature rowEdges cols ws nBins enumOrder pooled, r.key = .null := by
  have hk : Key.null ∈ distinctKeys keys := (tbl_mem_distinctKeys keys _).2 hnull
  have hg0 : tbl_groupRow keys cols ws Key.null ∈ groupRows keys cols ws := by
    rw [tbl_groupRows_eq']; exact List.mem_map.2 ⟨_, hk, rfl⟩
  obtain ⟨g, hg, hgn⟩ := tbl_truncate_null Key.isNull nBins h1 _ _ hg0 rfl
  refine ⟨tbl_outRow feature rowEdges g, ?_, ?_⟩
  · rw [tbl_groupedTable_eq, List.mem_mergeSort]
    exact List.mem_map.2 ⟨g, hg, rfl⟩
  · show g.key = .null
    cases hk : g.key <;> simp [hk, Key.isNull] at hgn ⊢

/-- every row of the table is the row of a group: key, count, weights and statistics are copied -/
theorem C09_table_rows (keys : List Key) (feature : List (Cell K))
    (rowEdges : List (Option (Cell K × Cell K))) (cols : List (List K)) (ws : List K) (nBins : Nat)
    (enumOrder : Option (List String)) (pooled : Option String) (r : OutRow K)
    (hr : r ∈ groupedTable keys feature rowEdges cols ws nBins enumOrder pooled) :
    ∃ g ∈ groupRows keys cols ws, r.key = g.key ∧ r.count = g.count ∧ r.weights = g.weights ∧
      r.stats = g.stats := by
  obtain ⟨g, hg, rfl⟩ := tbl_groupedTable_mem keys feature rowEdges cols ws nBins enumOrder pooled r hr
  exact ⟨g, hg, rfl, rfl, rfl, rfl⟩

/-- permuting the rows consistently (`keys`, every value column and `ws` re-ordered by the same
index permutation `p`) leaves every group's count, weight and statistics unchanged -/
theorem C09_perm {α : Type} [BEq α] [LawfulBEq α] (keys : List α) (cols : List (List K))
    (ws : List K) (hw : ws.length = keys.length) (hcols : ∀ c ∈ cols, c.length = keys.length)
    (p : List Nat) (hp : p.Perm (List.range keys.length)) :
    (∀ g ∈ groupRows keys cols ws,
      ∃ g' ∈ groupRows (tbl_reorder p keys) (cols.map (tbl_reorder p)) (tbl_reorder p ws),
        g'.key = g.key ∧ g'.count = g.count ∧ g'.weights = g.weights ∧ g'.stats = g.stats) ∧
    ((groupRows (tbl_reorder p keys) (cols.map (tbl_reorder p)) (tbl_reorder p ws)).map (·.key)).Perm
      ((groupRows keys cols ws).map (·.key)) := by
  refine ⟨tbl_groupRows_perm keys cols ws hw hcols p hp, ?_⟩
  rw [tbl_groupRows_keys, tbl_groupRows_keys]
  rw [List.perm_ext_iff_of_nodup (tbl_distinctKeys_nodup _) (tbl_distinctKeys_nodup _)]
  intro k
  rw [tbl_mem_distinctKeys, tbl_mem_distinctKeys]
  exact (tbl_reorder_perm p keys hp).mem_iff

/-- record-level form: count, weight and statistics of group `k` only depend on the multiset of
row records `(key, weight, value)` -/
theorem C09_perm_records {α : Type} [BEq α] [LawfulBEq α] (keys keys' : List α) (ws ws' c c' : List K)
    (hw : ws.length = keys.length) (hc : c.length = keys.length)
    (hw' : ws'.length = keys'.length) (hc' : c'.length = keys'.length)
    (hperm : (List.zip keys (List.zip ws c)).Perm (List.zip keys' (List.zip ws' c'))) (k : α) :
    (tbl_idx keys k).length = (tbl_idx keys' k).length ∧
    ((tbl_idx keys k).filterMap (fun i => ws[i]?)).sum = ((tbl_idx keys' k).filterMap (fun i => ws'[i]?)).sum ∧
    groupStat ((tbl_idx keys k).filterMap (fun i => c[i]?)) ((tbl_idx keys k).filterMap (fun i => ws[i]?)) =
      groupStat ((tbl_idx keys' k).filterMap (fun i => c'[i]?)) ((tbl_idx keys' k).filterMap (fun i => ws'[i]?)) :=
  tbl_group_perm keys keys' ws ws' c c' hw hc hw' hc' hperm k

/-! ## examples: the hypotheses are satisfiable on concrete inputs

`#eval` at `K = Rat`:
`groupRows [Key.num 0, Key.null, Key.num 0, Key.num 1] [[1,2,3,4],[2,2,2,2]] [1,2,3,4]` has the groups
`(num 0, count 2, weight 4, [(mean 5/2, stderr² 3/4), (2, 0)], idx [0, 2])`,
`(null, 1, 2, [(2, 0), (2, 0)], [1])`, `(num 1, 1, 4, [(4, 0), (2, 0)], [3])`;
`groupedTable … (nBins := 2)` keeps `null (1, 2)` and `num 0 (2, 4)`: the null group survives. -/

/-- `C09_weights_total`, `C09_recombine_mean`: lengths agree, weights positive -/
example : ([1, 2, 3, 4] : List ℚ).length = [Key.num 0, Key.null, Key.num 0, Key.num 1].length ∧
    (∀ w ∈ ([1, 2, 3, 4] : List ℚ), 0 < w) := by
  refine ⟨rfl, ?_⟩
  simp

example : ((groupRows [Key.num 0, Key.null, Key.num 0, Key.num 1] [[1, 2, 3, 4], [2, 2, 2, 2]]
    ([1, 2, 3, 4] : List ℚ)).map (·.weights)).sum = 10 := by
  rw [C09_weights_total [Key.num 0, Key.null, Key.num 0, Key.num 1] [[1, 2, 3, 4], [2, 2, 2, 2]]
    ([1, 2, 3, 4] : List ℚ) rfl]; norm_num

example : ((groupRows [Key.num 0, Key.null, Key.num 0, Key.num 1] [[1, 2, 3, 4], [2, 2, 2, 2]]
    ([1, 2, 3, 4] : List ℚ)).map (fun g => g.weights * ((g.stats[0]?).map (·.mean)).getD 0)).sum = 30 := by
  rw [C09_recombine [Key.num 0, Key.null, Key.num 0, Key.num 1] [[1, 2, 3, 4], [2, 2, 2, 2]]
    ([1, 2, 3, 4] : List ℚ) 0 [1, 2, 3, 4] rfl rfl rfl
    (fun g hg => ne_of_gt (C09_group_weight_pos [Key.num 0, Key.null, Key.num 0, Key.num 1]
      [[1, 2, 3, 4], [2, 2, 2, 2]] ([1, 2, 3, 4] : List ℚ) rfl
      (by intro w hw; simp at hw; rcases hw with rfl | rfl | rfl | rfl <;> norm_num) g hg))]
  norm_num

/-- `C09_null_group_kept` -/
example : 1 ≤ 2 ∧ Key.null ∈ [Key.num 0, Key.null, Key.num 0, Key.num 1] := by simp

/-- `C09_perm`: an index permutation -/
example : List.Perm [2, 0, 3, 1] (List.range [Key.num 0, Key.null, Key.num 0, Key.num 1].length) := by
  decide

example : tbl_reorder [2, 0, 3, 1] ([1, 2, 3, 4] : List ℚ) = [3, 1, 4, 2] := rfl

/-- `C09_no_truncation` -/
example : (groupRows [Key.num 0, Key.null, Key.num 0, Key.num 1] [[1, 2, 3, 4]]
    ([1, 2, 3, 4] : List ℚ)).length ≤ 3 := by
  rw [tbl_groupRows_length]; decide

end MD.Props

/-
`#print axioms` (observed with `lake env lean MD/Props/C09.lean`):
'MD.Props.C09_counts_total' depends on axioms: [propext, Classical.choice, Quot.sound]
'MD.Props.C09_weights_total' depends on axioms: [propext, Classical.choice, Quot.sound]
'MD.Props.C09_one_group_per_key' depends on axioms: [propext, Classical.choice, Quot.sound]
'MD.Props.C09_recombine' depends on axioms: [propext, Classical.choice, Quot.sound]
'MD.Props.C09_group_weight_pos' depends on axioms: [propext, Classical.choice, Quot.sound]
'MD.Props.C09_recombine_mean' depends on axioms: [propext, Classical.choice, Quot.sound]
'MD.Props.C09_group_is_definition' depends on axioms: [propext, Classical.choice, Quot.sound]
'MD.Props.C09_groupStat_def' depends on axioms: [propext, Quot.sound]
'MD.Props.C09_ungrouped' depends on axioms: [propext, Quot.sound]
'MD.Props.C09_no_truncation' depends on axioms: [propext, Quot.sound]
'MD.Props.C09_no_truncation_numeric' depends on axioms: [propext, Classical.choice, Quot.sound]
'MD.Props.C09_no_truncation_string' depends on axioms: [propext, Classical.choice, Quot.sound]
'MD.Props.C09_null_group_kept' depends on axioms: [propext, Classical.choice, Quot.sound]
'MD.Props.C09_table_rows' depends on axioms: [propext, Classical.choice, Quot.sound]
'MD.Props.C09_perm' depends on axioms: [propext, Classical.choice, Quot.sound]
'MD.Props.C09_perm_records' depends on axioms: [propext, Classical.choice, Quot.sound]
-/
