import MD.Proofs.LogLossDecomp

/-! # C06b — the score decomposition for `LogLoss`: signs

`MD/Props/C06.lean` proves `mcb ≥ 0`, `dsc ≥ 0`, `mcb = 0` for recalibrated forecasts and
"`unc` is the best constant score" for the squared error, the pinball loss and the two homogeneous
families; this file closes the gap left there for `LogLoss()` (score kind `.logloss`, per-pair value
`logLoss y z`, `np.log ↦ Real.log`).

Setting: `K = ℝ`, a score object with `sf.kind = .logloss`, `sf.elem = none`; `functional` inferred
or given as `"mean"`, any `level`; weights absent or present (a successful call has positive weights
of the right length, so nothing is assumed about them); observations in the **closed** interval
`[0,1]`; forecasts (resp. the constant `c`) in the **open** interval `(0,1)`.

Why the open interval: Mathlib's `Real.log 0 = 0` makes the model's log loss finite at a prediction
`z ∈ {0,1}` (numpy gives `+inf` when `y ≠ z`), e.g. `logLoss (1/2) 0 = log (1/2) < 0`; with
`ys = [1/2]`, forecast column `[0]` the model gives `mcb = log (1/2) < 0`, and the constant `c = 0`
scores `log (1/2) < 0 = unc`.  So the hypotheses on forecasts / `c` cannot be weakened to `[0,1]`
in the model.  The *recalibrated* values and the marginal mean may be exactly `0` or `1`; this is
handled in `MD/Proofs/LogLossDecomp.lean` (pure blocks).  The log loss has no domain check, so the
flag `yminAllowed` always holds and there is never a domain repair (`ll_allowed`). -/

set_option linter.unusedSectionVars false

namespace MD.Props

/-- **Log loss: `mcb ≥ 0` and `dsc ≥ 0`** for observations in `[0,1]` and forecasts in `(0,1)`
(`functional` inferred or `"mean"`, any `level`, any weights for which the call succeeds). -/
theorem C06_logloss_nonneg (sf : SF ℝ) (hk : sf.kind = .logloss) (he : sf.elem = none)
    (fn : Option (Option Functional)) (hfn : fn = none ∨ fn = some (some .mean)) (lv : Option ℝ)
    (ys : List ℝ) (cols : List (List ℝ)) (w : Option (List ℝ)) (rows : List (DecompRow ℝ))
    (h : decompose sf fn lv ys cols w = .ok rows)
    (hy : ∀ y ∈ ys, 0 ≤ y ∧ y ≤ 1) (hcols : ∀ x ∈ cols, ∀ z ∈ x, 0 < z ∧ z < 1) :
    ∀ r ∈ rows, 0 ≤ r.mcb ∧ 0 ≤ r.dsc := by
  obtain ⟨l, hv⟩ := ll_validate sf hk he fn hfn lv
  obtain ⟨f', lv', marg, sm, hv', _, hm, hrows⟩ := (dec_ok_iff sf fn lv ys cols w rows).mp h
  rw [hv] at hv'
  cases hv'
  obtain ⟨hm1, hm2⟩ := dec_marginal_ok hm
  intro r hr
  obtain ⟨x, hx, hrow⟩ := dec_mapM_mem hrows hr
  exact ll_row_signs sf hk he l ys w hy marg sm hm1 hm2 x (hcols x hx) r hrow

theorem C06_logloss_mcb_nonneg (sf : SF ℝ) (hk : sf.kind = .logloss) (he : sf.elem = none)
    (fn : Option (Option Functional)) (hfn : fn = none ∨ fn = some (some .mean)) (lv : Option ℝ)
    (ys : List ℝ) (cols : List (List ℝ)) (w : Option (List ℝ)) (rows : List (DecompRow ℝ))
    (h : decompose sf fn lv ys cols w = .ok rows)
    (hy : ∀ y ∈ ys, 0 ≤ y ∧ y ≤ 1) (hcols : ∀ x ∈ cols, ∀ z ∈ x, 0 < z ∧ z < 1) :
    ∀ r ∈ rows, 0 ≤ r.mcb :=
  fun r hr => (C06_logloss_nonneg sf hk he fn hfn lv ys cols w rows h hy hcols r hr).1

theorem C06_logloss_dsc_nonneg (sf : SF ℝ) (hk : sf.kind = .logloss) (he : sf.elem = none)
    (fn : Option (Option Functional)) (hfn : fn = none ∨ fn = some (some .mean)) (lv : Option ℝ)
    (ys : List ℝ) (cols : List (List ℝ)) (w : Option (List ℝ)) (rows : List (DecompRow ℝ))
    (h : decompose sf fn lv ys cols w = .ok rows)
    (hy : ∀ y ∈ ys, 0 ≤ y ∧ y ≤ 1) (hcols : ∀ x ∈ cols, ∀ z ∈ x, 0 < z ∧ z < 1) :
    ∀ r ∈ rows, 0 ≤ r.dsc :=
  fun r hr => (C06_logloss_nonneg sf hk he fn hfn lv ys cols w rows h hy hcols r hr).2

/-- **Log loss: `mcb = 0` for recalibrated forecasts** — a forecast column that is the recalibration
`X₀.map (interp tx₀ ty₀)` of some forecast `X₀` (the mean fit on `(X₀, y, w)`, evaluated at `X₀`).
No condition on the observations or on `X₀`: recalibrating such a column returns the very same
column (`dec_recal_fix`), and there is never a domain repair for the log loss; the recalibrated
values may be `0` or `1`. -/
theorem C06_logloss_mcb_zero_of_recalibrated (sf : SF ℝ) (hk : sf.kind = .logloss)
    (he : sf.elem = none) (fn : Option (Option Functional))
    (hfn : fn = none ∨ fn = some (some .mean)) (lv : Option ℝ) (ys : List ℝ)
    (cols : List (List ℝ)) (w : Option (List ℝ)) (rows : List (DecompRow ℝ))
    (h : decompose sf fn lv ys cols w = .ok rows)
    (i : Nat) (hi : i < cols.length) (hr : i < rows.length)
    (X₀ tx₀ ty₀ : List ℝ) (l : ℝ) (h₀ : isoFit (some .mean) l true X₀ ys w = .ok (tx₀, ty₀))
    (hx : cols[i] = X₀.map (interp tx₀ ty₀)) : rows[i].mcb = 0 := by
  obtain ⟨l', hv⟩ := ll_validate sf hk he fn hfn lv
  rw [dec_isoFit_mean_level l l'] at h₀
  obtain ⟨f', lv'', marg, sm, hv', _, _, hrows⟩ := (dec_ok_iff sf fn lv ys cols w rows).mp h
  rw [hv] at hv'
  cases hv'
  have hrow := dec_mapM_get hrows i hi hr
  rw [hx] at hrow
  exact dec_row_mcb_zero_fix sf (Or.inl rfl) ys w (ll_allowed sf hk he ys w) sm X₀ tx₀ ty₀ h₀
    rows[i] hrow

/-- **`mcb = 0` for isotonic-recalibrated forecasts — EVERY score object** (any kind, degree, level,
elementary or not) whose effective functional is the mean or an expectile, over any ordered field,
provided no domain repair takes place (`dec_yminAllowed`): if column `i` is the recalibration
`recal(X₀)` of some forecast `X₀` for the same functional and level, row `i` has `mcb = 0` exactly.
(No optimality argument: recalibrating a recalibrated forecast returns it unchanged.) -/
theorem C06_mcb_zero_of_recalibrated_any_score {K : Type} [Field K] [LinearOrder K]
    [IsStrictOrderedRing K] [ScoreOps K] [Inhabited K] (sf : SF K)
    (fn : Option (Option Functional)) (lv : Option K) (ys : List K)
    (cols : List (List K)) (w : Option (List K)) (rows : List (DecompRow K))
    (h : decompose sf fn lv ys cols w = .ok rows)
    (f : Functional) (lv' : K) (hv : dec_validate sf fn lv = .ok (f, lv'))
    (hme : f = .mean ∨ f = .expectile) (hallowed : dec_yminAllowed sf ys w = true)
    (i : Nat) (hi : i < cols.length) (hr : i < rows.length)
    (X₀ tx₀ ty₀ : List K) (h₀ : isoFit (some f) lv' true X₀ ys w = .ok (tx₀, ty₀))
    (hx : cols[i] = X₀.map (interp tx₀ ty₀)) : rows[i].mcb = 0 := by
  obtain ⟨f', lv'', marg, sm, hv', _, _, hrows⟩ := (dec_ok_iff sf fn lv ys cols w rows).mp h
  rw [hv] at hv'
  cases hv'
  have hrow := dec_mapM_get hrows i hi hr
  rw [hx] at hrow
  exact dec_row_mcb_zero_fix sf hme ys w hallowed sm X₀ tx₀ ty₀ h₀ rows[i] hrow

/-- … in the form "recalibration leaves the column unchanged": the recalibration of a recalibrated
column is the column itself -/
theorem C06_logloss_recal_of_recalibrated (sf : SF ℝ) (hk : sf.kind = .logloss)
    (he : sf.elem = none) (l : ℝ) (ys : List ℝ) (w : Option (List ℝ))
    (X₀ tx₀ ty₀ recal : List ℝ) (h₀ : isoFit (some .mean) l true X₀ ys w = .ok (tx₀, ty₀))
    (hrec : dec_recal sf .mean l ys w (X₀.map (interp tx₀ ty₀)) = .ok recal) :
    recal = X₀.map (interp tx₀ ty₀) := by
  obtain ⟨tx, ty, hfit, rfl⟩ := dec_recal_ok_allowed (ll_allowed sf hk he ys w) hrec
  exact dec_recal_fix (Or.inl rfl) h₀ hfit

/-- **Log loss: `unc ≤` the average score of every constant forecast `c ∈ (0,1)`**, for observations
in `[0,1]` (no condition on the forecast columns).  The marginal mean itself may be `0` or `1`. -/
theorem C06_logloss_unc_best_constant (sf : SF ℝ) (hk : sf.kind = .logloss) (he : sf.elem = none)
    (fn : Option (Option Functional)) (hfn : fn = none ∨ fn = some (some .mean)) (lv : Option ℝ)
    (ys : List ℝ) (cols : List (List ℝ)) (w : Option (List ℝ)) (rows : List (DecompRow ℝ))
    (h : decompose sf fn lv ys cols w = .ok rows) (hy : ∀ y ∈ ys, 0 ≤ y ∧ y ≤ 1)
    (c s : ℝ) (hc : 0 < c ∧ c < 1) (hs : sfMean sf ys (ys.map fun _ => c) w = .ok s) :
    ∀ r ∈ rows, r.unc ≤ s := by
  obtain ⟨l, hv⟩ := ll_validate sf hk he fn hfn lv
  obtain ⟨f', lv', marg, sm, hv', _, hm, hrows⟩ := (dec_ok_iff sf fn lv ys cols w rows).mp h
  rw [hv] at hv'
  cases hv'
  obtain ⟨hm1, hm2⟩ := dec_marginal_ok hm
  intro r hr
  obtain ⟨x, _, hrow⟩ := dec_mapM_mem hrows hr
  obtain ⟨_, _, _, _, _, _, he'⟩ := (dec_row_ok sf .mean l ys w sm x r).mp hrow
  rw [he']
  exact ll_row_unc_best sf hk he l ys w hy marg sm hm1 hm2 x r hrow c s hc hs

/-- the analytic heart: for observations in `[0,1]` the mean fit minimises the total weighted log
loss among all non-decreasing `(0,1)`-valued sequences, although its own values lie in `[0,1]` -/
theorem C06_logloss_fit_optimal (lv : ℝ) (ys : List ℝ) (hy : ∀ y ∈ ys, 0 ≤ y ∧ y ≤ 1) :
    dec_FitOpt .mean lv (fun y z => logLoss y z) (fun z => 0 < z ∧ z < 1) ys :=
  ll_fitOpt lv ys hy

/-- the flag `yminAllowed` always holds for the log loss (no domain check ⇒ no domain repair) -/
theorem C06_logloss_yminAllowed (sf : SF ℝ) (hk : sf.kind = .logloss) (he : sf.elem = none)
    (ys : List ℝ) (w : Option (List ℝ)) : dec_yminAllowed sf ys w = true :=
  ll_allowed sf hk he ys w

/-- **`decompose` succeeds for the log loss** on every non-empty data set with columns of the right
length and positive (or absent) weights of the right length — so the hypotheses
`decompose … = .ok rows` above are satisfiable whenever the data hypotheses are -/
theorem C06_logloss_ok (sf : SF ℝ) (hk : sf.kind = .logloss) (he : sf.elem = none)
    (fn : Option (Option Functional)) (hfn : fn = none ∨ fn = some (some .mean)) (lv : Option ℝ)
    (ys : List ℝ) (cols : List (List ℝ)) (w : Option (List ℝ)) (hne : ys ≠ [])
    (hc : ∀ c ∈ cols, c.length = ys.length) (hw : ∀ w', w = some w' → w'.length = ys.length)
    (hpos : ∀ v ∈ dec_wts ys w, 0 < v) : ∃ rows, decompose sf fn lv ys cols w = .ok rows :=
  ll_decompose_ok sf hk he fn hfn lv ys cols w hne hc hw hpos

/-! ## Non-vacuity -/

section Examples

/-- the hypotheses of `C06_logloss_nonneg` / `C06_logloss_unc_best_constant` on a concrete data set:
binary and fractional observations with ties, two forecast columns in `(0,1)` — one unsorted with
ties, one constant —, integer weights.  The first two rows are pooled to a pure block of value `0`
and the last observation is a pure block of value `1`, so recalibrated values hit both ends. -/
example : ∃ rows, decompose (⟨.logloss, 0, 0, none⟩ : SF ℝ) none none [0, 0, 1 / 2, 1, 1]
    [[1 / 4, 1 / 5, 1 / 2, 1 / 2, 3 / 4], [1 / 3, 1 / 3, 1 / 3, 1 / 3, 1 / 3]]
    (some [1, 2, 3, 4, 1]) = .ok rows :=
  C06_logloss_ok _ rfl rfl none (Or.inl rfl) none _ _ _ (by simp) (by simp) (by simp)
    (by simp [dec_wts])

example : ∀ y ∈ ([0, 0, 1 / 2, 1, 1] : List ℝ), 0 ≤ y ∧ y ≤ 1 := by
  intro y hy
  simp only [List.mem_cons, List.not_mem_nil, or_false] at hy
  rcases hy with rfl | rfl | rfl | rfl | rfl <;> norm_num

example : ∀ x ∈ ([[1 / 4, 1 / 5, 1 / 2, 1 / 2, 3 / 4], [1 / 3, 1 / 3, 1 / 3, 1 / 3, 1 / 3]] :
    List (List ℝ)), ∀ z ∈ x, 0 < z ∧ z < 1 := by
  intro x hx z hz
  simp only [List.mem_cons, List.not_mem_nil, or_false] at hx
  rcases hx with rfl | rfl <;>
    simp only [List.mem_cons, List.not_mem_nil, or_false] at hz <;>
    rcases hz with rfl | rfl | rfl | rfl | rfl <;> norm_num

/-- … unweighted, explicit functional `"mean"`, all observations equal to `1` (marginal `1`) -/
example : ∃ rows, decompose (⟨.logloss, 0, 0, none⟩ : SF ℝ) (some (some .mean)) (some (1 / 3))
    [1, 1, 1] [[1 / 4, 1 / 2, 1 / 3]] none = .ok rows :=
  C06_logloss_ok _ rfl rfl _ (Or.inr rfl) _ _ _ _ (by simp) (by simp) (by simp)
    (by simp [dec_wts])

/-- `C06_logloss_mcb_zero_of_recalibrated`: the fit on some forecast `X₀` exists -/
example : ∃ tx ty, isoFit (some .mean) (1 / 2 : ℝ) true [1 / 4, 1 / 5, 1 / 2, 1 / 2, 3 / 4]
    [0, 0, 1 / 2, 1, 1] (some [1, 2, 3, 4, 1]) = .ok (tx, ty) :=
  dec_isoFit_mean_ok _ _ _ _ (by simp) (by simp) (by simp) (by simp [dec_wts])

/-- `C06_logloss_unc_best_constant`: an admissible constant, and its average score exists -/
example : (0 : ℝ) < 1 / 3 ∧ (1 / 3 : ℝ) < 1 := by norm_num
example : ∃ s, sfMean (⟨.logloss, 0, 0, none⟩ : SF ℝ) [0, 0, 1 / 2, 1, 1]
    (([0, 0, 1 / 2, 1, 1] : List ℝ).map fun _ => (1 / 3 : ℝ)) (some [1, 2, 3, 4, 1]) = .ok s :=
  ⟨_, ll_sfMean _ rfl rfl _ _ _ (by simp) (by simp) (by simp) (by simp [dec_wts])⟩

/-- the open interval is needed in the model (`Real.log 0 = 0`): at the prediction `0` the model's
log loss of the observation `1/2` is negative -/
example : logLoss (1 / 2 : ℝ) 0 < 0 := by
  rw [logLoss_real]
  have h : Real.log (1 / 2 : ℝ) < 0 := Real.log_neg (by norm_num) (by norm_num)
  norm_num
  linarith

end Examples

end MD.Props

/-
Sanity checks (`#eval`, not part of the proofs) on the data set of the first example:
  recalibrated first column at `Rat` (`isoFit (some .mean) (1/2) true X y (some w)`, `X.map (interp tx ty)`)
                                     = [0, 0, 11/14, 11/14, 1]          -- both ends are hit
  decompose at `Float`               = ok [(0.203329, 0.345884, 0.487486, 0.344931),
                                           (0.138526, 0.000000, 0.487486, 0.626012)]
(rows are `(mcb, dsc, unc, score)`; the second column is constant: `dsc = 0`).
-/

/-
`#print axioms` (observed with `lake env lean`):
'MD.Props.C06_logloss_nonneg' depends on axioms: [propext, Classical.choice, Quot.sound]
'MD.Props.C06_logloss_mcb_nonneg' depends on axioms: [propext, Classical.choice, Quot.sound]
'MD.Props.C06_logloss_dsc_nonneg' depends on axioms: [propext, Classical.choice, Quot.sound]
'MD.Props.C06_logloss_mcb_zero_of_recalibrated' depends on axioms: [propext, Classical.choice, Quot.sound]
'MD.Props.C06_logloss_recal_of_recalibrated' depends on axioms: [propext, Classical.choice, Quot.sound]
'MD.Props.C06_logloss_unc_best_constant' depends on axioms: [propext, Classical.choice, Quot.sound]
'MD.Props.C06_logloss_fit_optimal' depends on axioms: [propext, Classical.choice, Quot.sound]
'MD.Props.C06_logloss_yminAllowed' depends on axioms: [propext, Classical.choice, Quot.sound]
'MD.Props.C06_logloss_ok' depends on axioms: [propext, Classical.choice, Quot.sound]
-/
