import MD.Proofs.DecompLemmas

/-! # C06 — the score decomposition: additive identity and signs

"For every data set and every library score, the decomposition satisfies
score = miscalibration - discrimination + uncertainty, where score is the plain average score of
the forecast and uncertainty is the score of the best constant forecast and does not depend on the
forecasts.  Whenever the smallest observation is itself an admissible prediction of the score,
miscalibration >= 0 and discrimination >= 0, miscalibration is 0 for forecasts that are already
isotonic-recalibrated, and discrimination is 0 for constant forecasts."

Model: `MD/Model/Decompose.lean` (`decompose`).  Proofs: `MD/Proofs/DecompLemmas.lean`, whose
normal form `dec_eq` splits a call into `dec_validate` (functional and level), `dec_shape` (length
checks), `dec_marginal` (marginal functional `marg` and its average score `sm`) and one `dec_row`
per forecast column (`dec_recal`: the fitted isotonic model evaluated at the forecasts, repaired
when `min y` is not admissible; then the two average scores). -/

set_option linter.unusedSectionVars false

namespace MD.Props
variable {K : Type} [Field K] [LinearOrder K] [IsStrictOrderedRing K] [ScoreOps K] [Inhabited K]

/-! ## 1. Structure of a successful call -/

/-- **Anatomy of the result.**  A successful call fixed an effective functional `f` and level `lv'`
(`dec_validate`), computed the marginal `marg = functionalVal f lv' ys w` and its average score
`sm`, and returns exactly one row per column, in order; the row of column `x` is built from the
plain average score of `x` and the average score `sR` of the recalibrated forecasts. -/
theorem C06_rows (sf : SF K) (fn : Option (Option Functional)) (lv : Option K) (ys : List K)
    (cols : List (List K)) (w : Option (List K)) (rows : List (DecompRow K))
    (h : decompose sf fn lv ys cols w = .ok rows) :
    ∃ f lv' marg sm, dec_validate sf fn lv = .ok (f, lv') ∧
      functionalVal f lv' ys w = .ok marg ∧ sfMean sf ys (ys.map fun _ => marg) w = .ok sm ∧
      rows.length = cols.length ∧
      ∀ i (hi : i < cols.length) (hr : i < rows.length), ∃ recal s sR,
        dec_recal sf f lv' ys w cols[i] = .ok recal ∧ sfMean sf ys cols[i] w = .ok s ∧
        sfMean sf ys recal w = .ok sR ∧ rows[i] = ⟨s - sR, sm - sR, sm, s⟩ := by
  obtain ⟨f, lv', marg, sm, hv, _, hm, hrows⟩ := (dec_ok_iff sf fn lv ys cols w rows).mp h
  obtain ⟨hm1, hm2⟩ := dec_marginal_ok hm
  refine ⟨f, lv', marg, sm, hv, hm1, hm2, dec_mapM_length hrows, ?_⟩
  intro i hi hr
  exact (dec_row_ok sf f lv' ys w sm cols[i] rows[i]).mp (dec_mapM_get hrows i hi hr)

/-- **The identity** `score = miscalibration − discrimination + uncertainty`, for every row of every
successful call: any score object, any functional / level option, any weights. -/
theorem C06_identity (sf : SF K) (fn : Option (Option Functional)) (lv : Option K) (ys : List K)
    (cols : List (List K)) (w : Option (List K)) (rows : List (DecompRow K))
    (h : decompose sf fn lv ys cols w = .ok rows) :
    ∀ r ∈ rows, r.score = r.mcb - r.dsc + r.unc := by
  obtain ⟨f, lv', marg, sm, _, _, _, _, hall⟩ := C06_rows sf fn lv ys cols w rows h
  intro r hr
  obtain ⟨i, hi, rfl⟩ := List.getElem_of_mem hr
  obtain ⟨recal, s, sR, _, _, _, he⟩ := hall i (by omega) hi
  rw [he]
  ring

/-- **`score` is the plain average score of the forecast**: there are as many rows as columns and
the `i`-th row's `score` is `scoring_function(y, cols[i], w)`. -/
theorem C06_score_is_plain_average (sf : SF K) (fn : Option (Option Functional)) (lv : Option K)
    (ys : List K) (cols : List (List K)) (w : Option (List K)) (rows : List (DecompRow K))
    (h : decompose sf fn lv ys cols w = .ok rows) :
    rows.length = cols.length ∧
    ∀ i (hi : i < cols.length) (hr : i < rows.length),
      sfMean sf ys cols[i] w = .ok rows[i].score := by
  obtain ⟨f, lv', marg, sm, _, _, _, hlen, hall⟩ := C06_rows sf fn lv ys cols w rows h
  refine ⟨hlen, ?_⟩
  intro i hi hr
  obtain ⟨recal, s, sR, _, hs, _, he⟩ := hall i hi hr
  rw [he]
  exact hs

/-- **`uncertainty` is the average score of the constant marginal forecast**: with `(f, lv')` the
effective functional and level, `marg = functionalVal f lv' ys w` (weighted mean / weighted
expectile / mid-quantile of `y`), every row has `unc = scoring_function(y, marg·1, w)`. -/
theorem C06_unc_is_marginal_score (sf : SF K) (fn : Option (Option Functional)) (lv : Option K)
    (ys : List K) (cols : List (List K)) (w : Option (List K)) (rows : List (DecompRow K))
    (h : decompose sf fn lv ys cols w = .ok rows) :
    ∃ f lv' marg, dec_validate sf fn lv = .ok (f, lv') ∧ functionalVal f lv' ys w = .ok marg ∧
      ∀ r ∈ rows, sfMean sf ys (ys.map fun _ => marg) w = .ok r.unc := by
  obtain ⟨f, lv', marg, sm, hv, hm, hs, _, hall⟩ := C06_rows sf fn lv ys cols w rows h
  refine ⟨f, lv', marg, hv, hm, ?_⟩
  intro r hr
  obtain ⟨i, hi, rfl⟩ := List.getElem_of_mem hr
  obtain ⟨recal, s, sR, _, _, _, he⟩ := hall i (by omega) hi
  rw [he]
  exact hs

/-- **`uncertainty` does not depend on the forecasts**: two successful calls that differ only in the
forecast matrix have the same `unc` in every row (in particular all rows of one call agree). -/
theorem C06_unc_forecast_free (sf : SF K) (fn : Option (Option Functional)) (lv : Option K)
    (ys : List K) (cols₁ cols₂ : List (List K)) (w : Option (List K))
    (rows₁ rows₂ : List (DecompRow K))
    (h₁ : decompose sf fn lv ys cols₁ w = .ok rows₁)
    (h₂ : decompose sf fn lv ys cols₂ w = .ok rows₂) :
    ∀ r₁ ∈ rows₁, ∀ r₂ ∈ rows₂, r₁.unc = r₂.unc := by
  obtain ⟨f, lv', marg, hv, hm, hu⟩ := C06_unc_is_marginal_score sf fn lv ys cols₁ w rows₁ h₁
  obtain ⟨f', lv'', marg', hv', hm', hu'⟩ := C06_unc_is_marginal_score sf fn lv ys cols₂ w rows₂ h₂
  rw [hv] at hv'
  cases hv'
  rw [hm] at hm'
  cases hm'
  intro r₁ hr₁ r₂ hr₂
  have := (hu r₁ hr₁).symm.trans (hu' r₂ hr₂)
  exact Except.ok.inj this

/-! ## 2. Errors -/

/-- **Input errors are `ValueError`s**: (1) an unknown functional name; (2) a level outside `(0,1)`
for an expectile or quantile (explicit arguments); (3) the same when functional / level are
inferred or mixed (`dec_fn`, `dec_lv` are what the call works with); (4) a forecast column whose
length differs from `y`; (5) a weight vector whose length differs from `y`.  (4) and (5) need no
proviso: every check that precedes them raises `ValueError` as well. -/
theorem C06_errors (sf : SF K) (fn : Option (Option Functional)) (lv : Option K) (ys : List K)
    (cols : List (List K)) (w : Option (List K)) :
    decompose sf (some none) lv ys cols w = .error .valueError ∧
    (∀ f l, (f = Functional.expectile ∨ f = Functional.quantile) → (l ≤ 0 ∨ 1 ≤ l) →
      decompose sf (some (some f)) (some l) ys cols w = .error .valueError) ∧
    (∀ f l, dec_fn sf fn = some f → dec_lv sf (some f) lv = .ok l →
      (f = Functional.expectile ∨ f = Functional.quantile) → (l ≤ 0 ∨ 1 ≤ l) →
      decompose sf fn lv ys cols w = .error .valueError) ∧
    ((∃ c ∈ cols, c.length ≠ ys.length) → decompose sf fn lv ys cols w = .error .valueError) ∧
    (∀ w', w = some w' → w'.length ≠ ys.length →
      decompose sf fn lv ys cols w = .error .valueError) := by
  refine ⟨dec_error_of_validate ys cols w (dec_validate_unknown sf lv), ?_, ?_, ?_, ?_⟩
  · intro f l hf hl
    exact dec_error_of_validate ys cols w
      (dec_validate_level sf (some (some f)) (some l) f l rfl rfl hf hl)
  · intro f l hfn hlv hf hl
    exact dec_error_of_validate ys cols w (dec_validate_level sf fn lv f l hfn hlv hf hl)
  · intro hc
    exact dec_error_of_shape (dec_shape_error_of_col w hc)
  · intro w' hw hlen
    subst hw
    exact dec_error_of_shape (dec_shape_error_of_weights cols hlen)

/-- a score without a level (log loss) cannot be decomposed for an expectile or quantile unless a
level is given -/
theorem C06_error_no_level (sf : SF K) (f : Functional) (hf : f = .expectile ∨ f = .quantile)
    (hl : sfLevel sf = none) (ys : List K) (cols : List (List K)) (w : Option (List K)) :
    decompose sf (some (some f)) none ys cols w = .error .valueError := by
  apply dec_error_of_validate
  have : dec_lv sf (dec_fn sf (some (some f))) none = .error .valueError := by
    unfold dec_lv
    rcases hf with rfl | rfl <;> simp [dec_fn, hl] <;> rfl
  unfold dec_validate
  rw [this]
  rfl

/-- an empty data set is rejected (`y[0]`: IndexError, modelled as `Err.other`) once functional,
level and lengths are fine -/
theorem C06_error_empty (sf : SF K) (fn : Option (Option Functional)) (lv : Option K)
    (cols : List (List K)) (w : Option (List K)) (p : Functional × K)
    (hv : dec_validate sf fn lv = .ok p) (hc : ∀ c ∈ cols, c.length = 0)
    (hw : ∀ w', w = some w' → w'.length = 0) :
    decompose sf fn lv [] cols w = .error .other := by
  rw [dec_eq_of_validate hv]
  have : dec_shape ([] : List K) cols w = .error .other := by
    unfold dec_shape
    have h1 : ¬ cols.any (fun c => decide (c.length ≠ ([] : List K).length)) = true := by
      intro h1
      obtain ⟨c, hc', hne⟩ := List.any_eq_true.mp h1
      exact (of_decide_eq_true hne) (hc c hc')
    cases w with
    | none => simp only [if_neg h1]; rfl
    | some w' =>
      have h2 : ¬ w'.length ≠ ([] : List K).length := by
        rw [not_not]; exact hw w' rfl
      simp only [if_neg h1, if_neg h2]; rfl
  rw [this]
  rfl

/-! ## 3. Signs: the generic statement and the squared error -/

/-- **Signs, generic form** (abstract in the score).  Let `(f, lv')` be the effective functional and
level of a successful call, `S` the per-pair value of the score on a set `dom` of admissible
predictions that contains every value not below all observations (`hup`: in particular `min y`),
and suppose the isotonic fit for `(f, lv')` minimises `S` among non-decreasing `dom`-valued
sequences (`dec_FitOpt`; instances: `dec_fitOpt_sq`, `dec_fitOpt_asymSq`, `dec_fitOpt_pinball`,
and `dec_fitOpt_of_gpava` for any `OSScore`).  If the marginal and all forecasts are admissible and
no domain repair takes place, every row has `mcb ≥ 0` and `dsc ≥ 0`. -/
theorem C06_mcb_dsc_nonneg_abstract (sf : SF K) (fn : Option (Option Functional)) (lv : Option K)
    (ys : List K) (cols : List (List K)) (w : Option (List K)) (rows : List (DecompRow K))
    (h : decompose sf fn lv ys cols w = .ok rows)
    (f : Functional) (lv' : K) (hv : dec_validate sf fn lv = .ok (f, lv'))
    (S : K → K → K) (dom : K → Prop)
    (hS : ∀ y ∈ ys, ∀ z, dom z → sfPair sf y z = .ok (S y z))
    (hopt : dec_FitOpt f lv' S dom ys) (hup : ∀ v, (∃ a ∈ ys, a ≤ v) → dom v)
    (hallowed : dec_yminAllowed sf ys w = true)
    (hmarg : ∀ m, functionalVal f lv' ys w = .ok m → dom m)
    (hcols : ∀ x ∈ cols, ∀ z ∈ x, dom z) :
    ∀ r ∈ rows, 0 ≤ r.mcb ∧ 0 ≤ r.dsc := by
  obtain ⟨f', lv'', marg, sm, hv', _, hm, hrows⟩ := (dec_ok_iff sf fn lv ys cols w rows).mp h
  rw [hv] at hv'
  cases hv'
  obtain ⟨hm1, hm2⟩ := dec_marginal_ok hm
  intro r hr
  obtain ⟨x, hx, hrow⟩ := dec_mapM_mem hrows hr
  exact dec_row_signs sf f lv' S dom ys w hS hopt hup hallowed marg sm hm2 (hmarg marg hm1) x
    (hcols x hx) r hrow

/-- `mcb ≥ 0`, abstractly (first half of `C06_mcb_dsc_nonneg_abstract`) -/
theorem C06_mcb_nonneg_abstract (sf : SF K) (fn : Option (Option Functional)) (lv : Option K)
    (ys : List K) (cols : List (List K)) (w : Option (List K)) (rows : List (DecompRow K))
    (h : decompose sf fn lv ys cols w = .ok rows)
    (f : Functional) (lv' : K) (hv : dec_validate sf fn lv = .ok (f, lv'))
    (S : K → K → K) (dom : K → Prop)
    (hS : ∀ y ∈ ys, ∀ z, dom z → sfPair sf y z = .ok (S y z))
    (hopt : dec_FitOpt f lv' S dom ys) (hup : ∀ v, (∃ a ∈ ys, a ≤ v) → dom v)
    (hallowed : dec_yminAllowed sf ys w = true)
    (hmarg : ∀ m, functionalVal f lv' ys w = .ok m → dom m)
    (hcols : ∀ x ∈ cols, ∀ z ∈ x, dom z) : ∀ r ∈ rows, 0 ≤ r.mcb :=
  fun r hr => (C06_mcb_dsc_nonneg_abstract sf fn lv ys cols w rows h f lv' hv S dom hS hopt hup
    hallowed hmarg hcols r hr).1

/-- `dsc ≥ 0`, abstractly (second half) -/
theorem C06_dsc_nonneg_abstract (sf : SF K) (fn : Option (Option Functional)) (lv : Option K)
    (ys : List K) (cols : List (List K)) (w : Option (List K)) (rows : List (DecompRow K))
    (h : decompose sf fn lv ys cols w = .ok rows)
    (f : Functional) (lv' : K) (hv : dec_validate sf fn lv = .ok (f, lv'))
    (S : K → K → K) (dom : K → Prop)
    (hS : ∀ y ∈ ys, ∀ z, dom z → sfPair sf y z = .ok (S y z))
    (hopt : dec_FitOpt f lv' S dom ys) (hup : ∀ v, (∃ a ∈ ys, a ≤ v) → dom v)
    (hallowed : dec_yminAllowed sf ys w = true)
    (hmarg : ∀ m, functionalVal f lv' ys w = .ok m → dom m)
    (hcols : ∀ x ∈ cols, ∀ z ∈ x, dom z) : ∀ r ∈ rows, 0 ≤ r.dsc :=
  fun r hr => (C06_mcb_dsc_nonneg_abstract sf fn lv ys cols w rows h f lv' hv S dom hS hopt hup
    hallowed hmarg hcols r hr).2

/-- the analytic heart in one line: for the training rows `(X, y, w)` of a successful `fit` and any
score `S` that the isotonic fit minimises, the recalibrated forecasts have a total weighted score
`≤` that of `g ∘ X` for **every** non-decreasing `g` — in particular (`g = id`) of the forecasts
themselves and (`g` constant) of every constant forecast -/
theorem C06_recal_optimal (f : Functional) (lv : K) (S : K → K → K) (dom : K → Prop)
    (X y : List K) (w : Option (List K)) (tx ty : List K)
    (h : isoFit (some f) lv true X y w = .ok (tx, ty)) (hopt : dec_FitOpt f lv S dom y) :
    (∀ g : K → K, Monotone g → (∀ x ∈ X, dom (g x)) →
      total (dec_wS S) (y.zip (dec_wts y w)) (X.map (interp tx ty))
        ≤ total (dec_wS S) (y.zip (dec_wts y w)) (X.map g)) ∧
    ((∀ x ∈ X, dom x) →
      total (dec_wS S) (y.zip (dec_wts y w)) (X.map (interp tx ty))
        ≤ total (dec_wS S) (y.zip (dec_wts y w)) X) ∧
    (∀ c, dom c →
      total (dec_wS S) (y.zip (dec_wts y w)) (X.map (interp tx ty))
        ≤ total (dec_wS S) (y.zip (dec_wts y w)) (X.map fun _ => c)) :=
  ⟨fun g hg hd => dec_recal_le h hopt g hg hd, fun hd => dec_recal_le_forecast h hopt hd,
    fun c hc => dec_recal_le_const h hopt c hc⟩

/-- … and every order-sensitive score (`OSScore`) of an identifiable functional whose generalised
PAVA is the fit (`dec_GpavaFit`: `dec_gpavaFit_mean`, `dec_gpavaFit_expectile`) is such an `S` -/
theorem C06_fitOpt_of_order_sensitive (F : IdFun K) (Sc : OSScore F) (f : Functional) (lv : K)
    (hfit : dec_GpavaFit f lv F.T) (S : K → K → K) (hS : ∀ o z, Sc.S o z = o.2 * S o.1 z)
    (ys : List K) (hok : ∀ y ∈ ys, ∀ v, 0 < v → F.ok (y, v))
    (hdom : ∀ v, (∃ a ∈ ys, a ≤ v) → Sc.dom v) : dec_FitOpt f lv S Sc.dom ys :=
  dec_fitOpt_of_gpava Sc hfit S hS ys hok hdom

/-- **Squared error: `mcb ≥ 0` and `dsc ≥ 0`**, over any ordered field, for every data set, every
(necessarily positive, or absent) weights and every forecast matrix — with `functional` inferred or
given as `"mean"`, any `level`.  `min y` is always admissible for the squared error, so there is no
proviso. -/
theorem C06_nonneg_squared_error (sf : SF K) (hk : sf.kind = .squaredError) (he : sf.elem = none)
    (fn : Option (Option Functional)) (hfn : fn = none ∨ fn = some (some .mean)) (lv : Option K)
    (ys : List K) (cols : List (List K)) (w : Option (List K)) (rows : List (DecompRow K))
    (h : decompose sf fn lv ys cols w = .ok rows) : ∀ r ∈ rows, 0 ≤ r.mcb ∧ 0 ≤ r.dsc := by
  obtain ⟨l, hv⟩ := dec_validate_sq sf hk he fn hfn lv
  exact C06_mcb_dsc_nonneg_abstract sf fn lv ys cols w rows h .mean l hv
    (fun y z => (z - y) * (z - y)) (fun _ => True)
    (fun y _ z _ => dec_sfPair_sq sf hk he y z) (dec_fitOpt_sq l ys) (fun _ _ => trivial)
    (dec_yminAllowed_of_ok sf ys w _ (dec_sfPair_sq sf hk he _ _)) (fun _ _ => trivial)
    (fun _ _ _ _ => trivial)

theorem C06_mcb_nonneg_squared_error (sf : SF K) (hk : sf.kind = .squaredError)
    (he : sf.elem = none) (fn : Option (Option Functional))
    (hfn : fn = none ∨ fn = some (some .mean)) (lv : Option K) (ys : List K)
    (cols : List (List K)) (w : Option (List K)) (rows : List (DecompRow K))
    (h : decompose sf fn lv ys cols w = .ok rows) : ∀ r ∈ rows, 0 ≤ r.mcb :=
  fun r hr => (C06_nonneg_squared_error sf hk he fn hfn lv ys cols w rows h r hr).1

theorem C06_dsc_nonneg_squared_error (sf : SF K) (hk : sf.kind = .squaredError)
    (he : sf.elem = none) (fn : Option (Option Functional))
    (hfn : fn = none ∨ fn = some (some .mean)) (lv : Option K) (ys : List K)
    (cols : List (List K)) (w : Option (List K)) (rows : List (DecompRow K))
    (h : decompose sf fn lv ys cols w = .ok rows) : ∀ r ∈ rows, 0 ≤ r.dsc :=
  fun r hr => (C06_nonneg_squared_error sf hk he fn hfn lv ys cols w rows h r hr).2

/-! ## 4. Zero components -/

/-- **`dsc = 0` for constant forecasts** — every score object, every functional, with or without
weights: if the smallest observation is an admissible prediction (the model's own flag
`yminAllowed`, so that no domain repair takes place), a column whose forecasts are all equal gets
discrimination exactly `0`.  Reason (`dec_recal_const_marginal`): all rows are tied in `X`, the
sort puts their responses in non-increasing order, the (generalised) PAVA pools a non-increasing
run into a single block, so the recalibrated forecast is the functional of the whole sample — the
weighted mean, the weighted expectile, or the mid-quantile — which does not depend on the order of
the observations and is exactly the marginal forecast behind `unc`. -/
theorem C06_dsc_zero_of_constant (sf : SF K) (fn : Option (Option Functional)) (lv : Option K)
    (ys : List K) (cols : List (List K)) (w : Option (List K)) (rows : List (DecompRow K))
    (h : decompose sf fn lv ys cols w = .ok rows) (hallowed : dec_yminAllowed sf ys w = true)
    (i : Nat) (hi : i < cols.length) (hr : i < rows.length)
    (hc : ∀ a ∈ cols[i], ∀ b ∈ cols[i], a = b) : rows[i].dsc = 0 := by
  obtain ⟨f, lv', marg, sm, hv, _, hm, hrows⟩ := (dec_ok_iff sf fn lv ys cols w rows).mp h
  obtain ⟨hm1, hm2⟩ := dec_marginal_ok hm
  exact dec_row_dsc_zero sf f lv' (dec_validate_ne_median hv) ys w hallowed marg sm hm1 hm2
    cols[i] hc rows[i] (dec_mapM_get hrows i hi hr)

/-- the recalibrated version of a constant forecast is the constant marginal forecast -/
theorem C06_recal_of_constant (sf : SF K) (f : Functional) (lv : K) (hm : f ≠ .median)
    (ys : List K) (w : Option (List K)) (hallowed : dec_yminAllowed sf ys w = true)
    (x recal : List K) (hc : ∀ a ∈ x, ∀ b ∈ x, a = b)
    (hrec : dec_recal sf f lv ys w x = .ok recal) (marg : K)
    (hmarg : functionalVal f lv ys w = .ok marg) : recal = ys.map fun _ => marg := by
  obtain ⟨tx, ty, hfit, rfl⟩ := dec_recal_ok_allowed hallowed hrec
  exact dec_recal_const_marginal hm hfit hc hmarg

/-- **`mcb = 0` for forecasts that are already isotonic-recalibrated**, in the form "recalibration
leaves the forecasts unchanged" (`recal = x`): every score object, every functional.  That the
recalibration `x = recal(X₀)` of *any* forecast `X₀` is such a forecast as far as the average
score is concerned — `S̄(y, recal(x)) = S̄(y, x)` — is the substantive part:
`C06_mcb_zero_of_recalibrated_abstract` (any score the isotonic fit minimises), with the instances
`C06_mcb_zero_of_recalibrated_squared_error`, `C06_zero_and_best_pinball`,
`C06_zero_and_best_hes_family`. -/
theorem C06_mcb_zero_of_recalibrated (sf : SF K) (fn : Option (Option Functional)) (lv : Option K)
    (ys : List K) (cols : List (List K)) (w : Option (List K)) (rows : List (DecompRow K))
    (h : decompose sf fn lv ys cols w = .ok rows)
    (f : Functional) (lv' : K) (hv : dec_validate sf fn lv = .ok (f, lv'))
    (i : Nat) (hi : i < cols.length) (hr : i < rows.length)
    (hfix : dec_recal sf f lv' ys w cols[i] = .ok cols[i]) : rows[i].mcb = 0 := by
  obtain ⟨f', lv'', marg, sm, hv', _, hall⟩ := C06_rows sf fn lv ys cols w rows h
  rw [hv] at hv'
  cases hv'
  obtain ⟨recal, s, sR, hrec, hs, hsR, he⟩ := hall.2.2 i hi hr
  rw [hfix] at hrec
  cases hrec
  rw [hs] at hsR
  rw [he, ← Except.ok.inj hsR]
  exact sub_self s

/-- **`mcb = 0` for isotonic-recalibrated forecasts** (generic form, the substantive part): in the
setting of `C06_mcb_dsc_nonneg_abstract`, a forecast column that is itself the recalibration
`X₀.map (interp tx₀ ty₀)` of some forecast `X₀` — the model fitted on `(X₀, y, w)` with the same
functional and level, evaluated at `X₀` — has miscalibration `0`: recalibrating once more cannot
lower the average score (`dec_recal_idem_total`). -/
theorem C06_mcb_zero_of_recalibrated_abstract (sf : SF K) (fn : Option (Option Functional))
    (lv : Option K) (ys : List K) (cols : List (List K)) (w : Option (List K))
    (rows : List (DecompRow K)) (h : decompose sf fn lv ys cols w = .ok rows)
    (f : Functional) (lv' : K) (hv : dec_validate sf fn lv = .ok (f, lv'))
    (S : K → K → K) (dom : K → Prop)
    (hS : ∀ y ∈ ys, ∀ z, dom z → sfPair sf y z = .ok (S y z))
    (hopt : dec_FitOpt f lv' S dom ys) (hup : ∀ v, (∃ a ∈ ys, a ≤ v) → dom v)
    (hallowed : dec_yminAllowed sf ys w = true)
    (i : Nat) (hi : i < cols.length) (hr : i < rows.length)
    (X₀ tx₀ ty₀ : List K) (h₀ : isoFit (some f) lv' true X₀ ys w = .ok (tx₀, ty₀))
    (hx : cols[i] = X₀.map (interp tx₀ ty₀)) : rows[i].mcb = 0 := by
  obtain ⟨f', lv'', marg, sm, hv', _, _, hrows⟩ := (dec_ok_iff sf fn lv ys cols w rows).mp h
  rw [hv] at hv'
  cases hv'
  have hrow := dec_mapM_get hrows i hi hr
  rw [hx] at hrow
  exact dec_row_mcb_zero sf f lv' S dom ys w hS hopt hup hallowed sm X₀ tx₀ ty₀ h₀ rows[i] hrow

/-- **Squared error: `mcb = 0` for recalibrated forecasts** -/
theorem C06_mcb_zero_of_recalibrated_squared_error (sf : SF K) (hk : sf.kind = .squaredError)
    (he : sf.elem = none) (fn : Option (Option Functional))
    (hfn : fn = none ∨ fn = some (some .mean)) (lv : Option K) (ys : List K)
    (cols : List (List K)) (w : Option (List K)) (rows : List (DecompRow K))
    (h : decompose sf fn lv ys cols w = .ok rows)
    (i : Nat) (hi : i < cols.length) (hr : i < rows.length)
    (X₀ tx₀ ty₀ : List K) (l : K) (h₀ : isoFit (some .mean) l true X₀ ys w = .ok (tx₀, ty₀))
    (hx : cols[i] = X₀.map (interp tx₀ ty₀)) : rows[i].mcb = 0 := by
  obtain ⟨l', hv⟩ := dec_validate_sq sf hk he fn hfn lv
  rw [dec_isoFit_mean_level l l'] at h₀
  exact C06_mcb_zero_of_recalibrated_abstract sf fn lv ys cols w rows h .mean l' hv
    (fun y z => (z - y) * (z - y)) (fun _ => True)
    (fun y _ z _ => dec_sfPair_sq sf hk he y z) (dec_fitOpt_sq l' ys) (fun _ _ => trivial)
    (dec_yminAllowed_of_ok sf ys w _ (dec_sfPair_sq sf hk he _ _)) i hi hr X₀ tx₀ ty₀ h₀ hx

/-- **Squared error: `dsc = 0` for constant forecasts** (no proviso) -/
theorem C06_dsc_zero_of_constant_squared_error (sf : SF K) (hk : sf.kind = .squaredError)
    (he : sf.elem = none) (fn : Option (Option Functional)) (lv : Option K) (ys : List K)
    (cols : List (List K)) (w : Option (List K)) (rows : List (DecompRow K))
    (h : decompose sf fn lv ys cols w = .ok rows)
    (i : Nat) (hi : i < cols.length) (hr : i < rows.length)
    (hc : ∀ a ∈ cols[i], ∀ b ∈ cols[i], a = b) : rows[i].dsc = 0 :=
  C06_dsc_zero_of_constant sf fn lv ys cols w rows h
    (dec_yminAllowed_of_ok sf ys w _ (dec_sfPair_sq sf hk he _ _)) i hi hr hc

/-! ## 5. The library scores at `ℝ` (`np.power ↦ Real.rpow`, `np.log ↦ Real.log`) -/

/-- **Pinball loss: `mcb ≥ 0` and `dsc ≥ 0`** (inferred functional `quantile` at the score's level;
every prediction is admissible, so there is no proviso; weights must be absent for the call to
succeed at all). -/
theorem C06_nonneg_pinball (sf : SF ℝ) (hk : sf.kind = .pinball) (he : sf.elem = none)
    (hα : 0 < sf.α ∧ sf.α < 1) (ys : List ℝ) (cols : List (List ℝ)) (w : Option (List ℝ))
    (rows : List (DecompRow ℝ)) (h : decompose sf none none ys cols w = .ok rows) :
    ∀ r ∈ rows, 0 ≤ r.mcb ∧ 0 ≤ r.dsc :=
  C06_mcb_dsc_nonneg_abstract sf none none ys cols w rows h .quantile sf.α
    (dec_validate_pinball sf hk he hα)
    (fun y z => ((if y ≤ z then (1 : ℝ) else 0) - sf.α) * (z - y)) (fun _ => True)
    (fun y _ z _ => dec_sfPair_pinball sf hk he hα y z)
    (dec_fitOpt_pinball sf.α hα.1 hα.2 ys) (fun _ _ => trivial)
    (dec_yminAllowed_of_ok sf ys w _ (dec_sfPair_pinball sf hk he hα _ _)) (fun _ _ => trivial)
    (fun _ _ _ _ => trivial)

/-- **The whole homogeneous expectile family — `HomogeneousExpectileScore(degree=h, level=α)` for
every real degree and every level in `(0,1)`, `SquaredError`, `PoissonDeviance`, `GammaDeviance` —
has `mcb ≥ 0` and `dsc ≥ 0` whenever the smallest observation is an admissible prediction** (the
model's flag `yminAllowed`; e.g. for the Poisson deviance: no zero counts).  Functional and level
are inferred (mean for level 1/2, else the `α`-expectile).  `dec_IsHES sf h α` says that `sf` is one
of the four classes with effective degree `h` and level `α`. -/
theorem C06_nonneg_hes_family (sf : SF ℝ) (h α : ℝ) (hs : dec_IsHES sf h α) (ys : List ℝ)
    (cols : List (List ℝ)) (w : Option (List ℝ)) (rows : List (DecompRow ℝ))
    (hd : decompose sf none none ys cols w = .ok rows)
    (hallowed : dec_yminAllowed sf ys w = true) : ∀ r ∈ rows, 0 ≤ r.mcb ∧ 0 ≤ r.dsc :=
  dec_hes_signs hs ys cols w rows hd hallowed

/-- what the flag means for this family: `(y[0], min y)` is in the domain of the score, i.e.
`min y` is an admissible prediction (and `y[0]` an admissible observation) -/
theorem C06_yminAllowed_hes_family (sf : SF ℝ) (h α : ℝ) (hs : dec_IsHES sf h α) (ys : List ℝ)
    (w : Option (List ℝ)) :
    dec_yminAllowed sf ys w = true ↔ hesDom h ys[0]! (ys.foldl min ys[0]!) := by
  rw [dec_yminAllowed_iff]
  constructor
  · intro hok
    obtain ⟨v, hv⟩ := (dec_sfPair_spec sf _ _).1 hok
    by_contra hn
    rw [(dec_sfPair_hes hs _ _).2 hn] at hv
    cases hv
  · intro hd
    by_contra hn
    have := (dec_sfPair_hes hs ys[0]! (ys.foldl min ys[0]!)).1 hd
    rw [(dec_sfPair_spec sf _ _).2 hn] at this
    cases this

/-! ## 6. `unc` is the score of the *best* constant forecast -/

/-- **`unc ≤` the average score of every admissible constant forecast** (generic form; same setting
as `C06_mcb_dsc_nonneg_abstract`, no proviso on `min y` needed).  The marginal functional is the
recalibration of a constant forecast (`dec_recal_const_marginal`), and recalibration beats every
constant. -/
theorem C06_unc_best_constant_abstract (sf : SF K) (fn : Option (Option Functional))
    (lv : Option K) (ys : List K) (cols : List (List K)) (w : Option (List K))
    (rows : List (DecompRow K)) (h : decompose sf fn lv ys cols w = .ok rows)
    (f : Functional) (lv' : K) (hv : dec_validate sf fn lv = .ok (f, lv'))
    (S : K → K → K) (dom : K → Prop)
    (hS : ∀ y ∈ ys, ∀ z, dom z → sfPair sf y z = .ok (S y z))
    (hopt : dec_FitOpt f lv' S dom ys)
    (hmarg : ∀ m, functionalVal f lv' ys w = .ok m → dom m)
    (c s : K) (hc : dom c) (hs : sfMean sf ys (ys.map fun _ => c) w = .ok s) :
    ∀ r ∈ rows, r.unc ≤ s := by
  obtain ⟨f', lv'', marg, sm, hv', _, hm, hrows⟩ := (dec_ok_iff sf fn lv ys cols w rows).mp h
  rw [hv] at hv'
  cases hv'
  obtain ⟨hm1, hm2⟩ := dec_marginal_ok hm
  intro r hr
  obtain ⟨x, _, hrow⟩ := dec_mapM_mem hrows hr
  obtain ⟨_, _, _, _, _, _, he⟩ := (dec_row_ok sf f lv' ys w sm x r).mp hrow
  rw [he]
  exact dec_unc_best_const sf f lv' (dec_validate_ne_median hv) S dom ys w hS hopt marg sm hm1 hm2
    (hmarg marg hm1) x r hrow c s hc hs

/-- **Squared error: `unc` is the smallest average score of a constant forecast** -/
theorem C06_unc_best_constant_squared_error (sf : SF K) (hk : sf.kind = .squaredError)
    (he : sf.elem = none) (fn : Option (Option Functional))
    (hfn : fn = none ∨ fn = some (some .mean)) (lv : Option K) (ys : List K)
    (cols : List (List K)) (w : Option (List K)) (rows : List (DecompRow K))
    (h : decompose sf fn lv ys cols w = .ok rows) (c s : K)
    (hs : sfMean sf ys (ys.map fun _ => c) w = .ok s) : ∀ r ∈ rows, r.unc ≤ s := by
  obtain ⟨l, hv⟩ := dec_validate_sq sf hk he fn hfn lv
  exact C06_unc_best_constant_abstract sf fn lv ys cols w rows h .mean l hv
    (fun y z => (z - y) * (z - y)) (fun _ => True)
    (fun y _ z _ => dec_sfPair_sq sf hk he y z) (dec_fitOpt_sq l ys) (fun _ _ => trivial) c s
    trivial hs

/-- **Pinball loss: `mcb = 0` for recalibrated forecasts; `unc` is the best constant score** -/
theorem C06_zero_and_best_pinball (sf : SF ℝ) (hk : sf.kind = .pinball) (he : sf.elem = none)
    (hα : 0 < sf.α ∧ sf.α < 1) (ys : List ℝ) (cols : List (List ℝ)) (w : Option (List ℝ))
    (rows : List (DecompRow ℝ)) (h : decompose sf none none ys cols w = .ok rows) :
    (∀ i (hi : i < cols.length) (hr : i < rows.length) (X₀ tx₀ ty₀ : List ℝ),
      isoFit (some .quantile) sf.α true X₀ ys w = .ok (tx₀, ty₀) →
      cols[i] = X₀.map (interp tx₀ ty₀) → rows[i].mcb = 0) ∧
    (∀ c s, sfMean sf ys (ys.map fun _ => c) w = .ok s → ∀ r ∈ rows, r.unc ≤ s) :=
  ⟨fun i hi hr X₀ tx₀ ty₀ h₀ hx =>
    C06_mcb_zero_of_recalibrated_abstract sf none none ys cols w rows h .quantile sf.α
      (dec_validate_pinball sf hk he hα)
      (fun y z => ((if y ≤ z then (1 : ℝ) else 0) - sf.α) * (z - y)) (fun _ => True)
      (fun y _ z _ => dec_sfPair_pinball sf hk he hα y z)
      (dec_fitOpt_pinball sf.α hα.1 hα.2 ys) (fun _ _ => trivial)
      (dec_yminAllowed_of_ok sf ys w _ (dec_sfPair_pinball sf hk he hα _ _)) i hi hr X₀ tx₀ ty₀ h₀ hx,
   fun c s hs =>
    C06_unc_best_constant_abstract sf none none ys cols w rows h .quantile sf.α
      (dec_validate_pinball sf hk he hα)
      (fun y z => ((if y ≤ z then (1 : ℝ) else 0) - sf.α) * (z - y)) (fun _ => True)
      (fun y _ z _ => dec_sfPair_pinball sf hk he hα y z)
      (dec_fitOpt_pinball sf.α hα.1 hα.2 ys) (fun _ _ => trivial) c s trivial hs⟩

/-- **Homogeneous expectile family: `mcb = 0` for recalibrated forecasts; `unc` is the best
admissible constant score.**  `dec_hesFn α` is the effective functional and level: the mean for
`α = 1/2`, else the `α`-expectile; `dec_hesZ h c` says that `c` is an admissible prediction
(`1 < h ∨ 0 < c`). -/
theorem C06_zero_and_best_hes_family (sf : SF ℝ) (h α : ℝ) (hs : dec_IsHES sf h α) (ys : List ℝ)
    (cols : List (List ℝ)) (w : Option (List ℝ)) (rows : List (DecompRow ℝ))
    (hd : decompose sf none none ys cols w = .ok rows)
    (hallowed : dec_yminAllowed sf ys w = true) :
    (∀ i (hi : i < cols.length) (hr : i < rows.length) (X₀ tx₀ ty₀ : List ℝ),
      isoFit (some (dec_hesFn α).1) (dec_hesFn α).2 true X₀ ys w = .ok (tx₀, ty₀) →
      cols[i] = X₀.map (interp tx₀ ty₀) → rows[i].mcb = 0) ∧
    (∀ c s, dec_hesZ h c → sfMean sf ys (ys.map fun _ => c) w = .ok s → ∀ r ∈ rows, r.unc ≤ s) :=
  dec_hes_zero_and_best hs ys cols w rows hd hallowed

/-- **The whole homogeneous quantile family — `HomogeneousQuantileScore(degree=h, level=α)` for every
real degree and level in `(0,1)`, and `PinballLoss(level=α)` (`h = 1`)** — with inferred functional
(`quantile` at level `α`): whenever the smallest observation is an admissible prediction,
`mcb ≥ 0` and `dsc ≥ 0`; `mcb = 0` for recalibrated forecasts; `unc` is the smallest average score
of an admissible constant (`gDom h c`: `h = 1`, or `h` an odd integer `> 1`, or `0 < c`).
The quantile fit is the mid-point construction on the lower-quantile PAVA blocks; it minimises every
order-sensitive score of the quantile because such a score is constant on each block's quantile
interval (`dec_quant_flat`, `dec_quantileFit_optimal`). -/
theorem C06_hqs_family (sf : SF ℝ) (h α : ℝ) (hs : dec_IsHQS sf h α) (ys : List ℝ)
    (cols : List (List ℝ)) (w : Option (List ℝ)) (rows : List (DecompRow ℝ))
    (hd : decompose sf none none ys cols w = .ok rows)
    (hallowed : dec_yminAllowed sf ys w = true) :
    (∀ r ∈ rows, 0 ≤ r.mcb ∧ 0 ≤ r.dsc) ∧
    (∀ i (hi : i < cols.length) (hr : i < rows.length) (X₀ tx₀ ty₀ : List ℝ),
      isoFit (some .quantile) α true X₀ ys w = .ok (tx₀, ty₀) →
      cols[i] = X₀.map (interp tx₀ ty₀) → rows[i].mcb = 0) ∧
    (∀ c s, gDom h c → sfMean sf ys (ys.map fun _ => c) w = .ok s → ∀ r ∈ rows, r.unc ≤ s) :=
  dec_hqs_all hs ys cols w rows hd hallowed

/-- what the flag means for this family -/
theorem C06_yminAllowed_hqs_family (sf : SF ℝ) (h α : ℝ) (hs : dec_IsHQS sf h α) (ys : List ℝ)
    (w : Option (List ℝ)) :
    dec_yminAllowed sf ys w = true ↔ hqsDom h ys[0]! (ys.foldl min ys[0]!) := by
  rw [dec_yminAllowed_iff]
  constructor
  · intro hok
    obtain ⟨v, hv⟩ := (dec_sfPair_spec sf _ _).1 hok
    by_contra hn
    rw [(dec_sfPair_hqs hs _ _).2 hn] at hv
    cases hv
  · intro hd
    by_contra hn
    have := (dec_sfPair_hqs hs ys[0]! (ys.foldl min ys[0]!)).1 hd
    rw [(dec_sfPair_spec sf _ _).2 hn] at this
    cases this

/-- **`ElementaryScore(eta=η, functional=f₀, level=α)`, over any ordered field** (its formula uses
no transcendental operation), for each of the four functionals and every threshold `η`, with
inferred functional and level: `mcb ≥ 0`, `dsc ≥ 0`; `mcb = 0` for recalibrated forecasts; `unc` is
the smallest average score of a constant forecast.  No proviso: every prediction is admissible.
`dec_elemEff f₀ α` is the effective functional and level (`median ↦ (quantile, 1/2)`). -/
theorem C06_elementary_score (sf : SF K) (f₀ : Functional) (η : K)
    (he : sf.elem = some (some f₀, η)) (hα0 : 0 < sf.α) (hα1 : sf.α < 1) (ys : List K)
    (cols : List (List K)) (w : Option (List K)) (rows : List (DecompRow K))
    (h : decompose sf none none ys cols w = .ok rows) :
    (∀ r ∈ rows, 0 ≤ r.mcb ∧ 0 ≤ r.dsc) ∧
    (∀ i (hi : i < cols.length) (hr : i < rows.length) (X₀ tx₀ ty₀ : List K),
      isoFit (some (dec_elemEff f₀ sf.α).1) (dec_elemEff f₀ sf.α).2 true X₀ ys w = .ok (tx₀, ty₀) →
      cols[i] = X₀.map (interp tx₀ ty₀) → rows[i].mcb = 0) ∧
    (∀ c s, sfMean sf ys (ys.map fun _ => c) w = .ok s → ∀ r ∈ rows, r.unc ≤ s) := by
  have hv := dec_validate_elem sf f₀ η he hα0 hα1
  have hS : ∀ y ∈ ys, ∀ z, (fun _ : K => True) z → sfPair sf y z = .ok (dec_elemVal f₀ sf.α η y z) :=
    fun y _ z _ => dec_sfPair_elem sf f₀ η he hα0 hα1 y z
  have hopt := dec_elem_fitOpt f₀ sf.α η hα0 hα1 ys
  have hall := dec_yminAllowed_of_ok sf ys w _ (dec_sfPair_elem sf f₀ η he hα0 hα1 _ _)
  exact ⟨C06_mcb_dsc_nonneg_abstract sf none none ys cols w rows h _ _ hv _ _ hS hopt
      (fun _ _ => trivial) hall (fun _ _ => trivial) (fun _ _ _ _ => trivial),
    fun i hi hr X₀ tx₀ ty₀ h₀ hx =>
      C06_mcb_zero_of_recalibrated_abstract sf none none ys cols w rows h _ _ hv _ _ hS hopt
        (fun _ _ => trivial) hall i hi hr X₀ tx₀ ty₀ h₀ hx,
    fun c s hs =>
      C06_unc_best_constant_abstract sf none none ys cols w rows h _ _ hv _ _ hS hopt
        (fun _ _ => trivial) c s trivial hs⟩

/-! ## Non-vacuity -/

section Examples
/-- `ScoreOps` on `ℚ` for the examples (the squared error calls none of these operations) -/
local instance c06DummyOps : ScoreOps ℚ := ⟨fun a _ => a, id, abs, fun _ => False, fun _ => inferInstance⟩

/-- the hypothesis `decompose … = .ok rows` (all C06 theorems): squared error, observations with
ties, two forecast columns — one unsorted with ties, one constant —, integer weights.
`#eval` gives `[(29/50, 9/100, 21/100, 7/10), (529/100, 0, 21/100, 11/2)]`. -/
example : ∃ rows, decompose (⟨.squaredError, 0, 1 / 2, none⟩ : SF ℚ) none none [0, 0, 1, 1]
    [[-1, 1, 1, 2], [3, 3, 3, 3]] (some [1, 2, 3, 4]) = .ok rows :=
  dec_decompose_sq_ok _ rfl rfl none (Or.inl rfl) none _ _ _ (by simp) (by simp) (by simp)
    (by simp [dec_wts])

/-- … and unweighted -/
example : ∃ rows, decompose (⟨.squaredError, 0, 1 / 2, none⟩ : SF ℚ) none none [0, 0, 1, 1]
    [[-1, 1, 1, 2]] none = .ok rows :=
  dec_decompose_sq_ok _ rfl rfl none (Or.inl rfl) none _ _ _ (by simp) (by simp) (by simp)
    (by simp [dec_wts])

/-- `C06_dsc_zero_of_constant`: a constant column -/
example : ∀ a ∈ ([3, 3, 3, 3] : List ℚ), ∀ b ∈ ([3, 3, 3, 3] : List ℚ), a = b := by simp

/-- `C06_mcb_zero_of_recalibrated_*`: the fit on some forecast `X₀` exists -/
example : ∃ tx ty, isoFit (some .mean) (1 / 2 : ℚ) true [-1, 1, 1, 2] [0, 0, 1, 1]
    (some [1, 2, 3, 4]) = .ok (tx, ty) :=
  dec_isoFit_mean_ok _ _ _ _ (by simp) (by simp) (by simp) (by simp [dec_wts])

/-- `C06_errors`: an out-of-range level, a short column, a short weight vector -/
example : (0 : ℚ) ≤ 0 ∨ (1 : ℚ) ≤ 0 := Or.inl le_rfl
example : ∃ c ∈ ([[1, 2, 3]] : List (List ℚ)), c.length ≠ ([0, 0, 1, 1] : List ℚ).length :=
  ⟨[1, 2, 3], by simp, by simp⟩
example : ([1, 2] : List ℚ).length ≠ ([0, 0, 1, 1] : List ℚ).length := by simp

/-- `C06_nonneg_pinball`, `C06_nonneg_hes_family`: admissible score objects at `ℝ` -/
example : (0 : ℝ) < 1 / 4 ∧ (1 / 4 : ℝ) < 1 := by norm_num
example : dec_IsHES (⟨.poisson, 0, 0, none⟩ : SF ℝ) 1 (1 / 2) := ⟨rfl, Or.inr (Or.inr (Or.inl ⟨rfl, rfl, rfl⟩))⟩
example : dec_IsHES (⟨.hes, 3 / 2, 1 / 4, none⟩ : SF ℝ) (3 / 2) (1 / 4) :=
  ⟨rfl, Or.inl ⟨rfl, rfl, rfl, by norm_num, by norm_num⟩⟩
example : dec_IsHQS (⟨.hqs, 2, 1 / 4, none⟩ : SF ℝ) 2 (1 / 4) :=
  ⟨rfl, rfl, by norm_num, by norm_num, Or.inl ⟨rfl, rfl⟩⟩
example : dec_IsHQS (⟨.pinball, 0, 1 / 4, none⟩ : SF ℝ) 1 (1 / 4) :=
  ⟨rfl, rfl, by norm_num, by norm_num, Or.inr ⟨rfl, rfl⟩⟩

/-- `C06_elementary_score`: an elementary score for the 1/4-quantile with threshold 3/2 -/
example : (⟨.squaredError, 0, 1 / 4, some (some .quantile, 3 / 2)⟩ : SF ℚ).elem
      = some (some .quantile, 3 / 2) ∧ (0 : ℚ) < 1 / 4 ∧ (1 / 4 : ℚ) < 1 := by
  refine ⟨rfl, by norm_num, by norm_num⟩

/-- … and the flag `yminAllowed` holds for Poisson counts without zeros, fails with a zero count -/
example : dec_yminAllowed (⟨.poisson, 0, 0, none⟩ : SF ℝ) [2, 1, 3] none = true := by
  rw [C06_yminAllowed_hes_family _ 1 (1 / 2) ⟨rfl, Or.inr (Or.inr (Or.inl ⟨rfl, rfl, rfl⟩))⟩,
    cons_hesDom_one]
  norm_num

example : ¬ dec_yminAllowed (⟨.poisson, 0, 0, none⟩ : SF ℝ) [2, 0, 3] none = true := by
  rw [C06_yminAllowed_hes_family _ 1 (1 / 2) ⟨rfl, Or.inr (Or.inr (Or.inl ⟨rfl, rfl, rfl⟩))⟩,
    cons_hesDom_one]
  norm_num

end Examples

end MD.Props

/-
Sanity checks (`#eval`, not part of the proofs).  At `Rat` (with a dummy `ScoreOps Rat`):
  decompose sq none none [0,0,1,1] [[-1,1,1,2]] none            = ok [(5/8, 1/8, 1/4, 3/4)]
  decompose sq none none [0,0,1,1] [[-1,1,1,2],[3,3,3,3]] (some [1,2,3,4])
                                     = ok [(29/50, 9/100, 21/100, 7/10), (529/100, 0, 21/100, 11/2)]
  decompose sq none none [2,2,2] [[1,2,3]] none                 = ok [(2/3, 0, 0, 2/3)]
  decompose sq (some none) none …                               = error valueError
  decompose sq none none [0,0,1,1] [[-1,1,1]] none              = error valueError
  decompose sq none none [0,0,1,1] [[-1,1,1,2]] (some [1,2])    = error valueError
(rows are `(mcb, dsc, unc, score)`; `sq` = squared error).  At `Float`:
  decompose {kind := .squaredError, …} none none [0,0,1,1] [[-1,1,1,2]] none
                                                                = ok [(0.625, 0.125, 0.25, 0.75)]
The sign statements need the functional of the score: overriding it gives negative components,
  decompose sq (some (some .quantile)) (some (1/2)) [0,0,0,10] [[1,1,2,2]] none
                                                                = ok [(-15/2, 0, 25, 35/2)].
`LogLoss` is covered in `MD/Props/C06b.lean` (the real model of `xlogy`/`log` agrees with numpy only
on `(0,1)`-valued predictions, while recalibrated values of binary data hit `0` and `1`: pure blocks).
A random search at `Rat` (3000 data sets per functional) found no negative `mcb`/`dsc` for
`ElementaryScore`, in line with `C06_elementary_score`.
-/

/-
`#print axioms` (observed with `lake env lean`):
'MD.Props.C06_rows' depends on axioms: [propext, Quot.sound]
'MD.Props.C06_identity' depends on axioms: [propext, Quot.sound]
'MD.Props.C06_score_is_plain_average' depends on axioms: [propext, Quot.sound]
'MD.Props.C06_unc_is_marginal_score' depends on axioms: [propext, Quot.sound]
'MD.Props.C06_unc_forecast_free' depends on axioms: [propext, Quot.sound]
'MD.Props.C06_errors' depends on axioms: [propext, Quot.sound]
'MD.Props.C06_error_no_level' depends on axioms: [propext, Quot.sound]
'MD.Props.C06_error_empty' depends on axioms: [propext, Classical.choice, Quot.sound]
'MD.Props.C06_mcb_dsc_nonneg_abstract' depends on axioms: [propext, Classical.choice, Quot.sound]
'MD.Props.C06_mcb_nonneg_abstract' depends on axioms: [propext, Classical.choice, Quot.sound]
'MD.Props.C06_dsc_nonneg_abstract' depends on axioms: [propext, Classical.choice, Quot.sound]
'MD.Props.C06_recal_optimal' depends on axioms: [propext, Classical.choice, Quot.sound]
'MD.Props.C06_fitOpt_of_order_sensitive' depends on axioms: [propext, Classical.choice, Quot.sound]
'MD.Props.C06_nonneg_squared_error' depends on axioms: [propext, Classical.choice, Quot.sound]
'MD.Props.C06_mcb_nonneg_squared_error' depends on axioms: [propext, Classical.choice, Quot.sound]
'MD.Props.C06_dsc_nonneg_squared_error' depends on axioms: [propext, Classical.choice, Quot.sound]
'MD.Props.C06_dsc_zero_of_constant' depends on axioms: [propext, Classical.choice, Quot.sound]
'MD.Props.C06_recal_of_constant' depends on axioms: [propext, Classical.choice, Quot.sound]
'MD.Props.C06_mcb_zero_of_recalibrated' depends on axioms: [propext, Quot.sound]
'MD.Props.C06_mcb_zero_of_recalibrated_abstract' depends on axioms: [propext, Classical.choice, Quot.sound]
'MD.Props.C06_mcb_zero_of_recalibrated_squared_error' depends on axioms: [propext, Classical.choice, Quot.sound]
'MD.Props.C06_dsc_zero_of_constant_squared_error' depends on axioms: [propext, Classical.choice, Quot.sound]
'MD.Props.C06_nonneg_pinball' depends on axioms: [propext, Classical.choice, Quot.sound]
'MD.Props.C06_nonneg_hes_family' depends on axioms: [propext, Classical.choice, Quot.sound]
'MD.Props.C06_yminAllowed_hes_family' depends on axioms: [propext, Classical.choice, Quot.sound]
'MD.Props.C06_unc_best_constant_abstract' depends on axioms: [propext, Classical.choice, Quot.sound]
'MD.Props.C06_unc_best_constant_squared_error' depends on axioms: [propext, Classical.choice, Quot.sound]
'MD.Props.C06_zero_and_best_pinball' depends on axioms: [propext, Classical.choice, Quot.sound]
'MD.Props.C06_zero_and_best_hes_family' depends on axioms: [propext, Classical.choice, Quot.sound]
'MD.Props.C06_hqs_family' depends on axioms: [propext, Classical.choice, Quot.sound]
'MD.Props.C06_yminAllowed_hqs_family' depends on axioms: [propext, Classical.choice, Quot.sound]
'MD.Props.C06_elementary_score' depends on axioms: [propext, Classical.choice, Quot.sound]
-/
