import MD.Proofs.DecompLemmas

/-! # C06 — the score decomposition: additive identity and signs

"For every data set and every library score, the decomposition satisfies
score = miscalibration - discrimination + uncertainty, where score is the plain average score of
the forecast and uncertainty is the score of the best constant forecast and does not depend on the
forecasts.  Whenever the smallest observation is itself an admissible prediction of the score,
miscalibration >= 0 and discrimination >= 0, miscalibration is 0 for forecasts that are already
isotonic-recalibrated, and discrimination is 0 for constant forecasts."

Model: `MD/Model/Decompose.lean` (`decompose`).  Proofs: `MD/Proofs/DecompLemmas.lean`, whose
normal form `dec_eq` splits a call into `dec_validate` (functional and level), `dec_shape` (length
checks), `dec_marginal` (marginal functional `marg` and its average score `sm`) and one `dec_row`
per forecast column (`dec_recal`: the fitted isotonic model evaluated at the forecasts, repaired
when `min y` is not admissible; then the two average scores). -/

set_option linter.unusedSectionVars false

namespace MD.Props
variable {K : Type} [Field K] [LinearOrder K] [IsStrictOrderedRing K] [ScoreOps K] [Inhabited K]

/-! ## 1. Structure of a successful call -/

/-- **Anatomy of the result.**  A successful call fixed an effective functional `f` and level `lv'`
(`dec_validate`), computed the marginal `marg = functionalVal f lv' ys w` and its average score
`sm`, and returns exactly one row per column, in order; the row of column `x` is built from the
plain average score of `x` and the average score `sR` of the recalibrated forecasts. -/
theorem C06_rows (sf : SF K) (fn : Option (Option Functional)) (lv : Option K) (ys : List K)
    (cols : List (List K)) (w : Option (List K)) (rows : List (DecompRow K))
    (h : decompose sf fn lv ys cols w = .ok rows) :
    ∃ f lv' marg sm, dec_validate sf fn lv = .ok (f, lv') ∧
      functionalVal f lv' ys w = .ok marg ∧ sfMean sf ys (ys.map fun _ => marg) w = .ok sm ∧
      rows.length = cols.length ∧
      ∀ i (hi : i < cols.length) (hr : i < rows.length), ∃ recal s sR,
        dec_recal sf f lv' ys w cols[i] = .ok recal ∧ sfMean sf ys cols[i] w = .ok s ∧
        sfMean sf ys recal w = .ok sR ∧ rows[i] = ⟨s - sR, sm - sR, sm, s⟩ := by
  obtain ⟨f, lv', marg, sm, hv, _, hm, hrows⟩ := (dec_ok_iff sf fn lv ys cols w rows).mp h
  obtain ⟨hm1, hm2⟩ := dec_marginal_ok hm
  refine ⟨f, lv', marg, sm, hv, hm1, hm2, dec_mapM_length hrows, ?_⟩
  intro i hi hr
  exact (dec_row_ok sf f lv' ys w sm cols[i] rows[i]).mp (dec_mapM_get hrows i hi hr)

/-- **The identity** `score = miscalibration − discrimination + uncertainty`, for every row of every
successful call: any score object, any functional / level option, any weights. -/
theorem C06_identity (sf : SF K) (fn : Option (Option Functional)) (lv : Option K) (ys : List K)
    (cols : List (List K)) (w : Option (List K)) (rows : List (DecompRow K))
    (h : decompose sf fn lv ys cols w = .ok rows) :
    ∀ r ∈ rows, r.score = r.mcb - r.dsc + r.unc := by
  obtain ⟨f, lv', marg, sm, _, _, _, _, hall⟩ := C06_rows sf fn lv ys cols w rows h
  intro r hr
  obtain ⟨i, hi, rfl⟩ := List.getElem_of_mem hr
  obtain ⟨recal, s, sR, _, _, _, he⟩ := hall i (by omega) hi
  rw [he]
  ring

/-- **`score` is the plain average score of the forecast**: there are as many rows as columns and
the `i`-th row's `score` is `scoring_function(y, cols[i], w)`. -/
theorem C06_score_is_plain_average (sf : SF K) (fn : Option (Option Functional)) (lv : Option K)
    (ys : List K) (cols : List (List K)) (w : Option (List K)) (rows : List (DecompRow K))
    (h : decompose sf fn lv ys cols w = .ok rows) :
    rows.length = cols.length ∧
    ∀ i (hi : i < cols.length) (hr : i < rows.length),
      sfMean sf ys cols[i] w = .ok rows[i].score := by
  obtain ⟨f, lv', marg, sm, _, _, _, hlen, hall⟩ := C06_rows sf fn lv ys cols w rows h
  refine ⟨hlen, ?_⟩
  intro i hi hr
  obtain ⟨recal, s, sR, _, hs, _, he⟩ := hall i hi hr
  rw [he]
  exact hs

/-- **`uncertainty` is the average score of the constant marginal forecast**: with `(f, lv')` the
effective functional and level, `marg = functionalVal f lv' ys w` (weighted mean / weighted
expectile / mid-quantile of `y`), every row has `unc = scoring_function(y, marg·1, w)`. -/
theorem C06_unc_is_marginal_score (sf : SF K) (fn : Option (Option Functional)) (lv : Option K)
    (ys : List K) (cols : List (List K)) (w : Option (List K)) (rows : List (DecompRow K))
    (h : decompose sf fn lv ys cols w = .ok rows) :
    ∃ f lv' marg, dec_validate sf fn lv = .ok (f, lv') ∧ functionalVal f lv' ys w = .ok marg ∧
      ∀ r ∈ rows, sfMean sf ys (ys.map fun _ => marg) w = .ok r.unc := by
  obtain ⟨f, lv', marg, sm, hv, hm, hs, _, hall⟩ := C06_rows sf fn lv ys cols w rows h
  refine ⟨f, lv', marg, hv, hm, ?_⟩
  intro r hr
  obtain ⟨i, hi, rfl⟩ := List.getElem_of_mem hr
  obtain ⟨recal, s, sR, _, _, _, he⟩ := hall i (by omega) hi
  rw [he]
  exact hs

/-- **`uncertainty` does not depend on the forecasts**: two successful calls that differ only in the
forecast matrix have the same `unc` in every row (in particular all rows of one call agree). -/
theorem C06_unc_forecast_free (sf : SF K) (fn : Option (Option Functional)) (lv : Option K)
    (ys : List K) (cols₁ cols₂ : List (List K)) (w : Option (List K))
    (rows₁ rows₂ : List (DecompRow K))
    (h₁ : decompose sf fn lv ys cols₁ w = .ok rows₁)
    (h₂ : decompose sf fn lv ys cols₂ w = .ok rows₂) :
    ∀ r₁ ∈ rows₁, ∀ r₂ ∈ rows₂, r₁.unc = r₂.unc := by
  obtain ⟨f, lv', marg, hv, hm, hu⟩ := C06_unc_is_marginal_score sf fn lv ys cols₁ w rows₁ h₁
  obtain ⟨f', lv'', marg', hv', hm', hu'⟩ := C06_unc_is_marginal_score sf fn lv ys cols₂ w rows₂ h₂
  rw [hv] at hv'
  cases hv'
  rw [hm] at hm'
  cases hm'
  intro r₁ hr₁ r₂ hr₂
  have := (hu r₁ hr₁).symm.trans (hu' r₂ hr₂)
  exact Except.ok.inj this

/-! ## 2. Errors -/

/-- **Input errors are `ValueError`s**: (1) an unknown functional name; (2) a level outside `(0,1)`
for an expectile or quantile (explicit arguments); (3) the same when functional / level are
inferred or mixed (`dec_fn`, `dec_lv` are what the call works with); (4) a forecast column whose
length differs from `y`; (5) a weight vector whose length differs from `y`.  (4) and (5) need no
proviso: every check that precedes them raises `ValueError` as well. -/
theorem C06_errors (sf : SF K) (fn : Option (Option Functional)) (lv : Option K) (ys : List K)
    (cols : List (List K)) (w : Option (List K)) :
    decompose sf (some none) lv ys cols w = .error .valueError ∧
    (∀ f l, (f = Functional.expectile ∨ f = Functional.quantile) → (l ≤ 0 ∨ 1 ≤ l) →
      decompose sf (some (some f)) (some l) ys cols w = .error .valueError) ∧
    (∀ f l, dec_fn sf fn = some f → dec_lv sf (some f) lv = .ok l →
      (f = Functional.expectile ∨ f = Functional.quantile) → (l ≤ 0 ∨ 1 ≤ l) →
      decompose sf fn lv ys cols w = .error .valueError) ∧
    ((∃ c ∈ cols, c.length ≠ ys.length) → decompose sf fn lv ys cols w = .error .valueError) ∧
    (∀ w', w = some w' → w'.length ≠ ys.length →
      decompose sf fn lv ys cols w = .error .valueError) := by
  refine ⟨dec_error_of_validate ys cols w (dec_validate_unknown sf lv), ?_, ?_, ?_, ?_⟩
  · intro f l hf hl
    exact dec_error_of_validate ys cols w
      (dec_validate_level sf (some (some f)) (some l) f l rfl rfl hf hl)
  · intro f l hfn hlv hf hl
    exact dec_error_of_validate ys cols w (dec_validate_level sf fn lv f l hfn hlv hf hl)
  · intro hc
    exact dec_error_of_shape (dec_shape_error_of_col w hc)
  · intro w' hw hlen
    subst hw
    exact dec_error_of_shape (dec_shape_error_of_weights cols hlen)

/-- a score without a level (log loss) cannot be decomposed for an expectile or quantile unless a
level is given -/
theorem C06_error_no_level (sf : SF K) (f : Functional) (hf : f = .expectile ∨ f = .quantile)
    (hl : sfLevel sf = none) (ys : List K) (cols : List (List K)) (w : Option (List K)) :
    decompose sf (some (some f)) none ys cols w = .error .valueError := by
  apply dec_error_of_validate
  have : dec_lv sf (dec_fn sf (some (some f))) none = .error .valueError := by
    unfold dec_lv
    rcases hf with rfl | rfl <;> simp [dec_fn, hl] <;> rfl
  unfold dec_validate
  rw [this]
  rfl

/-- an empty data set is rejected (`y[0]`: IndexError, modelled as `Err.other`) once functional,
level and lengths are fine -/
theorem C06_error_empty (sf : SF K) (fn : Option (Option Functional)) (lv : Option K)
    (cols : List (List K)) (w : Option (List K)) (p : Functional × K)
    (hv : dec_validate sf fn lv = .ok p) (hc : ∀ c ∈ cols, c.length = 0)
    (hw : ∀ w', w = some w' → w'.length = 0) :
    decompose sf fn lv [] cols w = .error .other := by
  rw [dec_eq_of_validate hv]
  have : dec_shape ([] : List K) cols w = .error .other := by
    unfold dec_shape
    have h1 : ¬ cols.any (fun c => decide (c.length ≠ ([] : List K).length)) = true := by
      intro h1
      obtain ⟨c, hc', hne⟩ := List.any_eq_true.mp h1
      exact (of_decide_eq_true hne) (hc c hc')
    cases w with
    | none => simp only [if_neg h1]; rfl
    | some w' =>
      have h2 : ¬ w'.length ≠ ([] : List K).length := by
        rw [not_not]; exact hw w' rfl
      simp only [if_neg h1, if_neg h2]; rfl
  rw [this]
  rfl

/-! ## 3. Signs: the generic statement and the squared error -/

/-- **Signs, generic form** (abstract in the score).  Let `(f, lv')` be the effective functional and
level of a successful call, `S` the per-pair value of the score on a set `dom` of admissible
predictions that contains every value not below all observations (`hup`: in particular `min y`),
and suppose the isotonic fit for `(f, lv')` minimises `S` among non-decreasing `dom`-valued
sequences (`dec_FitOpt`; instances: `dec_fitOpt_sq`, `dec_fitOpt_asymSq`, `dec_fitOpt_pinball`,
and `dec_fitOpt_of_gpava` for any `OSScore`).  If the marginal and all forecasts are admissible and
no domain repair takes place, every row has `mcb ≥ 0` and `dsc ≥ 0`. -/
theorem C06_mcb_dsc_nonneg_abstract (sf : SF K) (fn : Option (Option Functional)) (lv : Option K)
    (ys : List K) (cols : List (List K)) (w : Option (List K)) (rows : List (DecompRow K))
    (h : decompose sf fn lv ys cols w = .ok rows)
    (f : Functional) (lv' : K) (hv : dec_validate sf fn lv = .ok (f, lv'))
    (S : K → K → K) (dom : K → Prop)
    (hS : ∀ y ∈ ys, ∀ z, dom z → sfPair sf y z = .ok (S y z))
    (hopt : dec_FitOpt f lv' S dom ys) (hup : ∀ v, (∃ a ∈ ys, a ≤ v) → dom v)
    (hallowed : dec_yminAllowed sf ys w = true)
    (hmarg : ∀ m, functionalVal f lv' ys w = .ok m → dom m)
    (hcols : ∀ x ∈ cols, ∀ z ∈ x, dom z) :
    ∀ r ∈ rows, 0 ≤ r.mcb ∧ 0 ≤ r.dsc := by
  obtain ⟨f', lv'', marg, sm, hv', _, hm, hrows⟩ := (dec_ok_iff sf fn lv ys cols w rows).mp h
  rw [hv] at hv'
  cases hv'
  obtain ⟨hm1, hm2⟩ := dec_marginal_ok hm
  intro r hr
  obtain ⟨x, hx, hrow⟩ := dec_mapM_mem hrows hr
  exact dec_row_signs sf f lv' S dom ys w hS hopt hup hallowed marg sm hm2 (hmarg marg hm1) x
    (hcols x hx) r hrow

/-- **Squared error: `mcb ≥ 0` and `dsc ≥ 0`**, over any ordered field, for every data set, every
(necessarily positive, or absent) weights and every forecast matrix — with `functional` inferred or
given as `"mean"`, any `level`.  `min y` is always admissible for the squared error, so there is no
proviso. -/
theorem C06_nonneg_squared_error (sf : SF K) (hk : sf.kind = .squaredError) (he : sf.elem = none)
    (fn : Option (Option Functional)) (hfn : fn = none ∨ fn = some (some .mean)) (lv : Option K)
    (ys : List K) (cols : List (List K)) (w : Option (List K)) (rows : List (DecompRow K))
    (h : decompose sf fn lv ys cols w = .ok rows) : ∀ r ∈ rows, 0 ≤ r.mcb ∧ 0 ≤ r.dsc := by
  obtain ⟨l, hv⟩ := dec_validate_sq sf hk he fn hfn lv
  exact C06_mcb_dsc_nonneg_abstract sf fn lv ys cols w rows h .mean l hv
    (fun y z => (z - y) * (z - y)) (fun _ => True)
    (fun y _ z _ => dec_sfPair_sq sf hk he y z) (dec_fitOpt_sq l ys) (fun _ _ => trivial)
    (dec_yminAllowed_of_ok sf ys w _ (dec_sfPair_sq sf hk he _ _)) (fun _ _ => trivial)
    (fun _ _ _ _ => trivial)

theorem C06_mcb_nonneg_squared_error (sf : SF K) (hk : sf.kind = .squaredError)
    (he : sf.elem = none) (fn : Option (Option Functional))
    (hfn : fn = none ∨ fn = some (some .mean)) (lv : Option K) (ys : List K)
    (cols : List (List K)) (w : Option (List K)) (rows : List (DecompRow K))
    (h : decompose sf fn lv ys cols w = .ok rows) : ∀ r ∈ rows, 0 ≤ r.mcb :=
  fun r hr => (C06_nonneg_squared_error sf hk he fn hfn lv ys cols w rows h r hr).1

theorem C06_dsc_nonneg_squared_error (sf : SF K) (hk : sf.kind = .squaredError)
    (he : sf.elem = none) (fn : Option (Option Functional))
    (hfn : fn = none ∨ fn = some (some .mean)) (lv : Option K) (ys : List K)
    (cols : List (List K)) (w : Option (List K)) (rows : List (DecompRow K))
    (h : decompose sf fn lv ys cols w = .ok rows) : ∀ r ∈ rows, 0 ≤ r.dsc :=
  fun r hr => (C06_nonneg_squared_error sf hk he fn hfn lv ys cols w rows h r hr).2

/-! ## 4. Zero components -/

/-- **`dsc = 0` for constant forecasts** — every score object, every functional, with or without
weights: if the smallest observation is an admissible prediction (the model's own flag
`yminAllowed`, so that no domain repair takes place), a column whose forecasts are all equal gets
discrimination exactly `0`.  Reason (`dec_recal_const_marginal`): all rows are tied in `X`, the
sort puts their responses in non-increasing order, the (generalised) PAVA pools a non-increasing
run into a single block, so the recalibrated forecast is the functional of the whole sample — the
weighted mean, the weighted expectile, or the mid-quantile — which does not depend on the order of
the observations and is exactly the marginal forecast behind `unc`. -/
theorem C06_dsc_zero_of_constant (sf : SF K) (fn : Option (Option Functional)) (lv : Option K)
    (ys : List K) (cols : List (List K)) (w : Option (List K)) (rows : List (DecompRow K))
    (h : decompose sf fn lv ys cols w = .ok rows) (hallowed : dec_yminAllowed sf ys w = true)
    (i : Nat) (hi : i < cols.length) (hr : i < rows.length)
    (hc : ∀ a ∈ cols[i], ∀ b ∈ cols[i], a = b) : rows[i].dsc = 0 := by
  obtain ⟨f, lv', marg, sm, hv, _, hm, hrows⟩ := (dec_ok_iff sf fn lv ys cols w rows).mp h
  obtain ⟨hm1, hm2⟩ := dec_marginal_ok hm
  exact dec_row_dsc_zero sf f lv' (dec_validate_ne_median hv) ys w hallowed marg sm hm1 hm2
    cols[i] hc rows[i] (dec_mapM_get hrows i hi hr)

/-- the recalibrated version of a constant forecast is the constant marginal forecast -/
theorem C06_recal_of_constant (sf : SF K) (f : Functional) (lv : K) (hm : f ≠ .median)
    (ys : List K) (w : Option (List K)) (hallowed : dec_yminAllowed sf ys w = true)
    (x recal : List K) (hc : ∀ a ∈ x, ∀ b ∈ x, a = b)
    (hrec : dec_recal sf f lv ys w x = .ok recal) (marg : K)
    (hmarg : functionalVal f lv ys w = .ok marg) : recal = ys.map fun _ => marg := by
  obtain ⟨tx, ty, hfit, rfl⟩ := dec_recal_ok_allowed hallowed hrec
  exact dec_recal_const_marginal hm hfit hc hmarg

/-- **`mcb = 0` when recalibration leaves the forecasts unchanged** (`recal = x`): every score
object, every functional. -/
theorem C06_mcb_zero_of_fixed (sf : SF K) (fn : Option (Option Functional)) (lv : Option K)
    (ys : List K) (cols : List (List K)) (w : Option (List K)) (rows : List (DecompRow K))
    (h : decompose sf fn lv ys cols w = .ok rows)
    (f : Functional) (lv' : K) (hv : dec_validate sf fn lv = .ok (f, lv'))
    (i : Nat) (hi : i < cols.length) (hr : i < rows.length)
    (hfix : dec_recal sf f lv' ys w cols[i] = .ok cols[i]) : rows[i].mcb = 0 := by
  obtain ⟨f', lv'', marg, sm, hv', _, hall⟩ := C06_rows sf fn lv ys cols w rows h
  rw [hv] at hv'
  cases hv'
  obtain ⟨recal, s, sR, hrec, hs, hsR, he⟩ := hall.2.2 i hi hr
  rw [hfix] at hrec
  cases hrec
  rw [hs] at hsR
  rw [he, ← Except.ok.inj hsR]
  exact sub_self s

/-- **`mcb = 0` for isotonic-recalibrated forecasts** (generic form, the substantive part): in the
setting of `C06_mcb_dsc_nonneg_abstract`, a forecast column that is itself the recalibration
`X₀.map (interp tx₀ ty₀)` of some forecast `X₀` — the model fitted on `(X₀, y, w)` with the same
functional and level, evaluated at `X₀` — has miscalibration `0`: recalibrating once more cannot
lower the average score (`dec_recal_idem_total`). -/
theorem C06_mcb_zero_of_recalibrated_abstract (sf : SF K) (fn : Option (Option Functional))
    (lv : Option K) (ys : List K) (cols : List (List K)) (w : Option (List K))
    (rows : List (DecompRow K)) (h : decompose sf fn lv ys cols w = .ok rows)
    (f : Functional) (lv' : K) (hv : dec_validate sf fn lv = .ok (f, lv'))
    (S : K → K → K) (dom : K → Prop)
    (hS : ∀ y ∈ ys, ∀ z, dom z → sfPair sf y z = .ok (S y z))
    (hopt : dec_FitOpt f lv' S dom ys) (hup : ∀ v, (∃ a ∈ ys, a ≤ v) → dom v)
    (hallowed : dec_yminAllowed sf ys w = true)
    (i : Nat) (hi : i < cols.length) (hr : i < rows.length)
    (X₀ tx₀ ty₀ : List K) (h₀ : isoFit (some f) lv' true X₀ ys w = .ok (tx₀, ty₀))
    (hx : cols[i] = X₀.map (interp tx₀ ty₀)) : rows[i].mcb = 0 := by
  obtain ⟨f', lv'', marg, sm, hv', _, _, hrows⟩ := (dec_ok_iff sf fn lv ys cols w rows).mp h
  rw [hv] at hv'
  cases hv'
  have hrow := dec_mapM_get hrows i hi hr
  rw [hx] at hrow
  exact dec_row_mcb_zero sf f lv' S dom ys w hS hopt hup hallowed sm X₀ tx₀ ty₀ h₀ rows[i] hrow

/-- **Squared error: `mcb = 0` for recalibrated forecasts** -/
theorem C06_mcb_zero_of_recalibrated_squared_error (sf : SF K) (hk : sf.kind = .squaredError)
    (he : sf.elem = none) (fn : Option (Option Functional))
    (hfn : fn = none ∨ fn = some (some .mean)) (lv : Option K) (ys : List K)
    (cols : List (List K)) (w : Option (List K)) (rows : List (DecompRow K))
    (h : decompose sf fn lv ys cols w = .ok rows)
    (i : Nat) (hi : i < cols.length) (hr : i < rows.length)
    (X₀ tx₀ ty₀ : List K) (l : K) (h₀ : isoFit (some .mean) l true X₀ ys w = .ok (tx₀, ty₀))
    (hx : cols[i] = X₀.map (interp tx₀ ty₀)) : rows[i].mcb = 0 := by
  obtain ⟨l', hv⟩ := dec_validate_sq sf hk he fn hfn lv
  rw [dec_isoFit_mean_level l l'] at h₀
  exact C06_mcb_zero_of_recalibrated_abstract sf fn lv ys cols w rows h .mean l' hv
    (fun y z => (z - y) * (z - y)) (fun _ => True)
    (fun y _ z _ => dec_sfPair_sq sf hk he y z) (dec_fitOpt_sq l' ys) (fun _ _ => trivial)
    (dec_yminAllowed_of_ok sf ys w _ (dec_sfPair_sq sf hk he _ _)) i hi hr X₀ tx₀ ty₀ h₀ hx

/-- **Squared error: `dsc = 0` for constant forecasts** (no proviso) -/
theorem C06_dsc_zero_of_constant_squared_error (sf : SF K) (hk : sf.kind = .squaredError)
    (he : sf.elem = none) (fn : Option (Option Functional)) (lv : Option K) (ys : List K)
    (cols : List (List K)) (w : Option (List K)) (rows : List (DecompRow K))
    (h : decompose sf fn lv ys cols w = .ok rows)
    (i : Nat) (hi : i < cols.length) (hr : i < rows.length)
    (hc : ∀ a ∈ cols[i], ∀ b ∈ cols[i], a = b) : rows[i].dsc = 0 :=
  C06_dsc_zero_of_constant sf fn lv ys cols w rows h
    (dec_yminAllowed_of_ok sf ys w _ (dec_sfPair_sq sf hk he _ _)) i hi hr hc

end MD.Props
