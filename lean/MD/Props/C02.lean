import MD.Proofs.IsoRegLemmas

/-! # C02 — `isotonic_regression(y, None, increasing, functional="quantile"/"median", level=α)`

Property theorems about the top-level model function `isoReg (some .quantile) α … none`,
`0 < α < 1`, and `isoReg (some .median) β … none` (any `β`: the level is ignored and not even
checked; the call behaves as the quantile call at level `1/2`, see `C02_median_is_half`), for both
directions.  The observations are `y.zip ones` with `ones = y.map fun _ => 1` (the weights are
ignored by the quantile functional); weighted calls raise `NotImplementedError`.  Helper lemmas
live in `MD/Proofs/IsoRegLemmas.lean`.

The theorems live in the namespace `MD.Props` because `MD.C02_range` already names the statement
about the inner function `quantileFit`. -/

set_option linter.unusedSectionVars false

namespace MD.Props
variable {K : Type} [Field K] [LinearOrder K] [IsStrictOrderedRing K]

/-! ## The quantile call -/

/-- the call succeeds and returns a sequence of the length of `y` -/
theorem C02_ok (α : K) (hα0 : 0 < α) (hα1 : α < 1) (inc : Bool) (y : List K) (hne : y ≠ []) :
    ∃ x r, isoReg (some .quantile) α inc y none = .ok (x, r) ∧ x.length = y.length := by
  refine ⟨_, _, isoReg_quantile_none α hα0 hα1 inc y hne, ?_⟩
  rw [orient_length, quantileFit_length α hα0 hα1, orient_length,
    zip_length_of_eq (ones_length y)]

/-- every successful result has the length of `y` -/
theorem C02_length (α : K) (hα0 : 0 < α) (hα1 : α < 1) (inc : Bool) (y : List K) (hne : y ≠ [])
    (x : List K) (r : List Nat) (h : isoReg (some .quantile) α inc y none = .ok (x, r)) :
    x.length = y.length := by
  obtain ⟨x', r', h', hl⟩ := C02_ok α hα0 hα1 inc y hne
  rw [h] at h'
  rw [(Prod.mk.inj (Except.ok.inj h')).1]
  exact hl

/-- the fit is monotone in the requested direction -/
theorem C02_monotone (α : K) (hα0 : 0 < α) (hα1 : α < 1) (inc : Bool) (y : List K) (hne : y ≠ [])
    (x : List K) (r : List Nat) (h : isoReg (some .quantile) α inc y none = .ok (x, r)) :
    MonoDir inc x := by
  rw [isoReg_quantile_x hα0 hα1 hne h, monoDir_orient]
  exact quantileFit_sorted α hα0 hα1 _

/-- the fit minimises the total pinball loss among all sequences of the same length that are
monotone in the requested direction (the minimiser is in general not unique) -/
theorem C02_optimal (α : K) (hα0 : 0 < α) (hα1 : α < 1) (inc : Bool) (y : List K) (hne : y ≠ [])
    (x : List K) (r : List Nat) (h : isoReg (some .quantile) α inc y none = .ok (x, r))
    (zs : List K) (hz : zs.length = y.length) (hm : MonoDir inc zs) :
    total (pinball α hα0 hα1).S (y.zip (y.map fun _ => (1 : K))) x
      ≤ total (pinball α hα0 hα1).S (y.zip (y.map fun _ => (1 : K))) zs := by
  rw [isoReg_quantile_x hα0 hα1 hne h]
  refine orient_optimal (pinball α hα0 hα1).S inc _ _ ?_ ?_ zs
    (hz.trans (zip_length_of_eq (ones_length y)).symm) hm
  · rw [quantileFit_length α hα0 hα1, orient_length]
  · intro zs' hl hs
    exact C02_optimal_inc α hα0 hα1 _ zs' hl hs

/-- every fitted value lies between two data values -/
theorem C02_range (α : K) (hα0 : 0 < α) (hα1 : α < 1) (inc : Bool) (y : List K) (hne : y ≠ [])
    (x : List K) (r : List Nat) (h : isoReg (some .quantile) α inc y none = .ok (x, r)) :
    ∀ v ∈ x, (∃ u ∈ y, u ≤ v) ∧ (∃ u ∈ y, v ≤ u) := by
  intro v hv
  rw [isoReg_quantile_x hα0 hα1 hne h, mem_orient] at hv
  obtain ⟨⟨o, ho, h1⟩, ⟨o', ho', h2⟩⟩ := MD.C02_range α hα0 hα1 _ v hv
  rw [mem_orient] at ho ho'
  exact ⟨⟨o.1, zip_fst_mem ho, h1⟩, ⟨o'.1, zip_fst_mem ho', h2⟩⟩

/-- in the orientation of the fit (`orient inc` = identity for `inc = true`, reversal otherwise)
the result lies pointwise between the lower-quantile PAVA fit and the upper quantiles of the blocks
of that fit -/
theorem C02_between (α : K) (hα0 : 0 < α) (hα1 : α < 1) (inc : Bool) (y : List K) (hne : y ≠ [])
    (x : List K) (r : List Nat) (h : isoReg (some .quantile) α inc y none = .ok (x, r)) :
    let obs := orient inc (y.zip (y.map fun _ => (1 : K)))
    List.Forall₂ (· ≤ ·) (expand (gpava (qLower α) obs)) (orient inc x) ∧
    List.Forall₂ (· ≤ ·) (orient inc x)
      (List.zipWith (fun (b : Blk K) m => List.replicate b.data.length m) (gpava (qLower α) obs)
        ((gpava (qLower α) obs).map (fun b => qUpper α b.data))).flatten := by
  intro obs
  rw [isoReg_quantile_x hα0 hα1 hne h, orient_orient]
  exact ⟨quantileFit_ge_lower α hα0 hα1 obs, quantileFit_le_upper α hα0 hα1 obs⟩

/-- `C02_between` for the increasing direction, without `orient` -/
theorem C02_between_inc (α : K) (hα0 : 0 < α) (hα1 : α < 1) (y : List K) (hne : y ≠ [])
    (x : List K) (r : List Nat) (h : isoReg (some .quantile) α true y none = .ok (x, r)) :
    List.Forall₂ (· ≤ ·) (expand (gpava (qLower α) (y.zip (y.map fun _ => (1 : K))))) x ∧
    List.Forall₂ (· ≤ ·) x
      (List.zipWith (fun (b : Blk K) m => List.replicate b.data.length m)
        (gpava (qLower α) (y.zip (y.map fun _ => (1 : K))))
        ((gpava (qLower α) (y.zip (y.map fun _ => (1 : K)))).map
          (fun b => qUpper α b.data))).flatten :=
  C02_between α hα0 hα1 true y hne x r h

/-- the decreasing fit is the mirror image of the increasing fit of the mirrored data -/
theorem C02_dec_mirror (α : K) (hα0 : 0 < α) (hα1 : α < 1) (y : List K) (hne : y ≠ [])
    (x : List K) (r : List Nat) (h : isoReg (some .quantile) α false y none = .ok (x, r)) :
    ∃ r', isoReg (some .quantile) α true y.reverse none = .ok (x.reverse, r') := by
  rw [isoReg_quantile_none α hα0 hα1 false y hne] at h
  have hx := (Prod.mk.inj (Except.ok.inj h)).1
  rw [isoReg_quantile_none α hα0 hα1 true y.reverse (by simpa using hne)]
  refine ⟨_, congrArg Except.ok (Prod.ext ?_ rfl)⟩
  rw [← hx]
  simp only [orient_true, orient_false, List.reverse_reverse]
  have e := orient_zip false y (y.map fun _ => (1 : K)) (ones_length y).symm
  simp only [orient_false] at e
  rw [e, List.map_reverse]

/-- weighted quantile regression is not implemented (the level check comes first) -/
theorem C02_weighted_not_implemented (α : K) (hα0 : 0 < α) (hα1 : α < 1) (inc : Bool)
    (y w' : List K) : isoReg (some .quantile) α inc y (some w') = .error .notImplemented :=
  isoReg_quantile_weighted α hα0 hα1 inc y w'

/-- a level outside `(0, 1)` is a `ValueError`, with or without weights -/
theorem C02_level_error (α : K) (hα : α ≤ 0 ∨ 1 ≤ α) (inc : Bool) (y : List K)
    (w : Option (List K)) : isoReg (some .quantile) α inc y w = .error .valueError :=
  isoReg_level_error _ (Or.inr rfl) α hα inc y w

/-! ## The median call -/

/-- the median call is the quantile call at level `1/2`, whatever level is passed, on every input
(errors included), with or without weights -/
theorem C02_median_is_half (β : K) (inc : Bool) (y : List K) (w : Option (List K)) :
    isoReg (some .median) β inc y w = isoReg (some .quantile) (1 / 2) inc y w :=
  isoReg_median_eq β inc y w

theorem C02_median_ok (β : K) (inc : Bool) (y : List K) (hne : y ≠ []) :
    ∃ x r, isoReg (some .median) β inc y none = .ok (x, r) ∧ x.length = y.length := by
  rw [C02_median_is_half]
  exact C02_ok _ one_half_pos one_half_lt_one inc y hne

theorem C02_median_monotone (β : K) (inc : Bool) (y : List K) (hne : y ≠ [])
    (x : List K) (r : List Nat) (h : isoReg (some .median) β inc y none = .ok (x, r)) :
    MonoDir inc x := by
  rw [C02_median_is_half] at h
  exact C02_monotone _ one_half_pos one_half_lt_one inc y hne x r h

/-- the median fit minimises the total absolute-error-type pinball loss at level `1/2` -/
theorem C02_median_optimal (β : K) (inc : Bool) (y : List K) (hne : y ≠ [])
    (x : List K) (r : List Nat) (h : isoReg (some .median) β inc y none = .ok (x, r))
    (zs : List K) (hz : zs.length = y.length) (hm : MonoDir inc zs) :
    total (pinball (1 / 2 : K) one_half_pos one_half_lt_one).S (y.zip (y.map fun _ => (1 : K))) x
      ≤ total (pinball (1 / 2 : K) one_half_pos one_half_lt_one).S
          (y.zip (y.map fun _ => (1 : K))) zs := by
  rw [C02_median_is_half] at h
  exact C02_optimal _ one_half_pos one_half_lt_one inc y hne x r h zs hz hm

theorem C02_median_range (β : K) (inc : Bool) (y : List K) (hne : y ≠ [])
    (x : List K) (r : List Nat) (h : isoReg (some .median) β inc y none = .ok (x, r)) :
    ∀ v ∈ x, (∃ u ∈ y, u ≤ v) ∧ (∃ u ∈ y, v ≤ u) := by
  rw [C02_median_is_half] at h
  exact C02_range _ one_half_pos one_half_lt_one inc y hne x r h

theorem C02_median_between (β : K) (inc : Bool) (y : List K) (hne : y ≠ [])
    (x : List K) (r : List Nat) (h : isoReg (some .median) β inc y none = .ok (x, r)) :
    let obs := orient inc (y.zip (y.map fun _ => (1 : K)))
    List.Forall₂ (· ≤ ·) (expand (gpava (qLower (1 / 2)) obs)) (orient inc x) ∧
    List.Forall₂ (· ≤ ·) (orient inc x)
      (List.zipWith (fun (b : Blk K) m => List.replicate b.data.length m)
        (gpava (qLower (1 / 2)) obs)
        ((gpava (qLower (1 / 2)) obs).map (fun b => qUpper (1 / 2) b.data))).flatten := by
  rw [C02_median_is_half] at h
  exact C02_between _ one_half_pos one_half_lt_one inc y hne x r h

/-- the weighted median is not implemented, whatever the level -/
theorem C02_median_weighted_not_implemented (β : K) (inc : Bool) (y w' : List K) :
    isoReg (some .median) β inc y (some w') = .error .notImplemented :=
  isoReg_median_weighted β inc y w'

/-- the hypotheses are satisfiable on a non-trivial input -/
example : (0 : ℚ) < 1 / 3 ∧ (1 / 3 : ℚ) < 1 ∧ ([3, 1, 2, 5] : List ℚ) ≠ [] := by
  refine ⟨by norm_num, by norm_num, by simp⟩

/-- … and so is the conclusion of `C02_ok`, in both directions -/
example (inc : Bool) :
    ∃ x r, isoReg (some .quantile) (1 / 3 : ℚ) inc [3, 1, 2, 5] none = .ok (x, r) ∧ x.length = 4 :=
  C02_ok (1 / 3) (by norm_num) (by norm_num) inc [3, 1, 2, 5] (by simp)

/-- a competitor for `C02_optimal` in the decreasing direction -/
example : ([3, 2, 2, 2] : List ℚ).length = ([3, 1, 2, 5] : List ℚ).length ∧
    MonoDir false ([3, 2, 2, 2] : List ℚ) := by
  refine ⟨rfl, ?_⟩
  norm_num [MonoDir]

/-- the level passed to the median call may be anything, e.g. out of range -/
example (inc : Bool) :
    ∃ x r, isoReg (some .median) (7 : ℚ) inc [3, 1, 2, 5] none = .ok (x, r) ∧ x.length = 4 :=
  C02_median_ok 7 inc [3, 1, 2, 5] (by simp)

end MD.Props

/-
`#print axioms` (observed with `lake env lean MD/Props/C02.lean`):
'MD.Props.C02_ok' depends on axioms: [propext, Classical.choice, Quot.sound]
'MD.Props.C02_length' depends on axioms: [propext, Classical.choice, Quot.sound]
'MD.Props.C02_monotone' depends on axioms: [propext, Classical.choice, Quot.sound]
'MD.Props.C02_optimal' depends on axioms: [propext, Classical.choice, Quot.sound]
'MD.Props.C02_range' depends on axioms: [propext, Classical.choice, Quot.sound]
'MD.Props.C02_between' depends on axioms: [propext, Classical.choice, Quot.sound]
'MD.Props.C02_between_inc' depends on axioms: [propext, Classical.choice, Quot.sound]
'MD.Props.C02_dec_mirror' depends on axioms: [propext, Quot.sound]
'MD.Props.C02_weighted_not_implemented' depends on axioms: [propext, Quot.sound]
'MD.Props.C02_level_error' depends on axioms: [propext, Quot.sound]
'MD.Props.C02_median_is_half' depends on axioms: [propext, Classical.choice, Quot.sound]
'MD.Props.C02_median_ok' depends on axioms: [propext, Classical.choice, Quot.sound]
'MD.Props.C02_median_monotone' depends on axioms: [propext, Classical.choice, Quot.sound]
'MD.Props.C02_median_optimal' depends on axioms: [propext, Classical.choice, Quot.sound]
'MD.Props.C02_median_range' depends on axioms: [propext, Classical.choice, Quot.sound]
'MD.Props.C02_median_between' depends on axioms: [propext, Classical.choice, Quot.sound]
'MD.Props.C02_median_weighted_not_implemented' depends on axioms: [propext, Quot.sound]
-/
