import MD.Model.Names
/-! C07 / C09 / C10 / C19 — "each column of a multi-model forecast matrix gets the same row as if it were passed alone":
the label side. Theorems about `MD.Names` (`MD/Model/Names.lean`). -/
namespace MD.Names

/-- one label per column -/
theorem C07_names_length (s : PredShape) :
    (predNames s).length = match s with | .vector _ => 1 | .matrix m => m | .frame cols => cols.length := by
  cases s with
  | vector nm => rfl
  | matrix m => simp [predNames]
  | frame cols =>
    simp only [predNames]
    suffices ∀ i, (framNames i cols).length = cols.length from this 0
    induction cols with
    | nil => intro i; rfl
    | cons c cs ih => intro i; simp [framNames, ih]

/-- **C07_label_follows_column**: row `k` of the table carries label `k` and statistic `k` - labels are attached by
position, never by sorting the names (numpy columns `"10"` and `"2"` sort differently from their positions). -/
theorem C07_label_follows_column {α : Type} (names : List String) (rows : List α) (k : Nat)
    (h1 : k < names.length) (h2 : k < rows.length) :
    (labelled names rows)[k]? = some (names[k], rows[k]) := by
  simp [labelled, List.getElem?_zip_eq_some, h1, h2]

/-- numpy matrices: column `k` is called `str(k)` -/
theorem C07_matrix_names (m k : Nat) (h : k < m) : (predNames (.matrix m))[k]? = some (toString k) := by
  simp [predNames, h]

/-- the labels of a matrix with 11 columns are not in sorted order, and the table keeps them in column order -/
example : predNames (.matrix 11) = ["0", "1", "2", "3", "4", "5", "6", "7", "8", "9", "10"] := by decide
example : ("10" : String) < "2" := by decide

/-- a data frame's labels are its column names in column order (an empty name falls back to the position) -/
example : predNames (.frame ["model_b", "", "model_a"]) = ["model_b", "1", "model_a"] := by decide

/-- a single unnamed vector has the empty label; a named Series keeps its name -/
theorem C07_vector_names (nm : Option String) :
    predNames (.vector nm) = [match nm with | some s => if s = "" then "" else s | none => ""] := by
  cases nm <;> simp [predNames, arrayName]

/-- the model column never collides with a feature called "model" -/
theorem C09_model_column_distinct (f : Option String) : some (modelColumn f) ≠ f ∨ f = none := by
  unfold modelColumn
  by_cases h : f = some "model"
  · left; simp [h]
  · cases f with
    | none => right; rfl
    | some s =>
      left
      simp only [h, ↓reduceIte, ne_eq, Option.some.injEq]
      intro hs; exact h (by rw [← hs])

end MD.Names
