import MD.Proofs.IsoFitLemmas
import Mathlib.Tactic.NormNum
import Mathlib.Tactic.IntervalCases

/-! # C11 — `IsotonicRegression.fit / predict`

"After fitting on any (X, y[, weights]) — unsorted, with duplicate X values, either direction, any
functional — predictions at the training points equal the optimal monotone fit among functions of X
(equal X gives equal prediction) regardless of row order.  Predictions at arbitrary new points are
finite, monotone in X in the fitted direction, lie between neighbouring fitted values, and are
constant beyond the training range."

Model: `MD/Model/IsoFit.lean` (`rowLe`, `thresholdIdx`, `isoFit`, `interp`).  Proofs:
`MD/Proofs/IsoFitLemmas.lean`.  Helper definitions used in statements (all transparent):

* `fit_rows X y w`   — the rows `(X[i], y[i], w[i])` (`w[i] = 1` for `weights=None`) `fit` builds;
* `fit_sorted inc X y w = (fit_rows X y w).mergeSort (rowLe inc)` — the sorted sample;
* `fit_RVec r n`     — `r` has ≥ 2 entries, `r[0] = 0`, last entry `n`, strictly increasing
                        (what `BlockVec ys r` gives for non-empty `ys`: `C11_rvec_of_blockVec`);
* `fit_TieRun inc y i j` — consecutive responses on positions `i..j` do not increase (`inc`) /
                        do not decrease (`¬ inc`).

Layout: A. `interp` alone; B. `thresholdIdx` alone; C. training points (abstract); D. ties are
pooled (gpava → isoReg → the sort); E. row order; F. the statements for `isoFit` itself. -/

set_option linter.unusedSectionVars false

namespace MD.Props
variable {K : Type} [Field K] [LinearOrder K] [IsStrictOrderedRing K] [Inhabited K]

/-! ## A. The prediction function `interp tx ty` (independent of fitting) -/

/-- Constant beyond the thresholds: below the first threshold the first value (no hypotheses at
all); at and above the last threshold — in particular at `q = tx[n-1]` — the last value. -/
theorem C11_predict_clamped (tx ty : List K) (q : K) (hn : 0 < tx.length)
    (hs : tx.Pairwise (· ≤ ·)) :
    (q < tx[0]! → interp tx ty q = ty[0]!) ∧
    (tx[tx.length - 1]! ≤ q → interp tx ty q = ty[tx.length - 1]!) :=
  ⟨fit_interp_left tx ty q, fit_interp_right tx ty q hn hs⟩

/-- At a threshold the stored value is returned, provided duplicate thresholds store equal values
(without that proviso `interp` returns the value of the *last* duplicate, see the `#eval` below). -/
theorem C11_predict_at_threshold (tx ty : List K) (hs : tx.Pairwise (· ≤ ·))
    (hdup : ∀ i j, i < tx.length → j < tx.length → tx[i]! = tx[j]! → ty[i]! = ty[j]!)
    (j : Nat) (hj : j < tx.length) : interp tx ty tx[j]! = ty[j]! :=
  fit_interp_at tx ty hs hdup j hj

/-- **Finite / total**: every prediction is the first value, the last value, or a linear
interpolation on a segment `[tx[j], tx[j+1])` containing `q` whose width — the only denominator
`interp` ever divides by — is positive.  (No sortedness needed.) -/
theorem C11_predict_finite (tx ty : List K) (q : K) (hn : 0 < tx.length) :
    (q < tx[0]! ∧ interp tx ty q = ty[0]!) ∨
    (tx[tx.length - 1]! ≤ q ∧ interp tx ty q = ty[tx.length - 1]!) ∨
    (∃ j, j + 1 < tx.length ∧ tx[j]! ≤ q ∧ q < tx[j + 1]! ∧ 0 < tx[j + 1]! - tx[j]! ∧
      interp tx ty q = ty[j]! + (ty[j + 1]! - ty[j]!) / (tx[j + 1]! - tx[j]!) * (q - tx[j]!)) := by
  rcases fit_interp_spec tx ty q hn with h | h | ⟨j, h1, h2, h3, h4⟩
  · exact Or.inl h
  · exact Or.inr (Or.inl h)
  · exact Or.inr (Or.inr ⟨j, h1, h2, h3, by linarith, h4⟩)

/-- Inside the range the prediction lies between the two neighbouring threshold values: there is a
segment index `j` with `tx[j] ≤ q`, `q < tx[j+1]` (if `j` is not the last index), and the
prediction is between `ty[j]` and `ty[j+1]` (equal to `ty[j]` if `j` is the last index). -/
theorem C11_predict_between_neighbours (tx ty : List K) (q : K) (hn : 0 < tx.length)
    (h0 : tx[0]! ≤ q) :
    ∃ j, j < tx.length ∧ tx[j]! ≤ q ∧ (j + 1 < tx.length → q < tx[j + 1]!) ∧
      (j + 1 < tx.length → 0 < tx[j + 1]! - tx[j]! ∧
        min ty[j]! ty[j + 1]! ≤ interp tx ty q ∧ interp tx ty q ≤ max ty[j]! ty[j + 1]!) ∧
      (j + 1 = tx.length → interp tx ty q = ty[j]!) :=
  fit_interp_between tx ty q hn h0

/-- Monotone: non-decreasing thresholds with non-decreasing values give a non-decreasing prediction
function; with non-increasing values a non-increasing one. -/
theorem C11_predict_monotone (tx ty : List K) (hn : 0 < tx.length) (hlen : ty.length = tx.length)
    (hs : tx.Pairwise (· ≤ ·)) (q₁ q₂ : K) (hq : q₁ ≤ q₂) :
    (ty.Pairwise (· ≤ ·) → interp tx ty q₁ ≤ interp tx ty q₂) ∧
    (ty.Pairwise (· ≥ ·) → interp tx ty q₂ ≤ interp tx ty q₁) :=
  ⟨fun hy => fit_interp_mono tx ty hn hlen hs hy q₁ q₂ hq,
   fun hy => fit_interp_anti tx ty hn hlen hs hy q₁ q₂ hq⟩

/-- `interp` commutes with affine maps of the stored values -/
theorem C11_predict_affine (tx ty : List K) (q c e : K) (hn : 0 < tx.length)
    (hlen : ty.length = tx.length) :
    interp tx (ty.map fun v => c * v + e) q = c * interp tx ty q + e :=
  fit_interp_affine tx ty q c e hn hlen

/-! ## B. The threshold index list `thresholdIdx r xs ys` -/

/-- the block vector of a non-empty fitted sequence is well formed -/
theorem C11_rvec_of_blockVec {ys : List K} {r : List Nat} (h : BlockVec ys r) (hne : ys ≠ []) :
    fit_RVec r ys.length :=
  fit_rvec_of_blockVec h hne

/-- Every selected index is a valid position, the list is strictly increasing (in particular
non-decreasing and duplicate-free), non-empty, and starts with `r[0] = 0`. -/
theorem C11_thresholdIdx_wellformed (r : List Nat) (n : Nat) (xs ys : List K) (h : fit_RVec r n) :
    (∀ a ∈ thresholdIdx r xs ys, a < n) ∧ (thresholdIdx r xs ys).Pairwise (· < ·) ∧
      0 < (thresholdIdx r xs ys).length ∧ (thresholdIdx r xs ys)[0]! = 0 :=
  ⟨fit_thresholdIdx_lt h, fit_thresholdIdx_strict h, fit_thresholdIdx_pos, fit_thresholdIdx_head h⟩

/-- The list contains the first position `r[k]` of every block, the last position `r[k+1] - 1` of
every block but the final one, and the last position `n - 1` of the final block exactly if that
block is a singleton or `X` differs between the block's first and last row.  (The disjunct
`y_iso[0] == y_iso[-1]` of the Python condition is redundant: `X[last] ≠ X[r[-2]]` already forces
the final block to have more than one element.) -/
theorem C11_thresholdIdx_members (r : List Nat) (n : Nat) (xs ys : List K) (h : fit_RVec r n) :
    (∀ k, k + 1 < r.length → r[k]! ∈ thresholdIdx r xs ys) ∧
    (∀ k, k + 2 < r.length → r[k + 1]! - 1 ∈ thresholdIdx r xs ys) ∧
    (n - 1 ∈ thresholdIdx r xs ys ↔
      (r[r.length - 2]! = n - 1 ∨ xs[n - 1]! ≠ xs[r[r.length - 2]!]!)) :=
  ⟨fit_start_mem h, fit_end_mem h, fit_last_mem_iff h⟩

/-- with sorted `X` the selected `X` thresholds are non-decreasing -/
theorem C11_thresholds_sorted (r : List Nat) (xs ys : List K) (h : fit_RVec r xs.length)
    (hxs : xs.Pairwise (· ≤ ·)) :
    ((thresholdIdx r xs ys).map (fun i => xs[i]!)).Pairwise (· ≤ ·) :=
  fit_thresholds_sorted h rfl hxs

/-- two positions inside one block carry the same fitted value (so thresholds selected from the
same block do) -/
theorem C11_duplicate_thresholds_agree (r : List Nat) (ys : List K) (hb : BlockVec ys r)
    (hne : ys ≠ []) (k a b : Nat) (hk : k + 1 < r.length) (ha : r[k]! ≤ a) (hab : a ≤ b)
    (hb' : b < r[k + 1]!) : ys[a]! = ys[b]! :=
  fit_same_block hb (fit_rvec_of_blockVec hb hne) hk ha hab hb'

/-! ## C. Predictions at the training points (abstract form) -/

/-- **Key statement.**  `xs` non-decreasing, `ys` a sequence with block vector `r`, and positions
with equal `xs` carry equal `ys` (`C11_ties_one_block` provides this for the model).  Then the
interpolant through the selected thresholds reproduces `ys` at every training position.
(Monotonicity of `ys` is not needed, nor is the tail condition of `thresholdIdx`.) -/
theorem C11_train_equals_fit (r : List Nat) (xs ys : List K) (hlen : xs.length = ys.length)
    (hxs : xs.Pairwise (· ≤ ·)) (hb : BlockVec ys r)
    (hties : ∀ i j, i < ys.length → j < ys.length → xs[i]! = xs[j]! → ys[i]! = ys[j]!)
    (p : Nat) (hp : p < ys.length) :
    interp ((thresholdIdx r xs ys).map (fun i => xs[i]!))
      ((thresholdIdx r xs ys).map (fun i => ys[i]!)) xs[p]! = ys[p]! :=
  fit_train_eq hlen hxs hb hties p hp

/-! ## D. Ties in `X` are pooled into one block -/

/-- **The mathematical heart of tie handling**: for every functional with the Cauchy mean value
property (`Internal`), the generalised PAVA puts no block boundary between two consecutive
observations whose responses do not strictly increase. -/
theorem C11_gpava_no_boundary_of_ge {L : Type} [LinearOrder L] {ok : Obs L → Prop}
    {T : List (Obs L) → L} (hT : Internal ok T) (ys : List (Obs L)) (hys : ∀ o ∈ ys, ok o)
    (k : Nat) (u v : Obs L) (hu : ys[k]? = some u) (hv : ys[k + 1]? = some v) (hge : v.1 ≤ u.1) :
    k + 1 ∉ bounds (gpava T ys) :=
  gpava_no_boundary_of_ge hT ys hys k u v hu hv hge

/-- … so a whole run `i..j` of non-increasing responses lies in one block and gets one value -/
theorem C11_gpava_run_one_block {L : Type} [LinearOrder L] {ok : Obs L → Prop}
    {T : List (Obs L) → L} (hT : Internal ok T) (ys : List (Obs L)) (hys : ∀ o ∈ ys, ok o)
    (i j : Nat) (hij : i ≤ j) (hj : j < ys.length)
    (hrun : ∀ k, i ≤ k → k < j → ∀ u v, ys[k]? = some u → ys[k + 1]? = some v → v.1 ≤ u.1) :
    (∀ b ∈ bounds (gpava T ys), b ≤ i ∨ j < b) ∧
      (expand (gpava T ys))[i]? = (expand (gpava T ys))[j]? :=
  ⟨gpava_run_one_block hT ys hys i j hj hrun, gpava_run_const hT ys hys i j hij hj hrun⟩

/-- the same for `isotonic_regression` itself: every functional (mean, expectile, quantile, median —
for the quantiles via the lower-quantile blocks and the midpoint construction), both directions,
with or without weights -/
theorem C11_isoReg_run_const (fn : Option Functional) (α : K) (inc : Bool) (y : List K)
    (w : Option (List K)) (x : List K) (r : List Nat) (h : isoReg fn α inc y w = .ok (x, r))
    (i j : Nat) (hij : i ≤ j) (hj : j < y.length) (hrun : fit_TieRun inc y i j) :
    x[i]! = x[j]! :=
  fit_isoReg_run_const h i j hij hj hrun

/-- the sort key is a total preorder whose ties are exactly the rows equal in `(X, y)`; after the
sort `X` is non-decreasing and every tie group in `X` is a run in the sense of `fit_TieRun` -/
theorem C11_sort_spec (inc : Bool) (rows : List (Row K)) :
    (∀ a b : Row K, (rowLe inc a b || rowLe inc b a) = true) ∧
    (∀ a b c : Row K, rowLe inc a b = true → rowLe inc b c = true → rowLe inc a c = true) ∧
    (∀ a b : Row K, rowLe inc a b = true → rowLe inc b a = true → a.x = b.x ∧ a.y = b.y) ∧
    ((rows.mergeSort (rowLe inc)).map (·.x)).Pairwise (· ≤ ·) ∧
    (∀ i j, j < (rows.mergeSort (rowLe inc)).length →
      ((rows.mergeSort (rowLe inc)).map (·.x))[i]! = ((rows.mergeSort (rowLe inc)).map (·.x))[j]! →
      fit_TieRun inc ((rows.mergeSort (rowLe inc)).map (·.y)) i j) :=
  ⟨fit_rowLe_total inc, fit_rowLe_trans inc, fit_rowLe_antisymm inc, fit_sorted_x inc rows,
    fun i j hj hx => fit_tieRun_of_sorted inc _ (fit_sorted_pairwise inc rows) i j hj hx⟩

/-- **Ties form one block**: fit any functional in any direction (any weights option `wopt`) to the
responses of the sorted rows; positions with equal `X` receive equal fitted values. -/
theorem C11_ties_one_block (fn : Option Functional) (α : K) (inc : Bool) (rows : List (Row K))
    (wopt : Option (List K)) (yiso : List K) (r : List Nat)
    (h : isoReg fn α inc ((rows.mergeSort (rowLe inc)).map (·.y)) wopt = .ok (yiso, r))
    (i j : Nat) (hi : i < yiso.length) (hj : j < yiso.length)
    (hx : ((rows.mergeSort (rowLe inc)).map (·.x))[i]!
        = ((rows.mergeSort (rowLe inc)).map (·.x))[j]!) :
    yiso[i]! = yiso[j]! :=
  fit_ties_one_block rows wopt h i j hi hj hx

/-! ## E. Row order -/

/-- the sorted sample is the same for every order of the rows, provided rows with identical
`(X, y)` have identical weights -/
theorem C11_sorted_row_order_free (inc : Bool) (rows₁ rows₂ : List (Row K))
    (hp : rows₁.Perm rows₂)
    (hdup : ∀ a ∈ rows₁, ∀ b ∈ rows₁, a.x = b.x → a.y = b.y → a.w = b.w) :
    rows₁.mergeSort (rowLe inc) = rows₂.mergeSort (rowLe inc) :=
  fit_mergeSort_perm_eq inc hp hdup

/-- without that proviso still the sorted `X` and `y` columns are the same -/
theorem C11_sorted_columns_row_order_free (inc : Bool) (rows₁ rows₂ : List (Row K))
    (hp : rows₁.Perm rows₂) :
    (rows₁.mergeSort (rowLe inc)).map (fun a => (a.x, a.y))
      = (rows₂.mergeSort (rowLe inc)).map (fun a => (a.x, a.y)) :=
  fit_mergeSort_perm_keys inc hp

/-- the isotonic fit of a sorted sample does not depend on which admissible sorted order is used:
weights may be permuted among rows with identical `(X, y)` (both fits are constant on `X` ties, the
score of such a sequence is a sum over rows, and the minimiser is unique) -/
theorem C11_isoReg_tie_order_free (fn : Option Functional) (α : K) (inc : Bool)
    (s₁ s₂ : List (Row K)) (hs : s₁.Perm s₂)
    (hs₁ : s₁.Pairwise (fun a b => rowLe inc a b = true))
    (hs₂ : s₂.Pairwise (fun a b => rowLe inc a b = true))
    (hkeys : s₁.map (fun a => (a.x, a.y)) = s₂.map (fun a => (a.x, a.y))) :
    isoReg fn α inc (s₁.map (·.y)) (some (s₁.map (·.w)))
      = isoReg fn α inc (s₂.map (·.y)) (some (s₂.map (·.w))) :=
  fit_isoReg_perm_weights fn α inc s₁ s₂ hs hs₁ hs₂ hkeys

/-- **`fit` does not depend on the row order** — any functional, direction, with or without
weights, duplicate `(X, y)` rows may even carry different weights: two samples (that pass the
length checks) whose rows are permutations of each other give the same result, thresholds or
error. -/
theorem C11_row_order_free (fn : Option Functional) (α : K) (inc : Bool)
    (X₁ y₁ X₂ y₂ : List K) (w₁ w₂ : Option (List K))
    (hX₁ : X₁.length = y₁.length) (hX₂ : X₂.length = y₂.length)
    (hw₁ : ∀ w', w₁ = some w' → w'.length = y₁.length)
    (hw₂ : ∀ w', w₂ = some w' → w'.length = y₂.length)
    (hsome : w₁.isSome = w₂.isSome)
    (hperm : (fit_rows X₁ y₁ w₁).Perm (fit_rows X₂ y₂ w₂)) :
    isoFit fn α inc X₁ y₁ w₁ = isoFit fn α inc X₂ y₂ w₂ :=
  fit_isoFit_row_order_free_general fn α inc X₁ y₁ X₂ y₂ w₁ w₂ hX₁ hX₂ hw₁ hw₂ hsome hperm

/-- the unweighted case, without any proviso -/
theorem C11_row_order_free_unweighted (fn : Option Functional) (α : K) (inc : Bool)
    (X₁ y₁ X₂ y₂ : List K) (hX₁ : X₁.length = y₁.length) (hX₂ : X₂.length = y₂.length)
    (hperm : (List.zip X₁ y₁).Perm (List.zip X₂ y₂)) :
    isoFit fn α inc X₁ y₁ none = isoFit fn α inc X₂ y₂ none :=
  fit_isoFit_row_order_free_unweighted fn α inc X₁ y₁ X₂ y₂ hX₁ hX₂ hperm

/-! ## F. The fitted model `isoFit` + `interp`

In the following `h` is a successful `fit` with thresholds `(tx, ty)`, and `(yiso, r)` is the
isotonic fit of the sorted responses — which exists and is what `fit` computed
(`C11_fit_has_isoReg`). -/

/-- a successful `fit` passed the length checks and computed an isotonic fit of the sorted sample,
from which the thresholds are read off -/
theorem C11_fit_has_isoReg (fn : Option Functional) (α : K) (inc : Bool) (X y : List K)
    (w : Option (List K)) (tx ty : List K) (h : isoFit fn α inc X y w = .ok (tx, ty)) :
    X.length = y.length ∧ (∀ w', w = some w' → w'.length = y.length) ∧
    ∃ yiso r, isoReg fn α inc ((fit_sorted inc X y w).map (·.y))
        (w.map (fun _ => (fit_sorted inc X y w).map (·.w))) = .ok (yiso, r) ∧
      tx = (thresholdIdx r ((fit_sorted inc X y w).map (·.x)) yiso).map
        (fun i => ((fit_sorted inc X y w).map (·.x))[i]!) ∧
      ty = (thresholdIdx r ((fit_sorted inc X y w).map (·.x)) yiso).map (fun i => yiso[i]!) :=
  fit_isoFit_inv h

/-- **Predictions at the training points equal the isotonic fit** — any functional, either
direction, unsorted input, duplicate `X`, with or without weights: at the `X` of the `p`-th sorted
row the prediction is the `p`-th fitted value. -/
theorem C11_fit_train_equals_fit (fn : Option Functional) (α : K) (inc : Bool) (X y : List K)
    (w : Option (List K)) (tx ty yiso : List K) (r : List Nat)
    (h : isoFit fn α inc X y w = .ok (tx, ty))
    (hr : isoReg fn α inc ((fit_sorted inc X y w).map (·.y))
      (w.map (fun _ => (fit_sorted inc X y w).map (·.w))) = .ok (yiso, r))
    (p : Nat) (hp : p < yiso.length) :
    interp tx ty ((fit_sorted inc X y w).map (·.x))[p]! = yiso[p]! :=
  (fit_isoFit_fitted h hr).train p hp

/-- the same in the original row order: row `k` of the input sits at some position `p` of the
sorted sample and the prediction at `X[k]` is the fitted value at `p` -/
theorem C11_fit_train_original_order (fn : Option Functional) (α : K) (inc : Bool) (X y : List K)
    (w : Option (List K)) (tx ty yiso : List K) (r : List Nat)
    (h : isoFit fn α inc X y w = .ok (tx, ty))
    (hr : isoReg fn α inc ((fit_sorted inc X y w).map (·.y))
      (w.map (fun _ => (fit_sorted inc X y w).map (·.w))) = .ok (yiso, r))
    (k : Nat) (hk : k < X.length) :
    ∃ p, p < yiso.length ∧ (fit_sorted inc X y w)[p]? = (fit_rows X y w)[k]? ∧
      ((fit_sorted inc X y w).map (·.x))[p]! = X[k]! ∧ interp tx ty X[k]! = yiso[p]! :=
  fit_isoFit_train_orig h hr k hk

/-- the fitted values are a function of `X`: equal `X` gives equal fitted value, and the fitted
sequence is monotone in the fitted direction -/
theorem C11_fit_function_of_X (fn : Option Functional) (α : K) (inc : Bool) (X y : List K)
    (w : Option (List K)) (tx ty yiso : List K) (r : List Nat)
    (h : isoFit fn α inc X y w = .ok (tx, ty))
    (hr : isoReg fn α inc ((fit_sorted inc X y w).map (·.y))
      (w.map (fun _ => (fit_sorted inc X y w).map (·.w))) = .ok (yiso, r)) :
    MonoDir inc yiso ∧
    ∀ i j, i < yiso.length → j < yiso.length →
      ((fit_sorted inc X y w).map (·.x))[i]! = ((fit_sorted inc X y w).map (·.x))[j]! →
      yiso[i]! = yiso[j]! :=
  ⟨(fit_isoFit_fitted h hr).mono, (fit_isoFit_fitted h hr).ties⟩

/-- **Optimal among functions of `X`** (weighted mean): the prediction function minimises the
weighted squared error over the training rows among all functions of `X` that are monotone in the
fitted direction.  (For the other functionals combine `C11_fit_train_equals_fit` and
`C11_fit_function_of_X` with `C02_optimal` / `C03_optimal` in the same way.) -/
theorem C11_fit_optimal_mean (α : K) (inc : Bool) (X y wl tx ty : List K)
    (h : isoFit (some .mean) α inc X y (some wl) = .ok (tx, ty)) (g : K → K)
    (hg : if inc then Monotone g else Antitone g) :
    ((fit_rows X y (some wl)).map
        (fun a => a.w * ((a.y - interp tx ty a.x) * (a.y - interp tx ty a.x)))).sum
      ≤ ((fit_rows X y (some wl)).map (fun a => a.w * ((a.y - g a.x) * (a.y - g a.x)))).sum :=
  fit_isoFit_optimal_mean α inc X y wl tx ty h g hg

/-- the stored thresholds are well formed: non-empty, `X` thresholds non-decreasing, as many values
as thresholds, values monotone in the fitted direction -/
theorem C11_fit_thresholds (fn : Option Functional) (α : K) (inc : Bool) (X y : List K)
    (w : Option (List K)) (tx ty : List K) (h : isoFit fn α inc X y w = .ok (tx, ty)) :
    0 < tx.length ∧ ty.length = tx.length ∧ tx.Pairwise (· ≤ ·) ∧ MonoDir inc ty := by
  obtain ⟨yiso, r, hr⟩ := fit_isoFit_exists h
  have F := fit_isoFit_fitted h hr
  exact ⟨F.tx_pos, F.ty_len, F.tx_sorted, F.ty_mono⟩

/-- **Predictions are monotone in `X` in the fitted direction** -/
theorem C11_fit_predict_monotone (fn : Option Functional) (α : K) (inc : Bool) (X y : List K)
    (w : Option (List K)) (tx ty : List K) (h : isoFit fn α inc X y w = .ok (tx, ty))
    (q₁ q₂ : K) (hq : q₁ ≤ q₂) :
    if inc then interp tx ty q₁ ≤ interp tx ty q₂ else interp tx ty q₂ ≤ interp tx ty q₁ := by
  obtain ⟨yiso, r, hr⟩ := fit_isoFit_exists h
  exact (fit_isoFit_fitted h hr).predict_mono q₁ q₂ hq

/-- **Constant beyond the training range**: at or below the smallest training `X` the prediction is
the first fitted value, at or above the largest training `X` the last one; and every prediction
lies between these two. -/
theorem C11_fit_constant_beyond_range (fn : Option Functional) (α : K) (inc : Bool) (X y : List K)
    (w : Option (List K)) (tx ty yiso : List K) (r : List Nat)
    (h : isoFit fn α inc X y w = .ok (tx, ty))
    (hr : isoReg fn α inc ((fit_sorted inc X y w).map (·.y))
      (w.map (fun _ => (fit_sorted inc X y w).map (·.w))) = .ok (yiso, r)) (q : K) :
    (q ≤ ((fit_sorted inc X y w).map (·.x))[0]! → interp tx ty q = yiso[0]!) ∧
    (((fit_sorted inc X y w).map (·.x))[yiso.length - 1]! ≤ q →
      interp tx ty q = yiso[yiso.length - 1]!) ∧
    (if inc then yiso[0]! ≤ interp tx ty q ∧ interp tx ty q ≤ yiso[yiso.length - 1]!
      else yiso[yiso.length - 1]! ≤ interp tx ty q ∧ interp tx ty q ≤ yiso[0]!) :=
  ⟨(fit_isoFit_fitted h hr).predict_below q, (fit_isoFit_fitted h hr).predict_above q,
    (fit_isoFit_fitted h hr).predict_range q⟩

/-- **Finite, between neighbouring fitted values**: every prediction of a fitted model is one of
the stored fitted values or an interpolation, with positive denominator, between two neighbouring
stored fitted values (`C11_predict_finite`, `C11_predict_between_neighbours` apply since the stored
thresholds are non-empty), and every stored value is a fitted value. -/
theorem C11_fit_predict_between (fn : Option Functional) (α : K) (inc : Bool) (X y : List K)
    (w : Option (List K)) (tx ty : List K) (h : isoFit fn α inc X y w = .ok (tx, ty)) (q : K)
    (h0 : tx[0]! ≤ q) :
    ∃ j, j < tx.length ∧ tx[j]! ≤ q ∧ (j + 1 < tx.length → q < tx[j + 1]!) ∧
      (j + 1 < tx.length → 0 < tx[j + 1]! - tx[j]! ∧
        min ty[j]! ty[j + 1]! ≤ interp tx ty q ∧ interp tx ty q ≤ max ty[j]! ty[j + 1]!) ∧
      (j + 1 = tx.length → interp tx ty q = ty[j]!) :=
  fit_interp_between tx ty q (C11_fit_thresholds fn α inc X y w tx ty h).1 h0

/-! ## Non-vacuity -/

/-- `C11_predict_*`: sorted thresholds with a duplicate; values agree on the duplicate -/
example : ([1, 2, 2, 4] : List ℚ).Pairwise (· ≤ ·) ∧ ([1, 3, 3, 7] : List ℚ).Pairwise (· ≤ ·) ∧
    interp [1, 2, 2, 4] [1, 3, 3, 7] (3 : ℚ) = 5 ∧ interp [1, 2, 2, 4] [1, 3, 3, 7] (2 : ℚ) = 3 ∧
    interp [1, 2, 2, 4] [1, 3, 3, 7] (0 : ℚ) = 1 ∧ interp [1, 2, 2, 4] [1, 3, 3, 7] (4 : ℚ) = 7 := by
  refine ⟨by norm_num, by norm_num, ?_, ?_, ?_, ?_⟩ <;> norm_num [interp, List.range_succ]

/-- `C11_thresholdIdx_*`, `C11_train_equals_fit`: a block vector with a tie group in `X` that is
one block, and a final block that is a tie group in `X` (its last position is not selected) -/
example : BlockVec ([3 / 2, 3 / 2, 3, 3] : List ℚ) [0, 2, 4] ∧
    fit_RVec [0, 2, 4] ([3 / 2, 3 / 2, 3, 3] : List ℚ).length ∧
    ([1, 1, 2, 2] : List ℚ).Pairwise (· ≤ ·) ∧
    thresholdIdx [0, 2, 4] ([1, 1, 2, 2] : List ℚ) [3 / 2, 3 / 2, 3, 3] = [0, 1, 2] := by
  have hb : BlockVec ([3 / 2, 3 / 2, 3, 3] : List ℚ) [0, 2, 4] := by
    have := blockVec_runBounds ([3 / 2, 3 / 2, 3, 3] : List ℚ) (by simp)
    norm_num [runBounds, runBounds.go] at this
    exact this
  exact ⟨hb, fit_rvec_of_blockVec hb (by simp), by norm_num, by simp [thresholdIdx]⟩

/-- `C11_gpava_no_boundary_of_ge` / `fit_TieRun`: a tie group sorted the way `fit` sorts it -/
example : fit_TieRun true ([3, 2, 2, 5] : List ℚ) 0 2 ∧ fit_TieRun false ([1, 2, 2, 0] : List ℚ) 0 2 := by
  constructor <;> intro k _ hk <;> interval_cases k <;> norm_num

/-- `C11_row_order_free_unweighted`: a genuine permutation with duplicate `X` -/
example : (List.zip [3, 1, 2, 2] [1, 3, 2, 4] : List (ℚ × ℚ)).Perm (List.zip [2, 3, 2, 1] [4, 1, 2, 3]) := by
  decide

/-- `C11_row_order_free`: a genuine permutation in which the duplicated row `(X, y) = (1, 3)` carries
two different weights -/
example : (fit_rows [1, 1, 2] [3, 3, 1] (some [1, 5, 2]) : List (Row ℚ)).Perm
    (fit_rows [1, 2, 1] [3, 1, 3] (some [5, 2, 1])) := by
  show ([⟨1, 3, 1⟩] ++ [⟨1, 3, 5⟩, ⟨2, 1, 2⟩] : List (Row ℚ)).Perm
    ([⟨1, 3, 5⟩, ⟨2, 1, 2⟩] ++ [⟨1, 3, 1⟩])
  exact List.perm_append_comm

end MD.Props

/-
Sanity checks at `Rat` (`#eval`, not part of the proofs):
  isoFit (some .mean) (0 : Rat) true [3,1,2,2,5,4] [1,3,2,4,5,6] none
    = .ok ([1, 3, 4, 5], [5/2, 5/2, 11/2, 11/2])
  isoFit (some .mean) (0 : Rat) true [4,5,2,2,1,3] [6,5,4,2,3,1] none       -- same rows, other order
    = .ok ([1, 3, 4, 5], [5/2, 5/2, 11/2, 11/2])
  isoFit (some .mean) (0 : Rat) false [3,1,2,2,5,4] [1,3,2,4,5,6] (some [1,2,1,1,3,1])
    = .ok ([1, 5], [34/9, 34/9])
  isoFit (some .median) (0 : Rat) true [3,1,2,2,5,4,4] [1,3,2,4,5,6,0] none
    = .ok ([1, 4, 5], [5/2, 5/2, 5])
  isoFit (some .mean) (0 : Rat) true [1,1,2] [3,3,1] (some [1,5,2]) = .ok ([1, 2], [5/2, 5/2])
  isoFit (some .mean) (0 : Rat) true [1,2,1] [3,1,3] (some [5,2,1]) = .ok ([1, 2], [5/2, 5/2])   -- permuted, conflicting weights
  thresholdIdx [0,2,3] ([1,1,2] : List Rat) [3/2,3/2,3] = [0, 1, 2]
  thresholdIdx [0,2,3,6] ([1,1,2,3,3,3] : List Rat) [3/2,3/2,3,4,4,4] = [0, 1, 2, 3]   -- last block tied in X
  thresholdIdx [0,2,3,6] ([1,1,2,3,3,4] : List Rat) [3/2,3/2,3,4,4,4] = [0, 1, 2, 3, 5]
  interp [1,2,2,4] [1,3,5,7] (2 : Rat) = 5      -- duplicate thresholds with different values: the last one wins
-/


/-
`#print axioms` (observed with `lake env lean`):
'MD.Props.C11_predict_clamped' depends on axioms: [propext, Quot.sound]
'MD.Props.C11_predict_at_threshold' depends on axioms: [propext, Quot.sound]
'MD.Props.C11_predict_finite' depends on axioms: [propext, Classical.choice, Quot.sound]
'MD.Props.C11_predict_between_neighbours' depends on axioms: [propext, Classical.choice, Quot.sound]
'MD.Props.C11_predict_monotone' depends on axioms: [propext, Classical.choice, Quot.sound]
'MD.Props.C11_predict_affine' depends on axioms: [propext, Classical.choice, Quot.sound]
'MD.Props.C11_rvec_of_blockVec' depends on axioms: [propext, Classical.choice, Quot.sound]
'MD.Props.C11_thresholdIdx_wellformed' depends on axioms: [propext, Classical.choice, Quot.sound]
'MD.Props.C11_thresholdIdx_members' depends on axioms: [propext, Classical.choice, Quot.sound]
'MD.Props.C11_thresholds_sorted' depends on axioms: [propext, Classical.choice, Quot.sound]
'MD.Props.C11_duplicate_thresholds_agree' depends on axioms: [propext, Classical.choice, Quot.sound]
'MD.Props.C11_train_equals_fit' depends on axioms: [propext, Classical.choice, Quot.sound]
'MD.Props.C11_gpava_no_boundary_of_ge' depends on axioms: [propext, Classical.choice, Quot.sound]
'MD.Props.C11_gpava_run_one_block' depends on axioms: [propext, Classical.choice, Quot.sound]
'MD.Props.C11_isoReg_run_const' depends on axioms: [propext, Classical.choice, Quot.sound]
'MD.Props.C11_sort_spec' depends on axioms: [propext, Quot.sound]
'MD.Props.C11_ties_one_block' depends on axioms: [propext, Classical.choice, Quot.sound]
'MD.Props.C11_sorted_row_order_free' depends on axioms: [propext, Quot.sound]
'MD.Props.C11_sorted_columns_row_order_free' depends on axioms: [propext, Quot.sound]
'MD.Props.C11_isoReg_tie_order_free' depends on axioms: [propext, Classical.choice, Quot.sound]
'MD.Props.C11_row_order_free' depends on axioms: [propext, Classical.choice, Quot.sound]
'MD.Props.C11_row_order_free_unweighted' depends on axioms: [propext, Classical.choice, Quot.sound]
'MD.Props.C11_fit_has_isoReg' depends on axioms: [propext, Classical.choice, Quot.sound]
'MD.Props.C11_fit_train_equals_fit' depends on axioms: [propext, Classical.choice, Quot.sound]
'MD.Props.C11_fit_train_original_order' depends on axioms: [propext, Classical.choice, Quot.sound]
'MD.Props.C11_fit_function_of_X' depends on axioms: [propext, Classical.choice, Quot.sound]
'MD.Props.C11_fit_optimal_mean' depends on axioms: [propext, Classical.choice, Quot.sound]
'MD.Props.C11_fit_thresholds' depends on axioms: [propext, Classical.choice, Quot.sound]
'MD.Props.C11_fit_predict_monotone' depends on axioms: [propext, Classical.choice, Quot.sound]
'MD.Props.C11_fit_constant_beyond_range' depends on axioms: [propext, Classical.choice, Quot.sound]
'MD.Props.C11_fit_predict_between' depends on axioms: [propext, Classical.choice, Quot.sound]
-/
