import MD.Proofs.TableLemmas
import Mathlib.Algebra.Order.Field.Rat
import Mathlib.Tactic.NormNum.Basic

/-! # C10 — `compute_marginal(y_obs, y_pred, X, feature_name, predict_function, weights, n_bins, ...)`

"Per feature bin the table reports the weighted means of y_obs and y_pred (their difference is the
bin's bias, consistent with compute_bias for the mean functional), counts and weights; numeric bins
come with their edges, which are consecutive entries of [min, interior edges, max], do not overlap,
span [min, max] and contain every member; for string-like features the artificial pooled category
is identified exactly, so that it (and only it) is excluded from the partial-dependence grid."

Property theorems about `groupRows` / `groupedTable` with the two value columns `[y_obs, y_pred]`
and about the bin edges of `binNumeric` / the pooled name of `binString`.  Group-by facts shared
with `compute_bias` (totals, recombination, no truncation, permutation invariance) are in
`MD/Props/C09.lean`; binning facts in `MD/Props/C13.lean`.  Helper lemmas and the auxiliary names
`tbl_full` (`[min] ++ inner ++ [max]`), `tbl_inner`, `tbl_nonNull`, `tbl_numKey`, `tbl_strKey`,
`tbl_existing` live in `MD/Proofs/TableLemmas.lean`. -/

set_option linter.unusedSectionVars false
set_option linter.unusedVariables false
set_option linter.deprecated false

namespace MD.Props
variable {K : Type} [Field K] [LinearOrder K] [IsStrictOrderedRing K]

/-- `groupStat`'s mean is linear: the weighted mean of `pred − y` is the difference of the means -/
theorem C10_mean_linear (ws pred y : List K) (h : pred.length = y.length) :
    (groupStat (List.zipWith (fun p y => p - y) pred y) ws).mean =
      (groupStat pred ws).mean - (groupStat y ws).mean :=
  tbl_groupStat_mean_sub ws pred y h

/-- for the two-column table of `compute_marginal` (`cols = [y, pred]`) each group's
`mean(pred) − mean(y)` equals the group mean of the column `pred − y` (the identification function
of the mean functional, i.e. the one-column table of `compute_bias`); the groups of both tables
correspond position by position (same key, same member rows) -/
theorem C10_bias_consistency {α : Type} [BEq α] [LawfulBEq α] (keys : List α) (y pred ws : List K)
    (hy : y.length = keys.length) (hp : pred.length = keys.length)
    (i : Nat) (g d : GroupRow K α)
    (hg : (groupRows keys [y, pred] ws)[i]? = some g)
    (hd : (groupRows keys [List.zipWith (fun p y => p - y) pred y] ws)[i]? = some d) :
    g.key = d.key ∧ g.idx = d.idx ∧ g.count = d.count ∧ g.weights = d.weights ∧
    ∃ sy sp sd, g.stats = [sy, sp] ∧ d.stats = [sd] ∧ sd.mean = sp.mean - sy.mean := by
  rw [tbl_groupRows_eq', List.getElem?_map] at hg hd
  cases hk : (distinctKeys keys)[i]? with
  | none => rw [hk] at hg; cases hg
  | some k =>
    rw [hk] at hg hd
    simp only [Option.map_some, Option.some.injEq] at hg hd
    subst hg; subst hd
    refine ⟨rfl, rfl, rfl, rfl, _, _, _, rfl, rfl, ?_⟩
    have := tbl_group_bias keys y pred ws hy hp k
    simp only [tbl_groupRow, List.map_cons, List.map_nil, List.cons.injEq, and_true] at this
    exact this

/-- both tables have the same number of groups -/
theorem C10_bias_consistency_length {α : Type} [BEq α] (keys : List α) (y pred ws : List K) :
    (groupRows keys [y, pred] ws).length =
      (groupRows keys [List.zipWith (fun p y => p - y) pred y] ws).length := by
  rw [tbl_groupRows_length, tbl_groupRows_length]

/-- bin `i` reports the consecutive entries `(full[i], full[i+1])` of
`full = [min] ++ inner ++ [max]` -/
theorem C10_edges_cover (m : BinMethod) (nBins : Nat) (given : List K) (feature : List (Cell K))
    (r i : Nat) (h : (binNumeric m nBins given feature).bins[r]? = some (some i)) :
    (binNumeric m nBins given feature).edges[r]? =
      some (some ((tbl_full m nBins given feature).getD i .null,
        (tbl_full m nBins given feature).getD (i + 1) .null)) := by
  rw [tbl_binNumeric_edges, List.getElem?_map, h]
  rfl

/-- hence consecutive bins share an edge (no gap, no overlap: bins are left-open), the first edge is
the minimum and the last edge the maximum of the non-null values, and there are
`inner.length + 1` bins -/
theorem C10_edges_span (m : BinMethod) (nBins : Nat) (given : List K) (feature : List (Cell K)) :
    (tbl_full m nBins given feature).getD 0 .null = (cellMin (tbl_nonNull feature)).getD .null ∧
    (tbl_full m nBins given feature).getD ((tbl_inner m nBins given feature).length + 1) .null =
      (cellMax (tbl_nonNull feature)).getD .null ∧
    (tbl_full m nBins given feature).length = (tbl_inner m nBins given feature).length + 2 ∧
    (∀ i, some i ∈ (binNumeric m nBins given feature).bins →
      i ≤ (tbl_inner m nBins given feature).length) := by
  refine ⟨?_, ?_, ?_, tbl_bins_le m nBins given feature⟩
  · simp [tbl_full]
  · simp [tbl_full, List.getD_eq_getElem?_getD]
  · simp [tbl_full]

/-- all edges are weakly increasing: `min ≤ inner[0] ≤ … ≤ max` whenever the interior edges lie in
`[min, max]`; in any case consecutive reported intervals `(full[i], full[i+1]]`, `(full[i+1], full[i+2]]`
share exactly the edge `full[i+1]` -/
theorem C10_edges_consecutive (m : BinMethod) (nBins : Nat) (given : List K) (feature : List (Cell K))
    (r r' i : Nat) (l u l' u' : Cell K)
    (h : (binNumeric m nBins given feature).bins[r]? = some (some i))
    (h' : (binNumeric m nBins given feature).bins[r']? = some (some (i + 1)))
    (he : (binNumeric m nBins given feature).edges[r]? = some (some (l, u)))
    (he' : (binNumeric m nBins given feature).edges[r']? = some (some (l', u'))) :
    u = l' := by
  rw [C10_edges_cover m nBins given feature r i h] at he
  rw [C10_edges_cover m nBins given feature r' (i + 1) h'] at he'
  simp only [Option.some.injEq, Prod.mk.injEq] at he he'
  rw [← he.2, ← he'.1]

/-- in the table: the edges of a numeric group are those of its bin, the null group has none -/
theorem C10_table_edges (m : BinMethod) (nBins : Nat) (given : List K) (feature : List (Cell K))
    (cols : List (List K)) (ws : List K) (eo : Option (List String)) (pooled : Option String)
    (r : OutRow K)
    (hr : r ∈ groupedTable ((binNumeric m nBins given feature).bins.map tbl_numKey) feature
      (binNumeric m nBins given feature).edges cols ws (binNumeric m nBins given feature).nBins eo pooled) :
    r.edges = match r.key with
      | .num i => some ((tbl_full m nBins given feature).getD i .null,
          (tbl_full m nBins given feature).getD (i + 1) .null)
      | _ => none := by
  obtain ⟨g, hg, rfl⟩ := tbl_groupedTable_mem _ _ _ _ _ _ _ _ r hr
  exact tbl_group_edges m nBins given feature cols ws g hg

/-- every member of a numeric bin lies within the reported edges (see `C13_edges_contain`):
`l < x ≤ u`, resp. `l ≤ x ≤ u` in the first bin -/
theorem C10_edges_contain_members (m : BinMethod) (nBins : Nat) (given : List K)
    (feature : List (Cell K)) (hg : m = .numpy → given.Pairwise (· ≤ ·))
    (r i : Nat) (x : Cell K) (hx : feature[r]? = some x)
    (hb : (binNumeric m nBins given feature).bins[r]? = some (some i)) :
    Cell.le x ((tbl_full m nBins given feature).getD (i + 1) .null) = true ∧
    (i = 0 → Cell.le ((tbl_full m nBins given feature).getD i .null) x = true) ∧
    (0 < i → Cell.lt ((tbl_full m nBins given feature).getD i .null) x = true) := by
  have hrow := tbl_bins_row m nBins given feature r x hx
  rw [hb] at hrow
  cases hn : x.isNull with
  | true => simp [hn] at hrow
  | false =>
    simp only [hn, Bool.false_eq_true, if_false, Option.some.injEq] at hrow
    obtain ⟨hlo, hhi⟩ := tbl_lo_hi feature x (List.mem_of_getElem? hx) hn
    have key := tbl_edges_contain (tbl_inner m nBins given feature) _ _ x
      (tbl_inner_sorted_le m nBins given feature hg) (tbl_inner_nonNull m nBins given feature) hlo hhi
    rw [hrow]
    exact key

/-- string-like feature: a key of the table is not a real value of the column iff it is the pooled
name — `compute_marginal` excludes exactly this artificial category from the partial-dependence
grid.  (`hdecl`: the values are among the existing values; automatic for `enumOrder = none`, the
polars invariant "values are declared categories" for an Enum.) -/
theorem C10_pooled_identified (eo : Option (List String)) (nBins : Nat)
    (feature : List (Option String)) (cfeature : List (Cell K))
    (rowEdges : List (Option (Cell K × Cell K))) (cols : List (List K)) (ws : List K)
    (hdecl : ∀ s, some s ∈ feature → s ∈ tbl_existing eo feature)
    (r : OutRow K) (s : String)
    (hr : r ∈ groupedTable ((binString eo nBins feature).bins.map tbl_strKey) cfeature rowEdges cols ws
      (binString eo nBins feature).nBins eo (binString eo nBins feature).pooled)
    (hs : r.key = .str s) :
    some s ∉ feature ↔ (binString eo nBins feature).pooled = some s := by
  obtain ⟨g, hg, rfl⟩ := tbl_groupedTable_mem _ _ _ _ _ _ _ _ r hr
  have hk : g.key ∈ (binString eo nBins feature).bins.map tbl_strKey := by
    have : g.key ∈ (groupRows ((binString eo nBins feature).bins.map tbl_strKey) cols ws).map (·.key) :=
      List.mem_map.2 ⟨g, hg, rfl⟩
    rw [tbl_groupRows_keys, tbl_mem_distinctKeys] at this
    exact this
  have hs' : g.key = .str s := hs
  rw [hs', List.mem_map] at hk
  obtain ⟨o, ho, hos⟩ := hk
  cases o with
  | none => simp [tbl_strKey] at hos
  | some s0 =>
    simp only [tbl_strKey, Key.str.injEq] at hos
    subst hos
    exact tbl_pooled_iff eo nBins feature hdecl s0 ho

/-- `enumOrder = none` (Utf8 / Categorical): no hypothesis needed -/
theorem C10_pooled_identified_utf8 (nBins : Nat)
    (feature : List (Option String)) (cfeature : List (Cell K))
    (rowEdges : List (Option (Cell K × Cell K))) (cols : List (List K)) (ws : List K)
    (r : OutRow K) (s : String)
    (hr : r ∈ groupedTable ((binString none nBins feature).bins.map tbl_strKey) cfeature rowEdges cols ws
      (binString none nBins feature).nBins none (binString none nBins feature).pooled)
    (hs : r.key = .str s) :
    some s ∉ feature ↔ (binString none nBins feature).pooled = some s :=
  C10_pooled_identified none nBins feature cfeature rowEdges cols ws
    (fun s hs => (tbl_mem_distinctVals feature s).2 hs) r s hr hs

/-! ## examples: the hypotheses are satisfiable on concrete inputs -/

/-- `C10_bias_consistency`: columns as long as the key column -/
example : ([1, 2, 3] : List ℚ).length = [Key.num 0, Key.null, Key.num 0].length ∧
    ([2, 2, 5] : List ℚ).length = [Key.num 0, Key.null, Key.num 0].length := ⟨rfl, rfl⟩

/-- `C10_mean_linear` -/
example : (groupStat (List.zipWith (fun p y => p - y) [2, 2, 5] [1, 2, 3]) ([1, 1, 2] : List ℚ)).mean =
    (groupStat [2, 2, 5] [1, 1, 2]).mean - (groupStat [1, 2, 3] [1, 1, 2]).mean :=
  C10_mean_linear _ _ _ rfl

/-- `C10_edges_contain_members` with supplied (`numpy`) edges: they have to be sorted -/
example : ([1, 2] : List ℚ).Pairwise (· ≤ ·) := by simp

/-- `C10_edges_cover`: row 0 of a three-row column -/
example : ∃ i, (binNumeric .uniform 3 [] [Cell.fin (1 : ℚ), .null, .fin 3]).bins[0]? = some (some i) := by
  rw [tbl_bins_row .uniform 3 [] [Cell.fin (1 : ℚ), .null, .fin 3] 0 (.fin 1) rfl]
  exact ⟨_, rfl⟩

/-- `C10_pooled_identified` for an Enum column: the values are declared categories -/
example : ∀ s, some s ∈ [some "a", some "c", none] →
    s ∈ tbl_existing (some ["a", "b", "c"]) [some "a", some "c", none] := by
  intro s hs
  simp at hs
  rcases hs with rfl | rfl <;> simp [tbl_existing]

end MD.Props

/-
`#print axioms` (observed with `lake env lean MD/Props/C10.lean`):
'MD.Props.C10_mean_linear' depends on axioms: [propext, Classical.choice, Quot.sound]
'MD.Props.C10_bias_consistency' depends on axioms: [propext, Classical.choice, Quot.sound]
'MD.Props.C10_bias_consistency_length' depends on axioms: [propext, Quot.sound]
'MD.Props.C10_edges_cover' depends on axioms: [propext, Quot.sound]
'MD.Props.C10_edges_span' depends on axioms: [propext, Classical.choice, Quot.sound]
'MD.Props.C10_edges_consecutive' depends on axioms: [propext, Quot.sound]
'MD.Props.C10_table_edges' depends on axioms: [propext, Classical.choice, Quot.sound]
'MD.Props.C10_edges_contain_members' depends on axioms: [propext, Classical.choice, Quot.sound]
'MD.Props.C10_pooled_identified' depends on axioms: [propext, Classical.choice, Quot.sound]
'MD.Props.C10_pooled_identified_utf8' depends on axioms: [propext, Classical.choice, Quot.sound]
-/
