import MD.Proofs.DecompLemmas

/-! # C07 — invariances of the score decomposition

"The decomposition does not change when the rows of the data set are permuted; integer case weights
give the same result as physically repeating rows (mean and expectile scores); discrimination and
uncertainty do not change when forecasts are replaced by any strictly increasing transformation of
themselves.  Each column of a multi-model forecast matrix gets the same row as if it were passed
alone, and the documented aliases (median = quantile at 0.5, explicit = inferred functional)
agree."

Model: `MD/Model/Decompose.lean` (`decompose`).  Proofs: `MD/Proofs/DecompLemmas.lean`. -/

set_option linter.unusedSectionVars false

namespace MD.Props
variable {K : Type} [Field K] [LinearOrder K] [IsStrictOrderedRing K] [ScoreOps K] [Inhabited K]

/-! ## 1. Columns; aliases -/

/-- **Each column of a forecast matrix gets the row it would get if passed alone** — and conversely
a (non-empty) matrix call succeeds with the collected rows as soon as every single-column call
succeeds. -/
theorem C07_column_independent (sf : SF K) (fn : Option (Option Functional)) (lv : Option K)
    (ys : List K) (cols : List (List K)) (w : Option (List K)) (rows : List (DecompRow K)) :
    (decompose sf fn lv ys cols w = .ok rows →
      rows.length = cols.length ∧
      ∀ i (hi : i < cols.length) (hr : i < rows.length),
        decompose sf fn lv ys [cols[i]] w = .ok [rows[i]]) ∧
    (cols ≠ [] → rows.length = cols.length →
      (∀ i (hi : i < cols.length) (hr : i < rows.length),
        decompose sf fn lv ys [cols[i]] w = .ok [rows[i]]) →
      decompose sf fn lv ys cols w = .ok rows) := by
  constructor
  · intro h
    obtain ⟨_, _, _, _, _, _, _, hrows⟩ := (dec_ok_iff sf fn lv ys cols w rows).mp h
    exact ⟨dec_mapM_length hrows, fun i hi hr => dec_column_independent h i hi hr⟩
  · intro hne hlen h
    exact dec_columns_collect hne hlen h

/-- a failing column makes the matrix call fail: if the single-column call of some column fails,
so does the matrix call -/
theorem C07_column_failure (sf : SF K) (fn : Option (Option Functional)) (lv : Option K)
    (ys : List K) (cols : List (List K)) (w : Option (List K)) (i : Nat) (hi : i < cols.length)
    (e : Err) (h : decompose sf fn lv ys [cols[i]] w = .error e) :
    ∃ e', decompose sf fn lv ys cols w = .error e' := by
  cases hd : decompose sf fn lv ys cols w with
  | error e' => exact ⟨e', rfl⟩
  | ok rows =>
    obtain ⟨_, _, _, _, _, _, _, hrows⟩ := (dec_ok_iff sf fn lv ys cols w rows).mp hd
    have := dec_column_independent hd i hi (by rw [dec_mapM_length hrows]; exact hi)
    rw [h] at this
    cases this

/-- **`functional="median"` is the quantile at level 1/2** — results and errors alike, whatever
`level` is passed along with `"median"` (it is ignored). -/
theorem C07_alias_median (sf : SF K) (lv : Option K) (ys : List K) (cols : List (List K))
    (w : Option (List K)) :
    decompose sf (some (some .median)) lv ys cols w
      = decompose sf (some (some .quantile)) (some (1 / 2)) ys cols w := by
  rw [dec_alias_median, half_eq]

/-- **explicit = inferred**: passing the score's own `functional` and `level` attributes explicitly
gives the same result as leaving both to be inferred — results and errors alike.
(`sfLevel sf = none`, the log loss, stands for `level=None`.) -/
theorem C07_alias_explicit (sf : SF K) (ys : List K) (cols : List (List K)) (w : Option (List K)) :
    decompose sf none none ys cols w
      = decompose sf (some (sfFunctional sf)) (sfLevel sf) ys cols w :=
  dec_alias_explicit sf ys cols w

/-- the functional alone may be made explicit, too -/
theorem C07_alias_explicit_functional (sf : SF K) (lv : Option K) (ys : List K)
    (cols : List (List K)) (w : Option (List K)) :
    decompose sf none lv ys cols w = decompose sf (some (sfFunctional sf)) lv ys cols w := by
  rw [dec_eq sf none lv, dec_eq sf (some (sfFunctional sf)) lv]
  rfl

/-- for the mean functional the level is irrelevant -/
theorem C07_mean_level_irrelevant (sf : SF K) (l l' : Option K) (ys : List K)
    (cols : List (List K)) (w : Option (List K)) :
    decompose sf (some (some .mean)) l ys cols w = decompose sf (some (some .mean)) l' ys cols w := by
  have hv : ∀ l : Option K, dec_validate sf (some (some .mean)) l
      = .ok (Functional.mean, (match l with | some a => a | none => half)) := by
    intro l
    unfold dec_validate
    cases l <;> rfl
  rw [dec_eq_of_validate (hv l), dec_eq_of_validate (hv l')]
  exact congrArg (fun t => dec_shape ys cols w >>= fun _ => t)
    (dec_stages_mean_level sf _ _ ys cols w)

end MD.Props
