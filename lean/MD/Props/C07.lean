import MD.Proofs.DecompLemmas
import Mathlib.Tactic.NormNum

/-! # C07 — invariances of the score decomposition

"The decomposition does not change when the rows of the data set are permuted; integer case weights
give the same result as physically repeating rows (mean and expectile scores); discrimination and
uncertainty do not change when forecasts are replaced by any strictly increasing transformation of
themselves.  Each column of a multi-model forecast matrix gets the same row as if it were passed
alone, and the documented aliases (median = quantile at 0.5, explicit = inferred functional)
agree."

Model: `MD/Model/Decompose.lean` (`decompose`).  Proofs: `MD/Proofs/DecompLemmas.lean`. -/

set_option linter.unusedSectionVars false

namespace MD.Props
variable {K : Type} [Field K] [LinearOrder K] [IsStrictOrderedRing K] [ScoreOps K] [Inhabited K]

/-! ## 1. Columns; aliases -/

/-- **Each column of a forecast matrix gets the row it would get if passed alone** — and conversely
a (non-empty) matrix call succeeds with the collected rows as soon as every single-column call
succeeds. -/
theorem C07_column_independent (sf : SF K) (fn : Option (Option Functional)) (lv : Option K)
    (ys : List K) (cols : List (List K)) (w : Option (List K)) (rows : List (DecompRow K)) :
    (decompose sf fn lv ys cols w = .ok rows →
      rows.length = cols.length ∧
      ∀ i (hi : i < cols.length) (hr : i < rows.length),
        decompose sf fn lv ys [cols[i]] w = .ok [rows[i]]) ∧
    (cols ≠ [] → rows.length = cols.length →
      (∀ i (hi : i < cols.length) (hr : i < rows.length),
        decompose sf fn lv ys [cols[i]] w = .ok [rows[i]]) →
      decompose sf fn lv ys cols w = .ok rows) := by
  constructor
  · intro h
    obtain ⟨_, _, _, _, _, _, _, hrows⟩ := (dec_ok_iff sf fn lv ys cols w rows).mp h
    exact ⟨dec_mapM_length hrows, fun i hi hr => dec_column_independent h i hi hr⟩
  · intro hne hlen h
    exact dec_columns_collect hne hlen h

/-- a failing column makes the matrix call fail: if the single-column call of some column fails,
so does the matrix call -/
theorem C07_column_failure (sf : SF K) (fn : Option (Option Functional)) (lv : Option K)
    (ys : List K) (cols : List (List K)) (w : Option (List K)) (i : Nat) (hi : i < cols.length)
    (e : Err) (h : decompose sf fn lv ys [cols[i]] w = .error e) :
    ∃ e', decompose sf fn lv ys cols w = .error e' := by
  cases hd : decompose sf fn lv ys cols w with
  | error e' => exact ⟨e', rfl⟩
  | ok rows =>
    obtain ⟨_, _, _, _, _, _, _, hrows⟩ := (dec_ok_iff sf fn lv ys cols w rows).mp hd
    have := dec_column_independent hd i hi (by rw [dec_mapM_length hrows]; exact hi)
    rw [h] at this
    cases this

/-- **`functional="median"` is the quantile at level 1/2** — results and errors alike, whatever
`level` is passed along with `"median"` (it is ignored). -/
theorem C07_alias_median (sf : SF K) (lv : Option K) (ys : List K) (cols : List (List K))
    (w : Option (List K)) :
    decompose sf (some (some .median)) lv ys cols w
      = decompose sf (some (some .quantile)) (some (1 / 2)) ys cols w := by
  rw [dec_alias_median, half_eq]

/-- **explicit = inferred**: passing the score's own `functional` and `level` attributes explicitly
gives the same result as leaving both to be inferred — results and errors alike.
(`sfLevel sf = none`, the log loss, stands for `level=None`.) -/
theorem C07_alias_explicit (sf : SF K) (ys : List K) (cols : List (List K)) (w : Option (List K)) :
    decompose sf none none ys cols w
      = decompose sf (some (sfFunctional sf)) (sfLevel sf) ys cols w :=
  dec_alias_explicit sf ys cols w

/-- the functional alone may be made explicit, too -/
theorem C07_alias_explicit_functional (sf : SF K) (lv : Option K) (ys : List K)
    (cols : List (List K)) (w : Option (List K)) :
    decompose sf none lv ys cols w = decompose sf (some (sfFunctional sf)) lv ys cols w := by
  rw [dec_eq sf none lv, dec_eq sf (some (sfFunctional sf)) lv]
  rfl

/-- for the mean functional the level is irrelevant -/
theorem C07_mean_level_irrelevant (sf : SF K) (l l' : Option K) (ys : List K)
    (cols : List (List K)) (w : Option (List K)) :
    decompose sf (some (some .mean)) l ys cols w = decompose sf (some (some .mean)) l' ys cols w := by
  have hv : ∀ l : Option K, dec_validate sf (some (some .mean)) l
      = .ok (Functional.mean, (match l with | some a => a | none => half)) := by
    intro l
    unfold dec_validate
    cases l <;> rfl
  rw [dec_eq_of_validate (hv l), dec_eq_of_validate (hv l')]
  exact congrArg (fun t => dec_shape ys cols w >>= fun _ => t)
    (dec_stages_mean_level sf _ _ ys cols w)

/-! ## 2. Row order -/


/-! ### scoring function given as a plain callable (no `functional` / `level` attribute) -/

/-- with functional and level passed explicitly a plain callable is treated exactly like the score object -/
theorem C07_plain_callable_explicit (sf : SF K) (fn : Option Functional) (l : K) (ys : List K)
    (cols : List (List K)) (w : Option (List K)) :
    decomposePlain sf (some fn) (some l) ys cols w = decompose sf (some fn) (some l) ys cols w := rfl

/-- `functional=None` cannot be inferred from a plain callable: `ValueError`, no table -/
theorem C07_plain_callable_needs_functional (sf : SF K) (lv : Option K) (ys : List K)
    (cols : List (List K)) (w : Option (List K)) :
    decomposePlain sf none lv ys cols w = .error Err.valueError := rfl

/-- nor can the level, for the two functionals that need one -/
theorem C07_plain_callable_needs_level (sf : SF K) (fn : Option Functional)
    (h : fn = some .expectile ∨ fn = some .quantile) (ys : List K) (cols : List (List K)) (w : Option (List K)) :
    decomposePlain sf (some fn) none ys cols w = .error Err.valueError := by
  simp [decomposePlain, h]; rfl

/-- for the mean and the median no level is needed -/
theorem C07_plain_callable_default_level (sf : SF K) (fn : Option Functional)
    (h : ¬ (fn = some .expectile ∨ fn = some .quantile)) (ys : List K) (cols : List (List K)) (w : Option (List K)) :
    decomposePlain sf (some fn) none ys cols w = decompose sf (some fn) (some half) ys cols w := by
  simp [decomposePlain, h]

/-- **a callable wrapped around a score object, called with the object's own functional and level, gives the
object's decomposition** (results and errors alike) -/
theorem C07_plain_callable_agrees_with_object (sf : SF K) (ys : List K) (cols : List (List K))
    (w : Option (List K)) :
    decomposePlain sf (some (sfFunctional sf)) (sfLevel sf) ys cols w = decompose sf none none ys cols w := by
  rw [C07_alias_explicit]
  cases hl : sfLevel sf with
  | some l => rfl
  | none =>
    have hf : sfFunctional sf = some .mean := by
      unfold sfLevel at hl
      unfold sfFunctional
      cases he : sf.elem with
      | some p => simp [he] at hl
      | none =>
        simp only [he] at hl ⊢
        cases hk : sf.kind <;> simp [hk] at hl ⊢
    rw [hf]
    have : decomposePlain sf (some (some Functional.mean)) none ys cols w
        = decompose sf (some (some .mean)) (some half) ys cols w := by
      simp [decomposePlain]
    rw [this]
    exact C07_mean_level_irrelevant sf _ _ ys cols w

/-- **The decomposition does not change when the rows of the data set are permuted** — every score
object (library scores and `ElementaryScore`), every functional, with or without weights, and
including the *domain repair* that is applied when `min y` is not an admissible prediction.
`fit_rows X y w` is the list of rows `(X[i], y[i], w[i])` (`w[i] = 1` without weights); the two
data sets are related by an arbitrary permutation of these rows.  Both calls are assumed to succeed
(the two probes `y[0] == marginal == y[-1]` and `scoring_function(y[:1], min y, w[:1])` look at
particular rows, so *which* error a bad data set raises may depend on the order).

Ingredients: the fitted model is the same (`C11_row_order_free`); the `yminAllowed` flag is the
same because the pairs a score accepts form a rectangle (`dec_sfOK_rect`, `dec_flags_eq`); the
repair selects rows by value, so the repaired forecast is the same function of the forecast
(`dec_recal_perm`); the marginal functional is order-free (`dec_T_perm`); weighted averages are
sums over rows. -/
theorem C07_perm (sf : SF K) (fn : Option (Option Functional)) (lv : Option K)
    (X₁ y₁ X₂ y₂ : List K) (w₁ w₂ : Option (List K)) (hsome : w₁.isSome = w₂.isSome)
    (hperm : (fit_rows X₁ y₁ w₁).Perm (fit_rows X₂ y₂ w₂)) (r₁ r₂ : DecompRow K)
    (h₁ : decompose sf fn lv y₁ [X₁] w₁ = .ok [r₁]) (h₂ : decompose sf fn lv y₂ [X₂] w₂ = .ok [r₂]) :
    r₁ = r₂ :=
  dec_decompose_perm' sf fn lv hsome hperm h₁ h₂

/-- the same for a forecast matrix: corresponding columns get equal rows -/
theorem C07_perm_matrix (sf : SF K) (fn : Option (Option Functional)) (lv : Option K)
    (y₁ y₂ : List K) (cols₁ cols₂ : List (List K)) (w₁ w₂ : Option (List K))
    (hsome : w₁.isSome = w₂.isSome) (rows₁ rows₂ : List (DecompRow K))
    (h₁ : decompose sf fn lv y₁ cols₁ w₁ = .ok rows₁)
    (h₂ : decompose sf fn lv y₂ cols₂ w₂ = .ok rows₂)
    (i : Nat) (hi₁ : i < cols₁.length) (hi₂ : i < cols₂.length)
    (hr₁ : i < rows₁.length) (hr₂ : i < rows₂.length)
    (hperm : (fit_rows cols₁[i] y₁ w₁).Perm (fit_rows cols₂[i] y₂ w₂)) :
    rows₁[i] = rows₂[i] :=
  dec_decompose_perm' sf fn lv hsome hperm (dec_column_independent h₁ i hi₁ hr₁)
    (dec_column_independent h₂ i hi₂ hr₂)

/-- the mean functional as a special case of the order-freeness of the marginal: `np.average` -/
theorem C07_perm_marginal (f : Functional) (lv : K) (hm : f ≠ .median)
    (X₁ y₁ X₂ y₂ : List K) (w₁ w₂ : Option (List K)) (tx ty tx' ty' : List K)
    (hf₁ : isoFit (some f) lv true X₁ y₁ w₁ = .ok (tx, ty))
    (hf₂ : isoFit (some f) lv true X₂ y₂ w₂ = .ok (tx', ty'))
    (hperm : (fit_rows X₁ y₁ w₁).Perm (fit_rows X₂ y₂ w₂)) (m₁ m₂ : K)
    (h₁ : functionalVal f lv y₁ w₁ = .ok m₁) (h₂ : functionalVal f lv y₂ w₂ = .ok m₂) : m₁ = m₂ :=
  dec_functionalVal_perm hm hf₁ hf₂ hperm h₁ h₂

/-! ## 3. Strictly increasing transformations of the forecasts -/

/-- **Discrimination and uncertainty do not change when the forecasts are replaced by a strictly
increasing transformation of themselves** — every score object, functional, weights; domain repair
included.  The recalibrated forecasts are literally the same list (`dec_recal_relabel`): the sort
order of the rows, hence the isotonic fit, is unchanged, and the prediction function is only
evaluated at training points. -/
theorem C07_monotone_relabel (sf : SF K) (fn : Option (Option Functional)) (lv : Option K)
    (φ : K → K) (hφ : StrictMono φ) (X y : List K) (w : Option (List K)) (r r' : DecompRow K)
    (h : decompose sf fn lv y [X] w = .ok [r])
    (h' : decompose sf fn lv y [X.map φ] w = .ok [r']) : r.dsc = r'.dsc ∧ r.unc = r'.unc :=
  dec_decompose_relabel sf fn lv hφ h h'

/-- the transformed call succeeds as soon as the transformed forecasts can be scored -/
theorem C07_monotone_relabel_ok (sf : SF K) (fn : Option (Option Functional)) (lv : Option K)
    (φ : K → K) (hφ : StrictMono φ) (X y : List K) (w : Option (List K)) (r : DecompRow K)
    (h : decompose sf fn lv y [X] w = .ok [r]) (s' : K)
    (hs' : sfMean sf y (X.map φ) w = .ok s') :
    ∃ r', decompose sf fn lv y [X.map φ] w = .ok [r'] ∧ r.dsc = r'.dsc ∧ r.unc = r'.unc := by
  obtain ⟨r', h'⟩ := dec_decompose_relabel_ok sf fn lv hφ h hs'
  exact ⟨r', h', dec_decompose_relabel sf fn lv hφ h h'⟩

/-- the recalibrated forecasts themselves are unchanged -/
theorem C07_recal_relabel (f : Functional) (lv : K) (φ : K → K) (hφ : StrictMono φ)
    (X y : List K) (w : Option (List K)) (tx ty tx' ty' : List K)
    (h : isoFit (some f) lv true X y w = .ok (tx, ty))
    (h' : isoFit (some f) lv true (X.map φ) y w = .ok (tx', ty')) :
    (X.map φ).map (interp tx' ty') = X.map (interp tx ty) :=
  dec_recal_relabel hφ h h'

/-- matrix form -/
theorem C07_monotone_relabel_matrix (sf : SF K) (fn : Option (Option Functional)) (lv : Option K)
    (φ : K → K) (hφ : StrictMono φ) (y : List K) (cols : List (List K)) (w : Option (List K))
    (rows rows' : List (DecompRow K)) (h : decompose sf fn lv y cols w = .ok rows)
    (h' : decompose sf fn lv y (cols.map (List.map φ)) w = .ok rows')
    (i : Nat) (hi : i < cols.length) (hr : i < rows.length) (hr' : i < rows'.length) :
    rows[i].dsc = rows'[i].dsc ∧ rows[i].unc = rows'[i].unc := by
  have h1 := dec_column_independent h i hi hr
  have h2 := dec_column_independent h' i (by simpa using hi) hr'
  rw [List.getElem_map] at h2
  exact dec_decompose_relabel sf fn lv hφ h1 h2

/-! ## 4. Case weights: integer weights = repeated rows (mean and expectile) -/

/-- **Integer case weights give the same result as physically repeating rows** — for every score
object whose effective functional is the mean or an expectile; the domain repair (when `min y` is
not an admissible prediction) is covered.  `dec_rep l n` repeats the `i`-th entry of `l` `n[i]`
times; the weighted call uses `weights = n`, the replicated call no weights.  Both calls are
assumed to succeed.

Why the fits agree (`dec_fit_wequiv`): both fitted models are monotone functions of the forecast,
each is optimal for its sample among such functions (C11), the two objectives coincide on functions
of the forecast, and the minimiser is unique (strict convexity: `C01_unique`, `C03_unique`).  The
repair selects rows by value and replaces them by a functional that only depends on weighted sums
(`dec_recal_wequiv`). -/
theorem C07_replication (sf : SF K) (fn : Option (Option Functional)) (lv : Option K)
    (X y : List K) (n : List Nat) (f : Functional) (lv' : K)
    (hv : dec_validate sf fn lv = .ok (f, lv')) (hme : f = .mean ∨ f = .expectile)
    (r r' : DecompRow K)
    (h : decompose sf fn lv y [X] (some (n.map fun k : Nat => (k : K))) = .ok [r])
    (h' : decompose sf fn lv (dec_rep y n) [dec_rep X n] none = .ok [r']) : r = r' := by
  obtain ⟨_, _, _, _, _, hsh, _, _⟩ := (dec_ok_iff sf fn lv y [X] _ [r]).mp h
  obtain ⟨hc, hw, _⟩ := (dec_shape_ok y [X] _).mp hsh
  have hn : n.length = y.length := by simpa using hw _ rfl
  exact dec_decompose_wequiv_full sf fn lv (dec_WEquiv_rep X y n (hc X (by simp)) hn) hv hme h h'

/-- the general principle behind it: **the decomposition only depends on the weighted information
in the sample** (`dec_WEquiv`: all weighted row sums `Σ w·Φ(x, y)` agree) — permuting rows,
splitting the weight of a row over several copies, merging identical rows by adding their
weights. -/
theorem C07_weight_aggregation (sf : SF K) (fn : Option (Option Functional)) (lv : Option K)
    (X₁ y₁ X₂ y₂ : List K) (w₁ w₂ : Option (List K))
    (heq : dec_WEquiv (fit_rows X₁ y₁ w₁) (fit_rows X₂ y₂ w₂))
    (f : Functional) (lv' : K) (hv : dec_validate sf fn lv = .ok (f, lv'))
    (hme : f = .mean ∨ f = .expectile)
    (r₁ r₂ : DecompRow K) (h₁ : decompose sf fn lv y₁ [X₁] w₁ = .ok [r₁])
    (h₂ : decompose sf fn lv y₂ [X₂] w₂ = .ok [r₂]) : r₁ = r₂ :=
  dec_decompose_wequiv_full sf fn lv heq hv hme h₁ h₂

/-- integer weights carry the same weighted information as repeated rows -/
theorem C07_replication_is_aggregation (X y : List K) (n : List Nat) (hX : X.length = y.length)
    (hn : n.length = y.length) :
    dec_WEquiv (fit_rows X y (some (n.map fun k : Nat => (k : K))))
      (fit_rows (dec_rep X n) (dec_rep y n) none) :=
  dec_WEquiv_rep X y n hX hn

/-- squared error: integer weights = repeated rows -/
theorem C07_replication_squared_error (sf : SF K) (hk : sf.kind = .squaredError)
    (he : sf.elem = none) (X y : List K) (n : List Nat) (r r' : DecompRow K)
    (h : decompose sf none none y [X] (some (n.map fun k : Nat => (k : K))) = .ok [r])
    (h' : decompose sf none none (dec_rep y n) [dec_rep X n] none = .ok [r']) : r = r' := by
  obtain ⟨l, hv⟩ := dec_validate_sq sf hk he none (Or.inl rfl) none
  exact C07_replication sf none none X y n .mean l hv (Or.inl rfl) r r' h h'

/-! ## Non-vacuity -/

section Examples
/-- `ScoreOps` on `ℚ` for the examples (the squared error calls none of these operations) -/
local instance c07DummyOps : ScoreOps ℚ := ⟨fun a _ => a, id, abs, fun _ => False, fun _ => inferInstance⟩

/-- `C07_column_independent`: a successful matrix call with three columns -/
example : ∃ rows, decompose (⟨.squaredError, 0, 1 / 2, none⟩ : SF ℚ) none none [0, 0, 1, 1]
    [[-1, 1, 1, 2], [3, 3, 3, 3], [4, 3, 2, 1]] none = .ok rows :=
  dec_decompose_sq_ok _ rfl rfl none (Or.inl rfl) none _ _ _ (by simp) (by simp) (by simp)
    (by simp [dec_wts])

/-- `C07_perm`: a genuine permutation of weighted rows (with a tie in the forecast), … -/
example : (fit_rows [1, 1, 2] [3, 0, 1] (some [1, 5, 2]) : List (Row ℚ)).Perm
    (fit_rows [1, 2, 1] [0, 1, 3] (some [5, 2, 1])) := by
  show ([⟨1, 3, 1⟩] ++ [⟨1, 0, 5⟩, ⟨2, 1, 2⟩] : List (Row ℚ)).Perm
    ([⟨1, 0, 5⟩, ⟨2, 1, 2⟩] ++ [⟨1, 3, 1⟩])
  exact List.perm_append_comm

/-- … and both arrangements are decomposed successfully -/
example : (∃ r, decompose (⟨.squaredError, 0, 1 / 2, none⟩ : SF ℚ) none none [3, 0, 1] [[1, 1, 2]]
      (some [1, 5, 2]) = .ok r) ∧
    (∃ r, decompose (⟨.squaredError, 0, 1 / 2, none⟩ : SF ℚ) none none [0, 1, 3] [[1, 2, 1]]
      (some [5, 2, 1]) = .ok r) :=
  ⟨dec_decompose_sq_ok _ rfl rfl none (Or.inl rfl) none _ _ _ (by simp) (by simp) (by simp)
      (by simp [dec_wts]),
   dec_decompose_sq_ok _ rfl rfl none (Or.inl rfl) none _ _ _ (by simp) (by simp) (by simp)
      (by simp [dec_wts])⟩

/-- `C07_monotone_relabel`: a strictly increasing map, and both calls succeed -/
example : StrictMono (fun x : ℚ => 2 * x + 1) := fun a b h => by
  show 2 * a + 1 < 2 * b + 1
  linarith

example : (∃ r, decompose (⟨.squaredError, 0, 1 / 2, none⟩ : SF ℚ) none none [0, 0, 1, 1]
      [[-1, 1, 1, 2]] none = .ok r) ∧
    (∃ r, decompose (⟨.squaredError, 0, 1 / 2, none⟩ : SF ℚ) none none [0, 0, 1, 1]
      [([-1, 1, 1, 2] : List ℚ).map (fun x => 2 * x + 1)] none = .ok r) :=
  ⟨dec_decompose_sq_ok _ rfl rfl none (Or.inl rfl) none _ _ _ (by simp) (by simp) (by simp)
      (by simp [dec_wts]),
   dec_decompose_sq_ok _ rfl rfl none (Or.inl rfl) none _ _ _ (by simp) (by simp) (by simp)
      (by simp [dec_wts])⟩

/-- `C07_replication`: integer weights `[1, 3, 2]` against six physical rows -/
example : dec_rep ([5, 7, 6] : List ℚ) [1, 3, 2] = [5, 7, 7, 7, 6, 6] := by
  simp [dec_rep, List.replicate]

example : (∃ r, decompose (⟨.squaredError, 0, 1 / 2, none⟩ : SF ℚ) none none [3, 0, 1] [[1, 1, 2]]
      (some (([1, 3, 2] : List Nat).map fun k : Nat => (k : ℚ))) = .ok r) ∧
    (∃ r, decompose (⟨.squaredError, 0, 1 / 2, none⟩ : SF ℚ) none none
      (dec_rep [3, 0, 1] [1, 3, 2]) [dec_rep [1, 1, 2] [1, 3, 2]] none = .ok r) :=
  ⟨dec_decompose_sq_ok _ rfl rfl none (Or.inl rfl) none _ _ _ (by simp) (by simp) (by simp)
      (by simp [dec_wts]),
   dec_decompose_sq_ok _ rfl rfl none (Or.inl rfl) none _ _ _ (by simp [dec_rep])
      (by simp [dec_rep]) (by simp) (by simp [dec_wts])⟩

end Examples

end MD.Props

/-
Sanity checks (`#eval`, not part of the proofs).  At `Float`, Poisson deviance with zero counts, so
that the domain repair is exercised (`(mcb, dsc, unc, score)`):
  decompose po none none [0,1,2,0,3] [[1,2,3,0.5,2.5]] none   = ok [(0.337439, 0.955565, 1.435281, 0.817155)]
  decompose po none none [3,0,2,1,0] [[2.5,0.5,3,2,1]] none   = ok [(0.337439, 0.955565, 1.435281, 0.817155)]   -- rows permuted
  decompose po none none [0,1,2,0,3] [[1,2,3,0.5,2.5]] (some [2,1,3,1,2])
                                                              = ok [(0.408170, 0.964202, 1.326697, 0.770665)]
  decompose po none none [0,0,1,2,2,2,0,3,3] [[1,1,2,3,3,3,0.5,2.5,2.5]] none
                                                              = ok [(0.408170, 0.964202, 1.326697, 0.770665)]   -- rows repeated
At `Rat`, squared error:
  decompose sq none none [0,0,1,1] [[-1,1,1,2]] none          = ok [(5/8, 1/8, 1/4, 3/4)]
  decompose sq none none [0,0,1,1] [[-1,3,3,5]] none          = ok [(59/8, 1/8, 1/4, 15/2)]   -- x ↦ 2x+1
  decompose pinball(1/2) with functional none / median / median + level 7 / quantile + level 1/2
      on [0,0,1,1,5], [[-1,1,1,2,0]]                          = ok [(3/10, 1/10, 3/5, 4/5)]  (all four)
-/

/-
`#print axioms` (observed with `lake env lean`):
'MD.Props.C07_column_independent' depends on axioms: [propext, Classical.choice, Quot.sound]
'MD.Props.C07_column_failure' depends on axioms: [propext, Classical.choice, Quot.sound]
'MD.Props.C07_alias_median' depends on axioms: [propext, Classical.choice, Quot.sound]
'MD.Props.C07_alias_explicit' depends on axioms: [propext, Quot.sound]
'MD.Props.C07_alias_explicit_functional' depends on axioms: [propext, Quot.sound]
'MD.Props.C07_mean_level_irrelevant' depends on axioms: [propext, Quot.sound]
'MD.Props.C07_perm' depends on axioms: [propext, Classical.choice, Quot.sound]
'MD.Props.C07_perm_matrix' depends on axioms: [propext, Classical.choice, Quot.sound]
'MD.Props.C07_perm_marginal' depends on axioms: [propext, Classical.choice, Quot.sound]
'MD.Props.C07_monotone_relabel' depends on axioms: [propext, Classical.choice, Quot.sound]
'MD.Props.C07_monotone_relabel_ok' depends on axioms: [propext, Classical.choice, Quot.sound]
'MD.Props.C07_recal_relabel' depends on axioms: [propext, Classical.choice, Quot.sound]
'MD.Props.C07_monotone_relabel_matrix' depends on axioms: [propext, Classical.choice, Quot.sound]
'MD.Props.C07_replication' depends on axioms: [propext, Classical.choice, Quot.sound]
'MD.Props.C07_weight_aggregation' depends on axioms: [propext, Classical.choice, Quot.sound]
'MD.Props.C07_replication_is_aggregation' depends on axioms: [propext, Classical.choice, Quot.sound]
'MD.Props.C07_replication_squared_error' depends on axioms: [propext, Classical.choice, Quot.sound]
-/
