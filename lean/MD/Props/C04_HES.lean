import MD.Proofs.ScoreHES

/-! # C04 (expectile family) and C14 (named special cases) at `K = ℝ`

`hes h α y z` is the model of `HomogeneousExpectileScore(degree=h, level=α).score_per_obs` for one
(observation `y`, prediction `z`) pair (`MD/Model/Score.lean`), interpreted over `ℝ` with
`np.power ↦ Real.rpow`, `np.log ↦ Real.log`, `np.abs ↦ |·|` (`MD/Proofs/ScoreReal.lean`).
Helper lemmas live in `MD/Proofs/ScoreHES.lean`.  All theorems hold for **every real degree** `h`
and every level `0 < α < 1`.

* `hesDom h y z` — the pairs the code accepts: all reals for `h > 1` (including `h = 2`),
  `y ≥ 0 ∧ z > 0` for `0 < h ≤ 1`, `y > 0 ∧ z > 0` for `h ≤ 0`.  Outside: `ValueError`.
* value on the domain: `hesAsym α y z * hesBase h y z`, where `hesBase` is the branch-by-branch
  expression of the code and `hesAsym α y z = 1` for `α = 1/2`, else `2|1{z ≥ y} − α|`;
  `hesBase h y z = 2 * hesBreg h y z`, the Bregman divergence of `hesPhi h` (see `hesPhi_def`).

Consequences worth knowing (true of the model, i.e. of the code):
* "zero at perfect forecasts" needs the pair to be in the domain: for `h ≤ 1` a perfect forecast
  of `y = 0` (e.g. a Poisson count of zero predicted as zero) is a `ValueError`, not a zero score
  (`C04_hes_zero_zero_rejected`).
* no boundary anomaly: at `z = 0`, `h > 1` (`0^(h-1) = 0`) and at `y = 0`, `0 < h < 1` (`0^h = 0`)
  the `Real.rpow` conventions give the mathematically expected values, and all statements hold. -/

set_option linter.unusedSectionVars false

namespace MD
open Real

/-! ## definitions restated -/

theorem hesDom_def (h y z : ℝ) :
    hesDom h y z ↔ 1 < h ∨ (0 < h ∧ 0 ≤ y ∧ 0 < z) ∨ (0 < y ∧ 0 < z) := by
  unfold hesDom
  split_ifs with h1 h0
  · simp [h1]
  · constructor
    · intro d; exact Or.inr (Or.inl ⟨h0, d⟩)
    · rintro (a | ⟨_, d⟩ | ⟨a, b⟩)
      · exact absurd a h1
      · exact d
      · exact ⟨a.le, b⟩
  · constructor
    · intro d; exact Or.inr (Or.inr d)
    · rintro (a | ⟨a, _⟩ | d)
      · exact absurd a h1
      · exact absurd a h0
      · exact d

theorem hesDom_gt_one {h : ℝ} (h1 : 1 < h) (y z : ℝ) : hesDom h y z := by
  unfold hesDom; rw [if_pos h1]; trivial

theorem hesDom_pos_le_one {h : ℝ} (h0 : 0 < h) (h1 : h ≤ 1) (y z : ℝ) :
    hesDom h y z ↔ 0 ≤ y ∧ 0 < z := by
  unfold hesDom; rw [if_neg (not_lt.mpr h1), if_pos h0]

theorem hesDom_nonpos {h : ℝ} (h0 : h ≤ 0) (y z : ℝ) : hesDom h y z ↔ 0 < y ∧ 0 < z := by
  unfold hesDom; rw [if_neg (by intro h1; linarith), if_neg (not_lt.mpr h0)]

theorem hesAsym_def (α y z : ℝ) :
    hesAsym α y z = if α = 1 / 2 then 1 else 2 * |(if y ≤ z then (1 : ℝ) else 0) - α| := rfl

theorem hesAsym_half (y z : ℝ) : hesAsym (1 / 2) y z = 1 := by simp [hesAsym]

theorem hesPhi_def (h x : ℝ) :
    hesPhi h x = if 1 < h then |x| ^ h / (h * (h - 1))
      else if h = 1 then x * Real.log x - x
      else if h = 0 then - Real.log x
      else x ^ h / (h * (h - 1)) := rfl

theorem hesPhi'_def (h x : ℝ) :
    hesPhi' h x = if 1 < h then sgn x / (h - 1) * |x| ^ (h - 1)
      else if h = 1 then Real.log x
      else if h = 0 then - (1 / x)
      else 1 / (h - 1) * x ^ (h - 1) := rfl

theorem hesBreg_def (h y z : ℝ) :
    hesBreg h y z = hesPhi h y - hesPhi h z - hesPhi' h z * (y - z) := rfl

/-- the base score (level `1/2`), branch by branch as in the code -/
theorem hesBase_two (y z : ℝ) : hesBase 2 y z = (z - y) ^ 2 := by
  unfold hesBase; rw [if_pos rfl]; ring

theorem hesBase_gt_one {h : ℝ} (h1 : 1 < h) (h2 : h ≠ 2) (y z : ℝ) :
    hesBase h y z = 2 * ((|y| ^ h - |z| ^ h) / (h * (h - 1))
      - sgn z / (h - 1) * |z| ^ (h - 1) * (y - z)) := by
  unfold hesBase; rw [if_neg h2, if_pos h1]

theorem hesBase_one (y z : ℝ) : hesBase 1 y z = 2 * (xlogy y (y / z) - y + z) := by
  unfold hesBase
  rw [if_neg (by norm_num), if_neg (lt_irrefl _), if_pos rfl]

theorem hesBase_zero (y z : ℝ) : hesBase 0 y z = 2 * (y / z - Real.log (y / z) - 1) := by
  unfold hesBase
  rw [if_neg (by norm_num), if_neg (by norm_num), if_neg (by norm_num), if_pos rfl]

theorem hesBase_lt_one {h : ℝ} (h1 : h < 1) (h0 : h ≠ 0) (y z : ℝ) :
    hesBase h y z = 2 * ((y ^ h - z ^ h) / (h * (h - 1))
      - 1 / (h - 1) * z ^ (h - 1) * (y - z)) := by
  unfold hesBase
  rw [if_neg (by intro e; linarith), if_neg (by intro e; linarith), if_neg h1.ne, if_neg h0]

/-! ## C04 — domain -/

/-- out-of-domain pairs are rejected with `ValueError` (every level, every degree) -/
theorem C04_hes_domain_rejected (h α y z : ℝ) (nd : ¬ hesDom h y z) :
    hes h α y z = .error .valueError := hes_error nd

/-- closed form of the score on the domain: asymmetry factor × base score of the code -/
theorem hes_closed (h α y z : ℝ) (d : hesDom h y z) :
    hes h α y z = .ok (hesAsym α y z * hesBase h y z) := hes_eq_base d

/-- closed form of the score on the domain: asymmetry factor × 2 × Bregman divergence -/
theorem hes_closed_bregman (h α y z : ℝ) (d : hesDom h y z) :
    hes h α y z = .ok (hesAsym α y z * (2 * hesBreg h y z)) := hes_eq_breg d

/-- in-domain pairs are scored -/
theorem C04_hes_ok (h α y z : ℝ) (d : hesDom h y z) : ∃ v, hes h α y z = .ok v :=
  ⟨_, hes_eq_base d⟩

/-- the call succeeds exactly on the domain -/
theorem C04_hes_ok_iff (h α y z : ℝ) : (∃ v, hes h α y z = .ok v) ↔ hesDom h y z := by
  constructor
  · rintro ⟨v, e⟩; exact hes_ok_dom e
  · exact C04_hes_ok h α y z

/-- the class constructor rejects levels outside `(0,1)` -/
theorem C04_hes_level_rejected (h α y z : ℝ) (hα : ¬ (0 < α ∧ α < 1)) :
    scorePair .hes h α y z = .error .valueError := by
  have hα' : ¬ levelOk α := hα
  show (if levelOk α then hes h α y z else throw Err.valueError) = _
  rw [if_neg hα']; rfl

theorem C04_scorePair_hes (h α y z : ℝ) (hα0 : 0 < α) (hα1 : α < 1) :
    scorePair .hes h α y z = hes h α y z := by
  have hα' : levelOk α := ⟨hα0, hα1⟩
  show (if levelOk α then hes h α y z else throw Err.valueError) = _
  rw [if_pos hα']

example : hesDom 3 (-1) 0 := hesDom_gt_one (by norm_num) _ _
example : hesDom 1 0 1 := (hesDom_pos_le_one one_pos le_rfl _ _).2 ⟨le_rfl, one_pos⟩
example : hesDom (1 / 2) 0 1 :=
  (hesDom_pos_le_one (by norm_num) (by norm_num) _ _).2 ⟨le_rfl, one_pos⟩
example : hesDom (-1) 1 2 := (hesDom_nonpos (by norm_num) _ _).2 ⟨one_pos, two_pos⟩
example : ¬ hesDom 0 0 1 := fun d => lt_irrefl _ ((hesDom_nonpos le_rfl _ _).1 d).1
example : ¬ hesDom 1 1 0 := fun d => lt_irrefl _ ((hesDom_pos_le_one one_pos le_rfl _ _).1 d).2

/-! ## C04 — non-negativity, zero at perfect forecasts, strict positivity -/

/-- every returned score is non-negative -/
theorem C04_hes_nonneg (h α y z v : ℝ) (hα0 : 0 < α) (hα1 : α < 1) (e : hes h α y z = .ok v) :
    0 ≤ v := by
  have d := hes_ok_dom e
  rw [hes_eq_breg d] at e
  cases e
  exact mul_nonneg (hesAsym_pos ⟨hα0, hα1⟩ y z).le (mul_nonneg (by norm_num) (hesBreg_nonneg d))

/-- a perfect forecast (in the domain) scores exactly `0` (any level, even outside `(0,1)`) -/
theorem C04_hes_zero (h α y : ℝ) (d : hesDom h y y) : hes h α y y = .ok 0 := by
  rw [hes_eq_breg d, hesBreg_self]; simp

/-- for `h ≤ 1` the perfect forecast `y = z = 0` is outside the domain: `ValueError`, not `0` -/
theorem C04_hes_zero_zero_rejected (h α : ℝ) (h1 : h ≤ 1) : hes h α 0 0 = .error .valueError := by
  apply hes_error
  unfold hesDom
  rw [if_neg (not_lt.mpr h1)]
  split_ifs <;> exact fun d => lt_irrefl _ d.2

/-- an imperfect forecast scores strictly more than `0` (strict consistency per pair) -/
theorem C04_hes_pos (h α y z v : ℝ) (hα0 : 0 < α) (hα1 : α < 1) (hne : y ≠ z)
    (e : hes h α y z = .ok v) : 0 < v := by
  have d := hes_ok_dom e
  rw [hes_eq_breg d] at e
  cases e
  exact mul_pos (hesAsym_pos ⟨hα0, hα1⟩ y z) (mul_pos (by norm_num) (hesBreg_pos d hne))

/-- a returned score is `0` exactly for the perfect forecast -/
theorem C04_hes_eq_zero_iff (h α y z v : ℝ) (hα0 : 0 < α) (hα1 : α < 1)
    (e : hes h α y z = .ok v) : v = 0 ↔ y = z := by
  constructor
  · intro hv
    by_contra hne
    have := C04_hes_pos h α y z v hα0 hα1 hne e
    linarith
  · rintro rfl
    rw [C04_hes_zero h α y (hes_ok_dom e)] at e
    cases e; rfl

/-! ## C04 — order sensitivity -/

/-- moving the prediction away from the observation (on either side) never lowers the score;
all real degrees.  (The domain hypotheses are implied by the two calls succeeding.) -/
theorem C04_hes_order_sensitive (h α y z₁ z₂ v₁ v₂ : ℝ) (hα0 : 0 < α) (hα1 : α < 1)
    (hord : (y ≤ z₁ ∧ z₁ ≤ z₂) ∨ (z₂ ≤ z₁ ∧ z₁ ≤ y))
    (e₁ : hes h α y z₁ = .ok v₁) (e₂ : hes h α y z₂ = .ok v₂) : v₁ ≤ v₂ := by
  have d₁ := hes_ok_dom e₁
  have d₂ := hes_ok_dom e₂
  by_cases hy : z₁ = y
  · subst hy
    rw [C04_hes_zero h α z₁ d₁] at e₁
    cases e₁
    exact C04_hes_nonneg h α z₁ z₂ v₂ hα0 hα1 e₂
  have hm := hesBreg_mono d₁ d₂ hord
  have hn := hesBreg_nonneg d₁
  rw [hes_eq_breg d₁] at e₁
  rw [hes_eq_breg d₂] at e₂
  cases e₁; cases e₂
  have ha : hesAsym α y z₁ = hesAsym α y z₂ := by
    rcases hord with ⟨a, b⟩ | ⟨a, b⟩
    · exact hesAsym_eq_of_ge a (a.trans b)
    · have : z₁ < y := lt_of_le_of_ne b hy
      exact hesAsym_eq_of_lt this (lt_of_le_of_lt a this)
  rw [ha]
  exact mul_le_mul_of_nonneg_left (by linarith) (hesAsym_pos ⟨hα0, hα1⟩ y z₂).le

/-- strictly further away on the same side scores strictly more -/
theorem C04_hes_order_sensitive_strict (h α y z₁ z₂ v₁ v₂ : ℝ) (hα0 : 0 < α) (hα1 : α < 1)
    (hord : (y ≤ z₁ ∧ z₁ < z₂) ∨ (z₂ < z₁ ∧ z₁ ≤ y))
    (e₁ : hes h α y z₁ = .ok v₁) (e₂ : hes h α y z₂ = .ok v₂) : v₁ < v₂ := by
  have d₁ := hes_ok_dom e₁
  have d₂ := hes_ok_dom e₂
  by_cases hy : z₁ = y
  · subst hy
    rw [C04_hes_zero h α z₁ d₁] at e₁
    cases e₁
    refine C04_hes_pos h α z₁ z₂ v₂ hα0 hα1 ?_ e₂
    rcases hord with ⟨_, b⟩ | ⟨a, _⟩
    · exact b.ne
    · exact a.ne'
  have hm := hesBreg_strict_mono d₁ d₂ hord
  rw [hes_eq_breg d₁] at e₁
  rw [hes_eq_breg d₂] at e₂
  cases e₁; cases e₂
  have ha : hesAsym α y z₁ = hesAsym α y z₂ := by
    rcases hord with ⟨a, b⟩ | ⟨a, b⟩
    · exact hesAsym_eq_of_ge a (a.trans b.le)
    · have : z₁ < y := lt_of_le_of_ne b hy
      exact hesAsym_eq_of_lt this (a.trans this)
  rw [ha]
  exact mul_lt_mul_of_pos_left (by linarith) (hesAsym_pos ⟨hα0, hα1⟩ y z₂)

/-- hypotheses of the order theorems are satisfiable: degree `1/2`, `y = 0 ≤ z₁ = 1 ≤ z₂ = 2` -/
example : ∃ v₁ v₂ : ℝ, hes (1 / 2) (1 / 4) 0 1 = .ok v₁ ∧ hes (1 / 2) (1 / 4) 0 2 = .ok v₂ := by
  have d : ∀ z : ℝ, 0 < z → hesDom (1 / 2) 0 z := fun z hz =>
    (hesDom_pos_le_one (by norm_num) (by norm_num) _ _).2 ⟨le_rfl, hz⟩
  exact ⟨_, _, hes_eq_base (d 1 one_pos), hes_eq_base (d 2 two_pos)⟩

/-- … and from the other side with a negative degree: `z₂ = 1 ≤ z₁ = 2 ≤ y = 3` -/
example : ∃ v₁ v₂ : ℝ, hes (-1) (3 / 4) 3 2 = .ok v₁ ∧ hes (-1) (3 / 4) 3 1 = .ok v₂ := by
  have d : ∀ z : ℝ, 0 < z → hesDom (-1) 3 z := fun z hz =>
    (hesDom_nonpos (by norm_num) _ _).2 ⟨by norm_num, hz⟩
  exact ⟨_, _, hes_eq_base (d 2 two_pos), hes_eq_base (d 1 one_pos)⟩

/-! ## C14 — named special cases of the expectile family -/

theorem C14_squared_error_eq_hes (h α y z : ℝ) :
    scorePair .squaredError h α y z = hes 2 (1 / 2) y z := by
  unfold scorePair; rw [two_real, half_real]

theorem C14_poisson_eq_hes (h α y z : ℝ) : scorePair .poisson h α y z = hes 1 (1 / 2) y z := by
  unfold scorePair; rw [half_real]

theorem C14_gamma_eq_hes (h α y z : ℝ) : scorePair .gamma h α y z = hes 0 (1 / 2) y z := by
  unfold scorePair; rw [half_real]

/-- `SquaredError` is `(z - y)²` on all reals (the `h`, `α` arguments are ignored) -/
theorem C14_squared_error (h α y z : ℝ) : scorePair .squaredError h α y z = .ok ((z - y) ^ 2) := by
  rw [C14_squared_error_eq_hes, hes_eq_base (hesDom_gt_one (by norm_num) y z), hesAsym_half,
    hesBase_two, one_mul]

/-- degree `2` at a general level: asymmetric squared error -/
theorem C14_hes_two (α y z : ℝ) : hes 2 α y z = .ok (hesAsym α y z * (z - y) ^ 2) := by
  rw [hes_eq_base (hesDom_gt_one (by norm_num) y z), hesBase_two]

/-- `PoissonDeviance` on its domain `y ≥ 0`, `z > 0`, in the `xlogy` form of the code -/
theorem C14_poisson_xlogy (h α y z : ℝ) (hy : 0 ≤ y) (hz : 0 < z) :
    scorePair .poisson h α y z = .ok (2 * (xlogy y (y / z) - y + z)) := by
  rw [C14_poisson_eq_hes, hes_eq_base ((hesDom_pos_le_one one_pos le_rfl y z).2 ⟨hy, hz⟩),
    hesAsym_half, hesBase_one, one_mul]

/-- `PoissonDeviance` for `y > 0`, `z > 0` -/
theorem C14_poisson (h α y z : ℝ) (hy : 0 < y) (hz : 0 < z) :
    scorePair .poisson h α y z = .ok (2 * (y * Real.log (y / z) - y + z)) := by
  rw [C14_poisson_xlogy h α y z hy.le hz]
  simp [xlogy, hy.ne']

/-- `PoissonDeviance` at `y = 0`: `2 z` -/
theorem C14_poisson_zero (h α z : ℝ) (hz : 0 < z) : scorePair .poisson h α 0 z = .ok (2 * z) := by
  rw [C14_poisson_xlogy h α 0 z le_rfl hz]
  simp [xlogy]

theorem C14_poisson_rejected (h α y z : ℝ) (nd : ¬ (0 ≤ y ∧ 0 < z)) :
    scorePair .poisson h α y z = .error .valueError := by
  rw [C14_poisson_eq_hes]
  exact hes_error (fun d => nd ((hesDom_pos_le_one one_pos le_rfl y z).1 d))

/-- `GammaDeviance` on its domain `y > 0`, `z > 0` -/
theorem C14_gamma (h α y z : ℝ) (hy : 0 < y) (hz : 0 < z) :
    scorePair .gamma h α y z = .ok (2 * (y / z - Real.log (y / z) - 1)) := by
  rw [C14_gamma_eq_hes, hes_eq_base ((hesDom_nonpos le_rfl y z).2 ⟨hy, hz⟩),
    hesAsym_half, hesBase_zero, one_mul]

theorem C14_gamma_rejected (h α y z : ℝ) (nd : ¬ (0 < y ∧ 0 < z)) :
    scorePair .gamma h α y z = .error .valueError := by
  rw [C14_gamma_eq_hes]
  exact hes_error (fun d => nd ((hesDom_nonpos le_rfl y z).1 d))

end MD

/-
`#print axioms` (observed with `lake env lean MD/Props/C04_HES.lean`):
'MD.hesDom_def' depends on axioms: [propext, Classical.choice, Quot.sound]
'MD.C04_hes_domain_rejected' depends on axioms: [propext, Classical.choice, Quot.sound]
'MD.hes_closed' depends on axioms: [propext, Classical.choice, Quot.sound]
'MD.hes_closed_bregman' depends on axioms: [propext, Classical.choice, Quot.sound]
'MD.C04_hes_ok' depends on axioms: [propext, Classical.choice, Quot.sound]
'MD.C04_hes_ok_iff' depends on axioms: [propext, Classical.choice, Quot.sound]
'MD.C04_hes_level_rejected' depends on axioms: [propext, Classical.choice, Quot.sound]
'MD.C04_scorePair_hes' depends on axioms: [propext, Classical.choice, Quot.sound]
'MD.C04_hes_nonneg' depends on axioms: [propext, Classical.choice, Quot.sound]
'MD.C04_hes_zero' depends on axioms: [propext, Classical.choice, Quot.sound]
'MD.C04_hes_zero_zero_rejected' depends on axioms: [propext, Classical.choice, Quot.sound]
'MD.C04_hes_pos' depends on axioms: [propext, Classical.choice, Quot.sound]
'MD.C04_hes_eq_zero_iff' depends on axioms: [propext, Classical.choice, Quot.sound]
'MD.C04_hes_order_sensitive' depends on axioms: [propext, Classical.choice, Quot.sound]
'MD.C04_hes_order_sensitive_strict' depends on axioms: [propext, Classical.choice, Quot.sound]
'MD.C14_squared_error' depends on axioms: [propext, Classical.choice, Quot.sound]
'MD.C14_hes_two' depends on axioms: [propext, Classical.choice, Quot.sound]
'MD.C14_poisson_xlogy' depends on axioms: [propext, Classical.choice, Quot.sound]
'MD.C14_poisson' depends on axioms: [propext, Classical.choice, Quot.sound]
'MD.C14_poisson_zero' depends on axioms: [propext, Classical.choice, Quot.sound]
'MD.C14_poisson_rejected' depends on axioms: [propext, Classical.choice, Quot.sound]
'MD.C14_gamma' depends on axioms: [propext, Classical.choice, Quot.sound]
'MD.C14_gamma_rejected' depends on axioms: [propext, Classical.choice, Quot.sound]
-/
