import MD.Model.Dtype
import MD.Props.C05
/-! C17 — results do not depend on the container or numeric dtype of the inputs; an aggregated score
is the weighted average of the per-observation scores and is unchanged by rescaling the weights.

What is a theorem here: the averaging laws (for every library score, via C05), that the model of
every entry point is a function of the *values* alone (its input type carries no container or
dtype), and the int64 wrap-around facts that document the repaired defect. What is not: that
`np.asarray` / polars construction deliver those values for every container — that conversion layer
is library code and is tied by the correspondence check only. -/
namespace MD.Props

/-- **C17_average**: `scoring_function(y, z, w)` is the weighted average of `score_per_obs(y, z)` -/
theorem C17_average (k : ScoreKind) (h α : ℝ) (ys zs ws : List ℝ) (v : ℝ)
    (hv : scoreMean k h α ys zs (some ws) = .ok v) :
    ∃ per, scorePerObs k h α ys zs = .ok per ∧ v = (List.zipWith (· * ·) per ws).sum / ws.sum := by
  obtain ⟨per, h1, _, _, h4⟩ := C05_average_is_weighted_mean k h α ys zs ws v hv
  exact ⟨per, h1, h4⟩

/-- **C17_weight_scale**: rescaling all weights by `c ≠ 0` changes nothing (error branches included) -/
theorem C17_weight_scale (k : ScoreKind) (h α : ℝ) (ys zs ws : List ℝ) (c : ℝ) (hc : c ≠ 0) :
    scoreMean k h α ys zs (some (ws.map (c * ·))) = scoreMean k h α ys zs (some ws) :=
  C05_weight_scale k h α ys zs ws c hc

/-- **C17_dtype_free**: two containers holding the same numbers (as ints or as floats, in any mix)
are the same input of every model: the models take values. -/
theorem C17_dtype_free (a b : List NumCell) (hab : a.map NumCell.val = b.map NumCell.val)
    {β : Type} (entry : List Rat → β) : entry (a.map NumCell.val) = entry (b.map NumCell.val) := by
  rw [hab]

/-- an integer cell and the float cell with the same value are interchangeable -/
theorem C17_int_is_float (n : Int) : (NumCell.int n).val = (NumCell.flt (n : Rat)).val := rfl

/-- the defect that was repaired: in int64 arithmetic the squared error of (0, 4·10⁹) is negative -/
theorem C17_old_int64_counterexample : sqInt64 0 4000000000 = -2446744073709551616 := by decide

/-- below the bound `|z - y| ≤ 3037000499` (= ⌊√(2⁶³−1)⌋) int64 arithmetic is exact -/
theorem C17_int64_exact_below_bound_partial (y z : Int) (h1 : -3037000499 ≤ z - y) (h2 : z - y ≤ 3037000499) :
    sqInt64 y z = (z - y) * (z - y) := by
  unfold sqInt64 wrap64
  have e1 : ((z - y + 2 ^ 63) % 2 ^ 64) - 2 ^ 63 = z - y := by omega
  rw [e1]
  have hb : (z - y) * (z - y) ≤ 3037000499 * 3037000499 := by
    rcases le_total 0 (z - y) with hp | hn
    · exact Int.mul_le_mul h2 h2 hp (by omega)
    · have : (z - y) * (z - y) = (-(z - y)) * (-(z - y)) := by ring
      rw [this]; exact Int.mul_le_mul (by omega) (by omega) (by omega) (by omega)
  have hn : 0 ≤ (z - y) * (z - y) := mul_self_nonneg _
  omega

end MD.Props

/-! ## The dtype rule of `identification_function` and of the scores -/
namespace MD.Props

/-- which dtypes are cast to float64 before any arithmetic: every integer-like dtype in the
scores; every one except int64 in `identification_function` (a doctest fixes its int64 output) -/
theorem C17_cast_table :
    DType.all.filter identCasts = [.bool, .u8, .u16, .u32, .u64, .i8, .i16, .i32] ∧
    DType.all.filter scoreCasts = [.bool, .u8, .u16, .u32, .u64, .i8, .i16, .i32, .i64] := by
  decide

/-- **no wrap-around in `identification_function`**: for whole-numbered observations and predictions
held in any integer dtype other than int64 the residual is the exact difference — for every pair of
values the dtype can hold -/
theorem C17_ident_residual_exact (d : DType) (hd : d ≠ .i64) (y z : Int) :
    identResidual d y z = z - y := by
  cases d <;> simp_all [identResidual, identCasts, DType.kind, DType.itemsize, DType.range, DType.wrap]

/-- for int64 the residual is exact as long as the difference itself fits into int64 -/
theorem C17_ident_residual_int64 (y z : Int) (h1 : -2 ^ 63 ≤ z - y) (h2 : z - y ≤ 2 ^ 63 - 1) :
    identResidual .i64 y z = z - y := by
  simp only [identResidual, identCasts, DType.kind, DType.itemsize, DType.wrap, DType.range]
  norm_num
  omega

/-- the values that are cast are exactly representable in float64, and so is their difference:
every dtype that is cast — except uint64 — holds integers of absolute value below `2^32`, so
`|z − y| < 2^53` -/
theorem C17_cast_values_exact_in_float64 (d : DType) (hc : identCasts d = true) (hd : d ≠ .u64)
    (lo hi : Int) (hr : d.range = some (lo, hi)) (y z : Int)
    (hy : lo ≤ y ∧ y ≤ hi) (hz : lo ≤ z ∧ z ≤ hi) :
    -2 ^ 53 < z - y ∧ z - y < 2 ^ 53 ∧ -2 ^ 53 < y ∧ y < 2 ^ 53 ∧ -2 ^ 53 < z ∧ z < 2 ^ 53 := by
  cases d <;> simp_all [identCasts, DType.kind, DType.itemsize, DType.range] <;>
    (obtain ⟨rfl, rfl⟩ := hr; omega)

/-- the defect that was repaired: computed inside uint8, the residual of observation 3 and
prediction 1 is 254; inside int8, observations −100 and prediction 100 give −56 -/
theorem C17_old_ident_counterexample :
    identResidualOld .u8 3 1 = 254 ∧ identResidualOld .i8 (-100) 100 = -56 ∧
    identResidual .u8 3 1 = -2 ∧ identResidual .i8 (-100) 100 = 200 := by decide

end MD.Props
