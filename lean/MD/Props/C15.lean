import MD.Proofs.IdentLemmas

/-! # C15 — `ElementaryScore(eta, functional, level).score_per_obs`

"For every threshold eta, observation and prediction, the elementary score of each functional is
>= 0, is 0 when prediction equals observation, and is minimised in expectation by the functional of
the sample - also when eta coincides with an observation. Integrated over eta it reproduces half the
squared error (mean), the pinball loss (quantile) and half the degree-2 expectile score."

Property theorems about the model function `elemScore` (the current, repaired code; `y` observation,
`z` prediction, `η` threshold) and about `elemScoreOld` (the formula before the fix, which is
negative for quantile / median when `η` coincides with an observation).

For a valid level the value of `elemScore (some f) α η y z` is
`elemVal f α η y z = (leInd η z - leInd η y) * elemV f α η y` (`C15_value`, `C15_closed_forms`;
definitions in `MD/Proofs/IdentLemmas.lean`); sums over a sample are stated about `elemVal`, and
`C15_arr_ok` says that these are exactly the numbers the array function `elemArr` returns. -/

set_option linter.unusedSectionVars false

namespace MD.Props
variable {K : Type} [Field K] [LinearOrder K] [IsStrictOrderedRing K]

/-! ## Closed forms -/

theorem C15_closed_forms (α : K) (hα0 : 0 < α) (hα1 : α < 1) (η y z : K) :
    elemScore (some .mean) α η y z = .ok ((leInd η z - leInd η y) * (η - y)) ∧
    elemScore (some .median) α η y z
      = .ok ((leInd η z - leInd η y) * ((if y < η then 1 else 0) - 1 / 2)) ∧
    elemScore (some .expectile) α η y z
      = .ok ((leInd η z - leInd η y) * (2 * absK (geInd η y - α) * (η - y))) ∧
    elemScore (some .quantile) α η y z
      = .ok ((leInd η z - leInd η y) * ((if y < η then 1 else 0) - α)) :=
  ⟨elemScore_eq_val .mean α η y z hα0 hα1, elemScore_eq_val .median α η y z hα0 hα1,
    elemScore_eq_val .expectile α η y z hα0 hα1, elemScore_eq_val .quantile α η y z hα0 hα1⟩

/-- the same, uniformly in the functional -/
theorem C15_value (f : Functional) (α : K) (hα0 : 0 < α) (hα1 : α < 1) (η y z : K) :
    elemScore (some f) α η y z = .ok (elemVal f α η y z) :=
  elemScore_eq_val f α η y z hα0 hα1

/-- the array function returns exactly the `elemVal`s, pair by pair -/
theorem C15_arr_ok (f : Functional) (α : K) (hα0 : 0 < α) (hα1 : α < 1) (η : K) (ys zs : List K)
    (h : ys.length = zs.length) :
    elemArr false (some f) α η ys zs = .ok ((ys.zip zs).map fun p => elemVal f α η p.1 p.2) :=
  elemArr_ok f α η hα0 hα1 ys zs h

/-- the constructor rejects a level outside `(0,1)` for every functional, an unknown functional is
rejected, and arrays of different length are rejected -/
theorem C15_invalid (f : Option Functional) (α η y z : K) :
    ((α ≤ 0 ∨ 1 ≤ α) → elemScore f α η y z = .error .valueError) ∧
    elemScore none α η y z = .error .valueError ∧
    ∀ old ys zs, ys.length ≠ zs.length → elemArr old f α η ys zs = .error .valueError :=
  ⟨elemScore_invalid f α η y z, elemScore_none α η y z,
    fun old ys zs h => elemArr_length_error old f α η ys zs h⟩

/-! ## Non-negativity, zero at `z = y`, order sensitivity -/

theorem C15_nonneg (f : Functional) (α : K) (hα0 : 0 < α) (hα1 : α < 1) (η y z v : K)
    (h : elemScore (some f) α η y z = .ok v) : 0 ≤ v := by
  rw [elemScore_eq_val f α η y z hα0 hα1] at h
  rw [← Except.ok.inj h]
  exact elemVal_nonneg f α hα0 hα1 η y z

theorem C15_zero_at_equal (f : Functional) (α : K) (hα0 : 0 < α) (hα1 : α < 1) (η y : K) :
    elemScore (some f) α η y y = .ok 0 := by
  rw [elemScore_eq_val f α η y y hα0 hα1, elemVal_self]

/-- for fixed `η`, `y` the score grows as the prediction moves away from the observation -/
theorem C15_order_sensitive (f : Functional) (α : K) (hα0 : 0 < α) (hα1 : α < 1) (η y z₁ z₂ : K)
    (v₁ v₂ : K) (h₁ : elemScore (some f) α η y z₁ = .ok v₁)
    (h₂ : elemScore (some f) α η y z₂ = .ok v₂) :
    (y ≤ z₁ → z₁ ≤ z₂ → v₁ ≤ v₂) ∧ (z₂ ≤ z₁ → z₁ ≤ y → v₁ ≤ v₂) := by
  rw [elemScore_eq_val f α η y _ hα0 hα1] at h₁ h₂
  rw [← Except.ok.inj h₁, ← Except.ok.inj h₂]
  exact ⟨fun a b => elemVal_mono_up f α hα0 hα1 η y a b,
    fun a b => elemVal_mono_dn f α hα0 hα1 η y a b⟩

/-! ## The formula before the fix -/

/-- the defect: with `η` equal to the observation and the prediction below it, the old quantile
formula is negative -/
theorem C15_old_counterexample :
    elemScoreOld (some .quantile) (3 / 10 : ℚ) 1 1 0 = .ok (-7 / 10) := by
  norm_num [elemScoreOld, identFn, leInd, geInd]
  rfl

/-- … whereas the repaired formula gives `3/10` there -/
example : elemScore (some .quantile) (3 / 10 : ℚ) 1 1 0 = .ok (3 / 10) := by
  norm_num [elemScore, leInd]
  rfl

/-- the old formula is non-negative whenever `η ≠ y`, and always for mean / expectile.
(The name is the one requested; the statement is complete: by `C15_old_counterexample` the remaining
case `η = y` for quantile / median fails.) -/
theorem C15_old_nonneg_partial (f : Functional) (α : K) (hα0 : 0 < α) (hα1 : α < 1) (η y z v : K)
    (hc : η ≠ y ∨ f = .mean ∨ f = .expectile)
    (h : elemScoreOld (some f) α η y z = .ok v) : 0 ≤ v := by
  rw [elemScoreOld_eq_val f α η y z hα0 hα1, ← elemV_eq_old f α η y hc] at h
  rw [← Except.ok.inj h]
  exact elemVal_nonneg f α hα0 hα1 η y z

/-- old and new formula agree whenever `η ≠ y` or the functional is mean / expectile (or unknown),
for every level (both raise for an invalid one) -/
theorem C15_old_eq_new (f : Option Functional) (α η y z : K)
    (hc : η ≠ y ∨ f = some .mean ∨ f = some .expectile ∨ f = none) :
    elemScoreOld f α η y z = elemScore f α η y z := by
  by_cases hα : α ≤ 0 ∨ 1 ≤ α
  · rw [elemScoreOld_invalid f α η y z hα, elemScore_invalid f α η y z hα]
  · rw [not_or, not_le, not_le] at hα
    cases f with
    | none => rw [elemScoreOld_none, elemScore_none]
    | some f =>
      have hc' : η ≠ y ∨ f = .mean ∨ f = .expectile := by
        rcases hc with h | h | h | h
        · exact Or.inl h
        · exact Or.inr (Or.inl (Option.some.inj h))
        · exact Or.inr (Or.inr (Option.some.inj h))
        · cases h
      rw [elemScoreOld_eq_val f α η y z hα.1 hα.2, elemScore_eq_val f α η y z hα.1 hα.2,
        ← elemV_eq_old f α η y hc']
      rfl

/-! ## Consistency: the sample functional minimises the summed score, for every threshold -/

/-- mean: the weighted sample mean minimises `Σ w·S_η(y, ·)` -/
theorem C15_consistent_mean (α : K) (d : List (Obs K)) (hne : d ≠ []) (hpos : ∀ o ∈ d, 0 < o.2)
    (η c : K) :
    (d.map fun o => o.2 * elemVal .mean α η o.1 (wmean d)).sum
      ≤ (d.map fun o => o.2 * elemVal .mean α η o.1 c).sum :=
  elemVal_consistent_mean α η c d hne hpos

/-- expectile: the weighted sample expectile minimises `Σ w·S_η(y, ·)` -/
theorem C15_consistent_expectile (α : K) (hα0 : 0 < α) (hα1 : α < 1) (d : List (Obs K))
    (hne : d ≠ []) (hpos : ∀ o ∈ d, 0 < o.2) (η c : K) :
    (d.map fun o => o.2 * elemVal .expectile α η o.1 (expectile α d)).sum
      ≤ (d.map fun o => o.2 * elemVal .expectile α η o.1 c).sum :=
  elemVal_consistent_expectile α hα0 hα1 η c d hne hpos

/-- quantile (unit weights): every point of the quantile interval `[qLower, qUpper]` minimises
`Σ S_η(y, ·)` — also when `η` is a data value -/
theorem C15_consistent_quantile (α : K) (hα0 : 0 < α) (hα1 : α < 1) (d : List (Obs K))
    (hne : d ≠ []) (t : K) (ht1 : qLower α d ≤ t) (ht2 : t ≤ qUpper α d) (η c : K) :
    (d.map fun o => elemVal .quantile α η o.1 t).sum
      ≤ (d.map fun o => elemVal .quantile α η o.1 c).sum :=
  elemVal_consistent_quantile α hα0 hα1 η t c d hne ht1 ht2

/-- median: the same at level 1/2, whatever level was passed along -/
theorem C15_consistent_median (α : K) (d : List (Obs K)) (hne : d ≠ []) (t : K)
    (ht1 : qLower (1 / 2) d ≤ t) (ht2 : t ≤ qUpper (1 / 2) d) (η c : K) :
    (d.map fun o => elemVal .median α η o.1 t).sum
      ≤ (d.map fun o => elemVal .median α η o.1 c).sum :=
  elemVal_consistent_quantile (1 / 2) ident_half_pos' half_lt_one' η t c d hne ht1 ht2

/-- with the old formula this fails for `η` at a data value: sample `{0, 1}`, level 1/2, `η = 1`.
`1` is a median (it is `qUpper`), but predicting `1` costs `1/2 + 0` while predicting `0` costs
`0 + (-1/2)`; the repaired formula gives `1/2 + 0` and `0 + 1/2` (flat on the median interval). -/
example :
    elemScoreOld (some .median) (1 / 2 : ℚ) 1 0 1 = .ok (1 / 2) ∧
    elemScoreOld (some .median) (1 / 2 : ℚ) 1 1 1 = .ok 0 ∧
    elemScoreOld (some .median) (1 / 2 : ℚ) 1 0 0 = .ok 0 ∧
    elemScoreOld (some .median) (1 / 2 : ℚ) 1 1 0 = .ok (-1 / 2) ∧
    elemScore (some .median) (1 / 2 : ℚ) 1 1 0 = .ok (1 / 2) := by
  refine ⟨?_, ?_, ?_, ?_, ?_⟩ <;> norm_num [elemScoreOld, elemScore, identFn, leInd, geInd, half] <;> rfl

/-! ## Shape in `η` (interval-free form of the mixture representation)

With `a = min y z`, `b = max y z` the map `η ↦ S_η(y,z)` vanishes outside `(a, b]`; on `(a, b]` it is
affine in `η` for mean and expectile (`η - y` keeps its sign there and `1{η ≥ y}` is constant except
at the single point `η = y`, where the value is `0` anyway) and constant for the quantile.  Hence
`∫ S_η dη = (b - a) · S_{(a+b)/2}`, which the `_midpoint` theorems evaluate. -/

theorem C15_integral_outside (f : Functional) (α : K) (hα0 : 0 < α) (hα1 : α < 1) (η y z : K)
    (h : η ≤ min y z ∨ max y z < η) : elemScore (some f) α η y z = .ok 0 := by
  rw [elemScore_eq_val f α η y z hα0 hα1, elemVal_outside f α η y z h]

theorem C15_integral_mean_inside (α : K) (hα0 : 0 < α) (hα1 : α < 1) (η y z : K)
    (h1 : min y z < η) (h2 : η ≤ max y z) :
    elemScore (some .mean) α η y z = .ok |η - y| := by
  rw [elemScore_eq_val .mean α η y z hα0 hα1, elemVal_mean_inside α h1 h2]

theorem C15_integral_expectile_inside (α : K) (hα0 : 0 < α) (hα1 : α < 1) (η y z : K)
    (h1 : min y z < η) (h2 : η ≤ max y z) :
    elemScore (some .expectile) α η y z = .ok (2 * |geInd η y - α| * |η - y|) := by
  rw [elemScore_eq_val .expectile α η y z hα0 hα1, elemVal_expectile_inside α h1 h2]

theorem C15_integral_quantile_inside (α : K) (hα0 : 0 < α) (hα1 : α < 1) (η y z : K)
    (h1 : min y z < η) (h2 : η ≤ max y z) :
    elemScore (some .quantile) α η y z = .ok (if y < z then 1 - α else α) := by
  rw [elemScore_eq_val .quantile α η y z hα0 hα1, elemVal_quantile_inside α h1 h2]

theorem C15_integral_median_inside (α : K) (hα0 : 0 < α) (hα1 : α < 1) (η y z : K)
    (h1 : min y z < η) (h2 : η ≤ max y z) :
    elemScore (some .median) α η y z = .ok (1 / 2) := by
  rw [elemScore_eq_val .median α η y z hα0 hα1, elemVal_median,
    elemVal_quantile_inside (1 / 2) h1 h2]
  congr 1
  split <;> ring

/-- mean: `(b - a) · S_{(a+b)/2}(y,z) = (z - y)² / 2`, half the squared error -/
theorem C15_integral_mean_midpoint (α : K) (hα0 : 0 < α) (hα1 : α < 1) (y z : K) (hyz : y ≠ z)
    (v : K) (h : elemScore (some .mean) α ((min y z + max y z) / 2) y z = .ok v) :
    (max y z - min y z) * v = (z - y) ^ 2 / 2 := by
  rw [elemScore_eq_val .mean α _ y z hα0 hα1] at h
  rw [← Except.ok.inj h]
  exact elemVal_mean_mid α hyz

/-- expectile: `(b - a) · S_{(a+b)/2}(y,z) = |1{z ≥ y} - α| (z - y)²`, half the degree-2
expectile score `2 |1{z ≥ y} - α| (z - y)²` -/
theorem C15_integral_expectile_midpoint (α : K) (hα0 : 0 < α) (hα1 : α < 1) (y z : K)
    (hyz : y ≠ z) (v : K)
    (h : elemScore (some .expectile) α ((min y z + max y z) / 2) y z = .ok v) :
    (max y z - min y z) * v = |geInd z y - α| * (z - y) ^ 2 := by
  rw [elemScore_eq_val .expectile α _ y z hα0 hα1] at h
  rw [← Except.ok.inj h]
  exact elemVal_expectile_mid α hyz

/-- quantile: `(b - a) · S_{(a+b)/2}(y,z) = (1{z ≥ y} - α)(z - y)`, the pinball loss -/
theorem C15_integral_quantile_midpoint (α : K) (hα0 : 0 < α) (hα1 : α < 1) (y z : K)
    (hyz : y ≠ z) (v : K)
    (h : elemScore (some .quantile) α ((min y z + max y z) / 2) y z = .ok v) :
    (max y z - min y z) * v = (geInd z y - α) * (z - y) := by
  rw [elemScore_eq_val .quantile α _ y z hα0 hα1] at h
  rw [← Except.ok.inj h]
  exact elemVal_quantile_mid α hyz

/-! ## The hypotheses are satisfiable, and concrete values -/

/-- `η` at the observation, prediction above: value `0` (and `≥ 0`) -/
example : elemScore (some .quantile) (3 / 10 : ℚ) 1 1 2 = .ok 0 :=
  C15_integral_outside .quantile (3 / 10) (by norm_num) (by norm_num) 1 1 2 (Or.inl (by norm_num))

/-- inside the interval: `min 1 4 < 3 ≤ max 1 4` -/
example : elemScore (some .mean) (3 / 10 : ℚ) 3 1 4 = .ok 2 := by
  rw [C15_integral_mean_inside (3 / 10 : ℚ) (by norm_num) (by norm_num) 3 1 4 (by norm_num)
    (by norm_num)]
  norm_num

/-- a weighted sample for the consistency theorems -/
example : ([(3, 2), (1, 1), (2, 3)] : List (Obs ℚ)) ≠ [] ∧
    ∀ o ∈ ([(3, 2), (1, 1), (2, 3)] : List (Obs ℚ)), 0 < o.2 := by
  refine ⟨by simp, ?_⟩
  intro o ho
  simp at ho
  rcases ho with rfl | rfl | rfl <;> norm_num

/-- the quantile interval of `C15_consistent_quantile` is never empty -/
example (α : ℚ) (hα0 : 0 < α) (hα1 : α < 1) (d : List (Obs ℚ)) (hne : d ≠ []) :
    ∃ t, qLower α d ≤ t ∧ t ≤ qUpper α d :=
  ⟨qLower α d, le_rfl, qLower_le_qUpper α hα0 hα1 d hne⟩

/-- `C15_old_eq_new` / `C15_old_nonneg_partial`: a case with `η ≠ y` -/
example : elemScoreOld (some .quantile) (3 / 10 : ℚ) 2 1 3 = elemScore (some .quantile) (3 / 10) 2 1 3 :=
  C15_old_eq_new _ _ _ _ _ (Or.inl (by norm_num))

end MD.Props

/-
`#print axioms` (observed with `lake env lean MD/Props/C15.lean`):
'MD.Props.C15_closed_forms' depends on axioms: [propext, Classical.choice, Quot.sound]
'MD.Props.C15_value' depends on axioms: [propext, Classical.choice, Quot.sound]
'MD.Props.C15_arr_ok' depends on axioms: [propext, Classical.choice, Quot.sound]
'MD.Props.C15_invalid' depends on axioms: [propext, Quot.sound]
'MD.Props.C15_nonneg' depends on axioms: [propext, Classical.choice, Quot.sound]
'MD.Props.C15_zero_at_equal' depends on axioms: [propext, Classical.choice, Quot.sound]
'MD.Props.C15_order_sensitive' depends on axioms: [propext, Classical.choice, Quot.sound]
'MD.Props.C15_old_counterexample' depends on axioms: [propext, Classical.choice, Quot.sound]
'MD.Props.C15_old_nonneg_partial' depends on axioms: [propext, Classical.choice, Quot.sound]
'MD.Props.C15_old_eq_new' depends on axioms: [propext, Classical.choice, Quot.sound]
'MD.Props.C15_consistent_mean' depends on axioms: [propext, Classical.choice, Quot.sound]
'MD.Props.C15_consistent_expectile' depends on axioms: [propext, Classical.choice, Quot.sound]
'MD.Props.C15_consistent_quantile' depends on axioms: [propext, Classical.choice, Quot.sound]
'MD.Props.C15_consistent_median' depends on axioms: [propext, Classical.choice, Quot.sound]
'MD.Props.C15_integral_outside' depends on axioms: [propext, Classical.choice, Quot.sound]
'MD.Props.C15_integral_mean_inside' depends on axioms: [propext, Classical.choice, Quot.sound]
'MD.Props.C15_integral_expectile_inside' depends on axioms: [propext, Classical.choice, Quot.sound]
'MD.Props.C15_integral_quantile_inside' depends on axioms: [propext, Classical.choice, Quot.sound]
'MD.Props.C15_integral_median_inside' depends on axioms: [propext, Classical.choice, Quot.sound]
'MD.Props.C15_integral_mean_midpoint' depends on axioms: [propext, Classical.choice, Quot.sound]
'MD.Props.C15_integral_expectile_midpoint' depends on axioms: [propext, Classical.choice, Quot.sound]
'MD.Props.C15_integral_quantile_midpoint' depends on axioms: [propext, Classical.choice, Quot.sound]
-/
