import MD.Proofs.PavaArrLemmas
/-! # C01 / C12 — the in-place array program `pava()` *is* the stack model

`MD.Arr.pavaArr` (`MD/Model/PavaArr.lean`) follows `_utils/isotonic.py::pava` line by line: arrays `x`, `w`, `r`
overwritten in place, counters `b` and `i`, `xb_prev` / `wb_prev`, the two inner `while` loops and the closing loop that
spreads the block values. The theorems below say that it computes exactly what the stack model `pavaMean` computes,
and hence - through `isoReg` - everything C01, C11 and C12 state about the mean fit.  For every non-empty input. -/

set_option linter.unusedSectionVars false

namespace MD.Props
open MD MD.Arr

section Bare
variable {K : Type} [LE K] [DecidableLE K] [Add K] [Mul K] [Div K]

/-- **C01_array_program**: fitted values and block index vector of the array program are those of the stack model
(no hypothesis on the weights: this is a statement about the two programs, not about optimality). -/
theorem C01_array_program (ys : List (Obs K)) (hne : ys ≠ []) :
    pavaArr ys = (expand (pavaMean ys), bounds (pavaMean ys)) :=
  pavaArr_eq_pavaMean ys hne

/-- the program's output has the shape C12 asks for: `r` has one entry more than there are blocks -/
theorem C01_array_r_length (ys : List (Obs K)) (hne : ys ≠ []) :
    (pavaArr ys).2.length = (pavaMean ys).length + 1 := by
  rw [C01_array_program ys hne]; exact bounds_length _

end Bare

section Field
variable {K : Type} [Field K] [LinearOrder K] [IsStrictOrderedRing K]

/-- **C01_array_is_isoReg**: `isotonic_regression(y, w, functional="mean")` - the function all C01 theorems are
about - returns what the array program returns on the (direction-ordered) data. -/
theorem C01_array_is_isoReg (α : K) (inc : Bool) (y w : List K) (hne : y ≠ []) (hlen : w.length = y.length)
    (hpos : ∀ v ∈ w, 0 < v) :
    isoReg (some .mean) α inc y (some w) =
      .ok (orient inc (pavaArr (orient inc (y.zip w))).1, mirrorR inc (pavaArr (orient inc (y.zip w))).2) := by
  have hz : orient inc (y.zip w) ≠ [] := by
    have : (y.zip w) ≠ [] := by
      cases y with
      | nil => exact absurd rfl hne
      | cons a y' =>
        cases w with
        | nil => simp at hlen
        | cons b w' => simp
    cases inc <;> simpa [orient] using this
  rw [isoReg_mean_some α inc y w hne hlen hpos, C01_array_program _ hz]

/-- **C01_array_optimal**: so the array program's values are the blocks of the generalised PAVA with the weighted
mean - the unique weighted least-squares monotone fit of `C01_optimal` / `C01_unique`. -/
theorem C01_array_is_gpava (ys : List (Obs K)) (hne : ys ≠ []) (hpos : ∀ o ∈ ys, 0 < o.2) :
    (pavaArr ys).1 = expand (gpava wmean ys) ∧ (pavaArr ys).2 = bounds (gpava wmean ys) := by
  rw [C01_array_program ys hne, pavaMean_eq_gpava ys hpos]
  exact ⟨rfl, rfl⟩

/-- the hypotheses are those of `C01_ok`: a non-empty sample with positive weights (concrete runs of the array program
are compared with the implementation by the driver op `pava_arr`) -/
example : ([(3, 1), (1, 2), (2, 1), (5, 1)] : List (Obs ℚ)) ≠ [] ∧
    ∀ o ∈ ([(3, 1), (1, 2), (2, 1), (5, 1)] : List (Obs ℚ)), 0 < o.2 := by
  refine ⟨by simp, ?_⟩
  intro o ho
  simp only [List.mem_cons, List.mem_nil_iff, or_false] at ho
  rcases ho with rfl | rfl | rfl | rfl <;> norm_num

end Field

end MD.Props
