import MD.Model.IsoStore
import MD.Props.C01b
import MD.Proofs.HeapLemmas
/-! C12 — "… and inputs are never modified".

Theorems about the ownership model `isoMeanStore` (`MD/Model/IsoStore.lean`) of `isotonic_regression` → `pava` for the
mean: the in-place loops write to the two objects `astype` allocates, never to the caller's `y` / `weights` (which the
function only holds views of); the result is the one `isoReg` returns; and the variant with `astype(copy=False)` is
refuted by a concrete store in which the caller's `y` ends up overwritten - back to front when a decreasing fit was
asked for. -/

set_option linter.unusedSectionVars false

namespace MD.Own
open MD

variable {K : Type}

theorem writeView_length (s : Store K) (v : View) (vals : List K) : (writeView s v vals).length = s.length := by
  unfold writeView; split <;> simp

theorem writeView_get_ne (s : Store K) (v : View) (vals : List K) {b : Nat} (h : b ≠ v.base) :
    (writeView s v vals)[b]? = s[b]? := by
  unfold writeView; split
  · exact List.getElem?_set_ne (Ne.symm h)
  · rfl

theorem readView_of {s : Store K} {a : Nat} {rev : Bool} {l : List K} (h : s[a]? = some (.vec l)) :
    readView s ⟨a, rev⟩ = if rev then l.reverse else l := by
  unfold readView; simp only [getVec_of h]

section
variable [LE K] [DecidableLE K] [Add K] [Mul K] [Div K]

/-- **C12_inputs_unmodified**: every object that existed before the call - in particular the caller's `y` and
`weights` - is unchanged afterwards, in both directions. -/
theorem C12_inputs_unmodified (s : Store K) (ay aw : Nat) (inc : Bool) :
    unchangedBelow s (isoMeanStore true s ay aw inc).1 := by
  intro a ha
  have key : ∀ (x : List K) (wv : List K),
      (writeView (writeView (alloc (alloc s (.vec (readView s ⟨aw, !inc⟩))).1
          (.vec (readView (alloc s (.vec (readView s ⟨aw, !inc⟩))).1 ⟨ay, !inc⟩))).1
          ⟨(alloc s (.vec (readView s ⟨aw, !inc⟩))).1.length, false⟩ x) ⟨s.length, false⟩ wv)[a]? = s[a]? := by
    intro x wv
    rw [writeView_get_ne _ _ _ (by show a ≠ s.length; omega),
      writeView_get_ne _ _ _ (by show a ≠ (alloc s _).1.length; rw [alloc_length]; omega),
      alloc_get_below _ _ (by rw [alloc_length]; omega), alloc_get_below _ _ ha]
  unfold isoMeanStore astype
  simp only [↓reduceIte]
  split <;> exact key _ _

end

section Field
variable [Field K] [LinearOrder K] [IsStrictOrderedRing K]

/-- reading the two fresh copies gives the direction-ordered data -/
theorem C12_store_result (α : K) (s : Store K) (ay aw : Nat) (inc : Bool) {y w : List K}
    (hy : s[ay]? = some (.vec y)) (hw : s[aw]? = some (.vec w))
    (hne : y ≠ []) (hlen : w.length = y.length) (hpos : ∀ v ∈ w, 0 < v) :
    isoReg (some .mean) α inc y (some w) = .ok (isoMeanStore true s ay aw inc).2 := by
  have hay : ay < s.length := by
    rcases Nat.lt_or_ge ay s.length with h | h
    · exact h
    · rw [List.getElem?_eq_none h] at hy; cases hy
  have haw : aw < s.length := by
    rcases Nat.lt_or_ge aw s.length with h | h
    · exact h
    · rw [List.getElem?_eq_none h] at hw; cases hw
  rw [MD.Props.C01_array_is_isoReg α inc y w hne hlen hpos]
  -- what the program reads from its two copies
  have hrw : readView s ⟨aw, !inc⟩ = orient inc w := by
    rw [readView_of hw]; cases inc <;> rfl
  have hs1 : (alloc s (Obj.vec (readView s ⟨aw, !inc⟩))).1[ay]? = some (.vec y) := by
    rw [alloc_get_below _ _ hay]; exact hy
  have hry : readView (alloc s (Obj.vec (readView s ⟨aw, !inc⟩))).1 ⟨ay, !inc⟩ = orient inc y := by
    rw [readView_of hs1]; cases inc <;> rfl
  have hx2 : readView (alloc (alloc s (Obj.vec (readView s ⟨aw, !inc⟩))).1
      (Obj.vec (readView (alloc s (Obj.vec (readView s ⟨aw, !inc⟩))).1 ⟨ay, !inc⟩))).1
      ⟨(alloc s (Obj.vec (readView s ⟨aw, !inc⟩))).1.length, false⟩ = orient inc y := by
    rw [readView_of (alloc_get_new _ _), hry]; rfl
  have hw2 : readView (alloc (alloc s (Obj.vec (readView s ⟨aw, !inc⟩))).1
      (Obj.vec (readView (alloc s (Obj.vec (readView s ⟨aw, !inc⟩))).1 ⟨ay, !inc⟩))).1
      ⟨s.length, false⟩ = orient inc w := by
    have : (alloc (alloc s (Obj.vec (readView s ⟨aw, !inc⟩))).1
        (Obj.vec (readView (alloc s (Obj.vec (readView s ⟨aw, !inc⟩))).1 ⟨ay, !inc⟩))).1[s.length]?
        = some (.vec (readView s ⟨aw, !inc⟩)) := by
      rw [alloc_get_below _ _ (by rw [alloc_length]; omega)]; exact alloc_get_new _ _
    rw [readView_of this, hrw]; rfl
  have hobs : List.zip (orient inc y) (orient inc w) = orient inc (y.zip w) :=
    (orient_zip inc y w hlen.symm).symm
  unfold isoMeanStore astype
  simp only [↓reduceIte, hx2, hw2, hobs]
  cases inc <;> simp [orient, mirrorR]

end Field

/-! ### `astype(copy=False)` is refuted -/

/-- **C12_no_copy_counterexample**: if `astype` handed back the same object, the in-place loops would overwrite the
caller's arrays: `y = [3, 1]` with unit weights becomes `[2, 2]` (increasing) - and with the copying version it stays
`[3, 1]`. -/
theorem C12_no_copy_counterexample :
    let s : Store Nat := [.vec [3, 1], .vec [1, 1]]
    getVec (isoMeanStore false s 0 1 true).1 0 = [2, 2] ∧
    getVec (isoMeanStore true s 0 1 true).1 0 = [3, 1] ∧
    (isoMeanStore true s 0 1 true).2 = ([2, 2], [0, 2]) := by
  decide

/-- the same through the reversed view of a decreasing fit: the caller's `y = [1, 4]` is overwritten back to front -/
example :
    let s : Store Nat := [.vec [1, 5, 2], .vec [1, 1, 1]]
    getVec (isoMeanStore false s 0 1 false).1 0 = [3, 3, 2] ∧ getVec (isoMeanStore true s 0 1 false).1 0 = [1, 5, 2] := by
  decide

end MD.Own
