import MD.Model.Validate
/-! C20 — documented argument constraints are enforced before any result is produced. -/
namespace MD.Val

/-! Every field of a descriptor ranges over a finite type, so a statement about all descriptors is a
nested finite conjunction, decided by evaluation in the kernel (`decide +kernel`, no axioms). -/

instance decForallFD (p : FD → Prop) [DecidablePred p] : Decidable (∀ f, p f) :=
  decidable_of_iff (p .mean ∧ p .median ∧ p .expectile ∧ p .quantile ∧ p .unknown)
    ⟨fun h f => by cases f <;> simp_all, fun h => ⟨h _, h _, h _, h _, h _⟩⟩

instance decForallEP (p : EP → Prop) [DecidablePred p] : Decidable (∀ e, p e) :=
  decidable_of_iff (p .ident ∧ p .bias ∧ p .marginal ∧ p .decompose ∧ p .scoreCtor ∧ p .scoreCall ∧
      p .iso ∧ p .isoModel ∧ p .plotReliability ∧ p .plotMurphy ∧ p .plotBias)
    ⟨fun h e => by cases e <;> simp_all, fun h => ⟨h _, h _, h _, h _, h _, h _, h _, h _, h _, h _, h _⟩⟩

/-- lift a statement checked for all field values to all descriptors -/
theorem forall_desc {P : Desc → Prop}
    (h : ∀ ep a b c d e f g hh i fd l, P ⟨ep, a, b, c, d, e, f, g, hh, i, fd, l⟩) : ∀ d, P d := by
  rintro ⟨ep, a, b, c, d, e, f, g, hh, i, fd, l⟩; exact h ..

def Enforced (d : Desc) : Prop :=
  violates d = true →
    outcome d ≠ .ok ∧
    (outcome d = .valueError ∨
     (outcome d = .notImplemented ∧ d.hasWeights = true ∧ (d.f = .quantile ∨ d.f = .median) ∧
        (d.ep = .iso ∨ d.ep = .isoModel ∨ d.ep = .plotReliability ∨ d.ep = .decompose)) ∨
     (outcome d = .exception ∧ d.hasWeights = true ∧ (d.wLenMismatch = true ∨ d.wNdim2 = true) ∧
        (d.ep = .scoreCall ∨ d.ep = .plotMurphy)))

instance (d : Desc) : Decidable (Enforced d) := by unfold Enforced; infer_instance

/-- **C20_enforced**: a call that violates a documented constraint the entry point uses never
produces a result: the outcome is an exception, and it is `ValueError` except for the two
documented exceptions (weighted quantile regression: `NotImplementedError`; mis-shaped weights
handed to a scoring function: whatever `np.average` raises). -/
theorem C20_enforced : ∀ d : Desc, Enforced d :=
  forall_desc (by decide +kernel)

/-- conversely, a call that violates none of them is not rejected by the validation layer -/
theorem C20_valid_accepted : ∀ d : Desc, violates d = false → outcome d = .ok :=
  forall_desc (by decide +kernel)

/-- **C20_weighted_quantile_not_implemented** -/
theorem C20_weighted_quantile_not_implemented : ∀ d : Desc, d.ep = .iso → d.hasWeights = true →
    (d.f = .quantile ∨ d.f = .median) → (d.f = .quantile → d.levelValid = true) →
    outcome d = .notImplemented :=
  forall_desc (by decide +kernel)

/-- **C20_misshaped_score_weights_raise** -/
theorem C20_misshaped_score_weights_raise : ∀ d : Desc, d.ep = .scoreCall → d.hasWeights = true →
    (d.wLenMismatch = true ∨ d.wNdim2 = true) → outcome d ≠ .ok :=
  forall_desc (by decide +kernel)

/-- constraints the entry point does not use are not enforced: bin parameters without a feature -/
theorem C20_unused_constraints_ignored : ∀ d : Desc, (d.ep = .bias ∨ d.ep = .marginal ∨ d.ep = .plotBias) →
    d.hasFeature = false →
    outcome d = outcome {d with binMethodValid := true, nBinsOk := true, featLenMismatch := false} :=
  forall_desc (by decide +kernel)

/-- the level is only checked where the functional has one (and always by the score constructors) -/
theorem C20_level_only_where_used : ∀ d : Desc, (d.f = .mean ∨ d.f = .median) →
    (d.ep ≠ .scoreCtor ∧ d.ep ≠ .plotMurphy) →
    outcome d = outcome {d with levelValid := true} :=
  forall_desc (by decide +kernel)

/-- non-vacuity: a concrete violating descriptor -/
example : violates ⟨.iso, false, false, false, true, true, true, false, false, true, .mean, true⟩ = true ∧
    outcome ⟨.iso, false, false, false, true, true, true, false, false, true, .mean, true⟩ = .valueError := by
  decide

end MD.Val
