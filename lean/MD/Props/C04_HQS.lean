import MD.Proofs.ScoreHQS

/-! # C04 (quantile family, log loss) and C14 (quantile family) at `K = ℝ`

`hqs h α y z` is the model of `HomogeneousQuantileScore(degree=h, level=α).score_per_obs` for one
(observation `y`, prediction `z`) pair, `logLoss y z` the model of `LogLoss().score_per_obs`
(`MD/Model/Score.lean`), interpreted over `ℝ` with `np.power ↦ Real.rpow`, `np.log ↦ Real.log`
(`MD/Proofs/ScoreReal.lean`).  Helper lemmas live in `MD/Proofs/ScoreHQS.lean`.

* `hqsDom h y z` — the pairs the code accepts: any reals for `h = 1` and for odd integers `h > 1`,
  `y > 0 ∧ z > 0` for every other degree (`h = 0`, even integers such as `h = 2`, non-integers,
  negatives).  Outside: `ValueError`.
* `gfun h` — `id` (`h = 1`), `log` (`h = 0`), `x ↦ x^h / h` otherwise; strictly increasing on the domain.
* value on the domain: `(1{z ≥ y} − α) * (g z − g y)`; the `α = 1/2` shortcut `½|g z − g y|` of the
  code is the same number.

Consequences worth knowing (true of the model, i.e. of the code):
* "zero at perfect forecasts" needs the pair to be in the domain: e.g. `hqs 2 α (-1) (-1)` and
  `hqs 0 α 0 0` are `ValueError`, not `0` (`C04_hqs_even_degree_rejects_negative` below).
* `y = 0` is rejected for every degree other than `1` and the odd integers `> 1`, although
  `x^h/h` is finite at `0` for `h > 0`. -/

set_option linter.unusedSectionVars false

namespace MD
open Real

/-! ## C04 — homogeneous quantile score -/

theorem hqsDom_def (h y z : ℝ) :
    hqsDom h y z ↔ h = 1 ∨ (1 < h ∧ ∃ k : ℕ, h = 2 * (k : ℝ) + 1) ∨ (0 < y ∧ 0 < z) := Iff.rfl

theorem gfun_def (h x : ℝ) :
    gfun h x = if h = 1 then x else if h = 0 then Real.log x else x ^ h / h := rfl

/-- out-of-domain pairs are rejected with `ValueError` (every level, every degree) -/
theorem C04_hqs_domain_rejected (h α y z : ℝ) (nd : ¬ hqsDom h y z) :
    hqs h α y z = .error .valueError := hqs_err nd

/-- in-domain pairs are scored -/
theorem C04_hqs_ok (h α y z : ℝ) (d : hqsDom h y z) : ∃ v, hqs h α y z = .ok v :=
  ⟨_, hqs_closed' d⟩

/-- the call succeeds exactly on the domain -/
theorem C04_hqs_ok_iff (h α y z : ℝ) : (∃ v, hqs h α y z = .ok v) ↔ hqsDom h y z := by
  constructor
  · rintro ⟨v, e⟩; exact (hqs_ok_iff.1 e).1
  · exact C04_hqs_ok h α y z

/-- closed form of the score, valid for every level (the `α = 1/2` shortcut included) -/
theorem hqs_closed (h α y z : ℝ) (d : hqsDom h y z) :
    hqs h α y z = .ok ((geInd z y - α) * (gfun h z - gfun h y)) := hqs_closed' d

/-- the class constructor rejects levels outside `(0,1)` -/
theorem C04_hqs_level_rejected (h α y z : ℝ) (hα : ¬ (0 < α ∧ α < 1)) :
    scorePair .hqs h α y z = .error .valueError := by
  show (if levelOk α then hqs h α y z else throw Err.valueError) = _
  rw [if_neg (show ¬ levelOk α from hα)]; rfl

theorem C04_scorePair_hqs (h α y z : ℝ) (hα0 : 0 < α) (hα1 : α < 1) :
    scorePair .hqs h α y z = hqs h α y z := by
  show (if levelOk α then hqs h α y z else throw Err.valueError) = _
  rw [if_pos (show levelOk α from ⟨hα0, hα1⟩)]

/-- every returned score is non-negative -/
theorem C04_hqs_nonneg (h α y z v : ℝ) (hα0 : 0 < α) (hα1 : α < 1) (e : hqs h α y z = .ok v) :
    0 ≤ v := by
  obtain ⟨d, rfl⟩ := hqs_ok_iff.1 e
  exact hqsVal_nonneg hα0 hα1 d

/-- a perfect forecast (in the domain) scores exactly `0` -/
theorem C04_hqs_zero (h α y : ℝ) (d : hqsDom h y y) : hqs h α y y = .ok 0 := by
  rw [hqs_closed' d, hqsVal_self]

/-- an imperfect forecast scores strictly more than `0` (strict consistency per pair) -/
theorem C04_hqs_pos (h α y z v : ℝ) (hα0 : 0 < α) (hα1 : α < 1) (hne : y ≠ z)
    (e : hqs h α y z = .ok v) : 0 < v := by
  obtain ⟨d, rfl⟩ := hqs_ok_iff.1 e
  exact hqsVal_pos hα0 hα1 d hne

/-- moving the prediction away from the observation (on either side) never lowers the score -/
theorem C04_hqs_order_sensitive (h α y z₁ z₂ v₁ v₂ : ℝ) (hα0 : 0 < α) (hα1 : α < 1)
    (hord : (y ≤ z₁ ∧ z₁ ≤ z₂) ∨ (z₂ ≤ z₁ ∧ z₁ ≤ y))
    (e₁ : hqs h α y z₁ = .ok v₁) (e₂ : hqs h α y z₂ = .ok v₂) : v₁ ≤ v₂ := by
  obtain ⟨d₁, rfl⟩ := hqs_ok_iff.1 e₁
  obtain ⟨d₂, rfl⟩ := hqs_ok_iff.1 e₂
  rcases hord with ⟨a, b⟩ | ⟨a, b⟩
  · exact hqsVal_mono_right hα0 hα1 d₁ d₂ a b
  · exact hqsVal_mono_left hα0 hα1 d₁ d₂ a b

/-- an odd integer degree accepts negative values, an even one does not -/
example : hqsDom 3 (-1) 2 := by
  refine Or.inr (Or.inl ⟨by norm_num, 1, by norm_num⟩)

theorem not_hqsDom_two_neg : ¬ hqsDom 2 (-1) (-1) := by
  unfold hqsDom oddDeg
  rintro (h | ⟨-, k, hk⟩ | ⟨h, -⟩)
  · norm_num at h
  · have e : ((2 * k + 1 : ℕ) : ℝ) = ((2 : ℕ) : ℝ) := by push_cast; linarith
    have := Nat.cast_injective e; omega
  · norm_num at h

/-- degree `2` (any even integer `> 1` falls in the last branch): a perfect forecast of a negative
observation is a `ValueError`, not a zero score -/
theorem C04_hqs_even_degree_rejects_negative (α : ℝ) : hqs 2 α (-1) (-1) = .error .valueError :=
  hqs_err not_hqsDom_two_neg

/-- hypotheses of the order theorem are satisfiable: degree `3`, `y = -1 ≤ z₁ = 0 ≤ z₂ = 2` -/
example : ∃ v₁ v₂ : ℝ, hqs (3 : ℝ) (1 / 4) (-1) 0 = .ok v₁ ∧ hqs (3 : ℝ) (1 / 4) (-1) 2 = .ok v₂ := by
  have d : oddDeg 3 := ⟨by norm_num, 1, by norm_num⟩
  exact ⟨_, _, hqs_closed' (Or.inr (Or.inl d)), hqs_closed' (Or.inr (Or.inl d))⟩

example : hqsDom (5 / 2) 1 2 := Or.inr (Or.inr ⟨by norm_num, by norm_num⟩)

/-! ## C04 — log loss

Over `ℝ`, `Real.log 0 = 0`, so the REAL model returns a finite number at the boundary predictions
with a non-matching observation (`logLoss 1 0 = 0`, `logLoss 0 1 = 0`, see the `example`s), while
numpy returns `+inf` there (`-xlogy(1, 0) = inf`).  The theorems below are therefore stated for
`0 < z < 1` (where model, numpy and the mathematical score agree) plus the two boundary points
`(0,0)`, `(1,1)` where the mathematical score is finite (`= 0`). -/

theorem C04_logloss_scorePair (h α y z : ℝ) : scorePair .logloss h α y z = .ok (logLoss y z) := rfl

/-- the model is the Kullback–Leibler divergence of Bernoulli(`y`) from Bernoulli(`z`) -/
theorem C04_logloss_closed (y z : ℝ) (hy0 : 0 ≤ y) (hy1 : y ≤ 1) (hz0 : 0 < z) (hz1 : z < 1) :
    logLoss y z = y * Real.log (y / z) + (1 - y) * Real.log ((1 - y) / (1 - z)) :=
  logLoss_closed hy0 hy1 hz0 hz1

/-- the same with the `0 · log 0 = 0` convention made explicit by `xlogy` -/
theorem C04_logloss_closed_xlogy (y z : ℝ) (hy0 : 0 ≤ y) (hy1 : y ≤ 1) (hz0 : 0 < z) (hz1 : z < 1) :
    logLoss y z = xlogy y (y / z) + xlogy (1 - y) ((1 - y) / (1 - z)) := by
  rw [xlogy_real, xlogy_real]; exact logLoss_closed hy0 hy1 hz0 hz1

/-- binary observations: the familiar `−log(1 − z)` and `−log z`.  (The hypotheses are not used by
the proofs — over `ℝ` the identities hold for every `z` — they mark the range where `Real.log`
and `np.log` agree.) -/
theorem C04_logloss_y0 (z : ℝ) (_hz : z < 1) : logLoss 0 z = -Real.log (1 - z) := by
  rw [logLoss_real]; simp

theorem C04_logloss_y1 (z : ℝ) (_hz : 0 < z) : logLoss 1 z = -Real.log z := by
  rw [logLoss_real]; simp

/-- Gibbs inequality -/
theorem C04_logloss_nonneg (y z : ℝ) (hy0 : 0 ≤ y) (hy1 : y ≤ 1) (hz0 : 0 < z) (hz1 : z < 1) :
    0 ≤ logLoss y z := by
  rw [logLoss_closed hy0 hy1 hz0 hz1]
  have a := sub_le_mul_log_div hy0 hz0
  have b := sub_le_mul_log_div (by linarith : (0 : ℝ) ≤ 1 - y) (by linarith : (0 : ℝ) < 1 - z)
  linarith

/-- a perfect forecast scores `0`: in the real model for every `y`, in particular for
`0 < y < 1` (entropy correction) and at the boundary points -/
theorem C04_logloss_zero (y : ℝ) : logLoss y y = 0 := by
  rw [logLoss_real]; ring

theorem C04_logloss_zero_zero : logLoss (0 : ℝ) 0 = 0 := C04_logloss_zero 0
theorem C04_logloss_one_one : logLoss (1 : ℝ) 1 = 0 := C04_logloss_zero 1

/-- real-model artefacts at the boundary (numpy: `+inf`) — NOT properties of the code -/
example : logLoss (1 : ℝ) 0 = 0 := by rw [logLoss_real]; simp
example : logLoss (0 : ℝ) 1 = 0 := by rw [logLoss_real]; simp

/-- strictness: an imperfect forecast scores strictly more than `0` -/
theorem C04_logloss_pos (y z : ℝ) (hy0 : 0 ≤ y) (hy1 : y ≤ 1) (hz0 : 0 < z) (hz1 : z < 1)
    (hne : y ≠ z) : 0 < logLoss y z := by
  rw [logLoss_closed hy0 hy1 hz0 hz1]
  have z1 : (0 : ℝ) < 1 - z := by linarith
  rcases eq_or_lt_of_le hy0 with e | l
  · subst e
    have b := sub_lt_mul_log_div (by norm_num : (0 : ℝ) < 1 - 0) z1 (by intro e; apply hne; linarith)
    simp only [zero_mul, zero_add] at *
    linarith
  · have a := sub_lt_mul_log_div l hz0 hne
    have b := sub_le_mul_log_div (by linarith : (0 : ℝ) ≤ 1 - y) z1
    linarith

/-- for fixed `y ∈ [0,1]`, `z ↦ logLoss y z` is non-increasing on `(0, y]` and non-decreasing on
`[y, 1)` -/
theorem C04_logloss_order_sensitive (y z₁ z₂ : ℝ) (hy0 : 0 ≤ y) (hy1 : y ≤ 1)
    (hz₁ : 0 < z₁) (hz₁' : z₁ < 1) (hz₂ : 0 < z₂) (hz₂' : z₂ < 1)
    (hord : (y ≤ z₁ ∧ z₁ ≤ z₂) ∨ (z₂ ≤ z₁ ∧ z₁ ≤ y)) : logLoss y z₁ ≤ logLoss y z₂ := by
  apply logLoss_mono hy0 hy1 hz₁ hz₁' hz₂ hz₂'
  rcases hord with ⟨a, b⟩ | ⟨a, b⟩
  · exact mul_nonneg (by linarith) (by linarith)
  · exact mul_nonneg_of_nonpos_of_nonpos (by linarith) (by linarith)

/-- hypotheses of the log-loss theorems are satisfiable: `y = 1/3 ≤ z₁ = 1/2 ≤ z₂ = 3/4` -/
example : logLoss (1 / 3 : ℝ) (1 / 2) ≤ logLoss (1 / 3 : ℝ) (3 / 4) :=
  C04_logloss_order_sensitive _ _ _ (by norm_num) (by norm_num) (by norm_num) (by norm_num)
    (by norm_num) (by norm_num) (Or.inl ⟨by norm_num, by norm_num⟩)

/-! ## C14 — homogeneity of the quantile family -/

/-- the domain is a cone -/
theorem C14_hqs_domain_scale (h c y z : ℝ) (hc : 0 < c) :
    hqsDom h (c * y) (c * z) ↔ hqsDom h y z := hqsDom_mul_iff hc

/-- rescaling never changes acceptance: a rejected pair stays rejected -/
theorem C14_hqs_rejected_scale (h α c y z : ℝ) (hc : 0 < c)
    (e : hqs h α y z = .error .valueError) : hqs h α (c * y) (c * z) = .error .valueError := by
  apply hqs_err
  intro d
  rw [hqs_closed' ((hqsDom_mul_iff hc).1 d)] at e
  cases e

/-- positive homogeneity of degree `h` (`h ≠ 0`) -/
theorem C14_hqs_homogeneous (h α c y z : ℝ) (hc : 0 < c) (d : hqsDom h y z) (h0 : h ≠ 0) :
    ∃ v v', hqs h α (c * y) (c * z) = .ok v' ∧ hqs h α y z = .ok v ∧ v' = c ^ h * v :=
  ⟨_, _, hqs_closed' (hqsDom_mul hc d), hqs_closed' d, hqsVal_mul hc h0 d⟩

/-- degree `0`: scale invariance -/
theorem C14_hqs_scale_invariant (α c y z : ℝ) (hc : 0 < c) (d : hqsDom 0 y z) :
    ∃ v, hqs 0 α (c * y) (c * z) = .ok v ∧ hqs 0 α y z = .ok v :=
  ⟨_, by rw [hqs_closed' (hqsDom_mul hc d), hqsVal_mul_zero hc d], hqs_closed' d⟩

/-- degree `0` for all pairs (rejected pairs included) -/
theorem C14_hqs_scale_invariant' (α c y z : ℝ) (hc : 0 < c) :
    hqs 0 α (c * y) (c * z) = hqs 0 α y z := by
  by_cases d : hqsDom 0 y z
  · rw [hqs_closed' (hqsDom_mul hc d), hqsVal_mul_zero hc d, hqs_closed' d]
  · rw [hqs_err d, hqs_err (fun d' => d ((hqsDom_mul_iff hc).1 d'))]

/-- uniform statement: `c^0 = 1`, so the degree-`h` law holds for every real `h` -/
theorem C14_hqs_homogeneous_all (h α c y z : ℝ) (hc : 0 < c) (d : hqsDom h y z) :
    ∃ v v', hqs h α (c * y) (c * z) = .ok v' ∧ hqs h α y z = .ok v ∧ v' = c ^ h * v := by
  by_cases h0 : h = 0
  · subst h0
    refine ⟨_, _, hqs_closed' (hqsDom_mul hc d), hqs_closed' d, ?_⟩
    rw [hqsVal_mul_zero hc d, Real.rpow_zero, one_mul]
  · exact C14_hqs_homogeneous h α c y z hc d h0

example : hqsDom 3 (-1) 2 ∧ (3 : ℝ) ≠ 0 :=
  ⟨Or.inr (Or.inl ⟨by norm_num, 1, by norm_num⟩), by norm_num⟩

/-- `PinballLoss(level=α)` is the degree-`1` member of the family -/
theorem C14_pinball_eq_hqs (h α y z : ℝ) : scorePair .pinball h α y z = scorePair .hqs 1 α y z := rfl

theorem C14_pinball (h α y z : ℝ) (hα0 : 0 < α) (hα1 : α < 1) :
    scorePair .pinball h α y z = hqs 1 α y z := by
  show (if levelOk α then hqs 1 α y z else throw Err.valueError) = _
  rw [if_pos (show levelOk α from ⟨hα0, hα1⟩)]

theorem C14_pinball_closed (h α y z : ℝ) (hα0 : 0 < α) (hα1 : α < 1) :
    scorePair .pinball h α y z = .ok ((geInd z y - α) * (z - y)) := by
  rw [C14_pinball h α y z hα0 hα1, hqs_closed' (Or.inl rfl)]
  simp [hqsVal]

/-- at level `1/2` the code returns `½ |g z − g y|`, which is the general formula at `α = ½` -/
theorem C14_hqs_level_half_symmetric (h y z : ℝ) (d : hqsDom h y z) :
    hqs h (1 / 2) y z = .ok (1 / 2 * |gfun h z - gfun h y|) ∧
    1 / 2 * |gfun h z - gfun h y| = (geInd z y - 1 / 2) * (gfun h z - gfun h y) := by
  refine ⟨?_, half_abs_eq d⟩
  rw [hqs_raw d]; simp [hqsFin]

/-- at level `1/2` the score is symmetric in (observation, prediction), rejected pairs included -/
theorem C14_hqs_level_half_swap (h y z : ℝ) : hqs h (1 / 2) y z = hqs h (1 / 2) z y := by
  by_cases d : hqsDom h y z
  · rw [(C14_hqs_level_half_symmetric h y z d).1,
      (C14_hqs_level_half_symmetric h z y (hqsDom_symm d)).1, abs_sub_comm]
  · rw [hqs_err d, hqs_err (fun d' => d (hqsDom_symm d'))]

end MD

/- Observed `#print axioms` (Lean 4.33.0, Mathlib v4.33.0):
'MD.hqsDom_def' depends on axioms: [propext, Classical.choice, Quot.sound]
'MD.gfun_def' depends on axioms: [propext, Classical.choice, Quot.sound]
'MD.C04_hqs_domain_rejected' depends on axioms: [propext, Classical.choice, Quot.sound]
'MD.C04_hqs_ok' depends on axioms: [propext, Classical.choice, Quot.sound]
'MD.C04_hqs_ok_iff' depends on axioms: [propext, Classical.choice, Quot.sound]
'MD.hqs_closed' depends on axioms: [propext, Classical.choice, Quot.sound]
'MD.C04_hqs_level_rejected' depends on axioms: [propext, Classical.choice, Quot.sound]
'MD.C04_scorePair_hqs' depends on axioms: [propext, Classical.choice, Quot.sound]
'MD.C04_hqs_nonneg' depends on axioms: [propext, Classical.choice, Quot.sound]
'MD.C04_hqs_zero' depends on axioms: [propext, Classical.choice, Quot.sound]
'MD.C04_hqs_pos' depends on axioms: [propext, Classical.choice, Quot.sound]
'MD.C04_hqs_order_sensitive' depends on axioms: [propext, Classical.choice, Quot.sound]
'MD.not_hqsDom_two_neg' depends on axioms: [propext, Classical.choice, Quot.sound]
'MD.C04_hqs_even_degree_rejects_negative' depends on axioms: [propext, Classical.choice, Quot.sound]
'MD.C04_logloss_scorePair' depends on axioms: [propext, Classical.choice, Quot.sound]
'MD.C04_logloss_closed' depends on axioms: [propext, Classical.choice, Quot.sound]
'MD.C04_logloss_closed_xlogy' depends on axioms: [propext, Classical.choice, Quot.sound]
'MD.C04_logloss_y0' depends on axioms: [propext, Classical.choice, Quot.sound]
'MD.C04_logloss_y1' depends on axioms: [propext, Classical.choice, Quot.sound]
'MD.C04_logloss_nonneg' depends on axioms: [propext, Classical.choice, Quot.sound]
'MD.C04_logloss_zero' depends on axioms: [propext, Classical.choice, Quot.sound]
'MD.C04_logloss_zero_zero' depends on axioms: [propext, Classical.choice, Quot.sound]
'MD.C04_logloss_one_one' depends on axioms: [propext, Classical.choice, Quot.sound]
'MD.C04_logloss_pos' depends on axioms: [propext, Classical.choice, Quot.sound]
'MD.C04_logloss_order_sensitive' depends on axioms: [propext, Classical.choice, Quot.sound]
'MD.C14_hqs_domain_scale' depends on axioms: [propext, Classical.choice, Quot.sound]
'MD.C14_hqs_rejected_scale' depends on axioms: [propext, Classical.choice, Quot.sound]
'MD.C14_hqs_homogeneous' depends on axioms: [propext, Classical.choice, Quot.sound]
'MD.C14_hqs_scale_invariant' depends on axioms: [propext, Classical.choice, Quot.sound]
'MD.C14_hqs_scale_invariant'' depends on axioms: [propext, Classical.choice, Quot.sound]
'MD.C14_hqs_homogeneous_all' depends on axioms: [propext, Classical.choice, Quot.sound]
'MD.C14_pinball_eq_hqs' depends on axioms: [propext, Classical.choice, Quot.sound]
'MD.C14_pinball' depends on axioms: [propext, Classical.choice, Quot.sound]
'MD.C14_pinball_closed' depends on axioms: [propext, Classical.choice, Quot.sound]
'MD.C14_hqs_level_half_symmetric' depends on axioms: [propext, Classical.choice, Quot.sound]
'MD.C14_hqs_level_half_swap' depends on axioms: [propext, Classical.choice, Quot.sound]
-/
