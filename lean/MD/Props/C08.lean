import MD.Proofs.IdentLemmas

/-! # C08 — `identification_function(y_obs, y_pred, functional, level)`

"For every observation the identification function is non-decreasing in the prediction; its
(weighted) sample average is zero at the sample mean / expectile, and for quantiles it is negative
for every prediction below the lower empirical quantile and non-negative from it onwards, equalling
(share of observations <= prediction) - level. 'median' equals 'quantile' at level 0.5 and
'expectile' at level 0.5 equals 'mean'."

Property theorems about the model functions `identFn` (one pair; `y` observation, `z` prediction)
and `identArr` (arrays).  `|·|` inside the model is `absK`.  Helper lemmas live in
`MD/Proofs/IdentLemmas.lean`. -/

set_option linter.unusedSectionVars false

namespace MD.Props
variable {K : Type} [Field K] [LinearOrder K] [IsStrictOrderedRing K]

/-- closed forms for a valid level -/
theorem C08_closed_forms (α : K) (hα0 : 0 < α) (hα1 : α < 1) (y z : K) :
    identFn (some .mean) α y z = .ok (z - y) ∧
    identFn (some .median) α y z = .ok (geInd z y - 1 / 2) ∧
    identFn (some .expectile) α y z = .ok (2 * absK (geInd z y - α) * (z - y)) ∧
    identFn (some .quantile) α y z = .ok (geInd z y - α) :=
  ⟨identFn_mean α y z, identFn_median α y z, identFn_expectile α y z hα0 hα1,
    identFn_quantile α y z hα0 hα1⟩

/-- the model's `absK` is the absolute value, and `|1{y ≤ z} - α|` is `1 - α` resp. `α` -/
theorem C08_abs (α : K) (hα0 : 0 < α) (hα1 : α < 1) (y z : K) :
    absK (geInd z y - α) = |geInd z y - α| ∧
    absK (geInd z y - α) = (if y ≤ z then 1 - α else α) :=
  ⟨absK_eq_abs _, absK_geInd α hα0 hα1 z y⟩

/-- for a valid level the call succeeds for each of the four functionals -/
theorem C08_ok (f : Functional) (α : K) (hα0 : 0 < α) (hα1 : α < 1) (y z : K) :
    ∃ v, identFn (some f) α y z = .ok v :=
  ⟨_, identFn_eq_val f α y z hα0 hα1⟩

/-- non-decreasing in the prediction, for each of the four functionals -/
theorem C08_monotone_in_prediction (f : Functional) (α : K) (hα0 : 0 < α) (hα1 : α < 1)
    (y z₁ z₂ : K) (hz : z₁ ≤ z₂) (v₁ v₂ : K)
    (h₁ : identFn (some f) α y z₁ = .ok v₁) (h₂ : identFn (some f) α y z₂ = .ok v₂) :
    v₁ ≤ v₂ := by
  rw [identFn_eq_val f α y _ hα0 hα1] at h₁ h₂
  rw [← Except.ok.inj h₁, ← Except.ok.inj h₂]
  exact identVal_mono f α hα0 hα1 y hz

/-- sign: negative below the observation, non-negative from it onwards (all four functionals);
for mean and expectile the value vanishes exactly at the observation -/
theorem C08_sign (f : Functional) (α : K) (hα0 : 0 < α) (hα1 : α < 1) (y z v : K)
    (h : identFn (some f) α y z = .ok v) :
    (z < y → v < 0) ∧ (y ≤ z → 0 ≤ v) ∧
    ((f = .mean ∨ f = .expectile) → (v = 0 ↔ z = y)) := by
  rw [identFn_eq_val f α y _ hα0 hα1] at h
  rw [← Except.ok.inj h]
  refine ⟨identVal_neg f α hα0 hα1, identVal_nonneg f α hα0 hα1, ?_⟩
  rintro (rfl | rfl)
  · exact identVal_mean_eq_zero_iff α y z
  · exact identVal_expectile_eq_zero_iff α hα0 hα1 y z

/-- the weighted sum of the identification function vanishes at the weighted sample mean
(any `α`: the level is ignored for the mean) -/
theorem C08_mean_zero_at_mean (α : K) (d : List (Obs K)) (hne : d ≠ [])
    (hpos : ∀ o ∈ d, 0 < o.2) :
    (∀ o ∈ d, identFn (some .mean) α o.1 (wmean d) = .ok (wmean d - o.1)) ∧
    (d.map fun o => o.2 * (wmean d - o.1)).sum = 0 :=
  ⟨fun o _ => identFn_mean α o.1 (wmean d), sum_mean_ident_wmean d hne hpos⟩

/-- the same through the array function: whatever `identArr` returns for the constant prediction
`wmean d` has weighted sum zero -/
theorem C08_mean_zero_at_mean_arr (α : K) (d : List (Obs K)) (hne : d ≠ [])
    (hpos : ∀ o ∈ d, 0 < o.2) :
    ∃ vs, identArr (some .mean) α (d.map (·.1)) (List.replicate d.length (wmean d)) = .ok vs ∧
      (List.zipWith (· * ·) (d.map (·.2)) vs).sum = 0 := by
  refine ⟨_, identArr_mean_ok α _ _ (by simp), ?_⟩
  rw [← sum_mean_ident_wmean d hne hpos]
  congr 1
  generalize wmean d = t
  clear hne hpos
  induction d with
  | nil => rfl
  | cons o d ih =>
    simp only [List.map_cons, List.length_cons, List.replicate_succ, List.zip_cons_cons,
      List.zipWith_cons_cons]
    rw [ih]

/-- the weighted sum of the identification function vanishes at the weighted sample expectile -/
theorem C08_expectile_zero_at_expectile (α : K) (hα0 : 0 < α) (hα1 : α < 1) (d : List (Obs K))
    (hne : d ≠ []) (hpos : ∀ o ∈ d, 0 < o.2) :
    (∀ o ∈ d, identFn (some .expectile) α o.1 (expectile α d)
      = .ok (2 * absK (geInd (expectile α d) o.1 - α) * (expectile α d - o.1))) ∧
    (d.map fun o =>
      o.2 * (2 * absK (geInd (expectile α d) o.1 - α) * (expectile α d - o.1))).sum = 0 := by
  refine ⟨fun o _ => identFn_expectile α o.1 _ hα0 hα1, ?_⟩
  rw [sum_expectile_ident α hα0 hα1, eSum_expectile α hα0 hα1 d hne hpos, mul_zero]

/-- the sum of the quantile identification function at prediction `u` is `#{y ≤ u} - α n`, i.e. its
average is `F̂(u) - α` -/
theorem C08_quantile_average (α : K) (hα0 : 0 < α) (hα1 : α < 1) (d : List (Obs K)) (u : K) :
    (∀ o ∈ d, identFn (some .quantile) α o.1 u = .ok (geInd u o.1 - α)) ∧
    (d.map fun o => (geInd u o.1 - α)).sum = (cntLe d u : K) - α * (d.length : K) :=
  ⟨fun o _ => identFn_quantile α o.1 u hα0 hα1, sum_quant_ident α d u⟩

/-- … negative for every prediction below the lower empirical quantile, non-negative from it on -/
theorem C08_quantile_sign (α : K) (hα0 : 0 < α) (hα1 : α < 1) (d : List (Obs K)) (hne : d ≠ [])
    (u : K) :
    (u < qLower α d → (cntLe d u : K) - α * (d.length : K) < 0) ∧
    (qLower α d ≤ u → 0 ≤ (cntLe d u : K) - α * (d.length : K)) := by
  have h := (quantFun α hα0 hα1).spec d hne (fun _ _ => trivial) u
  simp only [quantFun] at h
  rw [Esum_quant] at h
  constructor
  · intro hu
    by_contra hcon
    exact absurd (h.mpr (not_lt.mp hcon)) (not_le.mpr hu)
  · exact h.mp

/-- `"median"` is `"quantile"` at level 1/2, whatever level is passed along with `"median"` -/
theorem C08_median_alias (β y z : K) :
    identFn (some .median) β y z = identFn (some .quantile) (1 / 2) y z := by
  rw [identFn_median, identFn_quantile _ y z ident_half_pos' half_lt_one']

/-- `"expectile"` at level 1/2 is `"mean"` -/
theorem C08_expectile_half_is_mean (β y z : K) :
    identFn (some .expectile) (1 / 2) y z = identFn (some .mean) β y z := by
  rw [identFn_mean, identFn_expectile _ y z ident_half_pos' half_lt_one',
    absK_geInd _ ident_half_pos' half_lt_one']
  congr 1
  split <;> ring

/-- error behaviour: unknown functional; level outside `(0,1)` for expectile / quantile; the level
is ignored for mean / median; arrays of different length -/
theorem C08_invalid (α y z : K) :
    identFn none α y z = .error .valueError ∧
    ((α ≤ 0 ∨ 1 ≤ α) → identFn (some .expectile) α y z = .error .valueError) ∧
    ((α ≤ 0 ∨ 1 ≤ α) → identFn (some .quantile) α y z = .error .valueError) ∧
    identFn (some .mean) α y z = .ok (z - y) ∧
    identFn (some .median) α y z = .ok (geInd z y - 1 / 2) :=
  ⟨identFn_none α y z, identFn_expectile_invalid α y z, identFn_quantile_invalid α y z,
    identFn_mean α y z, identFn_median α y z⟩

theorem C08_invalid_arr (f : Option Functional) (α : K) (ys zs : List K)
    (h : ys.length ≠ zs.length) : identArr f α ys zs = .error .valueError :=
  identArr_length_error f α ys zs h

/-- for equal lengths and a valid level the array call succeeds, pair by pair -/
theorem C08_arr_ok (f : Functional) (α : K) (hα0 : 0 < α) (hα1 : α < 1) (ys zs : List K)
    (h : ys.length = zs.length) :
    ∃ vs, identArr (some f) α ys zs = .ok vs ∧ vs.length = ys.length ∧
      ∀ i (hi : i < vs.length) (hy : i < ys.length) (hz : i < zs.length),
        identFn (some f) α ys[i] zs[i] = .ok vs[i] := by
  refine ⟨_, identArr_ok f α hα0 hα1 ys zs h, by simp [h], ?_⟩
  intro i hi hy hz
  rw [identFn_eq_val f α _ _ hα0 hα1]
  simp

/-! ## The hypotheses are satisfiable, and concrete values -/

example : identFn (some .expectile) (1 / 4 : ℚ) 2 5 = .ok (9 / 2) := by
  rw [(C08_closed_forms (1 / 4 : ℚ) (by norm_num) (by norm_num) 2 5).2.2.1]
  norm_num [absK, geInd]

example : identFn (some .quantile) (1 / 4 : ℚ) 5 2 = .ok (-1 / 4) := by
  rw [(C08_closed_forms (1 / 4 : ℚ) (by norm_num) (by norm_num) 5 2).2.2.2]
  norm_num [geInd]

/-- a weighted sample for `C08_mean_zero_at_mean` / `C08_expectile_zero_at_expectile` -/
example : ([(3, 2), (1, 1), (2, 3)] : List (Obs ℚ)) ≠ [] ∧
    ∀ o ∈ ([(3, 2), (1, 1), (2, 3)] : List (Obs ℚ)), 0 < o.2 := by
  refine ⟨by simp, ?_⟩
  intro o ho
  simp at ho
  rcases ho with rfl | rfl | rfl <;> norm_num

/-- both cases of `C08_quantile_sign` occur: the lower median of `1,2,3,4` is `2` -/
example : ((cntLe ([(1, 1), (2, 1), (3, 1), (4, 1)] : List (Obs ℚ)) 1 : ℚ)
      - 1 / 2 * (([(1, 1), (2, 1), (3, 1), (4, 1)] : List (Obs ℚ)).length : ℚ) < 0) ∧
    (0 ≤ (cntLe ([(1, 1), (2, 1), (3, 1), (4, 1)] : List (Obs ℚ)) 2 : ℚ)
      - 1 / 2 * (([(1, 1), (2, 1), (3, 1), (4, 1)] : List (Obs ℚ)).length : ℚ)) := by
  norm_num [cntLe, List.countP_cons]

/-- `C08_invalid`: a level outside `(0,1)` -/
example : identFn (some .quantile) (1 : ℚ) 0 0 = .error .valueError :=
  (C08_invalid (1 : ℚ) 0 0).2.2.1 (Or.inr le_rfl)

end MD.Props

/-
`#print axioms` (observed with `lake env lean MD/Props/C08.lean`):
'MD.Props.C08_closed_forms' depends on axioms: [propext, Classical.choice, Quot.sound]
'MD.Props.C08_abs' depends on axioms: [propext, Classical.choice, Quot.sound]
'MD.Props.C08_ok' depends on axioms: [propext, Classical.choice, Quot.sound]
'MD.Props.C08_monotone_in_prediction' depends on axioms: [propext, Classical.choice, Quot.sound]
'MD.Props.C08_sign' depends on axioms: [propext, Classical.choice, Quot.sound]
'MD.Props.C08_mean_zero_at_mean' depends on axioms: [propext, Classical.choice, Quot.sound]
'MD.Props.C08_mean_zero_at_mean_arr' depends on axioms: [propext, Classical.choice, Quot.sound]
'MD.Props.C08_expectile_zero_at_expectile' depends on axioms: [propext, Classical.choice, Quot.sound]
'MD.Props.C08_quantile_average' depends on axioms: [propext, Quot.sound]
'MD.Props.C08_quantile_sign' depends on axioms: [propext, Classical.choice, Quot.sound]
'MD.Props.C08_median_alias' depends on axioms: [propext, Classical.choice, Quot.sound]
'MD.Props.C08_expectile_half_is_mean' depends on axioms: [propext, Classical.choice, Quot.sound]
'MD.Props.C08_invalid' depends on axioms: [propext, Classical.choice, Quot.sound]
'MD.Props.C08_invalid_arr' depends on axioms: [propext, Quot.sound]
'MD.Props.C08_arr_ok' depends on axioms: [propext, Classical.choice, Quot.sound]
-/
