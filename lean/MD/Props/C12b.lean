import MD.Props.C01
import MD.Props.C03
import MD.Proofs.Replicate
import MD.Proofs.DecompLemmas

/-! # C12 (continued) — integer weights act like repeated observations

`isotonic_regression(y, weights = n)` with positive integer weights `n` returns, entry by entry,
what `isotonic_regression(rep y n)` (no weights; the `i`-th observation written down `n[i]` times)
returns on the copies of that entry: the second fit is the first one repeated in the same way.
Mean and expectile (the functionals that accept weights), both directions, every level for which
the weighted call succeeds.

Proof: uniqueness (`C01_unique`, `C03_unique`).  The repeated fit `rep x n` is monotone, and it is
optimal on the repeated data (`rep_optimal` in `MD/Proofs/Replicate.lean`): its unweighted total
loss there *is* the weighted total loss of `x` on `(y, n)`, and from every monotone competitor on
the repeated data one can pick one entry per group of copies — a monotone sequence on the original
rows — whose weighted loss is not larger (all copies of a row carry the same `y`). -/

set_option linter.unusedSectionVars false

namespace MD.Props
variable {K : Type} [Field K] [LinearOrder K] [IsStrictOrderedRing K]

/-- `rep` is the function `dec_rep` of `MD/Proofs/DecompLemmas.lean` (used by `C07_replication`) -/
theorem rep_eq_dec_rep {β : Type} (l : List β) (n : List Nat) : rep l n = dec_rep l n := by
  induction l generalizing n with
  | nil => simp [dec_rep]
  | cons a l ih =>
    cases n with
    | nil => simp [dec_rep]
    | cons k n => rw [rep_cons, dec_rep, ih]

theorem rep_cast_pos {n : List Nat} (hpos : ∀ k ∈ n, 0 < k) :
    ∀ v ∈ n.map (fun k : Nat => (k : K)), 0 < v := by
  intro v hv
  obtain ⟨k, hk, rfl⟩ := List.mem_map.mp hv
  exact_mod_cast hpos k hk

/-- mean: the fit of the repeated observations is the repeated weighted fit -/
theorem C12_integer_weights_replicate_mean (α : K) (inc : Bool) (y : List K) (n : List Nat)
    (hlen : n.length = y.length) (hpos : ∀ k ∈ n, 0 < k) (x : List K) (r : List Nat)
    (h : isoReg (some .mean) α inc y (some (n.map (fun k : Nat => (k : K)))) = .ok (x, r)) :
    ∃ r', isoReg (some .mean) α inc (rep y n) none = .ok (rep x n, r') := by
  have hwl : (n.map (fun k : Nat => (k : K))).length = y.length := by simpa using hlen
  have hwp := rep_cast_pos (K := K) hpos
  have hne : y ≠ [] := by
    intro hy
    subst hy
    rw [isoReg_mean_empty α inc _ (by simpa using hlen)] at h
    cases h
  have hxl := C01_length α inc y _ hne hwl hwp x r h
  have hne' : rep y n ≠ [] := rep_ne_nil hne hlen hpos
  obtain ⟨x', r', h', hl'⟩ := C01_ok α inc (rep y n) ((rep y n).map fun _ => (1 : K)) hne'
    (ones_length _) (ones_pos _)
  have hu := C01_unique α inc (rep y n) ((rep y n).map fun _ => (1 : K)) hne'
    (ones_length _) (ones_pos _) x' r' h' (rep x n) (rep_length_eq x y n hxl)
    (rep_monoDir inc x n (C01_monotone α inc y _ hne hwl hwp x r h))
    (rep_optimal sqErr.S rep_sqErr_linear inc y n hlen hpos x hxl
      (fun zs hz hm => C01_optimal α inc y _ hne hwl hwp x r h zs hz hm) x' hl'
      (C01_monotone α inc _ _ hne' (ones_length _) (ones_pos _) x' r' h'))
  refine ⟨r', ?_⟩
  rw [C01_unweighted, h', hu]

/-- expectile: the fit of the repeated observations is the repeated weighted fit -/
theorem C12_integer_weights_replicate_expectile (α : K) (inc : Bool) (y : List K) (n : List Nat)
    (hlen : n.length = y.length) (hpos : ∀ k ∈ n, 0 < k) (x : List K) (r : List Nat)
    (h : isoReg (some .expectile) α inc y (some (n.map (fun k : Nat => (k : K)))) = .ok (x, r)) :
    ∃ r', isoReg (some .expectile) α inc (rep y n) none = .ok (rep x n, r') := by
  have hwl : (n.map (fun k : Nat => (k : K))).length = y.length := by simpa using hlen
  have hwp := rep_cast_pos (K := K) hpos
  have hα : 0 < α ∧ α < 1 := by
    by_contra hcon
    have : α ≤ 0 ∨ 1 ≤ α := by
      by_contra hc
      rw [not_or, not_le, not_le] at hc
      exact hcon hc
    rw [isoReg_level_error _ (Or.inl rfl) α this] at h
    cases h
  obtain ⟨hα0, hα1⟩ := hα
  have hne : y ≠ [] := by
    intro hy
    subst hy
    rw [isoReg_expectile_empty α hα0 hα1 inc _ (by simpa using hlen)] at h
    cases h
  have hxl := C03_length α hα0 hα1 inc y _ hne hwl hwp x r h
  have hne' : rep y n ≠ [] := rep_ne_nil hne hlen hpos
  obtain ⟨x', r', h', hl'⟩ := C03_ok α hα0 hα1 inc (rep y n) ((rep y n).map fun _ => (1 : K)) hne'
    (ones_length _) (ones_pos _)
  have hu := C03_unique α hα0 hα1 inc (rep y n) ((rep y n).map fun _ => (1 : K)) hne'
    (ones_length _) (ones_pos _) x' r' h' (rep x n) (rep_length_eq x y n hxl)
    (rep_monoDir inc x n (C03_monotone α hα0 hα1 inc y _ hne hwl hwp x r h))
    (rep_optimal (asymSq α hα0 hα1).S (rep_asymSq_linear α hα0 hα1) inc y n hlen hpos x hxl
      (fun zs hz hm => C03_optimal α hα0 hα1 inc y _ hne hwl hwp x r h zs hz hm) x' hl'
      (C03_monotone α hα0 hα1 inc _ _ hne' (ones_length _) (ones_pos _) x' r' h'))
  refine ⟨r', ?_⟩
  rw [C03_unweighted, h', hu]

/-- **integer weights act like repeated observations** (mean and expectile, both directions):
if the call with the positive integer weights `n` returns `x`, the unweighted call on the data in
which the `i`-th observation is repeated `n[i]` times returns `x` repeated in the same way -/
theorem C12_integer_weights_replicate (fn : Option Functional)
    (hfn : fn = some .mean ∨ fn = some .expectile) (α : K) (inc : Bool) (y : List K)
    (n : List Nat) (hlen : n.length = y.length) (hpos : ∀ k ∈ n, 0 < k) (x : List K)
    (r : List Nat)
    (h : isoReg fn α inc y (some (n.map (fun k : Nat => (k : K)))) = .ok (x, r)) :
    ∃ r', isoReg fn α inc (rep y n) none = .ok (rep x n, r') := by
  rcases hfn with rfl | rfl
  · exact C12_integer_weights_replicate_mean α inc y n hlen hpos x r h
  · exact C12_integer_weights_replicate_expectile α inc y n hlen hpos x r h

/-- the other way round: the weighted call succeeds whenever the data are non-empty (and the level
is admissible), so the fit of the repeated observations always *is* a repeated weighted fit -/
theorem C12_replicate_is_weighted_mean (α : K) (inc : Bool) (y : List K) (hne : y ≠ [])
    (n : List Nat) (hlen : n.length = y.length) (hpos : ∀ k ∈ n, 0 < k) :
    ∃ x r r', isoReg (some .mean) α inc y (some (n.map (fun k : Nat => (k : K)))) = .ok (x, r) ∧
      isoReg (some .mean) α inc (rep y n) none = .ok (rep x n, r') := by
  obtain ⟨x, r, h, _⟩ := C01_ok α inc y (n.map (fun k : Nat => (k : K))) hne
    (by simpa using hlen) (rep_cast_pos hpos)
  obtain ⟨r', h'⟩ := C12_integer_weights_replicate_mean α inc y n hlen hpos x r h
  exact ⟨x, r, r', h, h'⟩

theorem C12_replicate_is_weighted_expectile (α : K) (hα0 : 0 < α) (hα1 : α < 1) (inc : Bool)
    (y : List K) (hne : y ≠ []) (n : List Nat) (hlen : n.length = y.length)
    (hpos : ∀ k ∈ n, 0 < k) :
    ∃ x r r',
      isoReg (some .expectile) α inc y (some (n.map (fun k : Nat => (k : K)))) = .ok (x, r) ∧
      isoReg (some .expectile) α inc (rep y n) none = .ok (rep x n, r') := by
  obtain ⟨x, r, h, _⟩ := C03_ok α hα0 hα1 inc y (n.map (fun k : Nat => (k : K))) hne
    (by simpa using hlen) (rep_cast_pos hpos)
  obtain ⟨r', h'⟩ := C12_integer_weights_replicate_expectile α inc y n hlen hpos x r h
  exact ⟨x, r, r', h, h'⟩

/-! ## Non-vacuity -/

/-- what `rep` does -/
example : rep ([3, 1, 2] : List ℚ) [2, 1, 3] = [3, 3, 1, 2, 2, 2] := by
  simp [rep, List.replicate]

/-- the hypotheses of `C12_integer_weights_replicate` are satisfiable: a successful weighted call
with positive integer weights (decreasing direction, a violation in the data) -/
example : ([2, 1, 3] : List Nat).length = ([3, 1, 2] : List ℚ).length ∧
    (∀ k ∈ ([2, 1, 3] : List Nat), 0 < k) ∧
    ∃ x r, isoReg (some .mean) (0 : ℚ) false [3, 1, 2]
      (some (([2, 1, 3] : List Nat).map (fun k : Nat => (k : ℚ)))) = .ok (x, r) := by
  refine ⟨rfl, by decide, ?_⟩
  obtain ⟨x, r, h, _⟩ := C01_ok (0 : ℚ) false [3, 1, 2]
    (([2, 1, 3] : List Nat).map (fun k : Nat => (k : ℚ))) (by simp) (by simp)
    (rep_cast_pos (by decide))
  exact ⟨x, r, h⟩

end MD.Props

/-
Sanity checks at `Rat` (`#eval`, not part of the proofs):
  isoReg (some .mean) (0 : Rat) true [3, 1, 2, 5, 4] (some [1, 2, 1, 1, 3])
    = .ok ([5/3, 5/3, 2, 17/4, 17/4], [0, 2, 3, 5])
  isoReg (some .mean) (0 : Rat) true (rep [3, 1, 2, 5, 4] [1, 2, 1, 1, 3]) none
    = .ok ([5/3, 5/3, 5/3, 2, 17/4, 17/4, 17/4, 17/4], [0, 3, 4, 8])
  isoReg (some .expectile) (1/4 : Rat) false [3, 1, 2, 5, 4] (some [1, 2, 1, 1, 3])
    = .ok ([3, 29/13, 29/13, 29/13, 29/13], [0, 1, 5])
  isoReg (some .expectile) (1/4 : Rat) false (rep [3, 1, 2, 5, 4] [1, 2, 1, 1, 3]) none
    = .ok ([3, 29/13, 29/13, 29/13, 29/13, 29/13, 29/13, 29/13], [0, 1, 8])

`#print axioms` (observed with `lake env lean MD/Props/C12b.lean`):
'MD.Props.rep_eq_dec_rep' depends on axioms: [propext]
'MD.Props.C12_integer_weights_replicate_mean' depends on axioms: [propext, Classical.choice, Quot.sound]
'MD.Props.C12_integer_weights_replicate_expectile' depends on axioms: [propext, Classical.choice, Quot.sound]
'MD.Props.C12_integer_weights_replicate' depends on axioms: [propext, Classical.choice, Quot.sound]
'MD.Props.C12_replicate_is_weighted_mean' depends on axioms: [propext, Classical.choice, Quot.sound]
'MD.Props.C12_replicate_is_weighted_expectile' depends on axioms: [propext, Classical.choice, Quot.sound]
-/
