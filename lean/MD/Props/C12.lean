import MD.Proofs.Equivariance

/-! # C12 — output contract and equivariances of `isotonic_regression`

Property theorems about the top-level model function `isoReg`, for **every** functional
(`mean`, `expectile` with or without weights; `quantile`, `median` unweighted), **both** directions
and every level.  The contract theorems are stated for an arbitrary successful call
`isoReg fn α inc y w = .ok (x, r)` — success already implies the guards the code enforces (known
functional, level in `(0, 1)` where it is used, weights of the right length and positive, no
weights for quantile/median, `y ≠ []`; see `eqValidate_ok`).  The equivariance theorems are
equations between two calls of `isoReg` and hold on every input, error cases included.

Proofs live in `MD/Proofs/Equivariance.lean` (`eq_isoReg`: normal form of `isoReg`;
`gpava_contract`, `gpava_sorted_fixed`, `gpava_idempotent`, `gpava_map`, `fit_affine_*`,
`fit_weight_scale_*`, `quantileFit_sorted_fixed`, `quantileFit_idempotent`). -/

set_option linter.unusedSectionVars false

namespace MD.Props
variable {K : Type} [Field K] [LinearOrder K] [IsStrictOrderedRing K]

/-- the result has the input's length -/
theorem C12_length (fn : Option Functional) (α : K) (inc : Bool) (y : List K)
    (w : Option (List K)) (x : List K) (r : List Nat)
    (h : isoReg fn α inc y w = .ok (x, r)) : x.length = y.length :=
  isoReg_length h

/-- every fitted value lies in `[min y, max y]`: between two data values -/
theorem C12_range (fn : Option Functional) (α : K) (inc : Bool) (y : List K)
    (w : Option (List K)) (x : List K) (r : List Nat)
    (h : isoReg fn α inc y w = .ok (x, r)) :
    ∀ v ∈ x, (∃ a ∈ y, a ≤ v) ∧ (∃ b ∈ y, v ≤ b) :=
  isoReg_range h

/-- the block index vector starts at `0`, ends at `n`, is strictly increasing, and its interior
entries are exactly the positions where the fit changes its value -/
theorem C12_r_wellformed (fn : Option Functional) (α : K) (inc : Bool) (y : List K)
    (w : Option (List K)) (x : List K) (r : List Nat)
    (h : isoReg fn α inc y w = .ok (x, r)) :
    r.head? = some 0 ∧ r.getLast? = some y.length ∧ r.Pairwise (· < ·) ∧
      ∀ i, i + 1 < x.length → (i + 1 ∈ r ↔ x[i]? ≠ x[i + 1]?) := by
  have hb := isoReg_blockVec h
  exact ⟨hb.head, by rw [hb.last, isoReg_length h], hb.strict, hb.change⟩

/-- values are constant inside a block: if no entry of `r` lies in `(i, j]`, then `x[i] = x[j]` -/
theorem C12_r_constant_inside (fn : Option Functional) (α : K) (inc : Bool) (y : List K)
    (w : Option (List K)) (x : List K) (r : List Nat)
    (h : isoReg fn α inc y w = .ok (x, r)) (i j : Nat) (hij : i ≤ j) (hj : j < x.length)
    (hno : ∀ b ∈ r, b ≤ i ∨ j < b) : x[i]? = x[j]? :=
  (isoReg_blockVec h).const i j hij hj hno

/-- values differ between adjacent blocks: the fit changes across every interior entry of `r` -/
theorem C12_r_differ_across (fn : Option Functional) (α : K) (inc : Bool) (y : List K)
    (w : Option (List K)) (x : List K) (r : List Nat)
    (h : isoReg fn α inc y w = .ok (x, r)) (b : Nat) (hb : b ∈ r) (h0 : 0 < b)
    (hn : b < x.length) : x[b - 1]? ≠ x[b]? :=
  (isoReg_blockVec h).differ b hb h0 hn

/-- input that is already monotone in the requested direction is returned unchanged -/
theorem C12_monotone_fixed (fn : Option Functional) (α : K) (inc : Bool) (y : List K)
    (w : Option (List K)) (x : List K) (r : List Nat)
    (h : isoReg fn α inc y w = .ok (x, r)) (hm : MonoDir inc y) : x = y :=
  isoReg_monotone_fixed h hm

/-- the fit is idempotent: refitting the fitted values returns them, with the same blocks -/
theorem C12_idempotent (fn : Option Functional) (α : K) (inc : Bool) (y : List K)
    (w : Option (List K)) (x : List K) (r : List Nat)
    (h : isoReg fn α inc y w = .ok (x, r)) : isoReg fn α inc x w = .ok (x, r) :=
  isoReg_idempotent h

/-- the fit commutes with reversing the data (and the weights) together with the direction: the
fitted values are reversed and the block vector is mirrored, `r ↦ (n - r)[::-1]`; on every input,
error cases included -/
theorem C12_reverse_commutes (fn : Option Functional) (α : K) (inc : Bool) (y : List K)
    (w : Option (List K)) :
    isoReg fn α (!inc) y.reverse (w.map List.reverse)
      = (isoReg fn α inc y w).map
          (fun p => (p.1.reverse, p.2.reverse.map (fun i => y.length - i))) :=
  isoReg_reverse fn α inc y w

/-- the same for a successful call -/
theorem C12_reverse_commutes_ok (fn : Option Functional) (α : K) (inc : Bool) (y : List K)
    (w : Option (List K)) (x : List K) (r : List Nat)
    (h : isoReg fn α inc y w = .ok (x, r)) :
    isoReg fn α (!inc) y.reverse (w.map List.reverse)
      = .ok (x.reverse, r.reverse.map (fun i => y.length - i)) := by
  rw [C12_reverse_commutes, h]
  rfl

/-- the fit commutes with positive affine maps of `y` (the block vector is unchanged); on every
input, error cases included -/
theorem C12_affine (fn : Option Functional) (α : K) (inc : Bool) (y : List K)
    (w : Option (List K)) (a b : K) (ha : 0 < a) :
    isoReg fn α inc (y.map fun v => a * v + b) w
      = (isoReg fn α inc y w).map (fun p => (p.1.map (fun v => a * v + b), p.2)) :=
  isoReg_affine fn α inc y w a b ha

/-- the same for a successful call -/
theorem C12_affine_ok (fn : Option Functional) (α : K) (inc : Bool) (y : List K)
    (w : Option (List K)) (a b : K) (ha : 0 < a) (x : List K) (r : List Nat)
    (h : isoReg fn α inc y w = .ok (x, r)) :
    isoReg fn α inc (y.map fun v => a * v + b) w = .ok (x.map (fun v => a * v + b), r) := by
  rw [C12_affine fn α inc y w a b ha, h]
  rfl

/-- the fit is unchanged by rescaling all weights by a positive constant (`weights = None` stays
`None`; weighted quantile/median stay `NotImplementedError`); on every input, error cases
included -/
theorem C12_weight_scale (fn : Option Functional) (α : K) (inc : Bool) (y : List K)
    (w : Option (List K)) (c : K) (hc : 0 < c) :
    isoReg fn α inc y (w.map (List.map (c * ·))) = isoReg fn α inc y w :=
  isoReg_weight_scale fn α inc y w c hc

/-! ## Non-vacuity: successful calls exist for every functional -/

/-- weighted mean, decreasing direction -/
example : ∃ x r, isoReg (some .mean) (0 : ℚ) false [3, 1, 2] (some [1, 2, 1]) = .ok (x, r) :=
  ⟨_, _, isoReg_mean_some _ _ _ _ (by simp) (by simp) (by simp)⟩

/-- weighted expectile -/
example : ∃ x r, isoReg (some .expectile) (1 / 4 : ℚ) true [3, 1, 2] (some [1, 2, 1]) = .ok (x, r) :=
  ⟨_, _, isoReg_expectile_some _ (by norm_num) (by norm_num) _ _ _ (by simp) (by simp) (by simp)⟩

/-- unweighted quantile and median -/
example : (∃ x r, isoReg (some .quantile) (1 / 3 : ℚ) false [3, 1, 2] none = .ok (x, r)) ∧
    (∃ x r, isoReg (some .median) (7 : ℚ) true [3, 1, 2] none = .ok (x, r)) :=
  ⟨⟨_, _, isoReg_quantile_none _ (by norm_num) (by norm_num) _ _ (by simp)⟩,
   ⟨_, _, isoReg_median_none _ _ _ (by simp)⟩⟩

/-- `C12_monotone_fixed`: a non-increasing input for the decreasing direction -/
example : MonoDir false ([5, 2, 2, 1] : List ℚ) := by
  simp only [monoDir_false]
  norm_num

end MD.Props

/-
Sanity checks at `Rat` (`#eval`, not part of the proofs):
  isoReg (some .mean) (0 : Rat) true  [3, 1, 2, 5, 4] (some [1, 2, 1, 1, 3])
    = .ok ([5/3, 5/3, 2, 17/4, 17/4], [0, 2, 3, 5])
  isoReg (some .mean) (0 : Rat) false [4, 5, 2, 1, 3] (some [3, 1, 1, 2, 1])
    = .ok ([17/4, 17/4, 2, 5/3, 5/3], [0, 2, 3, 5])

`#print axioms` (observed with `lake env lean MD/Props/C12.lean`):
'MD.Props.C12_length' depends on axioms: [propext, Classical.choice, Quot.sound]
'MD.Props.C12_range' depends on axioms: [propext, Classical.choice, Quot.sound]
'MD.Props.C12_r_wellformed' depends on axioms: [propext, Classical.choice, Quot.sound]
'MD.Props.C12_r_constant_inside' depends on axioms: [propext, Classical.choice, Quot.sound]
'MD.Props.C12_r_differ_across' depends on axioms: [propext, Classical.choice, Quot.sound]
'MD.Props.C12_monotone_fixed' depends on axioms: [propext, Classical.choice, Quot.sound]
'MD.Props.C12_idempotent' depends on axioms: [propext, Classical.choice, Quot.sound]
'MD.Props.C12_reverse_commutes' depends on axioms: [propext, Classical.choice, Quot.sound]
'MD.Props.C12_reverse_commutes_ok' depends on axioms: [propext, Classical.choice, Quot.sound]
'MD.Props.C12_affine' depends on axioms: [propext, Classical.choice, Quot.sound]
'MD.Props.C12_affine_ok' depends on axioms: [propext, Classical.choice, Quot.sound]
'MD.Props.C12_weight_scale' depends on axioms: [propext, Classical.choice, Quot.sound]
-/
