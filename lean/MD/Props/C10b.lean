import MD.Model.Marginal
import MD.Proofs.PDLemmas
import Mathlib.Algebra.Order.Field.Rat

/-! # C10 (continued) — the `partial_dependence` column of `compute_marginal`

"The partial-dependence column equals the directly computed partial dependence at each real feature
value, and the artificial pooled category is never shown to the model."

`marginalPD` (`MD/Model/Marginal.lean`) is the glue around `compute_partial_dependence`: the grid is
the table's feature column without the rows flagged not-real (`is_real`), the values are put back
row by row.  Which rows are not real is `C10_pooled_identified` (`MD/Props/C10.lean`): exactly the
artificial pooled row.  What partial dependence computes per grid value is C16. -/

set_option linter.unusedSectionVars false
set_option linter.unusedVariables false

namespace MD.Props

section Glue

/-- putting the values back: row by row, a real row gets the value computed for its own grid entry,
any other row gets null — the iterator is never exhausted and never left with a rest -/
theorem reinsert_realGrid {α β : Type} (v : α → β) (rowVals : List α) (isReal : List Bool)
    (hlen : isReal.length = rowVals.length) :
    reinsert isReal ((realGrid rowVals isReal).map v)
      = (rowVals.zip isReal).map (fun p => if p.2 then some (v p.1) else none) := by
  induction isReal generalizing rowVals with
  | nil =>
    cases rowVals with
    | nil => simp [reinsert]
    | cons a t => simp at hlen
  | cons b r ih =>
    cases rowVals with
    | nil => simp at hlen
    | cons a t =>
      have hl : r.length = t.length := by simpa using hlen
      cases b with
      | true =>
        simp only [realGrid, List.zip_cons_cons, List.filterMap_cons, if_true, List.map_cons,
          reinsert]
        have := ih t hl
        simp only [realGrid] at this
        rw [this]
      | false =>
        simp only [realGrid, List.zip_cons_cons, List.filterMap_cons, List.map_cons,
          reinsert, Bool.false_eq_true, if_false]
        have := ih t hl
        simp only [realGrid] at this
        rw [this]

/-- when every row is real the filtered grid is the whole feature column -/
theorem realGrid_all {α : Type} (rowVals : List α) (isReal : List Bool)
    (hlen : isReal.length = rowVals.length) (h : isReal.all id = true) :
    realGrid rowVals isReal = rowVals := by
  induction isReal generalizing rowVals with
  | nil => cases rowVals with
    | nil => rfl
    | cons a t => simp at hlen
  | cons b r ih =>
    cases rowVals with
    | nil => simp at hlen
    | cons a t =>
      simp only [List.all_cons, id, Bool.and_eq_true] at h
      have := ih t (by simpa using hlen) h.2
      simp only [realGrid] at this ⊢
      simp [h.1, this]

/-- when every row is real the row-by-row description has no null -/
theorem zip_all_real {α β : Type} (v : α → β) (rowVals : List α) (isReal : List Bool)
    (hlen : isReal.length = rowVals.length) (h : isReal.all id = true) :
    (rowVals.zip isReal).map (fun p => if p.2 then some (v p.1) else none)
      = rowVals.map (some ∘ v) := by
  induction isReal generalizing rowVals with
  | nil => cases rowVals with
    | nil => rfl
    | cons a t => simp at hlen
  | cons b r ih =>
    cases rowVals with
    | nil => simp at hlen
    | cons a t =>
      simp only [List.all_cons, id, Bool.and_eq_true] at h
      simp [h.1, ih t (by simpa using hlen) h.2]

/-- members of the grid handed to the predict function are feature values of real rows -/
theorem mem_realGrid {α : Type} (rowVals : List α) (isReal : List Bool) (a : α)
    (h : a ∈ realGrid rowVals isReal) :
    ∃ i : Nat, rowVals[i]? = some a ∧ isReal[i]? = some true := by
  simp only [realGrid, List.mem_filterMap] at h
  obtain ⟨⟨x, b⟩, hm, hb⟩ := h
  cases b with
  | false => simp at hb
  | true =>
    simp only [if_true, Option.some.injEq] at hb
    subst hb
    obtain ⟨i, hi, he⟩ := List.getElem_of_mem hm
    refine ⟨i, ?_, ?_⟩
    · have : i < rowVals.length := by simp at hi; exact hi.1
      rw [List.getElem?_eq_getElem this]
      have := congrArg Prod.fst he
      simpa using this
    · have : i < isReal.length := by simp at hi; exact hi.2
      rw [List.getElem?_eq_getElem this]
      have := congrArg Prod.snd he
      simpa using this

end Glue

section PD
variable {K : Type} [Add K] [Sub K] [Mul K] [Div K] [Zero K] [One K] [NatCast K]
  [LE K] [DecidableLE K] [Inhabited K]

/-- the rows and weights the averages run over (the seeded subsample, if one was drawn) -/
def pdRows (X : List (List K)) (sub : Option (List Nat)) : List (List K) :=
  match sub with
  | some idx => takeRows X idx
  | none => X
def pdWeights (w : Option (List K)) (sub : Option (List Nat)) : Option (List K) :=
  match sub with
  | some idx => w.map (fun ws => takeRows ws idx)
  | none => w

/-- the value `compute_partial_dependence` returns for ONE grid value `g` (C16's closed form): the
plain / weighted average over the (sub)sampled rows of the prediction with column `j` set to `g` -/
def pdAt (f : List K → K) (X : List (List K)) (j : Nat) (w : Option (List K))
    (sub : Option (List Nat)) (g : K) : K :=
  pdAvg (pdWeights w sub) (pdRows X sub).length ((pdRows X sub).map (fun row => f (row.set j g)))

theorem pd_eq_map_pdAt (f : List K → K) (X : List (List K)) (j : Nat) (grid : List K)
    (w : Option (List K)) (sub : Option (List Nat)) :
    partialDependence f X j grid w sub = grid.map (pdAt f X j w sub) := by
  cases sub with
  | none => exact pd_closed_form f X j grid w
  | some idx => rw [pd_sub_eq, pd_closed_form]; rfl

/-- **the column, row by row**: a real row holds the partial dependence at its own feature value
(the definition: `pdAt`), every other row holds null; one entry per table row -/
theorem C10_pd_column (f : List K → K) (X : List (List K)) (j : Nat) (rowVals : List K)
    (isReal : List Bool) (w : Option (List K)) (sub : Option (List Nat))
    (hlen : isReal.length = rowVals.length) :
    marginalPD f X j rowVals isReal w sub
      = (rowVals.zip isReal).map (fun p => if p.2 then some (pdAt f X j w sub p.1) else none) := by
  unfold marginalPD
  split
  · rename_i h
    rw [pd_eq_map_pdAt, List.map_map, zip_all_real _ rowVals isReal hlen h]
  · rw [pd_eq_map_pdAt, reinsert_realGrid _ _ _ hlen]

/-- one entry per table row -/
theorem C10_pd_length (f : List K → K) (X : List (List K)) (j : Nat) (rowVals : List K)
    (isReal : List Bool) (w : Option (List K)) (sub : Option (List Nat))
    (hlen : isReal.length = rowVals.length) :
    (marginalPD f X j rowVals isReal w sub).length = rowVals.length := by
  rw [C10_pd_column f X j rowVals isReal w sub hlen, List.length_map, List.length_zip, hlen,
    Nat.min_self]

/-- **a real row holds the directly computed partial dependence at its own feature value** -/
theorem C10_pd_real_is_definition (f : List K → K) (X : List (List K)) (j : Nat) (rowVals : List K)
    (isReal : List Bool) (w : Option (List K)) (sub : Option (List Nat))
    (hlen : isReal.length = rowVals.length) (i : Nat) (g : K)
    (hg : rowVals[i]? = some g) (hr : isReal[i]? = some true) :
    (marginalPD f X j rowVals isReal w sub)[i]? = some (some (pdAt f X j w sub g)) ∧
    partialDependence f X j [g] w sub = [pdAt f X j w sub g] := by
  refine ⟨?_, by rw [pd_eq_map_pdAt]; rfl⟩
  rw [C10_pd_column f X j rowVals isReal w sub hlen, List.getElem?_map,
    (List.getElem?_zip_eq_some (z := (g, true))).mpr ⟨hg, hr⟩]
  rfl

/-- **the artificial pooled row (any row flagged not real) holds null** -/
theorem C10_pd_pooled_null (f : List K → K) (X : List (List K)) (j : Nat) (rowVals : List K)
    (isReal : List Bool) (w : Option (List K)) (sub : Option (List Nat))
    (hlen : isReal.length = rowVals.length) (i : Nat) (hr : isReal[i]? = some false) :
    (marginalPD f X j rowVals isReal w sub)[i]? = some none := by
  have hi : i < isReal.length := by
    by_contra hc
    rw [List.getElem?_eq_none (by omega)] at hr
    cases hr
  obtain ⟨g, hg⟩ : ∃ g, rowVals[i]? = some g :=
    ⟨rowVals[i]'(hlen ▸ hi), List.getElem?_eq_getElem _⟩
  rw [C10_pd_column f X j rowVals isReal w sub hlen, List.getElem?_map,
    (List.getElem?_zip_eq_some (z := (g, false))).mpr ⟨hg, hr⟩]
  rfl

/-- what the definition is, spelled out: without weights the plain average over the (sub)sampled
rows of the prediction with the feature column set to `g`; with weights the weighted one -/
theorem C10_pdAt_def (f : List K → K) (X : List (List K)) (j : Nat) (g : K) (ws : List K)
    (idx : List Nat) :
    pdAt f X j none none g = (X.map (fun row => f (row.set j g))).sum / (X.length : K) ∧
    pdAt f X j (some ws) none g
      = (List.zipWith (· * ·) (X.map (fun row => f (row.set j g))) ws).sum / ws.sum ∧
    pdAt f X j (some ws) (some idx) g
      = (List.zipWith (· * ·) ((takeRows X idx).map (fun row => f (row.set j g)))
          (takeRows ws idx)).sum / (takeRows ws idx).sum :=
  ⟨rfl, rfl, rfl⟩

/-- in both branches the grid handed to `compute_partial_dependence` is the feature column
restricted to the real rows -/
theorem C10_pd_grid (f : List K → K) (X : List (List K)) (j : Nat) (rowVals : List K)
    (isReal : List Bool) (w : Option (List K)) (sub : Option (List Nat))
    (hlen : isReal.length = rowVals.length) :
    marginalPD f X j rowVals isReal w sub
      = reinsert isReal (partialDependence f X j (realGrid rowVals isReal) w sub) := by
  rw [C10_pd_column f X j rowVals isReal w sub hlen, pd_eq_map_pdAt, reinsert_realGrid _ _ _ hlen]

/-- the predict function is applied to exactly the rows of this stacked matrix -/
theorem C10_pd_shown (f : List K → K) (X : List (List K)) (j : Nat) (grid : List K)
    (w : Option (List K)) (sub : Option (List Nat)) :
    partialDependence f X j grid w sub
      = blockAverages ((stacked (pdRows X sub) j grid).map f) (pdRows X sub).length grid.length
          (pdWeights w sub) := by
  cases sub <;> rfl

/-- **the artificial pooled category is never shown to the model**: every row handed to the predict
function is a (sub)sampled row of `X` whose feature column was overwritten by the feature value of
a REAL table row -/
theorem C10_pd_never_shown_pooled (X : List (List K)) (j : Nat) (rowVals : List K)
    (isReal : List Bool) (sub : Option (List Nat)) :
    ∀ r ∈ stacked (pdRows X sub) j (realGrid rowVals isReal),
      ∃ (row : List K) (g : K) (i : Nat), row ∈ pdRows X sub ∧ r = row.set j g ∧
        rowVals[i]? = some g ∧ isReal[i]? = some true := by
  intro r hr
  rw [pd_stacked_eq] at hr
  obtain ⟨k, hk, rfl⟩ := List.mem_map.mp hr
  have hk' := List.mem_range.mp hk
  set X' := pdRows X sub
  set grid := realGrid rowVals isReal
  have hn : 0 < X'.length := by
    rcases Nat.eq_zero_or_pos X'.length with h | h
    · rw [h] at hk'; omega
    · exact h
  have h1 : k % X'.length < X'.length := Nat.mod_lt _ hn
  have h2 : k / X'.length < grid.length := by
    rw [Nat.div_lt_iff_lt_mul hn]; rwa [Nat.mul_comm] at hk'
  obtain ⟨i, hi1, hi2⟩ := mem_realGrid rowVals isReal (grid[k / X'.length]) (List.getElem_mem h2)
  refine ⟨X'[k % X'.length], grid[k / X'.length], i, List.getElem_mem h1, ?_, hi1, hi2⟩
  rw [getElem!_pos X' _ h1, getElem!_pos grid _ h2]

end PD

/-! ## Non-vacuity and a worked table (ℚ) -/
section Examples

/-- three table rows `a`, `other 2` (pooled, not real), `z`; feature column 0; predict function
`row ↦ 10 * row[0] + row[1]`; two sample rows -/
example : marginalPD (K := ℚ) (fun row => 10 * row[0]! + row[1]!) [[1, 5], [2, 7]] 0 [1, 99, 3]
    [true, false, true] none none = [some 16, none, some 36] := by decide +kernel

/-- … and all rows real (numeric feature) -/
example : marginalPD (K := ℚ) (fun row => 10 * row[0]! + row[1]!) [[1, 5], [2, 7]] 0 [1, 3]
    [true, true] (some [1, 3]) none = [some (33/2), some (73/2)] := by decide +kernel

example : isRealKey [some "a", none, some "b"] none = true ∧
    isRealKey [some "a", some "b"] (some "other 2") = false := by decide

end Examples
end MD.Props

/-
`#print axioms` (observed with `lake env lean`): see the end of the build log; all within
[propext, Classical.choice, Quot.sound].
-/
