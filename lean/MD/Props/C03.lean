import MD.Proofs.IsoRegLemmas

/-! # C03 — `isotonic_regression(y, weights, increasing, functional="expectile", level=α)`

Property theorems about the top-level model function `isoReg (some .expectile) α`, `0 < α < 1`,
for both directions.  The hypotheses `hne hlen hpos` are exactly the guards the code enforces
(otherwise it raises: `isoReg_level_error`, `isoReg_expectile_length_error`,
`isoReg_expectile_weight_error`, `isoReg_expectile_empty`).  Helper lemmas (among them the strong
convexity of the asymmetric squared loss, `asymSq_midpoint`, and `C03_unique_inc`) live in
`MD/Proofs/IsoRegLemmas.lean`.

The theorems live in the namespace `MD.Props` because `MD.C03_half_is_mean` and
`MD.C03_block_identification` already name the statements about the inner function `gpava`. -/

set_option linter.unusedSectionVars false

namespace MD.Props
variable {K : Type} [Field K] [LinearOrder K] [IsStrictOrderedRing K]

/-- the call succeeds and returns a sequence of the length of `y` -/
theorem C03_ok (α : K) (hα0 : 0 < α) (hα1 : α < 1) (inc : Bool) (y w : List K) (hne : y ≠ [])
    (hlen : w.length = y.length) (hpos : ∀ v ∈ w, 0 < v) :
    ∃ x r, isoReg (some .expectile) α inc y (some w) = .ok (x, r) ∧ x.length = y.length := by
  refine ⟨_, _, isoReg_expectile_some α hα0 hα1 inc y w hne hlen hpos, ?_⟩
  rw [orient_length, C03_expand_length α hα0 hα1 _ (orient_zip_snd_pos inc hpos),
    orient_length, zip_length_of_eq hlen]

/-- every successful result has the length of `y` -/
theorem C03_length (α : K) (hα0 : 0 < α) (hα1 : α < 1) (inc : Bool) (y w : List K) (hne : y ≠ [])
    (hlen : w.length = y.length) (hpos : ∀ v ∈ w, 0 < v) (x : List K) (r : List Nat)
    (h : isoReg (some .expectile) α inc y (some w) = .ok (x, r)) : x.length = y.length := by
  obtain ⟨x', r', h', hl⟩ := C03_ok α hα0 hα1 inc y w hne hlen hpos
  rw [h] at h'
  rw [(Prod.mk.inj (Except.ok.inj h')).1]
  exact hl

/-- the fit is monotone in the requested direction -/
theorem C03_monotone (α : K) (hα0 : 0 < α) (hα1 : α < 1) (inc : Bool) (y w : List K)
    (hne : y ≠ []) (hlen : w.length = y.length) (hpos : ∀ v ∈ w, 0 < v) (x : List K)
    (r : List Nat) (h : isoReg (some .expectile) α inc y (some w) = .ok (x, r)) :
    MonoDir inc x := by
  rw [isoReg_expectile_x hα0 hα1 hne hlen hpos h, monoDir_orient]
  exact C03_monotone_inc α hα0 hα1 _ (orient_zip_snd_pos inc hpos)

/-- the fit minimises the asymmetric squared loss `Σ w |1{y ≤ z} − α| (z − y)²` among all
sequences of the same length that are monotone in the requested direction -/
theorem C03_optimal (α : K) (hα0 : 0 < α) (hα1 : α < 1) (inc : Bool) (y w : List K)
    (hne : y ≠ []) (hlen : w.length = y.length) (hpos : ∀ v ∈ w, 0 < v) (x : List K)
    (r : List Nat) (h : isoReg (some .expectile) α inc y (some w) = .ok (x, r))
    (zs : List K) (hz : zs.length = y.length) (hm : MonoDir inc zs) :
    total (asymSq α hα0 hα1).S (y.zip w) x ≤ total (asymSq α hα0 hα1).S (y.zip w) zs := by
  have hp := orient_zip_snd_pos inc (y := y) hpos
  rw [isoReg_expectile_x hα0 hα1 hne hlen hpos h]
  refine orient_optimal (asymSq α hα0 hα1).S inc (y.zip w) _ ?_ ?_ zs
    (hz.trans (zip_length_of_eq hlen).symm) hm
  · rw [C03_expand_length α hα0 hα1 _ hp, orient_length]
  · intro zs' hl hs
    exact C03_optimal_inc α hα0 hα1 _ hp zs' hl hs

/-- … and it is the only minimiser (the loss is strongly convex) -/
theorem C03_unique (α : K) (hα0 : 0 < α) (hα1 : α < 1) (inc : Bool) (y w : List K)
    (hne : y ≠ []) (hlen : w.length = y.length) (hpos : ∀ v ∈ w, 0 < v) (x : List K)
    (r : List Nat) (h : isoReg (some .expectile) α inc y (some w) = .ok (x, r))
    (zs : List K) (hz : zs.length = y.length) (hm : MonoDir inc zs)
    (hopt : total (asymSq α hα0 hα1).S (y.zip w) zs ≤ total (asymSq α hα0 hα1).S (y.zip w) x) :
    zs = x := by
  have hp := orient_zip_snd_pos inc (y := y) hpos
  rw [isoReg_expectile_x hα0 hα1 hne hlen hpos h] at hopt ⊢
  refine orient_unique (asymSq α hα0 hα1).S inc (y.zip w) _ ?_ ?_ zs
    (hz.trans (zip_length_of_eq hlen).symm) hm hopt
  · rw [C03_expand_length α hα0 hα1 _ hp, orient_length]
  · intro zs' hl hs ho
    exact C03_unique_inc α hα0 hα1 _ hp zs' hl hs ho

/-- increasing direction: `xᵢ = max_{a ≤ i} min_{b ≥ i} expectile_α(y[a..b])` -/
theorem C03_maxmin (α : K) (hα0 : 0 < α) (hα1 : α < 1) (y w : List K) (hne : y ≠ [])
    (hlen : w.length = y.length) (hpos : ∀ v ∈ w, 0 < v) (x : List K) (r : List Nat)
    (h : isoReg (some .expectile) α true y (some w) = .ok (x, r))
    (i : Nat) (hi : i < y.length) (hx : i < x.length) :
    (∃ a, a ≤ i ∧ ∀ b, i ≤ b → b < y.length →
        x[i] ≤ expectile α (((y.zip w).take (b + 1)).drop a)) ∧
    (∀ a, a ≤ i → ∃ b, i ≤ b ∧ b < y.length ∧
        expectile α (((y.zip w).take (b + 1)).drop a) ≤ x[i]) := by
  have hx' := isoReg_expectile_x hα0 hα1 hne hlen hpos h
  simp only [orient_true] at hx'
  subst hx'
  have hl := zip_length_of_eq hlen
  have := C03_maxmin_inc α hα0 hα1 (y.zip w) (zip_snd_pos hpos) i (by rw [hl]; exact hi) hx
  rw [hl] at this
  exact this

/-- the decreasing fit is the mirror image of the increasing fit of the mirrored data -/
theorem C03_dec_mirror (α : K) (hα0 : 0 < α) (hα1 : α < 1) (y w : List K) (hne : y ≠ [])
    (hlen : w.length = y.length) (hpos : ∀ v ∈ w, 0 < v) (x : List K) (r : List Nat)
    (h : isoReg (some .expectile) α false y (some w) = .ok (x, r)) :
    ∃ r', isoReg (some .expectile) α true y.reverse (some w.reverse) = .ok (x.reverse, r') := by
  rw [isoReg_expectile_some α hα0 hα1 false y w hne hlen hpos] at h
  have hx := (Prod.mk.inj (Except.ok.inj h)).1
  rw [isoReg_expectile_some α hα0 hα1 true y.reverse w.reverse (by simpa using hne)
    (by simp [hlen]) (fun v hv => hpos v (List.mem_reverse.mp hv))]
  refine ⟨_, congrArg Except.ok (Prod.ext ?_ rfl)⟩
  rw [← hx]
  simp only [orient_true, orient_false, List.reverse_reverse]
  have e := orient_zip false y w hlen.symm
  simp only [orient_false] at e
  rw [e]

/-- decreasing direction: the max-min formula holds for the mirrored fit w.r.t. the mirrored
data -/
theorem C03_maxmin_dec (α : K) (hα0 : 0 < α) (hα1 : α < 1) (y w : List K) (hne : y ≠ [])
    (hlen : w.length = y.length) (hpos : ∀ v ∈ w, 0 < v) (x : List K) (r : List Nat)
    (h : isoReg (some .expectile) α false y (some w) = .ok (x, r))
    (i : Nat) (hi : i < y.length) (hx : i < x.reverse.length) :
    (∃ a, a ≤ i ∧ ∀ b, i ≤ b → b < y.length →
        x.reverse[i] ≤ expectile α (((y.reverse.zip w.reverse).take (b + 1)).drop a)) ∧
    (∀ a, a ≤ i → ∃ b, i ≤ b ∧ b < y.length ∧
        expectile α (((y.reverse.zip w.reverse).take (b + 1)).drop a) ≤ x.reverse[i]) := by
  obtain ⟨r', h'⟩ := C03_dec_mirror α hα0 hα1 y w hne hlen hpos x r h
  have := C03_maxmin α hα0 hα1 y.reverse w.reverse (by simpa using hne) (by simp [hlen])
    (fun v hv => hpos v (List.mem_reverse.mp hv)) x.reverse r' h' i (by simpa using hi) hx
  simpa only [List.length_reverse] using this

/-- at level 1/2 the expectile call *is* the mean call: same `x`, same `r`, same errors, on every
input, for both directions, with or without weights (the level of the mean call is ignored) -/
theorem C03_half_is_mean (β : K) (inc : Bool) (y : List K) (w : Option (List K)) :
    isoReg (some .expectile) (1 / 2) inc y w = isoReg (some .mean) β inc y w := by
  have key : ∀ w : List K, isoReg (some .expectile) (1 / 2) inc y (some w)
      = isoReg (some .mean) β inc y (some w) := by
    intro w
    by_cases hlen : w.length = y.length
    · by_cases hw : ∃ v ∈ w, v ≤ 0
      · rw [isoReg_expectile_weight_error _ one_half_pos one_half_lt_one inc y w hlen hw,
          isoReg_mean_weight_error β inc y w hlen hw]
      · have hpos : ∀ v ∈ w, 0 < v := by
          intro v hv
          by_contra hcon
          exact hw ⟨v, hv, not_lt.mp hcon⟩
        by_cases hne : y = []
        · subst hne
          rw [isoReg_expectile_empty _ one_half_pos one_half_lt_one inc w (by simpa using hlen),
            isoReg_mean_empty β inc w (by simpa using hlen)]
        · have hp := orient_zip_snd_pos inc (y := y) hpos
          rw [isoReg_expectile_some _ one_half_pos one_half_lt_one inc y w hne hlen hpos,
            isoReg_mean_some β inc y w hne hlen hpos, MD.C03_half_is_mean _ hp,
            pavaMean_eq_gpava _ hp]
    · rw [isoReg_expectile_length_error _ one_half_pos one_half_lt_one inc y w hlen,
        isoReg_mean_length_error β inc y w hlen]
  cases w with
  | none => rw [isoReg_weights_none _ (Or.inr rfl), isoReg_weights_none _ (Or.inl rfl)]; exact key _
  | some w => exact key w

/-- on every block of the fit (the blocks of the oriented data) the block value solves the
identification equation `Σ w |1{y ≤ v} − α| (v − y) = 0` of the block's observations -/
theorem C03_block_identification (α : K) (hα0 : 0 < α) (hα1 : α < 1) (inc : Bool) (y w : List K)
    (hpos : ∀ v ∈ w, 0 < v) (b : Blk K) (hb : b ∈ gpava (expectile α) (orient inc (y.zip w))) :
    eSum α b.data b.val = 0 :=
  MD.C03_block_identification α hα0 hα1 _ (orient_zip_snd_pos inc hpos) b hb

/-- `weights=None` is the same as unit weights, on every input (errors included) -/
theorem C03_unweighted (α : K) (inc : Bool) (y : List K) :
    isoReg (some .expectile) α inc y none
      = isoReg (some .expectile) α inc y (some (y.map fun _ => (1 : K))) :=
  isoReg_weights_none _ (Or.inr rfl) α inc y

/-- the hypotheses are satisfiable on a non-trivial input -/
example : (0 : ℚ) < 1 / 4 ∧ (1 / 4 : ℚ) < 1 ∧ ([3, 1, 2] : List ℚ) ≠ [] ∧
    ([2, 1, 3] : List ℚ).length = ([3, 1, 2] : List ℚ).length ∧
    ∀ v ∈ ([2, 1, 3] : List ℚ), 0 < v := by
  refine ⟨by norm_num, by norm_num, by simp, rfl, ?_⟩
  intro v hv
  simp at hv
  rcases hv with rfl | rfl | rfl <;> norm_num

/-- … and so is the conclusion of `C03_ok`, in both directions -/
example (inc : Bool) :
    ∃ x r, isoReg (some .expectile) (1 / 4 : ℚ) inc [3, 1, 2] (some [2, 1, 3]) = .ok (x, r) ∧
      x.length = 3 :=
  C03_ok (1 / 4) (by norm_num) (by norm_num) inc [3, 1, 2] [2, 1, 3] (by simp) rfl (by
    intro v hv
    simp at hv
    rcases hv with rfl | rfl | rfl <;> norm_num)

/-- a competitor for `C03_optimal` / `C03_unique` in the decreasing direction -/
example : ([3, 2, 2] : List ℚ).length = ([3, 1, 2] : List ℚ).length ∧
    MonoDir false ([3, 2, 2] : List ℚ) := by
  refine ⟨rfl, ?_⟩
  norm_num [MonoDir]

end MD.Props

/-
`#print axioms` (observed with `lake env lean MD/Props/C03.lean`):
'MD.Props.C03_ok' depends on axioms: [propext, Classical.choice, Quot.sound]
'MD.Props.C03_length' depends on axioms: [propext, Classical.choice, Quot.sound]
'MD.Props.C03_monotone' depends on axioms: [propext, Classical.choice, Quot.sound]
'MD.Props.C03_optimal' depends on axioms: [propext, Classical.choice, Quot.sound]
'MD.Props.C03_unique' depends on axioms: [propext, Classical.choice, Quot.sound]
'MD.Props.C03_maxmin' depends on axioms: [propext, Classical.choice, Quot.sound]
'MD.Props.C03_dec_mirror' depends on axioms: [propext, Quot.sound]
'MD.Props.C03_maxmin_dec' depends on axioms: [propext, Classical.choice, Quot.sound]
'MD.Props.C03_half_is_mean' depends on axioms: [propext, Classical.choice, Quot.sound]
'MD.Props.C03_block_identification' depends on axioms: [propext, Classical.choice, Quot.sound]
'MD.Props.C03_unweighted' depends on axioms: [propext, Classical.choice, Quot.sound]
-/
