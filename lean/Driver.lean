import MD.Model.Num
import MD.Model.Iso
import MD.Model.Score
import MD.Model.Ident
import MD.Model.Config
import MD.Model.IsoFit
import MD.Model.Decompose
import MD.Model.PD
import MD.Model.Dtype
import MD.Model.Marginal
import MD.Model.Validate
import MD.Model.Plot
import MD.Model.Axes
import MD.Model.Heap
import MD.Model.PavaArr
import MD.Model.GpavaArr
import MD.Model.Names
import MD.Model.IsoStore
import MD.Model.Series
/-! JSON-lines driver: one request per line on stdin, one response per line on stdout. -/
open Lean MD

def errName : Err → String
  | .valueError => "ValueError"
  | .notImplemented => "NotImplementedError"
  | .typeError => "TypeError"
  | .zeroDivision => "ZeroDivisionError"
  | .other => "Other"

def errJson (e : Err) : Json := Json.mkObj [("err", .str (errName e))]

def getRat (j : Json) (k : String) : Except String Rat :=
  match (j.getObjVal? k) with
  | .ok v => match ratOfJson? v with
    | some q => .ok q
    | none => .error s!"bad rational in {k}"
  | .error e => .error e

def getRats (j : Json) (k : String) : Except String (List Rat) :=
  match (j.getObjVal? k) with
  | .ok v => match ratsOfJson? v with
    | some q => .ok q
    | none => .error s!"bad rational list in {k}"
  | .error e => .error e

def getOptRats (j : Json) (k : String) : Except String (Option (List Rat)) :=
  match (j.getObjVal? k) with
  | .ok .null => .ok none
  | .ok v => match ratsOfJson? v with
    | some q => .ok (some q)
    | none => .error s!"bad rational list in {k}"
  | .error _ => .ok none

def getStr (j : Json) (k : String) : Except String String :=
  match j.getObjVal? k with
  | .ok (.str s) => .ok s
  | _ => .error s!"missing string {k}"

def getBool (j : Json) (k : String) : Except String Bool :=
  match j.getObjVal? k with
  | .ok (.bool b) => .ok b
  | _ => .error s!"missing bool {k}"

def getFloat (j : Json) (k : String) : Except String Float :=
  match (j.getObjVal? k) with
  | .ok v => match floatOfJson? v with
    | some q => .ok q
    | none => .error s!"bad float bits in {k}"
  | .error e => .error e

def getFloats (j : Json) (k : String) : Except String (List Float) :=
  match (j.getObjVal? k) with
  | .ok v => match floatsOfJson? v with
    | some q => .ok q
    | none => .error s!"bad float list in {k}"
  | .error e => .error e

def getOptFloats (j : Json) (k : String) : Except String (Option (List Float)) :=
  match (j.getObjVal? k) with
  | .ok .null => .ok none
  | .ok v => match floatsOfJson? v with
    | some q => .ok (some q)
    | none => .error s!"bad float list in {k}"
  | .error _ => .ok none

open MD.Cfg in
partial def progOfJson (j : Json) : Except String Prog := do
  let t ← getStr j "t"
  let val (s : String) : Except String Val := match s with
    | "none" => pure .none | "mpl" => pure .mpl | "plotly" => pure .plotly | "bad" => pure .bad
    | _ => throw "bad val"
  match t with
  | "skip" => pure .skip
  | "seq" => do
    let a ← progOfJson (← j.getObjVal? "a")
    let b ← progOfJson (← j.getObjVal? "b")
    pure (.seq a b)
  | "set" => do pure (.set (← val (← getStr j "v")))
  | "get" => pure .getMutate
  | "raise" => pure .raise
  | "raiseBase" => pure .raiseBase
  | "block" => do
    let v ← val (← getStr j "v")
    let b ← progOfJson (← j.getObjVal? "body")
    pure (.block v b)
  | "catch" => do
    let b ← progOfJson (← j.getObjVal? "body")
    pure (.catch b)
  | "catchAll" => do
    let b ← progOfJson (← j.getObjVal? "body")
    pure (.catchAll b)
  | _ => throw "bad prog"

open MD.Cfg in
def backendStr : Backend → String
  | .mpl => "matplotlib"
  | .plotly => "plotly"

open MD.Cfg in
def outStr : Out → String
  | .ok => "ok" | .valueError => "ValueError" | .moduleNotFound => "ModuleNotFoundError" | .userExc => "UserExc"
  | .baseExc => "BaseExc"

def cellOfJson? (j : Json) : Option (Cell Rat) :=
  match j with
  | .null => some .null
  | .str "inf" => some .posInf
  | .str "-inf" => some .negInf
  | v => (ratOfJson? v).map Cell.fin

def cellToJson : Cell Rat → Json
  | .null => .null
  | .posInf => .str "inf"
  | .negInf => .str "-inf"
  | .fin v => ratToJson v

def getCells (j : Json) (k : String) : Except String (List (Cell Rat)) :=
  match j.getObjVal? k with
  | .ok (.arr a) => match a.toList.mapM cellOfJson? with
    | some l => .ok l
    | none => .error s!"bad cell in {k}"
  | _ => .error s!"missing {k}"

def getOptStrs (j : Json) (k : String) : Except String (List (Option String)) :=
  match j.getObjVal? k with
  | .ok (.arr a) => a.toList.mapM (fun v => match v with
      | .null => .ok none
      | .str s => .ok (some s)
      | _ => .error "bad string cell")
  | _ => .error s!"missing {k}"

def getNat (j : Json) (k : String) : Except String Nat :=
  match j.getObjVal? k with
  | .ok (.num n) => if n.exponent = 0 ∧ 0 ≤ n.mantissa then .ok n.mantissa.toNat else .error s!"bad nat {k}"
  | _ => .error s!"missing nat {k}"

def edgesJson (e : Option (Cell Rat × Cell Rat)) : Json :=
  match e with
  | none => .null
  | some (a, b) => .arr #[cellToJson a, cellToJson b]

def keyJson : Key → Json
  | .null => .null
  | .num i => .num ⟨(i : Int), 0⟩
  | .str s => .str s

def methodOf (s : String) : BinMethod :=
  match s with
  | "quantile" => .quantile
  | "uniform" => .uniform
  | _ => .numpy

def getRatMatrix (j : Json) (k : String) : Except String (List (List Rat)) :=
  match j.getObjVal? k with
  | .ok (.arr a) => a.toList.mapM (fun c => match ratsOfJson? c with
      | some l => .ok l
      | none => .error "bad matrix row")
  | _ => .error s!"missing {k}"

def blocksJson (bs : List (Blk Rat)) : Json :=
  Json.mkObj [("x", ratsToJson (expand bs)), ("r", natsToJson (bounds bs))]

/-- the `partial_dependence` column of `compute_marginal` for the rows of a table (request field `pd`:
`X` numeric rows with the feature in column 0 and a second column 1, the predict-function family
`a b c` (numeric: `predFamily`, string-like: `predCat c`), optional weights `w` and drawn indices `sub`) -/
def pdColumnJson (j : Json) (rows : List (OutRow Rat)) (isReal : OutRow Rat → Bool) (valOf : OutRow Rat → Rat) :
    Except String Json := do
  match j.getObjVal? "pd" with
  | .ok p =>
    let X ← getRatMatrix p "X"
    let a ← getRat p "a"
    let b ← getRat p "b"
    let c ← getRat p "c"
    let w ← getOptRats p "w"
    let cat := match p.getObjVal? "cat" with | .ok (.bool true) => true | _ => false
    let sub : Option (List Nat) := match p.getObjVal? "sub" with
      | .ok (.arr arr) => some (arr.toList.filterMap (fun v => match v with
          | .num n => some n.mantissa.toNat | _ => none))
      | _ => none
    let f : List Rat → Rat := if cat then predCat c 0 1 else predFamily a b c 0 1
    let col := marginalPD f X 0 (rows.map valOf) (rows.map isReal) w sub
    pure (.arr (col.map (fun o => match o with | none => Json.null | some v => ratToJson v)).toArray)
  | _ => pure Json.null

/-- the points `plot_bias` draws for one model: position (bin mean / category) and `bias_mean` -/
def biasPointsJson (rows : List (OutRow Rat)) : Json :=
  .arr ((biasPoints rows).map (fun p => Json.arr #[keyJson p.1.key, cellToJson p.1.featMean, ratToJson p.2])).toArray

def handle (j : Json) : Except String Json := do
  let op ← getStr j "op"
  match op with
  | "iso" =>
    let f ← getStr j "f"
    let α ← getRat j "level"
    let inc ← getBool j "inc"
    let y ← getRats j "y"
    let w ← getOptRats j "w"
    match isoReg (Functional.ofString? f) α inc y w with
    | .ok (x, r) => pure (Json.mkObj [("x", ratsToJson x), ("r", natsToJson r)])
    | .error e => pure (errJson e)
  | "pava" =>
    let y ← getRats j "y"
    let w ← getRats j "w"
    pure (blocksJson (pavaMean (List.zip y w)))
  | "pava_arr" =>
    -- the in-place array program (MD/Model/PavaArr.lean): fitted values and r[: b + 2]
    let y ← getRats j "y"
    let w ← getRats j "w"
    let (x, r) := MD.Arr.pavaArr (List.zip y w)
    pure (Json.mkObj [("x", ratsToJson x), ("r", natsToJson r)])
  | "iso_own" =>
    -- ownership model of isotonic_regression -> pava (mean): the caller's y / weights as objects 0 / 1 of a store
    let y ← getRats j "y"
    let w ← getRats j "w"
    let inc ← getBool j "inc"
    let s0 : MD.Own.Store Rat := [.vec y, .vec w]
    let (s1, x, r) := MD.Own.isoMeanStore true s0 0 1 inc
    pure (Json.mkObj [("x", ratsToJson x), ("r", natsToJson r),
      ("y_after", ratsToJson (MD.Own.getVec s1 0)), ("w_after", ratsToJson (MD.Own.getVec s1 1))])
  | "series" =>
    -- list -> polars column: elements [kind, value] with kind none | pyInt | pyFloat | npInt | npFloat
    let elems ← match j.getObjVal? "elems" with
      | .ok (.arr a) => a.toList.mapM (fun e => match e with
          | .arr #[.str "none", _] => pure MD.Ser.Elem.none
          | .arr #[.str k, v] => match ratOfJson? v with
            | some q => match k with
              | "pyInt" => pure (MD.Ser.Elem.pyInt q.num) | "npInt" => pure (MD.Ser.Elem.npInt q.num)
              | "pyFloat" => pure (MD.Ser.Elem.pyFloat q) | "npFloat" => pure (MD.Ser.Elem.npFloat q)
              | _ => throw s!"bad kind {k}"
            | none => throw "bad value"
          | _ => throw "bad element")
      | _ => throw "missing elems"
    let colJson (c : MD.Ser.Col) : Json := match c with
      | .null n => Json.mkObj [("dtype", .str "null"), ("values", .arr (List.replicate n Json.null).toArray)]
      | .int v => Json.mkObj [("dtype", .str "int"), ("values", .arr (v.map (fun o => match o with
          | some (n : Int) => ratToJson (n : Rat) | none => Json.null)).toArray)]
      | .float v => Json.mkObj [("dtype", .str "float"), ("values", .arr (v.map (fun o => match o with
          | some q => ratToJson q | none => Json.null)).toArray)]
      | .typeError => Json.mkObj [("dtype", .str "TypeError")]
    pure (Json.mkObj [("lib", colJson (MD.Ser.seriesFromValues elems)), ("strict", colJson (MD.Ser.strictSeries elems)),
      ("nonstrict", colJson (MD.Ser.nonStrictSeries elems))])
  | "gpava_arr" =>
    -- the in-place array program of gpava (MD/Model/GpavaArr.lean) with the functional named by "f"
    let f ← getStr j "f"
    let α ← getRat j "level"
    let y ← getRats j "y"
    let w ← getRats j "w"
    let obs := List.zip y w
    let res ← match f with
      | "mean" => pure (MD.Arr.gpavaArr wmean obs)
      | "expectile" => pure (MD.Arr.gpavaArr (expectile α) obs)
      | "qlower" => pure (MD.Arr.gpavaArr (qLower α) obs)
      | _ => throw s!"unknown functional {f}"
    pure (Json.mkObj [("x", ratsToJson res.1), ("r", natsToJson res.2)])
  | "gpava" =>
    let f ← getStr j "f"
    let α ← getRat j "level"
    let y ← getRats j "y"
    let w ← getRats j "w"
    let obs := List.zip y w
    match f with
    | "mean" => pure (blocksJson (gpava wmean obs))
    | "expectile" => pure (blocksJson (gpava (expectile α) obs))
    | "qlower" => pure (blocksJson (gpava (qLower α) obs))
    | _ => throw "unknown functional"
  | "functional" =>
    let f ← getStr j "f"
    let α ← getRat j "level"
    let y ← getRats j "y"
    let w ← getRats j "w"
    let obs := List.zip y w
    match f with
    | "mean" => pure (Json.mkObj [("v", ratToJson (wmean obs))])
    | "expectile" => pure (Json.mkObj [("v", ratToJson (expectile α obs))])
    | "qlower" => pure (Json.mkObj [("v", ratToJson (qLower α obs))])
    | "qupper" => pure (Json.mkObj [("v", ratToJson (qUpper α obs))])
    | _ => throw "unknown functional"
  | "isofit" =>
    let f ← getStr j "f"
    let α ← getRat j "level"
    let inc ← getBool j "inc"
    let X ← getRats j "X"
    let y ← getRats j "y"
    let w ← getOptRats j "w"
    let q ← getRats j "q"
    match isoFit (Functional.ofString? f) α inc X y w with
    | .error e => pure (errJson e)
    | .ok (tx, ty) =>
      pure (Json.mkObj [("tx", ratsToJson tx), ("ty", ratsToJson ty),
        ("pred", ratsToJson (q.map (interp tx ty)))])
  | "decompose" =>
    let kind ← getStr j "kind"
    let h ← getFloat j "h"
    let α ← getFloat j "level"
    let elem : Option (Option Functional × Float) ← match j.getObjVal? "elem_f" with
      | .ok (.str ef) => do
        let η ← getFloat j "eta"
        pure (some (Functional.ofString? ef, η))
      | _ => pure none
    let fnGiven : Option (Option Functional) := match j.getObjVal? "functional" with
      | .ok (.str f) => some (Functional.ofString? f)
      | _ => none
    let lvGiven : Option Float := match j.getObjVal? "level_given" with
      | .ok v => floatOfJson? v
      | _ => none
    let y ← getFloats j "y"
    let cols ← match j.getObjVal? "cols" with
      | .ok (.arr a) => a.toList.mapM (fun c => match floatsOfJson? c with
          | some l => .ok l
          | none => .error "bad col")
      | _ => .error "missing cols"
    let w ← getOptFloats j "w"
    match ScoreKind.ofString? kind with
    | none => throw "unknown score kind"
    | some k =>
      let sf : SF Float := { kind := k, h := h, α := α, elem := elem }
      let plain := match j.getObjVal? "plain" with | .ok (.bool b) => b | _ => false
      match (if plain then decomposePlain sf fnGiven lvGiven y cols w else decompose sf fnGiven lvGiven y cols w) with
      | .error e => pure (errJson e)
      | .ok rows =>
        -- labels: the names of the forecast columns in column order (MD/Model/Names.lean)
        let shape : MD.Names.PredShape := match j.getObjVal? "colnames" with
          | .ok (.arr a) => .frame (a.toList.map (fun v => match v with | .str s => s | _ => ""))
          | _ => if cols.length = 1 then .vector none else .matrix cols.length
        let labelled := MD.Names.labelled (MD.Names.predNames shape) rows
        pure (Json.mkObj [("rows", .arr (rows.map (fun r =>
          floatsToJson [r.mcb, r.dsc, r.unc, r.score])).toArray),
          ("names", .arr (labelled.map (fun p => Json.str p.1)).toArray)])
  | "bin" =>
    let kind ← getStr j "kind"
    let nBins ← getNat j "n_bins"
    if kind = "num" then
      let feature ← getCells j "feature"
      let given ← getRats j "given"
      let m := methodOf (← getStr j "method")
      let b := binNumeric m nBins given feature
      pure (Json.mkObj [("n_bins", .num ⟨(b.nBins : Int), 0⟩),
        ("bins", .arr (b.bins.map (fun o => match o with | none => Json.null | some i => .num ⟨(i : Int), 0⟩)).toArray),
        ("edges", .arr (b.edges.map edgesJson).toArray)])
    else
      let feature ← getOptStrs j "feature"
      let enumOrder : Option (List String) := match j.getObjVal? "enum" with
        | .ok (.arr a) => some (a.toList.filterMap (fun v => match v with | .str s => some s | _ => none))
        | _ => none
      let b := binString enumOrder nBins feature
      pure (Json.mkObj [("n_bins", .num ⟨(b.nBins : Int), 0⟩),
        ("bins", .arr (b.bins.map (fun o => match o with | none => Json.null | some s => Json.str s)).toArray),
        ("pooled", match b.pooled with | none => .null | some s => .str s)])
  | "table" =>
    let kind ← getStr j "kind"
    let w ← getRats j "w"
    -- value columns: given directly, or the identification function of (y, pred) for `compute_bias`
    let cols ← match j.getObjVal? "ident_f" with
      | .ok (.str f) => do
        let α ← getRat j "level"
        let y ← getRats j "y"
        let pred ← getRats j "pred"
        match identArr (Functional.ofString? f) α y pred with
        | .ok v => pure [v]
        | .error e => throw s!"ident error {errName e}"
      | _ => getRatMatrix j "cols"
    let rowJson (r : OutRow Rat) : Json := Json.mkObj [("key", keyJson r.key), ("feat", cellToJson r.featMean),
      ("count", .num ⟨(r.count : Int), 0⟩), ("weights", ratToJson r.weights),
      ("stats", .arr (r.stats.map (fun s => Json.arr #[ratToJson s.mean, ratToJson s.stderr2])).toArray),
      ("fvar", match r.featVar with | none => .null | some v => ratToJson v), ("edges", edgesJson r.edges)]
    if kind = "none" then
      pure (Json.mkObj [("rows", .arr #[rowJson (ungroupedRow cols w)]), ("n_bins", .num ⟨0, 0⟩)])
    else
      let nBins ← getNat j "n_bins"
      if kind = "num" then
        let feature ← getCells j "feature"
        let given ← getRats j "given"
        let m := methodOf (← getStr j "method")
        let b := binNumeric m nBins given feature
        let keys := b.bins.map (fun o => match o with | none => Key.null | some i => Key.num i)
        let rows := groupedTable keys feature b.edges cols w b.nBins none none
        let pdv ← pdColumnJson j rows (fun _ => true) (fun r => match r.featMean with | .fin v => v | _ => 0)
        pure (Json.mkObj [("rows", .arr (rows.map rowJson).toArray), ("n_bins", .num ⟨(b.nBins : Int), 0⟩), ("pd", pdv),
          ("bias_points", biasPointsJson rows), ("bias_null", match biasNullPoint rows with | none => .null | some v => ratToJson v)])
      else
        let feature ← getOptStrs j "feature"
        let enumOrder : Option (List String) := match j.getObjVal? "enum" with
          | .ok (.arr a) => some (a.toList.filterMap (fun v => match v with | .str s => some s | _ => none))
          | _ => none
        let b := binString enumOrder nBins feature
        let keys := b.bins.map (fun o => match o with | none => Key.null | some s => Key.str s)
        let rows := groupedTable keys (feature.map (fun _ => Cell.null)) (feature.map (fun _ => none)) cols w b.nBins enumOrder b.pooled
        let keyOpt (r : OutRow Rat) : Option String := match r.key with | .str s => some s | _ => none
        let keyvals : String → Rat := fun s => match (j.getObjVal? "pd").toOption.bind (fun p => (p.getObjVal? "keyvals").toOption) with
          | some kv => (match kv.getObjVal? s with | .ok v => (ratOfJson? v).getD 0 | _ => 0)
          | none => 0
        let pdv ← pdColumnJson j rows (fun r => isRealKey feature (keyOpt r))
          (fun r => match keyOpt r with | some s => keyvals s | none => 0)
        pure (Json.mkObj [("rows", .arr (rows.map rowJson).toArray), ("n_bins", .num ⟨(b.nBins : Int), 0⟩),
          ("pooled", match b.pooled with | none => .null | some s => .str s), ("pd", pdv),
          ("bias_points", biasPointsJson rows), ("bias_null", match biasNullPoint rows with | none => .null | some v => ratToJson v)])
  | "pd" =>
    let X ← getRatMatrix j "X"
    let jj ← getNat j "j"
    let k ← getNat j "k"
    let a ← getRat j "a"
    let b ← getRat j "b"
    let c ← getRat j "c"
    let grid ← getRats j "grid"
    let w ← getOptRats j "w"
    let sub : Option (List Nat) := match j.getObjVal? "sub" with
      | .ok (.arr arr) => some (arr.toList.filterMap (fun v => match v with
          | .num n => some n.mantissa.toNat | _ => none))
      | _ => none
    pure (Json.mkObj [("pd", ratsToJson (partialDependence (predFamily a b c jj k) X jj grid w sub))])
  | "pd_own" =>
    -- ownership model: the caller's X as objects of a store. "objs" = the distinct row objects, "refs" = which object
    -- each row of the list X is (the same object may occur twice); container "matrix" = one 2-d object
    let objs ← getRatMatrix j "objs"
    let container ← getStr j "container"
    let refs : List Nat := match j.getObjVal? "refs" with
      | .ok (.arr arr) => arr.toList.filterMap (fun v => match v with | .num n => some n.mantissa.toNat | _ => none)
      | _ => List.range objs.length
    let jj ← getNat j "j"
    let k ← getNat j "k"
    let a ← getRat j "a"
    let b ← getRat j "b"
    let c ← getRat j "c"
    let grid ← getRats j "grid"
    let w ← getOptRats j "w"
    let sub : Option (List Nat) := match j.getObjVal? "sub" with
      | .ok (.arr arr) => some (arr.toList.filterMap (fun v => match v with
          | .num n => some n.mantissa.toNat | _ => none))
      | _ => none
    let rowsJson (rs : List (List Rat)) : Json := .arr (rs.map ratsToJson).toArray
    if container = "matrix" then
      let s0 : MD.Own.Store Rat := [.mat (refs.map (fun r => objs[r]!))]
      let (s1, xs, pd) := MD.Own.pdMatrix (predFamily a b c jj k) s0 0 jj grid w sub
      pure (Json.mkObj [("pd", ratsToJson pd), ("caller_after", rowsJson (MD.Own.getMat s1 0)),
        ("shown", rowsJson (MD.Own.getMat s1 xs)), ("fresh", .bool (decide (xs ≥ s0.length)))])
    else
      let s0 : MD.Own.Store Rat := objs.map (fun r => MD.Own.Obj.vec r) ++ [.refs refs]
      let x := objs.length
      let (s1, xs, pd) := MD.Own.pdList (predFamily a b c jj k) s0 x jj grid w sub
      pure (Json.mkObj [("pd", ratsToJson pd), ("caller_after", rowsJson (MD.Own.rowsOf s1 x)),
        ("caller_refs_after", natsToJson (MD.Own.getRefs s1 x)),
        ("shown", rowsJson (MD.Own.rowsOf s1 xs)),
        ("fresh", .bool ((MD.Own.getRefs s1 xs).all (fun r => decide (r ≥ s0.length))))])
  | "murphy" =>
    let f ← getStr j "f"
    let α ← getRat j "level"
    let etas ← getRats j "etas"
    let y ← getRats j "y"
    let cols ← getRatMatrix j "cols"
    let w ← getOptRats j "w"
    match murphyLines (Functional.ofString? f) α etas y cols w with
    | .error e => pure (errJson e)
    | .ok ls => pure (Json.mkObj [("lines", .arr (ls.map (fun l =>
        Json.mkObj [("x", ratsToJson l.xs), ("y", ratsToJson l.ys)])).toArray)])
  | "reliability" =>
    let f ← getStr j "f"
    let α ← getRat j "level"
    let bias ← getBool j "bias"
    let y ← getRats j "y"
    let cols ← getRatMatrix j "cols"
    let w ← getOptRats j "w"
    match reliabilityLines (Functional.ofString? f) α bias y cols w with
    | .error e => pure (errJson e)
    | .ok ls =>
      let diag := match diagonal cols with
        | some l => Json.mkObj [("x", ratsToJson l.xs), ("y", ratsToJson l.ys)]
        | none => Json.null
      pure (Json.mkObj [("diag", diag), ("lines", .arr (ls.map (fun l =>
        Json.mkObj [("x", ratsToJson l.xs), ("y", ratsToJson l.ys)])).toArray)])
  | "validate" =>
    let ep ← match (← getStr j "ep") with
      | "ident" => pure Val.EP.ident | "bias" => pure Val.EP.bias | "marginal" => pure Val.EP.marginal
      | "decompose" => pure Val.EP.decompose | "scoreCtor" => pure Val.EP.scoreCtor
      | "scoreCall" => pure Val.EP.scoreCall | "iso" => pure Val.EP.iso | "isoModel" => pure Val.EP.isoModel
      | "plotReliability" => pure Val.EP.plotReliability | "plotMurphy" => pure Val.EP.plotMurphy
      | "plotBias" => pure Val.EP.plotBias
      | _ => throw "bad ep"
    let fd ← match (← getStr j "f") with
      | "mean" => pure Val.FD.mean | "median" => pure Val.FD.median | "expectile" => pure Val.FD.expectile
      | "quantile" => pure Val.FD.quantile | _ => pure Val.FD.unknown
    let d : Val.Desc := ⟨ep, ← getBool j "lenMismatch", ← getBool j "hasFeature", ← getBool j "featLenMismatch",
      ← getBool j "binMethodValid", ← getBool j "nBinsOk", ← getBool j "hasWeights", ← getBool j "wLenMismatch",
      ← getBool j "wNdim2", ← getBool j "wNonPositive", fd, ← getBool j "levelValid"⟩
    let o := match Val.outcome d with
      | .ok => "ok" | .valueError => "ValueError" | .notImplemented => "NotImplementedError" | .exception => "exception"
    pure (Json.mkObj [("outcome", .str o), ("violates", .bool (Val.violates d))])
  | "dtype_rule" =>
    -- the cast decisions for every dtype, and the residual z - y of whole numbers held in a dtype
    let name (d : DType) : String := match d with
      | .bool => "bool" | .u8 => "uint8" | .u16 => "uint16" | .u32 => "uint32" | .u64 => "uint64"
      | .i8 => "int8" | .i16 => "int16" | .i32 => "int32" | .i64 => "int64" | .f32 => "float32" | .f64 => "float64"
    let y ← getRat j "y"
    let z ← getRat j "z"
    pure (Json.mkObj (DType.all.map (fun d => (name d, Json.mkObj [("ident_casts", .bool (identCasts d)),
      ("score_casts", .bool (scoreCasts d)),
      ("residual", .str (toString (identResidual d y.num z.num)))]))))
  | "format_integer" =>
    let n ← getNat j "n"
    pure (Json.mkObj [("s", .str (formatInteger n))])
  | "score" =>
    -- floats travel as bit patterns
    let kind ← getStr j "kind"
    let h ← getFloat j "h"
    let α ← getFloat j "level"
    let y ← getFloats j "y"
    let z ← getFloats j "z"
    let w ← getOptFloats j "w"
    match ScoreKind.ofString? kind with
    | none => throw "unknown score kind"
    | some k =>
      match scorePerObs k h α y z with
      | .error e => pure (errJson e)
      | .ok per =>
        match average per w with
        | .error e => pure (Json.mkObj [("per_obs", floatsToJson per), ("mean_err", .str (errName e))])
        | .ok m => pure (Json.mkObj [("per_obs", floatsToJson per), ("mean", floatToJson m)])
  | "ident" =>
    let f ← getStr j "f"
    let α ← getRat j "level"
    let y ← getRats j "y"
    let z ← getRats j "z"
    match identArr (Functional.ofString? f) α y z with
    | .error e => pure (errJson e)
    | .ok v => pure (Json.mkObj [("v", ratsToJson v)])
  | "elem" =>
    let f ← getStr j "f"
    let α ← getRat j "level"
    let η ← getRat j "eta"
    let y ← getRats j "y"
    let z ← getRats j "z"
    let old ← getBool j "old"
    match elemArr old (Functional.ofString? f) α η y z with
    | .error e => pure (errJson e)
    | .ok v => pure (Json.mkObj [("v", ratsToJson v)])
  | "config" =>
    let avail ← getBool j "avail"
    let p ← progOfJson (← j.getObjVal? "prog")
    let (s, o, t) := MD.Cfg.exec avail p .mpl
    pure (Json.mkObj [("state", .str (backendStr s)), ("out", .str (outStr o)),
      ("trace", .arr (t.map (fun b => Json.str (backendStr b))).toArray)])
  | "axes" =>
    -- the backend / axes block of the plotting functions: ids 0 = pyplot's current axes, 1 = another Axes,
    -- 2 = a plotly figure handed in, 9 = a newly created figure
    let cfg ← match (← getStr j "cfg") with
      | "mpl" => pure MD.Cfg.Backend.mpl | "plotly" => pure MD.Cfg.Backend.plotly | s => throw s!"bad cfg {s}"
    let ax ← match (← getStr j "ax") with
      | "none" => pure MD.Ax.AxArg.none | "current" => pure (MD.Ax.AxArg.mpl 0) | "given" => pure (MD.Ax.AxArg.mpl 1)
      | "figure" => pure (MD.Ax.AxArg.plotly 2) | "junk" => pure MD.Ax.AxArg.other | s => throw s!"bad ax {s}"
    let ok ← getBool j "args_ok"
    let k ← match j.getObjVal? "k" with
      | .ok (.num n) => pure n.mantissa.toNat
      | _ => throw "missing k"
    let r := MD.Ax.plot ⟨cfg, 0, 9⟩ ax ok k
    let tgt : Option MD.Ax.Target → Json
      | some (.mpl i) => .str s!"mpl:{i}" | some (.plotly i) => .str s!"plotly:{i}" | none => .null
    pure (Json.mkObj [("out", .str (match r.out with | .ok => "ok" | .valueError => "ValueError")),
      ("returned", tgt r.returned),
      ("on_current", Json.num ⟨(MD.Ax.artistsOn r (.mpl 0) : Nat), 0⟩),
      ("on_given", Json.num ⟨(MD.Ax.artistsOn r (.mpl 1) : Nat), 0⟩),
      ("cfg_after", .str (backendStr r.cfgAfter))])
  | _ => throw s!"unknown op {op}"

partial def loop (hin : IO.FS.Stream) (hout : IO.FS.Stream) : IO Unit := do
  let line ← hin.getLine
  if line.isEmpty then return ()
  let out := match Json.parse line with
    | .error e => Json.mkObj [("driver_error", .str e)]
    | .ok j => match handle j with
      | .ok r => r
      | .error e => Json.mkObj [("driver_error", .str e)]
  hout.putStrLn out.compress
  loop hin hout

def main : IO Unit := do
  loop (← IO.getStdin) (← IO.getStdout)
