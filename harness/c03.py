"""C03 — isotonic expectile regression is the unique optimal monotone expectile fit."""
from fractions import Fraction

from . import iso_common as ic
from .core import Prop, close


class C03(Prop):
    id = "C03"
    unique_answer = True
    rule = (
        "streams: 'small' = every y in {0..3}^n (n<=4 quick, <=5 thorough) x weight patterns x levels {1/2,1/4,4/5} x both "
        "directions; 'random' = structured random y/w, dyadic and decimal levels; 'half' = level 1/2 compared with the mean fit "
        "of the implementation. Comparison with the model at tolerance 1e-7 (scipy.stats.expectile is a root finder) and the "
        "float-tie rule on r; oracle: exact max-min of weighted expectiles (Fractions) for n<=9, exact PAVA beyond, block "
        "identification sums ~ 0. Non-trivial = some pooling, non-constant y."
    )
    assumptions = [
        "scipy.stats.expectile = root of sum w |1{y<=t}-level| (t-y) to ~1e-9 (trusted parameter, exercised here)",
    ]
    TOL = 1e-7

    def generate(self, tier, rng):
        nmax = 4 if tier == "quick" else 5
        for ys in ic.small_scope(nmax):
            for pi, pat in enumerate(ic.WEIGHT_PATTERNS[:4]):
                w = pat(len(ys))
                for li, lv in enumerate(("1/2", "1/4", "4/5")):
                    for inc in (True, False):
                        if tier == "quick" and len(ys) == 4 and (pi + inc + li) % 4:
                            continue
                        yield {"stream": "small", "f": "expectile", "level": lv, "inc": inc, "y": [str(v) for v in ys], "w": None if w is None else [str(v) for v in w]}
        for k in range(700 if tier == "quick" else 6000):
            n = rng.choice([1, 2, 3, 5, 8, 13, 30]) if rng.random() < 0.85 else rng.randint(31, 100 if tier == "quick" else 150)
            yield {
                "stream": "random",
                "f": "expectile",
                "level": rng.choice(ic.DYADIC_LEVELS + ic.DECIMAL_LEVELS),
                "inc": rng.random() < 0.5,
                "y": ic.gen_y(rng, n, rng.choice(["small", "digits", "dyadic", "neg", "wide", "tiny"])),
                "w": ic.gen_w(rng, n),
            }
        for k in range(250 if tier == "quick" else 2500):
            yield ic.gen_dtype_case(rng, "expectile", rng.choice(ic.DYADIC_LEVELS[:9]))
        for k in range(200 if tier == "quick" else 3000):
            n = rng.randint(1, 30)
            yield {"stream": "half", "f": "expectile", "level": "1/2", "inc": rng.random() < 0.5, "y": ic.gen_y(rng, n), "w": ic.gen_w(rng, n)}

    def impl(self, case):
        out = ic.call_iso(case)
        if case["stream"] == "half" and "x" in out:
            m = ic.call_iso({**case, "f": "mean"})
            out["mean_x"], out["mean_r"] = m.get("x"), m.get("r")
        return out

    def model_request(self, case):
        return ic.iso_request(case)

    def compare(self, case, io, mo):
        return ic.compare_xr(io, mo, exact=False, tol=self.TOL, with_r=False, scale=ic.data_scale(case), ylocal=case["y"])

    def oracle(self, case, io):
        if "err" in io:
            return f"valid input rejected with {io['err']}"
        ys = [Fraction(v) for v in case["y"]]
        n = len(ys)
        ws = [Fraction(1)] * n if case.get("w") is None else [Fraction(v) for v in case["w"]]
        a = ic.level_exact(case["level"])
        x = io["x"]
        inc = case["inc"]
        for i in range(n - 1):
            if (inc and x[i] > x[i + 1]) or (not inc and x[i] < x[i + 1]):
                return f"fit not monotone at {i}: {x[i]!r}, {x[i+1]!r}"
        if case["stream"] == "half":
            for i, (u, v) in enumerate(zip(x, io["mean_x"])):
                if not close(u, v, self.TOL, self.TOL * ic.data_scale(case)):
                    return f"level 1/2 expectile fit differs from the mean fit at {i}: {u!r} vs {v!r}"
        r = io["r"]
        if not inc:
            ys, ws, x = ys[::-1], ws[::-1], x[::-1]
            r = [r[-1] - v for v in r[::-1]]
        T = lambda yy, ww: ic.expectile(yy, ww, a)
        if n <= 9:
            ref = ic.maxmin_fit(ys, ws, T)
        elif n <= 60:
            ref, _ = ic.pava_exact(ys, ws, T)
        else:
            ref = None
        scale = ic.data_scale(case)
        if ref is not None:
            for i in range(n):
                if abs(x[i] - float(ref[i])) > self.TOL * scale:
                    return f"x[{i}]={x[i]!r} differs from max-min of weighted expectiles {float(ref[i])!r}"
        # identification sums to zero within every block
        for j in range(len(r) - 1):
            s, e = r[j], r[j + 1]
            t = Fraction(x[s])
            tot = sum(w * ((1 - a) if y <= t else a) * (t - y) for y, w in zip(ys[s:e], ws[s:e]))
            wsum = sum(ws[s:e])
            if abs(float(tot)) > 1e-6 * scale * float(wsum):
                return f"expectile identification function sums to {float(tot)!r} (not 0) in block {s}:{e}"
        return None

    def nontrivial(self, case, io):
        return "x" in io and len(io["r"]) - 1 < len(case["y"]) and len(set(case["y"])) > 1

    def shrink(self, case):
        return ic.shrink_iso(case)


PROP = C03
