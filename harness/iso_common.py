"""Shared pieces of the isotonic-regression checks (C01, C02, C03, C11, C12)."""
from __future__ import annotations

import itertools
import math
from decimal import Decimal
from fractions import Fraction

import numpy as np

from . import core
from .core import close, dec_list, enc, enc_list, exc_class

LCM21 = 232792560  # lcm(1..21): block means of integer multiples of it are integers for total weight <= 21


# --------------------------------------------------------------------------------------
# calling the implementation
# --------------------------------------------------------------------------------------
def frac(v) -> Fraction:
    return Fraction(v) if not isinstance(v, str) else Fraction(v)


def level_float(level: str) -> float:
    """case levels are strings: 'k/2^j' style fractions (dyadic) or decimals like '0.3'"""
    if "/" in level:
        return float(Fraction(level))
    return float(level)


def level_exact(level: str) -> Fraction:
    """the level the model computes with: the decimal the float prints as (what `Decimal(str(level))` in
    quantile_upper sees); exact for dyadic levels, 0.3 -> 3/10, float(2/3) -> 0.6666666666666666"""
    return Fraction(Decimal(repr(level_float(level))))


def call_iso(case):
    import warnings

    from model_diagnostics._utils.isotonic import isotonic_regression

    y = np.array([float(frac(v)) for v in case["y"]], dtype=float)
    w = None if case.get("w") is None else np.array([float(frac(v)) for v in case["w"]], dtype=float)
    if case.get("ydtype"):  # narrow / unsigned / boolean dtypes (values are integral)
        y = y.astype(case["ydtype"])
    if case.get("wdtype") and w is not None:
        w = w.astype(case["wdtype"])
    y0 = y.copy()
    w0 = None if w is None else w.copy()
    inc = case["inc"]
    # the flag as numpy comparisons deliver it, or as 0 / 1
    inc = {"np_bool": np.bool_(inc), "int": int(inc)}.get(case.get("inc_kind"), inc)
    try:
        with warnings.catch_warnings():
            warnings.simplefilter("ignore")
            x, r = isotonic_regression(y, w, increasing=inc, functional=case["f"], level=level_float(case["level"]))
    except Exception as e:
        return {"err": exc_class(e)}
    out = {"x": [float(v) for v in x], "r": [int(v) for v in r]}
    out["mutated"] = bool((not np.array_equal(y, y0)) or (w is not None and not np.array_equal(w, w0)))
    return out


def iso_request(case):
    return {
        "op": "iso",
        "f": case["f"],
        "level": enc(level_exact(case["level"])),
        "inc": case["inc"],
        "y": enc_list(frac(v) for v in case["y"]),
        "w": None if case.get("w") is None else enc_list(frac(v) for v in case["w"]),
    }


def float_rank_divergent(level: str, n: int) -> bool:
    """True when numpy's float rank selection for the lower/upper quantile of some block size m<=n
    differs from exact arithmetic (a floating-point artefact outside the model)."""
    a = level_exact(level)
    af = level_float(level)
    bf = float(1 - Decimal(str(af)))
    b_exact = 1 - a
    for m in range(1, n + 1):
        for qf, qe in ((af, a), (bf, b_exact)):
            vi = m * qf - 1  # numpy: virtual index n*q - 1, then ceil
            k_f = int(math.ceil(vi))
            k_e = math.ceil(m * qe - 1)
            if k_f != k_e:
                return True
    return False


# --------------------------------------------------------------------------------------
# comparison of (x, r)
# --------------------------------------------------------------------------------------
def merge_near(x, r, tol, scales=None):
    """merge adjacent blocks whose values agree to `tol` relative to their own magnitude or - when `scales` (per index: the
    largest |y| that went into the block, see local_scales) is given - relative to that: a block value that is 0 in exact
    arithmetic comes out of a root finder as 7e-17 times the data's magnitude"""
    out = [r[0]]
    for j in range(1, len(r) - 1):
        a, b = float(x[r[j] - 1]), float(x[r[j]])
        m = max(abs(a), abs(b))
        if scales is not None:
            m = max(m, float(scales[r[j] - 1]), float(scales[r[j]]))
        if abs(a - b) > tol * m:
            out.append(r[j])
    out.append(r[-1])
    return out


def local_scales(xfit, ys, tol=1e-9):
    """per index: the largest |y| inside the block (maximal run of equal exact fitted values) the index belongs to.
    A block's value is computed from the block's own observations, so its rounding error is relative to THEM, not to a
    huge observation elsewhere in the sequence. One exception: when a neighbouring block's exact value lies within that
    neighbour's own rounding uncertainty (tol x its largest |y|) of this block's value, the floating-point code may pool the
    two where exact arithmetic does not (a discrete decision taken on a rounded number); such neighbours share the larger
    scale. Blocks further apart than that keep their own."""
    n = len(xfit)
    blocks = []  # (start, end, value, scale)
    i = 0
    while i < n:
        j = i
        while j + 1 < n and xfit[j + 1] == xfit[i]:
            j += 1
        blocks.append([i, j, float(frac(xfit[i])), max(abs(float(frac(v))) for v in ys[i:j + 1])])
        i = j + 1
    changed = True
    while changed:
        changed = False
        for a, b in zip(blocks, blocks[1:]):
            m = max(a[3], b[3])
            if a[3] != b[3] and abs(a[2] - b[2]) <= tol * m:
                a[3] = b[3] = m
                changed = True
    out = [0.0] * n
    for s_, e_, _, m in blocks:
        for k in range(s_, e_ + 1):
            out[k] = m
    return out


def compare_xr(io, mo, exact: bool, tol=1e-9, with_r=True, scale=None, ylocal=None):
    """scale: magnitude of the data (max |y|); tolerances are relative to it, so that small units are not hidden.
    ylocal: the observations; tolerances are then relative to the largest |y| of each fitted block"""
    if ("err" in io) != ("err" in mo):
        return f"outcome differs: implementation {io.get('err', 'ok')} vs model {mo.get('err', 'ok')}"
    if "err" in io:
        if io["err"] != mo["err"]:
            return f"exception class differs: implementation {io['err']} vs model {mo['err']}"
        return None
    xm = dec_list(mo["x"])
    if len(io["x"]) != len(xm):
        return f"length differs: {len(io['x'])} vs {len(xm)}"
    if exact:
        for i, (a, b) in enumerate(zip(io["x"], xm)):
            if Fraction(a) != b:
                return f"x[{i}] = {a!r} but the model (exact) gives {b}"
        if with_r and list(io["r"]) != list(mo["r"]):
            return f"block vector differs: {io['r']} vs model {mo['r']}"
        return None
    at = tol * (scale if scale else 1.0)
    loc = local_scales(xm, ylocal, tol) if ylocal is not None else None
    for i, (a, b) in enumerate(zip(io["x"], xm)):
        if not close(a, b, tol, at if loc is None else tol * loc[i]):
            return f"x[{i}] = {a!r} but the model gives {float(b)!r}" + ("" if loc is None else f" (tolerance {tol:g} x {loc[i]:g}, the largest |y| in its block)")
    if not with_r:
        return None
    ri = merge_near(io["x"], io["r"], 1e-7, loc)
    rm = merge_near([float(v) for v in xm], mo["r"], 1e-7, loc)
    if ri != rm:
        return f"block vector differs beyond float ties: {io['r']} vs model {mo['r']}"
    return None


# --------------------------------------------------------------------------------------
# exact reference functionals and fits (independent of the Lean model)
# --------------------------------------------------------------------------------------
def wmean(ys, ws):
    return sum(w * y for y, w in zip(ys, ws)) / sum(ws)


def q_lower(ys, a: Fraction):
    s = sorted(ys)
    n = len(s)
    k = max(1, math.ceil(n * a))
    return s[k - 1]


def q_upper(ys, a: Fraction):
    # greatest data value u with #{y < u} <= n a
    s = sorted(ys)
    n = len(s)
    k = math.floor(n * a)  # number allowed strictly below
    return s[min(k, n - 1)]


def expectile(ys, ws, a: Fraction):
    # root of sum w |1{y<=t}-a| (t-y)
    pts = sorted(set(ys))
    for c in pts:
        lo = [(y, w) for y, w in zip(ys, ws) if y <= c]
        hi = [(y, w) for y, w in zip(ys, ws) if y > c]
        num = (1 - a) * sum(w * y for y, w in lo) + a * sum(w * y for y, w in hi)
        den = (1 - a) * sum(w for _, w in lo) + a * sum(w for _, w in hi)
        t = num / den
        if c <= t and all(t <= y for y, _ in hi):
            return t
    raise AssertionError("no admissible partition")


def maxmin_fit(ys, ws, T):
    """x_i = max_{a<=i} min_{b>=i} T(y[a..b]) — the characterisation the properties state"""
    n = len(ys)
    tab = [[None] * n for _ in range(n)]
    for a in range(n):
        for b in range(a, n):
            tab[a][b] = T(ys[a : b + 1], ws[a : b + 1])
    return [max(min(tab[a][b] for b in range(i, n)) for a in range(i + 1)) for i in range(n)]


def pava_exact(ys, ws, T):
    """plain stack PAVA in exact arithmetic; pools when prev >= cur"""
    blocks = []  # (start, end, value)
    for i in range(len(ys)):
        s, e = i, i + 1
        v = T(ys[s:e], ws[s:e])
        while blocks and blocks[-1][2] >= v:
            s = blocks[-1][0]
            blocks.pop()
            v = T(ys[s:e], ws[s:e])
        blocks.append((s, e, v))
    x = []
    for s, e, v in blocks:
        x.extend([v] * (e - s))
    return x, [b[0] for b in blocks] + [len(ys)]


def data_scale(case):
    m = max((abs(float(frac(v))) for v in case["y"]), default=0.0)
    return m if m > 0 else 1.0


def contract_oracle(case, io, tol=1e-9):
    """C12's output contract on the implementation's (x, r)"""
    if "err" in io:
        return None
    y = [float(frac(v)) for v in case["y"]]
    x, r = io["x"], io["r"]
    n = len(y)
    if len(x) != n:
        return f"output length {len(x)} != input length {n}"
    if io.get("mutated"):
        return "an input array was modified"
    lo, hi = min(y), max(y)
    sc_ = data_scale(case)
    for i, v in enumerate(x):
        if not (math.isfinite(v) and lo - tol * sc_ <= v <= hi + tol * sc_):
            return f"x[{i}]={v!r} outside [min y, max y]=[{lo},{hi}]"
    if not r or r[0] != 0 or r[-1] != n:
        return f"block vector {r} does not start at 0 / end at n={n}"
    if any(b <= a for a, b in zip(r, r[1:])):
        return f"block vector {r} is not strictly increasing"
    for j in range(len(r) - 1):
        blk = x[r[j] : r[j + 1]]
        if any(v != blk[0] for v in blk):
            return f"values inside block {j} ({r[j]}:{r[j+1]}) are not constant: {blk[:5]}"
    for j in range(1, len(r) - 1):
        a, b = x[r[j] - 1], x[r[j]]
        if case["inc"] and not a < b:
            return f"adjacent blocks {j-1},{j} do not differ in the fitted direction: {a!r} vs {b!r} (r={r})"
        if not case["inc"] and not a > b:
            return f"adjacent blocks {j-1},{j} do not differ in the fitted direction: {a!r} vs {b!r} (r={r})"
    return None


# --------------------------------------------------------------------------------------
# generators
# --------------------------------------------------------------------------------------
DYADIC_LEVELS = ["1/2", "1/4", "3/4", "1/8", "7/8", "3/8", "5/16", "1/16", "15/16", "1/3", "2/3", "1/5", "4/5", "3/10", "1/10", "9/10"]
DECIMAL_LEVELS = ["0.5", "0.1", "0.2", "0.3", "0.7", "0.8", "0.9", "0.25", "0.75", "0.05", "0.95", "0.6", "0.4", "0.01", "0.99"]


def gen_y(rng, n, style=None):
    style = style or rng.choice(["small", "small", "digits", "dyadic", "wide", "neg", "big", "tiny", "range"])
    if style == "range":
        # ordinary small values after one or two observations that are 15-16 orders of magnitude larger (exactly representable):
        # anything accumulated over the whole sequence (prefix sums) loses the small ones
        ys = [rng.randint(0, 9) for _ in range(n)]
        for _ in range(rng.choice([1, 1, 2])):
            ys[rng.randrange(max(1, n // 2))] = rng.choice([-1, -1, 1]) * rng.choice([10**15, 10**16, 2**53])
        return [str(Fraction(v)) for v in ys]
    if style == "small":
        ys = [rng.randint(0, 3) for _ in range(n)]
    elif style == "digits":
        ys = [rng.randint(0, 9) for _ in range(n)]
    elif style == "dyadic":
        ys = [Fraction(rng.randint(-32, 32), 8) for _ in range(n)]
    elif style == "neg":
        ys = [rng.randint(-5, 2) for _ in range(n)]
    elif style == "big":
        ys = [rng.randint(-3, 3) * 10 ** rng.randint(0, 6) for _ in range(n)]
    elif style == "near":  # neighbours that differ by a few parts in a million / a billion (no relative tie tolerance either)
        base = rng.choice([1, 1, 1000, Fraction(1, 8)])
        ys = [base * (1 + Fraction(rng.randint(-6, 6), rng.choice([2**18, 2**28]))) for _ in range(n)]
    elif style == "tiny":  # small units: no absolute tolerance may be applied in the algorithm
        ys = [Fraction(rng.randint(-9, 9), 2**45) for _ in range(n)]
    else:
        ys = [Fraction(rng.randint(-(2**30), 2**30), 2**20) for _ in range(n)]
    shape = rng.choice(["rand", "rand", "rand", "sorted", "rev", "saw", "const", "trend"])
    if shape == "sorted":
        ys.sort()
    elif shape == "rev":
        ys.sort(reverse=True)
    elif shape == "saw":
        unit = Fraction(1, 2**45) if style == "tiny" else 1
        ys = [v + (i % 3) * unit for i, v in enumerate(sorted(ys))]
    elif shape == "const":
        ys = [ys[0]] * n
    elif shape == "trend":
        ys = [v + Fraction(i, 2) * (Fraction(1, 2**45) if style == "tiny" else 1) for i, v in enumerate(ys)]
    return [str(Fraction(v)) for v in ys]


def gen_w(rng, n, allow_none=True):
    style = rng.choice((["none"] if allow_none else []) + ["ones", "int", "int", "dyadic", "float", "first", "tiny", "hugefirst", "meanone"])
    if style == "meanone" and n >= 2:
        # genuinely different weights normalised to mean one: their sum is exactly n
        ws = [Fraction(1)] * n
        idx = list(range(n))
        rng.shuffle(idx)
        for a, b in zip(idx[0::2], idx[1::2]):
            d = rng.choice([Fraction(1, 2), Fraction(1, 4), Fraction(3, 4)])
            ws[a], ws[b] = 1 - d, 1 + d
        return [str(v) for v in ws]
    if style == "hugefirst":
        ws = [rng.randint(1, 3) for _ in range(n)]
        if n:
            ws[rng.randrange(max(1, n // 2))] = rng.choice([10**16, 10**17, 2**55])
        return [str(Fraction(v)) for v in ws]
    if style == "none":
        return None
    if style == "ones":
        return ["1"] * n
    if style == "int":
        ws = [rng.randint(1, 3) for _ in range(n)]
    elif style == "dyadic":
        ws = [rng.choice([Fraction(1, 4), Fraction(1, 2), 1, 2, 4]) for _ in range(n)]
    elif style == "float":
        ws = [Fraction(rng.randint(1, 2**16), 2**12) for _ in range(n)]
    elif style == "tiny":  # genuinely different weights of very small (or huge) magnitude
        sc = rng.choice([Fraction(1, 2**30), Fraction(1, 2**40), 2**30])
        ws = [rng.randint(1, 5) * sc for _ in range(n)]
    else:
        ws = [1] * n
        ws[0] = rng.choice([2, 3, 5, Fraction(1, 2)])
    if n and ws[0] == 1:
        ws[0] = 2
    if style == "tiny":
        return [str(Fraction(v)) for v in ws]
    return [str(Fraction(v)) for v in ws]


def gen_dtype_case(rng, f, level):
    """integral observations in a narrow / unsigned / boolean dtype (zeros included), weights in a narrow dtype"""
    n = rng.randint(2, 12)
    ydt = rng.choice(["bool", "int8", "uint8", "uint16", "uint32", "int64", "float32"])
    ys = [rng.randint(0, 1) for _ in range(n)] if ydt == "bool" else [rng.choice([0, 0, rng.randint(0, 100)]) for _ in range(n)]
    if rng.random() < 0.4:
        ys.sort(reverse=rng.random() < 0.7)
    wdt = None if f in ("quantile", "median") else rng.choice([None, "uint8", "int16", "int32", "bool"])
    if wdt is None:
        w = None
    elif wdt == "bool":
        w = [1] * n
    else:
        top = {"uint8": 120, "int16": 20000, "int32": 1_500_000_000}[wdt]
        w = [rng.randint(top // 2, top) for _ in range(n)]
    return {"stream": "dtype", "f": f, "level": level, "inc": rng.random() < 0.5, "ydtype": ydt, "wdtype": wdt,
            "inc_kind": rng.choice([None, "np_bool", "int"]),
            "y": [str(v) for v in ys], "w": None if w is None else [str(v) for v in w]}


def small_scope(n_max, alphabet=(0, 1, 2, 3)):
    for n in range(1, n_max + 1):
        for ys in itertools.product(alphabet, repeat=n):
            yield list(ys)


WEIGHT_PATTERNS = [
    lambda n: None,
    lambda n: [(i % 3) + 1 for i in range(n)],        # 1,2,3,1,...
    lambda n: [3 - (i % 3) for i in range(n)],        # 3,2,1,3,...
    lambda n: [2] + [1] * (n - 1),                    # first weight != 1
    lambda n: [1] * (n - 1) + [3],
    lambda n: [1 + (i % 2) * 2 for i in range(n)],    # 1,3,1,3
    lambda n: [3 - (i % 2) * 2 for i in range(n)],    # 3,1,3,1
    lambda n: [2] * n,
    lambda n: [1, 3] + [2] * (n - 2) if n >= 2 else [3],
]


def shrink_iso(case):
    ys = case["y"]
    n = len(ys)
    ws = case.get("w")
    # drop elements
    if n > 1:
        for i in range(n):
            c = dict(case)
            c["y"] = ys[:i] + ys[i + 1 :]
            if ws is not None:
                c["w"] = ws[:i] + ws[i + 1 :]
            yield c
        for k in (n // 2,):
            if k >= 1:
                for sl in (slice(0, k), slice(k, n)):
                    c = dict(case)
                    c["y"] = ys[sl]
                    if ws is not None:
                        c["w"] = ws[sl]
                    yield c
    # unit weights
    if ws is not None and any(w != "1" for w in ws):
        c = dict(case)
        c["w"] = ["1"] * n
        yield c
    # small integer values preserving order
    vals = sorted(set(Fraction(v) for v in ys))
    ranks = {v: i for i, v in enumerate(vals)}
    ranked = [str(ranks[Fraction(v)]) for v in ys]
    if ranked != ys:
        c = dict(case)
        c["y"] = ranked
        if c.get("stream", "").startswith("exact"):
            c["stream"] = "shrunk"
        yield c
