"""Shared pieces of the scoring-function checks (C04, C05, C14, C17)."""
from __future__ import annotations

import math
from fractions import Fraction

import numpy as np

from .core import bits2f, exc_class, f2bits

HES_DEGREES = [-2.0, -1.0, -0.5, 0.0, 0.25, 0.5, 1.0, 1.5, 2.0, 2.5, 3.0, 4.0, 5.0, 7.5]
HQS_DEGREES = [-2.0, -1.0, -0.5, 0.0, 0.5, 1.0, 1.5, 2.0, 3.0, 4.0, 5.0, 7.0, 2.5]
LEVELS = [0.01, 0.2, 0.5, 0.8, 0.99, 0.25, 0.75]
KINDS = ["hes", "hqs", "logloss", "squared_error", "poisson", "gamma", "pinball"]


def make_sf(kind, h, level):
    from model_diagnostics import scoring as S

    if kind == "hes":
        return S.HomogeneousExpectileScore(degree=h, level=level)
    if kind == "hqs":
        return S.HomogeneousQuantileScore(degree=h, level=level)
    if kind == "logloss":
        return S.LogLoss()
    if kind == "squared_error":
        return S.SquaredError()
    if kind == "poisson":
        return S.PoissonDeviance()
    if kind == "gamma":
        return S.GammaDeviance()
    if kind == "pinball":
        return S.PinballLoss(level=level)
    raise KeyError(kind)


def usage_pattern(kind, h, level, y, z):
    """how the score object is used, chosen reproducibly from the inputs: 0 plain; 1 another scorer of the same class (other
    degree / level) is constructed before this one is evaluated; 2 the scorer and the very same arrays were used for other data
    before and are refilled in place; 3 the scorer is constructed at level 0.5 and its public attribute level re-assigned;
    4 as 2 with Python lists (edited in place with slice assignment) instead of numpy arrays; 5 the scorer is constructed with
    another degree (of the other kind: even <-> odd, positive <-> non-positive) and level, USED once on harmless data, and only
    then are its public attributes degree / level re-assigned (nothing computed at first use may be remembered)"""
    import zlib

    return zlib.crc32(repr((kind, h, level, list(y), list(z))).encode()) % 6


def call_score(kind, h, level, y, z, w=None):
    try:
        pat = usage_pattern(kind, h, level, y, z)
        valid_level = isinstance(level, (int, float)) and 0 < level < 1
        if pat == 3 and kind in ("hes", "hqs", "pinball") and valid_level:
            # constructed with other parameters, the public attributes re-assigned afterwards
            sf = make_sf(kind, {"hes": 2.0, "hqs": 1.0}.get(kind, h), 0.5)
            sf.level = level
            if kind in ("hes", "hqs"):
                sf.degree = h
        elif pat == 5 and kind in ("hes", "hqs", "pinball") and valid_level:
            other = {"hes": 3.0 if float(h) <= 1 else 0.5, "hqs": 4.0 if (float(h) > 0 and float(h) % 2 == 1) else 3.0}.get(kind, h)
            sf = make_sf(kind, other, 0.75 if level != 0.75 else 0.25)
            try:
                sf.score_per_obs(np.array([1.5, 2.0]), np.array([2.5, 1.0]))
                sf(np.array([1.5, 2.0]), np.array([2.5, 1.0]))
            except Exception:
                pass
            sf.level = level
            if kind in ("hes", "hqs"):
                sf.degree = h
        else:
            sf = make_sf(kind, h, level)
        if pat == 1 and kind in ("hes", "hqs"):
            make_sf(kind, h + 0.5, 0.3 if valid_level and level != 0.3 else 0.6)  # a bystander with other parameters
        ya, za = np.array(y, dtype=float), np.array(z, dtype=float)
        if pat == 2 and len(y) > 0:
            try:
                ya[:] = np.abs(ya[::-1]) + 1.5
                za[:] = np.abs(za[::-1]) + 2.5
                sf.score_per_obs(ya, za)
            except Exception:
                pass
            ya[:] = y
            za[:] = z
        if pat == 4 and len(y) > 0:
            ya, za = [abs(float(v)) + 1.5 for v in reversed(y)], [abs(float(v)) + 2.5 for v in reversed(z)]
            try:
                sf.score_per_obs(ya, za)
                sf(ya, za)
            except Exception:
                pass
            ya[:] = [float(v) for v in y]
            za[:] = [float(v) for v in z]
        per = sf.score_per_obs(ya, za)
        per = np.asarray(per, dtype=float)
    except Exception as e:
        return {"err": exc_class(e)}
    out = {"per_obs": [float(v) for v in per]}
    try:
        out["mean"] = float(sf(np.array(y, dtype=float), np.array(z, dtype=float), None if w is None else np.array(w, dtype=float)))
    except Exception as e:
        out["mean_err"] = exc_class(e)
    return out


def score_request(kind, h, level, y, z, w=None):
    return {"op": "score", "kind": kind, "h": f2bits(h), "level": f2bits(level), "y": [f2bits(v) for v in y],
            "z": [f2bits(v) for v in z], "w": None if w is None else [f2bits(v) for v in w]}


def effective(kind, h, level):
    """(family, degree, level) of a named class"""
    return {"squared_error": ("hes", 2.0, 0.5), "poisson": ("hes", 1.0, 0.5), "gamma": ("hes", 0.0, 0.5),
            "pinball": ("hqs", 1.0, level), "logloss": ("logloss", 0.0, 0.5)}.get(kind, (kind, h, level))


def in_domain(kind, h, level, y, z):
    fam, h, _ = effective(kind, h, level)
    if fam == "logloss":
        return 0 <= y <= 1 and 0 < z < 1
    if fam == "hes":
        if h > 1:
            return True
        if h > 0:
            return y >= 0 and z > 0
        return y > 0 and z > 0
    if h == 1 or (h > 1 and h % 2 == 1):
        return True
    return y > 0 and z > 0


def scale(kind, h, level, y, z):
    """magnitude of the largest term of the formula (for tolerances)"""
    core = _scale_core(kind, h, level, y, z)
    m = max(abs(y), abs(z))
    if 0 < m < 1e-6 and effective(kind, h, level)[0] != "logloss":
        # small units: the additive 1 would hide everything; use the homogeneous magnitude only
        return max(core, 1e-300)
    return 1.0 + core


def _scale(kind, h, level, y, z):
    return 1.0 + _scale_core(kind, h, level, y, z)


def _scale_core(kind, h, level, y, z):
    fam, h, _ = effective(kind, h, level)
    try:
        if fam == "logloss":
            return abs(math.log(z)) + abs(math.log1p(-z))
        a, b = abs(y), abs(z)
        if fam == "hes":
            if h == 2:
                return a * a + b * b
            if h == 1:
                return a * (abs(math.log(a / b)) if a > 0 else 0) + a + b
            if h == 0:
                return a / b + abs(math.log(a / b))
            den = abs(h * (h - 1))
            return (a**h + b**h) / den + b ** (h - 1) * abs(y - z) / abs(h - 1)
        if h == 0:
            return abs(math.log(a)) + abs(math.log(b))
        return (a**h + b**h) / abs(h)
    except (ValueError, ZeroDivisionError, OverflowError):
        return 0.0


def far_enough(y, z):
    m = max(abs(y), abs(z))
    return y == z or abs(z - y) >= 2.0**-10 * (m if 0 < m < 1e-6 else max(m, 1.0))


def gen_value(rng, positive=False, unit=False):
    if unit:
        return rng.choice([0.0, 1.0, 0.5, 0.25, 0.125, 0.9, 0.75, rng.randint(1, 63) / 64])
    r = rng.random()
    if r < 0.35:
        v = float(rng.randint(0, 8))
    elif r < 0.6:
        v = rng.randint(1, 64) / 8
    elif r < 0.8:
        v = rng.choice([1e-3, 0.5, 1.0, 2.0, 10.0, 100.0, 1234.5])
    else:
        v = round(rng.uniform(0.01, 50), 3)
    if rng.random() < 0.06:
        v = v * 2.0**-33  # small units: no absolute tolerance may be applied anywhere
    if not positive and rng.random() < 0.35:
        v = -v
    return v


def gen_pair(rng, kind, h, level, want_domain=True):
    """an in-domain (or, if asked, out-of-domain) pair away from the cancellation regime"""
    fam, hh, _ = effective(kind, h, level)
    for _ in range(50):
        if fam == "logloss":
            y = gen_value(rng, unit=True)
            z = rng.choice([0.5, 0.25, 0.75, 0.1, 0.9, 0.01, 0.99, rng.randint(1, 63) / 64])
        else:
            y, z = gen_value(rng), gen_value(rng)
            if rng.random() < 0.2:
                z = y
            if rng.random() < 0.1:
                y = 0.0
            if rng.random() < 0.1:
                z = 0.0
        if not far_enough(y, z):
            continue
        if in_domain(kind, h, level, y, z) == want_domain:
            return y, z
    if want_domain:
        return (0.5, 0.25) if fam == "logloss" else (2.0, 3.0)
    return None
