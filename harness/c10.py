"""C10 — compute_marginal: correct group means, bin edges and partial dependence."""
import math
from fractions import Fraction

import numpy as np

from . import table_common as tc
from .c09 import feq, feature_series, fvalues
from .core import Prop, dec, enc, enc_list, exc_class


def cat_value(c):
    return 0.0 if c is None else float(len(c) + (ord(c[0]) % 5))


class C10(Prop):
    id = "C10"
    unique_answer = True
    rule = (
        "data sets with a feature column inside X (polars frame or numpy matrix; numeric incl. None / NaN / inf / Int64 / "
        "constant / all-null, or string / Categorical / Enum with names sorting after 'other', containing 'other ', real "
        "categories called 'other 2'), a second numeric column, weights none / positive, all 10 bin methods, n_bins 2..12, "
        "1-3 prediction columns (also a polars frame with unsorted column names, and 11 columns), predict functions a*x_j*x_k + b*x_k^2 + c*x_j (numeric) or value(category)*x_k + c (string) that record every feature "
        "value they are shown, n_max below / above n, seeds. Compared with the model row by row: feature value / label, "
        "y_obs_mean, y_pred_mean, both standard errors, count, weights, bin_edges = (lower, sqrt(model variance), upper). "
        "Oracle on the implementation: totals, y_pred_mean - y_obs_mean = compute_bias's bias_mean of the same call row by "
        "row, edges non-overlapping / spanning [min, max] / containing every member (membership from bin_feature), "
        "partial_dependence = the definition (Fractions) and = compute_partial_dependence called directly at the real feature "
        "values, null for the pooled row only, and the pooled label is never shown to the predict function. Non-trivial = at "
        "least 2 groups and (string) pooling or (numeric) a non-integer bin mean."
        "Later additions: the partial_dependence column is also compared with the model (marginalPD), exact-zero case weights, a large common offset of "
        "observations and predictions (standard errors at the accuracy of a two-pass formula), unsigned numpy feature matrices. "
    )
    assumptions = ["polars std(ddof=0) = population standard deviation; predict functions are row-wise"]

    def generate(self, tier, rng):
        N = 1000 if tier == "quick" else 15000
        for n in ([1100] if tier == "quick" else [1001, 1100, 2500]):
            # more rows than the default n_max of the partial dependence, with n_max=None ("no subsampling") passed explicitly
            y = [rng.randint(-8, 16) / 4 for _ in range(n)]
            pred = [rng.randint(-8, 16) / 4 for _ in range(n)]
            yield {"stream": "marginal", "y": y, "pred": pred, "preds": [pred], "colnames": None, "w": [rng.choice([1.0, 2.0, 0.5]) for _ in range(n)],
                   "other": [float(rng.randint(-3, 5)) for _ in range(n)], "n_bins": 4, "method": "quantile", "a": 2, "b": 1, "c": 1,
                   "n_max": 10**9, "n_max_none": True, "seed": 5, "with_pd": True, "fkind": "numeric", "kind": "float",
                   "feature": [float(rng.randint(0, 9)) for _ in range(n)], "xcontainer": "polars"}
        for k in range(N):
            n = rng.choice([1, 2, 3, 5, 8, 13, 30]) if rng.random() < 0.85 else rng.randint(31, 80)
            y = [rng.randint(-8, 16) / 4 for _ in range(n)]
            pred = [v if rng.random() < 0.2 else rng.randint(-8, 16) / 4 for v in y]
            w = None if rng.random() < 0.4 else [rng.choice([1.0, 2.0, 3.0, 0.5, 0.25]) for _ in range(n)]
            other = [float(rng.randint(-3, 5)) for _ in range(n)]
            nm = 1 if rng.random() < 0.65 else rng.choice([2, 3, 11])
            preds = [pred] + [[rng.randint(-8, 16) / 4 for _ in range(n)] for _ in range(nm - 1)]
            from .decomp_common import gen_colnames

            c = {"stream": "marginal", "y": y, "pred": pred, "preds": preds, "colnames": gen_colnames(rng, nm) if 2 <= nm <= 3 else None, "w": w, "other": other, "n_bins": rng.randint(2, 12),
                 "method": rng.choice(tc.ALL_METHODS[:2] * 2 + tc.NUMPY_METHODS), "a": rng.randint(-2, 3), "b": rng.randint(-1, 2),
                 "c": rng.randint(-1, 3), "n_max": rng.choice([1000, 1000, max(1, n - 1), max(1, n // 2)]), "seed": rng.randint(0, 10**6),
                 "with_pd": rng.random() < 0.8}
            if rng.random() < 0.5:
                kind, vals = tc.gen_numeric_feature(rng, n, need_finite=True)
                vals = [None if v is None else ("nan" if isinstance(v, float) and math.isnan(v) else ("inf" if v == math.inf else ("-inf" if v == -math.inf else v))) for v in vals]
                c.update(fkind="numeric", kind=kind, feature=vals, xcontainer=rng.choice(["polars", "polars", "numpy"]))
                if (kind.startswith("int") and any(v is None for v in vals)) or kind == "float32_nan":
                    # (a float32 column stays float32 only in the polars frame: the numpy matrix of this harness is float64, and
                    # numpy's bin-width estimators give other edges for the float64 copy of the same numbers)
                    c["xcontainer"] = "polars"
            else:
                dtype, vals, enum = tc.gen_string_feature(rng, n)
                c.update(fkind="string", kind=dtype, feature=vals, enum=enum, xcontainer="polars")
            if c["fkind"] == "numeric" and rng.random() < 0.25:
                # a narrow signed / unsigned integer column of a polars frame (counts, codes): bin means are not whole numbers and
                # must reach the predict function untruncated
                kind = rng.choice(["uint8w", "uint16w", "int8w", "int8w", "int16w"])
                lo = 0 if kind.startswith("uint") else -6
                c.update(kind=kind, feature=[rng.randint(lo, 12) for _ in range(n)], xcontainer="polars")
                if rng.random() < 0.5:
                    # the whole range of the dtype (a range that does not fit the dtype itself: -100 .. 100 in Int8)
                    lo_, hi_ = tc.NARROW_RANGE[kind]
                    c.update(feature=[rng.choice([lo_, hi_, rng.randint(lo_, hi_)]) for _ in range(n)], method=rng.choice(["uniform", "uniform", "quantile"]))
            if rng.random() < 0.08:
                # a huge common offset with a small spread: variances / standard errors must be computed stably
                off = rng.choice([1e8, 1e9])
                c["y"] = [off + rng.randint(-3, 3) for _ in range(n)]
                c["preds"] = [[off + rng.randint(-3, 3) for _ in range(n)] for _ in c["preds"]]
                c["pred"] = c["preds"][0]
                c["offset"] = True
            if c["fkind"] == "numeric" and c["kind"] == "int" and c["xcontainer"] == "numpy" and rng.random() < 0.5:
                # the same whole numbers in an unsigned numpy matrix (bin means are not whole numbers)
                c["feature"] = [abs(v) for v in c["feature"]]
                c["other"] = [abs(v) for v in c["other"]]
                c["xcontainer"] = "numpy_uint"
            if c["w"] is not None and rng.random() < 0.3:
                c["w"] = tc.zero_some_weights(rng, c["feature"], c["w"])
                if c["n_max"] < n and sum(c["w"][int(i)] for i in np.random.default_rng(c["seed"]).choice(n, size=c["n_max"], replace=False)) == 0:
                    c["n_max"] = 1000  # the drawn subsample must keep a positive total weight
            yield c

    def build(self, case):
        import polars as pl

        ser = feature_series(case)
        if case["xcontainer"] == "numpy_uint":
            return np.column_stack([np.array([int(v) for v in fvalues(case)], dtype=np.uint16), np.array([int(v) for v in case["other"]], dtype=np.uint16)]), 0
        if case["xcontainer"] == "numpy":
            vals = [math.nan if v is None else float(v) for v in fvalues(case)]
            # an integer feature stays an integer column (numpy's bin-width estimators treat integers specially); kinds
            # with nulls never come here as integers: generate() forces the polars container for them
            dt = np.int64 if case["kind"].startswith("int") and all(v is not None for v in vals) else float
            return np.column_stack([np.array(vals, dtype=dt), np.array(case["other"], dtype=dt if dt is np.int64 else float)]), 0
        return pl.DataFrame({"f": ser, "g": case["other"]}), "f"

    def impl(self, case):
        import polars as pl
        from model_diagnostics._utils.binning import bin_feature
        from model_diagnostics._utils.partial_dependence import compute_partial_dependence
        from model_diagnostics.calibration import compute_bias, compute_marginal

        X, fname = self.build(case)
        y = np.array(case["y"])
        preds = case.get("preds") or [case["pred"]]
        nm = len(preds)
        if nm == 1:
            p = np.array(preds[0])
        elif case.get("colnames"):
            p = pl.DataFrame({nm_: [float(v) for v in col] for nm_, col in zip(case["colnames"], preds)})
        else:
            p = np.array(preds).T
        w = None if case["w"] is None else np.array(case["w"])
        a, b, c = case["a"], case["b"], case["c"]
        seen = []

        def col(Xs, j):
            if isinstance(Xs, pl.DataFrame):
                return Xs[:, j]
            return Xs[:, j]

        def pred_fun(Xs):
            xk = np.asarray(col(Xs, 1), dtype=float)
            if case["fkind"] == "string":
                cats = col(Xs, 0).to_list()
                seen.extend(set(cats))
                return np.array([cat_value(v) for v in cats]) * xk + c
            xj = col(Xs, 0)
            xj = xj.to_numpy() if isinstance(xj, pl.Series) else xj
            xj = np.asarray(xj, dtype=float)
            seen.extend(set(float(v) for v in xj))
            return a * xj * xk + b * xk * xk + c * xj

        try:
            df = compute_marginal(y, p, X=X, feature_name=fname, predict_function=pred_fun if case["with_pd"] else None, weights=w,
                                  n_bins=case["n_bins"], bin_method=case["method"], n_max=None if case.get("n_max_none") else case["n_max"], rng=case["seed"])
        except Exception as e:
            return {"err": exc_class(e), "msg": str(e)[:300]}
        fcol = "f" if fname == "f" else "feature 0"
        rows = []
        for r in df.iter_rows(named=True):
            fv = r.get(fcol)
            if isinstance(fv, float) and math.isnan(fv):
                fv = "nan"
            be = r.get("bin_edges")
            rows.append({"model": r.get("model"), "f": fv, "yo": r["y_obs_mean"], "yp": r["y_pred_mean"], "so": r["y_obs_stderr"], "sp": r["y_pred_stderr"],
                         "count": r["count"], "weights": r["weights"], "edges": None if be is None else [None if v is None else float(v) for v in be],
                         "pd": r.get("partial_dependence")})
        out = {"rows": rows, "columns": df.columns, "seen": [("nan" if isinstance(v, float) and math.isnan(v) else v) for v in seen]}
        # the same call through compute_bias
        try:
            ser = feature_series(case)
            bdf = compute_bias(y, p, feature=ser, weights=w, functional="mean", n_bins=case["n_bins"], bin_method=case["method"])
            out["bias"] = [r["bias_mean"] for r in bdf.iter_rows(named=True)]
            out["bias_models"] = [r.get("model") for r in bdf.iter_rows(named=True)]
            with pl.StringCache():
                _, _, fb = bin_feature(ser, None, len(y), case["n_bins"], case["method"])
                out["bins"] = fb.get_column("bin").to_list()
        except Exception as e:
            out["bias_err"] = exc_class(e) + str(e)[:100]
        # partial dependence called directly at the real feature values
        if case["with_pd"]:
            direct = []
            for r in rows:
                if r["pd"] is None:
                    direct.append(None)
                    continue
                g = r["f"]
                if g == "nan":
                    g = math.nan
                grid = pl.Series([g], dtype=X["f"].dtype) if (isinstance(X, pl.DataFrame) and case["fkind"] == "string") else [g]
                try:
                    seen_before = len(seen)
                    direct.append(float(compute_partial_dependence(pred_fun, X, 0, grid, weights=w, n_max=None if case.get("n_max_none") else case["n_max"], rng=case["seed"])[0]))
                    del seen[seen_before:]
                except Exception as e:
                    direct.append("err:" + exc_class(e))
            out["direct"] = direct
        return out

    def model_request(self, case):
        reqs = []
        for pred in (case.get("preds") or [case["pred"]]):
            r = {"op": "table", "w": enc_list(Fraction(v) for v in (case["w"] or [1.0] * len(case["y"]))),
                 "cols": [enc_list(Fraction(v) for v in case["y"]), enc_list(Fraction(v) for v in pred)]}
            if case["fkind"] == "numeric":
                r.update(kind="num", method=case["method"], n_bins=case["n_bins"], feature=[tc.cell_json(v) for v in fvalues(case)],
                         given=[enc(Fraction(v)) for v in tc.given_edges(case["method"], feature_series(case))])
            else:
                r.update(kind="str", n_bins=case["n_bins"], feature=case["feature"])
                if case.get("enum") is not None:
                    r["enum"] = case["enum"]
            if case["with_pd"] and not reqs:
                pdreq = self.pd_request(case)
                if pdreq is not None:
                    r["pd"] = pdreq
            reqs.append(r)
        return reqs

    def pd_request(self, case):
        """the model's partial_dependence column (marginalPD) for the first prediction column"""
        n = len(case["y"])
        if case["fkind"] == "numeric":
            fv = fvalues(case)
            if any(v is not None and isinstance(v, float) and math.isinf(v) for v in fv):
                return None  # an infinite bin mean makes the predict function return inf / NaN
            if case["kind"] == "float32_nan":
                return None  # float32 feature column: the bin means shown to the predict function are float32
            col0 = [Fraction(0) if (v is None or (isinstance(v, float) and math.isnan(v))) else Fraction(v) for v in fv]
            req = {"cat": False}
        else:
            col0 = [Fraction(cat_value(v)) for v in case["feature"]]
            req = {"cat": True, "keyvals": {v: enc(Fraction(cat_value(v))) for v in set(case["feature"]) if v is not None}}
        req.update(X=[[enc(a), enc(Fraction(b))] for a, b in zip(col0, case["other"])], a=enc(Fraction(case["a"])), b=enc(Fraction(case["b"])),
                   c=enc(Fraction(case["c"])))
        if case["w"] is not None:
            req["w"] = enc_list(Fraction(v) for v in case["w"])
        if case["n_max"] < n:
            req["sub"] = [int(i) for i in np.random.default_rng(case["seed"]).choice(n, size=case["n_max"], replace=False)]
        return req

    def compare(self, case, io, mos):
        if "err" in io:
            return f"valid call rejected: {io['err']}: {io.get('msg')}"
        nm = len(mos)
        per = len(io["rows"]) // nm
        if case["fkind"] == "numeric" and case["method"] == "quantile" and tc.quantile_rank_divergent(case["feature"], case["n_bins"]):
            self.float_rank_divergent = getattr(self, "float_rank_divergent", 0) + 1
            return None  # np.nanquantile's float rank picks a neighbouring order statistic: outside the exact model (counted)
        if case["fkind"] == "numeric" and tc.uniform_edge_tie(case["method"], fvalues(case), mos[0]["rows"]):
            self.edge_ties_skipped = getattr(self, "edge_ties_skipped", 0) + 1
            return None  # float edge arithmetic of 'uniform' is outside the model (counted)
        labels = case.get("colnames") or [str(q) for q in range(nm)]
        for m, mo in enumerate(mos):
            e = self.compare_one(case, {**io, "rows": io["rows"][m * per:(m + 1) * per]}, mo, labels[m] if nm > 1 else None)
            if e:
                return (f"model column {m}: " if nm > 1 else "") + e
        return None

    def compare_one(self, case, io, mo, label):
        if len(io["rows"]) != len(mo["rows"]):
            return f"{len(io['rows'])} rows vs model {len(mo['rows'])}"
        for k, (a, b) in enumerate(zip(io["rows"], mo["rows"])):
            if a.get("model") != label:
                return f"row {k} is labelled {a.get('model')!r}, expected {label!r}"
            if case["fkind"] == "numeric":
                fb = tc.cell_val(b["feat"])
                fa = None if a["f"] is None else (math.nan if a["f"] == "nan" else float(a["f"]))
                if b["key"] is None:
                    fb = None
                elif fb is None:
                    fb = math.nan
                f32 = case["kind"] == "float32_nan"  # float32 columns: polars' mean / std are float32
                if not feq(fa, fb, 1e-6 if f32 else 1e-9):
                    return f"row {k}: feature value {a['f']!r} vs model {fb!r}"
                eb = b["edges"]
                sd = None if b["fvar"] is None else math.sqrt(float(dec(b["fvar"])))
                want = [None if eb is None else tc.cell_val(eb[0]), sd, None if eb is None else tc.cell_val(eb[1])]
                got = a["edges"]
                if got is None:
                    return f"row {k}: no bin_edges"
                for pos, (u, v) in enumerate(zip(got, want)):
                    if b["key"] is None and pos == 1:
                        continue  # std of the null group's (null) feature values: polars gives null or 0.0
                    uu = None if (u is None or (isinstance(u, float) and math.isnan(u))) else u
                    if not (feq(uu, v, 1e-6 if f32 else 1e-9) or (uu is not None and v is not None and abs(uu - v) < (1e-6 if f32 else 1e-9))):
                        return f"row {k}: bin_edges {got} vs model {want}"
            else:
                if a["f"] != b["key"]:
                    return f"row {k}: label {a['f']!r} vs model {b['key']!r}"
                if (a["pd"] is None) != (b["key"] is not None and b["key"] == mo.get("pooled")) and case["with_pd"]:
                    return f"row {k} ({a['f']!r}): partial dependence {a['pd']!r} but model says pooled label is {mo.get('pooled')!r}"
            if mo.get("pd") is not None and case["with_pd"]:
                mp = mo["pd"][k]
                if (a["pd"] is None) != (mp is None):
                    return f"row {k} ({a['f']!r}): partial dependence {a['pd']!r} vs model {mp!r}"
                if mp is not None and not (case["fkind"] == "numeric" and b["key"] is None):
                    self.pd_compared = getattr(self, "pd_compared", 0) + 1
                    ref = float(dec(mp))
                    if not (isinstance(a["pd"], float) and abs(a["pd"] - ref) <= 1e-9 * max(1.0, abs(ref), self.pd_scale(case))):
                        return f"row {k} ({a['f']!r}): partial dependence {a['pd']!r} vs model {ref!r}"
            if a["count"] != b["count"]:
                return f"row {k}: count {a['count']} vs {b['count']}"
            if not feq(a["weights"], float(dec(b["weights"]))):
                return f"row {k}: weights {a['weights']} vs {float(dec(b['weights']))}"
            for nm, i in (("yo", 0), ("yp", 1)):
                if not feq(a[nm], float(dec(b["stats"][i][0]))):
                    return f"row {k}: {nm} mean {a[nm]!r} vs {float(dec(b['stats'][i][0]))!r}"
            for nm, i in (("so", 0), ("sp", 1)):
                se = math.sqrt(float(dec(b["stats"][i][1])))
                if case.get("offset"):
                    # compared at the accuracy a numerically stable (two-pass) formula achieves at this magnitude
                    if not feq(a[nm], se, 1e-5):
                        return f"row {k}: {nm} stderr {a[nm]!r} vs {se!r} (large common offset)"
                    continue
                if not (feq(a[nm], se) or abs(a[nm] - se) < 1e-12):
                    return f"row {k}: {nm} stderr {a[nm]!r} vs {se!r}"
        return None

    @staticmethod
    def pd_scale(case):
        """magnitude of the terms averaged by the predict function (tolerances are relative to it)"""
        xs = [abs(float(v)) for v in case["feature"] if isinstance(v, (int, float)) and not isinstance(v, bool) and math.isfinite(float(v))] or [1.0]
        o = max(abs(v) for v in case["other"]) or 1.0
        return (abs(case["a"]) * max(xs) * o + abs(case["b"]) * o * o + abs(case["c"]) * max(xs) + 12 * o)

    def oracle(self, case, io):
        if "err" in io:
            return f"valid call rejected: {io['err']}: {io.get('msg')}"
        nm = len(case.get("preds") or [1])
        per = len(io["rows"]) // nm
        if "bias" in io and len(io["bias"]) == len(io["rows"]):
            for r, bm, bmod in zip(io["rows"], io["bias"], io.get("bias_models", [None] * len(io["rows"]))):
                if r.get("model") != bmod:
                    return f"row labelled {r.get('model')!r} faces compute_bias row labelled {bmod!r}"
                if not feq(r["yp"] - r["yo"], bm) and abs(r["yp"] - r["yo"] - bm) > (1e-15 * max(abs(r["yp"]), 1e6) * 100 if case.get("offset") else 1e-9):
                    return f"y_pred_mean - y_obs_mean = {r['yp'] - r['yo']!r} differs from compute_bias's bias_mean {bm!r} (model {bmod!r})"
        if nm > 1 and case["with_pd"]:
            # the partial dependence does not depend on the forecast column: every model block must carry the same values
            first = [r["pd"] for r in io["rows"][:per]]
            for m in range(1, nm):
                blk = [r["pd"] for r in io["rows"][m * per:(m + 1) * per]]
                for u, v in zip(first, blk):
                    if (u is None) != (v is None) or (u is not None and not (feq(u, v) or abs(u - v) < 1e-12)):
                        return f"partial dependence differs between model blocks 0 and {m}: {first} vs {blk}"
        if nm > 1:
            # the remaining clauses are checked on the first model's block (same feature, same bins)
            io = {**io, "rows": io["rows"][:per], "bias": io.get("bias", [])[:per], "direct": io.get("direct", [])[:per]}
        rows = io["rows"]
        n = len(case["y"])
        ws = [Fraction(1)] * n if case["w"] is None else [Fraction(v) for v in case["w"]]
        if sum(r["count"] for r in rows) != n:
            return f"counts sum to {sum(r['count'] for r in rows)} != {n}"
        if abs(sum(r["weights"] for r in rows) - float(sum(ws))) > 1e-9 * float(sum(ws)):
            return "weights do not sum to the total weight"
        has_null = any(v is None or v == "nan" for v in case["feature"])
        if has_null != any(r["f"] is None for r in rows):
            return "null feature values did not keep their own group"
        if "bias_err" in io:
            return f"compute_bias fails on the same call: {io['bias_err']}"
        if len(io["bias"]) != len(rows):
            return "compute_bias has a different number of rows for the same call"
        for r, bm in zip(rows, io["bias"]):
            if not feq(r["yp"] - r["yo"], bm) and abs(r["yp"] - r["yo"] - bm) > (1e-15 * max(abs(r["yp"]), 1e6) * 100 if case.get("offset") else 1e-9):
                return f"y_pred_mean - y_obs_mean = {r['yp'] - r['yo']!r} differs from compute_bias's bias_mean {bm!r}"
        if case["fkind"] == "numeric":
            vals = [None if (v is None or v == "nan") else float(v) for v in fvalues(case)]
            vals = [None if (v is None or math.isnan(v)) else v for v in vals]
            nn = [r for r in rows if r["f"] is not None]
            real = [v for v in vals if v is not None]
            if nn:
                if nn[0]["edges"][0] != min(real) or nn[-1]["edges"][2] != max(real):
                    return f"bins do not span the feature range [{min(real)}, {max(real)}]: {[r['edges'] for r in nn]}"
                for r1, r2 in zip(nn, nn[1:]):
                    if r1["edges"][2] > r2["edges"][0]:
                        return f"bins overlap: {r1['edges']} and {r2['edges']}"
                # membership
                groups = {}
                for v, b in zip(vals, io["bins"]):
                    if b is not None:
                        groups.setdefault(b, []).append(v)
                for (b, members), r in zip(sorted(groups.items()), nn):
                    lo, sd, hi = r["edges"]
                    first = r is nn[0]
                    for v in members:
                        ok = (lo <= v <= hi) if first else (lo < v <= hi)
                        if not ok and not tc.near_edge(v, [lo, hi]):
                            return f"member {v} of bin {b} lies outside its reported edges ({lo}, {hi}]"
                    if all(math.isfinite(v) for v in members):
                        m = sum(members) / len(members)
                        ref = math.sqrt(sum((v - m) ** 2 for v in members) / len(members))
                        if sd is None or abs(sd - ref) > (1e-5 if case["kind"] == "float32_nan" else 1e-9) * max(1.0, ref):
                            return f"middle entry of bin_edges {sd!r} is not the standard deviation {ref!r} of the members' feature values"
        if not case["with_pd"]:
            return None
        real_labels = {v for v in case["feature"] if v is not None} if case["fkind"] == "string" else None
        for r, d in zip(rows, io["direct"]):
            if case["fkind"] == "string":
                pooled = r["f"] is not None and r["f"] not in real_labels
                if pooled and r["pd"] is not None:
                    return f"the artificial category {r['f']!r} got a partial dependence value"
                if not pooled and r["pd"] is None:
                    return f"the real category {r['f']!r} got no partial dependence value"
            elif r["pd"] is None:
                return f"feature value {r['f']!r} got no partial dependence value"
            if r["pd"] is not None:
                if isinstance(d, str):
                    return f"direct partial dependence call failed at {r['f']!r}: {d}"
                if not (feq(r["pd"], d) or abs(r["pd"] - d) < 1e-9):
                    return f"partial_dependence {r['pd']!r} at {r['f']!r} differs from compute_partial_dependence called directly ({d!r})"
        if case["fkind"] == "string":
            leaked = [v for v in io["seen"] if v is not None and v not in real_labels]
            if leaked:
                return f"the predict function was shown the artificial category {leaked[0]!r}"
        # definition in Fractions (numeric, finite feature means, no subsampling)
        if case["fkind"] == "numeric" and case["n_max"] >= n and all(v is not None and v not in ("nan", "inf", "-inf") for v in case["feature"]):
            a, b, c = case["a"], case["b"], case["c"]
            xk = [Fraction(v) for v in case["other"]]
            for r in rows:
                g = Fraction(r["f"])  # the grid value the implementation itself reports (float32 columns: float32 mean)
                vals = [a * g * k + b * k * k + c * g for k in xk]
                ref = sum(w * v for w, v in zip(ws, vals)) / sum(ws)
                if abs(r["pd"] - float(ref)) > 1e-9 * max(1.0, abs(float(ref))):
                    return f"partial_dependence {r['pd']!r} at feature value {r['f']!r} differs from the definition {float(ref)!r}"
        return None

    def extra_coverage(self):
        return {"edge_ties_skipped": getattr(self, "edge_ties_skipped", 0), "float_rank_divergent": getattr(self, "float_rank_divergent", 0), "pd_values_compared_with_model": getattr(self, "pd_compared", 0)}

    def nontrivial(self, case, io):
        if "rows" not in io or len(io["rows"]) < 2:
            return False
        if case["fkind"] == "string":
            real = {v for v in case["feature"] if v is not None}
            return any(r["f"] is not None and r["f"] not in real for r in io["rows"])
        return any(isinstance(r["f"], float) and r["f"] != int(r["f"]) for r in io["rows"] if r["f"] not in (None, "nan") and math.isfinite(r["f"]))

    def shrink(self, case):
        n = len(case["y"])
        if n > 1 and case["n_max"] >= n:
            for i in range(n):
                c = {**case}
                for key in ("y", "pred", "other", "feature"):
                    c[key] = case[key][:i] + case[key][i + 1:]
                if case["w"] is not None:
                    c["w"] = case["w"][:i] + case["w"][i + 1:]
                if case.get("preds"):
                    c["preds"] = [col[:i] + col[i + 1:] for col in case["preds"]]
                yield c


PROP = C10
