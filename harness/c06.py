"""C06 — score decomposition: exact additive identity and non-negative components."""
import math
from fractions import Fraction

import numpy as np

from . import decomp_common as dc
from . import iso_common as ic
from . import score_common as sc
from .core import Prop, exc_class


class C06(Prop):
    id = "C06"
    unique_answer = True
    rule = (
        "data sets in the domain of the score (dyadic values, ties in the forecasts, unsorted rows, 1-3 forecast columns, "
        "weights none / integer / dyadic, zero counts for Poisson-type scores) x all score classes incl. ElementaryScore with "
        "each functional x degrees and levels of the C04 grid (quantile-type levels dyadic). The four numbers per column are "
        "compared with the Float model of decompose (1e-9 x magnitude). Oracle on the implementation: score = mcb - dsc + unc; "
        "score = the plain average score; unc = average score of the constant marginal (weighted mean / weighted expectile / "
        "mid-quantile computed independently) and equal across columns; if min(y) is an admissible prediction mcb >= 0 and dsc "
        ">= 0; extra streams: 'recal' = forecasts replaced by the implementation's own isotonic recalibration -> mcb = 0; "
        "'const' = constant forecasts -> dsc = 0. Non-trivial = non-constant y, non-constant forecasts with at least one tie "
        "or order inversion."
    )
    assumptions = ["scikit-learn's IsotonicRegression is the optimal mean fit (checked in C11 against the own model)",
                   "float rounding outside the model; Float model run with the same double arithmetic but its own summation order"]

    def generate(self, tier, rng):
        N = 1200 if tier == "quick" else 20000
        for k in range(80 if tier == "quick" else 1500):
            # quantile / expectile scores (the library's own isotonic regression) on data in a small unit: which blocks are pooled
            # must not depend on an absolute or a loose relative tolerance
            cfg = rng.choice([{"kind": "pinball", "h": 1.0, "level": rng.choice([0.5, 0.25, 0.75])},
                              {"kind": "hes", "h": 2.0, "level": rng.choice([0.25, 0.75])},
                              {"kind": "hqs", "h": 1.0, "level": 0.5}])
            cfg.update(elem_f=None, eta=0.0)
            n = rng.randint(3, 9)
            if dc.rank_divergent(cfg, n):
                continue
            u = rng.choice([2.0**-30, 2.0**-40, 2.0**-20])
            ys = [rng.randint(0, 12) * u for _ in range(n)]
            cols = [sorted(rng.randint(1, 12) * u for _ in range(n))] if rng.random() < 0.5 else [[rng.randint(1, 12) * u for _ in range(n)]]
            yield {"stream": "data", **cfg, "y": ys, "cols": cols, "w": None if cfg["kind"] != "hes" or rng.random() < 0.5 else [float(rng.randint(1, 3)) for _ in range(n)],
                   "colnames": None}
        for k in range(N):
            cfg = dc.gen_config(rng)
            n = rng.choice([1, 2, 3, 4, 5, 6, 8, 12]) if rng.random() < 0.9 else rng.randint(13, 40)
            if dc.rank_divergent(cfg, n):
                continue
            ncols = 1 if rng.random() < 0.75 else rng.randint(2, 3)
            ys, cols = dc.gen_data(rng, cfg, n, ncols)
            st = "data"
            r = rng.random()
            if r < 0.1:
                st = "const"
                cols = [[c[0]] * n for c in cols]
            elif r < 0.2:
                st = "recal"
            if cfg.get("elem_f") is None and cfg["kind"] != "logloss" and rng.random() < 0.15:
                # the same data in a small unit (2**-30, 2**-40): no absolute tolerance may decide which blocks are pooled
                u = rng.choice([2.0**-30, 2.0**-40])
                ys, cols = [v * u for v in ys], [[v * u for v in col] for col in cols]
            c = {"stream": st, **cfg, "y": ys, "cols": cols, "w": dc.gen_weights(rng, n), "colnames": dc.gen_colnames(rng, ncols)}
            if st == "data" and rng.random() < 0.1:
                # counts: observations AND forecasts held in an unsigned / narrow integer dtype (differences must not wrap around)
                c.update(kind=rng.choice(["squared_error", "pinball", "hes", "poisson", "hqs"]), h=rng.choice([2.0, 1.0]) , level=rng.choice([0.5, 0.25, 0.75]),
                         elem_f=None, eta=0.0, y=[float(rng.randint(1, 40)) for _ in range(n)],
                         cols=[[float(rng.randint(1, 40)) for _ in range(n)] for _ in range(ncols)], colnames=None,
                         narrow=rng.choice(["uint8", "uint8", "uint16", "uint32", "int8"]), narrow_x=True,
                         w=None if rng.random() < 0.5 else [float(rng.randint(1, 3)) for _ in range(n)])
                if c["kind"] == "hqs":
                    c["h"] = 1.0
                cfg = {k_: c[k_] for k_ in ("kind", "h", "level", "elem_f", "eta")}  # explicit functional / level below follow THIS score
                if dc.rank_divergent(c, n):
                    continue
            if c["colnames"] is None and rng.random() < 0.12:
                c["xcontainer"] = "rows_mixed"
            r2 = rng.random()
            if r2 < 0.1:
                c["functional"] = dc.functional_of(cfg)
                if c["functional"] in ("expectile", "quantile") and (cfg.get("elem_f") or rng.random() < 0.5):
                    c["level_given"] = cfg["level"]  # otherwise: explicit functional, the level taken from the scoring function
            elif r2 < 0.14 and dc.functional_of(cfg) in ("expectile", "quantile"):
                c["level_given"] = cfg["level"]  # explicit level, the functional inferred
            elif r2 < 0.2 and dc.functional_of(cfg) in ("median", "quantile") and cfg["level"] == 0.5:
                # the level is documented to be neglected for the median: pass one anyway
                c["functional"] = "median"
                c["level_given"] = rng.choice([0.9, 0.1, 0.25, 0.5])
            yield c

    def impl(self, case):
        c = case
        if case["stream"] == "recal":
            # replace the forecasts by the implementation's own recalibration of them
            try:
                c = dict(case)
                c["cols"] = [self.recalibrate(case, col) for col in case["cols"]]
            except Exception as e:
                return {"err": exc_class(e), "msg": "recalibration failed: " + str(e)[:100]}
        out = dc.call_decompose(c)
        out["used_cols"] = c["cols"]
        if "rows" in out:
            sf = dc.make_sf(case)
            y = np.array(case["y"], dtype=float)
            w = None if case.get("w") is None else np.array(case["w"], dtype=float)
            try:
                out["plain"] = [float(sf(y, np.array(col, dtype=float), w)) for col in c["cols"]]
            except Exception as e:
                out["plain_err"] = exc_class(e)
            try:
                sf(y[:1], np.array([min(case["y"])]), None if w is None else w[:1])
                out["ymin_ok"] = True
            except ValueError:
                out["ymin_ok"] = False
            # best constant, independently
            try:
                m = self.marginal(case)
                out["marg"] = m
                out["unc_ref"] = float(sf(y, np.full(len(y), m), w))
            except Exception as e:
                out["unc_err"] = exc_class(e)
        return out

    def recalibrate(self, case, col):
        f = dc.functional_of(case)
        x = np.array(col, dtype=float)
        y = np.array(case["y"], dtype=float)
        w = None if case.get("w") is None else np.array(case["w"], dtype=float)
        if f == "mean":
            from sklearn.isotonic import IsotonicRegression as Skl

            return [float(v) for v in Skl().fit(x, y, sample_weight=w).predict(x)]
        from model_diagnostics._utils.isotonic import IsotonicRegression

        lv = 0.5 if f == "median" else case["level"]
        return [float(v) for v in IsotonicRegression(functional=f, level=lv).fit(x, y, sample_weight=w).predict(x)]

    def marginal(self, case):
        ys = [Fraction(v) for v in case["y"]]
        ws = [Fraction(1)] * len(ys) if case.get("w") is None else [Fraction(v) for v in case["w"]]
        f = dc.functional_of(case)
        a = Fraction(1, 2) if f == "median" else Fraction(case["level"])
        if f == "mean":
            return float(ic.wmean(ys, ws))
        if f == "expectile":
            return float(ic.expectile(ys, ws, a))
        return float((ic.q_lower(ys, a) + ic.q_upper(ys, a)) / 2)

    def model_request(self, case):
        if case["stream"] == "recal":
            return None  # the forecasts are produced by the implementation; the oracle decides
        return dc.decompose_request(case)

    def compare(self, case, io, mo):
        return dc.compare_rows(case, io, mo)

    def oracle(self, case, io):
        if "err" in io:
            return None  # domain errors are legitimate (e.g. recalibrated values outside the domain); compared with the model
        s = dc.score_scale({**case, "cols": io.get("used_cols", case["cols"])})
        tol = 1e-9 * s
        uncs = []
        for k, (mcb, dsc, unc, score) in enumerate(io["rows"]):
            if any(math.isnan(v) for v in (mcb, dsc, unc, score)):
                return f"NaN in the decomposition of column {k}"
            if abs(score - (mcb - dsc + unc)) > tol:
                return f"identity violated in column {k}: score {score!r} != {mcb!r} - {dsc!r} + {unc!r}"
            if "plain" in io and abs(score - io["plain"][k]) > tol:
                return f"score {score!r} differs from the plain average score {io['plain'][k]!r}"
            if "unc_ref" in io and abs(unc - io["unc_ref"]) > tol:
                return f"uncertainty {unc!r} differs from the score {io['unc_ref']!r} of the best constant forecast {io['marg']!r}"
            if io.get("ymin_ok"):
                if mcb < -tol:
                    return f"miscalibration {mcb!r} < 0 although min(y) is an admissible prediction"
                if dsc < -tol:
                    return f"discrimination {dsc!r} < 0 although min(y) is an admissible prediction"
            if case["stream"] == "recal" and abs(mcb) > tol:
                return f"miscalibration {mcb!r} != 0 for forecasts that are already isotonic-recalibrated"
            if case["stream"] == "const" and abs(dsc) > tol:
                return f"discrimination {dsc!r} != 0 for a constant forecast"
            uncs.append(unc)
        if max(uncs) - min(uncs) > tol:
            return f"uncertainty depends on the forecast column: {uncs}"
        return None

    def extra_coverage(self):
        return {"repair_tie_skipped": getattr(dc.compare_rows, "skipped", 0)}

    def nontrivial(self, case, io):
        return "rows" in io and len(set(case["y"])) > 1 and any(len(set(c)) > 1 for c in case["cols"])

    def shrink(self, case):
        n = len(case["y"])
        if len(case["cols"]) > 1:
            for k in range(len(case["cols"])):
                yield {**case, "cols": [case["cols"][k]]}
        if n > 1:
            for i in range(n):
                c = {**case, "y": case["y"][:i] + case["y"][i + 1:], "cols": [col[:i] + col[i + 1:] for col in case["cols"]]}
                if case.get("w") is not None:
                    c["w"] = case["w"][:i] + case["w"][i + 1:]
                yield c
        if case.get("w") is not None:
            yield {**case, "w": None}


PROP = C06
