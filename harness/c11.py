"""C11 — the fitted isotonic model predicts a monotone, tie-consistent, clipped function."""
from fractions import Fraction

import numpy as np

from . import iso_common as ic
from .c02 import pinball_total
from .core import Prop, close, dec_list, enc, enc_list, exc_class


def group_rows(X, ys, ws):
    keys = sorted(set(X))
    return keys, {k: [(y, w) for x, y, w in zip(X, ys, ws) if x == k] for k in keys}


def maxmin_groups(keys, groups, T):
    """optimal X-monotone fit: max over a<=g of min over b>=g of T(all rows of groups a..b)"""
    m = len(keys)
    tab = [[None] * m for _ in range(m)]
    for a in range(m):
        rows = []
        for b in range(a, m):
            rows = rows + groups[keys[b]]
            tab[a][b] = T([r[0] for r in rows], [r[1] for r in rows])
    return [max(min(tab[a][b] for b in range(g, m)) for a in range(g + 1)) for g in range(m)]


def min_pinball_groups(keys, groups, a):
    cand = sorted({y for k in keys for y, _ in groups[k]})
    prev = [Fraction(0)] * len(cand)
    for k in keys:
        cur, best = [], None
        for j, c in enumerate(cand):
            best = prev[j] if best is None or prev[j] < best else best
            cur.append(best + sum(((1 if y <= c else 0) - a) * (c - y) for y, _ in groups[k]))
        prev = cur
    return min(prev)


class C11(Prop):
    id = "C11"
    unique_answer = True
    rule = (
        "training sets (X, y[, w]) with duplicate X (small integer alphabet), constant X, constant y, single point, unsorted rows; "
        "all four functionals (quantile/median unweighted), both directions, dyadic levels; query points on every threshold, "
        "between neighbours and outside the range. Compared with the model: thresholds and predictions (exact for mean / "
        "quantile inputs, 1e-7 for the expectile). Oracle on the implementation: predictions at the training X equal the "
        "exact optimal X-monotone fit (max-min over tie groups in Fractions; pinball-optimal + monotone for quantiles), equal X "
        "=> equal prediction, a row permutation gives the same predictions, predictions at new points are finite, monotone in "
        "the fitted direction, between the neighbouring fitted values, constant beyond the range, and for the mean equal to "
        "scikit-learn's IsotonicRegression(out_of_bounds='clip'). Non-trivial = at least one tie group in X and some pooling."
    )
    assumptions = ["scipy interp1d(kind='linear') = np.interp on the thresholds; polars sort = lexicographic sort by (X, -y)"]

    def generate(self, tier, rng):
        N = 1500 if tier == "quick" else 25000
        for k in range(N):
            f = rng.choice(["mean", "mean", "quantile", "median", "expectile"])
            n = rng.choice([1, 2, 3, 4, 5, 7, 10, 16]) if rng.random() < 0.9 else rng.randint(17, 60)
            style = rng.random()
            if style < 0.1:
                X = [Fraction(rng.randint(0, 3))] * n  # constant X
            elif style < 0.75:
                X = [Fraction(rng.randint(0, max(1, n // 2))) for _ in range(n)]  # many ties
            else:
                X = [Fraction(rng.randint(-20, 20), 4) for _ in range(n)]
            ys = [Fraction(v) for v in ic.gen_y(rng, n, rng.choice(["small", "digits", "dyadic", "neg", "tiny", "near"]))]
            w = None
            if f in ("mean", "expectile") and rng.random() < 0.6:
                w = [Fraction(v) for v in ic.gen_w(rng, n, allow_none=False)]
            lv = rng.choice(ic.DYADIC_LEVELS[:9])
            if f == "quantile" and ic.float_rank_divergent(lv, n):
                continue
            xs = sorted(set(X))
            q = set(xs) | {xs[0] - 1, xs[-1] + 1, xs[0] - Fraction(1, 4), xs[-1] + 100}
            q |= {(a + b) / 2 for a, b in zip(xs, xs[1:])} | {a + (b - a) / 4 for a, b in zip(xs, xs[1:])}
            perm = list(range(n))
            rng.shuffle(perm)
            xdt = "float64"
            if all(v.denominator == 1 for v in X) and rng.random() < 0.4:
                xdt = rng.choice(["float32", "int32", "int64"])
            ydt = None
            if all(v.denominator == 1 and 0 <= v <= 200 for v in ys) and rng.random() < 0.5:
                ydt = rng.choice(["uint8", "uint16", "uint64", "int8"])
                if ydt == "int8" and any(v > 100 for v in ys):
                    ydt = "uint8"
            lists = xdt == "float64" and ydt is None and rng.random() < 0.15  # plain Python lists whose first element is a numpy integer scalar
            yield {"stream": "fit", "f": f, "level": lv, "inc": rng.random() < 0.5, "xdtype": xdt, "lists": lists, "ydtype": ydt, "X": [str(v) for v in X],
                   "y": [str(v) for v in ys], "w": None if w is None else [str(v) for v in w],
                   "q": [str(v) for v in sorted(q)], "perm": perm}

    def impl(self, case):
        from model_diagnostics._utils.isotonic import IsotonicRegression

        X = np.array([float(Fraction(v)) for v in case["X"]]).astype(case.get("xdtype", "float64"))
        y = np.array([float(Fraction(v)) for v in case["y"]])
        if case.get("ydtype"):
            y = y.astype(case["ydtype"])  # counts held in an unsigned / narrow integer dtype
        w = None if case.get("w") is None else np.array([float(Fraction(v)) for v in case["w"]])
        q = np.array([float(Fraction(v)) for v in case["q"]])
        lv = ic.level_float(case["level"])
        Xf, yf, wf = X, y, w
        if case.get("lists"):
            def as_list(a):
                out = [float(v) for v in a]
                if out and out[0].is_integer():
                    out[0] = np.int64(int(out[0]))  # polars infers the dtype of a list from its first element
                return out

            Xf, yf, wf = as_list(X), as_list(y), None if w is None else as_list(w)
        try:
            m = IsotonicRegression(increasing=case["inc"], functional=case["f"], level=lv).fit(Xf, yf, sample_weight=wf)
            out = {"tx": [float(v) for v in m.X_thresholds_], "ty": [float(v) for v in m.y_thresholds_],
                   "pred": [float(v) for v in np.atleast_1d(m.predict(q))],
                   "train": [float(v) for v in np.atleast_1d(m.predict(X))]}
            p = np.array(case["perm"])
            m2 = IsotonicRegression(increasing=case["inc"], functional=case["f"], level=lv).fit(X[p], y[p], sample_weight=None if w is None else w[p])
            out["perm_pred"] = [float(v) for v in np.atleast_1d(m2.predict(q))]
            # 2-d X with one column is documented too
            m3 = IsotonicRegression(increasing=case["inc"], functional=case["f"], level=lv).fit(X.reshape(-1, 1), y, sample_weight=w)
            out["col_pred"] = [float(v) for v in np.atleast_1d(m3.predict(q))]
            if case["f"] == "mean":
                from sklearn.isotonic import IsotonicRegression as Skl

                s = Skl(increasing=case["inc"], out_of_bounds="clip").fit(X, y, sample_weight=w)
                out["skl"] = [float(v) for v in s.predict(q)]
        except Exception as e:
            return {"err": exc_class(e), "msg": str(e)[:200]}
        return out

    def model_request(self, case):
        return {"op": "isofit", "f": case["f"], "level": enc(ic.level_exact(case["level"])), "inc": case["inc"],
                "X": enc_list(Fraction(v) for v in case["X"]), "y": enc_list(Fraction(v) for v in case["y"]),
                "w": None if case.get("w") is None else enc_list(Fraction(v) for v in case["w"]),
                "q": enc_list(Fraction(v) for v in case["q"])}

    def compare(self, case, io, mo):
        if ("err" in io) != ("err" in mo):
            return f"outcome differs: implementation {io.get('err', 'ok')} ({io.get('msg','')}) vs model {mo.get('err', 'ok')}"
        if "err" in io:
            return None
        tol = 1e-7 if case["f"] == "expectile" else 1e-9
        ys_ = ic.data_scale(case)  # no absolute tolerance on fitted values: small units must not hide a difference
        tx, ty, pr = dec_list(mo["tx"]), dec_list(mo["ty"]), dec_list(mo["pred"])
        # thresholds may legitimately differ when float ties split a block; compare the function they define
        for q, a, b in zip(case["q"], io["pred"], pr):
            if not close(a, b, tol, tol * ys_):
                return f"prediction at {q}: {a!r}, model {float(b)!r}"
        if case["f"] != "expectile":
            if len(io["tx"]) != len(tx) or any(not close(a, b, tol, tol) for a, b in zip(io["tx"], tx)) or any(
                    not close(a, b, tol, tol * ys_) for a, b in zip(io["ty"], ty)):
                # thresholds differ although predictions agree: only a float-tie artefact if the mean fit had equal blocks
                if case["f"] in ("quantile", "median"):
                    return f"thresholds differ: {io['tx']}/{io['ty']} vs model {[float(v) for v in tx]}/{[float(v) for v in ty]}"
        return None

    def oracle(self, case, io):
        if "err" in io:
            return f"valid training set rejected with {io['err']}: {io.get('msg')}"
        f, inc = case["f"], case["inc"]
        tol = 1e-7 if f == "expectile" else 1e-9
        X = [Fraction(v) for v in case["X"]]
        ys = [Fraction(v) for v in case["y"]]
        n = len(ys)
        ws = [Fraction(1)] * n if case.get("w") is None else [Fraction(v) for v in case["w"]]
        a = Fraction(1, 2) if f == "median" else ic.level_exact(case["level"])
        scale = ic.data_scale(case)
        atol = tol * scale
        keys, groups = group_rows(X, ys, ws)
        train = dict()
        for x, p in zip(X, io["train"]):
            if x in train and train[x] != p:
                return f"equal X={float(x)} got different predictions {train[x]!r} and {p!r}"
            train[x] = p
        # orientation: decreasing fit of y = -(increasing fit of -y)
        sgn = 1 if inc else -1
        if f in ("mean", "expectile"):
            if len(keys) <= 12:
                if f == "mean":
                    T = lambda yy, ww: ic.wmean(yy, ww)
                else:
                    aa = a if inc else 1 - a
                    T = lambda yy, ww: ic.expectile(yy, ww, aa)
                g2 = {k: [(sgn * y, w) for y, w in v] for k, v in groups.items()}
                ref = [sgn * v for v in maxmin_groups(keys, g2, T)]
                for k, v in zip(keys, ref):
                    if abs(train[k] - float(v)) > tol * scale:
                        return f"prediction {train[k]!r} at training X={float(k)} differs from the optimal X-monotone fit {float(v)!r}"
        else:
            fit = [Fraction(train[k]) for k in keys]
            for u, v in zip(fit, fit[1:]):
                if (inc and u > v) or (not inc and u < v):
                    return "fitted values at the training points are not monotone in X"
            if len(keys) <= 40:
                kk = keys if inc else keys[::-1]
                best = min_pinball_groups(kk, groups, a)
                got = sum(((1 if y <= Fraction(train[x]) else 0) - a) * (Fraction(train[x]) - y) for x, y in zip(X, ys))
                if got != best:
                    return f"pinball loss {float(got)!r} of the fitted values is not the minimum {float(best)!r} over X-monotone functions"
        # row order independence, 2-d X
        for name in ("perm_pred", "col_pred"):
            for q, u, v in zip(case["q"], io["pred"], io[name]):
                if not close(u, v, tol, atol):
                    return f"{'row permutation' if name == 'perm_pred' else 'X of shape (n,1)'} changes the prediction at {q}: {u!r} vs {v!r}"
        # new points
        qs = [Fraction(v) for v in case["q"]]
        pr = io["pred"]
        lo_x, hi_x = keys[0], keys[-1]
        for i, (q, p) in enumerate(zip(qs, pr)):
            if not np.isfinite(p):
                return f"prediction at {float(q)} is {p}"
            if q <= lo_x and not close(p, train[lo_x], tol, atol):
                return f"prediction {p!r} at {float(q)} <= min X differs from the fitted value {train[lo_x]!r} at min X"
            if q >= hi_x and not close(p, train[hi_x], tol, atol):
                return f"prediction {p!r} at {float(q)} >= max X differs from the fitted value {train[hi_x]!r} at max X"
            if q in train and not close(p, train[q], tol, atol):
                return f"prediction at training point {float(q)} inconsistent: {p!r} vs {train[q]!r}"
            if lo_x < q < hi_x and q not in train:
                left = max(k for k in keys if k < q)
                right = min(k for k in keys if k > q)
                lo, hi = sorted((train[left], train[right]))
                if not (lo - tol * scale <= p <= hi + tol * scale):
                    return f"prediction {p!r} at {float(q)} not between the neighbouring fitted values {train[left]!r}, {train[right]!r}"
        for (q1, p1), (q2, p2) in zip(zip(qs, pr), list(zip(qs, pr))[1:]):
            if (inc and p1 > p2 + tol * scale) or (not inc and p1 < p2 - tol * scale):
                return f"predictions not monotone in the fitted direction between {float(q1)} and {float(q2)}: {p1!r}, {p2!r}"
        if "skl" in io:
            stol = 1e-5 if case.get("xdtype") == "float32" else 1e-9  # scikit-learn computes in the dtype of X
            for q, u, v in zip(case["q"], pr, io["skl"]):
                if not close(u, v, stol, stol * scale):
                    return f"mean model differs from scikit-learn's clipped isotonic regression at {q}: {u!r} vs {v!r}"
        return None

    def nontrivial(self, case, io):
        return len(set(case["X"])) < len(case["X"]) and "tx" in io and len(set(io["train"])) < len(set(case["X"])) + 1 and len(set(case["y"])) > 1

    def shrink(self, case):
        n = len(case["y"])
        if n > 1:
            for i in range(n):
                c = {**case, "X": case["X"][:i] + case["X"][i + 1:], "y": case["y"][:i] + case["y"][i + 1:],
                     "perm": [p - (p > i) for p in case["perm"] if p != i]}
                if case.get("w") is not None:
                    c["w"] = case["w"][:i] + case["w"][i + 1:]
                yield c
        if case.get("w") is not None:
            yield {**case, "w": None}


PROP = C11
