"""C18 — configuration contexts restore the previous configuration on every exit path."""
import itertools

from .core import Prop

VALS = ["none", "mpl", "plotly", "bad"]
BAD = ["XXX", 5, "", "Matplotlib", "PLOTLY", True, 0.5]


class UserExc(Exception):
    pass


class BaseExc(BaseException):  # like KeyboardInterrupt / SystemExit: not an Exception
    pass


def concrete(v, salt):
    return {"none": None, "mpl": "matplotlib", "plotly": "plotly"}.get(v, BAD[salt % len(BAD)]) if v != "bad" else BAD[salt % len(BAD)]


def run_prog(prog, avail):
    """execute a program tree with real `with` / `try` statements; returns (trace, events, out, final)"""
    import model_diagnostics._config as cfg
    from model_diagnostics import config_context, get_config, set_config

    saved_find_spec = cfg.find_spec
    saved_state = dict(cfg._global_config)
    cfg._global_config.clear()
    cfg._global_config["plot_backend"] = "matplotlib"
    cfg.find_spec = (lambda name: object()) if avail else (lambda name: None)
    trace, events = [], []
    counter = itertools.count()
    rng_base = [BaseExc, KeyboardInterrupt, SystemExit, GeneratorExit]

    def state():
        d = get_config()
        return d["plot_backend"] if set(d) == {"plot_backend"} else f"corrupt:{sorted(d)}"

    def go(p):
        t = p["t"]
        if t == "skip":
            return
        if t == "seq":
            go(p["a"])
            go(p["b"])
        elif t == "set":
            before = state()
            try:
                set_config(plot_backend=concrete(p["v"], p.get("salt", 0)))
            except BaseException as e:
                events.append(("set_failed", p["v"], type(e).__name__, before, state()))
                raise
            finally:
                trace.append(state())
        elif t == "get":
            before = state()
            d = get_config()
            d["plot_backend"] = "junk"
            d["extra"] = 1
            events.append(("get", before, state()))
            trace.append(state())
        elif t == "raise":
            trace.append(state())
            raise UserExc()
        elif t == "raiseBase":
            trace.append(state())
            raise rng_base[next(counter) % len(rng_base)]()
        elif t == "block":
            k = next(counter)
            before = state()
            entered = [False]
            how = p.get("how", "with")
            try:
                if how == "decorator":
                    # decorated when the program started, called now: the configuration to restore is the one at call time
                    made = prepared[id(p)]
                    if isinstance(made, BaseException):
                        raise made
                    made(entered)
                else:
                    if how == "deferred":
                        # the context manager object was created when the program started and is entered only now
                        cm = prepared[id(p)]
                        if isinstance(cm, BaseException):
                            raise cm
                    else:
                        cm = config_context(plot_backend=concrete(p["v"], p.get("salt", 0)))
                    with cm:
                        entered[0] = True
                        trace.append(state())
                        go(p["body"])
            finally:
                trace.append(state())
                events.append(("block", k, p["v"], entered[0], before, state()))
        elif t == "catch":
            try:
                go(p["body"])
            except Exception:
                pass
            finally:
                trace.append(state())
        elif t == "catchAll":
            try:
                go(p["body"])
            except BaseException:
                pass
            trace.append(state())

    prepared = {}

    def prepare(p):
        """create the deferred context manager objects / decorate the functions before anything runs"""
        if p["t"] == "seq":
            prepare(p["a"])
            prepare(p["b"])
        elif p["t"] in ("block", "catch", "catchAll"):
            if p["t"] == "block" and p.get("how") in ("deferred", "decorator"):
                try:
                    cm = config_context(plot_backend=concrete(p["v"], p.get("salt", 0)))
                    if p["how"] == "decorator":
                        def make(body):
                            @cm
                            def f(entered):
                                entered[0] = True
                                trace.append(state())
                                go(body)
                            return f
                        prepared[id(p)] = make(p["body"])
                    else:
                        prepared[id(p)] = cm
                except BaseException as e:  # an implementation may validate eagerly: raised where the block starts
                    prepared[id(p)] = e
            prepare(p["body"])

    out = "ok"
    try:
        prepare(prog)
        go(prog)
    except UserExc:
        out = "UserExc"
    except (BaseExc, KeyboardInterrupt, SystemExit, GeneratorExit):
        out = "BaseExc"
    except ValueError:
        out = "ValueError"
    except ModuleNotFoundError:
        out = "ModuleNotFoundError"
    except Exception as e:  # anything else
        out = "Other:" + type(e).__name__
    final = state()
    cfg.find_spec = saved_find_spec
    cfg._global_config.clear()
    cfg._global_config.update(saved_state)
    return trace, events, out, final


def gen_tree(rng, depth, budget):
    if budget[0] <= 0 or depth <= 0:
        r = rng.random()
        budget[0] -= 1
        if r < 0.5:
            return {"t": "set", "v": rng.choice(VALS), "salt": rng.randint(0, 20)}
        if r < 0.65:
            return {"t": "get"}
        if r < 0.82:
            return {"t": "raise"}
        if r < 0.93:
            return {"t": "raiseBase"}
        return {"t": "skip"}
    r = rng.random()
    budget[0] -= 1
    if r < 0.35:
        return {"t": "seq", "a": gen_tree(rng, depth - 1, budget), "b": gen_tree(rng, depth - 1, budget)}
    if r < 0.65:
        return {"t": "block", "v": rng.choice(VALS), "salt": rng.randint(0, 20), "how": rng.choice(["with", "with", "with", "deferred", "deferred", "decorator"]),
                "body": gen_tree(rng, depth - 1, budget)}
    if r < 0.8:
        return {"t": rng.choice(["catch", "catch", "catchAll"]), "body": gen_tree(rng, depth - 1, budget)}
    return gen_tree(rng, 0, budget)


def all_trees(size):
    """every program tree with exactly `size` nodes"""
    if size == 1:
        for v in VALS:
            yield {"t": "set", "v": v, "salt": 0}
        yield {"t": "get"}
        yield {"t": "raise"}
        yield {"t": "raiseBase"}
        return
    for v in VALS:
        for b in all_trees(size - 1):
            yield {"t": "block", "v": v, "salt": 0, "body": b}
    for b in all_trees(size - 1):
        yield {"t": "catch", "body": b}
        yield {"t": "catchAll", "body": b}
    for k in range(1, size - 1):
        for a in all_trees(k):
            for b in all_trees(size - 1 - k):
                yield {"t": "seq", "a": a, "b": b}


def count_blocks(p):
    t = p["t"]
    if t == "seq":
        return count_blocks(p["a"]) + count_blocks(p["b"])
    if t == "block":
        return 1 + count_blocks(p["body"])
    if t in ("catch", "catchAll"):
        return count_blocks(p["body"])
    return 0


class C18(Prop):
    id = "C18"
    unique_answer = True
    rule = (
        "program trees over set(None|'matplotlib'|'plotly'|invalid) / get-and-mutate / raise (an Exception, or a BaseException "
        "such as KeyboardInterrupt / SystemExit / GeneratorExit) / with-block / try-except Exception / try-except BaseException, executed "
        "with real `with` statements, get_config() logged after every step; both values of plotly's availability (find_spec "
        "patched). Streams: 'small' = every tree with <=3 nodes (quick) / <=4 nodes (thorough); 'random' = random trees of depth "
        "<=6, <=40 nodes. Compared with the model on the full observation trace, outcome and final state; oracle on the "
        "implementation alone: every block's exit state equals its entry state, rejected sets leave the state unchanged, "
        "get-and-mutate has no effect. Non-trivial = at least one block whose body changes or tries to change the backend."
        "Later additions: a block is realised as a with-statement, as a context manager object created when the program starts and entered later, or as "
        "a decorated function defined at the start and called later; BaseException exits; exhaustive small trees. "
    )
    assumptions = ["contextlib.contextmanager / generator semantics and importlib.util.find_spec are parameters (the latter is patched to exercise both branches)"]

    def generate(self, tier, rng):
        for size in range(1, 4 if tier == "quick" else 5):
            for t in all_trees(size):
                for avail in (False, True):
                    yield {"stream": "small", "avail": avail, "prog": t}
        for k in range(1500 if tier == "quick" else 30000):
            yield {"stream": "random", "avail": rng.random() < 0.5, "prog": gen_tree(rng, rng.randint(2, 6), [rng.randint(3, 40)])}

    def impl(self, case):
        trace, events, out, final = run_prog(case["prog"], case["avail"])
        return {"trace": trace, "events": [list(e) for e in events], "out": out, "state": final}

    def model_request(self, case):
        return {"op": "config", "avail": case["avail"], "prog": case["prog"]}

    def compare(self, case, io, mo):
        for k in ("out", "state", "trace"):
            if io[k] != mo[k]:
                return f"{k} differs: implementation {io[k]} vs model {mo[k]}"
        return None

    def oracle(self, case, io):
        for e in io["events"]:
            if e[0] == "block":
                _, k, v, entered, before, after = e
                if before != after:
                    return f"block #{k} (plot_backend={v}, entered={entered}) was entered with '{before}' and left with '{after}'"
                if v == "bad" and entered:
                    return f"block #{k} with an invalid backend name was entered"
            elif e[0] == "set_failed":
                _, v, exc, before, after = e
                if before != after:
                    return f"rejected set_config({v}) changed the configuration from '{before}' to '{after}'"
                if v == "bad" and exc != "ValueError":
                    return f"invalid backend name raised {exc}, not ValueError"
            elif e[0] == "get":
                if e[1] != e[2]:
                    return f"mutating the dict returned by get_config changed the configuration from '{e[1]}' to '{e[2]}'"
        for s in io["trace"] + [io["state"]]:
            if s not in ("matplotlib", "plotly"):
                return f"configuration took the value {s!r}"
        if io["out"].startswith("Other"):
            return f"unexpected exception {io['out']}"
        return None

    def nontrivial(self, case, io):
        return count_blocks(case["prog"]) >= 1 and len(set(io["trace"])) + (1 if any(e[0] == "set_failed" for e in io["events"]) else 0) >= 2

    def shrink(self, case):
        p = case["prog"]

        def subs(p):
            t = p["t"]
            if t == "seq":
                yield p["a"]
                yield p["b"]
                for a in subs(p["a"]):
                    yield {**p, "a": a}
                for b in subs(p["b"]):
                    yield {**p, "b": b}
            elif t in ("block", "catch", "catchAll"):
                yield p["body"]
                for b in subs(p["body"]):
                    yield {**p, "body": b}

        for q in subs(p):
            yield {**case, "prog": q}


PROP = C18
