"""Shared machinery of the checks: Lean build + audit, model driver, comparison loop,
failing-input search, known findings, evidence, VIOLATION reporting."""
from __future__ import annotations

import fcntl
import hashlib
import json
import math
import os
import random
import re
import subprocess
import sys
import time
import traceback
from fractions import Fraction
from pathlib import Path

VERIF = Path(__file__).resolve().parent.parent
LEAN = VERIF / "lean"
WORK = VERIF / ".work"
REPLAYS = VERIF / "replays"
EVIDENCE = VERIF / "evidence"
REPO = Path(os.environ.get("VERIF_REPO", "/repo"))

# the tree under test always wins over whatever is installed
sys.path.insert(0, str(REPO / "src"))

ALLOWED_AXIOMS = {"propext", "Classical.choice", "Quot.sound"}
FORBIDDEN = re.compile(
    r"\bsorry\b|\badmit\b|^\s*axiom\s|native_decide|bv_decide|implemented_by|\bunsafe\s|maxHeartbeats\s+0\b|@\[extern"
)

TRUSTED_BASE = [
    "Lean 4.33.0 kernel",
    "axioms propext, Classical.choice, Quot.sound only (audited per theorem with #print axioms on every run)",
    "Mathlib v4.33.0 as a library of kernel-checked lemmas",
    "hand-written Lean model (lean/MD/Model/*.lean); tied to /repo by the differential correspondence check of this harness, which samples",
    "numpy/scipy/polars/scikit-learn/matplotlib behaviour enters the model as specified parameters (DESIGN.md section 7)",
    "IEEE-754 rounding is outside the model: inputs are passed exactly, outputs compared with tolerance",
]


# --------------------------------------------------------------------------------------
# numbers
# --------------------------------------------------------------------------------------
def enc(q) -> str:
    """exact encoding of an int / float / Fraction as 'n/d'"""
    if isinstance(q, bool):
        q = int(q)
    if isinstance(q, float):
        if not math.isfinite(q):
            raise ValueError("non-finite value cannot be sent to the exact model")
        q = Fraction(q)
    elif not isinstance(q, Fraction):
        q = Fraction(int(q)) if float(q) == int(q) and not isinstance(q, float) else Fraction(float(q))
    return str(q.numerator) if q.denominator == 1 else f"{q.numerator}/{q.denominator}"


def enc_list(xs):
    return [enc(x) for x in xs]


def dec(s) -> Fraction:
    if isinstance(s, int):
        return Fraction(s)
    return Fraction(s)


def dec_list(xs):
    return [dec(x) for x in xs]


def close(a: float, b, rtol=1e-9, atol=1e-9) -> bool:
    """a: implementation float, b: Fraction or float from the model"""
    a = float(a)
    bf = float(b)
    if math.isnan(a) or math.isnan(bf):
        return math.isnan(a) and math.isnan(bf)
    if math.isinf(a) or math.isinf(bf):
        return a == bf
    return abs(a - bf) <= atol + rtol * max(abs(a), abs(bf))


def f2bits(x: float) -> int:
    import struct

    return struct.unpack("<Q", struct.pack("<d", float(x)))[0]


def bits2f(b: int) -> float:
    import struct

    return struct.unpack("<d", struct.pack("<Q", int(b)))[0]


def exc_class(e: BaseException) -> str:
    for cls in (NotImplementedError, ZeroDivisionError, ValueError, TypeError):
        if isinstance(e, cls):
            return cls.__name__
    return "Other:" + type(e).__name__


# --------------------------------------------------------------------------------------
# Lean: build, audit, driver
# --------------------------------------------------------------------------------------
class LeanLock:
    """exclusive for `lake build` (which rewrites .olean files), shared for the readers (audit, model driver), so that
    checks running side by side never read a half-written build"""

    def __init__(self, shared=False):
        self.mode = fcntl.LOCK_SH if shared else fcntl.LOCK_EX

    def __enter__(self):
        WORK.mkdir(exist_ok=True)
        self.f = open(WORK / "lake.lock", "a")
        fcntl.flock(self.f, self.mode)
        return self

    def __exit__(self, *a):
        fcntl.flock(self.f, fcntl.LOCK_UN)
        self.f.close()


def lean_build(targets: list[str]) -> tuple[bool, str]:
    with LeanLock():
        p = subprocess.run(
            ["lake", "build", *targets], cwd=LEAN, capture_output=True, text=True
        )
    return p.returncode == 0, (p.stdout + p.stderr)[-4000:]


def strip_comments(src: str) -> str:
    # remove block comments (nested) and line comments
    out = []
    i, depth = 0, 0
    n = len(src)
    while i < n:
        if src.startswith("/-", i):
            depth += 1
            i += 2
        elif depth and src.startswith("-/", i):
            depth -= 1
            i += 2
        elif depth:
            if src[i] == "\n":
                out.append("\n")
            i += 1
        elif src.startswith("--", i):
            while i < n and src[i] != "\n":
                i += 1
        else:
            out.append(src[i])
            i += 1
    return "".join(out)


def integrated_files() -> list[Path]:
    """the Lean files that are part of the build: everything MD.lean imports (transitively, inside lean/) + the driver"""
    seen, todo = set(), ["MD"]
    while todo:
        m = todo.pop()
        f = LEAN / (m.replace(".", "/") + ".lean")
        if m in seen or not f.exists():
            continue
        seen.add(m)
        todo.extend(re.findall(r"^import\s+(MD\.\S+)", f.read_text(), flags=re.M))
    return sorted(LEAN / (m.replace(".", "/") + ".lean") for m in seen) + [LEAN / "Driver.lean"]


def lean_grep_forbidden() -> list[str]:
    hits = []
    for f in integrated_files():
        if ".lake" in f.parts:
            continue
        for ln, line in enumerate(strip_comments(f.read_text()).split("\n"), 1):
            if FORBIDDEN.search(line):
                hits.append(f"{f.relative_to(VERIF)}:{ln}: {line.strip()[:100]}")
    return hits


def props_json() -> dict:
    return json.loads((LEAN / "props.json").read_text())


def lean_audit(pid: str) -> dict:
    """#print axioms for every theorem props.json lists for the property"""
    spec = props_json()[pid]
    thms = spec["theorems"]
    WORK.mkdir(exist_ok=True)
    lines = [f"import {m}" for m in spec["modules"]]
    for t in thms:
        lines.append(f"#print axioms {t['name']}")
    # a private file per process (several checks of the same property may run at once); the stable copy named in the
    # evidence's checker_cmd is replaced atomically
    f = WORK / f"audit_{pid}.{os.getpid()}.lean"
    f.write_text("\n".join(lines) + "\n")
    try:
        with LeanLock(shared=True):
            p = subprocess.run(
                ["lake", "env", "lean", str(f)], cwd=LEAN, capture_output=True, text=True
            )
        os.replace(f, WORK / f"audit_{pid}.lean")
    finally:
        if f.exists():
            f.unlink()
    out = p.stdout + p.stderr
    res = {}
    # messages may wrap over several lines
    flat = re.sub(r"\s+", " ", out)
    for t in thms:
        name = t["name"]
        m = re.search(
            r"'" + re.escape(name) + r"' (depends on axioms: \[([^\]]*)\]|does not depend on any axioms)",
            flat,
        )
        if not m:
            res[name] = {"ok": False, "why": "not found / does not check"}
            continue
        axs = set(a.strip() for a in (m.group(2) or "").split(",") if a.strip())
        bad = axs - ALLOWED_AXIOMS
        res[name] = {"ok": not bad, "axioms": sorted(axs), **({"why": f"axioms {sorted(bad)}"} if bad else {})}
    return {"theorems": res, "raw_tail": out[-1500:] if p.returncode != 0 else ""}


def run_driver(requests: list[dict], timeout=3600) -> list[dict]:
    if not requests:
        return []
    WORK.mkdir(exist_ok=True)
    data = "\n".join(json.dumps(r, separators=(",", ":")) for r in requests) + "\n"
    with LeanLock(shared=True):
        p = subprocess.run(
            ["lake", "env", "lean", "--run", "Driver.lean"],
            cwd=LEAN,
            input=data,
            capture_output=True,
            text=True,
            timeout=timeout,
        )
    lines = [l for l in p.stdout.split("\n") if l.strip()]
    if p.returncode != 0 or len(lines) != len(requests):
        raise RuntimeError(
            f"model driver failed: rc={p.returncode} got {len(lines)} lines for {len(requests)} requests\n{p.stderr[-2000:]}"
        )
    return [json.loads(l) for l in lines]



# --------------------------------------------------------------------------------------
# how much of the implementation the correspondence run executes (evidence; never a verdict)
# --------------------------------------------------------------------------------------
class ImplCoverage:
    """Line and branch coverage of the library files a property is anchored in, measured while the implementation is
    driven by the corpus and the generated cases. It is *evidence* about the tie between model and code (a line no case
    executes is a line whose change the correspondence cannot see); it never decides anything."""

    def __init__(self):
        self.cov = None
        if os.environ.get("VERIF_NO_COVERAGE") == "1":
            return
        try:
            import coverage

            self.cov = coverage.Coverage(
                data_file=None, branch=True, include=[str(REPO / "src" / "model_diagnostics" / "*")], config_file=False
            )
        except Exception:
            self.cov = None

    def __enter__(self):
        if self.cov is not None:
            try:
                self.cov.start()
            except Exception:
                self.cov = None
        return self

    def __exit__(self, *a):
        if self.cov is not None:
            try:
                self.cov.stop()
            except Exception:
                pass

    def report(self, files: list[str]) -> dict:
        if self.cov is None:
            return {"measured": False}
        out = {"measured": True, "files": {}}
        for rel in files:
            f = REPO / rel
            if not f.exists():
                continue
            try:
                _, executable, _, missing, _ = self.cov.analysis2(str(f))
                ana = self.cov._analyze(str(f))  # noqa: SLF001  (branch numbers are not in the public API)
                nb, mb = ana.numbers.n_branches, ana.numbers.n_missing_branches
            except Exception as e:  # file never imported in this run
                out["files"][rel] = {"note": f"not measured ({type(e).__name__})"}
                continue
            if len(missing) == len(executable):
                continue  # a file this run never entered (e.g. the plots for a non-plotting property)
            out["files"][rel] = {
                "lines_executable": len(executable),
                "lines_executed": len(executable) - len(missing),
                "branches": nb,
                "branches_taken": nb - mb,
                "missing_lines": _ranges(missing),
            }
        return out


def _ranges(nums):
    out, start, prev = [], None, None
    for n in sorted(nums):
        if start is None:
            start = prev = n
        elif n == prev + 1:
            prev = n
        else:
            out.append(f"{start}-{prev}" if prev > start else str(start))
            start = prev = n
    if start is not None:
        out.append(f"{start}-{prev}" if prev > start else str(start))
    return ",".join(out)

# --------------------------------------------------------------------------------------
# property interface
# --------------------------------------------------------------------------------------
class Prop:
    """Base class of a property check.

    A *case* is a JSON-serialisable dict with at least 'stream'. Subclasses implement
      generate(tier, rng)        -> iterable of cases
      impl(case)                 -> JSON-serialisable canonical output of the real code
      model_request(case)        -> dict for the Lean driver, or list of dicts, or None
      compare(case, io, mo)      -> None | str   (model vs implementation)
      oracle(case, io)           -> None | str   (property evaluated on the implementation alone)
      nontrivial(case, io)       -> bool
      shrink(case)               -> iterable of smaller cases
    """

    id = "C00"
    rule = ""
    unique_answer = False  # model output is the only output compatible with the property
    assumptions: list[str] = []
    finding_matchers: dict = {}

    def generate(self, tier, rng):
        return []

    def impl(self, case):
        raise NotImplementedError

    def model_request(self, case):
        return None

    def compare(self, case, io, mo):
        return None

    def oracle(self, case, io):
        return None

    def nontrivial(self, case, io):
        return True

    def shrink(self, case):
        return []

    def key(self, case):
        c = {k: v for k, v in case.items() if not k.startswith("_") and k != "stream"}
        return hashlib.sha1(json.dumps(c, sort_keys=True, default=str).encode()).hexdigest()

    def extra_coverage(self):
        return {}


def safe_impl(P: Prop, case):
    try:
        return P.impl(case)
    except Exception as e:  # harness bug or unexpected exception escaping the canonicaliser
        return {"harness_exc": exc_class(e), "msg": str(e)[:300], "tb": traceback.format_exc()[-800:]}


def evaluate(P: Prop, cases: list[dict]):
    """returns list of (case, impl_out, model_out, disagreement, oracle_failure)"""
    ios = [safe_impl(P, c) for c in cases]
    reqs, slots = [], []
    for i, c in enumerate(cases):
        # a request may depend on what the implementation did (e.g. how many artists it drew: a parameter of the model)
        r = P.model_request_io(c, ios[i]) if hasattr(P, "model_request_io") else P.model_request(c)
        if r is None:
            slots.append(None)
        elif isinstance(r, list):
            slots.append((len(reqs), len(r)))
            reqs.extend(r)
        else:
            slots.append((len(reqs), None))
            reqs.append(r)
    mos_flat = run_driver(reqs)
    out = []
    for c, io, sl in zip(cases, ios, slots):
        if sl is None:
            mo = None
        elif sl[1] is None:
            mo = mos_flat[sl[0]]
        else:
            mo = mos_flat[sl[0] : sl[0] + sl[1]]
        dis = orc = None
        if isinstance(io, dict) and "harness_exc" in io:
            dis = f"implementation raised unexpectedly inside the harness: {io['harness_exc']}: {io['msg']}"
        else:
            try:
                if mo is not None:
                    if isinstance(mo, dict) and "driver_error" in mo:
                        dis = f"model driver error: {mo['driver_error']}"
                    else:
                        dis = P.compare(c, io, mo)
                orc = P.oracle(c, io)
            except Exception as e:
                dis = f"harness comparison error {type(e).__name__}: {e} :: {traceback.format_exc()[-600:]}"
        out.append((c, io, mo, dis, orc))
    return out


def load_findings():
    f = VERIF / "known_findings.json"
    if not f.exists():
        return []
    return json.loads(f.read_text())["findings"]


def match_finding(P: Prop, case, io, findings):
    for fd in findings:
        if fd["property"] != P.id or fd.get("status") != "known":
            continue
        m = P.finding_matchers.get(fd["matcher"])
        try:
            if m and m(case, io):
                return fd
        except Exception:
            continue
    return None


def load_corpus(P: Prop):
    d = VERIF / "corpus" / P.id
    cases = []
    if d.exists():
        for f in sorted(d.glob("*.json")):
            c = json.loads(f.read_text())
            if isinstance(c, list):
                cases.extend(c)
            else:
                cases.append(c)
    for c in cases:
        c.setdefault("stream", "corpus")
    return cases


def shrink_case(P: Prop, case, still_fails, budget=200, budget_s=45.0):
    cur = case
    steps = 0
    improved = True
    t0 = time.time()
    while improved and steps < budget and time.time() - t0 < budget_s:
        improved = False
        for cand in P.shrink(cur):
            steps += 1
            if steps >= budget or time.time() - t0 >= budget_s:  # long vectors: every attempt costs a model run
                break
            try:
                if still_fails(cand):
                    cur = cand
                    improved = True
                    break
            except Exception:
                continue
    return cur


def write_replay(P: Prop, kind, case, io, mo, detail, extra=None):
    REPLAYS.mkdir(exist_ok=True)
    h = P.key(case)[:12]
    path = REPLAYS / f"{P.id}_{kind}_{h}.json"
    doc = {
        "property": P.id,
        "kind": kind,
        "case": case,
        "implementation_output": io,
        "model_output": mo,
        "detail": detail,
        "repo": str(REPO),
        "replay_cmd": f"./check {P.id} --replay {path.relative_to(VERIF)}",
    }
    if extra:
        doc.update(extra)
    path.write_text(json.dumps(doc, indent=1, default=str))
    return path


def run_check(P: Prop, tier: str, seed: int, replay: str | None = None) -> int:
    t0 = time.time()
    rng = random.Random(seed)
    findings = load_findings()
    spec = props_json()[P.id]
    violations = []  # (path, suffix)
    known_hits = {}
    notes = []

    # ---- 1. proofs: build + audit ------------------------------------------------------
    ok_build, build_log = lean_build(spec["modules"] + ["MD.Model.Num"])
    forbidden = lean_grep_forbidden()
    audit = lean_audit(P.id) if ok_build else {"theorems": {t["name"]: {"ok": False, "why": "build failed"} for t in spec["theorems"]}, "raw_tail": build_log}
    obligations = len(spec["theorems"])
    discharged = sum(1 for v in audit["theorems"].values() if v["ok"]) if not forbidden else 0
    proof_broken = [n for n, v in audit["theorems"].items() if not v["ok"]]
    if forbidden:
        proof_broken.append("forbidden tokens: " + "; ".join(forbidden[:5]))
    leanchecker = None
    if tier == "thorough" and ok_build and not replay:
        # independent re-check of the compiled modules with the toolchain's leanchecker
        lc = subprocess.run(["lake", "env", "leanchecker", *spec["modules"]], cwd=LEAN, capture_output=True, text=True)
        leanchecker = "ok" if lc.returncode == 0 else "FAILED: " + (lc.stdout + lc.stderr)[-300:]
        if lc.returncode != 0:
            proof_broken.append("leanchecker: " + leanchecker)

    # ---- 2. correspondence -------------------------------------------------------------
    if replay:
        doc = json.loads(Path(replay).read_text())
        cases = [doc["case"]] if "case" in doc else doc["cases"]
    else:
        cases = load_corpus(P) + list(P.generate(tier, rng))
    implcov = ImplCoverage()
    with implcov:
        results = evaluate(P, cases)
    # change-triggered escalation: the code this property depends on differs from the snapshot the models were last
    # validated against -> further seeds of the same streams, within a wall-clock budget (never a disagreement by itself)
    from . import anchors

    moved = [] if replay else anchors.changed_files(P.id, REPO)
    escalated_seeds = []
    if moved and tier == "quick" and os.environ.get("VERIF_NO_ESCALATION") != "1":
        budget = float(os.environ.get("VERIF_ESCALATION_BUDGET_S", "150"))
        k = 0
        while k < 4:
            per_batch = (time.time() - t0) / (k + 1)
            if time.time() - t0 + per_batch > budget:
                break
            k += 1
            s2 = seed + 7001 * k
            with implcov:
                results += evaluate(P, list(P.generate(tier, random.Random(s2))))
            escalated_seeds.append(s2)
    seen, nontrivial = set(), 0
    dist = {}
    for c, io, mo, dis, orc in results:
        k = P.key(c)
        dist[c.get("stream", "?")] = dist.get(c.get("stream", "?"), 0) + 1
        if k not in seen:
            seen.add(k)
            try:
                if P.nontrivial(c, io):
                    nontrivial += 1
            except Exception:
                pass

    failing = [(c, io, mo, dis, orc) for (c, io, mo, dis, orc) in results if dis or orc]
    disagreements = sum(1 for r in failing if r[3])
    reported_kinds = set()
    for c, io, mo, dis, orc in failing:
        fd = match_finding(P, c, io, findings)
        if fd is not None:
            known_hits.setdefault(fd["id"], (fd, c, 0))
            fd_, c_, n_ = known_hits[fd["id"]]
            known_hits[fd["id"]] = (fd_, c_, n_ + 1)
            continue
        # a failing input: the property oracle fails on the implementation, or the model's answer is
        # the only one compatible with the property
        is_failing_input = bool(orc) or (bool(dis) and P.unique_answer and not str(dis).startswith(("harness", "model driver")))
        kindkey = (c.get("stream"), bool(orc), (orc or dis or "")[:40])
        if kindkey in reported_kinds or len(violations) >= 3:
            continue
        reported_kinds.add(kindkey)

        def still_fails(cand, _orc=bool(orc)):
            if _orc:  # oracle failures need the implementation only
                io2 = safe_impl(P, cand)
                if isinstance(io2, dict) and "harness_exc" in io2:
                    return False
                return bool(P.oracle(cand, io2)) and match_finding(P, cand, io2, findings) is None
            r = evaluate(P, [cand])[0]
            if match_finding(P, cand, r[1], findings) is not None:
                return False
            # a candidate on which the harness itself trips (e.g. a shrunk case without any positive weight) is no smaller witness
            return bool(r[3]) and not str(r[3]).startswith("harness")

        small = shrink_case(P, c, still_fails) if not replay else c
        if small is not c:
            c, io, mo, dis, orc = evaluate(P, [small])[0]
        detail = {"oracle": orc, "correspondence": dis}
        if is_failing_input:
            path = write_replay(P, "failing-input", c, io, mo, detail)
            violations.append((path, ""))
        else:
            # correspondence broke, no oracle failure on this case: search further
            found = search_failing_input(P, tier, seed, findings)
            if found is not None:
                fc, fio, forc = found
                path = write_replay(P, "failing-input", fc, fio, None, {"oracle": forc, "triggered_by": dis})
                violations.append((path, ""))
            else:
                path = write_replay(
                    P, "correspondence", c, io, mo, detail,
                    {"no_longer_checks": f"correspondence stream '{c.get('stream')}' of {P.id} (model {spec['modules']})"},
                )
                violations.append((path, " no-failing-input-found"))

    if proof_broken and not replay:
        found = search_failing_input(P, tier, seed, findings)
        if found is not None:
            fc, fio, forc = found
            path = write_replay(P, "failing-input", fc, fio, None, {"oracle": forc, "triggered_by": f"proof obligations {proof_broken}"})
            violations.append((path, ""))
        else:
            REPLAYS.mkdir(exist_ok=True)
            path = REPLAYS / f"{P.id}_proof.json"
            path.write_text(json.dumps({"property": P.id, "kind": "proof", "no_longer_checks": proof_broken, "audit": audit, "build_log_tail": build_log[-1500:]}, indent=1))
            violations.append((path, " no-failing-input-found"))

    # ---- 3. evidence -------------------------------------------------------------------
    def _brief(o, depth=0):
        """evidence samples stay small: long vectors are cut (the case itself is reproducible from tier + seed)"""
        if isinstance(o, dict):
            return {k: _brief(v, depth + 1) for k, v in o.items()}
        if isinstance(o, (list, tuple)):
            if len(o) > 40:
                return [_brief(v, depth + 1) for v in o[:20]] + [f"... {len(o) - 20} more"]
            return [_brief(v, depth + 1) for v in o]
        if isinstance(o, str) and len(o) > 400:
            return o[:400] + "..."
        return o

    samples = []
    for c, io, mo, dis, orc in results[:: max(1, len(results) // 3)][:3]:
        samples.append(_brief({"case": c, "implementation": io, "model": mo}))
    samples.append({"obligations": [t["name"] + " [" + t.get("kind", "full") + "]" for t in spec["theorems"]]})
    cov = {
        "obligations": obligations,
        "discharged": discharged,
        "checker_cmd": f"cd lean && lake build {' '.join(spec['modules'])} && lake env lean ../.work/audit_{P.id}.lean  # '#print axioms' of every obligation; plus forbidden-token grep",
        "trusted_base": TRUSTED_BASE,
        "theorems": {n: v for n, v in audit["theorems"].items()},
        "evaluations": len(results),
        "distinct_nontrivial": nontrivial,
        "rule": P.rule,
        "samples": samples,
        "streams": dist,
        "disagreements_checked": disagreements,
        "oracle_failures": sum(1 for r in failing if r[4]),
        "known_findings_hit": {k: v[2] for k, v in known_hits.items()},
        "exhaustive": False,
        "repo": str(REPO),
        "anchored_source_changed": moved,
        "escalated_seeds": escalated_seeds,
        "implementation_coverage": implcov.report(anchors.property_files(P.id)),
    }
    if leanchecker is not None:
        cov["leanchecker"] = leanchecker
    if obligations == 0:  # nothing proved yet: do not pretend (falls back to the exploration keys)
        del cov["obligations"], cov["discharged"]
    cov.update(P.extra_coverage())
    ev = {
        "property_id": P.id,
        "tier": tier,
        "seed": seed,
        "level": "proof",
        "coverage": cov,
        "assumptions": list(P.assumptions),
        "wall_s": round(time.time() - t0, 2),
        "violations": len(violations),
    }
    if not replay:
        # runs against a scratch tree (VERIF_REPO set) are experiments: their evidence does not replace the real one
        evdir = EVIDENCE if str(REPO) == "/repo" else WORK / "evidence_scratch"
        evdir.mkdir(parents=True, exist_ok=True)
        (evdir / f"{P.id}.json").write_text(json.dumps(ev, indent=1, default=str))

    for fid, (fd, c, n) in known_hits.items():
        print(f"KNOWN-FINDING: property={P.id} {fd['what']} [{fid}; {n} case(s) this run]")
    printed = set()
    for path, suffix in violations:
        if path in printed:
            continue
        printed.add(path)
        print(f"VIOLATION property={P.id} replay={path}{suffix}")
    print(
        f"{P.id} {tier} seed={seed}: obligations {discharged}/{obligations}, {len(results)} cases "
        f"({nontrivial} distinct non-trivial), {disagreements} disagreements, "
        f"{len(violations)} violations, {time.time() - t0:.1f}s"
    )
    if replay:
        for c, io, mo, dis, orc in results:
            print(json.dumps({"case": c, "implementation": io, "model": mo, "disagreement": dis, "oracle": orc}, default=str)[:4000])
    return 1 if violations else 0


_search_cache = {}


def search_failing_input(P: Prop, tier, seed, findings, budget_s=90):
    """oracle-only search on the implementation with a fresh, larger sample (once per run)"""
    if P.id not in _search_cache:
        _search_cache[P.id] = _search_failing_input(P, tier, seed, findings, budget_s)
    return _search_cache[P.id]


def _search_failing_input(P: Prop, tier, seed, findings, budget_s):
    rng = random.Random(seed + 7919)
    t0 = time.time()
    for c in P.generate("thorough", rng):
        if time.time() - t0 > budget_s:
            break
        io = safe_impl(P, c)
        if isinstance(io, dict) and "harness_exc" in io:
            continue
        try:
            orc = P.oracle(c, io)
        except Exception:
            continue
        if orc and match_finding(P, c, io, findings) is None:
            def still_fails(cand):
                io2 = safe_impl(P, cand)
                return bool(P.oracle(cand, io2)) and match_finding(P, cand, io2, findings) is None
            small = shrink_case(P, c, still_fails)
            io = safe_impl(P, small)
            return small, io, P.oracle(small, io)
    return None
