"""C02 — isotonic quantile regression returns a monotone minimiser of the pinball loss."""
from fractions import Fraction

from . import iso_common as ic
from .core import Prop, dec_list


def pinball_total(ys, xs, a):
    return sum(((1 if y <= x else 0) - a) * (x - y) for y, x in zip(ys, xs))


def min_pinball_monotone(ys, a):
    """exact minimum of the total pinball loss over non-decreasing sequences (values may be restricted
    to the data values: the objective is piecewise linear with kinks at data values)"""
    cand = sorted(set(ys))
    m = len(cand)
    prev = [Fraction(0)] * m
    for y in ys:
        cur = []
        best = None
        for k in range(m):
            best = prev[k] if best is None or prev[k] < best else best
            cur.append(best + ((1 if y <= cand[k] else 0) - a) * (cand[k] - y))
        prev = cur
    return min(prev)


class C02(Prop):
    id = "C02"
    unique_answer = False  # optimal quantile fits are not unique: the oracle decides
    rule = (
        "streams: 'exact' = every y in {0..3}^n (n<=5 quick, <=6 thorough) x levels {1/2,1/4,3/4,1/3,2/3,1/5} (so that n*level is "
        "integral for many n) x both directions, functional quantile and median; 'random' = structured random y with heavy ties "
        "/ sorted / saw-tooth shapes and dyadic levels; 'decimal' = decimal levels (0.1, 0.3, ...) after checking that numpy's "
        "float rank selection agrees with exact arithmetic for every block size (divergent cases are counted and skipped). "
        "'dtype' = bool / int8 / uint8 / uint16 / uint32 / float32 observations with zeros, direction flag as numpy.bool_ or int. Comparison: x equal to the model (midpoints of data values are exact in floats for these inputs) and r identical; "
        "oracle: monotone, inside [min y, max y], total pinball loss equal to the exact minimum over all monotone sequences "
        "(dynamic programme over data values, Fractions). Non-trivial = some pooling and non-constant y."
    )
    assumptions = [
        "np.quantile(method='inverted_cdf') = least data value u with #{y<=u} >= n*level; its float rank selection fl(n*level) is outside the model",
    ]

    def __init__(self):
        self.float_rank_divergent = 0

    def generate(self, tier, rng):
        nmax = 5 if tier == "quick" else 6
        levels = ["1/2", "1/4", "3/4", "1/3", "2/3", "1/5"]
        for ys in ic.small_scope(nmax):
            for li, lv in enumerate(levels):
                for inc in (True, False):
                    if tier == "quick" and len(ys) == 5 and (li + inc) % 3:
                        continue
                    if ic.float_rank_divergent(lv, len(ys)):
                        self.float_rank_divergent += 1
                        continue
                    yield {"stream": "exact", "f": "quantile", "level": lv, "inc": inc, "y": [str(v) for v in ys], "w": None}
            if len(ys) <= 4:
                for inc in (True, False):
                    yield {"stream": "exact", "f": "median", "level": "7/8", "inc": inc, "y": [str(v) for v in ys], "w": None}
        for k in range(300 if tier == "quick" else 4000):
            # the estimator class on distinct, sorted X: its predictions at the training points are the quantile fit of y (the
            # thresholds it interpolates between come from the block index vector)
            n = rng.randint(2, 9)
            lv = rng.choice(["1/2", "1/2", "1/4", "3/4"])
            if ic.float_rank_divergent(lv, n):
                continue
            yield {"stream": "class", "f": rng.choice(["quantile", "median"]) if lv == "1/2" else "quantile", "level": lv, "inc": rng.random() < 0.5,
                   "y": ic.gen_y(rng, n, rng.choice(["small", "digits", "neg"])), "w": None}
        for k in range(1500 if tier == "quick" else 15000):
            n = rng.choice([1, 2, 3, 4, 6, 9, 14, 25, 40]) if rng.random() < 0.85 else rng.randint(41, 120 if tier == "quick" else 200)
            c = {
                "stream": "random",
                "f": rng.choice(["quantile", "quantile", "quantile", "median"]),
                "level": rng.choice(ic.DYADIC_LEVELS),
                "inc": rng.random() < 0.5,
                "y": ic.gen_y(rng, n, rng.choice(["small", "small", "digits", "dyadic", "neg", "big"])),
                "w": None,
            }
            if c["f"] == "quantile" and ic.float_rank_divergent(c["level"], n):
                self.float_rank_divergent += 1
                continue
            yield c
        for k in range(400 if tier == "quick" else 4000):
            c = ic.gen_dtype_case(rng, rng.choice(["quantile", "quantile", "median"]), rng.choice(ic.DYADIC_LEVELS[:9]))
            if c["f"] == "quantile" and ic.float_rank_divergent(c["level"], len(c["y"])):
                continue
            yield c
        for k in range(600 if tier == "quick" else 10000):
            n = rng.randint(1, 40)
            c = {
                "stream": "decimal",
                "f": "quantile",
                "level": rng.choice(ic.DECIMAL_LEVELS),
                "inc": rng.random() < 0.5,
                "y": ic.gen_y(rng, n, rng.choice(["small", "digits", "dyadic", "neg"])),
                "w": None,
            }
            if ic.float_rank_divergent(c["level"], n):
                self.float_rank_divergent += 1
                continue
            yield c

    def impl(self, case):
        if case["stream"] == "class":
            import numpy as np
            from model_diagnostics._utils.isotonic import IsotonicRegression
            from .core import exc_class

            y = np.array([float(Fraction(v)) for v in case["y"]])
            X = np.arange(len(y), dtype=float)
            try:
                m = IsotonicRegression(increasing=case["inc"], functional=case["f"], level=ic.level_float(case["level"])).fit(X, y)
                return {"x": [float(v) for v in np.atleast_1d(m.predict(X))], "r": [], "mutated": False}
            except Exception as e:
                return {"err": exc_class(e)}
        return ic.call_iso(case)

    def model_request(self, case):
        return ic.iso_request(case)

    def compare(self, case, io, mo):
        return ic.compare_xr(io, mo, exact=True, with_r=False)

    def oracle(self, case, io):
        if "err" in io:
            return f"valid input rejected with {io['err']}"
        ys = [Fraction(v) for v in case["y"]]
        n = len(ys)
        a = Fraction(1, 2) if case["f"] == "median" else ic.level_exact(case["level"])
        x = [Fraction(v) for v in io["x"]]
        if len(x) != n:
            return f"length {len(x)} != {n}"
        inc = case["inc"]
        for i in range(n - 1):
            if (inc and x[i] > x[i + 1]) or (not inc and x[i] < x[i + 1]):
                return f"fit not monotone at {i}: {io['x'][i]!r}, {io['x'][i+1]!r}"
        lo, hi = min(ys), max(ys)
        for i, v in enumerate(x):
            if not lo <= v <= hi:
                return f"x[{i}]={float(v)!r} outside [min y, max y]"
        if not inc:
            ys, x = ys[::-1], x[::-1]
        if n <= 150:
            best = min_pinball_monotone(ys, a)
            got = pinball_total(ys, x, a)
            if got != best:
                return f"total pinball loss {float(got)!r} is not the minimum {float(best)!r} attainable by a monotone sequence"
        return None

    def nontrivial(self, case, io):
        return "x" in io and len(io["r"]) - 1 < len(case["y"]) and len(set(case["y"])) > 1

    def shrink(self, case):
        return ic.shrink_iso(case)

    def extra_coverage(self):
        return {"float_rank_divergent": self.float_rank_divergent}


PROP = C02
