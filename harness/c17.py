"""C17 — results do not depend on the container or numeric dtype of the inputs."""
import math

import numpy as np

from . import score_common as sc
from .core import Prop, bits2f, exc_class

CONTAINERS = ["list_int", "list_float", "tuple_int", "np_int64", "np_int32", "np_float64", "pl_int", "pl_float", "list_mixed",
              "np_uint8", "np_uint32", "pl_uint32", "np_int8", "list_mixed_int_first", "np_float32", "pl_float32", "list_npint_first"]
ENTRY = ["score", "score", "ident", "decompose", "bias", "marginal", "iso", "isomodel"]


def conv(vals, container):
    import polars as pl

    if container == "list_int":
        return [int(v) for v in vals]
    if container == "list_float":
        return [float(v) for v in vals]
    if container == "tuple_int":
        return tuple(int(v) for v in vals)
    if container == "np_int64":
        return np.array(vals, dtype=np.int64)
    if container == "np_int32":
        return np.array(vals, dtype=np.int32)
    if container == "np_float64":
        return np.array(vals, dtype=np.float64)
    if container == "pl_int":
        return pl.Series([int(v) for v in vals], dtype=pl.Int64)
    if container == "pl_float":
        return pl.Series([float(v) for v in vals], dtype=pl.Float64)
    if container == "list_mixed":
        return [int(v) if i % 2 else float(v) for i, v in enumerate(vals)]
    if container == "list_npint_first":
        # a numpy integer scalar first, then (possibly non-integer) floats: nothing may be truncated to the first element's type
        return [np.int64(int(vals[0])) if float(vals[0]).is_integer() else float(vals[0])] + [float(v) for v in vals[1:]]
    if container == "list_mixed_int_first":
        return [float(v) if i % 2 else int(v) for i, v in enumerate(vals)]  # a type inferred from the first element is wrong
    if container in ("np_uint8", "np_uint32", "np_int8", "np_float32"):
        return np.array(vals, dtype=container[3:])
    if container == "pl_float32":
        return pl.Series([float(v) for v in vals], dtype=pl.Float32)
    if container == "pl_uint32":
        return pl.Series([int(v) for v in vals], dtype=pl.UInt32)
    raise KeyError(container)


_REUSE = None  # while a dict: container objects (and the score object) of the previous call, refilled in place


def cv(name, vals, container):
    """conv, or - inside a 'reuse' sequence - the object of the previous call refilled in place (lists and numpy arrays)"""
    global _REUSE
    new = conv(vals, container)
    if _REUSE is None:
        return new
    old = _REUSE.get(name)
    if old is not None and type(old) is type(new) and isinstance(new, (list, np.ndarray)) and len(old) == len(new) \
            and (not isinstance(new, np.ndarray) or old.dtype == new.dtype):
        old[:] = new
        return old
    _REUSE[name] = new
    return new


def mk_sf(case):
    global _REUSE
    if _REUSE is not None and "sf" in _REUSE:
        return _REUSE["sf"]
    sf = sc.make_sf(case["kind"], case["h"], case["level"])
    if _REUSE is not None:
        _REUSE["sf"] = sf
    return sf


def flat(res):
    """canonical list of floats (and strings) out of whatever an entry point returns"""
    import polars as pl

    if isinstance(res, pl.DataFrame):
        out = []
        for row in res.rows():
            for v in row:
                if isinstance(v, (list, tuple)):
                    out.extend([None if u is None else float(u) for u in v])
                elif isinstance(v, (int, float)) and not isinstance(v, bool):
                    out.append(float(v))
                else:
                    out.append(v)
        return out
    if isinstance(res, tuple):
        return [float(v) for part in res for v in np.asarray(part, dtype=float).ravel()]
    return [float(v) for v in np.asarray(res, dtype=float).ravel()]


class C17(Prop):
    id = "C17"
    unique_answer = True
    rule = (
        "integer-valued data (so that every dtype can hold it; a 'big' stream with values up to 4e9 where int64 products "
        "overflow) passed as list of ints / floats / mixed, tuple, numpy int64 / int32 / float64, polars Int64 / Float64 "
        "Series (observations and predictions also in different containers; two forecast columns also as a list / tuple of "
        "rows mixing ints and floats) to: every score class (degrees incl. the Python ints -2, -1, 0, 1, 2, 3), identification_function, decompose, "
        "compute_bias and compute_marginal with a numeric feature, isotonic_regression (all functionals). Each container's "
        "result is compared with the float64-array result (1e-9 relative), and the float64 score with the Float model. "
        "Additionally sf(y, z, w) == average(score_per_obs, w) and == sf(y, z, c*w). Non-trivial = container differs from "
        "float64 and the data are not constant."
        "Later additions: seventeen containers (unsigned / narrow / single-precision numpy and polars dtypes, Python lists mixing ints and floats in both orders), "
        "ElementaryScore with Python-int eta, the fitted isotonic model at new non-integer points, numpy's automatic bin methods (known finding), "
        "'reuse' sequences (the same container and score objects used for other data first and refilled in place), and the 'dtype_rule' stream: "
        "every numpy dtype at the ends of its range against the model's cast table (result dtype and residual). "
    )
    assumptions = ["np.asarray / polars constructors deliver the numbers they are given (library behaviour, exercised here)"]

    def __init__(self):
        self.finding_matchers = {"c17_numpy_integer_bin_width": self.numpy_integer_bin_width}

    @staticmethod
    def numpy_integer_bin_width(case, io):
        """numpy >= 2.1: np.histogram_bin_edges keeps the bin width of an integer-typed array at >= 1, so the automatic bin
        methods give an integer-typed feature other bins than the same numbers as floats"""
        if case.get("stream") != "bias" or case.get("method") in (None, "quantile", "uniform"):
            return False
        feat = conv(case["feature"], case["container"])
        import polars as pl

        arr = feat.to_numpy() if isinstance(feat, pl.Series) else np.asarray(feat)
        if arr.dtype.kind not in "iu":
            return False
        import warnings

        with warnings.catch_warnings():
            warnings.simplefilter("ignore")
            ei = np.histogram_bin_edges(arr, bins=case["method"])
            ef = np.histogram_bin_edges(arr.astype(float), bins=case["method"])
        return len(ei) != len(ef) or not np.allclose(ei, ef)

    DTYPES = {"bool": (0, 1), "uint8": (0, 2**8 - 1), "uint16": (0, 2**16 - 1), "uint32": (0, 2**32 - 1), "uint64": (0, 2**53), "int8": (-2**7, 2**7 - 1),
              "int16": (-2**15, 2**15 - 1), "int32": (-2**31, 2**31 - 1), "int64": (-2**63, 2**63 - 1), "float32": (-1000, 1000), "float64": (-2**40, 2**40)}

    def generate(self, tier, rng):
        # the dtype rule (which dtypes are cast to float64 before the arithmetic) against the model's decision table, with whole
        # numbers at the ends of each dtype's range, where arithmetic inside the dtype wraps around
        for d, (lo, hi) in self.DTYPES.items():
            pairs = [(lo, hi), (hi, lo), (lo, lo), (hi, hi)] + [(rng.randint(lo, hi), rng.randint(lo, hi)) for _ in range(4 if tier == "quick" else 40)]
            if d == "int64":
                pairs += [(-2**62, 2**62 + 5), (2**62 + 7, -2**62)]
            for y, z in pairs:
                yield {"stream": "dtype_rule", "dtype": d, "y": [y], "z": [z], "w": None, "container": "np_" + d, "big": False}
        # the list -> column step (series_from_values) against its model, exhaustively for short lists: every arrangement of
        # Python ints / floats, numpy integer / floating scalars and None (also polars' two constructors themselves, which the
        # model takes as parameters)
        import itertools

        atoms = [("none", None), ("pyInt", 1), ("pyInt", -3), ("pyFloat", 2.5), ("pyFloat", -1.75), ("pyFloat", 4.0),
                 ("npInt", 2), ("npInt", -1), ("npFloat", 0.5), ("npFloat", 3.0)]
        for L in ((1, 2, 3) if tier == "quick" else (1, 2, 3, 4)):
            for combo in itertools.product(atoms, repeat=L):
                if L == 3 and tier == "quick" and rng.random() < 0.5:
                    continue
                yield {"stream": "series", "elems": [list(a) for a in combo], "y": [0], "z": [0], "w": None, "container": "list", "big": False}
        for k in range(80 if tier == "quick" else 1500):
            # mixed calls: float observations with integer-typed predictions (and the other way round) for the degrees at which an
            # integer base would be refused or overflow (negative integers, large odd integers)
            n = rng.randint(2, 6)
            fl, it = rng.choice(["np_float64", "list_float", "pl_float"]), rng.choice(["np_int64", "np_int32", "list_int", "pl_int", "tuple_int"])
            c = {"stream": "score", "y": [rng.randint(1, 9) for _ in range(n)], "z": [rng.randint(1, 9) for _ in range(n)], "w": None,
                 "container": fl if k % 2 == 0 else it, "zcontainer": it if k % 2 == 0 else fl, "big": False,
                 "kind": rng.choice(["hqs", "hqs", "hes"]), "h": rng.choice([-1, -2, -3, 3, 5, 7, -1.0]), "level": rng.choice([0.5, 0.25, 0.8])}
            yield c
        for k in range(40 if tier == "quick" else 800):
            # decompose with a quantile score: the marginal (lower / upper empirical quantile of y_obs) must not depend on the
            # container of y_obs - levels and lengths with n * level not an integer
            n = rng.choice([5, 6, 7, 9, 10, 11])
            yield {"stream": "decompose", "y": [rng.randint(1, 12) for _ in range(n)], "z": [rng.randint(1, 12) for _ in range(n)], "w": None,
                   "container": rng.choice(["pl_float", "pl_int", "pl_uint32", "list_int", "tuple_int", "np_int32"]), "big": False,
                   "kind": "pinball", "h": 1, "level": rng.choice([0.25, 0.8, 0.75])}
        N = 1500 if tier == "quick" else 25000
        for k in range(N):
            ep = ENTRY[k % len(ENTRY)]
            n = rng.randint(2, 9)
            big = rng.random() < 0.12 and ep in ("score", "ident")
            hi = 4_000_000_000 if big else 12
            y = [rng.randint(1, hi) for _ in range(n)]
            z = [rng.randint(1, hi) for _ in range(n)]
            c = {"stream": ep, "y": y, "z": z, "w": None if rng.random() < 0.4 else [rng.randint(1, 4) for _ in range(n)],
                 "container": rng.choice(CONTAINERS), "big": big}
            if rng.random() < 0.4:
                # observations and predictions in DIFFERENT containers / dtypes (float y_obs with integer y_pred, ...)
                c["zcontainer"] = rng.choice(CONTAINERS)
            if ep in ("decompose", "bias", "marginal") and rng.random() < 0.3:
                # two forecast columns handed over as a Python list / tuple of rows mixing ints and floats
                c["rows2d"] = rng.choice(["list", "tuple"])
                # each column starts with a whole number written as int and continues with non-integer floats
                c["z"] = [z[0]] + [v + rng.choice([0.5, 0.25, 0.75]) for v in z[1:]]
                c["z2"] = [z[0] + 1] + [v + rng.choice([0.5, 0.25, 1.5]) for v in z[1:]]
            if big and c["container"] in ("np_int32", "np_uint8", "np_int8", "np_float32", "pl_float32"):
                c["container"] = "np_int64"
            if max(c["y"] + c["z"] + (c["w"] or [0])) > 100 and not big:
                pass
            if c["container"] == "np_int8" or c.get("zcontainer") == "np_int8" or c["container"] == "np_uint8" or c.get("zcontainer") == "np_uint8":
                c["y"] = [min(v, 100) for v in c["y"]]
                c["z"] = [min(v, 100) for v in c["z"]]
            if big and c.get("zcontainer") in ("np_int32", "np_uint8", "np_int8", "np_float32", "pl_float32"):
                c["zcontainer"] = "np_int64"
            if ep in ("bias", "marginal") and c["container"] in ("np_uint8", "np_int8", "np_uint32", "pl_uint32") and c["w"] is not None and "rows2d" not in c:
                # narrow observations, predictions AND weights: products weight * value beyond the 8-bit range
                c["y"] = [min(8 * v, 100) for v in c["y"]]
                c["z"] = [min(8 * v, 100) for v in c["z"]]
                c.pop("zcontainer", None)
            if ep == "score" and rng.random() < 0.3:
                # ElementaryScore with eta given as a Python int, as in its docstring; eta strictly inside the data range so that
                # the score is non-zero on both sides (y < eta <= z and z < eta <= y)
                lo_, hi_ = min(c["y"] + c["z"]), max(c["y"] + c["z"])
                c.update(kind="elementary", elem_f=rng.choice(["mean", "mean", "median", "expectile", "quantile"]),
                         eta=rng.randint(min(lo_ + 1, hi_), hi_), h=0, level=rng.choice([0.5, 0.25, 0.8]))
                if not big and rng.random() < 0.5:
                    c["container"] = rng.choice(["np_uint8", "np_uint32", "pl_uint32", "np_int8"])
                    c["y"] = [min(v, 100) for v in c["y"]]
                    c["z"] = [min(v, 100) for v in c["z"]]
                    c["eta"] = min(c["eta"], 100)
            elif ep == "score":
                kind = rng.choice(["hes", "hqs", "squared_error", "poisson", "gamma", "pinball", "logloss"])
                c.update(kind=kind, h=rng.choice([-2, -1, 0, 1, 2, 3, 0.5, 2.5, -1.0]), level=rng.choice([0.5, 0.25, 0.8]))
                if kind == "logloss":
                    c["y"] = [rng.randint(0, 1) for _ in range(n)]
                    c["z"] = [1] * n if rng.random() < 0.1 else c["z"]
                    c["zscale"] = 16
            elif ep in ("ident", "iso", "isomodel"):
                c.update(f=rng.choice(["mean", "median", "expectile", "quantile"]), level=rng.choice([0.5, 0.25, 0.75]))
                if ep in ("iso", "isomodel"):
                    c["inc"] = rng.random() < 0.5  # both directions (ties in X are frequent: few distinct values)
                if ep in ("iso", "isomodel") and c["f"] in ("quantile", "median"):
                    c["w"] = None
                if ep == "isomodel":
                    # the fitted model evaluated at new, non-integer points between (and outside) the training points
                    c["query"] = [rng.randint(-2, 2 * max(c["z"]) + 2) / 2 + rng.choice([0.0, 0.25]) for _ in range(6)]
            elif ep == "decompose":
                c.update(kind=rng.choice(["squared_error", "poisson", "poisson", "pinball", "hes"]), h=rng.choice([2, 1, 3]), level=rng.choice([0.5, 0.25]))
                if c["kind"] == "pinball":
                    c["w"] = None
                if c["kind"] == "poisson" and rng.random() < 0.6:
                    # zero counts at the smallest forecasts: the domain repair runs (with the caller's weight container)
                    order = sorted(range(n), key=lambda i: c["z"][i])
                    for i in order[: rng.randint(1, max(1, n // 2))]:
                        c["y"][i] = 0
                    c["w"] = c["w"] or [rng.randint(1, 4) for _ in range(n)]
            else:
                c["feature"] = [rng.randint(0, 6) for _ in range(n)]
                c["n_bins"] = rng.randint(2, 4)
                if ep == "bias" and "rows2d" not in c and rng.random() < 0.25:
                    # numpy's automatic bin-width rules on a whole-numbered feature with a small range and many rows
                    n2 = rng.choice([40, 64, 100])
                    cap = 100 if ("int8" in c["container"] or "uint8" in c["container"]) else 12
                    c.update(method=rng.choice(["sturges", "auto", "sqrt", "rice"]), y=[rng.randint(1, cap) for _ in range(n2)],
                             z=[rng.randint(1, cap) for _ in range(n2)], w=None if c["w"] is None else [rng.randint(1, 4) for _ in range(n2)],
                             feature=[rng.randint(0, 3) for _ in range(n2)])
                    c.pop("zcontainer", None)
            if c["container"] == "list_npint_first" and "rows2d" not in c and c.get("kind") != "logloss" and ep != "score":
                # the values after the first are not whole numbers (only the first element is an integer scalar)
                c.pop("zcontainer", None)
                for key in ("y", "z") + (("feature",) if "feature" in c else ()):
                    c[key] = [c[key][0]] + [v + 0.5 for v in c[key][1:]]
                if "query" in c:
                    c["query"] = [q + 0.125 for q in c["query"]]
            if "rows2d" not in c and c.get("kind") != "logloss" and rng.random() < 0.2:
                c["reuse"] = True
            yield c

    def call(self, case, container):
        y = cv("y", case["y"], container)
        if case.get("rows2d"):
            z = None
        else:
            z = cv("z", case["z"], case.get("zcontainer", container) if container != "np_float64" else container)
        if case.get("rows2d"):
            if container == "np_float64":
                z = np.column_stack([np.array(case["z"], dtype=float), np.array(case["z2"], dtype=float)])
            else:
                rows = [[int(a) if float(a).is_integer() else float(a), int(b) if float(b).is_integer() else float(b)]
                        for a, b in zip(case["z"], case["z2"])]  # whole numbers are written as ints (the first row always)
                z = rows if case["rows2d"] == "list" else tuple(tuple(r) for r in rows)
        w = None if case["w"] is None else cv("w", case["w"], container)
        ep = case["stream"]
        if ep == "score" and case["kind"] == "elementary":
            from model_diagnostics.scoring import ElementaryScore

            sf = ElementaryScore(eta=case["eta"], functional=case["elem_f"], level=case["level"])
            per = np.asarray(sf.score_per_obs(y, z), dtype=float)
            return {"vals": [float(v) for v in per] + [float(sf(y, z, w))]}
        if ep == "score":
            if case["kind"] == "logloss":
                z = np.asarray(case["z"], dtype=float) / (max(case["z"]) + 1)
                y = cv("y", case["y"], container)
            sf = mk_sf(case)
            per = np.asarray(sf.score_per_obs(y, z), dtype=float)
            m = float(sf(y, z, w))
            extra = {}
            if container == "np_float64":
                wa = None if w is None else np.asarray(w, dtype=float)
                extra["avg"] = float(np.average(per, weights=wa))
                extra["scaled"] = float(sf(y, z, None if wa is None else 8.0 * wa))
                extra["scaled_tiny"] = float(sf(y, z, None if wa is None else 2.0**-40 * wa))
            return {"vals": [float(v) for v in per] + [m], **extra}
        if ep == "ident":
            from model_diagnostics.calibration import identification_function

            return {"vals": flat(identification_function(y, z, functional=case["f"], level=case["level"]))}
        if ep == "iso":
            from model_diagnostics._utils.isotonic import isotonic_regression

            return {"vals": flat(isotonic_regression(y, w, increasing=case.get("inc", True), functional=case["f"], level=case["level"]))}
        if ep == "isomodel":
            from model_diagnostics._utils.isotonic import IsotonicRegression

            m = IsotonicRegression(increasing=case.get("inc", True), functional=case["f"], level=case["level"]).fit(z, y, sample_weight=w)
            return {"vals": flat(m.predict(np.array(case["query"], dtype=float))) + flat(m.predict(z))}
        if ep == "decompose":
            from model_diagnostics.scoring import decompose

            sf = mk_sf(case)
            extra = {}
            if container == "np_float64" and w is not None and not case.get("rows2d"):
                # rescaling all weights (also to a tiny common magnitude) must not change any component
                wa = np.asarray(w, dtype=float)
                extra["rescaled"] = {str(f_): flat(decompose(y, z, f_ * wa, scoring_function=sf)) for f_ in (8.0, 2.0**-40)}
            return {"vals": flat(decompose(y, z, w, scoring_function=sf)), **extra}
        feat = cv("feature", case["feature"], container)
        if ep == "bias":
            from model_diagnostics.calibration import compute_bias

            return {"vals": flat(compute_bias(y, z, feature=feat, weights=w, n_bins=case["n_bins"], bin_method=case.get("method", "quantile")))}
        from model_diagnostics.calibration import compute_marginal

        X = np.column_stack([np.asarray(case["feature"], dtype=float), np.ones(len(case["y"]))])
        return {"vals": flat(compute_marginal(y, z, X=X, feature_name=0, weights=w, n_bins=case["n_bins"], bin_method="quantile"))}

    @staticmethod
    def series_obs(case):
        import polars as pl
        from model_diagnostics._utils.array import series_from_values

        def mk(kind, v):
            return {"none": lambda: None, "pyInt": lambda: int(v), "pyFloat": lambda: float(v), "npInt": lambda: np.int64(v),
                    "npFloat": lambda: np.float64(v)}[kind]()

        vals = [mk(k, v) for k, v in case["elems"]]

        def col(f):
            try:
                s_ = f()
            except TypeError:
                return {"dtype": "TypeError"}
            except Exception as e:
                return {"dtype": "Other:" + type(e).__name__, "msg": str(e)[:100]}
            kind = "null" if s_.dtype == pl.Null else "int" if s_.dtype.is_integer() else "float" if s_.dtype.is_float() else str(s_.dtype)
            return {"dtype": kind, "values": s_.to_list()}

        return {"lib": col(lambda: series_from_values(list(vals))), "strict": col(lambda: pl.Series(values=list(vals))),
                "nonstrict": col(lambda: pl.Series(values=list(vals), strict=False))}

    def impl(self, case):
        global _REUSE
        if case["stream"] == "series":
            return self.series_obs(case)
        if case["stream"] == "dtype_rule":
            import warnings
            from model_diagnostics.calibration import identification_function
            from model_diagnostics.scoring import SquaredError

            d = case["dtype"]
            y, z = np.array(case["y"]).astype(d), np.array(case["z"]).astype(d)
            try:
                with warnings.catch_warnings():
                    warnings.simplefilter("ignore")
                    r = np.asarray(identification_function(y, z, functional="mean"))
                    sq = np.asarray(SquaredError().score_per_obs(y, z))
            except Exception as e:
                return {"err": exc_class(e), "msg": str(e)[:160]}
            return {"kind": r.dtype.kind, "residual": int(r[0]), "sq_kind": sq.dtype.kind, "sq": float(sq[0])}
        out = {}
        for cont in ("np_float64", case["container"]):
            try:
                if case.get("reuse") and cont != "np_float64":
                    # the same container objects (and score object) used for other data first, then refilled in place
                    rot = lambda l: l if l is None else l[1:] + l[:1]
                    first = {**case, "y": rot(case["y"]), "z": rot(case["z"]), "w": rot(case["w"])}
                    if "feature" in case:
                        first["feature"] = rot(case["feature"])
                    _REUSE = {}
                    try:
                        self.call(first, cont)
                    except Exception:
                        pass
                out[cont] = self.call(case, cont)
            except Exception as e:
                out[cont] = {"err": exc_class(e), "msg": str(e)[:160]}
            finally:
                _REUSE = None
        return out

    def model_request(self, case):
        if case["stream"] == "series":
            from fractions import Fraction
            from .core import enc

            return {"op": "series", "elems": [[k, None if v is None else enc(Fraction(v))] for k, v in case["elems"]]}
        if case["stream"] == "dtype_rule":
            return {"op": "dtype_rule", "y": str(case["y"][0]), "z": str(case["z"][0])}
        if case["stream"] != "score" or case["big"] or case.get("kind") == "elementary":
            return None
        z = [v / (max(case["z"]) + 1) for v in case["z"]] if case["kind"] == "logloss" else [float(v) for v in case["z"]]
        return sc.score_request(case["kind"], float(case["h"]), case["level"], [float(v) for v in case["y"]], z,
                                None if case["w"] is None else [float(v) for v in case["w"]])

    def compare(self, case, io, mo):
        if case["stream"] == "series":
            from fractions import Fraction

            for which in ("lib", "strict", "nonstrict"):
                a, b = io[which], mo[which]
                bv = None if "values" not in b else [None if v is None else Fraction(v) for v in b["values"]]
                av = None if "values" not in a else [None if v is None else Fraction(v) for v in a["values"]]
                if a["dtype"] != b["dtype"] or av != bv:
                    what = {"lib": "series_from_values", "strict": "pl.Series(values) [a parameter of the model]",
                            "nonstrict": "pl.Series(values, strict=False) [a parameter of the model]"}[which]
                    return f"{what} on {case['elems']}: {a}, model {b}"
            return None
        if case["stream"] == "dtype_rule":
            if "err" in io:
                return None if case["dtype"] == "bool" and io["err"] == "TypeError" else f"valid input rejected: {io}"
            m = mo[case["dtype"]]
            integer = case["dtype"] not in ("float32", "float64")
            if integer and (io["kind"] == "f") != m["ident_casts"]:
                return f"identification_function returns dtype kind {io['kind']!r} for {case['dtype']} input, the model's rule says cast = {m['ident_casts']}"
            if io["residual"] != int(m["residual"]):
                return f"identification_function({case['y'][0]}, {case['z'][0]}) in {case['dtype']} gives {io['residual']}, model {m['residual']}"
            if integer and (io["sq_kind"] == "f") != m["score_casts"]:
                return f"SquaredError returns dtype kind {io['sq_kind']!r} for {case['dtype']} input, the model's rule says cast = {m['score_casts']}"
            return None
        base = io["np_float64"]
        if ("err" in base) != ("err" in mo):
            return f"float64 outcome {base.get('err', 'ok')} vs model {mo.get('err', 'ok')}"
        if "err" in base:
            return None
        vals = [bits2f(b) for b in mo["per_obs"]] + ([bits2f(mo["mean"])] if "mean" in mo else [])
        for a, b in zip(base["vals"], vals):
            if not (abs(a - b) <= 1e-9 * max(1.0, abs(a), abs(b)) or (math.isinf(a) and a == b)):
                return f"float64 score {a!r} vs model {b!r}"
        return None

    def oracle(self, case, io):
        if case["stream"] == "series":
            # the property: the column holds the numbers of the list, whatever Python / numpy scalar types they come in
            from fractions import Fraction

            want = [None if v is None else Fraction(v) for _, v in case["elems"]]
            got = io["lib"]
            if "values" not in got:
                return f"series_from_values refuses the list {case['elems']}: {got}"
            if [None if v is None else Fraction(v) for v in got["values"]] != want:
                return f"series_from_values turns the list {case['elems']} into {got['values']}"
            return None
        if case["stream"] == "dtype_rule":
            if "err" in io:
                return f"valid input rejected: {io}"
            y, z = case["y"][0], case["z"][0]
            # the property itself: the same numbers in any dtype give the same residual and the same squared error - wherever
            # the exact values are representable (int64 differences beyond 2^63 are outside: see DESIGN 10.8)
            if abs(z - y) < 2**63 and io["residual"] != z - y:
                return f"residual of ({y}, {z}) held in {case['dtype']} is {io['residual']}, not {z - y}"
            if abs(z - y) < 2**26 and io["sq"] != float((z - y) ** 2):
                return f"squared error of ({y}, {z}) held in {case['dtype']} is {io['sq']}, not {(z - y) ** 2}"
            return None
        base, other = io["np_float64"], io[case["container"]]
        if ("err" in base) != ("err" in other):
            return (f"{case['stream']}: float64 arrays give {base.get('err', 'a result')} but {case['container']} gives "
                    f"{other.get('err', 'a result')} ({other.get('msg', base.get('msg', ''))!r})")
        if "err" in base:
            return None
        if len(base["vals"]) != len(other["vals"]):
            return f"{case['container']} gives a result of a different shape"
        single = "float32" in case["container"] or "float32" in case.get("zcontainer", "")
        S = 0.0
        if single and case["stream"] == "score" and case.get("kind") not in (None, "elementary"):
            # single precision: the rounding error is relative to the largest TERM of the formula (10**2.5 in float32 carries 2e-5),
            # not to the score, which may be 0 by cancellation
            try:
                S = max(sc.scale(case["kind"], float(case["h"]), case["level"], float(y), float(z)) for y, z in zip(case["y"], case["z"]))
            except Exception:
                S = 0.0
        for a, b in zip(base["vals"], other["vals"]):
            if isinstance(a, float) and isinstance(b, float):
                if math.isnan(a) and math.isnan(b):
                    continue
                if not (abs(a - b) <= (1e-5 if single else 1e-9) * max(1.0, abs(a), abs(b), S) or a == b):  # "up to float rounding" (of the dtype)
                    return f"{case['stream']}: {case['container']} gives {b!r} where float64 arrays give {a!r}"
            elif a != b:
                return f"{case['stream']}: {case['container']} gives {b!r} where float64 arrays give {a!r}"
        if "avg" in base:
            m = base["vals"][-1]
            for name in ("avg", "scaled", "scaled_tiny"):
                if not (abs(m - base[name]) <= 1e-12 * max(1.0, abs(m)) or m == base[name]):
                    return f"aggregated score {m!r} differs from {'the weighted average of score_per_obs' if name == 'avg' else 'the score with all weights rescaled (' + name + ')'} {base[name]!r}"
        for f_, vals in (base.get("rescaled") or {}).items():
            for a, b in zip(base["vals"], vals):
                if isinstance(a, float) and isinstance(b, float) and not (abs(a - b) <= 1e-9 * max(1.0, abs(a), abs(b)) or (math.isnan(a) and math.isnan(b))):
                    return f"decompose: multiplying all weights by {f_} changes a component from {a!r} to {b!r}"
        return None

    def nontrivial(self, case, io):
        if case["stream"] == "series":
            return len({k for k, _ in case["elems"]}) > 1
        if case["stream"] == "dtype_rule":
            return case["y"] != case["z"]
        return case["container"] != "np_float64" and len(set(case["y"])) > 1

    def shrink(self, case):
        n = len(case["y"])
        if n > 2:
            for i in range(n):
                c = {**case, "y": case["y"][:i] + case["y"][i + 1:], "z": case["z"][:i] + case["z"][i + 1:]}
                if case["w"] is not None:
                    c["w"] = case["w"][:i] + case["w"][i + 1:]
                if "feature" in case:
                    c["feature"] = case["feature"][:i] + case["feature"][i + 1:]
                yield c


PROP = C17
