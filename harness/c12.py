"""C12 — isotonic regression output contract: blocks, purity and equivariances."""
from fractions import Fraction

import numpy as np

from . import iso_common as ic
from .core import Prop, close, exc_class

RELS = ["idem", "mono", "reverse", "affine", "wscale", "replicate", "containers"]


def _fit(y, w, inc, f, level):
    from model_diagnostics._utils.isotonic import isotonic_regression

    x, r = isotonic_regression(y, w, increasing=inc, functional=f, level=level)
    return [float(v) for v in x], [int(v) for v in r]


class C12(Prop):
    id = "C12"
    unique_answer = True
    rule = (
        "every case is fitted once (compared with the model on x and r, contract oracle on the implementation: length, range, "
        "r starts 0 / ends n / strictly increasing, constant inside blocks, adjacent blocks differ as floats in the fitted "
        "direction, inputs unmodified) and then once more under one metamorphic relation run on the implementation: idempotence, "
        "sorted input fixed, reversal with direction, positive affine map (dyadic a, b), weight rescaling, integer weights vs "
        "replication (mean, expectile), int64 / list / tuple containers with before/after comparison of the caller's objects. "
        "'own' = float64 arrays in both directions, the caller's y / weights read back against the store model isoMeanStore; 'gpava_direct' = gpava(fun, y, w) itself with the weighted mean / lower quantile (exact) / scipy's expectile against the model's array program; 'pava_direct' = pava(y, w) itself (also with w=None) on integer data for which floats are exact, against the model's in-place array program (x and r bit for bit). All four functionals, both directions, levels dyadic. Non-trivial = some pooling and non-constant y; distinct = distinct "
        "(functional, level, direction, y, w, relation)."
    )
    assumptions = ["float rounding outside the model; affine maps and weight factors are dyadic so that they are exact in floats"]

    def generate(self, tier, rng):
        L = 5354228880  # lcm(1..24): with integer weights summing to <= 24 every block mean is an integer below 2**53
        for k in range(300 if tier == "quick" else 6000):
            # pava() itself, called directly, against the in-place array program of the model (MD/Model/PavaArr.lean): exact
            n = rng.randint(1, 8)
            yield {"stream": "pava_direct", "f": "mean", "level": "1/2", "inc": True,
                   "y": [str(rng.randint(-2, 4) * L) for _ in range(n)],
                   "w": None if rng.random() < 0.3 else [str(rng.randint(1, 3)) for _ in range(n)]}
        for k in range(200 if tier == "quick" else 4000):
            # ownership: float64 arrays (the dtype for which a no-copy astype would hand back the caller's own object), both
            # directions; the caller's y / weights read back after the call against the store model (isoMeanStore)
            n = rng.randint(1, 8)
            yield {"stream": "own", "f": "mean", "level": "1/2", "inc": rng.random() < 0.5,
                   "y": [str(rng.randint(-2, 4) * L) for _ in range(n)], "w": [str(rng.randint(1, 3)) for _ in range(n)]}
        for k in range(300 if tier == "quick" else 6000):
            # gpava(fun, y, w) itself, called directly, against the model's in-place array program (MD/Model/GpavaArr.lean):
            # weighted mean and lower quantile exactly (integer data), expectile (scipy's root finder) with tolerance
            n = rng.randint(1, 9)
            g = rng.choice(["mean", "qlower", "qlower", "expectile"])
            yield {"stream": "gpava_direct", "f": "mean", "g": g, "level": rng.choice(["1/2", "1/4", "3/4", "1/8"]), "inc": True,
                   "y": [str(rng.randint(-2, 4) * L) for _ in range(n)],
                   "w": None if g == "qlower" else [str(rng.randint(1, 3)) for _ in range(n)]}
        for k in range(250 if tier == "quick" else 2500):
            # narrow / unsigned / boolean observation dtypes (long violating runs -> large pooled weights), all functionals
            f = rng.choice(["mean", "mean", "quantile", "median", "expectile"])
            lv = rng.choice(ic.DYADIC_LEVELS[:9])
            c = ic.gen_dtype_case(rng, f, lv)
            if f == "mean" and rng.random() < 0.3 and c["ydtype"] in ("int8", "uint8", "bool"):
                n = rng.choice([140, 300])  # a pooled block of more than 127 / 255 observations
                c["y"] = [str(v) for v in sorted([rng.randint(0, 1) for _ in range(n)], reverse=True)]
                c["w"] = None
                c["wdtype"] = None
            if f == "quantile" and ic.float_rank_divergent(lv, len(c["y"])):
                continue
            c["stream"] = "dtype"
            yield c
        N = 1500 if tier == "quick" else 12000
        for k in range(N):
            f = rng.choice(["mean", "mean", "quantile", "median", "expectile"])
            n = rng.choice([1, 2, 3, 4, 6, 9, 15, 30]) if rng.random() < 0.9 else rng.randint(31, 150)
            lv = rng.choice(ic.DYADIC_LEVELS[:9])  # also for mean / median, where it is documented to be neglected
            w = None if f in ("quantile", "median") else ic.gen_w(rng, n)
            rel = RELS[k % len(RELS)]
            if rel == "replicate":
                if f in ("quantile", "median"):
                    rel = "idem"
                else:
                    w = [str(rng.randint(1, 3)) for _ in range(n)]
            if rel == "wscale" and w is None:
                rel = "reverse"
            c = {
                "stream": rel,
                "f": f,
                "level": lv,
                "inc": rng.random() < 0.5,
                "y": ic.gen_y(rng, n, rng.choice(["small", "digits", "dyadic", "neg", "tiny"])),
                "w": w,
            }
            if rel == "affine":
                c["a"] = str(rng.choice([Fraction(1, 4), Fraction(1, 2), 2, 3, 8]))
                c["b"] = str(rng.choice([-16, -1, 0, Fraction(1, 2), 5, 1024]))
                if ic.data_scale(c) < 1e-6:
                    c["b"] = "0"  # a shift would swallow small-unit data in floating point: not the code's doing
            if rel == "wscale":
                c["c"] = str(rng.choice([Fraction(1, 8), Fraction(1, 2), 2, 4, 1024, Fraction(1, 2**30), Fraction(1, 2**40), 2**30]))
            if rel == "containers":
                c["y"] = [str(rng.randint(-5, 9)) for _ in range(n)]  # integers: also passed as int64 / list
                if w is not None:
                    c["w"] = [str(rng.randint(1, 4)) for _ in range(n)]
            if f == "quantile" and ic.float_rank_divergent(lv, n * (3 if rel == "replicate" else 1)):
                continue
            yield c

    direct_skipped = 0

    def extra_coverage(self):
        return {"direct_calls_skipped": C12.direct_skipped}

    def impl_pava(self, case):
        try:
            from model_diagnostics._utils.isotonic import pava
        except ImportError as e:
            C12.direct_skipped += 1
            return {"skip": str(e)[:120]}

        y = np.array([float(Fraction(v)) for v in case["y"]])
        w = None if case["w"] is None else np.array([float(Fraction(v)) for v in case["w"]])
        y0, w0 = y.copy(), None if w is None else w.copy()
        try:
            x, r = pava(y, w)
        except Exception as e:
            # pava is an internal helper: if it cannot be called like this any more, the stream is skipped (and counted);
            # the property is decided through isotonic_regression by the other streams
            C12.direct_skipped += 1
            return {"skip": exc_class(e) + ": " + str(e)[:120]}
        return {"x": [float(v) for v in x], "r": [int(v) for v in r],
                "unchanged": bool(np.array_equal(y, y0) and (w is None or np.array_equal(w, w0)))}

    def impl_gpava(self, case):
        from functools import partial

        try:
            from model_diagnostics._utils.isotonic import gpava, quantile_lower
        except ImportError as e:
            C12.direct_skipped += 1
            return {"skip": str(e)[:120]}

        y = np.array([float(Fraction(v)) for v in case["y"]])
        w = None if case["w"] is None else np.array([float(Fraction(v)) for v in case["w"]])
        lv = float(Fraction(case["level"]))
        if case["g"] == "mean":
            fun = lambda x, wx: np.average(x, weights=wx)
        elif case["g"] == "qlower":
            fun = lambda x, wx: quantile_lower(x, level=lv)
        else:
            from scipy.stats import expectile

            fun = lambda x, wx: expectile(x, alpha=lv, weights=wx)
        y0, w0 = y.copy(), None if w is None else w.copy()
        try:
            x, r = gpava(fun, y, w)
        except Exception as e:
            C12.direct_skipped += 1
            return {"skip": exc_class(e) + ": " + str(e)[:120]}
        return {"x": [float(v) for v in x], "r": [int(v) for v in r],
                "unchanged": bool(np.array_equal(y, y0) and (w is None or np.array_equal(w, w0)))}

    def impl_own(self, case):
        from model_diagnostics._utils.isotonic import isotonic_regression

        y = np.array([float(Fraction(v)) for v in case["y"]])
        w = np.array([float(Fraction(v)) for v in case["w"]])
        try:
            x, r = isotonic_regression(y, w, increasing=case["inc"], functional="mean")
        except Exception as e:
            return {"err": exc_class(e), "msg": str(e)[:200]}
        return {"x": [float(v) for v in x], "r": [int(v) for v in r], "y_after": [float(v) for v in y], "w_after": [float(v) for v in w],
                "mutated": False}

    def impl(self, case):
        if case["stream"] == "own":
            return self.impl_own(case)
        if case["stream"] == "pava_direct":
            return self.impl_pava(case)
        if case["stream"] == "gpava_direct":
            return self.impl_gpava(case)
        base = ic.call_iso(case)
        if "err" in base:
            return base
        y = np.array([float(Fraction(v)) for v in case["y"]])
        w = None if case.get("w") is None else np.array([float(Fraction(v)) for v in case["w"]])
        f, lv, inc = case["f"], ic.level_float(case["level"]), case["inc"]
        rel = case["stream"]
        out = dict(base)
        if rel == "dtype":
            return out
        try:
            if rel == "idem":
                out["rel_x"], out["rel_r"] = _fit(np.array(base["x"]), w, inc, f, lv)
            elif rel == "mono":
                ys = np.sort(y) if inc else np.sort(y)[::-1]
                out["sorted_y"] = [float(v) for v in ys]
                out["rel_x"], out["rel_r"] = _fit(ys, w, inc, f, lv)
            elif rel == "reverse":
                out["rel_x"], out["rel_r"] = _fit(y[::-1].copy(), None if w is None else w[::-1].copy(), not inc, f, lv)
            elif rel == "affine":
                a, b = float(Fraction(case["a"])), float(Fraction(case["b"]))
                out["rel_x"], out["rel_r"] = _fit(a * y + b, w, inc, f, lv)
            elif rel == "wscale":
                c = float(Fraction(case["c"]))
                out["rel_x"], out["rel_r"] = _fit(y, c * w, inc, f, lv)
            elif rel == "replicate":
                reps = [int(v) for v in case["w"]]
                out["rel_x"], out["rel_r"] = _fit(np.repeat(y, reps), None, inc, f, lv)
            elif rel == "containers":
                res = {}
                yi = np.array([int(v) for v in case["y"]], dtype=np.int64)
                wi = None if w is None else np.array([int(v) for v in case["w"]], dtype=np.int64)
                yl = [int(v) for v in case["y"]]
                wl = None if w is None else [int(v) for v in case["w"]]
                yt = tuple(float(v) for v in yl)
                for name, (yy, ww) in {"int64": (yi, wi), "list": (yl, wl), "tuple": (yt, None if wl is None else tuple(wl))}.items():
                    y_before = yy.copy() if hasattr(yy, "copy") else type(yy)(yy)
                    w_before = None if ww is None else (ww.copy() if hasattr(ww, "copy") else type(ww)(ww))
                    xx, rr = _fit(yy, ww, inc, f, lv)
                    same = (list(yy) == list(y_before)) and (ww is None or list(ww) == list(w_before))
                    if isinstance(yy, np.ndarray):
                        same = same and yy.dtype == np.int64
                    res[name] = {"x": xx, "r": rr, "unchanged": bool(same)}
                out["containers"] = res
        except Exception as e:
            out["rel_err"] = exc_class(e) + ": " + str(e)[:200]
        return out

    def model_request(self, case):
        if case["stream"] == "pava_direct":
            return {"op": "pava_arr", "y": case["y"], "w": case["w"] or ["1"] * len(case["y"])}
        if case["stream"] == "own":
            return {"op": "iso_own", "y": case["y"], "w": case["w"], "inc": case["inc"]}
        if case["stream"] == "gpava_direct":
            return {"op": "gpava_arr", "f": case["g"], "level": case["level"], "y": case["y"], "w": case["w"] or ["1"] * len(case["y"])}
        return ic.iso_request(case)

    def compare(self, case, io, mo):
        if "skip" in io:
            return None
        if case["stream"] == "own":
            if "err" in io:
                return f"valid input rejected with {io['err']}: {io.get('msg')}"
            for key, what in (("y_after", "y"), ("w_after", "weights")):
                if [Fraction(v) for v in io[key]] != [Fraction(v) for v in mo[key]]:
                    return f"the caller's {what} after the call: {io[key]}, model (ownership) {[float(Fraction(v)) for v in mo[key]]}"
            return ic.compare_xr(io, mo, exact=True)
        if case["stream"] == "gpava_direct":
            if case["g"] == "expectile":
                return ic.compare_xr(io, mo, exact=False, tol=1e-7, scale=ic.data_scale(case), ylocal=case["y"])
            return ic.compare_xr(io, mo, exact=True)
        if case["stream"] == "pava_direct":
            if [Fraction(v) for v in io["x"]] != [Fraction(v) for v in mo["x"]]:
                return f"pava: x = {io['x']}, array program of the model {[float(Fraction(v)) for v in mo['x']]}"
            if io["r"] != mo["r"]:
                return f"pava: r = {io['r']}, array program of the model {mo['r']}"
            return None
        return ic.compare_xr(io, mo, exact=False, tol=1e-7 if case["f"] == "expectile" else 1e-9, scale=ic.data_scale(case), ylocal=case["y"])

    def oracle(self, case, io):
        if "skip" in io:
            return None
        if "err" in io:
            return f"valid input rejected with {io['err']}"
        if case["stream"] == "own":
            if io["y_after"] != [float(Fraction(v)) for v in case["y"]] or io["w_after"] != [float(Fraction(v)) for v in case["w"]]:
                return "isotonic_regression modified its input arrays"
            return ic.contract_oracle(case, io, 1e-9)
        if case["stream"] in ("pava_direct", "gpava_direct"):
            if not io["unchanged"]:
                return "pava / gpava modified its input arrays"
            return ic.contract_oracle(case, io, 1e-7 if case.get("g") == "expectile" else 1e-9)
        tol = 1e-7 if case["f"] == "expectile" else 1e-9
        c = ic.contract_oracle(case, io, tol)
        if c:
            return c
        if "rel_err" in io:
            return f"transformed call raised {io['rel_err']}"
        rel = case["stream"]
        x, r = io["x"], io["r"]
        if rel == "dtype":
            return None

        def same(xa, xb, what):
            if len(xa) != len(xb):
                return f"{what}: lengths {len(xa)} vs {len(xb)}"
            for i, (u, v) in enumerate(zip(xa, xb)):
                if not close(u, v, tol, tol * ic.data_scale(case) * (abs(float(Fraction(case.get("a", 1)))) if rel == "affine" else 1.0) + (0 if rel != "affine" else tol * abs(float(Fraction(case.get("b", 0)))))):
                    return f"{what}: position {i}: {u!r} vs {v!r}"
            return None

        def same_r(ra, xa, rb, xb, what):
            # near-equal neighbours are merged on both sides; "near" is relative to the block values or to the magnitude of the
            # observations in the blocks (a value that is exactly 0 comes out of a root finder as 1e-16 times the data)
            if len(xa) == len(xb):
                loc = ic.local_scales([Fraction(v) for v in xb], case["y"] if rel != "reverse" else case["y"][::-1]) if len(xb) == len(case["y"]) else None
                if loc is not None and rel == "affine":
                    loc = [abs(float(Fraction(case["a"]))) * v + abs(float(Fraction(case["b"]))) for v in loc]
            else:
                loc = None
            if ic.merge_near(xa, ra, 1e-6, loc) != ic.merge_near(xb, rb, 1e-6, loc):
                return f"{what}: block vectors differ: {ra} vs {rb}"
            return None

        if rel == "idem":
            return same(io["rel_x"], x, "refitting the fit changed it") or same_r(io["rel_r"], io["rel_x"], r, x, "refit")
        if rel == "mono":
            return same(io["rel_x"], io["sorted_y"], "already-monotone input was changed")
        if rel == "reverse":
            n = len(x)
            return same(io["rel_x"], x[::-1], "reversing data and direction does not mirror the fit") or same_r(
                io["rel_r"], io["rel_x"], [n - v for v in r[::-1]], x[::-1], "reversed block vector")
        if rel == "affine":
            a, b = float(Fraction(case["a"])), float(Fraction(case["b"]))
            # blocks are compared after merging neighbours whose MAPPED values agree to 1e-6 (relative): a shift can make two
            # block values that differ by 1e-17 (a huge case weight next to small ones) the same double
            xa = [a * v + b for v in x]
            return same(io["rel_x"], xa, "positive affine map does not commute") or same_r(
                io["rel_r"], io["rel_x"], r, xa, "affine")
        if rel == "wscale":
            return same(io["rel_x"], x, "rescaling all weights changed the fit") or same_r(io["rel_r"], io["rel_x"], r, x, "wscale")
        if rel == "replicate":
            reps = [int(v) for v in case["w"]]
            rep_x = [v for v, k in zip(x, reps) for _ in range(k)]
            return same(io["rel_x"], rep_x, "integer weights differ from repeated observations")
        if rel == "containers":
            for name, res in io["containers"].items():
                if not res["unchanged"]:
                    return f"caller's {name} input was modified"
                e = same(res["x"], x, f"{name} input gives a different fit") or (None if res["r"] == r else f"{name} input gives block vector {res['r']} vs {r}")
                if e:
                    return e
        return None

    def nontrivial(self, case, io):
        return "x" in io and len(io["r"]) - 1 < len(case["y"]) and len(set(case["y"])) > 1

    def shrink(self, case):
        for c in ic.shrink_iso(case):
            yield c


PROP = C12
