"""Change-triggered escalation (DESIGN 2.4): /verif/anchors.json records, per source file of the library, a hash of its
syntax tree (comments and layout do not count) as of the last time the models were validated against it, and per property
the files its behaviour depends on (the property's anchor files plus everything they import from the package). A check
whose files hash differently today runs its correspondence on further seeds in the quick tier - more inputs exactly where
the code moved. A changed hash is never by itself a disagreement, and nothing is written at run time."""
from __future__ import annotations

import ast
import hashlib
import json
from pathlib import Path

VERIF = Path(__file__).resolve().parent.parent
PKG = "model_diagnostics"


def file_hash(path: Path) -> str:
    try:
        tree = ast.parse(path.read_text())
    except SyntaxError:
        return "syntax-error"
    # docstrings do not count either
    for node in ast.walk(tree):
        if isinstance(node, (ast.FunctionDef, ast.ClassDef, ast.AsyncFunctionDef, ast.Module)):
            b = node.body
            if b and isinstance(b[0], ast.Expr) and isinstance(getattr(b[0], "value", None), ast.Constant) and isinstance(b[0].value.value, str):
                node.body = b[1:] or [ast.Pass()]
    return hashlib.sha256(ast.dump(tree).encode()).hexdigest()[:20]


def source_files(repo: Path) -> list[Path]:
    root = repo / "src" / PKG
    return sorted(p for p in root.rglob("*.py") if "tests" not in p.parts)


def imports_of(path: Path, repo: Path) -> set[str]:
    """package-internal modules a file imports, as paths relative to the repository"""
    out = set()
    try:
        tree = ast.parse(path.read_text())
    except SyntaxError:
        return out
    root = repo / "src"
    for node in ast.walk(tree):
        mods = []
        if isinstance(node, ast.ImportFrom) and node.module and node.level == 0:
            mods = [node.module] + [node.module + "." + a.name for a in node.names]
        elif isinstance(node, ast.ImportFrom) and node.level > 0:
            base = path.parent
            for _ in range(node.level - 1):
                base = base.parent
            rel = base.relative_to(root).as_posix().replace("/", ".")
            m = rel + ("." + node.module if node.module else "")
            mods = [m] + [m + "." + a.name for a in node.names]
        elif isinstance(node, ast.Import):
            mods = [a.name for a in node.names]
        for m in mods:
            if not m.startswith(PKG):
                continue
            f = root / (m.replace(".", "/") + ".py")
            g = root / m.replace(".", "/") / "__init__.py"
            for c in (f, g):
                if c.exists():
                    out.add(c.relative_to(repo).as_posix())
    return out


def closure(files: list[str], repo: Path) -> list[str]:
    seen, todo = set(), list(files)
    while todo:
        f = todo.pop()
        if f in seen or not (repo / f).exists():
            continue
        seen.add(f)
        todo.extend(imports_of(repo / f, repo))
    return sorted(seen)


def snapshot(repo: Path) -> dict:
    props = {}
    for line in open(VERIF / "properties.jsonl"):
        p = json.loads(line)
        deps = closure(p["anchors"]["files"], repo)
        if p["id"] not in ("C15", "C18", "C19", "C20"):
            # the scoring module imports the calibration *package*, whose __init__ pulls in the plots and the configuration;
            # properties that do not draw anything do not depend on those
            deps = [f for f in deps if not f.endswith(("plots.py", "plot_helper.py", "_config.py", "__init__.py"))]
        props[p["id"]] = deps
    # plots call the statistics they draw; the decomposition and the tables call the isotonic / binning helpers: all of
    # that is in the import closure already
    return {
        "files": {f.relative_to(repo).as_posix(): file_hash(f) for f in source_files(repo)},
        "properties": props,
    }


def property_files(pid: str) -> list[str]:
    """the library files property `pid` depends on (anchor files + package-internal imports), from anchors.json"""
    f = VERIF / "anchors.json"
    if not f.exists():
        return []
    return list(json.loads(f.read_text())["properties"].get(pid, []))


def changed_files(pid: str, repo: Path) -> list[str]:
    """files property `pid` depends on whose syntax tree differs from the validated snapshot (or that are new / gone)"""
    f = VERIF / "anchors.json"
    if not f.exists():
        return []
    snap = json.loads(f.read_text())
    deps = set(snap["properties"].get(pid, []))
    # a file that appeared since (a helper split out of an anchored file) counts for every property
    now = {p.relative_to(repo).as_posix(): file_hash(p) for p in source_files(repo)}
    out = []
    for name, h in now.items():
        if name not in snap["files"]:
            out.append(name + " (new)")
        elif name in deps and snap["files"][name] != h:
            out.append(name)
    for name in deps:
        if name not in now:
            out.append(name + " (gone)")
    return sorted(out)


if __name__ == "__main__":
    import sys

    repo = Path(sys.argv[1] if len(sys.argv) > 1 else "/repo")
    (VERIF / "anchors.json").write_text(json.dumps(snapshot(repo), indent=1) + "\n")
    print("anchors.json written for", repo)
