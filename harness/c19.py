"""C19 — diagnostic plots draw exactly the statistics the library computes."""
import math
from fractions import Fraction

import numpy as np

from . import iso_common as ic
from . import table_common as tc
from .core import Prop, close, dec_list, enc, enc_list, exc_class, dec


def fresh_axes():
    import matplotlib

    matplotlib.use("Agg")
    import matplotlib.pyplot as plt

    # two axes: the one handed to the library is NOT pyplot's current axes
    fig, (ax, other) = plt.subplots(1, 2)
    plt.sca(other)
    fresh_axes.other = other
    return plt, fig, ax


def lines_of(ax):
    out = []
    for l in ax.get_lines():
        try:
            xs = [float(v) for v in np.asarray(l.get_xdata(), dtype=float)]
        except (TypeError, ValueError):
            xs = [str(v) for v in l.get_xdata()]
        out.append({"x": xs, "y": [float(v) for v in np.asarray(l.get_ydata(), dtype=float)],
                    "label": str(l.get_label()), "marker": str(l.get_marker()), "ls": str(l.get_linestyle())})
    return out


class C19(Prop):
    id = "C19"
    unique_answer = True
    rule = (
        "real plotting calls on a fresh matplotlib (Agg) Axes, Line2D data read back with get_lines(): 'reliability' = "
        "plot_reliability_diagram (1-3 model columns, weights, all functionals, both diagram types): the diagonal must run "
        "from the smallest to the largest prediction; per model, in column order, the curve is compared with the model (own "
        "isotonic model: thresholds exactly; mean: scikit-learn's thresholds may differ, so the clamped linear interpolation "
        "of the plotted points is compared at every training prediction), must be monotone, contain the smallest and largest "
        "prediction of its column and, for the bias variant, equal prediction minus fit; 'murphy' = plot_murphy_diagram with "
        "integer and explicit eta grids (eta on data values): each curve = the model's weighted average elementary score at "
        "each eta, >= 0, one line per column in order; 'bias' = plot_bias with confidence_level 0: the points are "
        "compute_bias's means at its feature values. Always: the returned object is the axes passed in and get_config() is "
        "unchanged. Non-trivial = several columns or ties in the predictions."
    )
    assumptions = ["matplotlib stores the data it is given; rendering is outside the model"]

    def generate(self, tier, rng):
        for n, etas in ([(3000, 100), (200, 1500)] if tier == "quick" else [(3000, 100), (200, 1500), (6000, 100), (50, 6000)]):
            # many observations / a very long threshold grid (any chunking of the computation must cover every eta)
            y = [rng.randint(0, 40) / 4 for _ in range(n)]
            cols = [[rng.randint(0, 40) / 4 for _ in range(n)]]
            yield {"stream": "murphy", "y": y, "cols": cols, "f": rng.choice(["mean", "quantile"]), "level": 0.25, "w": None,
                   "etas": etas if etas == 100 else [k * 10 / etas for k in range(etas + 1)]}
        # the backend / axes block: ax=None (pyplot's current axes), an Axes that is / is not current, something else;
        # also with an invalid further argument (nothing may be drawn then)
        for k in range(36 if tier == "quick" else 240):
            n = rng.randint(2, 8)
            yield {"stream": "axes", "fn": ["reliability", "murphy", "bias"][k % 3], "ax": ["none", "given", "current", "junk"][(k // 3) % 4],
                   "args_ok": (k // 12) % 3 != 2, "y": [rng.randint(-4, 12) / 2 for _ in range(n)],
                   "cols": [[rng.randint(-4, 12) / 2 for _ in range(n)] for _ in range(rng.randint(1, 2))],
                   "f": rng.choice(["mean", "quantile", "expectile"]), "level": rng.choice([0.5, 0.25]), "w": None,
                   "feature": [float(rng.randint(0, 5)) for _ in range(n)]}
        N = 350 if tier == "quick" else 6000
        for k in range(N):
            kind = ["reliability", "murphy", "bias"][k % 3]
            n = rng.randint(2, 14)
            nm = 1 if rng.random() < 0.6 else rng.randint(2, 3)
            if kind != "bias" and rng.random() < 0.06:
                nm = 11  # unnamed numpy columns: the labels "10" and "2" do not sort like the positions
            y = [rng.randint(-4, 12) / 2 for _ in range(n)]
            cols = [[rng.randint(-4, 12) / 2 for _ in range(n)] for _ in range(nm)]
            f = rng.choice(["mean", "mean", "median", "expectile", "quantile"])
            lv = rng.choice([0.5, 0.25, 0.75, 0.125])
            w = None if rng.random() < 0.5 else [rng.choice([1.0, 2.0, 0.5, 3.0]) for _ in range(n)]
            c = {"stream": kind, "y": y, "cols": cols, "f": f, "level": lv, "w": w}
            if kind != "bias" and 2 <= nm <= 3 and rng.random() < 0.5:
                from .decomp_common import gen_colnames

                c["colnames"] = gen_colnames(rng, nm)  # a polars frame whose column names are NOT in sorted order
            if kind != "bias" and rng.random() < 0.15:
                c["y2d"] = True  # observations as an (n, 1) matrix
            if nm == 1 and rng.random() < 0.15:
                c["pname"] = rng.choice(["glm", "model", "0"])  # a single named prediction vector (polars Series)
            if kind == "reliability":
                if f in ("median", "quantile"):
                    c["w"] = None
                    if ic.float_rank_divergent(repr(lv), n):
                        continue
                c["diagram_type"] = rng.choice(["reliability", "bias"])
            elif kind == "murphy":
                if rng.random() < 0.5:
                    c["etas"] = rng.randint(2, 9)
                else:
                    vals = sorted(set(y + cols[0]))
                    c["etas"] = sorted(set(rng.sample(vals, min(len(vals), rng.randint(1, 5))) + [rng.randint(-8, 24) / 4 for _ in range(2)]))
                    r_ = rng.random()
                    if r_ < 0.2:
                        c["etas"] = c["etas"][::-1]  # a descending grid
                    elif r_ < 0.35:
                        rng.shuffle(c["etas"])  # thresholds in the user's own order
                    elif r_ < 0.45 and len(c["etas"]) >= 2:
                        c["etas"] = c["etas"] + [c["etas"][0]]  # a repeated threshold
                if len(set(y + [v for col in cols for v in col])) < 2:
                    continue
                if rng.random() < 0.35:
                    # float32 predictions on a decimal grid, thresholds on the same decimals (not equal in double precision)
                    import numpy as _np

                    c["pdtype"] = "float32"
                    c["cols"] = [[float(_np.float32(rng.randint(0, 10) / 10)) for _ in range(n)] for _ in range(nm)]
                    c["y"] = [rng.randint(0, 10) / 10 for _ in range(n)]
                    c["etas"] = [k / 10 for k in range(11)]
            else:
                if rng.random() < 0.6:
                    kindf, vals = tc.gen_numeric_feature(rng, n, rng.choice(["float", "float_null", "int", "few"]))
                    c.update(fkind="numeric", kind=kindf, feature=vals)
                else:
                    dtype, vals, enum = tc.gen_string_feature(rng, n, rng.choice(["str", "cat"]))
                    if all(v is None for v in vals):
                        vals[0] = "a"
                    c.update(fkind="string", kind=dtype, feature=vals, enum=enum)
                if rng.random() < 0.12:
                    # no feature: the models are the x axis (also for a single 1-dimensional prediction vector)
                    c.update(fkind="none", kind="none", feature=None)
                    c.pop("enum", None)
                c["n_bins"] = rng.randint(2, 6)
                c["method"] = rng.choice(["quantile", "uniform", "sturges"])
                if rng.random() < 0.3 and c["fkind"] != "none":
                    c["fname"] = rng.choice(["model", "model_"])  # named like the library's own model columns
            yield c

    def impl_axes(self, case):
        """ax=None / given / current / junk: which object comes back, where the artists are, what happens to the configuration"""
        import matplotlib

        matplotlib.use("Agg")
        import matplotlib.pyplot as plt
        from model_diagnostics import get_config

        def artists(a):
            return len(a.get_lines()) + len(a.collections) + len(a.patches) + len(a.texts)

        y = np.array(case["y"])
        P = np.array(case["cols"])
        P = P[0] if P.shape[0] == 1 else P.T
        fig, (given, current) = plt.subplots(1, 2)
        plt.sca(current)
        ax = {"none": None, "given": given, "current": current, "junk": "junk"}[case["ax"]]
        cfg0 = get_config()
        ok = case["args_ok"]
        try:
            if case["fn"] == "reliability":
                from model_diagnostics.calibration import plot_reliability_diagram

                r = plot_reliability_diagram(y, P, functional=case["f"], level=case["level"], diagram_type="reliability" if ok else "bar", ax=ax)
            elif case["fn"] == "murphy":
                from model_diagnostics.scoring import plot_murphy_diagram

                r = plot_murphy_diagram(y, P, etas=5, functional=case["f"] if ok else "mode", level=case["level"], ax=ax)
            else:
                from model_diagnostics.calibration import plot_bias

                r = plot_bias(y, P, feature=np.array(case["feature"]), functional=case["f"] if ok else "mode", level=case["level"],
                              n_bins=3, bin_method="uniform", confidence_level=0, ax=ax)
            out = {"out": "ok", "returned": "mpl:1" if r is given else "mpl:0" if r is current else "other:" + type(r).__name__}
        except Exception as e:
            out = {"out": exc_class(e), "returned": None, "msg": str(e)[:200]}
        finally:
            out["on_given"], out["on_current"] = artists(given), artists(current)
            out["figures"] = len(plt.get_fignums())
            out["cfg_after"] = get_config()["plot_backend"]
            out["config_same"] = get_config() == cfg0
            plt.close(fig)
            for extra in plt.get_fignums():
                plt.close(extra)
        return out

    def impl(self, case):
        from model_diagnostics import get_config

        if case["stream"] == "axes":
            return self.impl_axes(case)
        y = np.array(case["y"])
        P = np.array(case["cols"])
        if case.get("pdtype"):
            P = P.astype(case["pdtype"])
        P = P[0] if P.shape[0] == 1 else P.T
        if case.get("y2d"):
            y = y.reshape(-1, 1)
        if case.get("pname"):
            import polars as pl

            P = pl.Series(case["pname"], P)
        if case.get("colnames") and len(case["colnames"]) == len(case["cols"]) and case["stream"] != "bias":
            import polars as pl

            P = pl.DataFrame({nm_: [float(v) for v in col] for nm_, col in zip(case["colnames"], case["cols"])})
            if case.get("pdtype"):
                P = P.cast(pl.Float32)
        w = None if case["w"] is None else np.array(case["w"])
        plt, fig, ax = fresh_axes()
        cfg0 = get_config()
        try:
            if case["stream"] == "reliability":
                from model_diagnostics.calibration import plot_reliability_diagram

                r = plot_reliability_diagram(y, P, w, functional=case["f"], level=case["level"], diagram_type=case["diagram_type"], ax=ax)
            elif case["stream"] == "murphy":
                from model_diagnostics.scoring import plot_murphy_diagram

                r = plot_murphy_diagram(y, P, w, etas=case["etas"] if isinstance(case["etas"], int) else np.array(case["etas"]),
                                        functional=case["f"], level=case["level"], ax=ax)
            else:
                from model_diagnostics.calibration import compute_bias, plot_bias
                from .c09 import feature_series

                feat = feature_series(case) if case["fkind"] != "none" else None
                r = plot_bias(y, P, feature=feat, weights=w, functional=case["f"], level=case["level"], n_bins=case["n_bins"],
                              bin_method=case["method"], confidence_level=0, ax=ax)
            out = {"lines": lines_of(ax), "same_axes": r is ax, "config_same": get_config() == cfg0,
                   "elsewhere": len(fresh_axes.other.get_lines()) + len(fresh_axes.other.collections)}
            if case["stream"] == "bias":
                df = compute_bias(y, P, feature=feat, weights=w, functional=case["f"], level=case["level"], n_bins=case["n_bins"], bin_method=case["method"])
                fname = case.get("fname", "f")
                out["table"] = [{"model": r.get("model_" if fname == "model" else "model"), "f": r.get(fname), "mean": r["bias_mean"]} for r in df.iter_rows(named=True)]
        except Exception as e:
            out = {"err": exc_class(e), "msg": str(e)[:200]}
        finally:
            plt.close(fig)
        return out

    def etas(self, case):
        if isinstance(case["etas"], int):
            allv = case["y"] + [v for col in case["cols"] for v in col]
            return [float(v) for v in np.linspace(min(allv), max(allv), num=case["etas"], endpoint=True)]
        return [float(v) for v in case["etas"]]

    def model_request_io(self, case, io):
        if case["stream"] == "axes":
            # the number of artists is a parameter of the model (Ax.plot): the model says where they are
            return {"op": "axes", "cfg": "mpl", "ax": case["ax"], "args_ok": case["args_ok"], "k": io.get("on_given", 0) + io.get("on_current", 0)}
        return self.model_request(case)

    def model_request(self, case):
        base = {"f": case["f"], "level": enc(Fraction(case["level"])), "y": enc_list(Fraction(v) for v in case["y"]),
                "cols": [enc_list(Fraction(v) for v in col) for col in case["cols"]],
                "w": None if case["w"] is None else enc_list(Fraction(v) for v in case["w"])}
        if case["stream"] == "reliability":
            return {"op": "reliability", "bias": case["diagram_type"] == "bias", **base}
        if case["stream"] == "murphy":
            return {"op": "murphy", "etas": enc_list(Fraction(v) for v in self.etas(case)), **base}
        if case["fkind"] == "none":
            return None
        # bias plot: the model's compute_bias table per prediction column (as C09 asks for it) with the points drawn from it
        from .c09 import C09

        return C09().model_request({**case, "preds": case["cols"]})

    def compare_bias(self, case, io, mos):
        """the plotted points against the model's biasPoints / biasNullPoint, model column by model column"""
        if "err" in io:
            return f"valid plotting call raised {io['err']}: {io.get('msg')}"
        lines = io["lines"]
        data = [l for l in lines[1:] if l["marker"] == "o"]
        diamonds = [l for l in lines[1:] if l["marker"] == "D"]
        if case["fkind"] == "numeric" and case["method"] == "quantile" and tc.quantile_rank_divergent(case["feature"], case["n_bins"]):
            return None  # np.nanquantile's float rank: outside the exact model
        if case["fkind"] == "numeric" and tc.uniform_edge_tie(case["method"], [None if v is None else float(v) for v in case["feature"]], mos[0]["rows"]):
            return None  # float edge arithmetic of 'uniform' is outside the model
        if len(data) != len(mos):
            return f"{len(data)} point sets vs model {len(mos)}"
        for m, (l, mo) in enumerate(zip(data, mos)):
            pts = mo["bias_points"]
            if case["fkind"] == "string":
                pts = sorted(pts, key=lambda p: p[0])  # the plot puts categories at integer positions in sorted label order
            want = [float(dec(p[2])) for p in pts]
            got = [v for x, v in zip(l["x"], l["y"]) if not (isinstance(x, float) and math.isnan(x))] if case["fkind"] == "numeric" else l["y"]
            tol = 1e-7 if case["f"] == "expectile" else 1e-9
            if len(got) != len(want) or any(not close(u, v, tol, tol) for u, v in zip(got, want)):
                return f"model column {m}: plotted bias points {got} vs model {want}"
            if case["fkind"] == "numeric" and case.get("kind") != "float32_nan":
                xs = [x for x in l["x"] if not math.isnan(x)]
                wx = [tc.cell_val(p[1]) for p in pts]
                if any(w is None or not close(u, w, 1e-9, 1e-9) for u, w in zip(xs, wx) if w is None or math.isfinite(w)):
                    return f"model column {m}: plotted positions {xs} vs model bin means {wx}"
            null = mo.get("bias_null")
            if null is not None:
                if m >= len(diamonds) or len(diamonds[m]["y"]) != 1 or not close(diamonds[m]["y"][0], float(dec(null)), tol, tol):
                    return f"model column {m}: null marker {diamonds[m]['y'] if m < len(diamonds) else None} vs model {float(dec(null))!r}"
        return None

    def compare_axes(self, case, io, mo):
        valid = case["ax"] != "junk" and case["args_ok"]
        # a rejected call: only the outcome and the configuration are the property's business (where a half-drawn diagram
        # would end up is not)
        for key in (("out", "returned", "on_given", "on_current", "cfg_after") if valid else ("out", "cfg_after")):
            if io[key] != mo[key]:
                return f"{case['fn']} with ax={case['ax']}, valid arguments={case['args_ok']}: {key} is {io[key]!r}, model {mo[key]!r} (implementation {io}, model {mo})"
        return None

    def compare(self, case, io, mo):
        if case["stream"] == "axes":
            return self.compare_axes(case, io, mo)
        if case["stream"] == "bias":
            return self.compare_bias(case, io, mo)
        if "err" in io or "err" in mo:
            if ("err" in io) != ("err" in mo):
                return f"outcome differs: implementation {io.get('err', 'ok')} ({io.get('msg', '')}) vs model {mo.get('err', 'ok')}"
            return None
        tol = 1e-7 if case["f"] == "expectile" else 1e-9
        lines = io["lines"]
        if case["stream"] == "reliability":
            curves = lines[1:] if case["diagram_type"] == "reliability" else lines
            if case["diagram_type"] == "reliability":
                d = mo["diag"]
                if [Fraction(v) for v in lines[0]["x"]] != dec_list(d["x"]) or [Fraction(v) for v in lines[0]["y"]] != dec_list(d["y"]):
                    return f"diagonal {lines[0]['x']}/{lines[0]['y']} vs model {d}"
            if len(curves) != len(mo["lines"]):
                return f"{len(curves)} curves vs model {len(mo['lines'])}"
            for k, (a, b) in enumerate(zip(curves, mo["lines"])):
                bx, by = [float(v) for v in dec_list(b["x"])], [float(v) for v in dec_list(b["y"])]
                if case["f"] in ("quantile", "median"):
                    if len(a["x"]) != len(bx) or any(not close(u, v, tol, tol) for u, v in zip(a["x"] + a["y"], bx + by)):
                        return f"curve {k}: plotted {a['x']}/{a['y']} vs model {bx}/{by}"
                else:
                    # scikit-learn (mean) keeps different thresholds and scipy's root finder (expectile) can split a block
                    # at a float tie: compare the functions at the training predictions
                    for p in case["cols"][k]:
                        u, v = float(np.interp(p, a["x"], a["y"])), float(np.interp(p, bx, by))
                        if not close(u, v, tol, tol):
                            return f"curve {k}: value at prediction {p}: {u!r} vs model {v!r}"
            return None
        if case["stream"] == "murphy":
            if len(lines) != len(mo["lines"]):
                return f"{len(lines)} curves vs model {len(mo['lines'])}"
            for k, (a, b) in enumerate(zip(lines, mo["lines"])):
                bx, by = [float(v) for v in dec_list(b["x"])], [float(v) for v in dec_list(b["y"])]
                if len(a["x"]) != len(bx) or any(not close(u, v, 1e-12, 1e-12) for u, v in zip(a["x"], bx)):
                    return f"curve {k}: eta grid {a['x']} vs {bx}"
                for e, u, v in zip(bx, a["y"], by):
                    if not close(u, v, 1e-9, 1e-9):
                        return f"curve {k}: average elementary score at eta={e}: {u!r} vs model {v!r}"
        return None

    def oracle_axes(self, case, io):
        if not io["config_same"]:
            return "get_config() changed during the call"
        valid = case["ax"] != "junk" and case["args_ok"]
        if not valid:
            if io["out"] == "ok":
                return "an invalid call returned normally"
            return None
        if io["out"] != "ok":
            return f"valid plotting call raised {io['out']}: {io.get('msg')}"
        want = "mpl:1" if case["ax"] == "given" else "mpl:0"
        if io["returned"] != want:
            return f"ax={case['ax']}: returned {io['returned']}, expected {want} (1 = the axes handed in, 0 = pyplot's current axes)"
        elsewhere = io["on_current"] if want == "mpl:1" else io["on_given"]
        here = io["on_given"] if want == "mpl:1" else io["on_current"]
        if elsewhere or not here:
            return f"ax={case['ax']}: {here} artist(s) on the returned axes, {elsewhere} on the other one"
        return None

    def oracle(self, case, io):
        if case["stream"] == "axes":
            return self.oracle_axes(case, io)
        if "err" in io:
            return f"valid plotting call raised {io['err']}: {io.get('msg')}"
        if not io["same_axes"]:
            return "the function did not return the axes it was given"
        if not io["config_same"]:
            return "get_config() changed during the call"
        if io.get("elsewhere"):
            return f"{io['elsewhere']} artist(s) were drawn on another axes than the one given"
        lines = io["lines"]
        nm = len(case["cols"])
        if case["stream"] == "reliability":
            allp = [v for col in case["cols"] for v in col]
            if case["diagram_type"] == "reliability":
                if lines[0]["x"] != [min(allp), max(allp)] or lines[0]["y"] != [min(allp), max(allp)]:
                    return f"diagonal is {lines[0]['x']}/{lines[0]['y']}, expected from {min(allp)} to {max(allp)}"
                curves = lines[1:]
            else:
                curves = lines
            if len(curves) != nm:
                return f"{len(curves)} curves for {nm} models"
            for k, c in enumerate(curves):
                col = case["cols"][k]
                if min(c["x"]) != min(col) or max(c["x"]) != max(col):
                    return f"curve {k} spans {min(c['x'])}..{max(c['x'])}, predictions of that column span {min(col)}..{max(col)}"
                fit = c["y"] if case["diagram_type"] == "reliability" else [x - v for x, v in zip(c["x"], c["y"])]
                if any(b < a - 1e-9 for a, b in zip(fit, fit[1:])) or any(b < a for a, b in zip(c["x"], c["x"][1:])):
                    return f"curve {k} is not a monotone function: x={c['x']} fit={fit}"
                want_label = case["colnames"][k] if case.get("colnames") else str(k)
                if nm >= 2 and c["label"] != want_label:
                    return f"curve {k} is labelled {c['label']!r}, the name of that column is {want_label!r}"
            return None
        if case["stream"] == "murphy":
            if len(lines) != nm:
                return f"{len(lines)} curves for {nm} models"
            for k, c in enumerate(lines):
                want_label = case["colnames"][k] if case.get("colnames") else str(k)
                if nm >= 2 and c["label"] != want_label:
                    return f"Murphy curve {k} is labelled {c['label']!r}, the name of that column is {want_label!r}"
                if any(v < -1e-12 for v in c["y"]):
                    return f"Murphy curve {k} is negative: {min(c['y'])!r}"
            return None
        # bias plot: first line is the zero line; then per model the points
        data = [l for l in lines[1:] if l["marker"] == "o"]
        tab = io["table"]
        if case["fkind"] == "none":
            # one point per model, in model order
            want = [r["mean"] for r in tab]
            if len(data) != 1:
                return f"{len(data)} point sets, expected one (the models are the x axis)"
            if len(data[0]["y"]) != nm or any(abs(u - v) > 1e-12 for u, v in zip(data[0]["y"], want)):
                return f"plotted bias points {data[0]['y']} differ from compute_bias's means {want}"
            return None
        models = [None] if nm == 1 else [str(k) for k in range(nm)]
        # null group: one diamond per model at that model's own bias mean
        diamonds = [l for l in lines[1:] if l["marker"] == "D"]
        null_rows = [r for r in tab if r["f"] is None]
        if null_rows:
            if len(diamonds) != len(models):
                return f"{len(diamonds)} null markers for {len(models)} models"
            for m, l in zip(models, diamonds):
                want = [r["mean"] for r in null_rows if r["model"] == m]
                if len(l["y"]) != 1 or len(want) != 1 or abs(l["y"][0] - want[0]) > 1e-12:
                    return f"null marker of model {m} is drawn at {l['y']}, compute_bias's mean for the null group is {want}"
        elif diamonds:
            return "a null marker is drawn although the feature has no null values"
        if len(data) != len(models):
            return f"{len(data)} point sets for {len(models)} models"
        for m, l in zip(models, data):
            rows = [r for r in tab if r["model"] == m and r["f"] is not None]
            if case["fkind"] == "string":
                rows = sorted(rows, key=lambda r: r["f"])
            want = [r["mean"] for r in rows]
            got = [v for x, v in zip(l["x"], l["y"]) if not math.isnan(x)] if case["fkind"] == "numeric" else l["y"]
            if len(got) != len(want) or any(abs(u - v) > 1e-12 for u, v in zip(got, want)):
                return f"plotted bias points {got} differ from compute_bias's means {want}"
            if case["fkind"] == "numeric":
                xs = [x for x in l["x"] if not math.isnan(x)]
                if any(abs(u - float(r["f"])) > 1e-12 for u, r in zip(xs, rows)):
                    return f"plotted feature positions {xs} differ from compute_bias's feature values"
        return None

    def nontrivial(self, case, io):
        return len(case["cols"]) > 1 or any(len(set(c)) < len(c) for c in case["cols"])

    def shrink(self, case):
        if len(case["cols"]) > 1:
            yield {**case, "cols": case["cols"][:1]}


PROP = C19
