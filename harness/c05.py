"""C05 — consistency: the empirical functional minimises the average score."""
import math
from fractions import Fraction

from . import iso_common as ic
from . import score_common as sc
from .core import Prop, bits2f


def hash_int(case, g):
    import zlib

    return zlib.crc32(repr((case["kind"], case["h"], case["level"], case["y"], g)).encode())


def weighted_quantile_interval(ys, ws, a):
    W = sum(ws)
    srt = sorted(set(ys))
    lo = min(u for u in srt if sum(w for y, w in zip(ys, ws) if y <= u) >= a * W)
    hi = max(u for u in srt if sum(w for y, w in zip(ys, ws) if y < u) <= a * W)
    return lo, hi


class C05(Prop):
    id = "C05"
    unique_answer = True
    rule = (
        "a weighted sample in the score's domain (dyadic values, ties, zeros where allowed; weights none / integer / dyadic) and "
        "a grid of admissible constant forecasts containing every data value, the mid-points and the exact sample functional "
        "(weighted mean, weighted expectile, end points and middle of the weighted quantile interval, all computed in "
        "Fractions): the implementation's average score (`__call__` with weights) at the functional must be <= the one at every "
        "other grid constant (tolerance 1e-10 x magnitude). The average itself is compared with the Float model "
        "(`scoreMean` = weighted average of the per-observation model scores). All seven classes, degrees and levels as in C04. "
        "Non-trivial = non-constant sample and at least 3 admissible grid constants."
    )
    assumptions = ["np.average = sum(w*s)/sum(w); exact functional evaluated in Fractions then rounded to the nearest float"]

    def generate(self, tier, rng):
        N = 1200 if tier == "quick" else 20000
        for k in range(N):
            kind = rng.choice(["hes", "hes", "hqs", "hqs", "logloss", "squared_error", "poisson", "gamma", "pinball", "elementary", "elementary"])
            h = rng.choice(sc.HES_DEGREES if kind == "hes" else sc.HQS_DEGREES)
            lv = rng.choice(sc.LEVELS)
            if kind == "elementary":
                # ElementaryScore is a scoring function of the library too; eta on a data value in most cases
                n = rng.randint(1, 9)
                ys = [Fraction(rng.randint(-4, 6), rng.choice([1, 2])) for _ in range(n)]
                f = rng.choice(["mean", "median", "expectile", "quantile"])
                ws = None if rng.random() < 0.4 else [Fraction(rng.randint(1, 4)) for _ in range(n)]
                eta = rng.choice(ys) if rng.random() < 0.7 else Fraction(rng.randint(-9, 13), 2)
                c = {"stream": "sample", "kind": "elementary", "elem_f": f, "eta": str(eta), "h": 0.0, "level": rng.choice([0.5, 0.25, 0.75, 0.125]),
                     "y": [str(v) for v in ys], "w": None if ws is None else [str(v) for v in ws]}
                if rng.random() < 0.3:
                    # counts in an unsigned / narrow integer container and eta given as a Python int (as in the class docstring)
                    ys = [Fraction(rng.randint(0, 9)) for _ in range(n)]
                    c.update(y=[str(v) for v in ys], eta=str(rng.randint(1, 8)), edtype=rng.choice(["uint8", "uint32", "uint64", "int8"]))
                yield c
                continue
            fam, hh, lve = sc.effective(kind, h, lv)
            n = rng.randint(1, 9)
            if fam == "logloss":
                ys = [rng.choice([0, 1, 0, 1, Fraction(1, 2), Fraction(1, 4)]) for _ in range(n)]
            else:
                pos = not ((fam == "hes" and hh > 1) or (fam == "hqs" and (hh == 1 or (hh > 1 and hh % 2 == 1))))
                ys = []
                for _ in range(n):
                    v = Fraction(rng.randint(0 if pos else -8, 16), rng.choice([1, 2, 4]))
                    ys.append(v)
                if pos:
                    strict = not (fam == "hes" and 0 < hh <= 1)
                    ys = [v if v > 0 or not strict else Fraction(1, 2) for v in ys]
            ws = None if rng.random() < 0.35 else [Fraction(rng.randint(1, 5), rng.choice([1, 1, 2])) for _ in range(n)]
            c = {"stream": "sample", "kind": kind, "h": h, "level": lv, "y": [str(v) for v in ys], "w": None if ws is None else [str(v) for v in ws]}
            if rng.random() < 0.25:
                # plain Python lists, the prediction list refilled in place between the calls (a reused buffer)
                c["reuse"] = True
                yield c
                continue
            if fam != "logloss" and rng.random() < 0.2:
                # integer-typed observations (large enough for int32 / int64 powers to overflow) scored against float constants
                c["ydtype"] = rng.choice(["int32", "int64"])
                top = 3000 if c["ydtype"] == "int32" else 3_000_000
                c["y"] = [str(rng.randint(1, top)) for _ in range(n)]
                if float(h).is_integer():
                    c["h"] = int(h)
            yield c

    def grid_and_opt(self, case):
        ys = [Fraction(v) for v in case["y"]]
        ws = [Fraction(1)] * len(ys) if case.get("w") is None else [Fraction(v) for v in case["w"]]
        if case["kind"] == "elementary":
            f = case["elem_f"]
            fam, h, lv = {"mean": ("hes", 2.0, 0.5), "expectile": ("hes", 2.0, case["level"]), "median": ("hqs", 1.0, 0.5),
                          "quantile": ("hqs", 1.0, case["level"])}[f]
        else:
            fam, h, lv = sc.effective(case["kind"], float(case["h"]), case["level"])
        a = Fraction(lv)
        srt = sorted(set(ys))
        pts = set(srt) | {(u + v) / 2 for u, v in zip(srt, srt[1:])} | {srt[0] - 1, srt[-1] + 1, srt[0] - Fraction(1, 4), srt[-1] + Fraction(1, 4)}
        if fam == "hqs":
            lo, hi = weighted_quantile_interval(ys, ws, a)
            opt = [lo, hi, (lo + hi) / 2]
        elif fam == "hes" and lv != 0.5:
            opt = [ic.expectile(ys, ws, a)]
        else:
            opt = [ic.wmean(ys, ws)]
        pts |= set(opt)
        if case["kind"] == "elementary":
            e = Fraction(case["eta"])
            pts |= {e, e - Fraction(1, 2), e + Fraction(1, 2)}
            return [float(p) for p in sorted(pts)], [float(o) for o in opt]
        ymin = float(min(ys))
        grid = []
        if fam == "logloss":
            pts |= {Fraction(0), Fraction(1)}  # the certain forecasts: score +inf as soon as the sample holds the other class
        for p in sorted(pts):
            pf = float(p)
            if all(sc.in_domain(case["kind"], float(case["h"]), case["level"], float(y), pf) for y in ys) or (fam == "logloss" and pf in (0.0, 1.0)):
                grid.append(pf)
        return grid, [float(o) for o in opt]

    def impl(self, case):
        ys = [float(Fraction(v)) for v in case["y"]]
        ws = None if case.get("w") is None else [float(Fraction(v)) for v in case["w"]]
        grid, opt = self.grid_and_opt(case)
        out = {"grid": grid, "opt": opt, "m": []}
        if case["kind"] == "elementary":
            import numpy as np
            from model_diagnostics.scoring import ElementaryScore

            yarr = np.array(ys)
            if case.get("edtype"):
                yarr = np.array([int(v) for v in ys]).astype(case["edtype"])
                sf = ElementaryScore(eta=int(Fraction(case["eta"])), functional=case["elem_f"], level=case["level"])
                for g in grid:
                    out["m"].append(float(sf(yarr, np.full(len(ys), g), None if ws is None else np.array(ws))))
                return out
            if len(ys) % 2 == 0:
                # one scorer moved along a threshold grid: constructed at another eta, the public attribute re-assigned
                sf = ElementaryScore(eta=float(Fraction(case["eta"])) + 1.5, functional=case["elem_f"], level=case["level"])
                sf(np.array(ys), np.full(len(ys), grid[0]))
                sf.eta = float(Fraction(case["eta"]))
            else:
                sf = ElementaryScore(eta=float(Fraction(case["eta"])), functional=case["elem_f"], level=case["level"])
            for g in grid:
                out["m"].append(float(sf(np.array(ys), np.full(len(ys), g), None if ws is None else np.array(ws))))
            return out
        if case.get("reuse"):
            from .core import exc_class

            ybuf, zbuf, wbuf = list(ys), [0.0] * len(ys), None if ws is None else list(ws)
            try:
                sf = sc.make_sf(case["kind"], case["h"], case["level"])
                for g in grid:
                    zbuf[:] = [g] * len(ys)
                    out["m"].append(float(sf(ybuf, zbuf, wbuf)))
            except Exception as e:
                return {"err": exc_class(e), "at": g}
            return out
        for g in grid:
            if case.get("ydtype"):
                import numpy as np
                from .core import exc_class

                try:
                    sf = sc.make_sf(case["kind"], case["h"], case["level"])
                    r = {"mean": float(sf(np.array(ys).astype(case["ydtype"]), np.full(len(ys), g), None if ws is None else np.array(ws)))}
                except Exception as e:
                    r = {"err": exc_class(e)}
            elif float(g).is_integer() and abs(g) < 2**31 and (hash_int(case, g) % 3 == 0):
                # a whole-numbered constant forecast handed over in an integer container (observations stay floats)
                import numpy as np
                from .core import exc_class

                try:
                    sf = sc.make_sf(case["kind"], case["h"], case["level"])
                    zc = [np.full(len(ys), int(g)), [int(g)] * len(ys)][hash_int(case, g) % 2]
                    r = {"mean": float(sf(np.array(ys, dtype=float), zc, None if ws is None else np.array(ws)))}
                except Exception as e:
                    r = {"err": exc_class(e)}
            else:
                r = sc.call_score(case["kind"], case["h"], case["level"], ys, [g] * len(ys), ws)
            if "err" in r or "mean_err" in r:
                return {"err": r.get("err", r.get("mean_err")), "at": g}
            out["m"].append(r["mean"])
        return out

    def model_request(self, case):
        ys = [float(Fraction(v)) for v in case["y"]]
        ws = None if case.get("w") is None else [float(Fraction(v)) for v in case["w"]]
        grid, _ = self.grid_and_opt(case)
        if case["kind"] == "elementary":
            from .core import enc, enc_list

            return {"op": "murphy", "f": case["elem_f"], "level": enc(Fraction(case["level"])), "etas": [enc(Fraction(case["eta"]))],
                    "y": enc_list(Fraction(v) for v in case["y"]), "cols": [enc_list([Fraction(g)] * len(ys)) for g in grid],
                    "w": None if case.get("w") is None else enc_list(Fraction(v) for v in case["w"])}
        return [sc.score_request(case["kind"], float(case["h"]), case["level"], ys, [g] * len(ys), ws) for g in grid]

    def compare(self, case, io, mo):
        """C05 is about the ranking of constant forecasts, so the correspondence is on score differences
        relative to the first optimal constant (a forecast-independent offset is C04's business)."""
        if "err" in io:
            return f"admissible constant {io.get('at')} rejected with {io['err']}"
        ys = [float(Fraction(v)) for v in case["y"]]
        ms = []
        if case["kind"] == "elementary":
            if "lines" not in mo:
                return f"model rejects the call: {mo}"
            ms = [float(Fraction(l["y"][0])) for l in mo["lines"]]
            mo = []
        for g, m in zip(io["grid"], mo):
            if "mean" not in m:
                return f"model rejects constant {g}: {m}"
            ms.append(bits2f(m["mean"]))
        ref = next((i for i, g in enumerate(io["grid"]) if g in io["opt"]), 0)
        for i, g in enumerate(io["grid"]):
            a = io["m"][i] - io["m"][ref]
            b = ms[i] - ms[ref]
            if math.isinf(io["m"][i]) or math.isinf(ms[i]) or math.isnan(io["m"][i]) or math.isnan(ms[i]):
                if io["m"][i] == ms[i]:
                    continue
                return f"average score at constant {g}: {io['m'][i]!r}, model {ms[i]!r}"
            s = (max(abs(v) for v in ys) + abs(g) + 10.0) if case["kind"] == "elementary" else max(sc.scale(case["kind"], float(case["h"]), case["level"], y, c) for y in ys for c in (g, io["grid"][ref]))
            if not (abs(a - b) <= 1e-10 * s + 1e-9 * min(abs(a), abs(b))):
                return f"average score at constant {g} minus the one at {io['grid'][ref]}: {a!r}, model {b!r}"
        return None

    def oracle(self, case, io):
        if "err" in io:
            return f"admissible constant {io.get('at')} rejected with {io['err']}"
        ys = [float(Fraction(v)) for v in case["y"]]
        vals = dict(zip(io["grid"], io["m"]))
        for o in io["opt"]:
            if o not in vals:
                continue
            for g, v in vals.items():
                s = 20.0 if case["kind"] == "elementary" else max(sc.scale(case["kind"], float(case["h"]), case["level"], y, c) for y in ys for c in (g, o))
                if vals[o] > v + 1e-10 * s:
                    return (f"average score at the sample functional {o} is {vals[o]!r} but the constant {g} scores {v!r} "
                            f"({case['kind']} {case.get('elem_f', '')} eta={case.get('eta')} degree={case['h']} level={case['level']})")
        return None

    def nontrivial(self, case, io):
        return len(set(case["y"])) > 1 and len(io.get("grid", [])) >= 3

    def shrink(self, case):
        n = len(case["y"])
        if n > 1:
            for i in range(n):
                c = {**case, "y": case["y"][:i] + case["y"][i + 1:]}
                if case.get("w") is not None:
                    c["w"] = case["w"][:i] + case["w"][i + 1:]
                yield c
        if case.get("w") is not None:
            yield {**case, "w": None}


PROP = C05
