"""C09 — compute_bias reports the defined per-group statistics and conserves totals."""
import math
from fractions import Fraction

import numpy as np

from . import iso_common as ic
from . import table_common as tc
from .core import Prop, close, dec, enc, enc_list, exc_class

FUNCS = ["mean", "median", "expectile", "quantile"]


def ident_exact(f, a, y, z):
    ge = 1 if z >= y else 0
    if f == "mean":
        return z - y
    if f == "median":
        return ge - Fraction(1, 2)
    if f == "expectile":
        return 2 * abs(ge - a) * (z - y)
    return ge - a


def feature_series(case):
    if case["fkind"] == "none":
        return None
    if case["fkind"] == "numeric":
        vals = [None if v is None else (float(v) if isinstance(v, str) else v) for v in case["feature"]]
        s = tc.numeric_series(case["kind"], [None if v is None else (int(v) if case["kind"].startswith(("int", "uint")) else v) for v in vals])
    else:
        s = tc.string_series(case["kind"], case["feature"], case.get("enum"))
    return s.alias(case.get("fname", "f"))  # a feature may be called like the library's own 'model' column


def feature_container(case, feat):
    """the same float feature as a plain Python list (also one that starts with a numpy integer scalar and continues with
    non-integral floats): returns (feature object, column name in the output or None)"""
    fc = case.get("fcontainer")
    if not fc or feat is None or case["fkind"] != "numeric" or not feat.dtype.is_float() or case.get("fname"):
        return feat, None
    import polars as pl

    if feat.dtype != pl.Float64:
        return feat, None
    vals = feat.to_list()
    if fc == "list_npint_first":
        v0 = vals[0]
        if v0 is None or v0 != v0 or math.isinf(v0) or not float(v0).is_integer():
            return feat, None
        if not any(v is not None and v == v and not math.isinf(v) and not float(v).is_integer() for v in vals[1:]):
            return feat, None  # all whole numbers: polars would (rightly) build an integer column
        vals = [np.int64(int(v0))] + vals[1:]
    return vals, "feature"


def fvalues(case):
    return [None if v is None else (float(v) if isinstance(v, str) else v) for v in case["feature"]]


def call_bias(case, perm=None):
    import polars as pl
    from model_diagnostics.calibration import compute_bias

    y = np.array(case["y"], dtype=float)
    P = np.array(case["preds"], dtype=float)
    P = P[0] if P.shape[0] == 1 and not case.get("force_2d") else P.T
    w = None if case.get("w") is None else np.array(case["w"], dtype=float)
    feat = feature_series(case)
    if perm is not None:
        p = np.array(perm)
        y, P = y[p], P[p]
    if case.get("colnames") and len(case["preds"]) > 1:
        P = pl.DataFrame({nm: P[:, k] for k, nm in enumerate(case["colnames"])})
    if perm is not None:
        w = None if w is None else w[p]
        feat = None if feat is None else feat[p]
    if case.get("prior_feature") is not None and perm is None:
        # an earlier call in the same process on ANOTHER feature of the same dtype, length, minimum and maximum (nothing may be
        # remembered from it)
        try:
            compute_bias(y, P, feature=feature_series({**case, "feature": case["prior_feature"]}), weights=w, functional=case["f"],
                         level=case["level"], n_bins=case["n_bins"], bin_method=case["method"])
        except Exception:
            pass
    feat, listname = feature_container(case, feat)
    try:
        df = compute_bias(y, P, feature=feat, weights=w, functional=case["f"], level=case["level"], n_bins=case["n_bins"], bin_method=case["method"])
    except Exception as e:
        return {"err": exc_class(e), "msg": str(e)[:200]}
    rows = []
    fname = listname or case.get("fname", "f")
    mcol = "model_" if fname == "model" else "model"
    for r in df.iter_rows(named=True):
        fv = r.get(fname) if case["fkind"] != "none" else None
        if isinstance(fv, float) and math.isnan(fv):
            fv = "nan"
        rows.append({"model": r.get(mcol), "f": fv, "mean": r["bias_mean"], "count": r["bias_count"], "weights": r["bias_weights"],
                     "stderr": r["bias_stderr"], "p": r["p_value"]})
    return {"rows": rows, "columns": df.columns}


def pvalue(mean, stderr, count):
    from scipy import special

    if count > 1 and stderr == 0:
        return 0.0 if mean != 0 else None  # t = 0/0: the definition is silent (the library answers 0, scipy NaN); not compared
    if stderr > 0:
        return float(2 * special.stdtr(count - 1, -abs(mean / stderr)))
    return math.nan


def feq(a, b, tol=1e-9):
    if a is None or b is None:
        return a is None and b is None
    if isinstance(a, str) or isinstance(b, str):
        return a == b
    if math.isnan(a) or math.isnan(b):
        return math.isnan(a) and math.isnan(b)
    if math.isinf(a) or math.isinf(b):
        return a == b
    return abs(a - b) <= tol * max(1.0, abs(a), abs(b))


class C09(Prop):
    id = "C09"
    unique_answer = True
    rule = (
        "data sets: dyadic y / predictions (1-3 models, also as polars frame with column names not in sorted order, and 11 "
        "models where the default labels '10' < '2' sort differently), weights none / integer / dyadic, all four functionals, dyadic levels; "
        "feature none / numeric (None, NaN, +-inf, Int64, constant, all-null) / string, Categorical, Enum (names sorting after "
        "'other', nulls); all 10 bin methods; n_bins 2..12. The table is compared with the model row by row and in row order: "
        "feature value (bin mean or label), bias_mean, bias_count, bias_weights, bias_stderr = sqrt(model stderr^2), p_value = "
        "2*stdtr(count-1, -|mean|/stderr) evaluated with scipy on the model's numbers (NaN for count 1, 0 for stderr 0). Oracle "
        "on the implementation: counts sum to n, weights to the total, weight-averaged group biases = overall bias of the same "
        "call without feature, null group kept, every row = the definition evaluated in Fractions on the rows bin_feature "
        "assigns to the group, a row permutation and a repeated call give the same table. Non-trivial = at least 2 groups with "
        "count > 1 and non-constant weights or several models."
        "Later additions: exact-zero case weights, features named like the library's model columns, an earlier call on a sibling feature (same dtype, length, "
        "minimum, maximum) before the real call, narrow integer columns; the p-value is not compared where the t-statistic is 0/0; the permutation clause is "
        "skipped (and counted) where numpy's own bin rule depends on the row order (float32 columns). "
    )
    assumptions = ["scipy.special.stdtr and sqrt are trusted; polars group_by/over/sort are parameters exercised here"]

    def generate(self, tier, rng):
        N = 1200 if tier == "quick" else 20000
        for k in range(N):
            n = rng.choice([1, 2, 3, 5, 8, 13, 30]) if rng.random() < 0.85 else rng.randint(31, 100)
            nm = 1 if rng.random() < 0.6 else rng.choice([2, 3, 3, 11])
            y = [rng.randint(-8, 16) / 4 for _ in range(n)]
            preds = [[v if rng.random() < 0.2 else rng.randint(-8, 16) / 4 for v in y] for _ in range(nm)]
            offset = rng.random() < 0.08
            if offset:  # a huge common offset with a small spread: the variance must be computed stably
                y = [1e9 + rng.randint(-3, 3) for _ in range(n)]
                preds = [[0.0] * n for _ in range(nm)]
            w = None if rng.random() < 0.4 else [rng.choice([1.0, 2.0, 3.0, 0.5, 0.25]) for _ in range(n)]
            c = {"stream": "offset" if offset else "bias", "y": y, "preds": preds, "w": w, "f": "mean" if offset else rng.choice(FUNCS), "level": rng.choice([0.5, 0.25, 0.75, 0.125]),
                 "n_bins": rng.randint(2, 12), "method": rng.choice(tc.ALL_METHODS[:2] * 2 + tc.NUMPY_METHODS)}
            r = rng.random()
            if r < 0.15:
                c.update(fkind="none", kind="none", feature=None)
            elif r < 0.6:
                kind, vals = tc.gen_numeric_feature(rng, n, need_finite=True)
                vals = [None if v is None else ("nan" if isinstance(v, float) and math.isnan(v) else ("inf" if v == math.inf else ("-inf" if v == -math.inf else v))) for v in vals]
                c.update(fkind="numeric", kind=kind, feature=vals)
            else:
                dtype, vals, enum = tc.gen_string_feature(rng, n)
                c.update(fkind="string", kind=dtype, feature=vals, enum=enum)
            if c["w"] is not None and c["fkind"] != "none" and rng.random() < 0.3:
                c["w"] = tc.zero_some_weights(rng, c["feature"], c["w"])  # exposure 0 on some rows; every group keeps weight
            if c["fkind"] == "numeric" and rng.random() < 0.3:
                fin = [v for v in c["feature"] if isinstance(v, (int, float)) and not isinstance(v, bool) and math.isfinite(v)]
                if len(set(fin)) >= 3:
                    lo, hi = min(fin), max(fin)
                    keep = {c["feature"].index(lo), c["feature"].index(hi)}
                    integral = all(float(v).is_integer() for v in fin)
                    c["prior_feature"] = [v if (i in keep or not (isinstance(v, (int, float)) and not isinstance(v, bool) and math.isfinite(v)))
                                          else (rng.randint(int(lo), int(hi)) if integral else lo + (hi - lo) * rng.randint(0, 16) / 16)
                                          for i, v in enumerate(c["feature"])]
            p = list(range(n))
            rng.shuffle(p)
            c["perm"] = p
            from .decomp_common import gen_colnames

            c["colnames"] = gen_colnames(rng, nm) if 2 <= nm <= 3 else None
            if c["fkind"] == "numeric" and nm == 1 and rng.random() < 0.12:
                # named like one of compute_bias's internal columns: the statistics must still be those of the groups (the feature
                # column itself and the row order are not compared for these names: see DESIGN 10.8)
                c["fname"] = rng.choice(["weights", "bias"])
            elif c["fkind"] != "none" and rng.random() < 0.15:
                c["fname"] = rng.choice(["model", "model", "model_"])
            elif c["fkind"] == "numeric" and rng.random() < 0.3:
                # the float feature as a plain Python list, also one whose first element is a numpy integer scalar
                c["fcontainer"] = rng.choice(["list", "list_npint_first", "list_npint_first"])
                if (c["fcontainer"] == "list_npint_first" and isinstance(c["feature"][0], float) and math.isfinite(c["feature"][0])
                        and (c["w"] is None or all(v > 0 for v in c["w"]))):
                    # (not with zero weights: they were placed so that every group keeps a positive total, which moving a value breaks)
                    c["feature"] = [float(round(c["feature"][0]))] + c["feature"][1:]
            yield c

    def impl(self, case):
        out = call_bias(case)
        if "err" in out:
            return out
        out["again"] = call_bias(case).get("rows")
        out["perm"] = call_bias(case, case["perm"]).get("rows")
        if case["fkind"] != "none":
            out["overall"] = call_bias({**case, "fkind": "none"}).get("rows")
            # group membership from bin_feature itself
            import polars as pl
            from model_diagnostics._utils.binning import bin_feature

            with pl.StringCache():
                _, _, fb = bin_feature(feature_series(case), None, len(case["y"]), case["n_bins"], case["method"])
                out["bins"] = fb.get_column("bin").to_list()
        return out

    def model_request(self, case):
        reqs = []
        for pred in case["preds"]:
            r = {"op": "table", "w": enc_list(Fraction(v) for v in (case["w"] or [1.0] * len(case["y"]))), "ident_f": case["f"],
                 "level": enc(Fraction(case["level"])), "y": enc_list(Fraction(v) for v in case["y"]), "pred": enc_list(Fraction(v) for v in pred)}
            if case["fkind"] == "none":
                r["kind"] = "none"
            elif case["fkind"] == "numeric":
                r.update(kind="num", method=case["method"], n_bins=case["n_bins"], feature=[tc.cell_json(v) for v in fvalues(case)],
                         given=[enc(Fraction(v)) for v in tc.given_edges(case["method"], feature_series(case))])
            else:
                r.update(kind="str", n_bins=case["n_bins"], feature=case["feature"])
                if case.get("enum") is not None:
                    r["enum"] = case["enum"]
            reqs.append(r)
        return reqs

    def compare(self, case, io, mo):
        if "err" in io:
            return f"valid call rejected: {io['err']}: {io.get('msg')}"
        if case.get("fname") in ("weights", "bias"):
            return None  # row order / feature column are not defined for these names; the oracle matches rows to groups
        nm = len(case["preds"])
        per_model = len(io["rows"]) // nm
        if case["fkind"] == "numeric" and case["method"] == "quantile" and tc.quantile_rank_divergent(case["feature"], case["n_bins"]):
            self.float_rank_divergent = getattr(self, "float_rank_divergent", 0) + 1
            return None  # np.nanquantile's float rank picks a neighbouring order statistic: outside the exact model (counted)
        if case["fkind"] == "numeric" and tc.uniform_edge_tie(case["method"], fvalues(case), mo[0]["rows"]):
            self.edge_ties_skipped = getattr(self, "edge_ties_skipped", 0) + 1
            return None  # float edge arithmetic of 'uniform' is outside the model (counted)
        for m, mt in enumerate(mo):
            rows_i = io["rows"][m * per_model:(m + 1) * per_model]
            if len(rows_i) != len(mt["rows"]):
                return f"model {m}: {len(rows_i)} rows vs model {len(mt['rows'])}"
            for k, (a, b) in enumerate(zip(rows_i, mt["rows"])):
                want_label = (case.get("colnames") or [str(q) for q in range(nm)])[m]
                if nm > 1 and a["model"] != want_label:
                    return f"row {k}: model column {a['model']!r}, expected {want_label!r}"
                if case["fkind"] == "numeric":
                    fb = tc.cell_val(b["feat"])
                    fa = None if a["f"] is None else (math.nan if a["f"] == "nan" else float(a["f"]))
                    if b["key"] is None:
                        fb = None
                    elif fb is None:
                        fb = math.nan
                    if not feq(fa, fb, 1e-6 if case["kind"] == "float32_nan" else 1e-9):  # float32 columns: polars' mean is float32
                        return f"model {m} row {k}: feature value {a['f']!r} vs model {fb!r}"
                elif case["fkind"] == "string":
                    if a["f"] != b["key"]:
                        return f"model {m} row {k}: label {a['f']!r} vs model {b['key']!r}"
                mean, s2 = dec(b["stats"][0][0]), dec(b["stats"][0][1])
                if a["count"] != b["count"]:
                    return f"model {m} row {k}: count {a['count']} vs {b['count']}"
                if not feq(a["weights"], float(dec(b["weights"]))):
                    return f"model {m} row {k}: weights {a['weights']} vs {float(dec(b['weights']))}"
                if not feq(a["mean"], float(mean)):
                    return f"model {m} row {k}: bias_mean {a['mean']!r} vs {float(mean)!r}"
                se = math.sqrt(float(s2))
                if case["stream"] == "offset":
                    # (b - mean)^2 of values ~1e9 with spread ~3: the two-pass formula is good to ~1e-7 relative
                    if not feq(a["stderr"], se, 1e-5):
                        return f"model {m} row {k}: bias_stderr {a['stderr']!r} vs {se!r} (large common offset)"
                    continue
                if not (feq(a["stderr"], se) or abs(a["stderr"] - se) < 1e-12):
                    return f"model {m} row {k}: bias_stderr {a['stderr']!r} vs {se!r}"
                pm = pvalue(float(mean), se, b["count"])
                pa = a["p"]
                if pm is None:
                    continue
                if not (feq(pa, pm, 1e-6) or (not math.isnan(pa) and not math.isnan(pm) and abs(pa - pm) < 1e-9)):
                    # a stderr that is exactly 0 in exact arithmetic may be ~1e-17 in floats: then p ~ 0 on both sides
                    if not (se == 0 and a["stderr"] < 1e-12 and b["count"] > 1 and (pa < 1e-9 or float(mean) == 0)):
                        return f"model {m} row {k}: p_value {pa!r} vs {pm!r}"
        return None

    def oracle(self, case, io):
        if "err" in io:
            return f"valid call rejected: {io['err']}: {io.get('msg')}"
        if case["stream"] == "offset":
            return None  # compared with the exact model at the tolerance the stable formula achieves
        n = len(case["y"])
        nm = len(case["preds"])
        rows = io["rows"]
        per_model = len(rows) // nm
        ws = [Fraction(1)] * n if case["w"] is None else [Fraction(v) for v in case["w"]]
        a = Fraction(case["level"])
        collide = case.get("fname") in ("weights", "bias")
        for name in (() if collide else ("again", "perm")):
            other = io[name]
            if name == "perm" and case["fkind"] == "numeric" and case["method"] not in ("quantile", "uniform"):
                # numpy's data-driven bin-width rules (doane, scott, fd, ...) sum the data in its own precision: for a float32
                # column the row order can change the edges numpy returns - a parameter of the model, not the library's doing
                ser = feature_series(case)
                if tc.given_edges(case["method"], ser) != tc.given_edges(case["method"], ser[case["perm"]]):
                    self.numpy_order_dependent = getattr(self, "numpy_order_dependent", 0) + 1
                    continue
            if other is None or len(other) != len(rows):
                return f"{'repeated call' if name == 'again' else 'row permutation'} gives a different table shape"
            for k, (r1, r2) in enumerate(zip(rows, other)):
                for key in ("model", "f", "mean", "count", "weights", "stderr", "p"):
                    if not (feq(r1[key], r2[key], 1e-9) or (key in ("stderr", "p") and isinstance(r1[key], float) and abs(r1[key] - r2[key]) < 1e-9)):
                        return f"{'repeated call' if name == 'again' else 'row permutation'} changes {key} of row {k}: {r1[key]!r} vs {r2[key]!r}"
        for m in range(nm):
            rs = rows[m * per_model:(m + 1) * per_model]
            if sum(r["count"] for r in rs) != n:
                return f"counts sum to {sum(r['count'] for r in rs)} != {n}"
            if abs(sum(r["weights"] for r in rs) - float(sum(ws))) > 1e-9 * float(sum(ws)):
                return "weights do not sum to the total weight"
            bias = [ident_exact(case["f"], a, Fraction(y), Fraction(z)) for y, z in zip(case["y"], case["preds"][m])]
            overall = sum(w * b for w, b in zip(ws, bias)) / sum(ws)
            recomb = sum(r["weights"] * r["mean"] for r in rs) / sum(r["weights"] for r in rs)
            if abs(recomb - float(overall)) > 1e-9 * max(1.0, abs(float(overall))):
                return f"weight-averaged group biases {recomb!r} != overall bias {float(overall)!r}"
            if case["fkind"] == "none":
                groups = {None: list(range(n))}
            else:
                ov = io["overall"][m if len(io["overall"]) > 1 else 0]
                if abs(ov["mean"] - float(overall)) > 1e-9 * max(1.0, abs(float(overall))):
                    return f"compute_bias without feature gives {ov['mean']!r}, definition {float(overall)!r}"
                groups = {}
                for i, b in enumerate(io["bins"]):
                    groups.setdefault(b, []).append(i)
                if not collide and (None in groups) != any(r["f"] is None for r in rs):
                    return "null feature values did not keep their own group"
                if len(groups) != len(rs):
                    return f"{len(rs)} output rows for {len(groups)} groups"
            # every row = the definition on some group: match by (count, weights, mean)
            defs = []
            for g, idx in groups.items():
                W = sum(ws[i] for i in idx)
                mean = sum(ws[i] * bias[i] for i in idx) / W
                var = sum(ws[i] * (bias[i] - mean) ** 2 for i in idx) / W
                c = len(idx)
                se = math.sqrt(float(var / (c - 1) if c > 1 else var))
                defs.append((c, float(W), float(mean), se))
            for r in rs:
                hit = [d for d in defs if d[0] == r["count"] and feq(d[1], r["weights"]) and feq(d[2], r["mean"]) and (feq(d[3], r["stderr"]) or abs(d[3] - r["stderr"]) < 1e-12)]
                if not hit:
                    return f"row {r} equals the definition on none of the groups {defs}"
                c, W, mean, se = hit[0]
                pm = pvalue(r["mean"], r["stderr"], c)
                if pm is None:
                    continue
                if not (feq(r["p"], pm, 1e-6) or (not math.isnan(pm) and abs(r["p"] - pm) < 1e-9)):
                    return f"p_value {r['p']!r} is not the two-sided t-test with {c - 1} degrees of freedom ({pm!r})"
        return None

    def extra_coverage(self):
        return {"numpy_bin_rule_depends_on_row_order_skipped": getattr(self, "numpy_order_dependent", 0), "edge_ties_skipped": getattr(self, "edge_ties_skipped", 0), "float_rank_divergent": getattr(self, "float_rank_divergent", 0)}

    def nontrivial(self, case, io):
        return "rows" in io and sum(1 for r in io["rows"] if r["count"] > 1) >= 2

    def shrink(self, case):
        n = len(case["y"])
        if len(case["preds"]) > 1:
            yield {**case, "preds": case["preds"][:1]}
        if n > 1:
            for i in range(n):
                c = {**case, "y": case["y"][:i] + case["y"][i + 1:], "preds": [p[:i] + p[i + 1:] for p in case["preds"]],
                     "perm": [p - (p > i) for p in case["perm"] if p != i]}
                if case["w"] is not None:
                    c["w"] = case["w"][:i] + case["w"][i + 1:]
                if case["feature"] is not None:
                    c["feature"] = case["feature"][:i] + case["feature"][i + 1:]
                yield c


PROP = C09
